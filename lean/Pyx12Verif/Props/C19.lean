/-
C19 - HTML report complete and escaped.  Property theorems about `Model/HtmlOut.lean`
(pyx12/error_html.py after the fixes D16 = messages escaped, D39 = segment id and delimiters escaped).

  escape_no_markup            escaped text has no `<`/`>`, and every `&` in it begins one of the four entities
  unescape_escape             decoding the entities undoes `escape`, for every string
  strip_recovers_segment      strip the markup of a segment line and decode: the segment as read, with its number
  messages_escaped            a message line: fixed markup, and strip + decode gives back the message text
  segment_line_escaped        the markup of a segment line is a function of marks and shape only (never of a character)
  every_segment_once_in_order the writes of a run contain exactly one segment line per reader segment, in order,
                              numbered 1, 2, …, each decoding to that segment

What is *not* proved here (checked on the real code by harness/c19.py): that the messages handed to `gen_seg` are all
the errors of the error tree (the `err_iter` cursor), and that the model agrees with error_html.py.
-/
import Pyx12Verif.Proofs.HtmlOut

namespace Pyx12Verif.Html

/-! ### specification side -/

/-- the names of the entities `escape` produces (after the `&`) -/
def entityNames : List (List Char) :=
  [['a', 'm', 'p', ';'], ['n', 'b', 's', 'p', ';'], ['g', 't', ';'], ['l', 't', ';']]

/-- the segment as read from the source: identifier, element separator, the elements joined by the element separator,
    each element being its sub-elements joined by the sub-element separator (trailing empties kept), terminator -/
def asRead (s : Seg) (d : Delims) : List Char :=
  s.id ++ [d.ele] ++ [d.ele].intercalate (s.elems.map (fun e => [d.sub].intercalate e.subs)) ++ [d.seg]

/-- what a reader of the report sees for segment number `n` -/
def render (n : Nat) (s : Seg) (d : Delims) : List Char :=
  Nat.toDigits 10 n ++ [':', ' '] ++ asRead s d ++ ['\n']

/-- what a reader sees for a message -/
def shown (m : Msg) : List Char :=
  [' '] ++ m.text ++ " (".toList ++ kindText m.kind ++ " Error Code: ".toList ++ m.code ++ ")\n".toList

/-- codes are pyx12's own literals: letters and digits -/
def plainCode (code : List Char) : Prop := ∀ c ∈ code, c ≠ '<' ∧ c ≠ '>' ∧ c ≠ '&'

def errSpan : List Char := "<span class=\"ele_err\"></span>".toList

/-- markup contributed by the sub-elements `j, j+1, …` (`k` of them) -/
def subTags (m : Option (Option Nat)) : Nat → Nat → List Char
  | _, 0 => []
  | j, k + 1 => (if m = some (some j) then errSpan else []) ++ subTags m (j + 1) k

/-- markup contributed by one element with `k` further sub-elements -/
def elemTags (m : Option (Option Nat)) (k : Nat) : List Char :=
  if k = 0 then (if m.isSome then errSpan else []) else subTags m 1 (k + 1)

/-- markup contributed by the elements of a segment, given only their sub-element counts -/
def shapeTags (marks : List (Nat × Option Nat)) : Nat → List Nat → List Char
  | _, [] => []
  | i, k :: r => elemTags (findMark marks i) k ++ shapeTags marks (i + 1) r

def shape (s : Seg) : List Nat := s.elems.map (fun e => e.rest.length)

/-! ### 1. escaping -/

theorem amp_begins_entity (s : List Char) :
    ∀ pre post, escape s = pre ++ '&' :: post → ∃ e ∈ entityNames, e <+: post := by
  induction s with
  | nil => intro pre post h; simp [escape_nil] at h
  | cons x xs ih =>
    intro pre post h
    rw [escape_cons, List.append_eq_append_iff] at h
    rcases h with ⟨a', h1, h2⟩ | ⟨c', h1, h2⟩
    · exact ih a' post h2
    · cases c' with
      | nil => simp at h2; exact ih [] post (by simpa using h2.symm)
      | cons y c'' =>
        simp only [List.cons_append, List.cons.injEq] at h2
        obtain ⟨rfl, rfl⟩ := h2
        -- escChar x = pre ++ '&' :: c''
        have key : c'' ∈ entityNames := by
          unfold escChar at h1
          split at h1
          · cases pre with
            | nil => simp [entAmp] at h1; simp [entityNames, ← h1]
            | cons p ps =>
              have : '&' ∈ ['a', 'm', 'p', ';'] := by
                simp only [entAmp, List.cons_append, List.cons.injEq] at h1; rw [h1.2]; simp
              simp at this
          split at h1
          · cases pre with
            | nil => simp [entNbsp] at h1; simp [entityNames, ← h1]
            | cons p ps =>
              have : '&' ∈ ['n', 'b', 's', 'p', ';'] := by
                simp only [entNbsp, List.cons_append, List.cons.injEq] at h1; rw [h1.2]; simp
              simp at this
          split at h1
          · cases pre with
            | nil => simp [entGt] at h1; simp [entityNames, ← h1]
            | cons p ps =>
              have : '&' ∈ ['g', 't', ';'] := by
                simp only [entGt, List.cons_append, List.cons.injEq] at h1; rw [h1.2]; simp
              simp at this
          split at h1
          · cases pre with
            | nil => simp [entLt] at h1; simp [entityNames, ← h1]
            | cons p ps =>
              have : '&' ∈ ['l', 't', ';'] := by
                simp only [entLt, List.cons_append, List.cons.injEq] at h1; rw [h1.2]; simp
              simp at this
          · rename_i n1 n2 n3 n4
            cases pre with
            | nil => simp at h1; exact absurd h1.1 n1
            | cons p ps => simp at h1
        exact ⟨c'', key, List.prefix_append _ _⟩

/-- escaped text contains no angle bracket, and every `&` in it begins one of the produced entities -/
theorem escape_no_markup (s : List Char) :
    (∀ c ∈ escape s, c ≠ '<' ∧ c ≠ '>') ∧
    (∀ pre post, escape s = pre ++ '&' :: post → ∃ e ∈ entityNames, e <+: post) :=
  ⟨escape_noAngle s, amp_begins_entity s⟩

/-- `escape` is the per-character substitution (the order of the four `replace` calls makes it so) -/
theorem escape_per_char (s : List Char) : escape s = s.flatMap escChar := escape_eq_flatMap s

theorem unescape_escape (s : List Char) : unescape (escape s) = s :=
  (unesc_escape s).eval (by simp [unescAux])

/-- hence `escape` loses nothing -/
theorem escape_injective : Function.Injective escape := by
  intro a b h
  have := congrArg unescape h
  simpa [unescape_escape] using this

/-! ### 2. a segment line -/

theorem joinTail_eq (sep : List Char) (x : List Char) (xs : List (List Char)) :
    x ++ joinTail sep xs = sep.intercalate (x :: xs) := by
  induction xs generalizing x with
  | nil => simp [joinTail, List.intercalate]
  | cons y ys ih =>
    simp only [joinTail, List.append_assoc]
    rw [ih y]
    simp [List.intercalate, List.intersperse]

theorem joinWith_eq_intercalate (sep : List Char) (xs : List (List Char)) :
    joinWith sep xs = sep.intercalate xs := by
  cases xs with
  | nil => simp [joinWith, List.intercalate]
  | cons x r => simp only [joinWith]; exact joinTail_eq sep x r

theorem decFuel_eq (f n : Nat) (acc : List Char) : decFuel f n acc = Nat.toDigitsCore 10 f n acc := by
  induction f generalizing n acc with
  | zero => simp [decFuel, Nat.toDigitsCore]
  | succ f ih =>
    simp only [decFuel, Nat.toDigitsCore]
    have hd : ∀ d, d < 10 → digitChar d = Nat.digitChar d := by decide
    by_cases h : n < 10
    · have h0 : n / 10 = 0 := Nat.div_eq_of_lt h
      simp [h, h0, Nat.mod_eq_of_lt h, hd n h]
    · have h0 : n / 10 ≠ 0 := by omega
      simp [h, h0, ih, hd (n % 10) (Nat.mod_lt _ (by decide))]

theorem dec_eq_toDigits (n : Nat) : dec n = Nat.toDigits 10 n := by
  simp [dec, Nat.toDigits, decFuel_eq]

theorem Pieces.map {f : List Char → List Char} {α : Type} (g g' : α → List Char) :
    ∀ (xs : List α), (∀ x ∈ xs, Ctx f (g x) (g' x)) → Pieces f (xs.map g) (xs.map g')
  | [], _ => Pieces.nil
  | x :: r, h => Pieces.cons (h x (by simp)) (Pieces.map g g' r (fun y hy => h y (by simp [hy])))

theorem strip_errOpen : Ctx (stripAux false) spanErrOpen [] := by
  intro r; simp [spanErrOpen, stripAux]

theorem strip_spanClose : Ctx (stripAux false) spanClose [] := by
  intro r; simp [spanClose, stripAux]

theorem strip_wrapErr (v : List Char) : Ctx (stripAux false) (wrapErr (escape v)) (escape v) := by
  have := (strip_errOpen.app (strip_escape v)).app strip_spanClose
  simpa [wrapErr] using this

theorem strip_subStrs (m : Option (Option Nat)) :
    ∀ (vs : List (List Char)) (j : Nat), Pieces (stripAux false) (subStrs m j vs) (vs.map escape)
  | [], _ => by simpa [subStrs] using Pieces.nil
  | v :: r, j => by
    simp only [subStrs, List.map_cons]
    refine Pieces.cons ?_ (strip_subStrs m r (j + 1))
    split
    · exact strip_wrapErr v
    · exact strip_escape v

theorem strip_elemStr (sub : List Char) (m : Option (Option Nat)) (e : Elem) :
    Ctx (stripAux false) (elemStr (escape sub) m e) (joinWith (escape sub) (e.subs.map escape)) := by
  unfold elemStr
  split
  · rename_i h
    simp only [Elem.subs, h, List.map_cons, List.map_nil, joinWith, joinTail, List.append_nil]
    split
    · exact strip_wrapErr _
    · exact strip_escape _
  · exact Ctx.joinWith (strip_escape sub) (strip_subStrs m e.subs 1)

theorem strip_elemStrs (marks : List (Nat × Option Nat)) (sub : List Char) :
    ∀ (es : List Elem) (i : Nat), Pieces (stripAux false) (elemStrs marks (escape sub) i es)
      (es.map (fun e => joinWith (escape sub) (e.subs.map escape)))
  | [], _ => by simpa [elemStrs] using Pieces.nil
  | e :: r, i => by
    simp only [elemStrs, List.map_cons]
    exact Pieces.cons (strip_elemStr sub _ e) (strip_elemStrs marks sub r (i + 1))

/-- the segment text with every value, the identifier and the delimiters escaped and no markup at all -/
def escapedText (s : Seg) (d : Delims) : List Char :=
  escape s.id ++ escape [d.ele] ++
    joinWith (escape [d.ele]) (s.elems.map (fun e => joinWith (escape [d.sub]) (e.subs.map escape))) ++ escape [d.seg]

theorem strip_segStr (marks : List (Nat × Option Nat)) (s : Seg) (d : Delims) :
    Ctx (stripAux false) (segStr marks s d) (escapedText s d) := by
  unfold segStr escapedText
  exact (((strip_escape _).app (strip_escape _)).app
    (Ctx.joinWith (strip_escape _) (strip_elemStrs marks [d.sub] s.elems 1))).app (strip_escape _)

theorem unesc_escapedText (s : Seg) (d : Delims) : Ctx (unescAux 0) (escapedText s d) (asRead s d) := by
  unfold escapedText asRead
  refine (((unesc_escape _).app (unesc_escape _)).app ?_).app (unesc_escape _)
  rw [← joinWith_eq_intercalate]
  have h : ∀ e : Elem, [d.sub].intercalate e.subs = joinWith [d.sub] e.subs :=
    fun e => (joinWith_eq_intercalate _ _).symm
  simp only [h]
  refine Ctx.joinWith (unesc_escape _) (Pieces.map _ _ _ ?_)
  intro e _
  have := Pieces.map (f := unescAux 0) escape id e.subs (fun v _ => unesc_escape v)
  simpa using Ctx.joinWith (unesc_escape [d.sub]) this

theorem strip_lineClose : Ctx (stripAux false) lineClose ['\n'] := by
  intro r; simp [lineClose, stripAux]

theorem strip_segOpen : Ctx (stripAux false) spanSegOpen [] := by
  intro r; simp [spanSegOpen, stripAux]

theorem dec_plain (n : Nat) : ∀ c ∈ dec n, c ≠ '<' ∧ c ≠ '>' ∧ c ≠ '&' :=
  fun c hc => isDec_ne (dec_isDec n c hc)

theorem strip_nbsp : Ctx (stripAux false) entNbsp entNbsp :=
  strip_plain _ (by simp [entNbsp])

/-- stripping the markup of a segment line leaves number, colon, blank entity, the escaped text, newline -/
theorem strip_segLine (marks : List (Nat × Option Nat)) (n : Nat) (s : Seg) (d : Delims) :
    stripTags (segLineM marks n s d) = dec n ++ [':'] ++ entNbsp ++ escapedText s d ++ ['\n'] := by
  unfold stripTags segLineM
  refine Ctx.eval ?_ (by simp [stripAux])
  exact ((((strip_segOpen.app (strip_plain _ (fun c hc => (dec_plain n c hc).1))).app
    (strip_plain [':'] (by simp))).app strip_nbsp).app (strip_segStr marks s d)).app strip_lineClose
    |> fun h => by simpa using h

/-- strip the markup, decode the entities: the line number and the segment exactly as it was read
    (all elements and sub-elements, joined by the source delimiters, trailing empty ones kept) -/
theorem strip_recovers_segment (marks : List (Nat × Option Nat)) (n : Nat) (s : Seg) (d : Delims) :
    unescape (stripTags (segLineM marks n s d)) = render n s d := by
  rw [strip_segLine]
  unfold unescape render
  rw [← dec_eq_toDigits]
  refine Ctx.eval ?_ (by simp [unescAux])
  have h := ((((unesc_plain _ (fun c hc => (dec_plain n c hc).2.2)).app
    (unesc_plain [':'] (by simp))).app unesc_nbsp).app (unesc_escapedText s d)).app
    (unesc_plain ['\n'] (by simp))
  simpa using h

theorem strip_recovers_segment_unmarked (n : Nat) (s : Seg) (d : Delims) :
    unescape (stripTags (segLine n s d)) = render n s d := strip_recovers_segment [] n s d

/-! ### 3. markup of a segment line -/

theorem tags_errOpen : Ctx (tagsAux false) spanErrOpen spanErrOpen := by
  intro r; simp [spanErrOpen, tagsAux]

theorem tags_spanClose : Ctx (tagsAux false) spanClose spanClose := by
  intro r; simp [spanClose, tagsAux]

theorem tags_wrapErr (v : List Char) : Ctx (tagsAux false) (wrapErr (escape v)) errSpan := by
  have := (tags_errOpen.app (tags_escape v)).app tags_spanClose
  have e : errSpan = spanErrOpen ++ [] ++ spanClose := by decide
  rw [e]; simpa [wrapErr] using this

theorem tags_piece (m : Option (Option Nat)) (j : Nat) (v : List Char) :
    Ctx (tagsAux false) (if m = some (some j) then wrapErr (escape v) else escape v)
      (if m = some (some j) then errSpan else []) := by
  split
  · exact tags_wrapErr v
  · exact tags_escape v

theorem tags_subTail (sub : List Char) (m : Option (Option Nat)) :
    ∀ (vs : List (List Char)) (j : Nat),
      Ctx (tagsAux false) (joinTail (escape sub) (subStrs m j vs)) (subTags m j vs.length)
  | [], _ => by simpa [subStrs, joinTail, subTags] using Ctx.nil _
  | v :: r, j => by
    simp only [subStrs, joinTail, List.length_cons, subTags]
    have := ((tags_escape sub).app (tags_piece m j v)).app (tags_subTail sub m r (j + 1))
    simpa using this

theorem tags_elemStr (sub : List Char) (m : Option (Option Nat)) (e : Elem) :
    Ctx (tagsAux false) (elemStr (escape sub) m e) (elemTags m e.rest.length) := by
  unfold elemStr elemTags
  by_cases h : e.rest = []
  · simp only [h, if_true, List.length_nil]
    split
    · exact tags_wrapErr _
    · exact tags_escape _
  · have hl : e.rest.length ≠ 0 := by simpa using h
    simp only [h, hl, if_false, Elem.subs, subStrs, joinWith, subTags]
    exact (tags_piece m 1 e.first).app (tags_subTail sub m e.rest 2)

theorem tags_elemTail (marks : List (Nat × Option Nat)) (ele sub : List Char) :
    ∀ (es : List Elem) (i : Nat),
      Ctx (tagsAux false) (joinTail (escape ele) (elemStrs marks (escape sub) i es))
        (shapeTags marks i (es.map (fun e => e.rest.length)))
  | [], _ => by simpa [elemStrs, joinTail, shapeTags] using Ctx.nil _
  | e :: r, i => by
    simp only [elemStrs, joinTail, List.map_cons, shapeTags]
    have := ((tags_escape ele).app (tags_elemStr sub (findMark marks i) e)).app (tags_elemTail marks ele sub r (i + 1))
    simpa using this

theorem tags_segStr (marks : List (Nat × Option Nat)) (s : Seg) (d : Delims) :
    Ctx (tagsAux false) (segStr marks s d) (shapeTags marks 1 (shape s)) := by
  unfold segStr shape
  cases hs : s.elems with
  | nil =>
    have := (((tags_escape s.id).app (tags_escape [d.ele])).app (Ctx.nil _)).app (tags_escape [d.seg])
    simpa [elemStrs, joinWith, shapeTags] using this
  | cons e r =>
    simp only [elemStrs, joinWith, List.map_cons, shapeTags]
    have := (((tags_escape s.id).app (tags_escape [d.ele])).app
      ((tags_elemStr [d.sub] (findMark marks 1) e).app (tags_elemTail marks [d.ele] [d.sub] r 2))).app
      (tags_escape [d.seg])
    simpa using this

theorem tags_segOpen : Ctx (tagsAux false) spanSegOpen spanSegOpen := by
  intro r; simp [spanSegOpen, tagsAux]

theorem tags_lineClose : Ctx (tagsAux false) lineClose "</span><br />".toList := by
  intro r; simp [lineClose, tagsAux]

/-- after the fixes: the markup of a segment line is the fixed frame plus one empty highlighting span per marked
    position; it is a function of the marks and of the *shape* of the segment (how many elements with how many
    sub-elements) - no character of the identifier, of a value or of a delimiter takes part in it -/
theorem segment_line_escaped (marks : List (Nat × Option Nat)) (n : Nat) (s : Seg) (d : Delims) :
    tags (segLineM marks n s d) = spanSegOpen ++ shapeTags marks 1 (shape s) ++ "</span><br />".toList := by
  unfold tags segLineM
  refine Ctx.eval ?_ (by simp [tagsAux])
  have h := ((((tags_segOpen.app (tags_plain _ (fun c hc => (dec_plain n c hc).1))).app
    (tags_plain [':'] (by simp))).app (tags_plain entNbsp (by simp [entNbsp]))).app
    (tags_segStr marks s d)).app tags_lineClose
  simpa using h

/-- same marks, same shape: same markup, whatever the characters, the line number and the delimiters -/
theorem segment_line_markup_shape_only (marks : List (Nat × Option Nat)) (n n' : Nat) (s s' : Seg)
    (d d' : Delims) (h : shape s = shape s') :
    tags (segLineM marks n s d) = tags (segLineM marks n' s' d') := by
  rw [segment_line_escaped, segment_line_escaped, h]

theorem shapeTags_nil : ∀ (ks : List Nat) (i : Nat), shapeTags [] i ks = []
  | [], _ => by simp [shapeTags]
  | k :: r, i => by
    have hs : ∀ (k j : Nat), subTags none j k = [] := by
      intro k; induction k with
      | zero => intro j; simp [subTags]
      | succ k ih => intro j; simp [subTags, ih]
    simp [shapeTags, findMark, elemTags, hs, shapeTags_nil r]

/-- without marks the markup is the fixed template -/
theorem segment_line_markup_fixed (n : Nat) (s : Seg) (d : Delims) :
    tags (segLine n s d) = "<span class=\"seg\"></span><br />".toList := by
  unfold segLine
  rw [segment_line_escaped, shapeTags_nil]
  decide

/-! ### 4. message lines -/

theorem messages_escaped (m : Msg) (hc : plainCode m.code) :
    tags (msgLine m) = "<span class=\"error\"></span><br />".toList ∧
    unescape (stripTags (msgLine m)) = shown m := by
  have hk : ∀ c ∈ kindText m.kind, c ≠ '<' ∧ c ≠ '>' ∧ c ≠ '&' := by
    cases m.kind <;> decide
  have hl : ∀ c ∈ errorCodeText, c ≠ '<' ∧ c ≠ '>' ∧ c ≠ '&' := by decide
  constructor
  · unfold tags msgLine
    refine Ctx.eval ?_ (by simp [tagsAux])
    have ho : Ctx (tagsAux false) spanErrorOpen spanErrorOpen := by
      intro r; simp [spanErrorOpen, tagsAux]
    have h := (((((((ho.app (tags_plain entNbsp (by simp [entNbsp]))).app (tags_escape m.text)).app
      (tags_plain [' ', '('] (by simp))).app (tags_plain _ (fun c h => (hk c h).1))).app
      (tags_plain _ (fun c h => (hl c h).1))).app (tags_plain _ (fun c h => (hc c h).1))).app
      (tags_plain [')'] (by simp))).app tags_lineClose
    have e : spanErrorOpen ++ "</span><br />".toList = "<span class=\"error\"></span><br />".toList := by decide
    rw [← e]; simpa using h
  · have hs : stripTags (msgLine m) =
        entNbsp ++ escape m.text ++ [' ', '('] ++ kindText m.kind ++ errorCodeText ++ m.code ++ [')'] ++ ['\n'] := by
      unfold stripTags msgLine
      refine Ctx.eval ?_ (by simp [stripAux])
      have ho : Ctx (stripAux false) spanErrorOpen [] := by
        intro r; simp [spanErrorOpen, stripAux]
      have h := (((((((ho.app strip_nbsp).app (strip_escape m.text)).app
        (strip_plain [' ', '('] (by simp))).app (strip_plain _ (fun c h => (hk c h).1))).app
        (strip_plain _ (fun c h => (hl c h).1))).app (strip_plain _ (fun c h => (hc c h).1))).app
        (strip_plain [')'] (by simp))).app strip_lineClose
      simpa using h
    rw [hs]
    unfold unescape shown
    refine Ctx.eval ?_ (by simp [unescAux])
    have h := ((((((unesc_nbsp.app (unesc_escape m.text)).app
      (unesc_plain [' ', '('] (by simp))).app (unesc_plain _ (fun c h => (hk c h).2.2))).app
      (unesc_plain _ (fun c h => (hl c h).2.2))).app (unesc_plain _ (fun c h => (hc c h).2.2))).app
      (unesc_plain [')'] (by simp))).app (unesc_plain ['\n'] (by simp))
    have e1 : " (".toList = [' ', '('] := by decide
    have e2 : ")\n".toList = [')', '\n'] := by decide
    have e3 : " Error Code: ".toList = errorCodeText := by decide
    rw [e1, e2, e3]
    simpa using h

/-! ### 5. one segment line per reader segment, in order -/

theorem startsWith_self_append (p r : List Char) : startsWith p (p ++ r) = true := by
  induction p with
  | nil => simp [startsWith]
  | cons x xs ih => simp [startsWith, ih]

theorem isSegWrite_segLine (marks : List (Nat × Option Nat)) (n : Nat) (s : Seg) (d : Delims) :
    isSegWrite (segLineM marks n s d) = true := by
  unfold isSegWrite segLineM
  simp only [List.append_assoc]
  exact startsWith_self_append _ _

theorem isSegWrite_msgLine (m : Msg) : isSegWrite (msgLine m) = false := by
  simp [isSegWrite, msgLine, spanSegOpen, spanErrorOpen, startsWith]

theorem isSegWrite_infoLine (i : List Char) : isSegWrite (infoLine i) = false := by
  simp [isSegWrite, infoLine, spanSegOpen, spanInfoOpen, startsWith]

theorem isSegWrite_header (date : List Char) : isSegWrite (headerText date) = false := by
  simp [isSegWrite, headerText, spanSegOpen, startsWith]

theorem isSegWrite_footer : isSegWrite footerText = false := by
  simp [isSegWrite, footerText, spanSegOpen, startsWith]

theorem filter_msgs (ms : List Msg) : (ms.map msgLine).filter isSegWrite = [] := by
  induction ms with
  | nil => simp
  | cons m r ih => simp [isSegWrite_msgLine, ih]

theorem filter_genSeg (d : Delims) (n : Nat) (s : Seg) (a : Ann) :
    (genSeg d n s a).filter isSegWrite = [segLineM a.marks n s d] := by
  unfold genSeg
  cases hi : a.info <;>
    simp [infoWrites, filter_msgs, isSegWrite_segLine, isSegWrite_infoLine]

theorem segLoop_lines (d : Delims) :
    ∀ (segs : List (Seg × Ann)) (n : Nat),
      ((segLoop d n segs).filter isSegWrite).map (fun w => unescape (stripTags w)) =
        segs.mapIdx (fun i sa => render (n + i + 1) sa.1 d)
  | [], _ => by simp [segLoop]
  | sa :: r, n => by
    simp only [segLoop, List.filter_append, filter_genSeg, List.map_cons,
      List.mapIdx_cons, strip_recovers_segment, List.singleton_append]
    rw [segLoop_lines d r (n + 1)]
    simp [Nat.add_assoc, Nat.add_comm 1]

/-- the per-segment loop of `x12n_document`, read back from the sink: among all writes of a run exactly the segment
    lines are recognised, there is one per reader segment, in the reader's order, numbered 1, 2, 3, …, and each
    decodes to that segment - whatever messages, marks and loop information accompany the segments -/
theorem every_segment_once_in_order (date : List Char) (d : Delims) (segs : List (Seg × Ann)) (tail : List Msg) :
    ((report date d segs tail).filter isSegWrite).map (fun w => unescape (stripTags w)) =
      segs.mapIdx (fun i sa => render (i + 1) sa.1 d) := by
  unfold report
  simp only [List.filter_append, List.map_append, filter_msgs]
  have := segLoop_lines d segs 0
  simp [isSegWrite_header, isSegWrite_footer, this]

/-! ### non-vacuity -/

/-- `<i>*x~` read with `<` as sub-element separator: nothing of it survives as markup -/
example : segLine 7 ⟨"<i>".toList, [⟨"a b".toList, []⟩, ⟨"x&y".toList, ["".toList, "".toList]⟩]⟩ ⟨'~', '*', '<'⟩ =
    "<span class=\"seg\">7:&nbsp;&lt;i&gt;*a&nbsp;b*x&amp;y&lt;&lt;~</span><br />\n".toList := by decide

example : render 7 ⟨"<i>".toList, [⟨"a b".toList, []⟩, ⟨"x&y".toList, ["".toList, "".toList]⟩]⟩ ⟨'~', '*', '<'⟩ =
    "7: <i>*a b*x&y<<~\n".toList := by decide

/-- a marked simple element and a marked second sub-element -/
example : segLineM [(1, none), (2, some 2)] 12 ⟨"N1".toList, [⟨"A".toList, []⟩, ⟨"B".toList, ["<".toList]⟩]⟩ ⟨'~', '*', ':'⟩ =
    ("<span class=\"seg\">12:&nbsp;N1*<span class=\"ele_err\">A</span>*B:<span class=\"ele_err\">&lt;</span>~" ++
     "</span><br />\n").toList := by decide

example : msgLine ⟨.element, "too long: <b>".toList, "5".toList⟩ =
    "<span class=\"error\">&nbsp;too&nbsp;long:&nbsp;&lt;b&gt; (Element Error Code: 5)</span><br />\n".toList := by
  decide

/-- the order of the replacements matters: escaping `&` last would escape the entities again -/
example : rep '&' entAmp (rep '<' entLt "<".toList) ≠ escape "<".toList := by decide

/-- `unescape` is not the identity and really decodes (`&amp;lt;` is the text `&lt;`) -/
example : unescape "&amp;lt;&nbsp;&gt;&x".toList = "&lt; >&x".toList := by decide

example : (report "d".toList ⟨'~', '*', ':'⟩
    [(⟨"ISA".toList, [⟨"00".toList, []⟩]⟩, ⟨[], some "Loop ISA".toList, [], [⟨.segment, "m".toList, "1".toList⟩]⟩),
     (⟨"IEA".toList, []⟩, ⟨[⟨.segment, "p".toList, "3".toList⟩], none, [], []⟩)] []).length = 7 := by decide

end Pyx12Verif.Html
