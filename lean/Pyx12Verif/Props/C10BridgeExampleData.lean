/-
Non-vacuity for Props/C10Bridge.lean, continued (Props/C10BridgeExample.lean builds the reader tree `exT` and its conversion
`exD`): the converted tree — shape, serialisation (`toDNode_serialise`), the invariant — computed by the kernel.
-/
import Pyx12Verif.Props.C10BridgeExample

namespace Pyx12Verif.Bridge.Ex
open Pyx12Verif Pyx12Verif.Doc Pyx12Verif.Doc.Ex Pyx12Verif.Bridge

/-- its shape: GS_LOOP@20 [GS@10, ST_LOOP@20 [ST@10 REF@20 SE@30], ST_LOOP@20 [ST@10 SE@30], GE@30] -/
def shapeD : DataTree.DNode → List (DataTree.Str × Nat × Nat)
  | .loop h _ cs => (h.id, h.pos, cs.length) :: []
  | .seg d _ => [(d.id, d.pos, 0)]
  | .dead => []

example : shapeD exD = [("GS_LOOP".toList, 20, 4)] ∧
    (match exD with
     | .loop _ _ cs => (cs.map shapeD).flatten
     | _ => []) = [("GS".toList, 10, 0), ("ST_LOOP".toList, 20, 3), ("ST_LOOP".toList, 20, 2), ("GE".toList, 30, 0)] := by
  decide +kernel

/-- `toDNode_serialise`: the serialisation is the source segments 1 … 7 -/
example : DataTree.fmtAll exD =
    ["GS*HC*S*R*20200101*1200*1*X*004010X1~".toList, "ST*837*0001~".toList, "REF*AB*1*X~".toList, "SE*3*0001~".toList,
     "ST*837*0002~".toList, "SE*2*0002~".toList, "GE*2*1~".toList] := by decide +kernel

example : DataTree.segsOf exD = treeSegs segsR exT := toDNode_serialise md segsR exT

/-- the invariant on the converted tree: by the bridge, and by kernel evaluation -/
theorem exD_sorted : DataTree.AllSorted exD := reader_tree_allSorted ms (some 12) textR (readerOK_of_bool rok12) md segsR exT exT_mem
example : allSortedB exD = true := by decide +kernel

end Pyx12Verif.Bridge.Ex
