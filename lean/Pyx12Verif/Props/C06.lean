/-
C06 — every acknowledgement written is a complete, well-formed interchange (model `Ack`; 997 visitor with its hand-kept
counters, 999 visitor through the `X12Writer` model; `fixed` = the code after the proposed repairs).

`envCheck` is an independent structural recount of a list of segments (the reader's envelope rules: nesting, SE count =
segments since ST + 1, GE count = sets, IEA count = groups, trailer control number = header's).  The theorems say the
complete 997 passes it, ST control numbers are pairwise different, rendering and re-splitting the text gives back the
same segments and fields when no field contains a delimiter, and the visitor does not raise.
-/
import Pyx12Verif.Proofs.AckContent
import Pyx12Verif.Proofs.AckDigits
import Pyx12Verif.Props.C05

namespace Pyx12Verif.C06
open Pyx12Verif.ErrTree Pyx12Verif.Ack Pyx12Verif.C05

/-! ## envelope recount -/

structure Env where
  isaCtl : Option Str
  gsCtl : Option Str
  stCtl : Option Str
  nGs : Nat
  nSt : Nat
  nSeg : Nat
  ok : Bool
deriving DecidableEq, Repr

def Env.init : Env := { isaCtl := none, gsCtl := none, stCtl := none, nGs := 0, nSt := 0, nSeg := 0, ok := true }

def envStep (e : Env) (s : PSeg) : Env :=
  if s.id = isaId then
    { e with ok := e.ok && e.isaCtl.isNone && (s.getValue 12).isSome, isaCtl := s.getValue 12, nGs := 0 }
  else if s.id = sGS then
    { e with ok := e.ok && e.isaCtl.isSome && e.gsCtl.isNone && (s.getValue 5).isSome, gsCtl := s.getValue 5,
             nGs := e.nGs + 1, nSt := 0 }
  else if s.id = sST then
    { e with ok := e.ok && e.gsCtl.isSome && e.stCtl.isNone && (s.getValue 1).isSome, stCtl := s.getValue 1,
             nSt := e.nSt + 1, nSeg := 1 }
  else if s.id = sSE then
    { e with ok := e.ok && e.stCtl.isSome && (s.getValue 1 == e.stCtl) && (s.getValue 0 == some (natStr (e.nSeg + 1))),
             stCtl := none }
  else if s.id = sGE then
    { e with ok := e.ok && e.gsCtl.isSome && e.stCtl.isNone && (s.getValue 1 == e.gsCtl) &&
               (s.getValue 0 == some (natStr e.nSt)), gsCtl := none }
  else if s.id = sIEA then
    { e with ok := e.ok && e.isaCtl.isSome && e.gsCtl.isNone && (s.getValue 1 == e.isaCtl) &&
               (s.getValue 0 == some (natStr e.nGs)), isaCtl := none }
  else { e with nSeg := e.nSeg + 1 }

def envRun (e : Env) : List PSeg → Env
  | [] => e
  | s :: r => envRun (envStep e s) r

/-- no envelope error: every check passed and every loop was closed -/
def envCheck (l : List PSeg) : Bool :=
  (envRun Env.init l).ok && (envRun Env.init l).isaCtl.isNone && (envRun Env.init l).gsCtl.isNone &&
  (envRun Env.init l).stCtl.isNone

theorem envRun_append (e : Env) (a b : List PSeg) : envRun e (a ++ b) = envRun (envRun e a) b := by
  induction a generalizing e with
  | nil => rfl
  | cons x r ih => simp [envRun, ih]

def Body (s : PSeg) : Prop :=
  s.id ≠ isaId ∧ s.id ≠ sGS ∧ s.id ≠ sST ∧ s.id ≠ sSE ∧ s.id ≠ sGE ∧ s.id ≠ sIEA

theorem envRun_body (e : Env) (l : List PSeg) (h : ∀ x ∈ l, Body x) :
    envRun e l = { e with nSeg := e.nSeg + l.length } := by
  induction l generalizing e with
  | nil => simp [envRun]
  | cons x r ih =>
    obtain ⟨h1, h2, h3, h4, h5, h6⟩ := h x (by simp)
    simp only [envRun, envStep, h1, h2, h3, h4, h5, h6, if_false]
    rw [ih _ (fun y hy => h y (by simp [hy]))]
    simp; omega

theorem stSeg997_eq (n : Nat) : stSeg997 n = { id := sST, elems := [[['9', '9', '7']], [fmt04 n]] } := by
  unfold stSeg997
  rw [mkSeg_starJoin_safe _ (by simp)]
  · have : sST ≠ isaId := by decide
    have h9 : splitOn ':' ['9', '9', '7'] = [['9', '9', '7']] := by decide
    simp [mkSegOf, this, h9, splitOn_no_sep ':' _ (fmt04_no n ':' (by simp))]
  · intro p hp
    simp at hp
    rcases hp with rfl | rfl | rfl
    · decide
    · decide
    · exact ⟨fmt04_no n '*' (by simp), fmt04_no n '~' (by simp)⟩

theorem seSeg997_values (c n : Nat) :
    (seSeg997 c n).getValue 0 = some (natStr c) ∧ (seSeg997 c n).getValue 1 = some (fmt04 n) := by
  simp [seSeg997, bare, PSeg.getValue, fmtComp_split_safe _ (natStr_no c ':' (by simp)),
    fmtComp_split_safe _ (fmt04_no n ':' (by simp))]

theorem ak1_body (g : Gs) : Body (ak1Seg997 g) := by
  have : (ak1Seg997 g).id = sAK1 := mkSeg_starJoin_id _ _ _ (by decide)
  unfold Body; rw [this]; decide

theorem ak9_body (g : Gs) : Body (ak9Seg997 g) := by
  unfold Body; rw [ak9Seg997_id]; decide

theorem lines_body (cfg : Cfg) (g : Gs) (hg : GsOk cfg g) : ∀ x ∈ (gsLines cfg g).segs, Body x := by
  intro x hx
  rcases gsLines_ids cfg g.children hg x hx with h | h | h | h <;> (unfold Body; rw [h]; decide)

/-- one group block: opens and closes exactly one set whose SE count is the number of segments actually in it -/
theorem envRun_block (cfg : Cfg) (n : Nat) (g : Gs) (hg : GsOk cfg g) (e : Env) (hst : e.stCtl = none)
    (hgs : e.gsCtl.isSome = true) :
    envRun e (block997 cfg n g) = { e with nSt := e.nSt + 1, nSeg := (gsLines cfg g).segs.length + 3 } := by
  unfold block997
  rw [envRun_append, envRun_append]
  have hst_id : sST ≠ isaId ∧ sST ≠ sGS := by decide
  -- ST, AK1
  have e1 : envRun e [stSeg997 n, ak1Seg997 g] =
      { e with stCtl := some (fmt04 n), nSt := e.nSt + 1, nSeg := 2 } := by
    obtain ⟨b1, b2, b3, b4, b5, b6⟩ := ak1_body g
    simp only [envRun, envStep, b1, b2, b3, b4, b5, b6, if_false]
    rw [stSeg997_eq]
    simp [hst_id.1, hst_id.2, PSeg.getValue, fmtComp_single, hst, hgs]
  rw [e1, envRun_body _ _ (lines_body cfg g hg)]
  -- AK9, SE
  obtain ⟨b1, b2, b3, b4, b5, b6⟩ := ak9_body g
  have hse : sSE ≠ isaId ∧ sSE ≠ sGS ∧ sSE ≠ sST := by decide
  have hv := seSeg997_values ((gsLines cfg g).segs.length + 4) n
  simp only [envRun, envStep, b1, b2, b3, b4, b5, b6, if_false, seSeg997_id, hse.1, hse.2.1, hse.2.2, if_true, hv.1, hv.2]
  have : 2 + (gsLines cfg g).segs.length + 1 + 1 = (gsLines cfg g).segs.length + 4 := by omega
  simp [this]
  exact ⟨hst.symm, by omega⟩

theorem envRun_blocks (cfg : Cfg) (n : Nat) (l : List Gs) (hl : ∀ g ∈ l, GsOk cfg g) (e : Env) (hst : e.stCtl = none)
    (hgs : e.gsCtl.isSome = true) :
    ∃ k, envRun e (blocks997 cfg n l) = { e with nSt := e.nSt + l.length, nSeg := k } := by
  induction l generalizing n e with
  | nil => exact ⟨e.nSeg, by simp [blocks997, envRun]⟩
  | cons g r ih =>
    simp only [blocks997, envRun_append]
    rw [envRun_block cfg (n + 1) g (hl g (by simp)) e hst hgs]
    obtain ⟨k, hk⟩ := ih (n + 1) (fun x hx => hl x (by simp [hx]))
      { e with nSt := e.nSt + 1, nSeg := (gsLines cfg g).segs.length + 3 } hst hgs
    exact ⟨k, by rw [hk]; simp; omega⟩

/-- values of the current group node and the parameters that reach trailer segments through string formatting -/
def TrailerSafe (s : State) (p : Params) : Prop :=
  Safe (isaCtl p) ∧ ∀ g, curGsNode s = some g → ∀ v, g.gs06 = some v → Safe v

theorem gs997_ctl (cfg : Cfg) (a : Isa) (g : Gs) (p : Params) (gs : PSeg) (h : gsSeg997 cfg a g p = some gs) :
    ∃ v, g.gs06 = some v ∧ gs.elems.length = 8 ∧ gs.elems[5]? = some (splitOn ':' v) := by
  unfold gsSeg997 at h
  obtain ⟨y8, w8, k8, _, q8⟩ := optAppend_some _ _ _ h
  obtain ⟨y7, w7, k7, _, q7⟩ := optAppend_some _ _ _ k8
  obtain ⟨y6, w6, k6, e6, q6⟩ := optAppend_some _ _ _ k7
  obtain ⟨y5, w5, k5, _, q5⟩ := optAppend_some _ _ _ k6
  obtain ⟨y4, w4, k4, _, q4⟩ := optAppend_some _ _ _ k5
  obtain ⟨y3, w3, k3, _, q3⟩ := optAppend_some _ _ _ k4
  obtain ⟨y2, w2, k2, _, q2⟩ := optAppend_some _ _ _ k3
  obtain ⟨y1, w1, k1, _, q1⟩ := optAppend_some _ _ _ k2
  simp only [Option.some.injEq] at k1
  subst q8 q7 q6 q5 q4 q3 q2 q1 k1
  exact ⟨w6, e6, by simp [bare], by simp [bare]⟩

theorem isa997_ctl (a : Isa) (p : Params) (isa : PSeg) (h : isaSeg997 a p = some isa) :
    isa.elems[12]? = some (splitOn ':' (isaCtl p)) := by
  unfold isaSeg997 at h
  obtain ⟨y12, w12, k12, _, q12⟩ := optAppend_some _ _ _ h
  obtain ⟨y11, w11, k11, _, q11⟩ := optAppend_some _ _ _ k12
  obtain ⟨y10, w10, k10, _, q10⟩ := optAppend_some _ _ _ k11
  obtain ⟨y9, w9, k9, e9, q9⟩ := optAppend_some _ _ _ k10
  obtain ⟨y8, w8, k8, _, q8⟩ := optAppend_some _ _ _ k9
  obtain ⟨y7, w7, k7, _, q7⟩ := optAppend_some _ _ _ k8
  obtain ⟨y6, w6, k6, _, q6⟩ := optAppend_some _ _ _ k7
  obtain ⟨y5, w5, k5, _, q5⟩ := optAppend_some _ _ _ k6
  obtain ⟨y4, w4, k4, _, q4⟩ := optAppend_some _ _ _ k5
  obtain ⟨y3, w3, k3, _, q3⟩ := optAppend_some _ _ _ k4
  obtain ⟨y2, w2, k2, _, q2⟩ := optAppend_some _ _ _ k3
  obtain ⟨y1, w1, k1, _, q1⟩ := optAppend_some _ _ _ k2
  simp only [Option.some.injEq] at k1 e9
  subst q12 q11 q10 q9 q8 q7 q6 q5 q4 q3 q2 q1 k1 e9
  have hl := isaHead_elems.1
  simp [hl]

theorem gsSeg997_id (cfg : Cfg) (a : Isa) (g : Gs) (p : Params) (gs : PSeg) (h : gsSeg997 cfg a g p = some gs) :
    gs.id = sGS := by
  unfold gsSeg997 at h
  refine optAppend_id _ _ _ _ h ?_
  intro y hy
  refine optAppend_id _ _ _ _ hy ?_
  intro y hy
  refine optAppend_id _ _ _ _ hy ?_
  intro y hy
  refine optAppend_id _ _ _ _ hy ?_
  intro y hy
  refine optAppend_id _ _ _ _ hy ?_
  intro y hy
  refine optAppend_id _ _ _ _ hy ?_
  intro y hy
  refine optAppend_id _ _ _ _ hy ?_
  intro y hy
  refine optAppend_id _ _ _ _ hy ?_
  intro y hy
  simp at hy; rw [← hy]; rfl

theorem geSeg997_eq (n : Nat) (gs : PSeg) (v : Str) (hv : gs.getValue 5 = some v) (hs : Safe v) :
    geSeg997 n gs = { id := sGE, elems := [[natStr n], [v]] } := by
  unfold geSeg997
  rw [hv, mkSeg_starJoin_safe _ (by simp)]
  · have : sGE ≠ isaId := by decide
    simp [mkSegOf, this, pyStr, splitOn_no_sep ':' _ (natStr_no n ':' (by simp)), splitOn_no_sep ':' _ hs.2.1]
  · intro q hq
    simp [pyStr] at hq
    rcases hq with rfl | rfl | rfl
    · decide
    · exact ⟨natStr_no n '*' (by simp), natStr_no n '~' (by simp)⟩
    · exact ⟨hs.1, hs.2.2⟩

theorem ieaSeg997_eq (p : Params) (hs : Safe (isaCtl p)) :
    ieaSeg997 p = { id := sIEA, elems := [[natStr 1], [isaCtl p]] } := by
  unfold ieaSeg997
  rw [mkSeg_starJoin_safe _ (by simp)]
  · have : sIEA ≠ isaId := by decide
    simp [mkSegOf, this, splitOn_no_sep ':' _ (natStr_no 1 ':' (by simp)), splitOn_no_sep ':' _ hs.2.1]
  · intro q hq
    simp at hq
    rcases hq with rfl | rfl | rfl
    · decide
    · exact ⟨natStr_no 1 '*' (by simp), natStr_no 1 '~' (by simp)⟩
    · exact ⟨hs.1, hs.2.2⟩

theorem ta1_body (codes : Except ASite (List Str)) (a : Isa) : ∀ x ∈ (ta1Lines codes a).segs, Body x := by
  intro x hx
  unfold Body; rw [ta1Lines_ids codes a x hx]; decide

/-- **envelope**: a complete 997 draws no envelope error from an independent recount — nesting, SE count = segments in
the set (the hand-kept `seg_count`), GE count = sets written, IEA count = 1 group, trailer control numbers = headers' -/
theorem ack997_envelope_clean (cfg : Cfg) (s : State) (p : Params) (h : (ack997 cfg s p).crash = none)
    (hsafe : TrailerSafe s p) : envCheck (ack997 cfg s p).out = true := by
  obtain ⟨a, g, isa, gs, _, hg, hi, hgs, hok, _, hout⟩ := ack997_ok cfg s p h
  obtain ⟨v, hv, hlen, hv5⟩ := gs997_ctl cfg a g p gs hgs
  have hvs := hsafe.2 g hg v hv
  have hps := hsafe.1
  have hisaid := isaSeg997_id a p isa hi
  have hgsid := gsSeg997_id cfg a g p gs hgs
  have hisa12 : isa.getValue 12 = some (isaCtl p) := by
    simp [PSeg.getValue, isa997_ctl a p isa hi, fmtComp_split_safe _ hps.2.1]
  have hgs5 : gs.getValue 5 = some v := by
    simp [PSeg.getValue, hv5, fmtComp_split_safe _ hvs.2.1]
  have hne : sGS ≠ isaId := by decide
  -- ISA, GS
  have eA : envRun Env.init [isa, gs] =
      { isaCtl := some (isaCtl p), gsCtl := some v, stCtl := none, nGs := 1, nSt := 0, nSeg := 0, ok := true } := by
    simp [envRun, envStep, hisaid, hgsid, hne, hisa12, hgs5, Env.init]
  -- the group blocks
  obtain ⟨k, eB⟩ := envRun_blocks cfg 0 (allGs s.tree) hok
    { isaCtl := some (isaCtl p), gsCtl := some v, stCtl := none, nGs := 1, nSt := 0, nSeg := 0, ok := true } rfl rfl
  -- GE, TA1, IEA
  have hge := geSeg997_eq (allGs s.tree).length gs v hgs5 hvs
  have hiea := ieaSeg997_eq p hps
  have hgeid : sGE ≠ isaId ∧ sGE ≠ sGS ∧ sGE ≠ sST ∧ sGE ≠ sSE := by decide
  have hieaid : sIEA ≠ isaId ∧ sIEA ≠ sGS ∧ sIEA ≠ sST ∧ sIEA ≠ sSE ∧ sIEA ≠ sGE := by decide
  unfold envCheck
  rw [hout]
  simp only [envRun_append, eA, eB]
  rw [hge, hiea]
  simp only [envRun, envStep, hgeid.1, hgeid.2.1, hgeid.2.2.1, hgeid.2.2.2, if_false, if_true]
  rw [envRun_body _ _ (ta1_body _ a)]
  simp [hieaid.1, hieaid.2.1, hieaid.2.2.1, hieaid.2.2.2.1, hieaid.2.2.2.2, PSeg.getValue, fmtComp_single]

/-! ## ST control numbers are unique -/

def isST (s : PSeg) : Bool := s.id == sST

/-- the ST02 values of a list of segments, in order -/
def stCtls (l : List PSeg) : List (Option Str) := (l.filter isST).map (fun s => s.getValue 1)

def ctlList (n : Nat) : Nat → List (Option Str)
  | 0 => []
  | k + 1 => some (fmt04 (n + 1)) :: ctlList (n + 1) k

theorem stCtls_append (a b : List PSeg) : stCtls (a ++ b) = stCtls a ++ stCtls b := by simp [stCtls]

theorem stCtls_body (l : List PSeg) (h : ∀ x ∈ l, Body x) : stCtls l = [] := by
  unfold stCtls
  have : l.filter isST = [] := by
    apply List.filter_eq_nil_iff.mpr
    intro x hx
    simp [isST, (h x hx).2.2.1]
  rw [this]; rfl

theorem stCtls_block (cfg : Cfg) (n : Nat) (g : Gs) (hg : GsOk cfg g) :
    stCtls (block997 cfg n g) = [some (fmt04 n)] := by
  unfold block997
  rw [stCtls_append, stCtls_append, stCtls_body _ (lines_body cfg g hg)]
  have h1 : isST ({ id := sST, elems := [[['9', '9', '7']], [fmt04 n]] } : PSeg) = true := by simp [isST]
  have h2 : isST (ak1Seg997 g) = false := by simp [isST, (ak1_body g).2.2.1]
  have h3 : isST (ak9Seg997 g) = false := by simp [isST, (ak9_body g).2.2.1]
  have h4 : isST (seSeg997 ((gsLines cfg g).segs.length + 4) n) = false := by
    simp [isST, seSeg997_id]; decide
  simp [stCtls, h1, h2, h3, h4, stSeg997_eq, PSeg.getValue, fmtComp_single]

theorem stCtls_blocks (cfg : Cfg) (n : Nat) (l : List Gs) (hl : ∀ g ∈ l, GsOk cfg g) :
    stCtls (blocks997 cfg n l) = ctlList n l.length := by
  induction l generalizing n with
  | nil => rfl
  | cons g r ih =>
    simp only [blocks997, stCtls_append, List.length_cons, ctlList]
    rw [stCtls_block cfg (n + 1) g (hl g (by simp)), ih (n + 1) (fun x hx => hl x (by simp [hx]))]
    rfl

theorem ctlList_mem (n k : Nat) (x : Option Str) (h : x ∈ ctlList n k) : ∃ m, n < m ∧ x = some (fmt04 m) := by
  induction k generalizing n with
  | zero => simp [ctlList] at h
  | succ k ih =>
    simp only [ctlList, List.mem_cons] at h
    rcases h with rfl | h
    · exact ⟨n + 1, by omega, rfl⟩
    · obtain ⟨m, hm, e⟩ := ih (n + 1) h
      exact ⟨m, by omega, e⟩

theorem ctlList_pairwise (n k : Nat) : (ctlList n k).Pairwise (fun a b => a ≠ b) := by
  induction k generalizing n with
  | zero => simp [ctlList]
  | succ k ih =>
    simp only [ctlList, List.pairwise_cons]
    refine ⟨?_, ih (n + 1)⟩
    intro x hx
    obtain ⟨m, hm, e⟩ := ctlList_mem (n + 1) k x hx
    rw [e]
    intro heq
    simp only [Option.some.injEq] at heq
    have := fmt04_injective _ _ heq
    omega

/-- **unique set control numbers**: no two ST segments of a complete 997 carry the same ST02 -/
theorem ack_st_control_unique (cfg : Cfg) (s : State) (p : Params) (h : (ack997 cfg s p).crash = none) :
    (stCtls (ack997 cfg s p).out).Pairwise (fun a b => a ≠ b) := by
  obtain ⟨a, g, isa, gs, _, _, hi, hgs, hok, _, hout⟩ := ack997_ok cfg s p h
  rw [hout]
  simp only [stCtls_append, stCtls_blocks cfg 0 _ hok]
  have hisa : isST isa = false := by simp [isST, isaSeg997_id a p isa hi]; decide
  have hgsf : isST gs = false := by simp [isST, gsSeg997_id cfg a g p gs hgs]; decide
  have e1 : stCtls [isa, gs] = [] := by simp [stCtls, hisa, hgsf]
  have e2 : stCtls [geSeg997 (allGs s.tree).length gs] = [] := by
    have : isST (geSeg997 (allGs s.tree).length gs) = false := by simp [isST, geSeg997_id]; decide
    simp [stCtls, this]
  have e3 : stCtls (ta1Lines (getIsaErrors997 a) a).segs = [] := stCtls_body _ (ta1_body _ a)
  have e4 : stCtls [ieaSeg997 p] = [] := by
    have : isST (ieaSeg997 p) = false := by simp [isST, ieaSeg997_id]; decide
    simp [stCtls, this]
  rw [e1, e2, e3, e4]
  simpa using ctlList_pairwise 0 (allGs s.tree).length

/-! ## echoed values cannot add or split segments or elements -/

/-- one written segment as text: fields joined by `*`, terminated by `~` and a line feed -/
def renderLine (fields : List Str) : Str := joinWith '*' fields ++ ['~', '\n']

def lstripNl : Str → Str
  | [] => []
  | c :: r => if c = '\n' ∨ c = '\r' then lstripNl r else c :: r

/-- the reader's view of a text: pieces before each `~` (the rest after the last one is dropped), leading line breaks
removed, split at `*` -/
def parsePieces : List Str → List (List Str)
  | [] => []
  | [_] => []
  | p :: q :: r => splitOn '*' (lstripNl p) :: parsePieces (q :: r)

def parseText (t : Str) : List (List Str) := parsePieces (splitOn '~' t)

def renderAll : List (List Str) → Str
  | [] => []
  | l :: r => renderLine l ++ renderAll r

def FieldSafe (f : Str) : Prop := '~' ∉ f ∧ '*' ∉ f ∧ '\n' ∉ f ∧ '\r' ∉ f
def LineSafe (l : List Str) : Prop := l ≠ [] ∧ ∀ f ∈ l, FieldSafe f

theorem lstripNl_nl (s : Str) : lstripNl ('\n' :: s) = lstripNl s := by simp [lstripNl]

theorem lstripNl_join (l : List Str) (h : LineSafe l) : lstripNl (joinWith '*' l) = joinWith '*' l := by
  obtain ⟨hne, hs⟩ := h
  cases l with
  | nil => exact absurd rfl hne
  | cons f r =>
    have hf := hs f (by simp)
    cases f with
    | nil =>
      cases r with
      | nil => rfl
      | cons g t => simp [joinWith, lstripNl]
    | cons c cs =>
      have h1 : c ≠ '\n' := fun e => hf.2.2.1 (by simp [e])
      have h2 : c ≠ '\r' := fun e => hf.2.2.2 (by simp [e])
      cases r with
      | nil => simp [joinWith, lstripNl, h1, h2]
      | cons g t => simp [joinWith, lstripNl, h1, h2]

theorem no_tilde_join (l : List Str) (h : ∀ f ∈ l, FieldSafe f) : '~' ∉ joinWith '*' l := by
  intro hm
  rcases mem_joinWith _ _ _ hm with e | ⟨q, hq, hc⟩
  · revert e; decide
  · exact (h q hq).1 hc

theorem parse_render_aux (lines : List (List Str)) (h : ∀ l ∈ lines, LineSafe l) (pre : Str)
    (hpre : pre = [] ∨ pre = ['\n']) : parsePieces (splitOn '~' (pre ++ renderAll lines)) = lines := by
  induction lines generalizing pre with
  | nil =>
    rcases hpre with rfl | rfl
    · rfl
    · rfl
  | cons l r ih =>
    have hl := h l (by simp)
    have hnt : '~' ∉ pre ++ joinWith '*' l := by
      intro hm
      simp at hm
      rcases hm with hm | hm
      · rcases hpre with rfl | rfl <;> simp at hm
      · exact no_tilde_join l hl.2 hm
    have e : pre ++ renderAll (l :: r) = (pre ++ joinWith '*' l) ++ '~' :: (['\n'] ++ renderAll r) := by
      simp [renderAll, renderLine]
    rw [e, splitOn_append_sep '~' _ _ hnt]
    have hrec := ih (fun x hx => h x (by simp [hx])) ['\n'] (Or.inr rfl)
    cases hsp : splitOn '~' (['\n'] ++ renderAll r) with
    | nil => exact absurd hsp (splitOn_ne_nil _ _)
    | cons q t =>
      rw [hsp] at hrec
      simp only [parsePieces, hrec]
      congr 1
      have : lstripNl (pre ++ joinWith '*' l) = joinWith '*' l := by
        rcases hpre with rfl | rfl
        · simpa using lstripNl_join l hl
        · simp only [List.singleton_append, lstripNl_nl]; exact lstripNl_join l hl
      rw [this]
      exact splitOn_joinWith '*' l hl.1 (fun f hf => (hl.2 f hf).2.1)

/-- **echo cannot split**: when no field of the written lines contains `~`, `*` or a line break, re-reading the text
gives back exactly the written lines, field by field — no segment and no element is added or split -/
theorem echo_cannot_split (lines : List (List Str)) (h : ∀ l ∈ lines, LineSafe l) :
    parseText (renderAll lines) = lines := by
  have := parse_render_aux lines h [] (Or.inl rfl)
  simpa [parseText] using this

/-- the fields of one written segment as they appear in the text -/
def textFields (s : PSeg) : List Str :=
  if s.id = isaId then (s.id :: (if fmtFields s = [] then [[]] else fmtFields s)) ++ [[':']]
  else s.id :: (if fmtFields s = [] then [[]] else fmtFields s)

theorem joinWith_cons_ne (sep : Char) (a : Str) (l : List Str) (h : l ≠ []) :
    joinWith sep (a :: l) = a ++ sep :: joinWith sep l := by
  cases l with
  | nil => exact absurd rfl h
  | cons b r => rfl

theorem joinWith_concat (sep : Char) (l : List Str) (x : Str) (h : l ≠ []) :
    joinWith sep (l ++ [x]) = joinWith sep l ++ sep :: x := by
  induction l with
  | nil => exact absurd rfl h
  | cons a r ih =>
    cases r with
    | nil => simp [joinWith]
    | cons b t =>
      have := ih (by simp)
      simp only [List.cons_append] at this ⊢
      rw [joinWith_cons_ne sep a _ (by simp), this, joinWith_cons_ne sep a _ (by simp)]
      simp

theorem format_as_join (s : PSeg) :
    s.format = joinWith '*' (s.id :: (if fmtFields s = [] then [[]] else fmtFields s)) ++ ['~'] := by
  unfold PSeg.format
  cases h : fmtFields s with
  | nil => simp [joinWith]
  | cons a r => simp [joinWith_cons_ne]

/-- what `_write` sends to the file is the rendering of the segment's text fields -/
theorem render997_eq (s : PSeg) : render997 s ++ ['\n'] = renderLine (textFields s) := by
  unfold render997 textFields renderLine
  split
  · rw [format_as_join, List.dropLast_concat, joinWith_concat _ _ _ (by simp)]
    simp
  · rw [format_as_join]; simp

/-- the 997 as text, re-read: one line per written segment with exactly its fields -/
theorem ack997_text_roundtrip (out : List PSeg) (h : ∀ s ∈ out, LineSafe (textFields s)) :
    parseText (renderAll (out.map textFields)) = out.map textFields := by
  apply echo_cannot_split
  intro l hl
  simp at hl
  obtain ⟨s, hs, rfl⟩ := hl
  exact h s hs

/-! ## the visitor does not raise (after the repairs) -/

/-- what the 997 visitor needs from the tree: header values it copies are present -/
structure Complete (s : State) : Prop where
  isa : ∃ a, curIsaNode s = some a ∧ a.e05.isSome ∧ a.e06.isSome ∧ a.e07.isSome ∧ a.e08.isSome ∧ a.e11.isSome ∧
          a.e12.isSome ∧ a.e15.isSome ∧ a.ta1Req ≠ some ['1']
  gs : ∃ g, curGsNode s = some g ∧ g.gs02.isSome ∧ g.gs03.isSome ∧ g.gs06.isSome ∧ g.gs07.isSome
  sets : ∀ g ∈ allGs s.tree, ∀ st ∈ g.children, st.trnSetId.isSome ∧ st.ctlNum.isSome

def fixed : Cfg := { legacy := false }
def legacy : Cfg := { legacy := true }

theorem stEleErrCodes_fixed (pos : Nat) (l : List EleErr) : (stEleErrCodes fixed pos l).isSome = true := by
  induction l with
  | nil => rfl
  | cons x r ih =>
    simp only [stEleErrCodes]
    split
    · split
      · simpa using ih
      · simpa [fixed] using ih
    · exact ih

theorem stElesCodes_fixed (l : List Ele) : (stElesCodes fixed l).isSome = true := by
  induction l with
  | nil => rfl
  | cons e r ih =>
    simp only [stElesCodes]
    have := stEleErrCodes_fixed e.pos e.errors
    cases h : stEleErrCodes fixed e.pos e.errors with
    | none => simp [h] at this
    | some c => simpa using ih

theorem getStErrors_fixed (st : St) : ∃ codes, getStErrors fixed st = .ok codes := by
  unfold getStErrors
  have := stElesCodes_fixed st.elements
  cases h : stElesCodes fixed st.elements with
  | none => simp [h] at this
  | some l => exact ⟨_, rfl⟩

theorem stLines997_fixed (st : St) (h1 : st.trnSetId.isSome) (h2 : st.ctlNum.isSome) :
    (stLines997 fixed st).crash = none := by
  obtain ⟨i, hi⟩ := Option.isSome_iff_exists.mp h1
  obtain ⟨c, hc⟩ := Option.isSome_iff_exists.mp h2
  obtain ⟨codes, hk⟩ := getStErrors_fixed st
  simp [stLines997, ak2Lines997, ak5Lines997, hi, hc, hk, Lines.andThen, Lines.ok]

theorem stsLines_fixed (l : List St) (h : ∀ st ∈ l, st.trnSetId.isSome ∧ st.ctlNum.isSome) :
    (stsLines (stLines997 fixed) l).crash = none := by
  induction l with
  | nil => rfl
  | cons st r ih =>
    have h1 := stLines997_fixed st (h st (by simp)).1 (h st (by simp)).2
    have h2 := ih (fun x hx => h x (by simp [hx]))
    simp [stsLines, Lines.andThen, h1, h2]

/-- **complete**: with the repaired code the 997 visitor never raises when the copied header values are present, so
the acknowledgement is written to the end -/
theorem ack_complete (s : State) (p : Params) (h : Complete s) : (ack997 fixed s p).crash = none := by
  obtain ⟨a, ha, a5, a6, a7, a8, a11, a12, a15, hta⟩ := h.isa
  obtain ⟨g, hg, g2, g3, g6, g7⟩ := h.gs
  obtain ⟨v5, e5⟩ := Option.isSome_iff_exists.mp a5
  obtain ⟨v6, e6⟩ := Option.isSome_iff_exists.mp a6
  obtain ⟨v7, e7⟩ := Option.isSome_iff_exists.mp a7
  obtain ⟨v8, e8⟩ := Option.isSome_iff_exists.mp a8
  obtain ⟨v11, e11⟩ := Option.isSome_iff_exists.mp a11
  obtain ⟨v12, e12⟩ := Option.isSome_iff_exists.mp a12
  obtain ⟨v15, e15⟩ := Option.isSome_iff_exists.mp a15
  obtain ⟨w2, f2⟩ := Option.isSome_iff_exists.mp g2
  obtain ⟨w3, f3⟩ := Option.isSome_iff_exists.mp g3
  obtain ⟨w6, f6⟩ := Option.isSome_iff_exists.mp g6
  obtain ⟨w7, f7⟩ := Option.isSome_iff_exists.mp g7
  have hisa : ∃ isa, isaSeg997 a p = some isa := by
    simp [isaSeg997, optAppend, e5, e6, e7, e8, e11, e12, e15]
  have hgs : ∃ gs, gsSeg997 fixed a g p = some gs := by
    simp [gsSeg997, optAppend, f2, f3, f6, f7, fixed]
  obtain ⟨isa, hisa⟩ := hisa
  obtain ⟨gs, hgs⟩ := hgs
  have hpre : rootPre997 fixed s p =
      ({ out := [isa, gs], segCount := 2, stCtl := 0, stLoop := 0, gsLoop := 1, crash := none }, some gs) := by
    simp [rootPre997, ha, hg, hisa, hgs, V.init, V.write]
  have hok : ∀ x ∈ allGs s.tree, GsOk fixed x := fun x hx => stsLines_fixed x.children (h.sets x hx)
  have hshape := visitGss997_ok fixed (rootPre997 fixed s p).1 (allGs s.tree) (by rw [hpre]) hok
  have hta1 : ta1Lines (getIsaErrors997 a) a = Lines.ok [] := by simp [ta1Lines, c1, hta]
  rw [hpre] at hshape
  simp only at hshape
  unfold ack997
  rw [visitIsas997_eq, hpre]
  simp [rootPost997, V.andThen, hshape.2.2.2.2, ha, writeLines_eq, hta1, Lines.ok, V.write, V.setGsLoop]

/-- the functional group of the repaired 997 is `FA` with version `004010`, which the map index knows -/
theorem ack_selects_ack_map (a : Isa) (g : Gs) (p : Params) (gs : PSeg) (h : gsSeg997 fixed a g p = some gs) :
    gs.getValue 0 = some ['F', 'A'] ∧ gs.getValue 7 = some v004010 := by
  unfold gsSeg997 at h
  obtain ⟨y8, w8, k8, e8, q8⟩ := optAppend_some _ _ _ h
  obtain ⟨y7, w7, k7, _, q7⟩ := optAppend_some _ _ _ k8
  obtain ⟨y6, w6, k6, _, q6⟩ := optAppend_some _ _ _ k7
  obtain ⟨y5, w5, k5, _, q5⟩ := optAppend_some _ _ _ k6
  obtain ⟨y4, w4, k4, _, q4⟩ := optAppend_some _ _ _ k5
  obtain ⟨y3, w3, k3, _, q3⟩ := optAppend_some _ _ _ k4
  obtain ⟨y2, w2, k2, _, q2⟩ := optAppend_some _ _ _ k3
  obtain ⟨y1, w1, k1, e1, q1⟩ := optAppend_some _ _ _ k2
  simp only [Option.some.injEq, fixed] at k1 e1 e8
  simp only [Bool.false_eq_true, if_false, Option.some.injEq] at e8
  subst q8 q7 q6 q5 q4 q3 q2 q1 k1 e1 e8
  have h1 : fmtComp (splitOn ':' ['F', 'A']) = ['F', 'A'] := by decide
  have h2 : fmtComp (splitOn ':' v004010) = v004010 := by decide
  simp [PSeg.getValue, bare, h1, h2]

/-! ### the unchanged code: kernel-checked witnesses -/

def params0 : Params :=
  { date6 := ['2', '0', '0', '1', '0', '1'], time4 := ['1', '2', '0', '0'],
    date8 := ['2', '0', '2', '0', '0', '1', '0', '1'], time6 := ['1', '2', '0', '0', '0', '0'],
    gsCtl := ['1', '2', '3'] }

def stateOf (evs : List Event) : State :=
  match run State.init evs with
  | .ok s => s
  | .crash _ => State.init

/-- D23: an element error on ST03 (5010) — position 3 is in neither ST/SE table -/
def d23Events : List Event :=
  [.addIsa isaD, .addGs gsD, .addSt stD, .addEle 3 none (some ['1', '7', '0', '5']),
   .eleError ['7'] ['(', 'S', 'T', '0', '3', ')'] (some ['Z']), .closeSt, .closeGs (.num 1) 1, .closeIsa]

theorem legacy_keyerror_truncates : (ack997 legacy (stateOf d23Events) params0).crash = some .stEleKey ∧
    (ack997 fixed (stateOf d23Events) params0).crash = none := by decide

/-- D29: a set without ST03 (every 835 5010) — the unchanged 999 visitor raises before AK2 -/
def d29Events : List Event :=
  [.addIsa isaD, .addGs gsD, .addSt stD, .closeSt, .closeGs (.num 1) 1, .closeIsa]

theorem legacy_999_truncates : (ack999 legacy (stateOf d29Events) params0).crash = some .ak2NoVriic ∧
    (ack999 legacy (stateOf d29Events) params0).out.length = 4 ∧
    (ack999 fixed (stateOf d29Events) params0).crash = none ∧
    (ack999 fixed (stateOf d29Events) params0).out.length = 10 := by decide

/-- D9: the unchanged 997 writes the interchange version into GS08 -/
theorem legacy_gs08_is_isa_version :
    ((ack997 legacy (stateOf d29Events) params0).out[1]?).bind (fun gs => gs.getValue 7) = some ['0', '0', '4', '0', '1'] ∧
    ((ack997 fixed (stateOf d29Events) params0).out[1]?).bind (fun gs => gs.getValue 7) = some v004010 := by decide

/-- the 999 of the witness passes the same envelope recount (writer-generated trailers) -/
theorem ack999_envelope_example : envCheck (ack999 fixed (stateOf d29Events) params0).out = true := by decide

end Pyx12Verif.C06

/-! # the 999 visitor and the writer -/


namespace Pyx12Verif.C06
open Pyx12Verif.ErrTree Pyx12Verif.Ack Pyx12Verif.C05

/-! ### a generic set block passes the recount -/

theorem envRun_block_gen (e : Env) (st ak1 ak9 se : PSeg) (lines : List PSeg) (c : Str)
    (hst : e.stCtl = none) (hgs : e.gsCtl.isSome = true)
    (h1 : st.id = sST) (h2 : st.getValue 1 = some c) (h3 : Body ak1) (h4 : ∀ x ∈ lines, Body x) (h5 : Body ak9)
    (h6 : se.id = sSE) (h7 : se.getValue 0 = some (natStr (lines.length + 4))) (h8 : se.getValue 1 = some c) :
    envRun e ([st, ak1] ++ lines ++ [ak9, se]) = { e with nSt := e.nSt + 1, nSeg := lines.length + 3 } := by
  rw [envRun_append, envRun_append]
  have hst_id : sST ≠ isaId ∧ sST ≠ sGS := by decide
  have e1 : envRun e [st, ak1] = { e with stCtl := some c, nSt := e.nSt + 1, nSeg := 2 } := by
    obtain ⟨b1, b2, b3, b4, b5, b6⟩ := h3
    simp only [envRun, envStep, b1, b2, b3, b4, b5, b6, if_false, h1, hst_id.1, hst_id.2, if_true, h2]
    simp [hst, hgs]
  rw [e1, envRun_body _ _ h4]
  obtain ⟨b1, b2, b3, b4, b5, b6⟩ := h5
  have hse : sSE ≠ isaId ∧ sSE ≠ sGS ∧ sSE ≠ sST := by decide
  simp only [envRun, envStep, b1, b2, b3, b4, b5, b6, if_false, h6, hse.1, hse.2.1, hse.2.2, if_true, h7, h8]
  have : 2 + lines.length + 1 + 1 = lines.length + 4 := by omega
  simp [this]
  exact ⟨hst.symm, by omega⟩

end Pyx12Verif.C06

namespace Pyx12Verif.Ack
open Pyx12Verif.ErrTree Pyx12Verif.C06

/-! ### `X12Writer.Write` on each kind of segment -/

theorem putAll_append (w : W) (a b : List PSeg) : w.putAll (a ++ b) = (w.putAll a).putAll b := by
  induction a generalizing w with
  | nil => rfl
  | cons x r ih => simp [W.putAll, ih]

theorem put_body (w : W) (s : PSeg) (hb : Body s) (hw : w.crash = none) :
    w.put s = { w with out := w.out ++ [s], segCount := w.segCount + 1 } := by
  obtain ⟨b1, b2, b3, b4, b5, b6⟩ := hb
  simp [W.put, W.parse, hw, b1, b2, b3, b4, b5, b6]

theorem putAll_body (w : W) (l : List PSeg) (hb : ∀ x ∈ l, Body x) (hw : w.crash = none) :
    w.putAll l = { w with out := w.out ++ l, segCount := w.segCount + l.length } := by
  induction l generalizing w with
  | nil => simp [W.putAll]
  | cons x r ih =>
    simp only [W.putAll]
    rw [put_body w x (hb x (by simp)) hw, ih _ (fun y hy => hb y (by simp [hy]))]
    · simp; omega
    · exact hw

theorem put_st (w : W) (s : PSeg) (hs : s.id = sST) (hw : w.crash = none) :
    w.put s = { w with loops := (LoopKind.st, pyStr (s.getValue 1)) :: w.loops, stCount := w.stCount + 1, segCount := 1,
                       out := w.out ++ [s] } := by
  have h : sST ≠ isaId ∧ sST ≠ sGS ∧ sST ≠ sIEA ∧ sST ≠ sGE ∧ sST ≠ sSE := by decide
  simp [W.put, W.parse, hw, hs, h.1, h.2.1, h.2.2.1, h.2.2.2.1, h.2.2.2.2]

theorem put_gs (w : W) (s : PSeg) (hs : s.id = sGS) (hw : w.crash = none) :
    w.put s = { w with loops := (LoopKind.gs, pyStr (s.getValue 5)) :: w.loops, gsCount := w.gsCount + 1, stCount := 0,
                       out := w.out ++ [s] } := by
  have h : sGS ≠ isaId ∧ sGS ≠ sIEA ∧ sGS ≠ sGE ∧ sGS ≠ sSE := by decide
  simp [W.put, W.parse, hw, hs, h.1, h.2.1, h.2.2.1, h.2.2.2]

theorem put_isa (w : W) (s : PSeg) (hs : s.id = isaId) (hl : s.elems.length = 16) (hw : w.crash = none) :
    w.put s = { w with loops := (LoopKind.isa, pyStr (s.getValue 12)) :: w.loops, gsCount := 0,
                       out := w.out ++ [isaForWrite s] } := by
  have h : isaId ≠ sIEA ∧ isaId ≠ sGE ∧ isaId ≠ sSE := by decide
  simp [W.put, W.parse, hw, hs, hl, h.1, h.2.1, h.2.2]

def seTrailer (count : Nat) (id : Str) : PSeg := mkSeg (starJoin [sSE, natStr count, id])
def geTrailer (count : Nat) (id : Str) : PSeg := mkSeg (starJoin [sGE, natStr count, id])
def ieaTrailer (count : Nat) (id : Str) : PSeg := mkSeg (starJoin [sIEA, natStr count, id])

theorem put_se (w : W) (s : PSeg) (id : Str) (rest : List (LoopKind × Str)) (hs : s.id = sSE)
    (hl : w.loops = (LoopKind.st, id) :: rest) (hw : w.crash = none) :
    w.put s = { w with loops := rest, out := w.out ++ [seTrailer (w.segCount + 1) id], segCount := 0 } := by
  have h : sSE ≠ isaId ∧ sSE ≠ sGS ∧ sSE ≠ sST ∧ sSE ≠ sIEA ∧ sSE ≠ sGE := by decide
  simp [W.put, W.parse, hw, hs, h.1, h.2.1, h.2.2.1, h.2.2.2.1, h.2.2.2.2, hl, popTo, W.closeLoop, seTrailer]

theorem put_ge (w : W) (s : PSeg) (id : Str) (rest : List (LoopKind × Str)) (hs : s.id = sGE)
    (hl : w.loops = (LoopKind.gs, id) :: rest) (hw : w.crash = none) :
    w.put s = { w with loops := rest, out := w.out ++ [geTrailer w.stCount id], stCount := 0 } := by
  have h : sGE ≠ isaId ∧ sGE ≠ sGS ∧ sGE ≠ sST ∧ sGE ≠ sIEA := by decide
  simp [W.put, W.parse, hw, hs, h.1, h.2.1, h.2.2.1, h.2.2.2, hl, popTo, W.closeLoop, geTrailer]

theorem put_iea (w : W) (s : PSeg) (id : Str) (rest : List (LoopKind × Str)) (hs : s.id = sIEA)
    (hl : w.loops = (LoopKind.isa, id) :: rest) (hw : w.crash = none) :
    w.put s = { w with loops := rest, out := w.out ++ [ieaTrailer w.gsCount id], gsCount := 0 } := by
  have h : sIEA ≠ isaId ∧ sIEA ≠ sGS ∧ sIEA ≠ sST := by decide
  simp [W.put, W.parse, hw, hs, h.1, h.2.1, h.2.2, hl, popTo, W.closeLoop, ieaTrailer]

theorem stSeg999_eq (n : Nat) : stSeg999 n = { id := sST, elems := [[['9', '9', '9']], [fmt04 n], [vriic999]] } := by
  have h0 : mkSeg (starJoin [sST, ['9', '9', '9']]) = { id := sST, elems := [[['9', '9', '9']]] } := by decide
  have h1 : splitOn ':' vriic999 = [vriic999] := by decide
  unfold stSeg999
  rw [h0]
  simp [PSeg.setEle, padComps, h1, splitOn_no_sep ':' _ (fmt04_no n ':' (by simp))]

theorem seSeg999_id (n : Nat) : (seSeg999 n).id = sSE := rfl

/-- one group through the writer: ST, AK1, the set lines, AK9, and the SE the *writer* generates -/
theorem putAll_gsBlock (w : W) (hw : w.crash = none) (n : Nat) (g : Gs) (ak1 : PSeg) (lines : List PSeg)
    (hak1 : Body ak1) (hl : ∀ x ∈ lines, Body x) (hak9 : Body (ak9Seg999 g)) :
    w.putAll ([stSeg999 n, ak1] ++ lines ++ [ak9Seg999 g, seSeg999 n]) =
      { w with stCount := w.stCount + 1, segCount := 0,
               out := w.out ++ ([stSeg999 n, ak1] ++ lines ++ [ak9Seg999 g, seTrailer (lines.length + 4) (fmt04 n)]) } := by
  rw [putAll_append, putAll_append]
  have hstid : (stSeg999 n).id = sST := by rw [stSeg999_eq]
  have hv : (stSeg999 n).getValue 1 = some (fmt04 n) := by rw [stSeg999_eq]; simp [PSeg.getValue, fmtComp_single]
  have e1 : w.putAll [stSeg999 n, ak1] =
      { w with loops := (LoopKind.st, fmt04 n) :: w.loops, stCount := w.stCount + 1, segCount := 2,
               out := w.out ++ [stSeg999 n, ak1] } := by
    simp only [W.putAll]
    rw [put_st w _ hstid hw, put_body _ ak1 hak1, hv]
    · simp [pyStr]
    · exact hw
  rw [e1, putAll_body _ lines hl]
  · simp only [W.putAll]
    rw [put_body _ _ hak9, put_se _ _ (fmt04 n) w.loops (seSeg999_id n) rfl]
    · simp
      congr 1; omega
    · exact hw
    · exact hw
  · exact hw

end Pyx12Verif.Ack

namespace Pyx12Verif.Ack
open Pyx12Verif.ErrTree Pyx12Verif.C06

/-! ### identifiers of the 999 lines -/

theorem setEle_chain_id (s : PSeg) (i : Nat) (v : Str) : (s.setEle i v).id = s.id := rfl
theorem setSub_id (s : PSeg) (i j : Nat) (v : Str) : (s.setSub i j v).id = s.id := rfl

theorem segBase999_ids (s : Seg) : ∀ l ∈ segLines999 s, l.id = sIK3 := by
  unfold segLines999 segBase999
  split
  · exact segLinesWith_id sIK3 _ (by simp [bare]) no_star_IK3 _ s
  · exact segLinesWith_id sIK3 _ (by simp [bare]) no_star_IK3 _ s

theorem eleBase999_ids (e : Ele) : ∀ l ∈ eleLines999 e, l.id = sIK4 := by
  unfold eleLines999 eleBase999
  apply eleLinesWith_id sIK4 _ _ no_star_IK4
  simp only [bare]
  split <;> split <;> simp [PSeg.setSub, PSeg.setEle]

theorem segsLines999_ids (l : List Seg) : ∀ x ∈ segsLines segLines999 eleLines999 l, x.id = sIK3 ∨ x.id = sIK4 := by
  intro x hx
  obtain ⟨s, _, h | ⟨e, _, h⟩⟩ := segsLines_mem _ _ l x hx
  · exact Or.inl (segBase999_ids s x h)
  · exact Or.inr (eleBase999_ids e x h)

theorem stLines999_ids (cfg : Cfg) (s : St) (h : (stLines999 cfg s).crash = none) :
    ∀ x ∈ (stLines999 cfg s).segs, x.id = sAK2 ∨ x.id = sIK3 ∨ x.id = sIK4 ∨ x.id = sIK5 := by
  unfold stLines999 at h ⊢
  obtain ⟨h12, h3, e3⟩ := andThen_crash_none _ _ h
  obtain ⟨h1, _, e12⟩ := andThen_crash_none _ _ h12
  rw [e3, e12]
  intro x hx
  simp only [List.mem_append] at hx
  rcases hx with (hx | hx) | hx
  · left
    unfold ak2Lines999 at hx h1
    split at hx
    · simp [Lines.fail] at hx
    · split at hx
      · simp [Lines.fail] at hx
      · split at hx
        · split at hx
          · simp [Lines.fail] at hx
          · simp [Lines.ok] at hx; rw [hx]; rfl
        · simp [Lines.ok] at hx; rw [hx]; rfl
  · simp only [Lines.ok] at hx
    rcases segsLines999_ids _ x hx with h | h
    · exact Or.inr (Or.inl h)
    · exact Or.inr (Or.inr (Or.inl h))
  · right; right; right
    unfold ik5Lines999 at hx
    split at hx
    · simp [Lines.fail] at hx
    · simp [Lines.ok] at hx; rw [hx, appendAll_id]; rfl

theorem gsLines999_body (cfg : Cfg) (l : List St) (h : (stsLines (stLines999 cfg) l).crash = none) :
    ∀ x ∈ (stsLines (stLines999 cfg) l).segs, Body x := by
  induction l with
  | nil => simp [stsLines, Lines.ok]
  | cons s r ih =>
    obtain ⟨h1, h2, e⟩ := stsLines_cons_ok _ s r h
    intro x hx
    rw [e] at hx
    simp only [List.mem_append] at hx
    rcases hx with hx | hx
    · rcases stLines999_ids cfg s h1 x hx with h | h | h | h <;> (unfold Body; rw [h]; decide)
    · exact ih h2 x hx

theorem optSet_id (s : Option PSeg) (i : Nat) (v : Option Str) (x : PSeg) (j : Str) (h : optSet s i v = some x)
    (hs : ∀ y, s = some y → y.id = j) : x.id = j := by
  cases s with
  | none => simp [optSet] at h
  | some y =>
    cases v with
    | none => simp [optSet] at h
    | some w => simp [optSet] at h; rw [← h]; exact hs y rfl

theorem ak1Seg999_body (g : Gs) (ak1 : PSeg) (h : ak1Seg999 g = some ak1) : Body ak1 := by
  have : ak1.id = sAK1 := by
    unfold ak1Seg999 at h
    refine optSet_id _ _ _ _ _ h ?_
    intro y hy
    refine optSet_id _ _ _ _ _ hy ?_
    intro y hy
    refine optSet_id _ _ _ _ _ hy ?_
    intro y hy
    simp at hy; rw [← hy]; rfl
  unfold Body; rw [this]; decide

theorem ak9Seg999_body (g : Gs) : Body (ak9Seg999 g) := by
  have : (ak9Seg999 g).id = sAK9 := by simp [ak9Seg999, appendAll_id, bare]
  unfold Body; rw [this]; decide

end Pyx12Verif.Ack

namespace Pyx12Verif.Ack
open Pyx12Verif.ErrTree Pyx12Verif.C06

def gsLines9 (cfg : Cfg) (g : Gs) : Lines := stsLines (stLines999 cfg) g.children

theorem gsPuts999_ok (cfg : Cfg) (n : Nat) (g : Gs) (h : (gsPuts999 cfg n g).crash = none) :
    ∃ ak1, ak1Seg999 g = some ak1 ∧ (gsLines9 cfg g).crash = none ∧
      (gsPuts999 cfg n g).segs = [stSeg999 n, ak1] ++ (gsLines9 cfg g).segs ++ [ak9Seg999 g, seSeg999 n] := by
  unfold gsPuts999 at h ⊢
  cases hk : ak1Seg999 g with
  | none => simp [hk] at h
  | some ak1 =>
    simp only [hk] at h ⊢
    obtain ⟨h12, _, e3⟩ := andThen_crash_none _ _ h
    obtain ⟨_, h2, e12⟩ := andThen_crash_none _ _ h12
    exact ⟨ak1, rfl, h2, by rw [e3, e12]; simp [Lines.ok, gsLines9]⟩

theorem seTrailer_eq (c : Nat) (id : Str) (hs : Safe id) :
    seTrailer c id = { id := sSE, elems := [[natStr c], [id]] } := by
  unfold seTrailer
  rw [mkSeg_starJoin_safe _ (by simp)]
  · have : sSE ≠ isaId := by decide
    simp [mkSegOf, this, splitOn_no_sep ':' _ (natStr_no c ':' (by simp)), splitOn_no_sep ':' _ hs.2.1]
  · intro q hq
    simp at hq
    rcases hq with rfl | rfl | rfl
    · decide
    · exact ⟨natStr_no c '*' (by simp), natStr_no c '~' (by simp)⟩
    · exact ⟨hs.1, hs.2.2⟩

theorem fmt04_safe (n : Nat) : Safe (fmt04 n) :=
  ⟨fmt04_no n '*' (by simp), fmt04_no n ':' (by simp), fmt04_no n '~' (by simp)⟩

/-- all groups through the writer: the writer's set counter advances by one per group; what it wrote passes the
recount as a sequence of complete sets and carries the control numbers n+1, n+2, … -/
theorem putAll_gss (cfg : Cfg) (l : List Gs) (n : Nat) (w : W) (hw : w.crash = none)
    (h : (gssPuts999 cfg n l).crash = none) :
    ∃ blocks k, w.putAll (gssPuts999 cfg n l).segs =
        { w with stCount := w.stCount + l.length, segCount := k, out := w.out ++ blocks } ∧
      (∀ e : Env, e.stCtl = none → e.gsCtl.isSome = true →
        ∃ k', envRun e blocks = { e with nSt := e.nSt + l.length, nSeg := k' }) ∧
      stCtls blocks = ctlList n l.length := by
  induction l generalizing n w with
  | nil =>
    refine ⟨[], w.segCount, by simp [gssPuts999, Lines.ok, W.putAll], ?_, rfl⟩
    intro e _ _
    exact ⟨e.nSeg, by simp [envRun]⟩
  | cons g r ih =>
    simp only [gssPuts999] at h ⊢
    obtain ⟨h1, h2, es⟩ := andThen_crash_none _ _ h
    obtain ⟨ak1, hak1, hlines, eg⟩ := gsPuts999_ok cfg (n + 1) g h1
    have hb1 := ak1Seg999_body g ak1 hak1
    have hbl : ∀ x ∈ (gsLines9 cfg g).segs, Body x := gsLines999_body cfg g.children hlines
    have hb9 := ak9Seg999_body g
    rw [es, putAll_append, eg]
    have hblock := putAll_gsBlock w hw (n + 1) g ak1 (gsLines9 cfg g).segs hb1 hbl hb9
    rw [hblock]
    obtain ⟨blocks, k, hput, henv, hctl⟩ := ih (n + 1)
      { w with stCount := w.stCount + 1, segCount := 0,
               out := w.out ++ ([stSeg999 (n + 1), ak1] ++ (gsLines9 cfg g).segs ++
                 [ak9Seg999 g, seTrailer ((gsLines9 cfg g).segs.length + 4) (fmt04 (n + 1))]) } hw h2
    refine ⟨[stSeg999 (n + 1), ak1] ++ (gsLines9 cfg g).segs ++
        [ak9Seg999 g, seTrailer ((gsLines9 cfg g).segs.length + 4) (fmt04 (n + 1))] ++ blocks, k, ?_, ?_, ?_⟩
    · rw [hput]; simp; omega
    · intro e he1 he2
      rw [envRun_append]
      have hse := seTrailer_eq ((gsLines9 cfg g).segs.length + 4) (fmt04 (n + 1)) (fmt04_safe _)
      rw [envRun_block_gen e (stSeg999 (n + 1)) ak1 (ak9Seg999 g) _ (gsLines9 cfg g).segs (fmt04 (n + 1)) he1 he2
        (by rw [stSeg999_eq]) (by rw [stSeg999_eq]; simp [PSeg.getValue, fmtComp_single]) hb1 hbl hb9
        (by rw [hse]) (by rw [hse]; simp [PSeg.getValue, fmtComp_single]) (by rw [hse]; simp [PSeg.getValue, fmtComp_single])]
      obtain ⟨k', hk'⟩ := henv { e with nSt := e.nSt + 1, nSeg := (gsLines9 cfg g).segs.length + 3 } he1 he2
      exact ⟨k', by rw [hk']; simp; omega⟩
    · rw [stCtls_append, hctl]
      have hse := seTrailer_eq ((gsLines9 cfg g).segs.length + 4) (fmt04 (n + 1)) (fmt04_safe _)
      have e1 : stCtls ([stSeg999 (n + 1), ak1] ++ (gsLines9 cfg g).segs ++
          [ak9Seg999 g, seTrailer ((gsLines9 cfg g).segs.length + 4) (fmt04 (n + 1))]) = [some (fmt04 (n + 1))] := by
        rw [stCtls_append, stCtls_append, stCtls_body _ hbl]
        have i1 : isST ({ id := sST, elems := [[['9', '9', '9']], [fmt04 (n + 1)], [vriic999]] } : PSeg) = true := by simp [isST]
        have i2 : isST ak1 = false := by simp [isST, hb1.2.2.1]
        have i3 : isST (ak9Seg999 g) = false := by simp [isST, hb9.2.2.1]
        have i4 : isST ({ id := sSE, elems := [[natStr ((gsLines9 cfg g).segs.length + 4)], [fmt04 (n + 1)]] } : PSeg) = false := by
          simp [isST]; decide
        simp [stCtls, stSeg999_eq, hse, i1, i2, i3, i4, PSeg.getValue, fmtComp_single]
      rw [e1]; simp [ctlList]

theorem ok_nil_andThen (b : Lines) : (Lines.ok []).andThen b = b := by
  simp [Lines.andThen, Lines.ok]

theorem andThen_assoc (a b c : Lines) : (a.andThen b).andThen c = a.andThen (b.andThen c) := by
  unfold Lines.andThen
  cases ha : a.crash <;> cases hb : b.crash <;> simp [ha, hb]

theorem gssPuts999_append (cfg : Cfg) (n : Nat) (l1 l2 : List Gs) :
    gssPuts999 cfg n (l1 ++ l2) = (gssPuts999 cfg n l1).andThen (gssPuts999 cfg (n + l1.length) l2) := by
  induction l1 generalizing n with
  | nil => simp [gssPuts999, ok_nil_andThen]
  | cons g r ih =>
    simp only [List.cons_append, gssPuts999, ih, andThen_assoc, List.length_cons]
    congr 3; omega

theorem allGs_length_cons (a : Isa) (r : Tree) : allGs (a :: r) = a.children ++ allGs r := rfl

theorem isasPuts999_eq (cfg : Cfg) (n : Nat) (t : Tree) : isasPuts999 cfg n t = gssPuts999 cfg n (allGs t) := by
  induction t generalizing n with
  | nil => rfl
  | cons a r ih => simp only [isasPuts999, allGs, gssPuts999_append, ih]

end Pyx12Verif.Ack

namespace Pyx12Verif.Ack
open Pyx12Verif.ErrTree Pyx12Verif.C06 Pyx12Verif.C05

theorem optSet_some (s : Option PSeg) (i : Nat) (v : Option Str) (x : PSeg) (h : optSet s i v = some x) :
    ∃ y w, s = some y ∧ v = some w ∧ x = y.setEle i w := by
  cases s with
  | none => simp [optSet] at h
  | some y =>
    cases v with
    | none => simp [optSet] at h
    | some w => simp [optSet] at h; exact ⟨y, w, rfl, rfl, h.symm⟩

theorem isaHead_mk : mkSeg isaHead =
    { id := isaId, elems := [[['0', '0']], [[' ', ' ', ' ', ' ', ' ', ' ', ' ', ' ', ' ', ' ']], [['0', '0']],
                             [[' ', ' ', ' ', ' ', ' ', ' ', ' ', ' ', ' ', ' ']]] } := by rfl

/-- the ISA handed to the writer: 16 elements, ISA13 = the generated control number; `_write_isa_segment` keeps both -/
theorem isaSeg999_props (a : Isa) (p : Params) (isa : PSeg) (h : isaSeg999 a p = some isa) (hs : ':' ∉ isaCtl p) :
    isa.id = isaId ∧ isa.elems.length = 16 ∧ isa.getValue 12 = some (isaCtl p) ∧
    (isaForWrite isa).id = isaId ∧ (isaForWrite isa).getValue 12 = some (isaCtl p) := by
  unfold isaSeg999 at h
  simp only [Option.map_eq_some_iff] at h
  obtain ⟨x, h, rfl⟩ := h
  obtain ⟨y11, w11, k11, _, q11⟩ := optSet_some _ _ _ _ h
  obtain ⟨y10, w10, k10, _, q10⟩ := optSet_some _ _ _ _ k11
  obtain ⟨y9, w9, k9, e9, q9⟩ := optSet_some _ _ _ _ k10
  obtain ⟨y8, w8, k8, _, q8⟩ := optSet_some _ _ _ _ k9
  obtain ⟨y7, w7, k7, _, q7⟩ := optSet_some _ _ _ _ k8
  obtain ⟨y6, w6, k6, _, q6⟩ := optSet_some _ _ _ _ k7
  obtain ⟨y5, w5, k5, _, q5⟩ := optSet_some _ _ _ _ k6
  obtain ⟨y4, w4, k4, _, q4⟩ := optSet_some _ _ _ _ k5
  obtain ⟨y3, w3, k3, _, q3⟩ := optSet_some _ _ _ _ k4
  obtain ⟨y2, w2, k2, _, q2⟩ := optSet_some _ _ _ _ k3
  obtain ⟨y1, w1, k1, _, q1⟩ := optSet_some _ _ _ _ k2
  simp only [Option.some.injEq] at k1 e9
  subst q11 q10 q9 q8 q7 q6 q5 q4 q3 q2 q1 k1 e9
  rw [isaHead_mk]
  have hc := fmtComp_split_safe _ hs
  have hid16 : ∀ (x : PSeg) (v : Str), (x.setIsa16 v).id = x.id := fun _ _ => rfl
  refine ⟨by simp only [hid16, setEle_id], by simp [PSeg.setIsa16, PSeg.setEle, padComps], ?_, ?_, ?_⟩
  · simp [PSeg.getValue, PSeg.setIsa16, PSeg.setEle, padComps, hc]
  · unfold isaForWrite
    split <;> simp only [hid16, setEle_id]
  · unfold isaForWrite
    split <;> simp [PSeg.getValue, PSeg.setIsa16, PSeg.setEle, padComps, hc]

theorem gsSeg999_props (g : Gs) (p : Params) (gs : PSeg) (h : gsSeg999 g p = some gs) (hs : ':' ∉ p.gsCtl) :
    gs.id = sGS ∧ gs.getValue 5 = some p.gsCtl := by
  unfold gsSeg999 at h
  obtain ⟨y8, w8, k8, _, q8⟩ := optSet_some _ _ _ _ h
  obtain ⟨y7, w7, k7, _, q7⟩ := optSet_some _ _ _ _ k8
  obtain ⟨y6, w6, k6, e6, q6⟩ := optSet_some _ _ _ _ k7
  obtain ⟨y5, w5, k5, _, q5⟩ := optSet_some _ _ _ _ k6
  obtain ⟨y4, w4, k4, _, q4⟩ := optSet_some _ _ _ _ k5
  obtain ⟨y3, w3, k3, _, q3⟩ := optSet_some _ _ _ _ k4
  obtain ⟨y2, w2, k2, _, q2⟩ := optSet_some _ _ _ _ k3
  obtain ⟨y1, w1, k1, _, q1⟩ := optSet_some _ _ _ _ k2
  simp only [Option.some.injEq] at k1 e6
  subst q8 q7 q6 q5 q4 q3 q2 q1 k1 e6
  have hc := fmtComp_split_safe _ hs
  exact ⟨rfl, by simp [PSeg.getValue, PSeg.setEle, padComps, bare, hc]⟩

theorem geTrailer_eq (c : Nat) (id : Str) (hs : Safe id) :
    geTrailer c id = { id := sGE, elems := [[natStr c], [id]] } := by
  unfold geTrailer
  rw [mkSeg_starJoin_safe _ (by simp)]
  · have : sGE ≠ isaId := by decide
    simp [mkSegOf, this, splitOn_no_sep ':' _ (natStr_no c ':' (by simp)), splitOn_no_sep ':' _ hs.2.1]
  · intro q hq
    simp at hq
    rcases hq with rfl | rfl | rfl
    · decide
    · exact ⟨natStr_no c '*' (by simp), natStr_no c '~' (by simp)⟩
    · exact ⟨hs.1, hs.2.2⟩

theorem ieaTrailer_eq (c : Nat) (id : Str) (hs : Safe id) :
    ieaTrailer c id = { id := sIEA, elems := [[natStr c], [id]] } := by
  unfold ieaTrailer
  rw [mkSeg_starJoin_safe _ (by simp)]
  · have : sIEA ≠ isaId := by decide
    simp [mkSegOf, this, splitOn_no_sep ':' _ (natStr_no c ':' (by simp)), splitOn_no_sep ':' _ hs.2.1]
  · intro q hq
    simp at hq
    rcases hq with rfl | rfl | rfl
    · decide
    · exact ⟨natStr_no c '*' (by simp), natStr_no c '~' (by simp)⟩
    · exact ⟨hs.1, hs.2.2⟩

/-- shape of what a 999 visitor that does not raise hands to the writer -/
theorem puts999_ok (cfg : Cfg) (s : State) (p : Params) (h : (puts999 cfg s p).crash = none) :
    ∃ a g isa gs, curIsaNode s = some a ∧ curGsNode s = some g ∧ isaSeg999 a p = some isa ∧ gsSeg999 g p = some gs ∧
      (gssPuts999 cfg 0 (allGs s.tree)).crash = none ∧ (ta1Lines (getIsaErrors999 a) a).crash = none ∧
      (puts999 cfg s p).segs = [isa, gs] ++ (gssPuts999 cfg 0 (allGs s.tree)).segs ++ [geSeg999 p] ++
        (ta1Lines (getIsaErrors999 a) a).segs ++ [mkSeg sIEA] := by
  unfold puts999 at h ⊢
  cases ha : curIsaNode s with
  | none => simp [ha, Lines.fail] at h
  | some a =>
    cases hi : isaSeg999 a p with
    | none => simp [ha, hi, Lines.fail] at h
    | some isa =>
      cases hg : curGsNode s with
      | none => simp [ha, hi, hg] at h
      | some g =>
        cases hgs : gsSeg999 g p with
        | none => simp [ha, hi, hg, hgs] at h
        | some gs =>
          simp only [ha, hi, hg, hgs] at h ⊢
          obtain ⟨h123, h45, e⟩ := andThen_crash_none _ _ h
          obtain ⟨h12, _, e123⟩ := andThen_crash_none _ _ h123
          obtain ⟨_, h2, e12⟩ := andThen_crash_none _ _ h12
          obtain ⟨h4, _, e45⟩ := andThen_crash_none _ _ h45
          rw [isasPuts999_eq] at h2 e12 e123 e
          refine ⟨a, g, isa, gs, rfl, rfl, hi, hgs, h2, h4, ?_⟩
          rw [isasPuts999_eq, e, e123, e12, e45]
          simp [Lines.ok]

/-- what the writer has written for a 999 whose visitor does not raise -/
theorem ack999_out (cfg : Cfg) (s : State) (p : Params) (hv : (puts999 cfg s p).crash = none)
    (hp1 : Safe (isaCtl p)) (hp2 : Safe p.gsCtl) :
    ∃ a isa gs blocks, curIsaNode s = some a ∧ (isaForWrite isa).id = isaId ∧
      (isaForWrite isa).getValue 12 = some (isaCtl p) ∧ gs.id = sGS ∧ gs.getValue 5 = some p.gsCtl ∧
      (ack999 cfg s p).crash = none ∧
      (ack999 cfg s p).out = [isaForWrite isa, gs] ++ blocks ++ [geTrailer (allGs s.tree).length p.gsCtl] ++
          (ta1Lines (getIsaErrors999 a) a).segs ++ [ieaTrailer 1 (isaCtl p)] ∧
      (∀ e : Env, e.stCtl = none → e.gsCtl.isSome = true →
        ∃ k', envRun e blocks = { e with nSt := e.nSt + (allGs s.tree).length, nSeg := k' }) ∧
      stCtls blocks = ctlList 0 (allGs s.tree).length := by
  obtain ⟨a, g, isa, gs, ha, hg, hi, hgs, hblocks, hta1, hsegs⟩ := puts999_ok cfg s p hv
  obtain ⟨i1, i2, i3, i4, i5⟩ := isaSeg999_props a p isa hi hp1.2.1
  obtain ⟨g1, g2⟩ := gsSeg999_props g p gs hgs hp2.2.1
  have e1 : W.init.putAll [isa, gs] =
      { loops := [(LoopKind.gs, p.gsCtl), (LoopKind.isa, isaCtl p)], gsCount := 1, stCount := 0, segCount := 0,
        out := [isaForWrite isa, gs], crash := none } := by
    simp only [W.putAll]
    rw [put_isa W.init isa i1 i2 rfl, put_gs _ gs g1]
    · simp [W.init, i3, g2, pyStr]
    · rfl
  obtain ⟨blocks, k, hput, henv, hctl⟩ := putAll_gss cfg (allGs s.tree) 0
    { loops := [(LoopKind.gs, p.gsCtl), (LoopKind.isa, isaCtl p)], gsCount := 1, stCount := 0, segCount := 0,
      out := [isaForWrite isa, gs], crash := none } rfl hblocks
  have hgeid : (geSeg999 p).id = sGE := rfl
  have hieaid : (mkSeg sIEA).id = sIEA := by decide
  have hfinal : W.init.putAll (puts999 cfg s p).segs =
      { loops := [], gsCount := 0, stCount := 0, segCount := k + (ta1Lines (getIsaErrors999 a) a).segs.length,
        out := [isaForWrite isa, gs] ++ blocks ++ [geTrailer (allGs s.tree).length p.gsCtl] ++
          (ta1Lines (getIsaErrors999 a) a).segs ++ [ieaTrailer 1 (isaCtl p)], crash := none } := by
    rw [hsegs]
    simp only [putAll_append, e1, hput]
    simp only [W.putAll]
    rw [put_ge _ _ p.gsCtl [(LoopKind.isa, isaCtl p)] hgeid rfl]
    · rw [putAll_body _ _ (ta1_body _ a)]
      · rw [put_iea _ _ (isaCtl p) [] hieaid rfl]
        · simp
        · rfl
      · rfl
    · rfl
  refine ⟨a, isa, gs, blocks, ha, i4, i5, g1, g2, ?_, ?_, henv, hctl⟩
  · unfold ack999 W.putLines; rw [hfinal]; simpa using hv
  · unfold ack999 W.putLines; rw [hfinal]

theorem puts999_of_ack (cfg : Cfg) (s : State) (p : Params) (h : (ack999 cfg s p).crash = none) :
    (puts999 cfg s p).crash = none := by
  unfold ack999 W.putLines at h
  cases hc : (W.init.putAll (puts999 cfg s p).segs).crash with
  | some c => simp [hc] at h
  | none => simpa [hc] using h

/-- **envelope, 999**: the trailers the writer generates for a complete 999 pass the same independent recount -/
theorem ack999_envelope_clean (cfg : Cfg) (s : State) (p : Params) (h : (ack999 cfg s p).crash = none)
    (hp1 : Safe (isaCtl p)) (hp2 : Safe p.gsCtl) : envCheck (ack999 cfg s p).out = true := by
  obtain ⟨a, isa, gs, blocks, _, i4, i5, g1, g2, _, hout, henv, _⟩ :=
    ack999_out cfg s p (puts999_of_ack cfg s p h) hp1 hp2
  rw [hout]
  unfold envCheck
  have hne : sGS ≠ isaId := by decide
  have eA : envRun Env.init [isaForWrite isa, gs] =
      { isaCtl := some (isaCtl p), gsCtl := some p.gsCtl, stCtl := none, nGs := 1, nSt := 0, nSeg := 0, ok := true } := by
    simp [envRun, envStep, i4, i5, g1, g2, hne, Env.init]
  obtain ⟨k', eB⟩ := henv
    { isaCtl := some (isaCtl p), gsCtl := some p.gsCtl, stCtl := none, nGs := 1, nSt := 0, nSeg := 0, ok := true } rfl rfl
  have hge := geTrailer_eq (allGs s.tree).length p.gsCtl hp2
  have hiea := ieaTrailer_eq 1 (isaCtl p) hp1
  have hgeid2 : sGE ≠ isaId ∧ sGE ≠ sGS ∧ sGE ≠ sST ∧ sGE ≠ sSE := by decide
  have hieaid2 : sIEA ≠ isaId ∧ sIEA ≠ sGS ∧ sIEA ≠ sST ∧ sIEA ≠ sSE ∧ sIEA ≠ sGE := by decide
  simp only [envRun_append, eA, eB]
  rw [hge, hiea]
  simp only [envRun, envStep, hgeid2.1, hgeid2.2.1, hgeid2.2.2.1, hgeid2.2.2.2, if_false, if_true]
  rw [envRun_body _ _ (ta1_body _ a)]
  simp [hieaid2.1, hieaid2.2.1, hieaid2.2.2.1, hieaid2.2.2.2.1, hieaid2.2.2.2.2, PSeg.getValue, fmtComp_single]

/-- **unique set control numbers, 999** -/
theorem ack999_st_control_unique (cfg : Cfg) (s : State) (p : Params) (h : (ack999 cfg s p).crash = none)
    (hp1 : Safe (isaCtl p)) (hp2 : Safe p.gsCtl) :
    (stCtls (ack999 cfg s p).out).Pairwise (fun a b => a ≠ b) := by
  obtain ⟨a, isa, gs, blocks, _, i4, _, g1, _, _, hout, _, hctl⟩ :=
    ack999_out cfg s p (puts999_of_ack cfg s p h) hp1 hp2
  rw [hout]
  simp only [stCtls_append, hctl]
  have hisa : isST (isaForWrite isa) = false := by simp [isST, i4]; decide
  have hgsf : isST gs = false := by simp [isST, g1]; decide
  have e1 : stCtls [isaForWrite isa, gs] = [] := by simp [stCtls, hisa, hgsf]
  have e2 : stCtls [geTrailer (allGs s.tree).length p.gsCtl] = [] := by
    have : isST (geTrailer (allGs s.tree).length p.gsCtl) = false := by
      rw [geTrailer_eq _ _ hp2]; simp [isST]; decide
    simp [stCtls, this]
  have e3 : stCtls (ta1Lines (getIsaErrors999 a) a).segs = [] := stCtls_body _ (ta1_body _ a)
  have e4 : stCtls [ieaTrailer 1 (isaCtl p)] = [] := by
    have : isST (ieaTrailer 1 (isaCtl p)) = false := by
      rw [ieaTrailer_eq _ _ hp1]; simp [isST]; decide
    simp [stCtls, this]
  rw [e1, e2, e3, e4]
  simpa using ctlList_pairwise 0 (allGs s.tree).length

/-! ### the repaired 999 visitor does not raise -/

structure Complete999 (s : State) : Prop where
  isa : ∃ a, curIsaNode s = some a ∧ a.e05.isSome ∧ a.e06.isSome ∧ a.e07.isSome ∧ a.e08.isSome ∧
          a.e12.isSome ∧ a.e15.isSome ∧ a.ta1Req ≠ some ['1']
  gs : ∃ g, curGsNode s = some g ∧ g.gs02.isSome ∧ g.gs03.isSome ∧ g.gs07.isSome
  groups : ∀ g ∈ allGs s.tree, g.fic.isSome ∧ g.ctlNum.isSome ∧ g.vriic.isSome
  sets : ∀ g ∈ allGs s.tree, ∀ st ∈ g.children, st.trnSetId.isSome ∧ st.ctlNum.isSome

theorem stLines999_fixed (st : St) (h1 : st.trnSetId.isSome) (h2 : st.ctlNum.isSome) :
    (stLines999 fixed st).crash = none := by
  obtain ⟨i, hi⟩ := Option.isSome_iff_exists.mp h1
  obtain ⟨c, hc⟩ := Option.isSome_iff_exists.mp h2
  obtain ⟨codes, hk⟩ := getStErrors_fixed st
  have hf : fixed.legacy = false := rfl
  cases hv : st.vriic <;>
    simp [stLines999, ak2Lines999, ik5Lines999, hi, hc, hk, hv, Lines.andThen, Lines.ok, hf]

theorem stsLines999_fixed (l : List St) (h : ∀ st ∈ l, st.trnSetId.isSome ∧ st.ctlNum.isSome) :
    (stsLines (stLines999 fixed) l).crash = none := by
  induction l with
  | nil => rfl
  | cons st r ih =>
    have h1 := stLines999_fixed st (h st (by simp)).1 (h st (by simp)).2
    have h2 := ih (fun x hx => h x (by simp [hx]))
    simp [stsLines, Lines.andThen, h1, h2]

theorem gssPuts999_fixed (n : Nat) (l : List Gs)
    (hg : ∀ g ∈ l, g.fic.isSome ∧ g.ctlNum.isSome ∧ g.vriic.isSome)
    (hs : ∀ g ∈ l, ∀ st ∈ g.children, st.trnSetId.isSome ∧ st.ctlNum.isSome) :
    (gssPuts999 fixed n l).crash = none := by
  induction l generalizing n with
  | nil => rfl
  | cons g r ih =>
    obtain ⟨f1, f2, f3⟩ := hg g (by simp)
    obtain ⟨v1, e1⟩ := Option.isSome_iff_exists.mp f1
    obtain ⟨v2, e2⟩ := Option.isSome_iff_exists.mp f2
    obtain ⟨v3, e3⟩ := Option.isSome_iff_exists.mp f3
    have hl := stsLines999_fixed g.children (hs g (by simp))
    have hr := ih (n + 1) (fun x hx => hg x (by simp [hx])) (fun x hx => hs x (by simp [hx]))
    simp [gssPuts999, gsPuts999, ak1Seg999, optSet, e1, e2, e3, Lines.andThen, Lines.ok, hl, hr]

/-- **complete, 999**: after the repair (AK203 omitted when ST03 is absent) the 999 visitor never raises when the
copied header values are present, and the writer accepts everything it is handed -/
theorem ack999_complete (s : State) (p : Params) (h : Complete999 s) (hp1 : Safe (isaCtl p)) (hp2 : Safe p.gsCtl) :
    (ack999 fixed s p).crash = none := by
  obtain ⟨a, ha, a5, a6, a7, a8, a12, a15, hta⟩ := h.isa
  obtain ⟨g, hg, g2, g3, g7⟩ := h.gs
  obtain ⟨v5, e5⟩ := Option.isSome_iff_exists.mp a5
  obtain ⟨v6, e6⟩ := Option.isSome_iff_exists.mp a6
  obtain ⟨v7, e7⟩ := Option.isSome_iff_exists.mp a7
  obtain ⟨v8, e8⟩ := Option.isSome_iff_exists.mp a8
  obtain ⟨v12, e12⟩ := Option.isSome_iff_exists.mp a12
  obtain ⟨v15, e15⟩ := Option.isSome_iff_exists.mp a15
  obtain ⟨w2, f2⟩ := Option.isSome_iff_exists.mp g2
  obtain ⟨w3, f3⟩ := Option.isSome_iff_exists.mp g3
  obtain ⟨w7, f7⟩ := Option.isSome_iff_exists.mp g7
  have hisa : ∃ isa, isaSeg999 a p = some isa := by
    simp [isaSeg999, optSet, e5, e6, e7, e8, e12, e15]
  have hgs : ∃ gs, gsSeg999 g p = some gs := by
    simp [gsSeg999, optSet, f2, f3, f7]
  obtain ⟨isa, hisa⟩ := hisa
  obtain ⟨gs, hgs⟩ := hgs
  have hta1 : ta1Lines (getIsaErrors999 a) a = Lines.ok [] := by simp [ta1Lines, c1, hta]
  have hb := gssPuts999_fixed 0 (allGs s.tree) h.groups h.sets
  have hv : (puts999 fixed s p).crash = none := by
    simp [puts999, ha, hg, hisa, hgs, isasPuts999_eq, Lines.andThen, Lines.ok, hb, hta1]
  obtain ⟨_, _, _, _, _, _, _, _, _, hc, _⟩ := ack999_out fixed s p hv hp1 hp2
  exact hc

end Pyx12Verif.Ack
