/-
C20 — the normaliser preserves content, is idempotent and repairs counts.

Model: `Model/Norm.lean` (`x12norm.main()` on one file, after fix C20-D17), built on the reader of C01
(`SegText.readLines`, `formatSeg`), the envelope bookkeeping of C04 (`Envelope.step`) and get_value / set of C17.
`readSegs d text` is what the reader yields for a text whose header announces the delimiters `d`.

  norm_preserves_segments     without -f: reading the output gives the segments read from the input, same values
                              (up to the trimming of trailing empty elements / components `Segment.format` does),
                              printed with the same delimiters
  isa_line_verbatim           a complete ISA line is printed character for character (so the output announces the
                              same delimiters)
  one_per_line                with -e every piece written is  <one segment> <terminator> LF
  norm_idempotent             without -f: normalising the output gives the output again (full strength, for every
                              text in which no 16-element ISA has an empty ISA16)
  norm_idempotent_full (def), norm_idempotent_counterexample   … without that proviso the statement is FALSE
  norm_idempotent_fix_partial with -f: the same, for texts already free of trailing empty elements / components
  fix_leaves_no_count_error   with -f, ANY segment sequence: the reader model run over the written segments reports no
                              IEA / GE / SE count error and no HL sequence error; every other error is reported as before
  fix_repairs_counts          onlyCountDefects D → no envelope error at all is left            (Norm ∘ Envelope)
  fix_alters_nothing_else     with -f every written segment is the one read, or an IEA / GE / SE / HL segment with
                              element 1 replaced by a decimal number
  norm_never_crashes          on what the reader yields `main()` ends normally or with the deliberate X12Error
-/
import Pyx12Verif.Proofs.NormNormal
import Pyx12Verif.Props.C04

namespace Pyx12Verif.Norm
open Pyx12Verif SegText Envelope Tokenizer
open Pyx12Verif.C01 (AllBrk encText isBrk)

/-! ### what the reader hands to the loop -/

theorem readSegs_segments (d : Delims) (text : List Char) : (readSegs d text).map (·.2) = segments d text := rfl

theorem readSegs_clean (d : Delims) (text : List Char) : ∀ x ∈ readSegs d text, Clean d x.2 := by
  intro x hx
  exact C01.segments_clean d text x.2 (by rw [← readSegs_segments]; exact List.mem_map.mpr ⟨x, hx, rfl⟩)

theorem clean_comps {d : Delims} {s : Seg} (h : Clean d s) : ∀ c ∈ s.elems, c ≠ [] :=
  fun c hc => (h.1.2.2 c hc).1

theorem allBrk_eol (o : Options) : AllBrk (eolOf o) := by
  intro c hc
  unfold eolOf at hc
  split at hc
  · simp at hc; exact Or.inl hc
  · simp at hc

/-- reading the text made of the lines of clean segments gives those segments back (trimmed) -/
theorem segments_textOf (o : Options) (d : Delims) (hd : d.Distinct) (segs : List Seg) (hc : ∀ s ∈ segs, Clean d s) :
    segments d (textOf o (segs.map (lineOf o d))) = segs.map normSeg := by
  obtain ⟨txt, h1, h2⟩ := C01.segments_encode d hd (eolOf o) (allBrk_eol o) segs hc
  rw [C01.encode_eq d _ segs (fun s hs => clean_comps (hc s hs))] at h1
  injection h1 with h1
  subst h1
  unfold textOf
  rw [flatten_lines]
  cases he : o.eol with
  | true => simpa using h2
  | false =>
    have hb : eolOf o = [] := by simp [eolOf, he]
    simp only [Bool.false_eq_true, if_false]
    unfold segments at h2 ⊢
    rw [spec_append_brk d.term _ ['\n'] (by intro c hc; simp at hc; exact Or.inl hc) (encText_end d _ segs hb)]
    exact h2

/-- without `-f`: the outcome of the loop on what the reader yields, in closed form -/
theorem norm_nofix_eq (o : Options) (hf : o.fix = false) (d : Delims) (inp : List (List RErr × Seg))
    (hc : ∀ x ∈ inp, Clean d x.2) (lines : List Line) (h : norm o d inp = .ok lines) :
    lines = (inp.map (·.2)).map (lineOf o d) ∧ ∀ x ∈ inp, x.2.id = idISA → x.2.elems.length = 16 := by
  unfold norm at h
  cases hl : loop o d (RState.init false) inp with
  | raised => rw [hl] at h; cases h
  | crash => rw [hl] at h; cases h
  | ok out =>
    have hisa := loop_nofix_inv o d inp _ out (fun x hx => clean_comps (hc x hx)) hl
    rw [hl] at h
    rw [loop_nofix_ok o hf d inp _ (fun x hx => ⟨clean_comps (hc x hx), hisa x hx⟩)] at hl
    injection hl with hl
    rw [← hl] at h
    simp only [Res.map] at h
    injection h with h
    exact ⟨by rw [← h]; simp [List.map_map, Function.comp_def], hisa⟩

/-! ### 1. content is preserved -/

/-- Without `-f`: one piece per segment read, and reading the complete output with the same delimiters yields the
    segments of the input with the same identifiers and values; the only difference is the one `Segment.format`
    makes (`normSeg`: trailing empty elements and trailing empty components are not printed). -/
theorem norm_preserves_segments (d : Delims) (hd : d.Distinct) (eol : Bool) (text : List Char) (lines : List Line)
    (h : norm ⟨eol, false⟩ d (readSegs d text) = .ok lines) :
    lines.length = (segments d text).length ∧
    lines = (segments d text).map (fun s => bodyOf d s ++ [d.term] ++ eolOf ⟨eol, false⟩) ∧
    segments d (textOf ⟨eol, false⟩ lines) = (segments d text).map normSeg := by
  obtain ⟨h1, _⟩ := norm_nofix_eq ⟨eol, false⟩ rfl d _ (readSegs_clean d text) lines h
  rw [readSegs_segments] at h1
  refine ⟨by rw [h1]; simp, h1, ?_⟩
  rw [h1]
  exact segments_textOf _ d hd _ (C01.segments_clean d text)

/-! ### 2. the ISA line is printed verbatim -/

theorem trimTrail_eq_self {α : Type} (p : α → Bool) (l : List α) (a : α) (h : l.getLast? = some a) (ha : p a = false) :
    trimTrail p l = l := by
  unfold trimTrail
  have : l.reverse.head? = some a := by rw [List.head?_reverse]; exact h
  cases hr : l.reverse with
  | nil => rw [hr] at this; cases this
  | cons b r =>
    rw [hr] at this
    simp only [List.head?_cons, Option.some.injEq] at this
    subst this
    rw [List.dropWhile_cons_of_neg (by simp [ha]), ← hr, List.reverse_reverse]

theorem joinWith_snoc (e : Char) (ps : List (List Char)) (hne : ps ≠ []) (q : List Char) :
    joinWith e (ps ++ [q]) = joinWith e ps ++ e :: q := by
  induction ps with
  | nil => exact absurd rfl hne
  | cons a r ih =>
    cases r with
    | nil => simp [joinWith]
    | cons b r' =>
      have := ih (by simp)
      simp only [List.cons_append, joinWith] at this ⊢
      rw [this]; simp

/-- A line whose identifier is ISA and whose last character is not the element separator (the 106-character header
    ends with the component separator) is printed exactly as it was read: the output starts with the input's header,
    so a reader of the output finds the same three delimiters at the same offsets. -/
theorem isa_line_verbatim (d : Delims) (l : List Char) (s : Seg) (ht : d.term ∉ l)
    (hp : parseSeg d l = some s) (hid : s.id = isaId) (c : Char) (hlast : l.getLast? = some c) (hc : c ≠ d.ele)
    (hel : s.elems ≠ []) :
    formatSeg d s = some (l ++ [d.term]) := by
  have hsub := C01.isa_not_subsplit d l s hp hid
  rw [stripTerm_of_not_mem _ _ ht] at hsub
  have hl : joinWith d.ele (splitOn d.ele l) = l := SegText.split_join _ _
  have hne : l ≠ [] := by intro e; rw [e] at hlast; cases hlast
  rw [C01.parseSeg_of_no_term d l hne ht] at hp
  obtain ⟨hsp, _⟩ := C01.splitOn_cons_of_buildSeg hp
  generalize htl : (splitOn d.ele l).tail = tl at hsub hsp
  have htne : tl ≠ [] := by intro e; rw [e] at hsub; simp at hsub; exact hel hsub
  rw [hsp] at hl
  have hcomps : ∀ c ∈ s.elems, c ≠ [] := by
    intro c hc; rw [hsub] at hc
    obtain ⟨p, _, rfl⟩ := List.mem_map.mp hc; simp
  -- the last piece is not empty: otherwise the line would end with the separator
  obtain ⟨ini, p, rfl⟩ : ∃ ini p, tl = ini ++ [p] := ⟨tl.dropLast, tl.getLast htne, (List.dropLast_concat_getLast htne).symm⟩
  have hpne : p ≠ [] := by
    intro e
    subst e
    have : l = joinWith d.ele (s.id :: ini) ++ [d.ele] := by
      rw [← hl, ← List.cons_append, joinWith_snoc d.ele (s.id :: ini) (by simp) []]
    rw [this, List.getLast?_concat] at hlast
    injection hlast with hlast
    exact hc hlast.symm
  have hlastne : isEmptyComp [p] = false := by
    cases p with
    | nil => exact absurd rfl hpne
    | cons a r => rfl
  have htrim : trimTrail isEmptyComp s.elems = s.elems := by
    apply trimTrail_eq_self isEmptyComp s.elems [p] _ hlastne
    rw [hsub]; simp
  have hkept : keptSpec s.elems = s.elems := by
    unfold keptSpec; rw [htrim]; simp [hel]
  rw [formatSeg_eq d s hcomps]
  congr 1
  unfold bodyOf
  rw [hkept, hsub, List.map_map]
  have hmap : List.map ((fun c => joinWith d.sub (normComp c)) ∘ fun p => [p]) (ini ++ [p]) = ini ++ [p] := by
    conv => rhs; rw [← List.map_id (ini ++ [p])]
    apply List.map_congr_left
    intro q _
    simp [Function.comp, normComp_single, joinWith]
  rw [hmap, ← joinWith_cons_ne d.ele s.id (ini ++ [p]) (by simp), hl]

/-! ### 3. what is written, for every option combination -/

/-- the hypotheses under which `-f` is analysed: no delimiter is a decimal digit, and the number of segments stays
    below `10 ^ 4300` (a longer decimal text is refused by CPython's `int()`) -/
def FixOk (fix : Bool) (d : Delims) (n : Nat) : Prop :=
  fix = true → NoDigit d ∧ n + 1 < 10 ^ maxStrDigits

theorem bounded_init : Bounded 0 (RState.init false) := ⟨Nat.le_refl _, Nat.le_refl _, Nat.le_refl _, Nat.le_refl _⟩

theorem lines_of_shape (o : Options) (d : Delims) (hnd : NoDigit d) :
    ∀ (inp : List (List RErr × Seg)) (out : List (Seg × Line)),
      (∀ x ∈ inp, Clean d x.2) →
      All2 (fun x y => Repaired d x.2 y.1 ∧ emit o d y.1 = .ok y.2) inp out →
      out.map (·.2) = (out.map (·.1)).map (lineOf o d) ∧ (∀ s ∈ out.map (·.1), Clean d s) ∧
      All2 (Repaired d) (inp.map (·.2)) (out.map (·.1)) := by
  intro inp out hc h
  induction h with
  | nil => exact ⟨rfl, by intro s hs; simp at hs, .nil⟩
  | @cons x y l m hr _ ih =>
    obtain ⟨i1, i2, i3⟩ := ih (fun z hz => hc z (List.mem_cons_of_mem _ hz))
    have hcl : Clean d y.1 := repaired_clean d hnd x.2 y.1 hr.1 (hc x (by simp))
    have hline : y.2 = lineOf o d y.1 := by
      have := hr.2
      rw [emit_eq o d y.1 (clean_comps hcl)] at this
      injection this with this
      exact this.symm
    refine ⟨by simp [hline, i1], ?_, .cons hr.1 i3⟩
    intro s hs
    simp only [List.map_cons, List.mem_cons] at hs
    rcases hs with rfl | hs
    · exact hcl
    · exact i2 s hs

/-- The pieces written are the lines of a list of clean segments, each of which is the segment read or, with `-f`,
    that segment with element 1 replaced by a decimal number (IEA / GE / SE / HL only). -/
theorem written (d : Delims) (o : Options) (text : List Char) (hok : FixOk o.fix d (segments d text).length)
    (lines : List Line) (h : norm o d (readSegs d text) = .ok lines) :
    ∃ segs', lines = segs'.map (lineOf o d) ∧ (∀ s ∈ segs', Clean d s) ∧ All2 (Repaired d) (segments d text) segs' ∧
      normSegs o d (readSegs d text) = .ok segs' := by
  cases hf : o.fix with
  | false =>
    obtain ⟨h1, hisa⟩ := norm_nofix_eq o hf d _ (readSegs_clean d text) lines h
    rw [readSegs_segments] at h1
    refine ⟨segments d text, h1, C01.segments_clean d text, ?_, ?_⟩
    · generalize segments d text = l
      induction l with
      | nil => exact .nil
      | cons a r ih => exact .cons (Or.inl rfl) ih
    · unfold normSegs
      rw [loop_nofix_ok o hf d _ _ (fun x hx => ⟨clean_comps (readSegs_clean d text x hx), hisa x hx⟩)]
      simp only [Res.map, List.map_map]
      rw [← readSegs_segments]
      congr 1
  | true =>
    obtain ⟨hnd, hsmall⟩ := hok hf
    have ho : o = ⟨o.eol, true⟩ := by cases o; simp_all
    unfold norm at h
    cases hl : loop o d (RState.init false) (readSegs d text) with
    | raised => rw [hl] at h; cases h
    | crash => rw [hl] at h; cases h
    | ok out =>
      rw [hl] at h
      simp only [Res.map] at h
      injection h with h
      have hlen : (readSegs d text).length = (segments d text).length := by rw [← readSegs_segments]; simp
      have hl' := hl
      rw [ho] at hl'
      have hshape := loop_fix_shape d hnd.2.2 o.eol (readSegs d text) _ 0 out rfl bounded_init (by omega) hl'
      rw [← ho] at hshape
      obtain ⟨i1, i2, i3⟩ := lines_of_shape o d hnd _ out (readSegs_clean d text) hshape
      refine ⟨out.map (·.1), by rw [← h]; exact i1, i2, by rw [← readSegs_segments]; exact i3, ?_⟩
      unfold normSegs
      rw [hl]; rfl

/-! ### 4. one segment per line -/

/-- With `-e`, whatever the other option: one piece per segment read, and every piece is the printed body of one clean
    segment, the terminator (which does not occur in the body) and LF; read on its own it yields exactly that segment. -/
theorem one_per_line (d : Delims) (hd : d.Distinct) (fix : Bool) (text : List Char)
    (hok : FixOk fix d (segments d text).length) (lines : List Line)
    (h : norm ⟨true, fix⟩ d (readSegs d text) = .ok lines) :
    lines.length = (segments d text).length ∧
    ∀ l ∈ lines, ∃ s, Clean d s ∧ l = bodyOf d s ++ [d.term, '\n'] ∧ d.term ∉ bodyOf d s ∧
      segments d l = [normSeg s] := by
  obtain ⟨segs', h1, h2, h3, _⟩ := written d ⟨true, fix⟩ text hok lines h
  refine ⟨by rw [h1, List.length_map]; exact h3.length_eq.symm, ?_⟩
  intro l hl
  rw [h1] at hl
  obtain ⟨s, hs, rfl⟩ := List.mem_map.mp hl
  have hc := h2 s hs
  refine ⟨s, hc, by simp [lineOf, eolOf], term_not_mem_body d s hd hc.1, ?_⟩
  have := segments_textOf ⟨true, fix⟩ d hd [s] (by intro x hx; simp at hx; rw [hx]; exact hc)
  simpa [textOf] using this

/-! ### 5. idempotence -/

/-- normalising does not shorten an ISA segment: no 16-element ISA of the text has an empty ISA16 -/
def IsaKept (d : Delims) (text : List Char) : Prop :=
  ∀ s ∈ segments d text, s.id = isaId → s.elems.length = 16 → (normSeg s).elems.length = 16

theorem lineOf_normSeg (o : Options) (d : Delims) (s : Seg) (h : ∀ c ∈ s.elems, c ≠ []) :
    lineOf o d (normSeg s) = lineOf o d s := by
  simp [lineOf, bodyOf_normSeg d s h]

theorem normText_ok {o : Options} {d : Delims} {inp : List (List RErr × Seg)} {txt : List Char}
    (h : normText o d inp = .ok txt) : ∃ lines, norm o d inp = .ok lines ∧ txt = textOf o lines := by
  unfold normText at h
  cases hn : norm o d inp with
  | raised => rw [hn] at h; cases h
  | crash => rw [hn] at h; cases h
  | ok lines => rw [hn] at h; injection h with h; exact ⟨lines, rfl, h.symm⟩

/-- Without `-f`: normalising the output of the normaliser (same options, the delimiters its header announces)
    reproduces it character for character. -/
theorem norm_idempotent (d : Delims) (hd : d.Distinct) (eol : Bool) (text txt : List Char) (hisa : IsaKept d text)
    (h : normText ⟨eol, false⟩ d (readSegs d text) = .ok txt) :
    normText ⟨eol, false⟩ d (readSegs d txt) = .ok txt := by
  obtain ⟨lines, hn, rfl⟩ := normText_ok h
  obtain ⟨h1, h16⟩ := norm_nofix_eq ⟨eol, false⟩ rfl d _ (readSegs_clean d text) lines hn
  rw [readSegs_segments] at h1
  have hseg : segments d (textOf ⟨eol, false⟩ lines) = (segments d text).map normSeg := by
    rw [h1]; exact segments_textOf _ d hd _ (C01.segments_clean d text)
  have hmem : ∀ x ∈ readSegs d (textOf ⟨eol, false⟩ lines), ∃ s ∈ segments d text, x.2 = normSeg s := by
    intro x hx
    have : x.2 ∈ segments d (textOf ⟨eol, false⟩ lines) := by
      rw [← readSegs_segments]; exact List.mem_map.mpr ⟨x, hx, rfl⟩
    rw [hseg] at this
    obtain ⟨s, hs, e⟩ := List.mem_map.mp this
    exact ⟨s, hs, e.symm⟩
  have hok := loop_nofix_ok ⟨eol, false⟩ rfl d (readSegs d (textOf ⟨eol, false⟩ lines)) (RState.init false) (by
    intro x hx
    refine ⟨clean_comps (readSegs_clean d _ x hx), ?_⟩
    obtain ⟨s, hs, e⟩ := hmem x hx
    intro hid
    rw [e] at hid ⊢
    have hs' : ∃ y ∈ readSegs d text, y.2 = s := by
      have : s ∈ (readSegs d text).map (·.2) := by rw [readSegs_segments]; exact hs
      obtain ⟨y, hy, e⟩ := List.mem_map.mp this
      exact ⟨y, hy, e⟩
    obtain ⟨y, hy, rfl⟩ := hs'
    exact hisa y.2 hs hid (h16 y hy hid))
  unfold normText norm
  rw [hok]
  simp only [Res.map, List.map_map]
  congr 2
  have : List.map ((fun x => x.2) ∘ fun x => (x.2, lineOf ⟨eol, false⟩ d x.2)) (readSegs d (textOf ⟨eol, false⟩ lines)) =
      (segments d (textOf ⟨eol, false⟩ lines)).map (lineOf ⟨eol, false⟩ d) := by
    rw [← readSegs_segments, List.map_map]; rfl
  rw [this, hseg, List.map_map, h1]
  apply List.map_congr_left
  intro s hs
  exact lineOf_normSeg _ d s (clean_comps (C01.segments_clean d text s hs))

/-- the statement without the proviso about ISA16 -/
def norm_idempotent_full : Prop :=
  ∀ (d : Delims), d.Distinct → ∀ (o : Options) (text txt : List Char),
    normText o d (readSegs d text) = .ok txt → normText o d (readSegs d txt) = .ok txt

def isa16 (ctl last : String) : List Char :=
  ("ISA*1*2*3*4*5*6*7*8*9*10*11*12*" ++ ctl ++ "*14*15*" ++ last ++ "~").toList

/-- two interchanges, the ISA of the second with an empty ISA16 -/
def witnessText : List Char := isa16 "1" ":" ++ "IEA*0*1~".toList ++ isa16 "2" "" ++ "IEA*0*2~".toList

def witnessOut : List Char :=
  isa16 "1" ":" ++ "IEA*0*1~".toList ++ "ISA*1*2*3*4*5*6*7*8*9*10*11*12*2*14*15~IEA*0*2~\n".toList

theorem witness_first_pass : normText ⟨false, false⟩ C01.dflt (readSegs C01.dflt witnessText) = .ok witnessOut := by
  decide +kernel

theorem witness_second_pass : normText ⟨false, false⟩ C01.dflt (readSegs C01.dflt witnessOut) = .raised := by
  decide +kernel

/-- D42: the second ISA is printed with 15 elements, and the normaliser refuses its own output -/
theorem norm_idempotent_counterexample : ¬ norm_idempotent_full := by
  intro h
  have := h C01.dflt ⟨by decide, by decide, by decide⟩ ⟨false, false⟩ _ _ witness_first_pass
  rw [witness_second_pass] at this
  cases this

/-! ### 6. count repair -/

/-- the four errors `-f` is meant to remove, among the errors of a reader run -/
def countErrs (o : Outcome (List (List Err))) : List Err := (errs o).filter isCountErr

theorem cleanup_no_count (s : RState) : ∀ e ∈ cleanup s, isCountErr e = false := by
  intro e he
  unfold cleanup at he
  obtain ⟨k, _, rfl⟩ := List.mem_map.mp he
  obtain ⟨k1, k2⟩ := k
  cases k1 <;> rfl

theorem normSegs_ok {o : Options} {d : Delims} {inp : List (List RErr × Seg)} {segs' : List Seg}
    (h : normSegs o d inp = .ok segs') : ∃ out, loop o d (RState.init false) inp = .ok out ∧ segs' = out.map (·.1) := by
  unfold normSegs at h
  cases hl : loop o d (RState.init false) inp with
  | raised => rw [hl] at h; cases h
  | crash => rw [hl] at h; cases h
  | ok out => rw [hl] at h; injection h with h; exact ⟨out, rfl, h.symm⟩

/-- The two runs of the reader model, over what was read and over what `-f` wrote: the second reports, segment by
    segment, the errors of the first without the four count errors (and ends in the same state, so the end-of-input
    errors are the same). -/
theorem fix_runs (d : Delims) (hnd : isDigit d.sub = false) (eol : Bool) (inp : List (List RErr × Seg))
    (hsmall : inp.length + 1 < 10 ^ maxStrDigits) (segs' : List Seg) (h : normSegs ⟨eol, true⟩ d inp = .ok segs') :
    ∃ vs vs' outs last,
      viewsOf d (inp.map (·.2)) = .ok vs ∧ viewsOf d segs' = .ok vs' ∧
      run Fixes.all false vs = .ok (outs ++ [last]) ∧
      run Fixes.all false vs' = .ok (outs.map (List.filter (fun x => !isCountErr x)) ++ [last]) ∧
      ∀ e ∈ last, isCountErr e = false := by
  obtain ⟨out, hl, rfl⟩ := normSegs_ok h
  obtain ⟨vs, vs', S, outs, k1, k2, k3, k4⟩ :=
    loop_fix d hnd eol inp (RState.init false) 0 out rfl bounded_init (by omega) hl
  refine ⟨vs, vs', outs, cleanup S, k1, k2, ?_, ?_, cleanup_no_count S⟩
  · simp [run, k3, Outcome.bind]
  · simp [run, k4, Outcome.bind]

/-- With `-f`, for ANY sequence of segments (nested properly or not): re-running the reader over the segments
    written reports no IEA / GE / SE count error and no HL sequence error. -/
theorem fix_leaves_no_count_error (d : Delims) (hnd : isDigit d.sub = false) (eol : Bool)
    (inp : List (List RErr × Seg)) (hsmall : inp.length + 1 < 10 ^ maxStrDigits) (segs' : List Seg)
    (h : normSegs ⟨eol, true⟩ d inp = .ok segs') :
    ∃ vs', viewsOf d segs' = .ok vs' ∧ countErrs (run Fixes.all false vs') = [] := by
  obtain ⟨vs, vs', outs, last, _, k2, _, k4, k5⟩ := fix_runs d hnd eol inp hsmall segs' h
  refine ⟨vs', k2, ?_⟩
  unfold countErrs
  rw [k4]
  simp only [errs, List.flatten_append, List.filter_append, List.append_eq_nil_iff]
  constructor
  · rw [List.filter_eq_nil_iff]
    intro e he
    obtain ⟨l, hl, hel⟩ := List.mem_flatten.mp he
    obtain ⟨l0, _, rfl⟩ := List.mem_map.mp hl
    have := (List.mem_filter.mp hel).2
    simpa using this
  · rw [List.filter_eq_nil_iff]
    intro e he
    simp only [List.flatten_cons, List.flatten_nil, List.append_nil] at he
    simp [k5 e he]

/-- a structured document (Spec/Envelope) whose only discrepancies, as the structural recount finds them, are
    IEA01 / GE01 / SE01 counts and HL01 sequence numbers -/
def onlyCountDefects (D : List Interchange) : Prop := ∀ e ∈ recount false D, isCountErr e = true

/-- **Norm ∘ Envelope.**  If the segments read are (seen through `get_value`) the flattening of a structured document
    whose only defects are counts, then the reader run over the segments written by `-f` reports nothing at all. -/
theorem fix_repairs_counts (d : Delims) (hnd : isDigit d.sub = false) (eol : Bool) (inp : List (List RErr × Seg))
    (hsmall : inp.length + 1 < 10 ^ maxStrDigits) (D : List Interchange) (hD : InDomain false D)
    (hv : viewsOf d (inp.map (·.2)) = .ok (flatten D)) (hc : onlyCountDefects D)
    (segs' : List Seg) (h : normSegs ⟨eol, true⟩ d inp = .ok segs') :
    ∃ vs', viewsOf d segs' = .ok vs' ∧ errs (run Fixes.all false vs') = [] := by
  obtain ⟨vs, vs', outs, last, k1, k2, k3, k4, k5⟩ := fix_runs d hnd eol inp hsmall segs' h
  rw [hv] at k1
  injection k1 with k1
  subst k1
  have hrec := reader_eq_recount false D hD
  rw [k3] at hrec
  simp only [errs, List.flatten_append, List.flatten_cons, List.flatten_nil, List.append_nil] at hrec
  have hall : ∀ e ∈ outs.flatten ++ last, isCountErr e = true := by rw [hrec]; exact hc
  have hlast : last = [] := by
    cases last with
    | nil => rfl
    | cons a r =>
      have h1 := hall a (by simp)
      have h2 := k5 a (by simp)
      rw [h1] at h2; cases h2
  refine ⟨vs', k2, ?_⟩
  rw [k4, hlast]
  simp only [errs, List.flatten_append, List.flatten_cons, List.flatten_nil, List.append_nil]
  rw [List.flatten_eq_nil_iff]
  intro l hl
  obtain ⟨l0, hl0, rfl⟩ := List.mem_map.mp hl
  rw [List.filter_eq_nil_iff]
  intro e he
  have := hall e (List.mem_append_left _ (List.mem_flatten.mpr ⟨l0, hl0, he⟩))
  simp [this]

/-- a consistent document has, in particular, only count defects (none) -/
theorem consistent_onlyCountDefects (D : List Interchange) (hD : InDomain false D) (hc : Consistent false D) :
    onlyCountDefects D := by
  intro e he
  have := consistent_no_error false D hD hc
  rw [reader_eq_recount false D hD] at this
  rw [this] at he
  cases he

/-- With `-f`: every segment written has the identifier and all elements but the first of the segment read; a segment
    other than IEA / GE / SE / HL is written as read; and where the first element changes it becomes a decimal number
    (one simple element). -/
theorem fix_alters_nothing_else (d : Delims) (eol : Bool) (text : List Char)
    (hok : FixOk true d (segments d text).length) (segs' : List Seg)
    (h : normSegs ⟨eol, true⟩ d (readSegs d text) = .ok segs') :
    All2 (fun s s' => s'.id = s.id ∧ s'.elems.tail = s.elems.tail ∧ (¬ CountId s.id → s' = s) ∧
            (s' = s ∨ ∃ n, s'.elems.head? = some [decimal n]))
      (segments d text) segs' := by
  obtain ⟨hnd, hsmall⟩ := hok rfl
  obtain ⟨out, hl, rfl⟩ := normSegs_ok h
  have hlen : (readSegs d text).length = (segments d text).length := by rw [← readSegs_segments]; simp
  have hshape := loop_fix_shape d hnd.2.2 eol (readSegs d text) _ 0 out rfl bounded_init (by omega) hl
  obtain ⟨_, _, i3⟩ := lines_of_shape ⟨eol, true⟩ d hnd _ out (readSegs_clean d text) hshape
  rw [readSegs_segments] at i3
  refine i3.imp ?_
  intro s _ s' hr
  refine ⟨repaired_id d s s' hr, repaired_tail d s s' hr, ?_, ?_⟩
  · intro hn
    rcases hr with rfl | ⟨hid, _⟩
    · rfl
    · exact absurd hid hn
  · rcases hr with rfl | ⟨_, n, rfl⟩
    · exact Or.inl rfl
    · right
      refine ⟨n, ?_⟩
      simp [set01, Path.splitOn_no_sep _ _ (not_mem_decimal hnd.2.2 n)]

/-! ### 7. `-f`: the text written, read again -/

/-- the text is already in the normal form of `Segment.format`: no trailing empty element, no trailing empty component -/
def Normal (d : Delims) (text : List Char) : Prop := ∀ s ∈ segments d text, normSeg s = s

theorem decimal_ne_nil (n : Nat) : decimal n ≠ [] := Nat.toDigits_ne_nil

/-- what a `-f` pass wrote, read again from the text, under the `Normal` proviso: exactly the segments written -/
theorem fix_written_reread (d : Delims) (hd : d.Distinct) (eol : Bool) (text : List Char)
    (hok : FixOk true d (segments d text).length) (hn : Normal d text) (out : List (Seg × Line))
    (hl : loop ⟨eol, true⟩ d (RState.init false) (readSegs d text) = .ok out) :
    segments d (textOf ⟨eol, true⟩ (out.map (·.2))) = out.map (·.1) := by
  obtain ⟨hnd, hsmall⟩ := hok rfl
  have hlen : (readSegs d text).length = (segments d text).length := by rw [← readSegs_segments]; simp
  have hshape := loop_fix_shape d hnd.2.2 eol (readSegs d text) _ 0 out rfl bounded_init (by omega) hl
  obtain ⟨i1, i2, i3⟩ := lines_of_shape ⟨eol, true⟩ d hnd _ out (readSegs_clean d text) hshape
  rw [readSegs_segments] at i3
  rw [i1, segments_textOf _ d hd _ i2]
  conv => rhs; rw [← List.map_id (out.map (·.1))]
  apply List.map_congr_left
  intro s' hs'
  obtain ⟨s, hs, hr⟩ := i3.of_mem_right s' hs'
  rcases hr with rfl | ⟨_, n, rfl⟩
  · exact hn _ hs
  · exact normSeg_set01 d s _ (hn s hs) (decimal_ne_nil n) (not_mem_decimal hnd.2.2 n)

/-- idempotence for every option combination -/
def norm_idempotent_fix_full : Prop :=
  ∀ (d : Delims), d.Distinct → ∀ (eol : Bool) (text txt : List Char),
    FixOk true d (segments d text).length → IsaKept d text →
    normText ⟨eol, true⟩ d (readSegs d text) = .ok txt → normText ⟨eol, true⟩ d (readSegs d txt) = .ok txt

/-- With `-f`, for texts in normal form: the second pass finds no count code, rewrites nothing and reproduces the
    text.  (Not closed: texts with trailing empty elements, where the second pass reads `None` instead of `''` for a
    trimmed control number; that changes neither counters nor count errors, but the simulation is not carried out.) -/
theorem norm_idempotent_fix_partial (d : Delims) (hd : d.Distinct) (eol : Bool) (text txt : List Char)
    (hok : FixOk true d (segments d text).length) (hn : Normal d text)
    (h : normText ⟨eol, true⟩ d (readSegs d text) = .ok txt) :
    normText ⟨eol, true⟩ d (readSegs d txt) = .ok txt := by
  obtain ⟨lines, hnorm, rfl⟩ := normText_ok h
  unfold norm at hnorm
  cases hl : loop ⟨eol, true⟩ d (RState.init false) (readSegs d text) with
  | raised => rw [hl] at hnorm; cases hnorm
  | crash => rw [hl] at hnorm; cases hnorm
  | ok out =>
    rw [hl] at hnorm
    simp only [Res.map] at hnorm
    injection hnorm with hnorm
    subst hnorm
    obtain ⟨hnd, hsmall⟩ := hok rfl
    have hlen : (readSegs d text).length = (segments d text).length := by rw [← readSegs_segments]; simp
    have hre := fix_written_reread d hd eol text hok hn out hl
    have := loop_fix_again d hnd.2.2 eol (readSegs d text) (readSegs d (textOf ⟨eol, true⟩ (out.map (·.2))))
      (RState.init false) 0 out rfl bounded_init (by omega) hl (by rw [readSegs_segments]; exact hre)
    unfold normText norm
    rw [this]
    rfl

/-- "after `-f` a reader of the OUTPUT TEXT reports no count error", for every text -/
def fix_reread_full : Prop :=
  ∀ (d : Delims), d.Distinct → ∀ (eol : Bool) (text txt : List Char), FixOk true d (segments d text).length →
    normText ⟨eol, true⟩ d (readSegs d text) = .ok txt →
    ∃ vs', viewsOf d (segments d txt) = .ok vs' ∧ countErrs (run Fixes.all false vs') = []

/-- … proved for texts in normal form (for the others `fix_leaves_no_count_error` speaks about the segments written,
    and the harness re-reads the real output with the real reader) -/
theorem fix_reread_partial (d : Delims) (hd : d.Distinct) (eol : Bool) (text txt : List Char)
    (hok : FixOk true d (segments d text).length) (hn : Normal d text)
    (h : normText ⟨eol, true⟩ d (readSegs d text) = .ok txt) :
    ∃ vs', viewsOf d (segments d txt) = .ok vs' ∧ countErrs (run Fixes.all false vs') = [] := by
  obtain ⟨lines, hnorm, rfl⟩ := normText_ok h
  unfold norm at hnorm
  cases hl : loop ⟨eol, true⟩ d (RState.init false) (readSegs d text) with
  | raised => rw [hl] at hnorm; cases hnorm
  | crash => rw [hl] at hnorm; cases hnorm
  | ok out =>
    rw [hl] at hnorm
    simp only [Res.map] at hnorm
    injection hnorm with hnorm
    subst hnorm
    obtain ⟨hnd, hsmall⟩ := hok rfl
    have hlen : (readSegs d text).length = (segments d text).length := by rw [← readSegs_segments]; simp
    rw [fix_written_reread d hd eol text hok hn out hl]
    exact fix_leaves_no_count_error d hnd.2.2 eol (readSegs d text) (by omega) _ (by unfold normSegs; rw [hl]; rfl)

/-! ### 8. totality -/

theorem set01_comps (d : Delims) (s : Seg) (x : Str) (h : ∀ c ∈ s.elems, c ≠ []) :
    ∀ c ∈ (set01 d s x).elems, c ≠ [] := by
  intro c hc
  simp only [set01, List.mem_cons] at hc
  rcases hc with rfl | hc
  · exact Path.splitOn_ne_nil _ _
  · exact h c (List.mem_of_mem_tail hc)

theorem repair_ok (d : Delims) (S : RState) (cs : List Str) (s : Seg) :
    repair d S cs s = .ok s ∨ ∃ n, repair d S cs s = .ok (set01 d s (decimal n)) := by
  unfold repair
  cases ht : target S s.id cs with
  | none => exact Or.inl rfl
  | some t =>
    right
    have key : CountId s.id ∧ t.1 = des01 s.id := by
      unfold target at ht
      split at ht
      · rename_i h; injection ht with ht; rw [← ht]; exact ⟨Or.inl h.1, by simp [des01, h.1]⟩
      · split at ht
        · rename_i h; injection ht with ht; rw [← ht]
          exact ⟨Or.inr (Or.inl h.1), by simp [des01, h.1, (by decide : idGE ≠ idIEA)]⟩
        · split at ht
          · rename_i h; injection ht with ht; rw [← ht]
            exact ⟨Or.inr (Or.inr (Or.inl h.1)), by simp [des01, h.1, (by decide : idSE ≠ idIEA), (by decide : idSE ≠ idGE)]⟩
          · split at ht
            · rename_i h; injection ht with ht; rw [← ht]
              exact ⟨Or.inr (Or.inr (Or.inr h.1)),
                by simp [des01, h.1, (by decide : idHL ≠ idIEA), (by decide : idHL ≠ idGE), (by decide : idHL ≠ idSE)]⟩
            · cases ht
    obtain ⟨hid, hdes⟩ := key
    obtain ⟨hd1, hwf⟩ := des01_eq hid
    have hisa : Segment.isISA s.id = false := by
      rcases hid with e | e | e | e <;> rw [e] <;> decide
    refine ⟨t.2, ?_⟩
    simp only [repairWith]
    rw [hdes, hd1, setVal_eq d s _ hwf hisa]

/-- On segments as the parser builds them (no composite without a component) `main()` ends normally or with the
    deliberate X12Error for an ISA without 16 elements: no other exception, whatever the options and delimiters. -/
theorem loop_never_crashes (o : Options) (d : Delims) :
    ∀ (inp : List (List RErr × Seg)) (st : RState), (∀ x ∈ inp, ∀ c ∈ x.2.elems, c ≠ []) →
      loop o d st inp ≠ .crash := by
  intro inp
  induction inp with
  | nil => intro st _ h; cases h
  | cons x rest ih =>
    intro st hc
    have hx := hc x (by simp)
    obtain ⟨v, hv, _⟩ := viewAt_ok d x.2 hx
    have ih' := fun st' => ih st' (fun y hy => hc y (List.mem_cons_of_mem _ hy))
    simp only [loop, stepSeg, viewOf_eq, hv, Res.bind]
    cases hs : step Fixes.all st v with
    | raised => simp [afterStep]
    | crash e => exact absurd hs (step_noCrash st v e)
    | ok r =>
      simp only [afterStep]
      cases hf : o.fix with
      | false =>
        simp only [Bool.false_eq_true, if_false, emit_eq o d x.2 hx]
        cases hr : loop o d r.1 rest with
        | crash => exact absurd hr (ih' r.1)
        | raised => simp
        | ok ls => simp
      | true =>
        simp only [if_true]
        rcases repair_ok d r.1 (codes x.1 r.2) x.2 with h | ⟨n, h⟩
        · rw [h]
          simp only [Res.bind, emit_eq o d x.2 hx]
          cases hr : loop o d r.1 rest with
          | crash => exact absurd hr (ih' r.1)
          | raised => simp
          | ok ls => simp
        · rw [h]
          simp only [Res.bind, emit_eq o d _ (set01_comps d x.2 _ hx)]
          cases hr : loop o d r.1 rest with
          | crash => exact absurd hr (ih' r.1)
          | raised => simp
          | ok ls => simp

theorem norm_never_crashes (o : Options) (text : List Char) : normFile o text ≠ .crash := by
  unfold normFile
  cases hr : rawSpec text with
  | error e => simp
  | ok hdr ls =>
    simp only [normLines]
    have hcr : (readLines (delimsOf hdr) [] ls).crashed = false := by
      unfold rawSpec at hr
      split at hr
      · cases hr
      · injection hr with h1 h2
        subst h1; subst h2
        exact C01.reader_never_crashes (delimsOf _) text
    rw [hcr]
    simp only [Bool.false_eq_true, if_false]
    have hsegs : (readLines (delimsOf hdr) [] ls).segs = readSegs (delimsOf hdr) text := by
      unfold rawSpec at hr
      split at hr
      · cases hr
      · injection hr with h1 h2
        subst h1; subst h2
        rfl
    rw [hsegs]
    have := loop_never_crashes o (delimsOf hdr) (readSegs (delimsOf hdr) text) (RState.init false)
      (fun x hx => clean_comps (readSegs_clean _ text x hx))
    unfold normText norm
    cases hl : loop o (delimsOf hdr) (RState.init false) (readSegs (delimsOf hdr) text) with
    | crash => exact absurd hl this
    | raised => simp [Res.map, fileOfRes]
    | ok out => simp [Res.map, fileOfRes]

/-! ### 9. the hypotheses are satisfiable; the statements are not vacuous -/

/-- a short interchange with wrong HL01, SE01, GE01 and IEA01 (the ISA has its 16 elements; the fixed-width header only
    matters to `normFile`) -/
def exText : List Char :=
  "ISA*a*b*c*d*e*f*g*h*i*j*k*l*7*n*o*:~GS*H*A*B*D*T*1~ST*837*1~HL*5**20~NM1*85~HL*7*1*22~SE*9*1~GE*4*1~IEA*3*7~".toList

/-- `x12norm -e -f`: one segment per line, the four kinds of count rewritten, nothing else touched -/
example : normText ⟨true, true⟩ C01.dflt (readSegs C01.dflt exText) = .ok
    "ISA*a*b*c*d*e*f*g*h*i*j*k*l*7*n*o*:~\nGS*H*A*B*D*T*1~\nST*837*1~\nHL*1**20~\nNM1*85~\nHL*2*1*22~\nSE*5*1~\nGE*1*1~\nIEA*1*7~\n".toList := by
  decide +kernel

/-- without `-f` nothing but the layout changes (trailing empty elements are not printed) -/
example : normText ⟨false, false⟩ C01.dflt (readSegs C01.dflt "ST*837*1~\n HL*9**20**~\r\nSE*7*1~tail".toList) =
    .ok "ST*837*1~HL*9**20~SE*7*1~\n".toList := by decide +kernel

/-- a whole file with the fixed-width header (the file of D17; `-o` is not a parameter of the model: stdout, the `-o`
    file and the file rewritten in place all receive this text) -/
example : normFile ⟨false, true⟩ (C01.hdr ++ "\nIEA*7*000000001~\n".toList) = .ok (C01.hdr ++ "IEA*0*000000001~\n".toList) := by
  decide +kernel

example : NoDigit C01.dflt := by unfold NoDigit; decide
theorem small_ok (n : Nat) (h : n < 99) : n + 1 < 10 ^ maxStrDigits :=
  calc n + 1 < 10 ^ 2 := by omega
    _ ≤ 10 ^ maxStrDigits := Nat.pow_le_pow_right (by decide) (by decide)

example : FixOk true C01.dflt (segments C01.dflt exText).length :=
  fun _ => ⟨by unfold NoDigit; decide, small_ok _ (by decide +kernel)⟩

/-- the structured document behind `exText`: nothing but counts is wrong -/
def exDoc : List Interchange :=
  [⟨some ['7'],
    [⟨some ['1'],
      [⟨some ['1'],
        [⟨idHL, some ['5'], some [], false⟩, ⟨"NM1".toList, none, none, false⟩, ⟨idHL, some ['7'], some ['1'], false⟩],
        some ['9'], some ['1']⟩],
      some ['4'], some ['1']⟩],
    some ['3'], some ['7']⟩]

example : viewsOf C01.dflt (segments C01.dflt exText) = .ok (flatten exDoc) := by decide +kernel
example : recount false exDoc = [Err.hl1, Err.hl1, Err.st4, Err.gs5, Err.isa021] := by decide
example : onlyCountDefects exDoc := by unfold onlyCountDefects; decide
example : InDomain false exDoc := by
  intro i hi g hg t ht
  refine ⟨?_, fun h => by cases h⟩
  simp only [exDoc, List.mem_singleton] at hi
  subst hi
  simp only [List.mem_singleton] at hg
  subst hg
  simp only [List.mem_singleton] at ht
  subst ht
  unfold BodyOk
  decide

example : IsaKept C01.dflt exText := by unfold IsaKept; decide +kernel
example : Normal C01.dflt exText := by unfold Normal; decide +kernel
example : ¬ IsaKept C01.dflt witnessText := by unfold IsaKept; decide +kernel

/-- the control group: a wrong SE02 and an invalid HL02 are left alone, the reader keeps reporting them -/
example : normSegs ⟨false, true⟩ C01.dflt (readSegs C01.dflt "ST*837*1~HL*1*9*20~SE*3*2~".toList) =
    .ok (segments C01.dflt "ST*837*1~HL*1*9*20~SE*3*2~".toList) := by decide +kernel

/-- `'4'` popped on a GE (group control number mismatch) does not trigger the SE branch, and a right count written
    as `007`, `+7` or ` 7` stays as it is -/
example : normSegs ⟨false, true⟩ C01.dflt (readSegs C01.dflt "GS*A*B*C*D*E*1~GE*+0*2~".toList) =
    .ok (segments C01.dflt "GS*A*B*C*D*E*1~GE*+0*2~".toList) := by decide +kernel

end Pyx12Verif.Norm
