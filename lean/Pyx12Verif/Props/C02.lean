/-
C02 — every map-conformant document is accepted: theorems about the walker model.

Part 1 (this file): the node counter refines "count per path with subtree reset".
Part 2 (Props/C02Walk.lean, when present): generated documents are accepted by the walker model.
-/
import Pyx12Verif.Model.Walker

namespace Pyx12Verif.Walker

theorem get_incr_same (c : Counter) (k : PathKey) : (c.incr k).get k = c.get k + 1 := by
  induction c with
  | nil => simp [Counter.incr, Counter.get]
  | cons e r ih =>
    obtain ⟨k', n⟩ := e
    by_cases h : (k' == k) = true
    · simp [Counter.incr, Counter.get, h]
    · simp [Counter.incr, Counter.get, h, ih]

theorem get_incr_other (c : Counter) (k k' : PathKey) (hne : k ≠ k') : (c.incr k).get k' = c.get k' := by
  induction c with
  | nil =>
    have : (k == k') = false := by simpa using hne
    simp [Counter.incr, Counter.get, this]
  | cons e r ih =>
    obtain ⟨k0, n⟩ := e
    by_cases h : (k0 == k) = true
    · have hk : k0 = k := by simpa using h
      have : (k0 == k') = false := by rw [hk]; simpa using hne
      simp [Counter.incr, Counter.get, h, this]
    · by_cases h2 : (k0 == k') = true
      · simp [Counter.incr, Counter.get, h, h2]
      · simp [Counter.incr, Counter.get, h, h2, ih]

/-- after `reset_to_node k`, every path strictly below `k` counts 0 -/
theorem get_resetTo_below (c : Counter) (k k' : PathKey) (h : isStrictPrefix k k' = true) :
    (c.resetTo k).get k' = 0 := by
  induction c with
  | nil => simp [Counter.resetTo, Counter.get]
  | cons e r ih =>
    obtain ⟨k0, n⟩ := e
    unfold Counter.resetTo at ih ⊢
    by_cases hp : isStrictPrefix k k0 = true
    · simp [List.filter, hp, ih]
    · have hp' : isStrictPrefix k k0 = false := by simpa using hp
      have hne : (k0 == k') = false := by
        cases hb : (k0 == k') with
        | false => rfl
        | true =>
          have : k0 = k' := by simpa using hb
          rw [this] at hp'; rw [hp'] at h; exact Bool.noConfusion h
      simp [List.filter, hp', Counter.get, hne, ih]

/-- … and every other path keeps its count -/
theorem get_resetTo_other (c : Counter) (k k' : PathKey) (h : isStrictPrefix k k' = false) :
    (c.resetTo k).get k' = c.get k' := by
  induction c with
  | nil => simp [Counter.resetTo, Counter.get]
  | cons e r ih =>
    obtain ⟨k0, n⟩ := e
    unfold Counter.resetTo at ih ⊢
    by_cases hp : isStrictPrefix k k0 = true
    · have hne : (k0 == k') = false := by
        cases hb : (k0 == k') with
        | false => rfl
        | true =>
          have : k0 = k' := by simpa using hb
          rw [this] at hp; rw [hp] at h; exact Bool.noConfusion h
      simp [List.filter, hp, Counter.get, hne, ih]
    · have hp' : isStrictPrefix k k0 = false := by simpa using hp
      by_cases h2 : (k0 == k') = true
      · simp [List.filter, hp', Counter.get, h2]
      · simp [List.filter, hp', Counter.get, h2, ih]

/-- `forceWalkCounterToLoopStart`: afterwards the loop has one more instance, its first segment counts 1 -/
theorem forceLoopStart_seg (c : Counter) (lk sk : PathKey) (h : isStrictPrefix lk sk = true) (hne : lk ≠ sk) :
    (forceLoopStart c lk sk).get sk = 1 := by
  unfold forceLoopStart
  rw [get_incr_same, get_incr_other _ _ _ hne, get_resetTo_below _ _ _ h]

example : (forceLoopStart [] [(1, 0)] [(1, 0), (2, 0)]).get [(1, 0), (2, 0)] = 1 := by decide

end Pyx12Verif.Walker
