/-
C16 — what the remaining rules of `violations` mean (companions of `fetch_sound` in `Props/C16.lean`).

The per-map obligations (`Gen/Checks/*.lean`) are `sameSet (violations … M) known = true`.  Each theorem below
takes "the entry `(rule, ip)` is not among the violations" for ONE index path and states, with quantifiers over
the addressed node, what that means: a statement about EVERY node once the rule has no entry at all
(`obligation_gives_*`), and about every node not listed in `known` otherwise (`obligation_excludes`).

Addressing: `nodeAt root ip = some n` (the node at an index path) and `sibsAt root ip = some sibs` (a child list:
the root list for `ip = []`, the children of the loop at `ip` else; `sibsAt_iff`, `nodeAt_snoc` relate the two).

`sibling_sound` needs one hypothesis that the Boolean rule does not check — both segments key on the same value
position (`keySlot`) — and `sibling_slot_needed` shows by a concrete witness that it cannot be dropped: the rule
compares code lists only.  The unconditional part is `sibling_keys_disjoint`.
-/
import Pyx12Verif.Props.C16
import Pyx12Verif.Proofs.MapRules
import Pyx12Verif.Props.C14

namespace Pyx12Verif.MapSkel
open Pyx12Verif.Walker

/-! ### from a per-map obligation to "this entry is not a violation" -/

/-- generic link: an entry that is not in the known list of a discharged obligation is not a violation -/
theorem obligation_excludes (ent hl ctx : Nat) (des exts : List Nat) (m : MapFile) (known : List Viol)
    (hs : sameSet (violations ent hl ctx des exts m) known = true) (v : Viol) (hv : v ∉ known) :
    v ∉ violations ent hl ctx des exts m := by
  intro hin
  unfold sameSet at hs
  rw [Bool.and_eq_true, List.all_eq_true] at hs
  have := hs.1 v hin
  exact hv (by simpa using this)

theorem not_known_of_rule (known : List Viol) (rule : Nat) (hk : ∀ v ∈ known, v.1 ≠ rule) (ip : List Nat) :
    (rule, ip) ∉ known := fun h => hk _ h rfl

/-! ### usage and repeat -/

theorem usage_sound (ent hl ctx : Nat) (des exts : List Nat) (m : MapFile) (ip : List Nat) (n : Node)
    (hn : nodeAt m.children ip = some n) (h : (R_USAGE, ip) ∉ violations ent hl ctx des exts m) :
    n.usage ≤ 2 := by
  have hv := segViols_in_violations ent hl ctx des exts m ip n hn
  cases n with
  | seg a b c u e f g =>
    by_cases hu : usageWF u = true
    · simpa [usageWF, Node.usage] using hu
    · exact absurd (hv (R_USAGE, ip) (by simp [segViols, hu])) h
  | loop a b u d e f =>
    by_cases hu : usageWF u = true
    · simpa [usageWF, Node.usage] using hu
    · exact absurd (hv (R_USAGE, ip) (by simp [segViols, hu])) h

/-- `rep` is the interned `max_use` / `repeat`: 0 = `>1`, `n` = n, ≥ 1000000 = text that is neither -/
theorem repeat_sound (ent hl ctx : Nat) (des exts : List Nat) (m : MapFile) (ip : List Nat) (n : Node)
    (hn : nodeAt m.children ip = some n) (h : (R_REPEAT, ip) ∉ violations ent hl ctx des exts m) :
    n.rep < 1000000 := by
  have hv := segViols_in_violations ent hl ctx des exts m ip n hn
  cases n with
  | seg a b c u e f g =>
    by_cases hu : repWF e = true
    · simpa [repWF, Node.rep] using hu
    · exact absurd (hv (R_REPEAT, ip) (by simp [segViols, hu])) h
  | loop a b u d e f =>
    by_cases hu : repWF d = true
    · simpa [repWF, Node.rep] using hu
    · exact absurd (hv (R_REPEAT, ip) (by simp [segViols, hu])) h

/-! ### elements -/

/-- usage is R, S or N; the data element is in the table; a named external code set is in the table -/
def ElemOK (des exts : List Nat) (e : Elem) : Prop :=
  e.usage ≤ 2 ∧ e.dataEle ∈ des ∧ (e.ext ≠ 0 → e.ext ∈ exts)

def ChildOK (des exts : List Nat) : Child → Prop
  | .elem e => ElemOK des exts e
  | .comp _ _ u _ subs => u ≤ 2 ∧ ∀ e ∈ subs, ElemOK des exts e

theorem elemWF_iff (des exts : List Nat) (e : Elem) : elemWF des exts e = true ↔ ElemOK des exts e := by
  unfold elemWF ElemOK usageWF
  by_cases h0 : e.ext = 0 <;> simp [h0, and_assoc]

theorem elemsWF_iff (des exts : List Nat) (l : List Elem) :
    elemsWF des exts l = true ↔ ∀ e ∈ l, ElemOK des exts e := by
  induction l with
  | nil => simp [elemsWF]
  | cons a r ih => simp [elemsWF, ih, elemWF_iff]

theorem childWF_iff (des exts : List Nat) (c : Child) : childWF des exts c = true ↔ ChildOK des exts c := by
  cases c with
  | elem e => simp [childWF, ChildOK, elemWF_iff]
  | comp a b u d subs => simp [childWF, ChildOK, elemsWF_iff, usageWF]

theorem childrenWF_iff (des exts : List Nat) (l : List Child) :
    childrenWF des exts l = true ↔ ∀ c ∈ l, ChildOK des exts c := by
  induction l with
  | nil => simp [childrenWF]
  | cons a r ih => simp [childrenWF, ih, childWF_iff]

/-- no R_ELEM entry for a segment: every element, composite and sub-element of it is well defined -/
theorem elem_sound (ent hl ctx : Nat) (des exts : List Nat) (m : MapFile) (ip : List Nat)
    (sid q p u mx : Nat) (notes : List Note) (ch : List Child)
    (hn : nodeAt m.children ip = some (.seg sid q p u mx notes ch))
    (h : (R_ELEM, ip) ∉ violations ent hl ctx des exts m) :
    ∀ c ∈ ch, ChildOK des exts c := by
  have hv := segViols_in_violations ent hl ctx des exts m ip _ hn
  by_cases hu : childrenWF des exts ch = true
  · exact (childrenWF_iff des exts ch).mp hu
  · exact absurd (hv (R_ELEM, ip) (by simp [segViols, hu])) h

/-! ### element sequence numbers -/

/-- children are numbered 1, 2, 3 … in order, and so are the sub-elements of every composite -/
def SeqOK (ch : List Child) : Prop :=
  (∀ j c, ch[j]? = some c → c.seq = j + 1) ∧
  (∀ x s u d subs, Child.comp x s u d subs ∈ ch → ∀ j (e : Elem), subs[j]? = some e → e.seq = j + 1)

theorem seqsFrom_iff (l : List Child) : ∀ k, seqsFrom k l = true ↔ ∀ j c, l[j]? = some c → c.seq = k + j := by
  induction l with
  | nil => simp [seqsFrom]
  | cons a r ih =>
    intro k
    simp only [seqsFrom, Bool.and_eq_true, beq_iff_eq, ih]
    constructor
    · rintro ⟨h1, h2⟩ j c hj
      cases j with
      | zero => simp at hj; subst hj; simpa using h1
      | succ j' => simp at hj; have := h2 j' c hj; omega
    · intro h
      refine ⟨by simpa using h 0 a (by simp), ?_⟩
      intro j c hj
      have := h (j + 1) c (by simpa using hj)
      omega

theorem subSeqsFrom_iff (l : List Elem) :
    ∀ k, subSeqsFrom k l = true ↔ ∀ j (e : Elem), l[j]? = some e → e.seq = k + j := by
  induction l with
  | nil => simp [subSeqsFrom]
  | cons a r ih =>
    intro k
    simp only [subSeqsFrom, Bool.and_eq_true, beq_iff_eq, ih]
    constructor
    · rintro ⟨h1, h2⟩ j c hj
      cases j with
      | zero => simp at hj; subst hj; simpa using h1
      | succ j' => simp at hj; have := h2 j' c hj; omega
    · intro h
      refine ⟨by simpa using h 0 a (by simp), ?_⟩
      intro j c hj
      have := h (j + 1) c (by simpa using hj)
      omega

theorem compSeqsWF_iff (l : List Child) :
    compSeqsWF l = true ↔
      ∀ x s u d subs, Child.comp x s u d subs ∈ l → ∀ j (e : Elem), subs[j]? = some e → e.seq = j + 1 := by
  induction l with
  | nil => simp [compSeqsWF]
  | cons a r ih =>
    cases a with
    | elem e0 => simp [compSeqsWF, ih]
    | comp x0 s0 u0 d0 subs0 =>
      simp only [compSeqsWF, Bool.and_eq_true, ih, subSeqsFrom_iff, List.mem_cons]
      constructor
      · rintro ⟨h1, h2⟩ x s u d subs hm j e hj
        rcases hm with hm | hm
        · cases hm; have := h1 j e hj; omega
        · exact h2 x s u d subs hm j e hj
      · intro h
        refine ⟨?_, fun x s u d subs hm => h x s u d subs (Or.inr hm)⟩
        intro j e hj
        have := h x0 s0 u0 d0 subs0 (Or.inl rfl) j e hj
        omega

theorem seq_sound (ent hl ctx : Nat) (des exts : List Nat) (m : MapFile) (ip : List Nat)
    (sid q p u mx : Nat) (notes : List Note) (ch : List Child)
    (hn : nodeAt m.children ip = some (.seg sid q p u mx notes ch))
    (h : (R_SEQ, ip) ∉ violations ent hl ctx des exts m) : SeqOK ch := by
  have hv := segViols_in_violations ent hl ctx des exts m ip _ hn
  by_cases hu : (seqsFrom 1 ch && compSeqsWF ch) = true
  · rw [Bool.and_eq_true] at hu
    refine ⟨?_, (compSeqsWF_iff ch).mp hu.2⟩
    intro j c hj
    have := (seqsFrom_iff ch 1).mp hu.1 j c hj
    omega
  · exact absurd (hv (R_SEQ, ip) (by simp [segViols, hu])) h

/-! ### syntax notes -/

/-- known type (P R E C L), at least two positions, every position one of the segment's `nchild` children -/
def NoteOK (nchild : Nat) (nt : Note) : Prop :=
  nt.1 ≤ 4 ∧ 2 ≤ nt.2.length ∧ ∀ p ∈ nt.2, 1 ≤ p ∧ p ≤ nchild

theorem posInRange_iff (k : Nat) (l : List Nat) : posInRange k l = true ↔ ∀ p ∈ l, 1 ≤ p ∧ p ≤ k := by
  induction l with
  | nil => simp [posInRange]
  | cons a r ih => simp [posInRange, ih, and_assoc]

theorem noteWF_iff (k : Nat) (nt : Note) : noteWF k nt = true ↔ NoteOK k nt := by
  simp [noteWF, NoteOK, posInRange_iff, and_assoc]

theorem notesWF_iff (k : Nat) (l : List Note) : notesWF k l = true ↔ ∀ nt ∈ l, NoteOK k nt := by
  induction l with
  | nil => simp [notesWF]
  | cons a r ih => simp only [notesWF, Bool.and_eq_true, ih, noteWF_iff, List.mem_cons, forall_eq_or_imp]

theorem note_sound (ent hl ctx : Nat) (des exts : List Nat) (m : MapFile) (ip : List Nat)
    (sid q p u mx : Nat) (notes : List Note) (ch : List Child)
    (hn : nodeAt m.children ip = some (.seg sid q p u mx notes ch))
    (h : (R_NOTE, ip) ∉ violations ent hl ctx des exts m) :
    ∀ nt ∈ notes, NoteOK ch.length nt := by
  have hv := segViols_in_violations ent hl ctx des exts m ip _ hn
  by_cases hu : notesWF ch.length notes = true
  · exact (notesWF_iff ch.length notes).mp hu
  · exact absurd (hv (R_NOTE, ip) (by simp [segViols, hu])) h

/-- the translator's note-type code as the letter `segment_if._split_syntax` keeps (`'PRECL'.index`) -/
def noteLetter (t : Nat) : Char :=
  if t = 0 then 'P' else if t = 1 then 'R' else if t = 2 then 'E' else if t = 3 then 'C'
  else if t = 4 then 'L' else '?'

/-- a skeleton note as the note of `Model/Syntax.lean` (C14) -/
def toSyn (nt : Note) : Syn.Note := { code := noteLetter nt.1, idx := nt.2 }

/-- bridge to C14: a note that passes the map check satisfies the hypotheses `WF`, `Known` of C14's theorems
    (`syntaxViolated_iff`, `syntaxValid_iff`, `no_crash`, …) when the segment has fewer than 100 children -/
theorem noteOK_gives_syn (k : Nat) (nt : Note) (h : NoteOK k nt) (hk : k < 100) :
    Syn.WF (toSyn nt) ∧ Syn.Known (toSyn nt).code := by
  obtain ⟨h1, h2, h3⟩ := h
  refine ⟨⟨h2, fun p hp => ?_⟩, ?_⟩
  · have := h3 p hp; omega
  · have : nt.1 = 0 ∨ nt.1 = 1 ∨ nt.1 = 2 ∨ nt.1 = 3 ∨ nt.1 = 4 := by omega
    unfold Syn.Known toSyn noteLetter
    rcases this with e | e | e | e | e <;> simp [e]

/-- no R_NOTE entry for a segment with fewer than 100 children: all of its notes are in C14's domain -/
theorem note_sound_syn (ent hl ctx : Nat) (des exts : List Nat) (m : MapFile) (ip : List Nat)
    (sid q p u mx : Nat) (notes : List Note) (ch : List Child)
    (hn : nodeAt m.children ip = some (.seg sid q p u mx notes ch))
    (h : (R_NOTE, ip) ∉ violations ent hl ctx des exts m) (hlen : ch.length < 100) :
    Syn.AllWF (notes.map toSyn) := by
  intro sn hsn
  obtain ⟨nt, hnt, rfl⟩ := List.mem_map.mp hsn
  exact noteOK_gives_syn ch.length nt (note_sound ent hl ctx des exts m ip sid q p u mx notes ch hn h nt hnt) hlen

/-! ### positions -/

theorem posSorted_pairwise : ∀ l : List Node, posSorted l = true → l.Pairwise (fun a b => a.pos ≤ b.pos)
  | [] => by simp
  | [a] => by simp
  | a :: b :: r => by
    intro h
    simp only [posSorted, Bool.and_eq_true, decide_eq_true_eq] at h
    have ih := posSorted_pairwise (b :: r) h.2
    rw [List.pairwise_cons]
    refine ⟨?_, ih⟩
    intro c hc
    rw [List.pairwise_cons] at ih
    rcases List.mem_cons.mp hc with e | e
    · rw [e]; exact h.1
    · exact Nat.le_trans h.1 (ih.1 c e)

/-- no R_POS entry for a child list (`ip = []`: the root): positions never decrease along it -/
theorem pos_sound (ent hl ctx : Nat) (des exts : List Nat) (m : MapFile) (ip : List Nat) (sibs : List Node)
    (hs : sibsAt m.children ip = some sibs) (h : (R_POS, ip) ∉ violations ent hl ctx des exts m)
    (i j : Nat) (a b : Node) (hij : i ≤ j) (ha : sibs[i]? = some a) (hb : sibs[j]? = some b) :
    a.pos ≤ b.pos := by
  by_cases hu : posSorted sibs = true
  · have pw := posSorted_pairwise sibs hu
    rcases Nat.lt_or_eq_of_le hij with hlt | heq
    · obtain ⟨hi, rfl⟩ := List.getElem?_eq_some_iff.mp ha
      obtain ⟨hj, rfl⟩ := List.getElem?_eq_some_iff.mp hb
      exact (List.pairwise_iff_getElem.mp pw) i j hi hj hlt
    · subst heq; rw [ha] at hb; cases hb; exact Nat.le_refl _
  · have : posSorted sibs = false := by simpa using hu
    exact absurd (pos_in_violations ent hl ctx des exts m ip sibs hs this) h

/-! ### siblings at one position can be told apart -/

/-- two match keys cannot both accept a segment: different segment ids, or both carry a qualifier list and the
    lists share no code -/
def KeysDisjoint (a b : Key) : Prop :=
  a.1 ≠ b.1 ∨ ∃ x y, a.2 = some x ∧ b.2 = some y ∧ ∀ c, c ∈ x → c ∉ y

theorem KeysDisjoint.symm {a b : Key} (h : KeysDisjoint a b) : KeysDisjoint b a := by
  rcases h with h | ⟨x, y, hx, hy, hxy⟩
  · exact Or.inl (Ne.symm h)
  · exact Or.inr ⟨y, x, hy, hx, fun c hc hx' => hxy c hx' hc⟩

theorem overlapCodes_false (x y : List Nat) : overlapCodes x y = false ↔ ∀ c, c ∈ x → c ∉ y := by
  induction x with
  | nil => simp [overlapCodes]
  | cons a r ih => simp [overlapCodes, ih]

theorem overlap_false (a b : Key) : overlap a b = false ↔ KeysDisjoint a b := by
  obtain ⟨a1, a2⟩ := a
  obtain ⟨b1, b2⟩ := b
  unfold overlap KeysDisjoint
  by_cases h : a1 = b1
  · cases a2 <;> cases b2 <;> simp [h, overlapCodes_false]
  · simp [h]

theorem anyOverlap_false (ka kb : List Key) :
    anyOverlap ka kb = false ↔ ∀ a ∈ ka, ∀ b ∈ kb, KeysDisjoint a b := by
  simp [anyOverlap, List.any_eq_false, overlap_false]

theorem siblingClash_false (ent hl ctx : Nat) (n : Node) (rest : List Node)
    (h : siblingClash ent hl ctx n rest = false) :
    ∀ m ∈ rest, m.pos = n.pos → anyOverlap (entryKeys ent hl ctx n) (entryKeys ent hl ctx m) = false := by
  induction rest with
  | nil => intro m hm; simp at hm
  | cons c r ih =>
    simp only [siblingClash, Bool.or_eq_false_iff, Bool.and_eq_false_iff] at h
    intro m hm hp
    rcases List.mem_cons.mp hm with e | e
    · subst e
      rcases h.1 with h1 | h1
      · simp [hp] at h1
      · exact h1
    · exact ih h.2 m e hp

theorem mem_drop_of_lt {α : Type} (l : List α) (i j : Nat) (b : α) (hij : i < j) (hb : l[j]? = some b) :
    b ∈ l.drop (i + 1) := by
  have : (l.drop (i + 1))[j - (i + 1)]? = some b := by
    rw [List.getElem?_drop]
    have : i + 1 + (j - (i + 1)) = j := by omega
    rw [this]; exact hb
  exact List.mem_of_getElem? this

/-- no R_SIBLING entry for child `i` of a child list: every later child `j` at the same position has entry keys
    disjoint from those of `i` (entry keys: a segment's own key; for a loop, the key of its first segment,
    looking through wrapper loops) -/
theorem sibling_keys_disjoint (ent hl ctx : Nat) (des exts : List Nat) (m : MapFile) (ip : List Nat)
    (sibs : List Node) (hs : sibsAt m.children ip = some sibs) (i j : Nat) (a b : Node) (hij : i < j)
    (ha : sibs[i]? = some a) (hb : sibs[j]? = some b) (hp : a.pos = b.pos)
    (h : (R_SIBLING, ip ++ [i]) ∉ violations ent hl ctx des exts m) :
    ∀ ka ∈ entryKeys ent hl ctx a, ∀ kb ∈ entryKeys ent hl ctx b, KeysDisjoint ka kb := by
  have hc : siblingClash ent hl ctx a (sibs.drop (i + 1)) = false := by
    cases hcl : siblingClash ent hl ctx a (sibs.drop (i + 1)) with
    | false => rfl
    | true => exact absurd ((local_in_violations ent hl ctx des exts m ip sibs i a hs ha).1 hcl) h
  have := siblingClash_false ent hl ctx a _ hc b (mem_drop_of_lt sibs i j b hij hb) hp.symm
  exact (anyOverlap_false _ _).mp this

def slotVal (s : SegData) (slot : Nat) : Nat :=
  if slot = 1 then s.v01 else if slot = 2 then s.v02 else if slot = 3 then s.v03 else s.v011

/-- a matching data segment has the map segment's id and, when the key carries a qualifier list, its value at
    the key position is in the list -/
theorem isMatch_key (k : Consts) (sid q p u mx : Nat) (notes : List Note) (ch : List Child) (s : SegData)
    (h : isMatch k (.seg sid q p u mx notes ch) s = true) :
    s.sid = sid ∧ ∀ cs, segKeyCodes k.ent k.hl k.ctx sid ch = some cs →
      slotVal s (keySlot k.ent k.hl sid ch) ∈ cs := by
  simp only [isMatch, Bool.and_eq_true, beq_iff_eq] at h
  obtain ⟨h1, h2⟩ := h
  refine ⟨h1, ?_⟩
  subst h1
  intro cs hcs
  unfold matchChildren at h2
  unfold segKeyCodes at hcs
  unfold keySlot slotVal
  cases h0 : nthChild ch 0 with
  | none => simp [h0] at hcs
  | some c0 =>
    cases c0 with
    | elem e0 =>
      simp only [h0] at h2 hcs ⊢
      cases h1 : nthChild ch 1 with
      | none => cases h2' : nthChild ch 2 with
        | none => simp only [h1, h2'] at h2 hcs; grind
        | some d2 => cases d2 <;> simp only [h1, h2'] at h2 hcs <;> grind
      | some d1 =>
        cases d1 <;> cases h2' : nthChild ch 2 with
        | none => simp only [h1, h2'] at h2 hcs <;> grind
        | some d2 => cases d2 <;> simp only [h1, h2'] at h2 hcs <;> grind
    | comp x0 s0 u0 d0 subs =>
      simp only [h0] at h2 hcs ⊢
      cases hf : firstSub subs with
      | none => simp [hf] at hcs
      | some f0 =>
        simp only [hf] at h2 hcs
        grind

/-- "sibling nodes at one position can be told apart by segment id and qualifier": two segment children of one
    child list at the same position, the earlier one without an R_SIBLING entry, keying on the same value position
    when they have the same id — no data segment matches both -/
theorem sibling_sound (k : Consts) (des exts : List Nat) (m : MapFile) (ip : List Nat)
    (sibs : List Node) (hs : sibsAt m.children ip = some sibs) (i j : Nat) (a b : Node) (hij : i < j)
    (ha : sibs[i]? = some a) (hb : sibs[j]? = some b) (hp : a.pos = b.pos)
    (h : (R_SIBLING, ip ++ [i]) ∉ violations k.ent k.hl k.ctx des exts m)
    (hslot : a.ident = b.ident → a.slot k.ent k.hl = b.slot k.ent k.hl) (s : SegData) :
    ¬ (isMatch k a s = true ∧ isMatch k b s = true) := by
  rintro ⟨m1, m2⟩
  have hd := sibling_keys_disjoint k.ent k.hl k.ctx des exts m ip sibs hs i j a b hij ha hb hp h
  cases a with
  | loop => simp [isMatch] at m1
  | seg sa qa pa ua xa na cha =>
    cases b with
    | loop => simp [isMatch] at m2
    | seg sb qb pb ub xb nb chb =>
      have k1 := isMatch_key k sa qa pa ua xa na cha s m1
      have k2 := isMatch_key k sb qb pb ub xb nb chb s m2
      have hsid : sa = sb := k1.1.symm.trans k2.1
      have hsl := hslot (by simpa [Node.ident] using hsid)
      simp only [Node.slot] at hsl
      have := hd (sa, segKeyCodes k.ent k.hl k.ctx sa cha) (by simp [entryKeys])
        (sb, segKeyCodes k.ent k.hl k.ctx sb chb) (by simp [entryKeys])
      rcases this with hne | ⟨x, y, hx, hy, hxy⟩
      · exact hne hsid
      · simp only at hx hy
        have v1 := k1.2 x hx
        have v2 := k2.2 y hy
        rw [hsl] at v1
        exact hxy _ v1 v2

/-- the same with the key-position hypothesis discharged by the Boolean check `slotsOKList` (true on every
    shipped map) -/
theorem sibling_sound_checked (k : Consts) (des exts : List Nat) (m : MapFile)
    (hslots : slotsOKList k.ent k.hl m.children = true) (ip : List Nat)
    (sibs : List Node) (hs : sibsAt m.children ip = some sibs) (i j : Nat) (a b : Node) (hij : i < j)
    (ha : sibs[i]? = some a) (hb : sibs[j]? = some b) (hp : a.pos = b.pos)
    (h : (R_SIBLING, ip ++ [i]) ∉ violations k.ent k.hl k.ctx des exts m) (s : SegData) :
    ¬ (isMatch k a s = true ∧ isMatch k b s = true) := by
  intro hm
  have sa : a.isSeg = true := by cases a <;> simp_all [isMatch, Node.isSeg]
  have sb : b.isSeg = true := by cases b <;> simp_all [isMatch, Node.isSeg]
  exact sibling_sound k des exts m ip sibs hs i j a b hij ha hb hp h
    (slots_sound k.ent k.hl m.children hslots ip sibs hs i j a b hij ha hb sa sb hp) s hm

/-! ### reported path components of siblings -/

theorem compClash_false (n : Node) (rest : List Node) (h : compClash n rest = false) :
    ∀ m ∈ rest, m.isSeg = n.isSeg → m.comp ≠ n.comp := by
  induction rest with
  | nil => intro m hm; simp at hm
  | cons c r ih =>
    simp only [compClash, Bool.or_eq_false_iff, Bool.and_eq_false_iff] at h
    intro m hm hk
    rcases List.mem_cons.mp hm with e | e
    · subst e
      rcases h.1 with h1 | h1
      · simp [hk] at h1
      · simpa using h1
    · exact ih h.2 m e hk

/-- no R_PATHDUP entry for child `i`: no later child of the same kind reports the same `(id, qualifier)` -/
theorem pathdup_sound (ent hl ctx : Nat) (des exts : List Nat) (m : MapFile) (ip : List Nat)
    (sibs : List Node) (hs : sibsAt m.children ip = some sibs) (i j : Nat) (a b : Node) (hij : i < j)
    (ha : sibs[i]? = some a) (hb : sibs[j]? = some b) (hk : a.isSeg = b.isSeg)
    (h : (R_PATHDUP, ip ++ [i]) ∉ violations ent hl ctx des exts m) : a.comp ≠ b.comp := by
  have hc : compClash a (sibs.drop (i + 1)) = false := by
    cases hcl : compClash a (sibs.drop (i + 1)) with
    | false => rfl
    | true => exact absurd ((local_in_violations ent hl ctx des exts m ip sibs i a hs ha).2.1 hcl) h
  exact fun e => compClash_false a _ hc b (mem_drop_of_lt sibs i j b hij hb) hk.symm e.symm

/-! ### obligations: the shape the generated per-map theorems have -/

section obligations
variable (k : Consts) (des exts : List Nat) (m : MapFile) (known : List Viol)
  (hs : sameSet (violations k.ent k.hl k.ctx des exts m) known = true)
include hs

theorem obligation_gives_usage (hk : ∀ v ∈ known, v.1 ≠ R_USAGE) (ip : List Nat) (n : Node)
    (hn : nodeAt m.children ip = some n) : n.usage ≤ 2 :=
  usage_sound _ _ _ des exts m ip n hn
    (obligation_excludes _ _ _ des exts m known hs _ (not_known_of_rule known _ hk ip))

theorem obligation_gives_repeat (hk : ∀ v ∈ known, v.1 ≠ R_REPEAT) (ip : List Nat) (n : Node)
    (hn : nodeAt m.children ip = some n) : n.rep < 1000000 :=
  repeat_sound _ _ _ des exts m ip n hn
    (obligation_excludes _ _ _ des exts m known hs _ (not_known_of_rule known _ hk ip))

theorem obligation_gives_elem (hk : ∀ v ∈ known, v.1 ≠ R_ELEM) (ip : List Nat)
    (sid q p u mx : Nat) (notes : List Note) (ch : List Child)
    (hn : nodeAt m.children ip = some (.seg sid q p u mx notes ch)) : ∀ c ∈ ch, ChildOK des exts c :=
  elem_sound _ _ _ des exts m ip sid q p u mx notes ch hn
    (obligation_excludes _ _ _ des exts m known hs _ (not_known_of_rule known _ hk ip))

theorem obligation_gives_seq (hk : ∀ v ∈ known, v.1 ≠ R_SEQ) (ip : List Nat)
    (sid q p u mx : Nat) (notes : List Note) (ch : List Child)
    (hn : nodeAt m.children ip = some (.seg sid q p u mx notes ch)) : SeqOK ch :=
  seq_sound _ _ _ des exts m ip sid q p u mx notes ch hn
    (obligation_excludes _ _ _ des exts m known hs _ (not_known_of_rule known _ hk ip))

theorem obligation_gives_note (hk : ∀ v ∈ known, v.1 ≠ R_NOTE) (ip : List Nat)
    (sid q p u mx : Nat) (notes : List Note) (ch : List Child)
    (hn : nodeAt m.children ip = some (.seg sid q p u mx notes ch)) :
    (∀ nt ∈ notes, NoteOK ch.length nt) ∧ (ch.length < 100 → Syn.AllWF (notes.map toSyn)) :=
  have hx := obligation_excludes _ _ _ des exts m known hs _ (not_known_of_rule known R_NOTE hk ip)
  ⟨note_sound _ _ _ des exts m ip sid q p u mx notes ch hn hx,
   note_sound_syn _ _ _ des exts m ip sid q p u mx notes ch hn hx⟩

theorem obligation_gives_pos (hk : ∀ v ∈ known, v.1 ≠ R_POS) (ip : List Nat) (sibs : List Node)
    (hsib : sibsAt m.children ip = some sibs) (i j : Nat) (a b : Node) (hij : i ≤ j)
    (ha : sibs[i]? = some a) (hb : sibs[j]? = some b) : a.pos ≤ b.pos :=
  pos_sound _ _ _ des exts m ip sibs hsib
    (obligation_excludes _ _ _ des exts m known hs _ (not_known_of_rule known _ hk ip)) i j a b hij ha hb

/-- any two DISTINCT children of one child list at one position: disjoint entry keys, and — for segments keying
    on the same value position — no data segment matches both -/
theorem obligation_gives_sibling (hk : ∀ v ∈ known, v.1 ≠ R_SIBLING) (ip : List Nat) (sibs : List Node)
    (hsib : sibsAt m.children ip = some sibs) (i j : Nat) (a b : Node) (hij : i ≠ j)
    (ha : sibs[i]? = some a) (hb : sibs[j]? = some b) (hp : a.pos = b.pos) :
    (∀ ka ∈ entryKeys k.ent k.hl k.ctx a, ∀ kb ∈ entryKeys k.ent k.hl k.ctx b,
        KeysDisjoint ka kb ∧ KeysDisjoint kb ka) ∧
    ((a.ident = b.ident → a.slot k.ent k.hl = b.slot k.ent k.hl) →
      ∀ s, ¬ (isMatch k a s = true ∧ isMatch k b s = true)) := by
  have ex : ∀ i, (R_SIBLING, ip ++ [i]) ∉ violations k.ent k.hl k.ctx des exts m := fun i =>
    obligation_excludes _ _ _ des exts m known hs _ (not_known_of_rule known _ hk _)
  rcases Nat.lt_or_gt_of_ne hij with hlt | hgt
  · refine ⟨fun ka hka kb hkb => ?_, fun hslot s => ?_⟩
    · have hd := sibling_keys_disjoint _ _ _ des exts m ip sibs hsib i j a b hlt ha hb hp (ex i) ka hka kb hkb
      exact ⟨hd, KeysDisjoint.symm hd⟩
    · exact sibling_sound k des exts m ip sibs hsib i j a b hlt ha hb hp (ex i) hslot s
  · refine ⟨fun ka hka kb hkb => ?_, fun hslot s hm => ?_⟩
    · have hd := sibling_keys_disjoint _ _ _ des exts m ip sibs hsib j i b a hgt hb ha hp.symm (ex j) kb hkb ka hka
      exact ⟨KeysDisjoint.symm hd, hd⟩
    · exact sibling_sound k des exts m ip sibs hsib j i b a hgt hb ha hp.symm (ex j)
        (fun e => (hslot e.symm).symm) s ⟨hm.2, hm.1⟩

theorem obligation_gives_pathdup (hk : ∀ v ∈ known, v.1 ≠ R_PATHDUP) (ip : List Nat) (sibs : List Node)
    (hsib : sibsAt m.children ip = some sibs) (i j : Nat) (a b : Node) (hij : i ≠ j)
    (ha : sibs[i]? = some a) (hb : sibs[j]? = some b) (hkind : a.isSeg = b.isSeg) : a.comp ≠ b.comp := by
  have ex : ∀ i, (R_PATHDUP, ip ++ [i]) ∉ violations k.ent k.hl k.ctx des exts m := fun i =>
    obligation_excludes _ _ _ des exts m known hs _ (not_known_of_rule known _ hk _)
  rcases Nat.lt_or_gt_of_ne hij with hlt | hgt
  · exact pathdup_sound _ _ _ des exts m ip sibs hsib i j a b hlt ha hb hkind (ex i)
  · exact fun e => pathdup_sound _ _ _ des exts m ip sibs hsib j i b a hgt hb ha hkind.symm (ex j) e.symm

end obligations

/-! ### the full sibling statement fails for the rule as it is: the key position is not compared -/

/-- the statement without the key-position hypothesis -/
def sibling_full : Prop :=
  ∀ (k : Consts) (des exts : List Nat) (m : MapFile) (ip : List Nat) (sibs : List Node),
    sibsAt m.children ip = some sibs → ∀ (i j : Nat) (a b : Node), i < j →
    sibs[i]? = some a → sibs[j]? = some b → a.pos = b.pos →
    (R_SIBLING, ip ++ [i]) ∉ violations k.ent k.hl k.ctx des exts m →
    ∀ s, ¬ (isMatch k a s = true ∧ isMatch k b s = true)

/-- two `ENT` segments (id 7) at position 10: the first keys on element 01 (codes {1}), the second on element 02
    (codes {2}) -/
def exA : Node := .seg 7 1 10 0 1 []
  [.elem ⟨1, 1, 0, 5, true, false, [1], 1, 0, false⟩, .elem ⟨2, 2, 0, 5, false, false, [], 0, 0, false⟩]
def exB : Node := .seg 7 2 10 0 1 []
  [.elem ⟨1, 1, 1, 5, false, false, [], 0, 0, false⟩, .elem ⟨2, 2, 0, 5, true, false, [2], 1, 0, false⟩]
def exMap : MapFile := ⟨100, [exA, exB]⟩
def exK : Consts := ⟨7, 8, 9⟩

/-- the map passes every rule … -/
theorem exMap_clean : violations 7 8 9 [5] [] exMap = [] := by decide

/-- … and yet one data segment (`ENT*1*2`) matches both siblings: `sibling_sound`'s hypothesis `hslot` is needed,
    the R_SIBLING rule alone does not give "at most one sibling matches" -/
theorem sibling_slot_needed :
    isMatch exK exA ⟨7, 1, 2, 0, 0⟩ = true ∧ isMatch exK exB ⟨7, 1, 2, 0, 0⟩ = true ∧
    exA.slot 7 8 ≠ exB.slot 7 8 := by decide

theorem sibling_full_fails : ¬ sibling_full := by
  intro h
  have := h exK [5] [] exMap [] [exA, exB] rfl 0 1 exA exB (by decide) rfl rfl rfl
    (by rw [show violations exK.ent exK.hl exK.ctx [5] [] exMap = [] from exMap_clean]; simp)
    ⟨7, 1, 2, 0, 0⟩
  exact this ⟨sibling_slot_needed.1, sibling_slot_needed.2.1⟩

/-! ### non-vacuity: the hypotheses of the theorems are satisfiable and the conclusions are not trivial -/

example : ChildOK [5] [] (Child.elem ⟨1, 1, 0, 5, true, false, [1], 1, 0, false⟩) :=
  obligation_gives_elem exK [5] [] exMap []
    (by rw [show violations exK.ent exK.hl exK.ctx [5] [] exMap = [] from exMap_clean]; decide)
    (by simp) [0] 7 1 10 0 1 []
    [.elem ⟨1, 1, 0, 5, true, false, [1], 1, 0, false⟩, .elem ⟨2, 2, 0, 5, false, false, [], 0, 0, false⟩]
    rfl _ (by simp)

/-- a map with an undefined data element, a bad note and a clashing sibling pair is reported under the right
    index paths -/
example :
    violations 7 8 9 [5] []
      ⟨100, [.loop 50 1 0 1 false
        [.seg 20 0 10 0 1 [(0, [1, 3])] [.elem ⟨1, 1, 0, 6, false, false, [], 0, 0, false⟩],
         .seg 21 0 20 0 1 [] [], .seg 21 0 20 0 1 [] []]]⟩ =
      [(R_ELEM, [0, 0]), (R_NOTE, [0, 0]), (R_SIBLING, [0, 1]), (R_PATHDUP, [0, 1]), (R_FETCH, [0, 2])] := by
  decide

/-! ### the map index -/

/-- does the entry answer the lookup `(icvn, vriic, fic, tspc)`?  `tspc = 0` stands for `None` on both sides -/
def answers (icvn vriic fic tspc : Nat) (a : IndexEntry) : Bool :=
  a.1 == icvn && a.2.1 == vriic && a.2.2.1 == fic && (tspc == 0 || a.2.2.2.1 == tspc)

/-- `map_index.get_filename`: the first entry that answers -/
def getFilename : List IndexEntry → Nat → Nat → Nat → Nat → Option Nat
  | [], _, _, _, _ => none
  | a :: r, i, v, f, t => if answers i v f t a then some a.2.2.2.2 else getFilename r i v f t

/-- two entries share the three key fields and their `tspc` do not separate them -/
def KeyClash (a b : IndexEntry) : Prop :=
  a.1 = b.1 ∧ a.2.1 = b.2.1 ∧ a.2.2.1 = b.2.2.1 ∧ (a.2.2.2.1 = b.2.2.2.1 ∨ a.2.2.2.1 = 0 ∨ b.2.2.2.1 = 0)

theorem keyClash_false (a : IndexEntry) (r : List IndexEntry) (h : keyClash a r = false) :
    ∀ b ∈ r, ¬ KeyClash a b := by
  induction r with
  | nil => intro b hb; simp at hb
  | cons c r ih =>
    simp only [keyClash, Bool.or_eq_false_iff] at h
    intro b hb
    rcases List.mem_cons.mp hb with e | e
    · subst e
      have h1 := h.1
      intro hc
      obtain ⟨c1, c2, c3, c4⟩ := hc
      simp [c1, c2, c3] at h1
      omega
    · exact ih h.2 b e

theorem indexViols_nil (idx : List IndexEntry) :
    ∀ i, indexViols i idx = [] → idx.Pairwise (fun a b => ¬ KeyClash a b) := by
  induction idx with
  | nil => intro i _; simp
  | cons a r ih =>
    intro i h
    unfold indexViols at h
    rw [append_nil_iff] at h
    rw [List.pairwise_cons]
    refine ⟨?_, ih (i + 1) h.2⟩
    apply keyClash_false
    cases hk : keyClash a r with
    | false => rfl
    | true => simp [hk] at h

theorem answers_own (a : IndexEntry) : answers a.1 a.2.1 a.2.2.1 a.2.2.2.1 a = true := by
  simp [answers]

/-- `indexViols 0 index = []`: every entry is returned by `get_filename` for its own key -/
theorem index_sound (idx : List IndexEntry) (h : indexViols 0 idx = []) (j : Nat) (a : IndexEntry)
    (ha : idx[j]? = some a) : getFilename idx a.1 a.2.1 a.2.2.1 a.2.2.2.1 = some a.2.2.2.2 := by
  have pw := indexViols_nil idx 0 h
  clear h
  induction idx generalizing j with
  | nil => simp at ha
  | cons b r ih =>
    rw [List.pairwise_cons] at pw
    cases j with
    | zero =>
      simp only [List.getElem?_cons_zero, Option.some.injEq] at ha
      subst ha
      simp [getFilename, answers_own]
    | succ j' =>
      simp only [List.getElem?_cons_succ] at ha
      have hmem : a ∈ r := List.mem_of_getElem? ha
      have hnc := pw.1 a hmem
      unfold getFilename
      by_cases hb : answers a.1 a.2.1 a.2.2.1 a.2.2.2.1 b = true
      · exfalso
        apply hnc
        simp only [answers, Bool.and_eq_true, Bool.or_eq_true, beq_iff_eq] at hb
        obtain ⟨⟨⟨h1, h2⟩, h3⟩, h4⟩ := hb
        refine ⟨h1, h2, h3, ?_⟩
        rcases h4 with h4 | h4
        · exact Or.inr (Or.inr h4)
        · exact Or.inl h4
      · rw [if_neg hb]
        exact ih j' ha pw.2

/-- no two entries answer the same lookup, as long as the lookup names a `tspc` or one of the entries has none;
    a lookup WITHOUT `tspc` is answered by every entry that shares the other three fields (the 278 pair) and
    `get_filename` returns the first of them -/
theorem index_lookup_unique (idx : List IndexEntry) (h : indexViols 0 idx = []) (i j : Nat) (a b : IndexEntry)
    (ha : idx[i]? = some a) (hb : idx[j]? = some b) (icvn vriic fic tspc : Nat)
    (qa : answers icvn vriic fic tspc a = true) (qb : answers icvn vriic fic tspc b = true)
    (ht : tspc ≠ 0 ∨ a.2.2.2.1 = 0 ∨ b.2.2.2.1 = 0) : i = j := by
  have pw := List.pairwise_iff_getElem.mp (indexViols_nil idx 0 h)
  obtain ⟨hi, rfl⟩ := List.getElem?_eq_some_iff.mp ha
  obtain ⟨hj, rfl⟩ := List.getElem?_eq_some_iff.mp hb
  simp only [answers, Bool.and_eq_true, Bool.or_eq_true, beq_iff_eq] at qa qb
  obtain ⟨⟨⟨a1, a2⟩, a3⟩, a4⟩ := qa
  obtain ⟨⟨⟨b1, b2⟩, b3⟩, b4⟩ := qb
  rcases Nat.lt_trichotomy i j with hlt | heq | hgt
  · exfalso
    apply pw i j hi hj hlt
    refine ⟨by omega, by omega, by omega, ?_⟩
    omega
  · exact heq
  · exfalso
    apply pw j i hj hi hgt
    refine ⟨by omega, by omega, by omega, ?_⟩
    omega

/-- what `get_filename` returns is the file of the first answering entry -/
theorem getFilename_first (idx : List IndexEntry) (icvn vriic fic tspc f : Nat)
    (h : getFilename idx icvn vriic fic tspc = some f) :
    ∃ (j : Nat) (a : IndexEntry), idx[j]? = some a ∧ answers icvn vriic fic tspc a = true ∧ a.2.2.2.2 = f ∧
      ∀ (j' : Nat) (b : IndexEntry), j' < j → idx[j']? = some b → answers icvn vriic fic tspc b = false := by
  induction idx with
  | nil => simp [getFilename] at h
  | cons c r ih =>
    unfold getFilename at h
    by_cases hc : answers icvn vriic fic tspc c = true
    · rw [if_pos hc] at h
      exact ⟨0, c, by simp, hc, Option.some.inj h, by intro j' b hj'; omega⟩
    · rw [if_neg hc] at h
      obtain ⟨j, a, h1, h2, h3, h4⟩ := ih h
      refine ⟨j + 1, a, by simpa using h1, h2, h3, ?_⟩
      intro j' b hj' hb
      cases j' with
      | zero => simp at hb; subst hb; simpa using hc
      | succ j'' => exact h4 j'' b (by omega) (by simpa using hb)

/-- the 278 shape: two entries that differ in `tspc` only pass the index rule, each is found by its own key, and a
    lookup without `tspc` is answered by both (the first wins) -/
example :
    indexViols 0 [(1, 2, 3, 11, 70), (1, 2, 3, 13, 71)] = [] ∧
    getFilename [(1, 2, 3, 11, 70), (1, 2, 3, 13, 71)] 1 2 3 13 = some 71 ∧
    getFilename [(1, 2, 3, 11, 70), (1, 2, 3, 13, 71)] 1 2 3 0 = some 70 ∧
    answers 1 2 3 0 (1, 2, 3, 13, 71) = true ∧
    indexViols 0 [(1, 2, 3, 0, 70), (1, 2, 3, 13, 71)] = [0] := by decide

end Pyx12Verif.MapSkel
