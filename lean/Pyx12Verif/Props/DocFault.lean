/-
C03 at PIPELINE level — the counterpart of `doc_accepts_generated` (Props/DocAccept.lean): ONE fault in an otherwise
conformant document, through the whole model `Doc.validateDoc` (tokenizer → reader → walker → `is_valid` → error handler →
error tree).

Setting = that of `doc_accepts_generated`: document ISA, GS, body; `EnvOk` (control map, index, ISA and GS conform, the
reader accepts them silently), the body given with the map node of every segment; the reader accepts the body silently
(`EnvQuiet`, nothing left open at the end), no SE before the first ST (`SeOk`).  The body is `pre ++ x :: post`; every
segment of `pre` and `post` conforms to the definition of its node (`BodyOk`); an ST occurs in `pre` (a set is open at `x`).

  (1) `doc_rejects_element_fault`     `x` is a plain segment, matched as the derivation says, with exactly one child that
                                      draws reports (`SegFault`; instances: `childPresent_elem_fault` — a value whose C15
                                      code list is non-empty —, `childAbsent_elem_fault`, `compEvents_sub_fault`).
  (2) `doc_rejects_syntax_fault`      `x` is a plain segment whose elements conform and of whose notes exactly one is
                                      violated (C14 `Violated`): one `ele_error`, code 10 for E, else 2, at the child the
                                      note names first, no value.
  (3) `doc_rejects_structural_fault`  `x` conforms, the walker run is `RunErrAt … e` (C03 walker level): `add_seg;
                                      seg_error(code e)` in front of the calls of the conforming segment.  Discharged
                                      from derivations by `doc_rejects_max_use` (5), `doc_rejects_loop_repeat` (4),
                                      `doc_rejects_mandatory_missing` (3).
      `doc_rejects_unknown_segment`   no node of the map carries the id of `x` (1): the walker returns no node, so
                                      `x12n_document` keeps the previous node, validates nothing, does NOT clear `valid`
                                      and does not pop the reader's errors; the verdict is false only through the error
                                      count.  `doc_unknown_segment_outside_set_accepted`: the same with no set open — the
                                      report is swallowed (finding D27) and the verdict is TRUE.

Conclusion in every case (`OneFaultRun`): verdict false; the outputs of all other segments are matched and hand no error to
the handler; the output of `x` is the one displayed (node, seg_count, position, codes, values); the events are the outputs'
events; the error tree is one interchange, one group, and below the group exactly one segment node — the displayed one —
under the set that was open (`OneFault`).

`doc_fault_others_as_conformant`: "every other segment produces the events of the conformant run", literally — the outputs
(`SegOut`: node, handler calls) of all segments but the faulty one are EQUAL to those of the run on the conformant
counterpart.  `one_event_per_code_full` (the wording "exactly one event per code of the implied set") is false for the code
as it is (`one_event_per_code_full_false`: code 7 twice); what holds is `elem_fault_codes`.
`validateDoc_of_read`: for a text on which the reader yields ISA, GS, body, `validateDoc` is `validateRead` on that reading.

Not covered (no claim): a fault on ISA / GS / ST / SE / GE / IEA (C04/C05 territory, `PlainBodySeg`), a faulty plain segment
before the first ST (no shipped map has one; the handler raises there), several faults at once.

(4) Several sets in the group: Props/DocFaultSets.lean (`doc_fault_other_sets_accepted`; the unrestricted statement is
`doc_fault_other_sets_full`, proved for one interchange with one group as `doc_fault_other_sets_partial`).
Non-vacuity: Props/DocFaultExample.lean … DocFaultExample5.lean.
-/
import Pyx12Verif.Proofs.DocFaultMid
import Pyx12Verif.Props.C03

namespace Pyx12Verif.Doc
open Pyx12Verif WalkerGen MapSkel

/-! ### what the walker reads: an edit elsewhere leaves the matching alone -/

/-- `segment_if.is_match` reads the id and the elements 01, 02, 03 (01-1 is part of 01): two segments that agree there
    are the same segment for the walker, on every map node -/
theorem segData_congr_elems (ms : Maps) (m : MapX) (d : Delims) (s s' : Seg) (hid : s'.id = s.id)
    (h3 : s'.elems.take 3 = s.elems.take 3) : segData ms m d s' = segData ms m d s := by
  have hk : ∀ k, k < 3 → s'.elems[k]? = s.elems[k]? := by
    intro k hk
    have e1 : (s'.elems.take 3)[k]? = s'.elems[k]? := List.getElem?_take_of_lt hk
    have e2 : (s.elems.take 3)[k]? = s.elems[k]? := List.getElem?_take_of_lt hk
    rw [← e1, ← e2, h3]
  have hgv : ∀ k, k < 3 → gv d s' k = gv d s k := by
    intro k hk'
    simp only [gv, Pipeline.getValue, hk k hk', hid]
  have h011 : gv011 s' = gv011 s := by
    have := hk 0 (by omega)
    unfold gv011
    cases h1 : s'.elems with
    | nil => cases h2 : s.elems with
      | nil => rfl
      | cons c r => rw [h1, h2] at this; simp at this
    | cons c r => cases h2 : s.elems with
      | nil => rw [h1, h2] at this; simp at this
      | cons c' r' => rw [h1, h2] at this; simp at this; rw [this]
  simp only [segData, hid, hgv 0 (by omega), hgv 1 (by omega), hgv 2 (by omega), h011]

/-- replacing the element at index `i ≥ 3` (position 04 or later) does not change what the walker sees -/
theorem segData_set (ms : Maps) (m : MapX) (d : Delims) (s : Seg) (i : Nat) (c : List Str) (hi : 3 ≤ i) :
    segData ms m d { s with elems := s.elems.set i c } = segData ms m d s := by
  apply segData_congr_elems
  · rfl
  · simp only
    apply List.ext_getElem?
    intro k
    by_cases hk : k < 3
    · rw [List.getElem?_take_of_lt hk, List.getElem?_take_of_lt hk, List.getElem?_set_ne (by omega)]
    · rw [List.getElem?_take_eq_none (by omega), List.getElem?_take_eq_none (by omega)]

/-! ### instances of "one child draws reports" -/

/-- a simple element carrying the value `v` for which the C15 model reports the non-empty code list `codes`: one
    `ele_error` per code, in order (`toErr_codes`), each — for a value without control character in an element that may
    be used — carrying the value (`elemReports_value`) -/
theorem childPresent_elem_fault (ctx : Ctx) (v5 : Bool) (sep : Char) (sid : Str) (i : Nat) (dt tl : List Str) (v : Str)
    (x : ElemX) (hl : needsLookup x (.simple v) = true → x.defined = true)
    (hne : (ElemValid.elemValidIn (defWith x (pickTl sid i x dt tl)) (elemCtx ctx v5 x v) (.simple v)).2 ≠ []) :
    (childPresent ctx v5 sep sid i dt tl [v] (.elem x)).Fault x.d.seq none x.dataEle
      ((elemReports x (defWith x (pickTl sid i x dt tl)) (elemCtx ctx v5 x v) (.simple v)).map Report.toErr) := by
  simp only [childPresent, elemAt, elemIn]
  exact elemEvents_fault ctx v5 x.d.seq none x (pickTl sid i x dt tl) (.simple v) hl hne

/-- a required simple element left out at the end of the segment -/
theorem childAbsent_elem_fault (ctx : Ctx) (v5 : Bool) (x : ElemX)
    (hne : (ElemValid.elemValidIn (defWith x []) (elemCtx ctx v5 x []) .absent).2 ≠ []) :
    (childAbsent ctx v5 (.elem x)).Fault x.d.seq none x.dataEle
      ((elemReports x (defWith x []) (elemCtx ctx v5 x []) .absent).map Report.toErr) := by
  simp only [childAbsent]
  exact elemEvents_fault ctx v5 x.d.seq none x [] .absent (by simp [needsLookup]) hne

/-- the codes of the reports are those of the C15 model, which are — as a set — exactly what the definition implies for
    the value (`C03.fault_isolated` / C15 `elemErrors_spec`; instances `C03.fault_too_long_isolated` … give the set) -/
theorem elem_fault_codes (x : ElemX) (d : ElemValid.ElemDef) (c : ElemValid.Ctx) (i : EIn) :
    ((elemReports x d c i).map Report.toErr).map (·.code) = (ElemValid.elemValidIn d c i.toInput).2.map codeStr ∧
      ∀ k, k ∈ (ElemValid.elemValidIn d c i.toInput).2 ↔ ElemValid.Spec d c i.toInput k :=
  ⟨toErr_codes x d c i, fun k => ElemValid.elemErrors_spec d c i.toInput k⟩

/-- the wording "exactly ONE element-error event per code of the implied set", read literally -/
def one_event_per_code_full : Prop :=
  ∀ (d : ElemValid.ElemDef) (c : ElemValid.Ctx) (i : ElemValid.Input), (ElemValid.elemValidIn d c i).2.Nodup

/-- … is false: `element_if.is_valid` reports code 7 once for "not in the code list" and once more for "does not match
    the regular expression" (likewise 6 for needless trailing blanks and for a wrong character).  What holds
    (`elem_fault_codes`): one event per entry of the model's code LIST, in order, and that list is — as a set — the
    implied set; for a single-cause fault the `fault_*_isolated` lemmas of Props/C03.lean give the set. -/
theorem one_event_per_code_full_false : ¬ one_event_per_code_full := by
  intro h
  have := h { usage := .R, dataType := ElemValid.tyAN, minLen := 1, maxLen := 5, codes := [['A']], extDeclared := false,
              hasRegex := true, typeList := [], seq := 1, parentComposite := false, parentRequired := false }
    { extended := false, v5010 := false, extMember := false, regexFound := false } (.simple ['Z'])
  revert this
  decide

/-! ### (1), (2): a fault inside one plain segment -/

/-- common form of (1) and (2): `node.is_valid` on the segment `bF` returns `False` with reports on one element node -/
theorem doc_rejects_segment_fault_of_runOK (ms : Maps) (ctx : Ctx) (h : Tokenizer.Header) (d : Delims)
    (hd : d = SegText.delimsOf h) (control m : MapX) (isa gs : Seg) (a g : Nat)
    (cip cgp : List Nat) (isaDef gsDef : SegDef) (vISA vGS : Envelope.SegView) (rs1 rs2 rs3 : Envelope.RState)
    (henv : EnvOk ms ctx h control m isa gs a g cip cgp isaDef gsDef vISA vGS rs1 rs2)
    (pre post : List (Seg × List Nat)) (bF : Seg × List Nat) (sdF : SegDef)
    (hrun : RunOK ms.consts m.root m.rootId (pinnedCnt ms) [a, g, 0] (emitsOf ms m d (pre ++ bF :: post)))
    (hquiet : EnvQuiet d (bodyRs m rs2) ((pre ++ bF :: post).map (·.1)) rs3)
    (hclean : Envelope.cleanup rs3 = [])
    (hse : SeOk false ((pre ++ bF :: post).map (·.1.id)))
    (hpre : ∀ b ∈ pre, BodyOk ctx m d b) (hpost : ∀ b ∈ post, BodyOk ctx m d b)
    (hst : stIn (pre.map (·.1.id)) = true)
    (hFid : bF.1.id ≠ Envelope.idISA ∧ bF.1.id ≠ Envelope.idGS) (hFbase : baseErrs bF.1 = []) (hFplain : PlainBodySeg bF.1)
    (hFdef : lookupDef m bF.2 = some sdF)
    (p : Nat) (sp : Option Nat) (de : Option Str) (errs : List ErrTree.EleErr) (hne : errs ≠ [])
    (hF : (segEvents ctx m.v5010 d sdF bF.1).Fault p sp de errs) :
    ∃ (rsF : Envelope.RState) (tl : List Event),
      EnvQuiet d (bodyRs m rs2) (pre.map (·.1) ++ [bF.1]) rsF ∧ FaultForm tl p sp de errs ∧
      OneFaultRun (validateRead ms ctx h (readOf isa gs (pre ++ bF :: post))) pre.length post.length
        { sid := bF.1.id, matched := true, node := some (m.file, bF.2), popped := [],
          events := .addSeg bF.1.id rsF.segCount none :: tl }
        (faultSeg bF.1.id rsF.segCount p sp de errs) ∧
      -- the set nodes, exactly: those of the conforming rounds before, the open one with the faulty segment node
      -- linked, then what the conforming rounds after do to that list
      ∃ (rpre rpost : List BRound) (done : List ErrTree.St) (x : ErrTree.St),
        rpre.map (·.seg) = pre.map (·.1) ∧ rpost.map (·.seg) = post.map (·.1) ∧ cleanSets d [] rpre = done ++ [x] ∧
        TreeIs (validateRead ms ctx h (readOf isa gs (pre ++ bF :: post))).final.tree
          (fun sets => sets = cleanSets d (done ++ [addChild x (faultSeg bF.1.id rsF.segCount p sp de errs)]) rpost) := by
  subst hd
  obtain ⟨evs, hev, hform⟩ := hF
  rw [emitsOf_append, emitsOf_cons, runOK_append] at hrun
  obtain ⟨hrunPre, hrunX⟩ := hrun
  simp only [RunOK] at hrunX
  obtain ⟨hnode, herrs, _, hrunPost⟩ := hrunX
  obtain ⟨rsF, hq, hres, hsharp⟩ := one_fault_body ms ctx h control m isa gs a g cip cgp isaDef gsDef vISA vGS rs1 rs2 rs3 henv
    pre post bF (some bF.2) [] false evs hrunPre hnode herrs hrunPost hquiet hclean hse hpre hpost hst hFid hFbase
    ⟨sdF, hFdef, hev⟩ (fun rsF => faultSeg bF.1.id rsF.segCount p sp de errs)
    (fun rsF => faultSeg_errCount _ _ _ _ _ _ hne)
    (fun rsF done x => done ++ [addChild x (faultSeg bF.1.id rsF.segCount p sp de errs)])
    (by
      intro rsF s done x hg hnf
      have hr : (BRound.mk bF.1 rsF (some bF.2) [] false evs).FaultAt p sp de errs := ⟨rfl, rfl, rfl, hFplain, hform, hne⟩
      obtain ⟨s', hs', hg'⟩ := fault_round_run hg m (SegText.delimsOf h) _ p sp de errs hr
      exact ⟨s', hs', hg', oneFault_of_noFault _ done x hnf⟩)
  obtain ⟨rpre, rpost, done, x, hs1, hs2, hs3, hs4, _⟩ := hsharp
  refine ⟨rsF, evs, hq, hform, ?_, rpre, rpost, done, x, hs1, hs2, hs3, hs4⟩
  have hout : (BRound.mk bF.1 rsF (some bF.2) [] false evs).out m (SegText.delimsOf h)
      (curAfter ms m (SegText.delimsOf h) a g pre) =
      { sid := bF.1.id, matched := true, node := some (m.file, bF.2), popped := [],
        events := .addSeg bF.1.id rsF.segCount none :: evs } := by
    simp [BRound.out, BRound.events, werrEvs, headEvent_plain _ bF.1 rsF hFplain.1 hFplain.2.1 hFplain.2.2.1 hFplain.2.2.2]
  rw [← hout]
  exact hres

theorem getElem?_replace {α : Type} (a b : List α) (x y : α) (j : Nat) (hj : j ≠ a.length) :
    (a ++ x :: b)[j]? = (a ++ y :: b)[j]? := by
  by_cases h : j < a.length
  · rw [List.getElem?_append_left h, List.getElem?_append_left h]
  · have h' : a.length ≤ j := by omega
    rw [List.getElem?_append_right h', List.getElem?_append_right h']
    have : j - a.length ≠ 0 := by omega
    obtain ⟨k, hk⟩ := Nat.exists_eq_succ_of_ne_zero this
    rw [hk]; rfl

/-- **"every other segment produces the events of the conformant run"**, literally.  Setting of
    `doc_rejects_segment_fault_of_runOK`; `bC` is a conformant counterpart of the faulty segment `bF`: same node, same
    id, the same for the walker (`segData`) and for the reader (`viewOf`), and it conforms to the node's definition.
    Then the conformant document is accepted without any report, and for every segment but `bF` / `bC` the faulty run
    reports exactly what the conformant run reports: same node, same handler calls (`SegOut` equal). -/
theorem doc_fault_others_as_conformant (ms : Maps) (ctx : Ctx) (h : Tokenizer.Header) (d : Delims)
    (hd : d = SegText.delimsOf h) (control m : MapX) (isa gs : Seg) (a g : Nat)
    (cip cgp : List Nat) (isaDef gsDef : SegDef) (vISA vGS : Envelope.SegView) (rs1 rs2 rs3 : Envelope.RState)
    (henv : EnvOk ms ctx h control m isa gs a g cip cgp isaDef gsDef vISA vGS rs1 rs2)
    (pre post : List (Seg × List Nat)) (bF : Seg × List Nat) (sdF : SegDef)
    (hrun : RunOK ms.consts m.root m.rootId (pinnedCnt ms) [a, g, 0] (emitsOf ms m d (pre ++ bF :: post)))
    (hquiet : EnvQuiet d (bodyRs m rs2) ((pre ++ bF :: post).map (·.1)) rs3)
    (hclean : Envelope.cleanup rs3 = [])
    (hse : SeOk false ((pre ++ bF :: post).map (·.1.id)))
    (hpre : ∀ b ∈ pre, BodyOk ctx m d b) (hpost : ∀ b ∈ post, BodyOk ctx m d b)
    (hst : stIn (pre.map (·.1.id)) = true)
    (hFid : bF.1.id ≠ Envelope.idISA ∧ bF.1.id ≠ Envelope.idGS) (hFbase : baseErrs bF.1 = []) (hFplain : PlainBodySeg bF.1)
    (hFdef : lookupDef m bF.2 = some sdF)
    (p : Nat) (sp : Option Nat) (de : Option Str) (errs : List ErrTree.EleErr) (hne : errs ≠ [])
    (hF : (segEvents ctx m.v5010 d sdF bF.1).Fault p sp de errs)
    (bC : Seg × List Nat) (hCok : BodyOk ctx m d bC) (hCnode : bC.2 = bF.2) (hCid : bC.1.id = bF.1.id)
    (hCdata : segData ms m d bC.1 = segData ms m d bF.1) (hCview : Pipeline.viewOf d bC.1 = Pipeline.viewOf d bF.1) :
    (validateRead ms ctx h (readOf isa gs (pre ++ bC :: post))).outcome = .verdict true ∧
    Quiet (validateRead ms ctx h (readOf isa gs (pre ++ bC :: post))).events ∧
    (validateRead ms ctx h (readOf isa gs (pre ++ bF :: post))).segs.length =
      (validateRead ms ctx h (readOf isa gs (pre ++ bC :: post))).segs.length ∧
    ∀ j, j ≠ pre.length + 2 →
      (validateRead ms ctx h (readOf isa gs (pre ++ bF :: post))).segs[j]? =
        (validateRead ms ctx h (readOf isa gs (pre ++ bC :: post))).segs[j]? := by
  subst hd
  obtain ⟨evs, hev, hform⟩ := hF
  -- the conformant document is one, for the walker and for the reader
  have hemitsC : emitsOf ms m (SegText.delimsOf h) (pre ++ bC :: post) = emitsOf ms m (SegText.delimsOf h) (pre ++ bF :: post) := by
    simp only [emitsOf_append, emitsOf_cons, hCnode, hCdata]
  have hquietC : EnvQuiet (SegText.delimsOf h) (bodyRs m rs2) ((pre ++ bC :: post).map (·.1)) rs3 := by
    have e1 : (pre ++ bF :: post).map (·.1) = pre.map (·.1) ++ (bF.1 :: post.map (·.1)) := by simp
    have e2 : (pre ++ bC :: post).map (·.1) = pre.map (·.1) ++ (bC.1 :: post.map (·.1)) := by simp
    rw [e1, envQuiet_append] at hquiet
    rw [e2, envQuiet_append]
    obtain ⟨r1, q1, q2⟩ := hquiet
    refine ⟨r1, q1, ?_⟩
    simp only [EnvQuiet] at q2 ⊢
    rw [hCview]
    exact q2
  have hseC : SeOk false ((pre ++ bC :: post).map (·.1.id)) := by
    have e1 : (pre ++ bF :: post).map (·.1.id) = pre.map (·.1.id) ++ (bF.1.id :: post.map (·.1.id)) := by simp
    have e2 : (pre ++ bC :: post).map (·.1.id) = pre.map (·.1.id) ++ (bC.1.id :: post.map (·.1.id)) := by simp
    rw [e2, hCid, ← e1]
    exact hse
  have hokC : ∀ b ∈ pre ++ bC :: post, BodyOk ctx m (SegText.delimsOf h) b := by
    intro b hb
    simp only [List.mem_append, List.mem_cons] at hb
    rcases hb with hb | rfl | hb
    · exact hpre b hb
    · exact hCok
    · exact hpost b hb
  obtain ⟨hCout, hCquiet, roundsC, evI', evG', c1, c2, c3, c4, c5⟩ := clean_body_segs ms ctx h control m isa gs a g cip cgp
    isaDef gsDef vISA vGS rs1 rs2 rs3 henv (pre ++ bC :: post) (by rw [hemitsC]; exact hrun) hquietC hclean hseC hokC
  -- the faulty run
  have hrun' := hrun
  rw [emitsOf_append, emitsOf_cons, runOK_append] at hrun'
  obtain ⟨hrunPre, hrunX⟩ := hrun'
  simp only [RunOK] at hrunX
  obtain ⟨hnode, herrs, _, hrunPost⟩ := hrunX
  obtain ⟨rsF, _, _, rpre, rpost, _, _, f1, f2, _, _, f5, evI, evG, f6, f7, f8⟩ := one_fault_body ms ctx h control m isa gs a g
    cip cgp isaDef gsDef vISA vGS rs1 rs2 rs3 henv pre post bF (some bF.2) [] false evs hrunPre hnode herrs hrunPost hquiet
    hclean hse hpre hpost hst hFid hFbase ⟨sdF, hFdef, hev⟩ (fun rsF => faultSeg bF.1.id rsF.segCount p sp de errs)
    (fun rsF => faultSeg_errCount _ _ _ _ _ _ hne)
    (fun rsF done x => done ++ [addChild x (faultSeg bF.1.id rsF.segCount p sp de errs)])
    (by
      intro rsF s done x hg hnf
      have hr : (BRound.mk bF.1 rsF (some bF.2) [] false evs).FaultAt p sp de errs := ⟨rfl, rfl, rfl, hFplain, hform, hne⟩
      obtain ⟨s', hs', hg'⟩ := fault_round_run hg m (SegText.delimsOf h) _ p sp de errs hr
      exact ⟨s', hs', hg', oneFault_of_noFault _ done x hnf⟩)
  -- ISA and GS report the same in both runs
  have eI : evI' = evI := by rw [c3] at f6; simpa using f6
  have eG : evG' = evG := by rw [c4] at f7; simpa using f7
  subst eI eG
  -- the rounds of the conformant run fall into the same three parts
  rw [List.map_append, List.map_cons] at c1
  obtain ⟨r1, r2', rfl, g1, g2⟩ := List.map_eq_append_iff.1 c1
  obtain ⟨rc, r2, rfl, g3, g4⟩ := List.map_eq_cons_iff.1 g2
  rw [rounds_append] at c2 f5
  obtain ⟨c21, c22⟩ := c2
  obtain ⟨f51, f52⟩ := f5
  have hr1 : r1 = rpre := rounds_unique ms ctx m _ r1 rpre _ _ _ c21 f51 (by rw [g1, f1])
  subst hr1
  simp only [Rounds] at c22 f52
  obtain ⟨⟨_, _, _, ⟨vC, hvC, hsC⟩, hnC, _, _⟩, c23⟩ := c22
  obtain ⟨⟨_, _, _, ⟨vF, hvF, hsF⟩, hnF, _, _⟩, f53⟩ := f52
  simp only at hvF hsF hnF f53
  -- the middle round leaves the walker and the reader in the same state
  have hwalk : walkOf ms m (SegText.delimsOf h) (endCnt ms m (SegText.delimsOf h) (pinnedCnt ms) [a, g, 0] r1) (endCur [a, g, 0] r1)
      rc.seg = walkOf ms m (SegText.delimsOf h) (endCnt ms m (SegText.delimsOf h) (pinnedCnt ms) [a, g, 0] r1)
      (endCur [a, g, 0] r1) bF.1 := by
    simp only [walkOf, g3, hCdata]
  have hrs : rc.rs = rsF := by
    rw [g3, hCview, hvF] at hvC
    simp only [Option.some.injEq] at hvC
    subst hvC
    rw [hsF] at hsC
    simpa using hsC.symm
  have hnd : rc.node = some bF.2 := by rw [← hnC, hwalk, hnF]
  rw [hwalk, hrs, hnd] at c23
  have hr2 : r2 = rpost := rounds_unique ms ctx m _ r2 rpost _ _ _ c23 f53 (by rw [g4, f2])
  subst hr2
  refine ⟨hCout, hCquiet, ?_, ?_⟩
  · rw [f8, c5]
    simp [outsOf_length]
  · intro j hj
    rw [f8, c5]
    have hlen : r1.length = pre.length := by have := congrArg List.length f1; simpa using this
    cases j with
    | zero => rfl
    | succ j =>
      cases j with
      | zero => rfl
      | succ j =>
        simp only [List.getElem?_cons_succ, outsOf_append, outsOf, hnd, Option.getD_some]
        apply getElem?_replace
        rw [outsOf_length, hlen]
        omega

/-- the flattened view of the faulty segment's output: exactly the reports, at the element position, with their values -/
theorem fault_out_valErrs (sid : Str) (node : Option (Str × List Nat)) (n : Nat) (tl : List Event) (p : Nat)
    (sp : Option Nat) (de : Option Str) (errs : List ErrTree.EleErr) (h : FaultForm tl p sp de errs) :
    SegOut.valErrs { sid := sid, matched := true, node := node, popped := [], events := .addSeg sid n none :: tl } =
      errs.map (fun e => ⟨e.code, p, sp, e.value⟩) :=
  valErrs_faultForm (.addSeg sid n none) rfl rfl tl p sp de errs h

/-- **(1) one faulty element**, walker hypothesis as in `doc_accepts_of_runOK`: started at the GS node with the pinned
    counter the walker answers every segment of the faulty document with the intended node and reports nothing — i.e.
    the edit did not alter how the segment is matched (`segData_congr_elems`: it suffices that id and elements 01–03 are those
    of a conformant segment) -/
theorem doc_rejects_element_fault_of_runOK (ms : Maps) (ctx : Ctx) (h : Tokenizer.Header) (d : Delims)
    (hd : d = SegText.delimsOf h) (control m : MapX) (isa gs : Seg) (a g : Nat)
    (cip cgp : List Nat) (isaDef gsDef : SegDef) (vISA vGS : Envelope.SegView) (rs1 rs2 rs3 : Envelope.RState)
    (henv : EnvOk ms ctx h control m isa gs a g cip cgp isaDef gsDef vISA vGS rs1 rs2)
    (pre post : List (Seg × List Nat)) (bF : Seg × List Nat) (sdF : SegDef)
    (hrun : RunOK ms.consts m.root m.rootId (pinnedCnt ms) [a, g, 0] (emitsOf ms m d (pre ++ bF :: post)))
    (hquiet : EnvQuiet d (bodyRs m rs2) ((pre ++ bF :: post).map (·.1)) rs3)
    (hclean : Envelope.cleanup rs3 = [])
    (hse : SeOk false ((pre ++ bF :: post).map (·.1.id)))
    (hpre : ∀ b ∈ pre, BodyOk ctx m d b) (hpost : ∀ b ∈ post, BodyOk ctx m d b)
    (hst : stIn (pre.map (·.1.id)) = true)
    (hFid : bF.1.id ≠ Envelope.idISA ∧ bF.1.id ≠ Envelope.idGS) (hFbase : baseErrs bF.1 = []) (hFplain : PlainBodySeg bF.1)
    (hFdef : lookupDef m bF.2 = some sdF)
    (k p : Nat) (sp : Option Nat) (de : Option Str) (errs : List ErrTree.EleErr) (hne : errs ≠ [])
    (hF : SegFault ctx m.v5010 d sdF bF.1 k p sp de errs) :
    ∃ (rsF : Envelope.RState) (tl : List Event),
      EnvQuiet d (bodyRs m rs2) (pre.map (·.1) ++ [bF.1]) rsF ∧ FaultForm tl p sp de errs ∧
      OneFaultRun (validateRead ms ctx h (readOf isa gs (pre ++ bF :: post))) pre.length post.length
        { sid := bF.1.id, matched := true, node := some (m.file, bF.2), popped := [],
          events := .addSeg bF.1.id rsF.segCount none :: tl }
        (faultSeg bF.1.id rsF.segCount p sp de errs) := by
  obtain ⟨rsF, tl, h1, h2, h3, _⟩ := doc_rejects_segment_fault_of_runOK ms ctx h d hd control m isa gs a g cip cgp isaDef
    gsDef vISA vGS rs1 rs2 rs3 henv pre post bF sdF hrun hquiet hclean hse hpre hpost hst hFid hFbase hFplain hFdef p sp de
    errs hne (segEvents_elem_fault ctx m.v5010 d sdF bF.1 k p sp de errs hF)
  exact ⟨rsF, tl, h1, h2, h3⟩

/-- the walker hypothesis discharged by C02: the map satisfies `WFMap ∧ Unambiguous` and what the walker reads off the
    faulty body (`emitsOf`) is a conformant derivation of the map -/
theorem runOK_of_generated (ms : Maps) (m : MapX) (a g : Nat) {isaSeg : Node} {isaRest : List Node} {gsSeg : Node}
    {gsRest : List Node} (hmap : GroupAt ms m a g isaSeg isaRest gsSeg gsRest) {out1 out2 out3 : List Emit}
    (hg1 : GenList ms.consts [a, g] 1 gsRest out1)
    (hg2 : GenList ms.consts [a] (g + 1) ((isaSeg :: isaRest).drop (g + 1)) out2)
    (hg3 : GenList ms.consts [] (a + 1) (m.root.drop (a + 1)) out3) :
    RunOK ms.consts m.root m.rootId (pinnedCnt ms) [a, g, 0] (out1 ++ out2 ++ out3) := by
  obtain ⟨isaPos, isaU, isaRep, isaW, hroot⟩ := hmap.root
  obtain ⟨gsPos, gsU, gsRep, gsW, hgs⟩ := hmap.gsLoop
  have := walk_accepts_generated ms.consts m.root m.rootId hmap.wf hmap.un hroot hmap.hisaSeg hgs hmap.hgsSeg hmap.opt0
    hmap.opt1 hg1 hg2 hg3
  rw [hmap.isaComp, hmap.gsComp] at this
  exact this

/-- **(1) one faulty element.**  All hypotheses of `doc_accepts_generated`, except that the body segment `bF` (a plain
    segment inside a set) has exactly one child — element or sub-element `(p, sp)` — that draws the non-empty list of
    reports `errs`; what the walker reads off the body is still a conformant derivation.  Then: verdict false; the output
    of `bF` is `add_seg(id, seg_count)`, error-free `add_ele` calls, `add_ele(p, sp)`, one `ele_error` per report,
    error-free `add_ele` calls, at the node of the derivation; every other segment is matched and reports nothing; the
    error tree holds exactly the segment node `faultSeg id seg_count p sp … errs` under the open set. -/
theorem doc_rejects_element_fault (ms : Maps) (ctx : Ctx) (h : Tokenizer.Header) (d : Delims)
    (hd : d = SegText.delimsOf h) (control m : MapX) (isa gs : Seg) (a g : Nat)
    (cip cgp : List Nat) (isaDef gsDef : SegDef) (vISA vGS : Envelope.SegView) (rs1 rs2 rs3 : Envelope.RState)
    (henv : EnvOk ms ctx h control m isa gs a g cip cgp isaDef gsDef vISA vGS rs1 rs2)
    {isaSeg : Node} {isaRest : List Node} {gsSeg : Node} {gsRest : List Node}
    (hmap : GroupAt ms m a g isaSeg isaRest gsSeg gsRest) {out1 out2 out3 : List Emit}
    (hg1 : GenList ms.consts [a, g] 1 gsRest out1)
    (hg2 : GenList ms.consts [a] (g + 1) ((isaSeg :: isaRest).drop (g + 1)) out2)
    (hg3 : GenList ms.consts [] (a + 1) (m.root.drop (a + 1)) out3)
    (pre post : List (Seg × List Nat)) (bF : Seg × List Nat) (sdF : SegDef)
    (hemits : emitsOf ms m d (pre ++ bF :: post) = out1 ++ out2 ++ out3)
    (hquiet : EnvQuiet d (bodyRs m rs2) ((pre ++ bF :: post).map (·.1)) rs3)
    (hclean : Envelope.cleanup rs3 = [])
    (hse : SeOk false ((pre ++ bF :: post).map (·.1.id)))
    (hpre : ∀ b ∈ pre, BodyOk ctx m d b) (hpost : ∀ b ∈ post, BodyOk ctx m d b)
    (hst : stIn (pre.map (·.1.id)) = true)
    (hFid : bF.1.id ≠ Envelope.idISA ∧ bF.1.id ≠ Envelope.idGS) (hFbase : baseErrs bF.1 = []) (hFplain : PlainBodySeg bF.1)
    (hFdef : lookupDef m bF.2 = some sdF)
    (k p : Nat) (sp : Option Nat) (de : Option Str) (errs : List ErrTree.EleErr) (hne : errs ≠ [])
    (hF : SegFault ctx m.v5010 d sdF bF.1 k p sp de errs) :
    ∃ (rsF : Envelope.RState) (tl : List Event),
      EnvQuiet d (bodyRs m rs2) (pre.map (·.1) ++ [bF.1]) rsF ∧ FaultForm tl p sp de errs ∧
      OneFaultRun (validateRead ms ctx h (readOf isa gs (pre ++ bF :: post))) pre.length post.length
        { sid := bF.1.id, matched := true, node := some (m.file, bF.2), popped := [],
          events := .addSeg bF.1.id rsF.segCount none :: tl }
        (faultSeg bF.1.id rsF.segCount p sp de errs) :=
  doc_rejects_element_fault_of_runOK ms ctx h d hd control m isa gs a g cip cgp isaDef gsDef vISA vGS rs1 rs2 rs3 henv
    pre post bF sdF (by rw [hemits]; exact runOK_of_generated ms m a g hmap hg1 hg2 hg3) hquiet hclean hse hpre hpost hst
    hFid hFbase hFplain hFdef k p sp de errs hne hF

/-- the code a violated note is reported with -/
def noteCode (n : Syn.Note) : Str := if n.code = 'E' then ['1', '0'] else ['2']

/-- **(2) one violated syntax note.**  All hypotheses of `doc_accepts_generated`, except that for the plain body segment
    `bF` (inside a set; its elements all conform) exactly one note `n` of its definition is violated in the sense of X12
    (C14 `Violated`; the others are satisfied).  Then: verdict false; the output of `bF` is `add_seg`, the `add_ele` calls
    of the elements, `add_ele` for the child the note names FIRST (position `k`) and ONE `ele_error` with code 10 for an
    exclusion note, else 2, without value; every other segment is matched and reports nothing; the error tree holds
    exactly that segment node under the open set. -/
theorem doc_rejects_syntax_fault (ms : Maps) (ctx : Ctx) (h : Tokenizer.Header) (d : Delims)
    (hd : d = SegText.delimsOf h) (control m : MapX) (isa gs : Seg) (a g : Nat)
    (cip cgp : List Nat) (isaDef gsDef : SegDef) (vISA vGS : Envelope.SegView) (rs1 rs2 rs3 : Envelope.RState)
    (henv : EnvOk ms ctx h control m isa gs a g cip cgp isaDef gsDef vISA vGS rs1 rs2)
    {isaSeg : Node} {isaRest : List Node} {gsSeg : Node} {gsRest : List Node}
    (hmap : GroupAt ms m a g isaSeg isaRest gsSeg gsRest) {out1 out2 out3 : List Emit}
    (hg1 : GenList ms.consts [a, g] 1 gsRest out1)
    (hg2 : GenList ms.consts [a] (g + 1) ((isaSeg :: isaRest).drop (g + 1)) out2)
    (hg3 : GenList ms.consts [] (a + 1) (m.root.drop (a + 1)) out3)
    (pre post : List (Seg × List Nat)) (bF : Seg × List Nat) (sdF : SegDef)
    (hemits : emitsOf ms m d (pre ++ bF :: post) = out1 ++ out2 ++ out3)
    (hquiet : EnvQuiet d (bodyRs m rs2) ((pre ++ bF :: post).map (·.1)) rs3)
    (hclean : Envelope.cleanup rs3 = [])
    (hse : SeOk false ((pre ++ bF :: post).map (·.1.id)))
    (hpre : ∀ b ∈ pre, BodyOk ctx m d b) (hpost : ∀ b ∈ post, BodyOk ctx m d b)
    (hst : stIn (pre.map (·.1.id)) = true)
    (hFid : bF.1.id ≠ Envelope.idISA ∧ bF.1.id ≠ Envelope.idGS) (hFbase : baseErrs bF.1 = []) (hFplain : PlainBodySeg bF.1)
    (hFdef : lookupDef m bF.2 = some sdF)
    -- the elements conform, no surplus element
    (hlen : bF.1.elems.length ≤ sdF.children.length)
    (hch : ChildrenAdm ctx m.v5010 bF.1.id (gv d bF.1 1) 0 [] [] sdF.children bF.1.elems)
    -- exactly one note is violated
    (vals : List Str) (hvals : SegText.formatComps (Pipeline.sepOf d bF.1.id) bF.1.elems = some vals)
    (n : Syn.Note) (ns1 ns2 : List Syn.Note) (hsplit : sdF.notes = ns1 ++ n :: ns2) (hwf : Syn.AllWF sdF.notes)
    (hviol : Syn.Violated (Syn.Present vals) n.code n.idx)
    (hothers : ∀ x ∈ ns1 ++ ns2, Syn.Satisfied (Syn.Present vals) x.code x.idx)
    (k : Nat) (rest : List Nat) (hk : n.idx = k :: rest) (hkc : k ≤ sdF.children.length) :
    ∃ (c : ChildX) (p : Nat) (de : Option Str) (rsF : Envelope.RState) (tl : List Event),
      sdF.children[k - 1]? = some c ∧ childAddEle c = .addEle p none de ∧
      EnvQuiet d (bodyRs m rs2) (pre.map (·.1) ++ [bF.1]) rsF ∧
      FaultForm tl p none de [⟨noteCode n, synMsg bF.1.id n, none⟩] ∧
      OneFaultRun (validateRead ms ctx h (readOf isa gs (pre ++ bF :: post))) pre.length post.length
        { sid := bF.1.id, matched := true, node := some (m.file, bF.2), popped := [],
          events := .addSeg bF.1.id rsF.segCount none :: tl }
        (faultSeg bF.1.id rsF.segCount p none de [⟨noteCode n, synMsg bF.1.id n, none⟩]) := by
  have hn : n ∈ sdF.notes := by rw [hsplit]; simp
  obtain ⟨hnwf, hnk⟩ := hwf n hn
  obtain ⟨k', rest', hk', hroute⟩ := C03.fault_syntax_code vals n hnwf hnk hviol
  rw [hk] at hk'
  simp only [List.cons.injEq] at hk'
  obtain ⟨rfl, rfl⟩ := hk'
  have hk1 : 0 < k := by
    have := hnwf.2 k (by rw [hk]; simp)
    omega
  have hval : ∀ x ∈ ns1 ++ ns2, Syn.isSyntaxValid vals x = .valid := by
    intro x hx
    have hx' : x ∈ sdF.notes := by
      rw [hsplit]
      rcases List.mem_append.1 hx with h' | h'
      · exact List.mem_append_left _ h'
      · exact List.mem_append_right _ (List.mem_cons_of_mem _ h')
    exact (Syn.syntaxValid_iff vals x (hwf x hx').1 (hwf x hx').2).2 (hothers x hx)
  have hnf : SegNoteFault ctx m.v5010 d sdF bF.1 n (noteCode n) k :=
    ⟨hlen, hch, vals, ns1, ns2, hvals, hsplit, fun x hx => hval x (List.mem_append_left _ hx),
      fun x hx => hval x (List.mem_append_right _ hx), by simpa [C03.noteError, noteCode] using hroute, hk1, hkc⟩
  obtain ⟨c, p, de, hc, hadd, hF⟩ := segEvents_note_fault ctx m.v5010 d sdF bF.1 n (noteCode n) k hnf
  obtain ⟨rsF, tl, h1, h2, h3, _⟩ := doc_rejects_segment_fault_of_runOK ms ctx h d hd control m isa gs a g cip cgp isaDef gsDef
    vISA vGS rs1 rs2 rs3 henv pre post bF sdF (by rw [hemits]; exact runOK_of_generated ms m a g hmap hg1 hg2 hg3)
    hquiet hclean hse hpre hpost hst hFid hFbase hFplain hFdef p none de _ (by simp) hF
  exact ⟨c, p, de, rsF, tl, hc, hadd, h1, h2, h3⟩

/-! ### (3): structural faults -/

/-- **(3) composition of the run-level walker theorems with `validateDoc`.**  Every body segment conforms to the
    definition of its node; the walker run over the body is `RunErrAt … e`: every segment is answered with its node, the
    step on `bX` reports exactly `e` (a kind that comes with `add_seg`), every other step reports nothing.  Then: verdict
    false — through the error count alone, `valid` stays true —; the output of `bX` is
    `add_seg(id of the node the report is attached to, seg_count)`, `seg_error(code e)`, then the calls of the conforming
    segment; every other segment is matched and reports nothing; the error tree holds exactly the segment node
    `werrSeg … (code e)` under the set that was open. -/
theorem doc_rejects_structural_fault (ms : Maps) (ctx : Ctx) (h : Tokenizer.Header) (d : Delims)
    (hd : d = SegText.delimsOf h) (control m : MapX) (isa gs : Seg) (a g : Nat)
    (cip cgp : List Nat) (isaDef gsDef : SegDef) (vISA vGS : Envelope.SegView) (rs1 rs2 rs3 : Envelope.RState)
    (henv : EnvOk ms ctx h control m isa gs a g cip cgp isaDef gsDef vISA vGS rs1 rs2)
    (pre post : List (Seg × List Nat)) (bX : Seg × List Nat) (e : Walker.WErr) (hw : WithSeg e)
    (hrun : RunErrAt ms.consts m.root m.rootId (pinnedCnt ms) [a, g, 0] (emitsOf ms m d pre)
      (bX.2, segData ms m d bX.1) (emitsOf ms m d post) e)
    (hquiet : EnvQuiet d (bodyRs m rs2) ((pre ++ bX :: post).map (·.1)) rs3)
    (hclean : Envelope.cleanup rs3 = [])
    (hse : SeOk false ((pre ++ bX :: post).map (·.1.id)))
    (hpre : ∀ b ∈ pre, BodyOk ctx m d b) (hX : BodyOk ctx m d bX) (hpost : ∀ b ∈ post, BodyOk ctx m d b)
    (hst : stIn (pre.map (·.1.id)) = true) :
    ∃ (rsF : Envelope.RState) (tl : List Event),
      EnvQuiet d (bodyRs m rs2) (pre.map (·.1) ++ [bX.1]) rsF ∧ EleOnly tl ∧ Quiet tl ∧
      OneFaultRun (validateRead ms ctx h (readOf isa gs (pre ++ bX :: post))) pre.length post.length
        { sid := bX.1.id, matched := true, node := some (m.file, bX.2), popped := [],
          events := [.addSeg (werrSid m bX.1.id e) rsF.segCount none, .segError (werrCodeOf e) none] ++
            headEvent d bX.1 rsF :: tl }
        (werrSeg (werrSid m bX.1.id e) rsF.segCount (werrCodeOf e)) := by
  subst hd
  obtain ⟨hrunPre, hnode, herrs, _, hrunPost⟩ := hrun
  obtain ⟨hb1, hb2, hb3, sd, hdef, hadm⟩ := hX
  obtain ⟨evs, hev, hqu⟩ := segEvents_clean ctx m.v5010 (SegText.delimsOf h) sd bX.1 hadm
  have hele := segEvents_eleOnly ctx m.v5010 (SegText.delimsOf h) sd bX.1
  rw [hev] at hele
  obtain ⟨rsF, hq, hres, _⟩ := one_fault_body ms ctx h control m isa gs a g cip cgp isaDef gsDef vISA vGS rs1 rs2 rs3 henv
    pre post bX (some bX.2) [e] true evs hrunPre hnode herrs hrunPost hquiet hclean hse hpre hpost hst ⟨hb1, hb2⟩ hb3
    ⟨sd, hdef, hev⟩ (fun rsF => werrSeg (werrSid m bX.1.id e) rsF.segCount (werrCodeOf e))
    (fun rsF => werrSeg_errCount _ _ _)
    (fun rsF done x => werrSets (SegText.delimsOf h) (BRound.mk bX.1 rsF (some bX.2) [e] true evs)
      (done ++ [addChild x (werrSeg (werrSid m bX.1.id e) rsF.segCount (werrCodeOf e))]))
    (by
      intro rsF s done x hg hnf
      have hr : (BRound.mk bX.1 rsF (some bX.2) [e] true evs).WErrAt e := ⟨rfl, hw, rfl, hele, hqu⟩
      obtain ⟨s', hs', hg'⟩ := werr_round_run hg m (SegText.delimsOf h) _ e hr
      exact ⟨s', hs', hg', oneFault_werrSets _ _ _ _ (oneFault_of_noFault _ done x hnf)⟩)
  refine ⟨rsF, evs, hq, hele, hqu, ?_⟩
  have hout : (BRound.mk bX.1 rsF (some bX.2) [e] true evs).out m (SegText.delimsOf h)
      (curAfter ms m (SegText.delimsOf h) a g pre) =
      { sid := bX.1.id, matched := true, node := some (m.file, bX.2), popped := [],
        events := [.addSeg (werrSid m bX.1.id e) rsF.segCount none, .segError (werrCodeOf e) none] ++
          headEvent (SegText.delimsOf h) bX.1 rsF :: evs } := by
    simp [BRound.out, BRound.events, werrEvs, werrEvents_eq m _ _ e hw]
  rw [← hout]
  exact hres

/-- the segments of a body as the walker sees them, split at the faulty one -/
structure SplitAs (ms : Maps) (m : MapX) (d : Delims) (pre post : List (Seg × List Nat)) (bX : Seg × List Nat)
    (preE : List Emit) (x : Emit) (postE : List Emit) : Prop where
  pre : emitsOf ms m d pre = preE
  x : (bX.2, segData ms m d bX.1) = x
  post : emitsOf ms m d post = postE

/-- **(3a) a segment beyond `max_use`** (`C03.max_use_exceeded_reported`): code 5, at the `(max_use + 1)`-th instance, attached to
    a node with that segment's own id -/
theorem doc_rejects_max_use (ms : Maps) (ctx : Ctx) (h : Tokenizer.Header) (d : Delims)
    (hd : d = SegText.delimsOf h) (control m : MapX) (isa gs : Seg) (a g : Nat)
    (cip cgp : List Nat) (isaDef gsDef : SegDef) (vISA vGS : Envelope.SegView) (rs1 rs2 rs3 : Envelope.RState)
    (henv : EnvOk ms ctx h control m isa gs a g cip cgp isaDef gsDef vISA vGS rs1 rs2)
    {isaSeg : Node} {isaRest : List Node} {gsSeg : Node} {gsRest : List Node}
    (hmap : GroupAt ms m a g isaSeg isaRest gsSeg gsRest) (ip : List Nat)
    {preE : List Emit} {x : Emit} {postE out2 out3 : List Emit}
    (hx1 : XList ms.consts (Walker.ErrKind.segMaxCount, ip) [a, g] 1 gsRest preE x postE)
    (hg2 : GenList ms.consts [a] (g + 1) ((isaSeg :: isaRest).drop (g + 1)) out2)
    (hg3 : GenList ms.consts [] (a + 1) (m.root.drop (a + 1)) out3)
    (pre post : List (Seg × List Nat)) (bX : Seg × List Nat)
    (hsplit : SplitAs ms m d pre post bX preE x (postE ++ out2 ++ out3))
    (hquiet : EnvQuiet d (bodyRs m rs2) ((pre ++ bX :: post).map (·.1)) rs3)
    (hclean : Envelope.cleanup rs3 = [])
    (hse : SeOk false ((pre ++ bX :: post).map (·.1.id)))
    (hpre : ∀ b ∈ pre, BodyOk ctx m d b) (hX : BodyOk ctx m d bX) (hpost : ∀ b ∈ post, BodyOk ctx m d b)
    (hst : stIn (pre.map (·.1.id)) = true) :
    bX.2 = ip ∧ ∃ (rsF : Envelope.RState) (tl : List Event),
      EnvQuiet d (bodyRs m rs2) (pre.map (·.1) ++ [bX.1]) rsF ∧ EleOnly tl ∧ Quiet tl ∧
      OneFaultRun (validateRead ms ctx h (readOf isa gs (pre ++ bX :: post))) pre.length post.length
        { sid := bX.1.id, matched := true, node := some (m.file, bX.2), popped := [],
          events := [.addSeg bX.1.id rsF.segCount none, .segError ['5'] none] ++ headEvent d bX.1 rsF :: tl }
        (werrSeg bX.1.id rsF.segCount ['5']) := by
  obtain ⟨isaPos, isaU, isaRep, isaW, hroot⟩ := hmap.root
  obtain ⟨gsPos, gsU, gsRep, gsW, hgs⟩ := hmap.gsLoop
  obtain ⟨hxip, hrun⟩ := C03.max_use_exceeded_reported ms.consts m.root m.rootId ip hmap.wf hmap.un hroot hmap.hisaSeg hgs
    hmap.hgsSeg hmap.opt0 hmap.opt1 hx1 hg2 hg3
  rw [hmap.isaComp, hmap.gsComp, ← hsplit.pre, ← hsplit.x, ← hsplit.post] at hrun
  rw [← hsplit.x] at hxip
  exact ⟨hxip, doc_rejects_structural_fault ms ctx h d hd control m isa gs a g cip cgp isaDef gsDef vISA vGS rs1 rs2 rs3 henv
    pre post bX _ (Or.inl rfl) hrun hquiet hclean hse hpre hX hpost hst⟩

/-- **(3b) a loop beyond `repeat`** (`C03.loop_repeat_reported`, with its extra map condition `sfList`): code 4, at the
    first segment of the surplus instance, attached to a node with that segment's id -/
theorem doc_rejects_loop_repeat (ms : Maps) (ctx : Ctx) (h : Tokenizer.Header) (d : Delims)
    (hd : d = SegText.delimsOf h) (control m : MapX) (isa gs : Seg) (a g : Nat)
    (cip cgp : List Nat) (isaDef gsDef : SegDef) (vISA vGS : Envelope.SegView) (rs1 rs2 rs3 : Envelope.RState)
    (henv : EnvOk ms ctx h control m isa gs a g cip cgp isaDef gsDef vISA vGS rs1 rs2)
    {isaSeg : Node} {isaRest : List Node} {gsSeg : Node} {gsRest : List Node}
    (hmap : GroupAt ms m a g isaSeg isaRest gsSeg gsRest) (hsf : sfList ms.consts m.root = true) (lp : List Nat)
    {preE : List Emit} {x : Emit} {postE out2 out3 : List Emit}
    (hx1 : XList ms.consts (Walker.ErrKind.loopMaxCount, lp) [a, g] 1 gsRest preE x postE)
    (hg2 : GenList ms.consts [a] (g + 1) ((isaSeg :: isaRest).drop (g + 1)) out2)
    (hg3 : GenList ms.consts [] (a + 1) (m.root.drop (a + 1)) out3)
    (pre post : List (Seg × List Nat)) (bX : Seg × List Nat)
    (hsplit : SplitAs ms m d pre post bX preE x (postE ++ out2 ++ out3))
    (hquiet : EnvQuiet d (bodyRs m rs2) ((pre ++ bX :: post).map (·.1)) rs3)
    (hclean : Envelope.cleanup rs3 = [])
    (hse : SeOk false ((pre ++ bX :: post).map (·.1.id)))
    (hpre : ∀ b ∈ pre, BodyOk ctx m d b) (hX : BodyOk ctx m d bX) (hpost : ∀ b ∈ post, BodyOk ctx m d b)
    (hst : stIn (pre.map (·.1.id)) = true) :
    bX.2 = lp ++ [0] ∧ ∃ (rsF : Envelope.RState) (tl : List Event),
      EnvQuiet d (bodyRs m rs2) (pre.map (·.1) ++ [bX.1]) rsF ∧ EleOnly tl ∧ Quiet tl ∧
      OneFaultRun (validateRead ms ctx h (readOf isa gs (pre ++ bX :: post))) pre.length post.length
        { sid := bX.1.id, matched := true, node := some (m.file, bX.2), popped := [],
          events := [.addSeg bX.1.id rsF.segCount none, .segError ['4'] none] ++ headEvent d bX.1 rsF :: tl }
        (werrSeg bX.1.id rsF.segCount ['4']) := by
  obtain ⟨isaPos, isaU, isaRep, isaW, hroot⟩ := hmap.root
  obtain ⟨gsPos, gsU, gsRep, gsW, hgs⟩ := hmap.gsLoop
  obtain ⟨hxip, hrun⟩ := C03.loop_repeat_reported ms.consts m.root m.rootId lp hmap.wf hmap.un hsf hroot hmap.hisaSeg hgs
    hmap.hgsSeg hmap.opt0 hmap.opt1 hx1 hg2 hg3
  rw [hmap.isaComp, hmap.gsComp, ← hsplit.pre, ← hsplit.x, ← hsplit.post] at hrun
  rw [← hsplit.x] at hxip
  exact ⟨hxip, doc_rejects_structural_fault ms ctx h d hd control m isa gs a g cip cgp isaDef gsDef vISA vGS rs1 rs2 rs3 henv
    pre post bX _ (Or.inr (Or.inl rfl)) hrun hquiet hclean hse hpre hX hpost hst⟩

/-- **(3c) a required segment left out** (`C03.mandatory_missing_reported`, with the trigger points and excluded corners
    it names): code 3, reported on the first segment after the hole, attached to a node with the id of the MISSING
    segment (`sidAt m ip`, read off the definition of the missing node) and the seg_count of the reporting segment -/
theorem doc_rejects_mandatory_missing (ms : Maps) (ctx : Ctx) (h : Tokenizer.Header) (d : Delims)
    (hd : d = SegText.delimsOf h) (control m : MapX) (isa gs : Seg) (a g : Nat)
    (cip cgp : List Nat) (isaDef gsDef : SegDef) (vISA vGS : Envelope.SegView) (rs1 rs2 rs3 : Envelope.RState)
    (henv : EnvOk ms ctx h control m isa gs a g cip cgp isaDef gsDef vISA vGS rs1 rs2)
    {isaSeg : Node} {isaRest : List Node} {gsSeg : Node} {gsRest : List Node}
    (hmap : GroupAt ms m a g isaSeg isaRest gsSeg gsRest) (ip : List Nat)
    {preE : List Emit} {x : Emit} {postE out2 out3 : List Emit}
    (hx1 : WalkerGenW.HList ms.consts (Walker.ErrKind.mandatoryMissing, ip) [a, g] 1 gsRest preE x postE)
    (hg2 : GenList ms.consts [a] (g + 1) ((isaSeg :: isaRest).drop (g + 1)) out2)
    (hg3 : GenList ms.consts [] (a + 1) (m.root.drop (a + 1)) out3)
    (pre post : List (Seg × List Nat)) (bX : Seg × List Nat)
    (hsplit : SplitAs ms m d pre post bX preE x (postE ++ out2 ++ out3))
    (hquiet : EnvQuiet d (bodyRs m rs2) ((pre ++ bX :: post).map (·.1)) rs3)
    (hclean : Envelope.cleanup rs3 = [])
    (hse : SeOk false ((pre ++ bX :: post).map (·.1.id)))
    (hpre : ∀ b ∈ pre, BodyOk ctx m d b) (hX : BodyOk ctx m d bX) (hpost : ∀ b ∈ post, BodyOk ctx m d b)
    (hst : stIn (pre.map (·.1.id)) = true) :
    ∃ (rsF : Envelope.RState) (tl : List Event),
      EnvQuiet d (bodyRs m rs2) (pre.map (·.1) ++ [bX.1]) rsF ∧ EleOnly tl ∧ Quiet tl ∧
      OneFaultRun (validateRead ms ctx h (readOf isa gs (pre ++ bX :: post))) pre.length post.length
        { sid := bX.1.id, matched := true, node := some (m.file, bX.2), popped := [],
          events := [.addSeg (sidAt m ip) rsF.segCount none, .segError ['3'] none] ++ headEvent d bX.1 rsF :: tl }
        (werrSeg (sidAt m ip) rsF.segCount ['3']) := by
  obtain ⟨isaPos, isaU, isaRep, isaW, hroot⟩ := hmap.root
  obtain ⟨gsPos, gsU, gsRep, gsW, hgs⟩ := hmap.gsLoop
  have hrun := C03.mandatory_missing_reported ms.consts m.root m.rootId ip hmap.wf hmap.un hroot hmap.hisaSeg hgs
    hmap.hgsSeg hmap.opt0 hmap.opt1 hx1 hg2 hg3
  rw [hmap.isaComp, hmap.gsComp, ← hsplit.pre, ← hsplit.x, ← hsplit.post] at hrun
  exact doc_rejects_structural_fault ms ctx h d hd control m isa gs a g cip cgp isaDef gsDef vISA vGS rs1 rs2 rs3 henv
    pre post bX _ (Or.inr (Or.inr (Or.inl rfl))) hrun hquiet hclean hse hpre hX hpost hst

/-- **(3d) unknown segment** (`C03.unknown_segment_not_found` / `_isolated`).  No segment node of the map carries the id
    of `bU`; the document WITHOUT it is matched as a conformant one (`RunOK`).  The glue as it is: the walker returns no
    node, so `x12n_document` keeps the previous node (`node := …curAfter…`), runs no `is_valid`, does not touch `valid`
    and does not pop the reader's errors (`matched := false`, `popped := []`); the only calls are the walker's
    `add_seg(id, seg_count); seg_error('1')`.  Inside a set the report lands in the tree and the verdict is false through
    the error count; the neighbours are matched exactly as without the segment. -/
theorem doc_rejects_unknown_segment (ms : Maps) (ctx : Ctx) (h : Tokenizer.Header) (d : Delims)
    (hd : d = SegText.delimsOf h) (control m : MapX) (isa gs : Seg) (a g : Nat)
    (cip cgp : List Nat) (isaDef gsDef : SegDef) (vISA vGS : Envelope.SegView) (rs1 rs2 rs3 : Envelope.RState)
    (henv : EnvOk ms ctx h control m isa gs a g cip cgp isaDef gsDef vISA vGS rs1 rs2)
    (pre post : List (Seg × List Nat)) (bU : Seg × List Nat)
    (hrun : RunOK ms.consts m.root m.rootId (pinnedCnt ms) [a, g, 0] (emitsOf ms m d (pre ++ post)))
    (hno : Walker.NoSegWithId m.root (segData ms m d bU.1).sid)
    (hcur : ∃ n, Walker.nodeAt m.root (curAfter ms m d a g pre) = some n)
    (hquiet : EnvQuiet d (bodyRs m rs2) ((pre ++ bU :: post).map (·.1)) rs3)
    (hclean : Envelope.cleanup rs3 = [])
    (hse : SeOk false ((pre ++ bU :: post).map (·.1.id)))
    (hpre : ∀ b ∈ pre, BodyOk ctx m d b) (hpost : ∀ b ∈ post, BodyOk ctx m d b)
    (hst : stIn (pre.map (·.1.id)) = true)
    (hUid : bU.1.id ≠ Envelope.idISA ∧ bU.1.id ≠ Envelope.idGS) (hUbase : baseErrs bU.1 = []) :
    ∃ rsF : Envelope.RState,
      EnvQuiet d (bodyRs m rs2) (pre.map (·.1) ++ [bU.1]) rsF ∧
      OneFaultRun (validateRead ms ctx h (readOf isa gs (pre ++ bU :: post))) pre.length post.length
        { sid := bU.1.id, matched := false, node := some (m.file, curAfter ms m d a g pre), popped := [],
          events := [.addSeg bU.1.id rsF.segCount none, .segError ['1'] none] }
        (werrSeg bU.1.id rsF.segCount ['1']) := by
  subst hd
  obtain ⟨nd, hnd⟩ := hcur
  rw [emitsOf_append, runOK_append] at hrun
  obtain ⟨hrunPre, hrunPost⟩ := hrun
  obtain ⟨u1, _, _, u4, u5⟩ := C03.unknown_segment_not_found ms.consts m.root m.rootId
    (cntAfter ms m (SegText.delimsOf h) a g pre) (curAfter ms m (SegText.delimsOf h) a g pre)
    (segData ms m (SegText.delimsOf h) bU.1) nd hno hnd
  have hw : WithSeg (Walker.ErrKind.notFound, curAfter ms m (SegText.delimsOf h) a g pre) := Or.inr (Or.inr (Or.inr rfl))
  obtain ⟨rsF, hq, hres, _⟩ := one_fault_body ms ctx h control m isa gs a g cip cgp isaDef gsDef vISA vGS rs1 rs2 rs3 henv
    pre post bU none [(Walker.ErrKind.notFound, curAfter ms m (SegText.delimsOf h) a g pre)] true [] hrunPre u1 u5
    (by
      show RunOK _ _ _ (Walker.walk _ _ _ _ _ _).st.cnt _ _
      rw [u4]; exact hrunPost)
    hquiet hclean hse hpre hpost hst hUid hUbase ⟨rfl, rfl⟩
    (fun rsF => werrSeg bU.1.id rsF.segCount ['1']) (fun rsF => werrSeg_errCount _ _ _)
    (fun rsF done x => werrSets (SegText.delimsOf h)
      (BRound.mk bU.1 rsF none [(Walker.ErrKind.notFound, curAfter ms m (SegText.delimsOf h) a g pre)] true [])
      (done ++ [addChild x (werrSeg (werrSid m bU.1.id (Walker.ErrKind.notFound, curAfter ms m (SegText.delimsOf h) a g pre))
        rsF.segCount (werrCodeOf (Walker.ErrKind.notFound, curAfter ms m (SegText.delimsOf h) a g pre)))]))
    (by
      intro rsF s done x hg hnf
      have hr : (BRound.mk bU.1 rsF none [(Walker.ErrKind.notFound, curAfter ms m (SegText.delimsOf h) a g pre)] true
          []).WErrAt (Walker.ErrKind.notFound, curAfter ms m (SegText.delimsOf h) a g pre) :=
        ⟨rfl, hw, rfl, EleOnly.nil, Quiet.nil⟩
      obtain ⟨s', hs', hg'⟩ := werr_round_run hg m (SegText.delimsOf h) _ _ hr
      exact ⟨s', hs', hg', oneFault_werrSets _ _ _ _ (oneFault_of_noFault _ done x hnf)⟩)
  refine ⟨rsF, hq, ?_⟩
  have hout : (BRound.mk bU.1 rsF none [(Walker.ErrKind.notFound, curAfter ms m (SegText.delimsOf h) a g pre)] true
      []).out m (SegText.delimsOf h) (curAfter ms m (SegText.delimsOf h) a g pre) =
      { sid := bU.1.id, matched := false, node := some (m.file, curAfter ms m (SegText.delimsOf h) a g pre), popped := [],
        events := [.addSeg bU.1.id rsF.segCount none, .segError ['1'] none] } := by
    simp [BRound.out, BRound.events, werrEvs, werrEvents_eq m _ _ _ hw, werrSid, werrCodeOf]
  rw [← hout]
  exact hres

/-- **(3d') the same unknown segment while NO set is open** (between GS and the first ST; finding D27).  The walker's
    `add_seg; seg_error('1')` are the same calls, but `seg_error` finds no set node to link the segment node to and its
    bare `except` swallows the report (ghost counter `lost = 1`); `valid` was never cleared; the tree counts no error:
    the verdict is TRUE.  (Why (3d) asks for an ST before the segment.) -/
theorem doc_unknown_segment_outside_set_accepted (ms : Maps) (ctx : Ctx) (h : Tokenizer.Header) (d : Delims)
    (hd : d = SegText.delimsOf h) (control m : MapX) (isa gs : Seg) (a g : Nat)
    (cip cgp : List Nat) (isaDef gsDef : SegDef) (vISA vGS : Envelope.SegView) (rs1 rs2 rs3 : Envelope.RState)
    (henv : EnvOk ms ctx h control m isa gs a g cip cgp isaDef gsDef vISA vGS rs1 rs2)
    (pre post : List (Seg × List Nat)) (bU : Seg × List Nat)
    (hrun : RunOK ms.consts m.root m.rootId (pinnedCnt ms) [a, g, 0] (emitsOf ms m d (pre ++ post)))
    (hno : Walker.NoSegWithId m.root (segData ms m d bU.1).sid)
    (hcur : ∃ n, Walker.nodeAt m.root (curAfter ms m d a g pre) = some n)
    (hquiet : EnvQuiet d (bodyRs m rs2) ((pre ++ bU :: post).map (·.1)) rs3)
    (hclean : Envelope.cleanup rs3 = [])
    (hse : SeOk false ((pre ++ bU :: post).map (·.1.id)))
    (hpre : ∀ b ∈ pre, BodyOk ctx m d b) (hpost : ∀ b ∈ post, BodyOk ctx m d b)
    (hst : stIn (pre.map (·.1.id)) = false)
    (hUid : bU.1.id ≠ Envelope.idISA ∧ bU.1.id ≠ Envelope.idGS ∧ bU.1.id ≠ Envelope.idST) (hUbase : baseErrs bU.1 = []) :
    (validateRead ms ctx h (readOf isa gs (pre ++ bU :: post))).outcome = .verdict true ∧
    (validateRead ms ctx h (readOf isa gs (pre ++ bU :: post))).final.lost = 1 ∧
    ErrTree.NoCountedError (validateRead ms ctx h (readOf isa gs (pre ++ bU :: post))).final.tree ∧
    ∃ (rsF : Envelope.RState) (opre opost : List SegOut),
      (validateRead ms ctx h (readOf isa gs (pre ++ bU :: post))).segs.drop 2 =
        opre ++ { sid := bU.1.id, matched := false, node := some (m.file, curAfter ms m d a g pre), popped := [],
                  events := [.addSeg bU.1.id rsF.segCount none, .segError ['1'] none] } :: opost ∧
      opre.length = pre.length ∧ opost.length = post.length ∧ ∀ o ∈ opre ++ opost, o.matched = true ∧ Quiet o.events := by
  subst hd
  obtain ⟨nd, hnd⟩ := hcur
  rw [emitsOf_append, runOK_append] at hrun
  obtain ⟨hrunPre, hrunPost⟩ := hrun
  obtain ⟨u1, _, _, u4, u5⟩ := C03.unknown_segment_not_found ms.consts m.root m.rootId
    (cntAfter ms m (SegText.delimsOf h) a g pre) (curAfter ms m (SegText.delimsOf h) a g pre)
    (segData ms m (SegText.delimsOf h) bU.1) nd hno hnd
  have hw : WithSeg (Walker.ErrKind.notFound, curAfter ms m (SegText.delimsOf h) a g pre) := Or.inr (Or.inr (Or.inr rfl))
  exact unknown_outside_set_body ms ctx h control m isa gs a g cip cgp isaDef gsDef vISA vGS rs1 rs2 rs3 henv pre post bU
    (Walker.ErrKind.notFound, curAfter ms m (SegText.delimsOf h) a g pre) hw hrunPre u1 u5
    (by
      show RunOK _ _ _ (Walker.walk _ _ _ _ _ _).st.cnt _ _
      rw [u4]; exact hrunPost)
    hquiet hclean hse hpre hpost hst hUid hUbase

/-! ### from the text -/

/-- everything above is about `validateRead` on what the reader yields; for a text on which the reader yields exactly
    that, `validateDoc` IS that run -/
theorem validateDoc_of_read (ms : Maps) (ctx : Ctx) (text : List Char) (h : Tokenizer.Header) (rr : SegText.ReadResult)
    (hread : SegText.readAll { rest := text, sizes := [] } = .ok h rr) :
    validateDoc ms ctx text = validateRead ms ctx h rr := by
  unfold validateDoc
  rw [hread]

end Pyx12Verif.Doc
