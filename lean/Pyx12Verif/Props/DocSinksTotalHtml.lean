/-
WHEN DOES THE HTML SINK OF `x12n_document` COMPLETE, and what does it write then?  (closes the open `docHtml_total_full` of
Props/DocSinks.lean — in corrected form: the statement as written there is FALSE, Props/DocSinksTotalHtmlExample.lean
`docHtml_total_full_false`: `SinkMapsOK` says nothing about a control map whose `/ISA_LOOP/ISA` node has no definition.)

(a) completion — for every text whose read succeeds and whose validation ends with a verdict:
  docHtml_total_iff        the writes exist  <=>  every reader segment has fewer than 100 elements  AND  the node of every
                           round has a view in `Maps` (a definition and loop names; a MODEL-ONLY side condition: `Maps` is a
                           consistent translation).  No hypothesis on the maps.  Nothing else stops the sink:
                             1. the replay of the `err_handler` calls (`htmlLoop` re-runs `ErrTree.run` round by round from
                                `ErrIter.RState.init`) meets, round by round, the state and the event list `runSegs` had — it
                                raises nowhere validation did not (Proofs/DocHtmlTotal.lean `htmlLoop_of_runSegs`);
                             2. node views: the second conjunct (discharged from `SinkMapsOK` + a condition on the control
                                maps by `validateRead_views`, Proofs/DocSinksViews.lean — not imported here);
                             3. `gen_seg` walks a segment with < 100 elements to the end: the reader never yields a
                                composite without sub-elements (C01/C07 `reader_segments_nonEmpty`).
  docHtml_total            with the views as hypothesis `hviews`: the writes exist <=> every reader segment has < 100 elements
                           (`'%02i' % 100` is no reference designator: `gen_seg` raises TypeError)
  docHtml_total_of_viewable  the body of `docHtml_total_full` for every `ms` with `NodesViewable ms`
  docHtml_fails_iff        … and the sink fails exactly when some reader segment has 100 or more elements
(b) docHtml_total_wf       the output that exists, ONE decomposition `ws = Html.report date delims pairs tail`:
                           first write = header, last write = footer; `pairs` are the reader segments, in order, nothing
                           lost; the recognised segment lines are one per reader segment, numbered 1, 2, …, decoding (strip
                           markup, decode entities) to the segment as read; every code printed is a literal; every write is
                           header / footer / information line of MAP text / message line / segment line; the markup of a
                           message line is the fixed template `<span class="error"></span><br />`, the markup of a segment
                           line is `<span class="seg">`, k copies of the empty span `<span class="ele_err"></span>` (k a
                           function of marks and shape only), `</span><br />` — balanced and properly nested by inspection,
                           and no character of the input text is part of it.
                           What could NOT be stated from finished lemmas: a general "tags balanced" predicate (there is
                           none in Proofs/HtmlOut.lean / Props/C19.lean; the explicit tag strings are given instead); the
                           markup of information lines and of the header depends on map text / clock text (written
                           unescaped by the code): `infoLine_markup` gives the fixed template under "no `<` in the text".
-/
import Pyx12Verif.Props.DocSinks
import Pyx12Verif.Proofs.DocHtmlTotal
import Pyx12Verif.Proofs.DocHtmlTotalWf

namespace Pyx12Verif.Doc
open Pyx12Verif

/-! ### (a) completion -/

/-- **the HTML sink completes iff** (verdict run): every reader segment has < 100 elements and every round's node has a
    view in `Maps`.  No hypothesis on the maps. -/
theorem docHtml_total_iff (ms : Maps) (ctx : Ctx) (sc : SinkCtx) (text : List Char) (hd : Tokenizer.Header)
    (rr : SegText.ReadResult) (hread : SegText.readAll { rest := text, sizes := [] } = .ok hd rr)
    (hv : ∃ b, (validateDoc ms ctx text).outcome = .verdict b) :
    (∃ ws, docHtmlWrites ms ctx sc text = some ws) ↔
      (∀ p ∈ rr.segs, p.2.elems.length < 100) ∧ ∀ o ∈ (validateDoc ms ctx text).segs, ∃ v, nodeView ms o.node = some v := by
  have hdoc : validateDoc ms ctx text = validateRead ms ctx hd rr := by simp only [validateDoc, hread]
  obtain ⟨b, hb⟩ := hv
  rw [hdoc] at hb ⊢
  exact docHtmlWrites_iff ms ctx sc text hd rr hread b hb

/-- **`docHtml_total`** — the corrected `docHtml_total_full`: `hviews` (every node of the run has a view; from `SinkMapsOK`
    and the control-map condition by `validateRead_views`) replaces `SinkMapsOK ms → MapsOK2 ms →`. -/
theorem docHtml_total (ms : Maps) (ctx : Ctx) (sc : SinkCtx) (text : List Char) (hd : Tokenizer.Header)
    (rr : SegText.ReadResult) (hread : SegText.readAll { rest := text, sizes := [] } = .ok hd rr)
    (hv : ∃ b, (validateDoc ms ctx text).outcome = .verdict b)
    (hviews : ∀ o ∈ (validateDoc ms ctx text).segs, ∃ v, nodeView ms o.node = some v) :
    (∃ ws, docHtmlWrites ms ctx sc text = some ws) ↔ ∀ p ∈ rr.segs, p.2.elems.length < 100 := by
  rw [docHtml_total_iff ms ctx sc text hd rr hread hv]
  exact ⟨fun h => h.1, fun h => ⟨h, hviews⟩⟩

/-- the same with `hviews` on `validateRead` (the shape of `validateRead_views`) -/
theorem docHtml_total_read (ms : Maps) (ctx : Ctx) (sc : SinkCtx) (text : List Char) (hd : Tokenizer.Header)
    (rr : SegText.ReadResult) (hread : SegText.readAll { rest := text, sizes := [] } = .ok hd rr) (b : Bool)
    (hv : (validateRead ms ctx hd rr).outcome = .verdict b)
    (hviews : ∀ o ∈ (validateRead ms ctx hd rr).segs, ∃ v, nodeView ms o.node = some v) :
    (∃ ws, docHtmlWrites ms ctx sc text = some ws) ↔ ∀ p ∈ rr.segs, p.2.elems.length < 100 := by
  rw [docHtmlWrites_iff ms ctx sc text hd rr hread b hv]
  exact ⟨fun h => h.1, fun h => ⟨h, hviews⟩⟩

/-- every node a verdict run reports has a view (what `validateRead_views` proves from `SinkMapsOK` + control-map condition) -/
def NodesViewable (ms : Maps) : Prop :=
  ∀ (ctx : Ctx) (h : Tokenizer.Header) (rr : SegText.ReadResult) (b : Bool),
    (validateRead ms ctx h rr).outcome = .verdict b → ∀ o ∈ (validateRead ms ctx h rr).segs, ∃ v, nodeView ms o.node = some v

/-- the body of `docHtml_total_full` for every `ms` whose reported nodes are viewable -/
theorem docHtml_total_of_viewable (ms : Maps) (hms : NodesViewable ms) (ctx : Ctx) (sc : SinkCtx) (text : List Char)
    (hd : Tokenizer.Header) (rr : SegText.ReadResult)
    (hread : SegText.readAll { rest := text, sizes := [] } = .ok hd rr)
    (hv : ∃ b, (validateDoc ms ctx text).outcome = .verdict b) :
    (∃ ws, docHtmlWrites ms ctx sc text = some ws) ↔ ∀ p ∈ rr.segs, p.2.elems.length < 100 := by
  have hdoc : validateDoc ms ctx text = validateRead ms ctx hd rr := by simp only [validateDoc, hread]
  obtain ⟨b, hb⟩ := hv
  rw [hdoc] at hb
  exact docHtml_total_read ms ctx sc text hd rr hread b hb (hms ctx hd rr b hb)

/-- the failure, said positively: under `hviews` the HTML sink of a verdict run raises exactly when some reader segment
    has 100 or more elements -/
theorem docHtml_fails_iff (ms : Maps) (ctx : Ctx) (sc : SinkCtx) (text : List Char) (hd : Tokenizer.Header)
    (rr : SegText.ReadResult) (hread : SegText.readAll { rest := text, sizes := [] } = .ok hd rr)
    (hv : ∃ b, (validateDoc ms ctx text).outcome = .verdict b)
    (hviews : ∀ o ∈ (validateDoc ms ctx text).segs, ∃ v, nodeView ms o.node = some v) :
    docHtmlWrites ms ctx sc text = none ↔ ∃ p ∈ rr.segs, 100 ≤ p.2.elems.length := by
  have key := docHtml_total ms ctx sc text hd rr hread hv hviews
  constructor
  · intro hn
    apply Classical.byContradiction
    intro hne
    have : ∀ p ∈ rr.segs, p.2.elems.length < 100 := by
      intro p hp
      apply Classical.byContradiction
      intro hlt
      exact hne ⟨p, hp, by omega⟩
    obtain ⟨ws, hws⟩ := key.2 this
    rw [hn] at hws
    cases hws
  · rintro ⟨p, hp, hge⟩
    cases hw : docHtmlWrites ms ctx sc text with
    | none => rfl
    | some ws =>
      have := key.1 ⟨ws, hw⟩ p hp
      omega

/-! ### (b) the output that exists -/

/-- **well-formedness of the report.**  See the file header. -/
theorem docHtml_total_wf (ms : Maps) (ctx : Ctx) (sc : SinkCtx) (text : List Char) (ws : List (List Char))
    (h : docHtmlWrites ms ctx sc text = some ws) :
    ∃ hd rr pairs tail, SegText.readAll { rest := text, sizes := [] } = .ok hd rr ∧
      ws = Html.report sc.date (htmlDelims (SegText.delimsOf hd)) pairs tail ∧
      -- frame
      ws.head? = some (Html.headerText sc.date) ∧ ws.getLast? = some Html.footerText ∧
      -- the segments handed to `gen_seg` are the reader's, in order, nothing lost
      pairs.map (fun sa => (sa.1.id, sa.1.elems.map Html.Elem.subs)) = rr.segs.map (fun p => (p.2.id, p.2.elems)) ∧
      -- exactly one recognised segment line per reader segment, numbered 1, 2, …, decoding to the segment as read
      (ws.filter Html.isSegWrite).map (fun w => Html.unescape (Html.stripTags w)) =
        pairs.mapIdx (fun i sa => Html.render (i + 1) sa.1 (htmlDelims (SegText.delimsOf hd))) ∧
      -- every error code printed is a literal
      (∀ sa ∈ pairs, ∀ m ∈ sa.2.pre ++ sa.2.post, Html.plainCode m.code) ∧ (∀ m ∈ tail, Html.plainCode m.code) ∧
      -- every write classified; markup is template only
      ∀ w ∈ ws, w = Html.headerText sc.date ∨ w = Html.footerText ∨
        (∃ v lid, w = Html.infoLine (loopInfoText sc v lid)) ∨
        (∃ m : Html.Msg, w = Html.msgLine m ∧ Html.tags w = "<span class=\"error\"></span><br />".toList ∧
            Html.unescape (Html.stripTags w) = Html.shown m) ∨
        (∃ marks n s d k, w = Html.segLineM marks n s d ∧
          Html.tags w = Html.spanSegOpen ++ Html.shapeTags marks 1 (Html.shape s) ++ "</span><br />".toList ∧
          Html.tags w = Html.spanSegOpen ++ emptySpans k ++ "</span><br />".toList ∧
          Html.unescape (Html.stripTags w) = Html.render n s d) := by
  obtain ⟨hd, rr, pairs, tail, hread, _, hw, hsegs, hp, ht, hinfo⟩ := docHtmlWrites_facts ms ctx sc text ws h
  refine ⟨hd, rr, pairs, tail, hread, hw, ?_, ?_, ?_, ?_, ?_, ht, ?_⟩
  · rw [hw]; exact report_head _ _ _ _
  · rw [hw]; exact report_last _ _ _ _
  · have := htmlSegs_faithful _ _ hsegs
    simpa [List.map_map, Function.comp_def] using this
  · rw [hw, Html.every_segment_once_in_order]
  · intro sa hsa m hm
    rcases List.mem_append.1 hm with hm | hm
    · exact (hp sa hsa).1 m hm
    · exact (hp sa hsa).2 m hm
  · subst hw
    intro w hw
    have := report_classifiedU sc.date (fun i => ∃ v lid, i = loopInfoText sc v lid) _ pairs tail hinfo hp ht w hw
    rcases this with h | h | ⟨i, ⟨v, lid, rfl⟩, h⟩ | h | ⟨marks, n, s, d, h1, h2, h3⟩
    · exact Or.inl h
    · exact Or.inr (Or.inl h)
    · exact Or.inr (Or.inr (Or.inl ⟨v, lid, h⟩))
    · exact Or.inr (Or.inr (Or.inr (Or.inl h)))
    · obtain ⟨k, hk⟩ := shapeTags_spans marks (Html.shape s) 1
      exact Or.inr (Or.inr (Or.inr (Or.inr ⟨marks, n, s, d, k, h1, h2, by rw [h2, hk], h3⟩)))

/-- no character of a message text or of a segment becomes markup: in a message line and in a segment line every `<` and
    `>` belongs to the template (C19 `escape_no_markup`: what `escape` returns has neither) — said on the lines: the tag
    string of a message line does not depend on the message, that of a segment line only on marks and shape -/
theorem docHtml_markup_independent (m m' : Html.Msg) (hc : Html.plainCode m.code) (hc' : Html.plainCode m'.code)
    (marks : List (Nat × Option Nat)) (n n' : Nat) (s s' : Html.Seg) (d d' : Html.Delims) (hs : Html.shape s = Html.shape s') :
    Html.tags (Html.msgLine m) = Html.tags (Html.msgLine m') ∧
      Html.tags (Html.segLineM marks n s d) = Html.tags (Html.segLineM marks n' s' d') :=
  ⟨by rw [(Html.messages_escaped m hc).1, (Html.messages_escaped m' hc').1],
   Html.segment_line_markup_shape_only marks n n' s s' d d' hs⟩

end Pyx12Verif.Doc
