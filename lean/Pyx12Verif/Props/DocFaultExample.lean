/-
Non-vacuity for Props/DocFault.lean / Props/DocFaultSets.lean on the maps of Props/DocExample.lean (control map + one
transaction map `ISA_LOOP [ISA, GS_LOOP [GS, ST_LOOP [ST, REF (situational, max 2), SE], GE], IEA]`): for each theorem a
document that satisfies ALL its hypotheses (map facts and per-segment conformance by kernel evaluation, derivations by
hand), and next to it what the kernel computes for the same text with `validateDoc`, independently of the proof.
-/
import Pyx12Verif.Props.DocExample3
import Pyx12Verif.Props.DocFaultSets

namespace Pyx12Verif.Doc.Ex
open Pyx12Verif Pyx12Verif.Doc MapSkel WalkerGen

/-! ### the setting of `doc_accepts_generated`, once -/

theorem exEnv : EnvOk ms ctx hdr control m isa gs 0 1 [0, 0] [0, 1, 0] isaDef gsDef vISA vGS rs1 rs2 where
  ctl := rfl
  isaNode := rfl
  gsNode := rfl
  hisaDef := rfl
  isaAdm := segAdm_of_b _ _ _ _ _ (by decide +kernel)
  idx := by decide +kernel
  map := rfl
  gsM := rfl
  hgsDef := rfl
  gsAdm := segAdm_of_b _ _ _ _ _ (by decide +kernel)
  no278 := by decide +kernel
  isaId := by decide +kernel
  gsId := by decide +kernel
  bIsa := by decide +kernel
  bGs := by decide +kernel
  vIsa := by decide +kernel
  sIsa := by decide +kernel
  vGs := by decide +kernel
  sGs := by decide +kernel

theorem exGroup : GroupAt ms m 0 1 nISA [nGSLOOP, nIEA] nGS [nSTLOOP, nGE] where
  wf := by decide +kernel
  un := by decide +kernel
  root := ⟨_, _, _, _, rfl⟩
  hisaSeg := rfl
  isaComp := rfl
  gsLoop := ⟨_, _, _, _, rfl⟩
  hgsSeg := rfl
  gsComp := rfl
  opt0 := by intro j c hj; omega
  opt1 := by intro j c h1 h2; omega

/-! ### (1) one faulty element: REF01 `ABCD` is too long (AN 2..3) -/

def stP : Seg × List Nat := (seg "ST*837*0001", [0, 1, 1, 0])
def seP : Seg × List Nat := (seg "SE*3*0001", [0, 1, 1, 2])
def geP : Seg × List Nat := (seg "GE*1*1", [0, 1, 2])
def ieaP : Seg × List Nat := (seg "IEA*1*000000001", [0, 2])
/-- `REF*ABCD*1*X` -/
def refLong : Seg × List Nat := (⟨['R', 'E', 'F'], [[['A', 'B', 'C', 'D']], [['1']], [['X']]]⟩, [0, 1, 1, 1])

def faulty1 : List Char :=
  (isaText ++ "GS*HC*S*R*20200101*1200*1*X*004010X1~ST*837*0001~REF*ABCD*1*X~SE*3*0001~GE*1*1~IEA*1*000000001~").toList

/-- the reader turns the text into exactly these segments -/
example : SegText.readAll { rest := faulty1, sizes := [] } = .ok hdr (readOf isa gs ([stP] ++ refLong :: [seP, geP, ieaP])) := by
  decide +kernel

def rsEnd (body : List (Seg × List Nat)) : Envelope.RState := (envQuietB dlm (bodyRs m rs2) (body.map (·.1))).getD rs2

/-- the definition of REF01 -/
def ref01 : ElemX :=
  { d := { usage := .R, dataType := ElemValid.tyAN, minLen := 2, maxLen := 3, codes := [], extDeclared := false,
           hasRegex := false, typeList := [], seq := 1, parentComposite := false, parentRequired := false },
    defined := true, name := "128".toList, refdes := "REF01".toList, dataEle := some ['1'], ext := [], regex := [] }

/-- the reports `element_if.is_valid` makes for `ABCD` -/
def errsLong : List ErrTree.EleErr :=
  (elemReports ref01 (defWith ref01 (pickTl refLong.1.id 0 ref01 (stepDtype refLong.1.id 0 (gv dlm refLong.1 1) [] (.elem ref01))
    (stepTl [] (.elem ref01)))) (elemCtx ctx m.v5010 ref01 ['A', 'B', 'C', 'D']) (.simple ['A', 'B', 'C', 'D'])).map Report.toErr

/-- … exactly one, code 5, carrying the value -/
example : errsLong.map (fun e => (e.code, e.value)) = [(['5'], some ['A', 'B', 'C', 'D'])] := by decide +kernel

theorem refLong_fault : SegFault ctx m.v5010 dlm refDef refLong.1 0 1 none (some ['1']) errsLong := by
  refine ⟨by decide, ?_, [['A', 'B', 'C', 'D'], ['1'], ['X']], by decide +kernel, ?_⟩
  · show ChildrenBut ctx m.v5010 (Pipeline.sepOf dlm refLong.1.id) refLong.1.id (gv dlm refLong.1 1) 1 none (some ['1']) errsLong 0 0
      [] [] (.elem ref01 :: [an 2 .S 1 30 "127" "REF02", an 3 .S 1 30 "352" "REF03", undefinedEle 4])
      ([['A', 'B', 'C', 'D']] :: [[['1']], [['X']]])
    simp only [ChildrenBut]
    refine ⟨?_, childrenAdm_of_b _ _ _ _ _ _ _ _ _ (by decide +kernel)⟩
    exact childPresent_elem_fault ctx m.v5010 _ _ 0 _ _ ['A', 'B', 'C', 'D'] ref01 (fun _ => rfl) (by decide +kernel)
  · intro n hn
    simp only [refDef, List.mem_singleton] at hn
    subst hn
    decide +kernel

/-- **every hypothesis of `doc_rejects_element_fault` is satisfied by `faulty1`** -/
theorem faulty1_rejected : ∃ (rsF : Envelope.RState) (tl : List Event),
    EnvQuiet dlm (bodyRs m rs2) ([stP].map (·.1) ++ [refLong.1]) rsF ∧ FaultForm tl 1 none (some ['1']) errsLong ∧
    OneFaultRun (validateRead ms ctx hdr (readOf isa gs ([stP] ++ refLong :: [seP, geP, ieaP]))) 1 3
      { sid := refLong.1.id, matched := true, node := some (m.file, [0, 1, 1, 1]), popped := [],
        events := .addSeg refLong.1.id rsF.segCount none :: tl }
      (faultSeg refLong.1.id rsF.segCount 1 none (some ['1']) errsLong) :=
  doc_rejects_element_fault ms ctx hdr dlm rfl control m isa gs 0 1 [0, 0] [0, 1, 0] isaDef gsDef vISA vGS rs1 rs2
    (rsEnd ([stP] ++ refLong :: [seP, geP, ieaP])) exEnv exGroup deriv1 deriv2 .nil [stP] [seP, geP, ieaP] refLong refDef
    (by decide +kernel) (envQuiet_of_b _ _ _ _ (by decide +kernel)) (by decide +kernel) (seOk_of_b _ _ (by decide +kernel))
    (by
      have h : [stP].all (bodyOkB ctx m dlm) = true := by decide +kernel
      intro b hb; exact bodyOk_of_b ctx m dlm b (List.all_eq_true.1 h b hb))
    (by
      have h : [seP, geP, ieaP].all (bodyOkB ctx m dlm) = true := by decide +kernel
      intro b hb; exact bodyOk_of_b ctx m dlm b (List.all_eq_true.1 h b hb))
    (by decide +kernel) ⟨by decide, by decide⟩ (by decide +kernel) ⟨by decide, by decide, by decide, by decide⟩ rfl 0 1 none
    (some ['1']) errsLong (by decide +kernel) refLong_fault

/-- … and this is what the kernel computes for the text, independently: verdict false, one error, code 5 at REF01 with the
    value, the other segments matched as in the conformant run; the tree counts one error -/
example : (validateDoc ms ctx faulty1).outcome = .verdict false ∧
    ((validateDoc ms ctx faulty1).segs.map SegOut.valErrs) =
      [[], [], [], [⟨['5'], 1, none, some "ABCD".toList⟩], [], [], []] ∧
    (validateDoc ms ctx faulty1).segs.map (fun o => o.node.map (·.2)) =
      [some [0, 0], some [0, 1, 0], some [0, 1, 1, 0], some [0, 1, 1, 1], some [0, 1, 1, 2], some [0, 1, 2], some [0, 2]] ∧
    ErrTree.errorCount (validateDoc ms ctx faulty1).final.tree = 1 := by decide +kernel

end Pyx12Verif.Doc.Ex
