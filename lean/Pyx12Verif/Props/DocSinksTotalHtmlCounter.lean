/-
The statement `docHtml_total_full` of Props/DocSinks.lean is FALSE as written (the corrected form is `docHtml_total`,
Props/DocSinksTotalHtml.lean).

  docHtml_total_full_false   the control map has the skeleton node `/ISA_LOOP/ISA` but NO definition for it (`defs := []`, so
                             `SinkMapsOK` holds vacuously; `MapsOK2` speaks about loop paths only), the header declares the
                             element separator `A`: the first segment reads `IS`, the walker cannot place it, it is reported
                             with the initial node, validation ends with verdict `true` (nothing reaches the error tree),
                             the single segment has 17 elements — and the HTML sink has no view of the node: `none`.
                             (A degenerate `Maps`, not a defect of pyx12: a real control map always defines its ISA segment.)
Also here: the Boolean forms (`viewsB`, `allShort`) through which the kernel evaluates the hypotheses of `docHtml_total`.
-/
import Pyx12Verif.Props.DocSinksTotalHtml
import Pyx12Verif.Props.DocSinksExample

namespace Pyx12Verif.Doc.ExH
open Pyx12Verif Pyx12Verif.Doc Pyx12Verif.Doc.Ex Pyx12Verif.Doc.ExS

/-! ### `docHtml_total_full` is false -/

/-- the example control map without any segment definition -/
def ctlNoDefs : MapX := { mapS "x12.control.00401.xml" with defs := [] }
def msW : Maps := { msS with maps := [ctlNoDefs] }
/-- `Ex.isaText` with `A` as element separator -/
def textA : List Char :=
  "ISAA00A          A00A          AZZASENDER         AZZARECEIVER       A200101A1200AUA00401A000000001A0APA:~".toList

def allShort : SegText.ReaderOutcome → Bool
  | .ok _ rr => rr.segs.all (fun p => decide (p.2.elems.length < 100))
  | .error _ => false

def viewsB (ms : Maps) (r : DocResult) : Bool := r.segs.all (fun o => (nodeView ms o.node).isSome)

theorem views_of_b (ms : Maps) (r : DocResult) (h : viewsB ms r = true) : ∀ o ∈ r.segs, ∃ v, nodeView ms o.node = some v := by
  intro o ho
  have := List.all_eq_true.1 h o ho
  exact Option.isSome_iff_exists.1 this

theorem short_of_b (text : List Char) (hd : Tokenizer.Header) (rr : SegText.ReadResult)
    (hread : SegText.readAll { rest := text, sizes := [] } = .ok hd rr)
    (h : allShort (SegText.readAll { rest := text, sizes := [] }) = true) : ∀ p ∈ rr.segs, p.2.elems.length < 100 := by
  rw [hread] at h
  simp only [allShort, List.all_eq_true, decide_eq_true_eq] at h
  exact h

example : (validateDoc msW ctx textA).segs.map (fun o => (o.sid, o.matched, o.node.map (·.2))) =
    [("IS".toList, false, some [0, 0])] := by decide +kernel

/-- **`docHtml_total_full` (Props/DocSinks.lean) does not hold.** -/
theorem docHtml_total_full_false : ¬ docHtml_total_full := by
  intro h
  have hs : allShort (SegText.readAll { rest := textA, sizes := [] }) = true := by decide +kernel
  cases hread : SegText.readAll { rest := textA, sizes := [] } with
  | error e => rw [hread] at hs; cases hs
  | ok hd rr =>
    have hsink : SinkMapsOK msW := by
      intro m hm p hp
      simp only [msW, List.mem_singleton] at hm
      subst hm
      cases hp
    obtain ⟨ws, hws⟩ := (h msW ctx sc textA hd rr hsink (mapsOK2_of_b _ (by decide +kernel)) hread
      ⟨true, by decide +kernel⟩).2 (short_of_b textA hd rr hread hs)
    have hn : docHtmlWrites msW ctx sc textA = none := by decide +kernel
    rw [hn] at hws
    cases hws

/-- … and `docHtml_total_iff` says why: the second conjunct fails -/
example : viewsB msW (validateDoc msW ctx textA) = false := by decide +kernel

end Pyx12Verif.Doc.ExH
