/-
Non-vacuity for `doc_rejects_syntax_fault` (Props/DocFault.lean), continuing Props/DocFaultExample.lean.
-/
import Pyx12Verif.Props.DocFaultExample

namespace Pyx12Verif.Doc.Ex
open Pyx12Verif Pyx12Verif.Doc MapSkel WalkerGen

/-! ### (2) one violated syntax note: `REF*AB*1` — REF02 without REF03 breaks the paired note P0203 -/

/-- `REF*AB*1` -/
def refPair : Seg × List Nat := (⟨['R', 'E', 'F'], [[['A', 'B']], [['1']]]⟩, [0, 1, 1, 1])

def faulty2 : List Char :=
  (isaText ++ "GS*HC*S*R*20200101*1200*1*X*004010X1~ST*837*0001~REF*AB*1~SE*3*0001~GE*1*1~IEA*1*000000001~").toList

example : SegText.readAll { rest := faulty2, sizes := [] } = .ok hdr (readOf isa gs ([stP] ++ refPair :: [seP, geP, ieaP])) := by
  decide +kernel

/-- what the walker sees of `REF*AB*1` (no 03) -/
def eREF2 : Emit := ([0, 1, 1, 1], sdx 18 999 999 0)

theorem deriv1b : GenList K [0, 1] 1 [nSTLOOP, nGE] [eST, eREF2, eSE, eGE] :=
  .cons (o1 := [eST, eREF2, eSE]) (o2 := [eGE])
    (.counted rfl (.more (o1 := [eST, eREF2, eSE]) (o2 := []) (by decide) (by decide)
      (.loop (s := sdx 15 999 999 0) rfl (by decide +kernel)
        (.cons (o1 := [eREF2]) (o2 := [eSE]) (genChild_seg1 (by decide +kernel) (by decide) (by decide))
          (.cons (o1 := [eSE]) (o2 := []) (genChild_seg1 (by decide +kernel) (by decide) (by decide)) .nil)))
      (.stop (by decide))))
    (.cons (o1 := [eGE]) (o2 := []) (genChild_seg1 (by decide +kernel) (by decide) (by decide)) .nil)

/-- **every hypothesis of `doc_rejects_syntax_fault` is satisfied by `faulty2`**: one `ele_error`, code 2, at the child
    the note names first (REF02), no value -/
theorem faulty2_rejected : ∃ (c : ChildX) (p : Nat) (de : Option Str) (rsF : Envelope.RState) (tl : List Event),
    refDef.children[2 - 1]? = some c ∧ childAddEle c = .addEle p none de ∧
    EnvQuiet dlm (bodyRs m rs2) ([stP].map (·.1) ++ [refPair.1]) rsF ∧
    FaultForm tl p none de [⟨['2'], synMsg refPair.1.id ⟨'P', [2, 3]⟩, none⟩] ∧
    OneFaultRun (validateRead ms ctx hdr (readOf isa gs ([stP] ++ refPair :: [seP, geP, ieaP]))) 1 3
      { sid := refPair.1.id, matched := true, node := some (m.file, [0, 1, 1, 1]), popped := [],
        events := .addSeg refPair.1.id rsF.segCount none :: tl }
      (faultSeg refPair.1.id rsF.segCount p none de [⟨['2'], synMsg refPair.1.id ⟨'P', [2, 3]⟩, none⟩]) :=
  doc_rejects_syntax_fault ms ctx hdr dlm rfl control m isa gs 0 1 [0, 0] [0, 1, 0] isaDef gsDef vISA vGS rs1 rs2
    (rsEnd ([stP] ++ refPair :: [seP, geP, ieaP])) exEnv exGroup deriv1b deriv2 .nil [stP] [seP, geP, ieaP] refPair refDef
    (by decide +kernel) (envQuiet_of_b _ _ _ _ (by decide +kernel)) (by decide +kernel) (seOk_of_b _ _ (by decide +kernel))
    (by
      have h : [stP].all (bodyOkB ctx m dlm) = true := by decide +kernel
      intro b hb; exact bodyOk_of_b ctx m dlm b (List.all_eq_true.1 h b hb))
    (by
      have h : [seP, geP, ieaP].all (bodyOkB ctx m dlm) = true := by decide +kernel
      intro b hb; exact bodyOk_of_b ctx m dlm b (List.all_eq_true.1 h b hb))
    (by decide +kernel) ⟨by decide, by decide⟩ (by decide +kernel) ⟨by decide, by decide, by decide, by decide⟩ rfl
    (by decide) (childrenAdm_of_b _ _ _ _ _ _ _ _ _ (by decide +kernel))
    [['A', 'B'], ['1']] (by decide +kernel) ⟨'P', [2, 3]⟩ [] [] rfl refWF
    (C03.broken_P _ [2, 3] 2 3 (by simp) (by simp) ⟨by omega, ['1'], by decide, by decide⟩
      (by rintro ⟨_, v, hv, _⟩; simp at hv))
    (by intro x hx; cases hx) 2 [3] rfl (by decide)

example : (validateDoc ms ctx faulty2).outcome = .verdict false ∧
    ((validateDoc ms ctx faulty2).segs.map SegOut.valErrs) = [[], [], [], [⟨['2'], 2, none, none⟩], [], [], []] ∧
    ErrTree.errorCount (validateDoc ms ctx faulty2).final.tree = 1 := by decide +kernel

/-! ### the other segments report what they report in the conformant document -/

/-- `REF*AB*1*X`: the conformant counterpart of `REF*ABCD*1*X` -/
def refC : Seg × List Nat := (seg "REF*AB*1*X", [0, 1, 1, 1])

/-- **every hypothesis of `doc_fault_others_as_conformant` is satisfied by `faulty1` / `good`** -/
theorem faulty1_others :
    (validateRead ms ctx hdr (readOf isa gs ([stP] ++ refC :: [seP, geP, ieaP]))).outcome = .verdict true ∧
    Quiet (validateRead ms ctx hdr (readOf isa gs ([stP] ++ refC :: [seP, geP, ieaP]))).events ∧
    (validateRead ms ctx hdr (readOf isa gs ([stP] ++ refLong :: [seP, geP, ieaP]))).segs.length =
      (validateRead ms ctx hdr (readOf isa gs ([stP] ++ refC :: [seP, geP, ieaP]))).segs.length ∧
    ∀ j, j ≠ [stP].length + 2 →
      (validateRead ms ctx hdr (readOf isa gs ([stP] ++ refLong :: [seP, geP, ieaP]))).segs[j]? =
        (validateRead ms ctx hdr (readOf isa gs ([stP] ++ refC :: [seP, geP, ieaP]))).segs[j]? :=
  doc_fault_others_as_conformant ms ctx hdr dlm rfl control m isa gs 0 1 [0, 0] [0, 1, 0] isaDef gsDef vISA vGS rs1 rs2
    (rsEnd ([stP] ++ refLong :: [seP, geP, ieaP])) exEnv [stP] [seP, geP, ieaP] refLong refDef
    (runOK_of_b _ _ _ _ _ _ (by decide +kernel)) (envQuiet_of_b _ _ _ _ (by decide +kernel)) (by decide +kernel)
    (seOk_of_b _ _ (by decide +kernel))
    (by
      have h : [stP].all (bodyOkB ctx m dlm) = true := by decide +kernel
      intro b hb; exact bodyOk_of_b ctx m dlm b (List.all_eq_true.1 h b hb))
    (by
      have h : [seP, geP, ieaP].all (bodyOkB ctx m dlm) = true := by decide +kernel
      intro b hb; exact bodyOk_of_b ctx m dlm b (List.all_eq_true.1 h b hb))
    (by decide +kernel) ⟨by decide, by decide⟩ (by decide +kernel) ⟨by decide, by decide, by decide, by decide⟩ rfl 1 none
    (some ['1']) errsLong (by decide +kernel)
    (segEvents_elem_fault ctx m.v5010 dlm refDef refLong.1 0 1 none (some ['1']) errsLong refLong_fault)
    refC (bodyOk_of_b ctx m dlm refC (by decide +kernel)) rfl (by decide +kernel) (by decide +kernel) (by decide +kernel)

/-! ### a faulty sub-element (the example maps have no composite: a synthetic one with REF01's definition as sub-element) -/

example : (compEvents ctx false .R 1 "C".toList "C01".toList none [ref01] (some [['A', 'B', 'C', 'D']])).Fault 1 (some 1)
    (some ['1'])
    ((elemReports ref01 (defWith ref01 []) (elemCtx ctx false ref01 ['A', 'B', 'C', 'D']) (.simple ['A', 'B', 'C', 'D'])).map
      Report.toErr) :=
  compEvents_sub_fault ctx false .R 1 _ _ none [ref01] [['A', 'B', 'C', 'D']] 1 (some 1) (some ['1']) _ 0 (by decide)
    (by decide) (by decide)
    (by
      simp only [KidsBut]
      exact ⟨elemEvents_fault ctx false 1 (some ref01.d.seq) ref01 [] (.simple ['A', 'B', 'C', 'D']) (fun _ => rfl)
        (by decide +kernel), trivial⟩)

end Pyx12Verif.Doc.Ex
