/-
C01 — tokenisation is lossless and independent of read chunking.

Models: `Model/Tokenizer.lean` (RawX12File after fixes C01-D2/D3), `Model/SegText.lean` (Segment parse/format,
X12Reader.__iter__ after fix C01-D4).  All statements are for every text / every read-size oracle, no bounds.
-/
import Pyx12Verif.Proofs.Tokenizer
import Pyx12Verif.Proofs.SegText

namespace Pyx12Verif.C01
open Pyx12Verif Tokenizer SegText

/-! ## 1. chunk independence -/

/-- Whatever sizes (≥ 1) the stream answers its reads with, constructing the reader and iterating it to the end
    gives the same outcome as the declarative splitter applied to the whole text: same header verdict, same
    delimiters, same lines. -/
theorem raw_chunk_independent (text : List Char) (sizes : List Nat) (h : ∀ k ∈ sizes, 1 ≤ k) :
    rawRead { rest := text, sizes := sizes } = rawSpec text := by
  have hp : (Stream.mk text sizes).Pos := h
  obtain ⟨h1, h2, h3⟩ := readHeader_spec ⟨text, sizes⟩ hp
  unfold rawRead rawSpec
  rw [h1]
  cases parseHeader (List.take ISA_LEN text) with
  | error e => rfl
  | ok hd =>
    simp only
    congr 1
    have hb : (initBuffer ⟨text, sizes⟩).1 ++ (initBuffer ⟨text, sizes⟩).2.rest = text := by
      unfold initBuffer
      simp only
      rw [List.append_assoc, read_append]
      exact h2
    have := iter_eq_spec hd.seg (text.length + 1) (initBuffer ⟨text, sizes⟩).1 (initBuffer ⟨text, sizes⟩).2
      (Stream.pos_read h3 BUF) (by rw [hb]; omega)
    rw [hb] at this
    exact this

/-- the full reader (raw reader + segment construction) is chunk independent as well -/
theorem reader_chunk_independent (text : List Char) (sizes sizes' : List Nat)
    (h : ∀ k ∈ sizes, 1 ≤ k) (h' : ∀ k ∈ sizes', 1 ≤ k) :
    readAll { rest := text, sizes := sizes } = readAll { rest := text, sizes := sizes' } := by
  unfold readAll
  rw [raw_chunk_independent text sizes h, raw_chunk_independent text sizes' h']

/-! ## 2. the declarative splitter is sound and complete -/

def isBrk (c : Char) : Prop := c = '\n' ∨ c = '\r'

/-- the text re-assembled from terminated pieces `(line-break run, line)` -/
def flat (t : Char) (ps : List (List Char × List Char)) : List Char :=
  (ps.map (fun p => p.1 ++ p.2 ++ [t])).flatten

def linesOf (ps : List (List Char × List Char)) : List (List Char) :=
  (ps.map (·.2)).filter (fun l => !l.isEmpty)

def PieceOk (t : Char) (p : List Char × List Char) : Prop :=
  (∀ c ∈ p.1, isBrk c) ∧ t ∉ p.1 ∧ t ∉ p.2 ∧ ∀ c, p.2.head? = some c → ¬ isBrk c

/-- `L` is the segment list of `text`: the text is a sequence of pieces, each a (possibly empty) run of CR/LF
    followed by a terminator-free line that does not begin with CR/LF and by the terminator, then an
    unterminated tail; `L` are the non-empty lines in order.  Hence: the lines interleaved with terminators differ
    from the text only by CR/LF runs directly after a terminator (or at the very beginning) and by the tail. -/
def Decomp (t : Char) (text : List Char) (L : List (List Char)) : Prop :=
  ∃ (ps : List (List Char × List Char)) (tail : List Char),
    text = flat t ps ++ tail ∧ t ∉ tail ∧ (∀ p ∈ ps, PieceOk t p) ∧ L = linesOf ps

theorem lstrip_decomp (l : List Char) :
    ∃ ws, l = ws ++ lstripCRLF l ∧ (∀ c ∈ ws, isBrk c) ∧ ∀ c, (lstripCRLF l).head? = some c → ¬ isBrk c := by
  induction l with
  | nil => exact ⟨[], rfl, by simp, by simp [lstripCRLF]⟩
  | cons a r ih =>
    by_cases ha : a = '\n' ∨ a = '\r'
    · obtain ⟨ws, h1, h2, h3⟩ := ih
      refine ⟨a :: ws, ?_, ?_, ?_⟩
      · simp only [lstripCRLF, ha, if_true, List.cons_append]
        rw [← h1]
      · intro c hc
        simp only [List.mem_cons] at hc
        rcases hc with hc | hc
        · rw [hc]; exact ha
        · exact h2 c hc
      · simpa only [lstripCRLF, ha, if_true] using h3
    · refine ⟨[], ?_, by simp, ?_⟩
      · simp [lstripCRLF, ha]
      · intro c hc
        simp only [lstripCRLF, ha, if_false, List.head?_cons, Option.some.injEq] at hc
        rw [← hc]; exact ha

theorem lstrip_of_decomp (ws line : List Char) (h1 : ∀ c ∈ ws, isBrk c)
    (h2 : ∀ c, line.head? = some c → ¬ isBrk c) : lstripCRLF (ws ++ line) = line := by
  induction ws with
  | nil =>
    cases line with
    | nil => rfl
    | cons a r =>
      have := h2 a rfl
      simp only [isBrk] at this
      simp [lstripCRLF, this]
  | cons a r ih =>
    have ha : a = '\n' ∨ a = '\r' := h1 a (by simp)
    simp only [List.cons_append, lstripCRLF, ha, if_true]
    exact ih (fun c hc => h1 c (List.mem_cons_of_mem _ hc))

theorem emit_eq (p : List Char) (rest : List (List Char)) :
    emit p rest = if (lstripCRLF p).isEmpty then rest else lstripCRLF p :: rest := rfl

theorem specAux_piece (t : Char) (acc p r : List Char) (h : t ∉ p) :
    specAux t acc (p ++ t :: r) = emit (acc.reverse ++ p) (specAux t [] r) := by
  induction p generalizing acc with
  | nil => simp [specAux]
  | cons c cs ih =>
    simp only [List.mem_cons, not_or] at h
    have hc : ¬ c = t := fun e => h.1 e.symm
    simp only [List.cons_append, specAux, hc, if_false]
    rw [ih _ h.2]
    simp

theorem contains_false_of_not_mem {t : Char} {l : List Char} (h : t ∉ l) : l.contains t = false := by
  simpa using h

theorem linesOf_cons (ws line : List Char) (ps : List (List Char × List Char)) :
    linesOf ((ws, line) :: ps) = if line.isEmpty then linesOf ps else line :: linesOf ps := by
  unfold linesOf
  cases line <;> simp

theorem specAux_decomp (t : Char) (xs : List Char) : ∀ acc : List Char, t ∉ acc →
    ∃ ps tail, acc.reverse ++ xs = flat t ps ++ tail ∧ t ∉ tail ∧ (∀ p ∈ ps, PieceOk t p) ∧
      specAux t acc xs = linesOf ps := by
  induction xs with
  | nil =>
    intro acc ha
    exact ⟨[], acc.reverse, by simp [flat], by simpa using ha, by simp, by simp [specAux, linesOf]⟩
  | cons c cs ih =>
    intro acc ha
    by_cases hc : c = t
    · obtain ⟨ps, tail, h1, h2, h3, h4⟩ := ih [] (by simp)
      obtain ⟨ws, g1, g2, g3⟩ := lstrip_decomp acc.reverse
      have hws : t ∉ ws ∧ t ∉ lstripCRLF acc.reverse := by
        have : t ∉ acc.reverse := by simpa using ha
        rw [g1] at this
        simpa [not_or] using this
      refine ⟨(ws, lstripCRLF acc.reverse) :: ps, tail, ?_, h2, ?_, ?_⟩
      · simp only [List.reverse_nil, List.nil_append] at h1
        simp only [flat, List.map_cons, List.flatten_cons]
        simp only [flat] at h1
        rw [← g1, hc, List.append_assoc, List.append_assoc, ← h1]
        simp
      · intro p hp
        simp only [List.mem_cons] at hp
        rcases hp with hp | hp
        · rw [hp]; exact ⟨g2, hws.1, hws.2, g3⟩
        · exact h3 p hp
      · simp only [specAux, hc, if_true]
        rw [h4, linesOf_cons, emit_eq]
    · have hc' : t ∉ c :: acc := by
        simp only [List.mem_cons, not_or]
        exact ⟨fun e => hc e.symm, ha⟩
      obtain ⟨ps, tail, h1, h2, h3, h4⟩ := ih (c :: acc) hc'
      refine ⟨ps, tail, ?_, h2, h3, ?_⟩
      · rw [← h1]; simp
      · simp only [specAux, hc, if_false]
        exact h4

theorem spec_of_decomp (t : Char) (ps : List (List Char × List Char)) (tail : List Char)
    (h2 : t ∉ tail) (h3 : ∀ p ∈ ps, PieceOk t p) : spec t (flat t ps ++ tail) = linesOf ps := by
  induction ps with
  | nil =>
    simp only [flat, List.map_nil, List.flatten_nil, List.nil_append, linesOf, List.filter_nil]
    exact specAux_no_term t [] tail (contains_false_of_not_mem h2)
  | cons p ps ih =>
    obtain ⟨ws, line⟩ := p
    obtain ⟨g1, g2, g3, g4⟩ := h3 (ws, line) (by simp)
    have ih' := ih (fun q hq => h3 q (List.mem_cons_of_mem _ hq))
    have hflat : flat t ((ws, line) :: ps) ++ tail = (ws ++ line) ++ t :: (flat t ps ++ tail) := by
      simp [flat]
    have hnm : t ∉ ws ++ line := by simp [g2, g3]
    unfold spec at ih' ⊢
    have hl := lstrip_of_decomp ws line g1 g4
    rw [hflat, specAux_piece t [] _ _ hnm, ih', linesOf_cons, emit_eq]
    simp only [List.reverse_nil, List.nil_append, hl]

/-- Soundness and completeness of the splitter: `spec t text` is THE list `L` with `Decomp t text L`. -/
theorem spec_sound_complete (t : Char) (text : List Char) (L : List (List Char)) :
    spec t text = L ↔ Decomp t text L := by
  constructor
  · intro h
    obtain ⟨ps, tail, h1, h2, h3, h4⟩ := specAux_decomp t text [] (by simp)
    refine ⟨ps, tail, by simpa using h1, h2, h3, ?_⟩
    rw [← h]; exact h4
  · rintro ⟨ps, tail, h1, h2, h3, h4⟩
    rw [h1, h4]
    exact spec_of_decomp t ps tail h2 h3

/-- every yielded line is non-empty, free of the terminator and does not begin with CR or LF -/
theorem spec_lines (t : Char) (text : List Char) :
    ∀ l ∈ spec t text, l ≠ [] ∧ t ∉ l ∧ ∀ c, l.head? = some c → ¬ isBrk c := by
  obtain ⟨ps, tail, _, _, h3, h4⟩ := (spec_sound_complete t text _).mp rfl
  intro l hl
  rw [h4] at hl
  simp only [linesOf, List.mem_filter, List.mem_map] at hl
  obtain ⟨⟨p, hp, rfl⟩, hne⟩ := hl
  obtain ⟨_, _, g3, g4⟩ := h3 p hp
  exact ⟨by simpa using hne, g3, g4⟩

/-! ## 3. elements and components -/

/-- every value character for character -/
theorem split_join (e : Char) (l : List Char) : joinWith e (splitOn e l) = l := SegText.split_join e l

/-- the pieces are split only at the separator: none contains it, and splitting what was joined gives the
    pieces back -/
theorem split_only_at_separator (e : Char) (l : List Char) : ∀ p ∈ splitOn e l, e ∉ p :=
  sep_not_mem_piece e l

theorem join_split (e : Char) (ps : List (List Char)) (hne : ps ≠ []) (h : ∀ p ∈ ps, e ∉ p) :
    splitOn e (joinWith e ps) = ps := SegText.join_split e ps hne h

theorem splitOn_cons_of_buildSeg {d : Delims} {l : List (List Char)} {s : Seg} (h : buildSeg d l = some s) :
    l = s.id :: l.tail ∧ s.elems = l.tail.map (splitComp d s.id) := by
  cases l with
  | nil => simp [buildSeg] at h
  | cons i es =>
    simp only [buildSeg, Option.some.injEq] at h
    subst h
    exact ⟨rfl, rfl⟩

/-- the ISA segment is never sub-split: each of its elements is the whole text between two element separators,
    whatever characters (component separator included) it contains -/
theorem isa_not_subsplit (d : Delims) (str : List Char) (s : Seg) (h : parseSeg d str = some s)
    (hisa : s.id = isaId) :
    s.elems = (splitOn d.ele (stripTerm d.term str)).tail.map (fun p => [p]) := by
  unfold parseSeg at h
  split at h
  · simp at h
  · obtain ⟨h1, h2⟩ := splitOn_cons_of_buildSeg h
    rw [h2]
    apply List.map_congr_left
    intro p hp
    have hp' : p ∈ splitOn d.ele (stripTerm d.term str) := List.mem_of_mem_tail hp
    simp only [splitComp, hisa, if_true]
    exact splitOn_no_sep _ _ (sep_not_mem_piece _ _ p hp')

/-- lossless parse: joining identifier and (untrimmed) values with the separators that were used to split them gives
    back the segment string exactly -/
theorem parse_lossless (d : Delims) (str : List Char) (s : Seg) (h : parseSeg d str = some s) :
    joinWith d.ele (s.id :: s.elems.map (joinWith (if s.id = isaId then d.ele else d.sub))) =
      stripTerm d.term str := by
  unfold parseSeg at h
  split at h
  · simp at h
  · obtain ⟨h1, h2⟩ := splitOn_cons_of_buildSeg h
    have key : s.elems.map (joinWith (if s.id = isaId then d.ele else d.sub)) =
        (splitOn d.ele (stripTerm d.term str)).tail := by
      rw [h2, List.map_map]
      conv => rhs; rw [← List.map_id (splitOn d.ele (stripTerm d.term str)).tail]
      apply List.map_congr_left
      intro p _
      simp only [Function.comp, splitComp, id]
      split <;> exact SegText.split_join _ _
    rw [key, ← h1]
    exact SegText.split_join _ _

/-! ## 4. format then parse -/

/-- formatting a clean segment and parsing the result gives the segment with the documented normalisation
    (trailing empty elements and trailing empty component values trimmed) -/
theorem parse_format (d : Delims) (s : Seg) (hd : d.Distinct) (hc : ValuesClean d s) :
    ∃ str, formatSeg d s = some str ∧ parseSeg d str = some (normSeg s) := by
  refine ⟨bodyOf d s ++ [d.term], formatSeg_eq d s (fun c hm => (hc.2.2 c hm).1), ?_⟩
  unfold parseSeg
  simp only [List.append_eq_nil_iff, List.cons_ne_self, and_false, if_false, stripTerm_concat]
  exact parse_body d s hd hc

/-- format ∘ parse ∘ format = format: the normal form prints like the original -/
theorem format_parse_idem (d : Delims) (s : Seg) (hd : d.Distinct) (hc : ValuesClean d s)
    (str : List Char) (s' : Seg) (hf : formatSeg d s = some str) (hp : parseSeg d str = some s') :
    formatSeg d s' = some str := by
  obtain ⟨str0, h1, h2⟩ := parse_format d s hd hc
  rw [hf] at h1
  have hs : str0 = str := (Option.some.inj h1).symm
  subst hs
  rw [hp] at h2
  have hs' : s' = normSeg s := Option.some.inj h2
  subst hs'
  rw [formatSeg_eq d (normSeg s) (normSeg_comps_ne_nil s), bodyOf_normSeg d s (fun c hm => (hc.2.2 c hm).1)]
  exact (formatSeg_eq d s (fun c hm => (hc.2.2 c hm).1)).symm.trans hf

/-! ## 5. the reader wrapper: what it yields is clean ("values contain no delimiter" holds by construction) -/

/-- a line as the raw reader yields it -/
def LineOk (d : Delims) (l : List Char) : Prop :=
  l ≠ [] ∧ d.term ∉ l ∧ ∀ c, l.head? = some c → ¬ isBrk c

theorem lstripWs_decomp (l : List Char) :
    ∃ ws, l = ws ++ lstripWs l ∧ ∀ c, (lstripWs l).head? = some c → isPyWhitespace c = false := by
  induction l with
  | nil => exact ⟨[], rfl, by simp [lstripWs]⟩
  | cons a r ih =>
    by_cases ha : isPyWhitespace a = true
    · obtain ⟨ws, h1, h2⟩ := ih
      refine ⟨a :: ws, ?_, ?_⟩
      · simp only [lstripWs, ha, if_true, List.cons_append]
        rw [← h1]
      · simpa only [lstripWs, ha, if_true] using h2
    · refine ⟨[], by simp [lstripWs, ha], ?_⟩
      intro c hc
      simp only [lstripWs, ha, Bool.false_eq_true, if_false, List.head?_cons, Option.some.injEq] at hc
      rw [← hc]; simpa using ha

theorem buildSeg_clean (d : Delims) (l : List Char) (hne : l ≠ []) (ht : d.term ∉ l)
    (hh : ∀ c, l.head? = some c → c ≠ '\n' ∧ c ≠ '\r' ∧ c ≠ ' ') (s : Seg)
    (h : buildSeg d (splitOn d.ele l) = some s) : Clean d s := by
  obtain ⟨h1, h2⟩ := splitOn_cons_of_buildSeg h
  have hid : s.id ∈ splitOn d.ele l := by rw [h1]; simp
  have hsub : ∀ p ∈ splitOn d.ele l, d.term ∉ p := fun p hp hm => ht (piece_subset _ _ p hp _ hm)
  refine ⟨⟨hsub _ hid, sep_not_mem_piece _ _ _ hid, ?_⟩, ?_⟩
  · intro c hc
    rw [h2] at hc
    simp only [List.mem_map] at hc
    obtain ⟨p, hp, rfl⟩ := hc
    have hp' : p ∈ splitOn d.ele l := List.mem_of_mem_tail hp
    have hpe : d.ele ∉ p := sep_not_mem_piece _ _ p hp'
    unfold splitComp
    by_cases hi : s.id = isaId
    · simp only [hi, if_true, splitOn_no_sep _ _ hpe]
      refine ⟨by simp, fun _ => rfl, ?_⟩
      intro v hv
      simp only [List.mem_singleton] at hv
      subst hv
      exact ⟨hsub _ hp', hpe, fun hn => absurd rfl hn⟩
    · simp only [hi, if_false]
      refine ⟨splitOn_ne_nil _ _, (by intro hn; first | exact absurd hn hi | exact hn.elim), ?_⟩
      intro v hv
      refine ⟨fun hm => hsub _ hp' (piece_subset _ _ v hv _ hm),
        fun hm => hpe (piece_subset _ _ v hv _ hm), fun _ => sep_not_mem_piece _ _ v hv⟩
  · intro c hc
    have hl : l = joinWith d.ele (s.id :: (splitOn d.ele l).tail) := by
      rw [← h1]; exact (SegText.split_join _ _).symm
    cases hid' : s.id with
    | nil =>
      rw [hid'] at hc hl
      simp only [List.nil_append, List.head?_cons, Option.some.injEq] at hc
      cases htl : (splitOn d.ele l).tail with
      | nil => rw [htl] at hl; exact absurd hl hne
      | cons q r =>
        rw [htl, joinWith_cons_ne _ _ _ (by simp)] at hl
        apply hh
        rw [hl, ← hc]; rfl
    | cons a r =>
      rw [hid'] at hc hl
      simp only [List.cons_append, List.head?_cons, Option.some.injEq] at hc
      apply hh
      cases htl : (splitOn d.ele l).tail with
      | nil => rw [htl] at hl; rw [hl, ← hc]; rfl
      | cons q r' =>
        rw [htl, joinWith_cons_ne _ _ _ (by simp)] at hl
        rw [hl, ← hc]; rfl

theorem parseSeg_of_no_term (d : Delims) (l : List Char) (hne : l ≠ []) (ht : d.term ∉ l) :
    parseSeg d l = buildSeg d (splitOn d.ele l) := by
  simp [parseSeg, hne, stripTerm_of_not_mem _ _ ht]

theorem buildSeg_isSome (d : Delims) (e : Char) (l : List Char) : ∃ s, buildSeg d (splitOn e l) = some s := by
  cases h : splitOn e l with
  | nil => exact absurd h (splitOn_ne_nil e l)
  | cons i es => exact ⟨_, rfl⟩

theorem afterStrip_clean (d : Delims) (errs : List RErr) (l : List Char) (hne : l ≠ []) (ht : d.term ∉ l)
    (hh : ∀ c, l.head? = some c → c ≠ '\n' ∧ c ≠ '\r' ∧ c ≠ ' ') :
    ∃ e s, afterStrip d errs l = .seg e s ∧ parseSeg d l = some s ∧ Clean d s := by
  obtain ⟨s, hs⟩ := buildSeg_isSome d d.ele l
  have hp := parseSeg_of_no_term d l hne ht
  unfold afterStrip
  cases hl : l.getLast? with
  | none => simp [List.getLast?_eq_none_iff] at hl; exact absurd hl hne
  | some c =>
    simp only [hp, hs]
    exact ⟨_, s, rfl, rfl, buildSeg_clean d l hne ht hh s hs⟩

theorem wrapLine_cases (d : Delims) (l : List Char) (h : LineOk d l) :
    wrapLine d l = .skip [.leadingBlank] ∨ ∃ e s, wrapLine d l = .seg e s ∧ Clean d s := by
  obtain ⟨hne, ht, hb⟩ := h
  unfold wrapLine
  by_cases hsp : l.head? = some ' '
  · simp only [hsp, if_true]
    by_cases hl : lstripWs l = []
    · simp [hl]
    · simp only [hl, if_false]
      obtain ⟨ws, g1, g2⟩ := lstripWs_decomp l
      have ht' : d.term ∉ lstripWs l := by
        intro hm; apply ht; rw [g1]; simp [hm]
      obtain ⟨e, s, h1, _, h3⟩ := afterStrip_clean d [.leadingBlank] (lstripWs l) hl ht' (by
        intro c hc
        have := g2 c hc
        refine ⟨?_, ?_, ?_⟩ <;> (intro hx; subst hx; revert this; decide))
      exact Or.inr ⟨e, s, h1, h3⟩
  · simp only [hsp, if_false]
    obtain ⟨e, s, h1, _, h3⟩ := afterStrip_clean d [] l hne ht (by
      intro c hc
      have := hb c hc
      simp only [isBrk, not_or] at this
      exact ⟨this.1, this.2, fun hx => hsp (by rw [hc, hx])⟩)
    exact Or.inr ⟨e, s, h1, h3⟩

theorem readLines_clean (d : Delims) (ls : List (List Char)) (h : ∀ l ∈ ls, LineOk d l) :
    ∀ pend, (readLines d pend ls).crashed = false ∧ ∀ x ∈ (readLines d pend ls).segs, Clean d x.2 := by
  induction ls with
  | nil => intro pend; simp [readLines]
  | cons l ls ih =>
    intro pend
    have ih' := ih (fun x hx => h x (List.mem_cons_of_mem _ hx))
    rcases wrapLine_cases d l (h l (by simp)) with hw | ⟨e, s, hw, hc⟩
    · simp only [readLines, hw]
      exact ih' _
    · simp only [readLines, hw, ReadResult.push]
      refine ⟨(ih' []).1, ?_⟩
      intro x hx
      simp only [List.mem_cons] at hx
      rcases hx with hx | hx
      · rw [hx]; exact hc
      · exact (ih' []).2 x hx

theorem spec_lineOk (d : Delims) (text : List Char) : ∀ l ∈ spec d.term text, LineOk d l :=
  fun l hl => spec_lines d.term text l hl

/-- the iteration never raises (after fix C01-D4), whatever the text -/
theorem reader_never_crashes (d : Delims) (text : List Char) :
    (readLines d [] (spec d.term text)).crashed = false :=
  (readLines_clean d _ (spec_lineOk d text) []).1

/-- every segment the reader yields is clean: no value contains a delimiter it was split at, no value of any
    segment contains the terminator, ISA elements are single values, and the segment does not begin with a
    character the reader would strip -/
theorem segments_clean (d : Delims) (text : List Char) : ∀ s ∈ segments d text, Clean d s := by
  intro s hs
  simp only [segments, List.mem_map] at hs
  obtain ⟨x, hx, rfl⟩ := hs
  exact (readLines_clean d _ (spec_lineOk d text) []).2 x hx

/-! ## 6. writing clean segments and reading them again -/

def AllBrk (ws : List Char) : Prop := ∀ c ∈ ws, isBrk c

/-- the text `encode` writes: every segment printed, each followed by the line break `b` -/
def encText (d : Delims) (b : List Char) (segs : List Seg) : List Char :=
  (segs.map (fun s => bodyOf d s ++ [d.term] ++ b)).flatten

theorem encode_eq (d : Delims) (b : List Char) (segs : List Seg) (h : ∀ s ∈ segs, ∀ c ∈ s.elems, c ≠ []) :
    encode d b segs = some (encText d b segs) := by
  induction segs with
  | nil => rfl
  | cons s ss ih =>
    simp only [encode, formatSeg_eq d s (h s (by simp)), ih (fun x hx => h x (List.mem_cons_of_mem _ hx)), both,
      encText, List.map_cons, List.flatten_cons]

theorem lstrip_allBrk (ws : List Char) (h : AllBrk ws) : lstripCRLF ws = [] := by
  have := lstrip_of_decomp ws [] h (by simp)
  simpa using this

theorem specAux_brk (t : Char) (ws : List Char) (hws : AllBrk ws) :
    ∀ acc, AllBrk acc → specAux t acc ws = [] := by
  induction ws with
  | nil => intro acc _; rfl
  | cons w ws ih =>
    intro acc hacc
    have hws' : AllBrk ws := fun c hc => hws c (List.mem_cons_of_mem _ hc)
    simp only [specAux]
    split
    · have : lstripCRLF acc.reverse = [] := lstrip_allBrk _ (fun c hc => hacc c (by simpa using hc))
      simp only [emit, this, List.isEmpty_nil, if_true]
      exact ih hws' [] (by intro c hc; simp at hc)
    · apply ih hws'
      intro c hc
      simp only [List.mem_cons] at hc
      rcases hc with hc | hc
      · rw [hc]; exact hws w (by simp)
      · exact hacc c hc

theorem specAux_ws_piece (t : Char) (body rest : List Char) (hb : t ∉ body) (hne : body ≠ [])
    (hh : ∀ c, body.head? = some c → ¬ isBrk c) (ws : List Char) (hws : AllBrk ws) :
    ∀ acc, AllBrk acc → specAux t acc (ws ++ body ++ t :: rest) = body :: spec t rest := by
  induction ws with
  | nil =>
    intro acc hacc
    simp only [List.nil_append]
    rw [specAux_piece t acc body rest hb]
    have : lstripCRLF (acc.reverse ++ body) = body :=
      lstrip_of_decomp _ _ (fun c hc => hacc c (by simpa using hc)) hh
    simp only [emit, this]
    cases body with
    | nil => exact absurd rfl hne
    | cons a r => rfl
  | cons w ws ih =>
    intro acc hacc
    have hws' : AllBrk ws := fun c hc => hws c (List.mem_cons_of_mem _ hc)
    simp only [List.cons_append, specAux]
    split
    · have : lstripCRLF acc.reverse = [] := lstrip_allBrk _ (fun c hc => hacc c (by simpa using hc))
      simp only [emit, this, List.isEmpty_nil, if_true]
      have := ih hws' [] (by intro c hc; simp at hc)
      simpa using this
    · have := ih hws' (w :: acc) (by
        intro c hc
        simp only [List.mem_cons] at hc
        rcases hc with hc | hc
        · rw [hc]; exact hws w (by simp)
        · exact hacc c hc)
      simpa using this

theorem head_bodyOf (d : Delims) (s : Seg) : (bodyOf d s).head? = (s.id ++ [d.ele]).head? := by
  unfold bodyOf
  cases s.id <;> simp

/-- the tokenizer recovers exactly the printed bodies, whatever CR/LF runs separate them -/
theorem spec_encText (d : Delims) (b : List Char) (hb : AllBrk b) (hd : d.Distinct) (segs : List Seg)
    (hc : ∀ s ∈ segs, Clean d s) :
    ∀ ws, AllBrk ws → spec d.term (ws ++ encText d b segs) = segs.map (bodyOf d) := by
  induction segs with
  | nil =>
    intro ws hws
    simp only [encText, List.map_nil, List.flatten_nil, List.append_nil]
    exact specAux_brk d.term ws hws [] (by intro c hc; simp at hc)
  | cons s ss ih =>
    intro ws hws
    obtain ⟨hv, hh⟩ := hc s (by simp)
    have hbody : d.term ∉ bodyOf d s := term_not_mem_body d s hd hv
    have hhead : ∀ c, (bodyOf d s).head? = some c → ¬ isBrk c := by
      intro c hcc
      rw [head_bodyOf] at hcc
      have := hh c hcc
      simp only [isBrk, not_or]
      exact ⟨this.1, this.2.1⟩
    have hform : ws ++ encText d b (s :: ss) = ws ++ bodyOf d s ++ d.term :: (b ++ encText d b ss) := by
      simp [encText]
    rw [hform]
    unfold spec
    rw [specAux_ws_piece d.term (bodyOf d s) _ hbody (bodyOf_ne_nil d s) hhead ws hws [] (by intro c hc; simp at hc)]
    rw [ih (fun x hx => hc x (List.mem_cons_of_mem _ hx)) b hb]
    rfl

theorem wrapLine_body (d : Delims) (s : Seg) (hd : d.Distinct) (hc : Clean d s) :
    ∃ e, wrapLine d (bodyOf d s) = .seg e (normSeg s) := by
  obtain ⟨hv, hh⟩ := hc
  have hsp : (bodyOf d s).head? ≠ some ' ' := by
    intro h
    rw [head_bodyOf] at h
    exact (hh _ h).2.2 rfl
  have hp : parseSeg d (bodyOf d s) = some (normSeg s) := by
    rw [parseSeg_of_no_term d _ (bodyOf_ne_nil d s) (term_not_mem_body d s hd hv)]
    exact parse_body d s hd hv
  unfold wrapLine afterStrip
  simp only [hsp, if_false, hp]
  cases hl : (bodyOf d s).getLast? with
  | none => simp [List.getLast?_eq_none_iff] at hl; exact absurd hl (bodyOf_ne_nil d s)
  | some c => exact ⟨_, rfl⟩

theorem readLines_bodies (d : Delims) (hd : d.Distinct) (segs : List Seg) (hc : ∀ s ∈ segs, Clean d s) :
    ∀ pend, (readLines d pend (segs.map (bodyOf d))).segs.map (·.2) = segs.map normSeg := by
  induction segs with
  | nil => intro pend; rfl
  | cons s ss ih =>
    intro pend
    obtain ⟨e, he⟩ := wrapLine_body d s hd (hc s (by simp))
    simp only [List.map_cons, readLines, he, ReadResult.push]
    rw [ih (fun x hx => hc x (List.mem_cons_of_mem _ hx)) []]

/-- Writing any list of clean segments with delimiters `d` and any CR/LF run `b` after each terminator, then
    reading the text, yields the same segments up to the documented trimming. -/
theorem segments_encode (d : Delims) (hd : d.Distinct) (b : List Char) (hb : AllBrk b) (segs : List Seg)
    (hc : ∀ s ∈ segs, Clean d s) :
    ∃ txt, encode d b segs = some txt ∧ segments d txt = segs.map normSeg := by
  refine ⟨encText d b segs, encode_eq d b segs (fun s hs c hm => ((hc s hs).1.2.2 c hm).1), ?_⟩
  unfold segments
  have := spec_encText d b hb hd segs hc [] (by intro c hc; simp at hc)
  simp only [List.nil_append] at this
  rw [this]
  exact readLines_bodies d hd segs hc []

/-- Formatting the yielded segments with the same delimiters and reading the result again yields the same segments
    (trailing empty elements / component values trimmed); the hypothesis "values contain no delimiter" is
    `segments_clean`, a theorem about the reader's output, not an assumption. -/
theorem reread_same (d : Delims) (hd : d.Distinct) (text : List Char) :
    ∃ txt, encode d [] (segments d text) = some txt ∧
      segments d txt = (segments d text).map normSeg :=
  segments_encode d hd [] (by intro c hc; simp at hc) (segments d text) (segments_clean d text)

/-- ...and the text no longer changes: a second round trip reproduces the first formatted text -/
theorem reread_text_fixpoint (d : Delims) (hd : d.Distinct) (text txt : List Char)
    (h1 : encode d [] (segments d text) = some txt) : encode d [] (segments d txt) = some txt := by
  obtain ⟨txt', g1, g2⟩ := reread_same d hd text
  rw [h1] at g1
  have : txt' = txt := (Option.some.inj g1).symm
  subst this
  have hne : ∀ s ∈ segments d text, ∀ c ∈ s.elems, c ≠ [] :=
    fun s hs c hm => ((segments_clean d text s hs).1.2.2 c hm).1
  rw [g2, encode_eq d [] _ (by
    intro s hs c hm
    simp only [List.mem_map] at hs
    obtain ⟨s0, _, rfl⟩ := hs
    exact normSeg_comps_ne_nil s0 c hm)]
  rw [encode_eq d [] _ hne] at h1
  rw [← h1]
  congr 1
  unfold encText
  rw [List.map_map]
  congr 1
  apply List.map_congr_left
  intro s hs
  simp only [Function.comp]
  rw [bodyOf_normSeg d s (hne s hs)]

/-! ## 7. the hypotheses are satisfiable / the statements are not vacuous -/

def dflt : Delims := { term := '~', ele := '*', sub := ':' }

example : dflt.Distinct := ⟨by decide, by decide, by decide⟩

example : segments dflt "ISA*a:b*c~\n NM1*x:y::*~~  ~REF**~tail".toList =
    [⟨"ISA".toList, [["a:b".toList], ["c".toList]]⟩,
     ⟨"NM1".toList, [["x".toList, "y".toList, [], []], [[]]]⟩,
     ⟨"REF".toList, [[[]], [[]]]⟩] := by decide

example : (segments dflt "ISA*a:b*c~\n NM1*x:y::*~~  ~REF**~tail".toList).map normSeg =
    [⟨"ISA".toList, [["a:b".toList], ["c".toList]]⟩,
     ⟨"NM1".toList, [["x".toList, "y".toList]]⟩,
     ⟨"REF".toList, [[[]]]⟩] := by decide

example : encode dflt [] (segments dflt "ISA*a:b*c~\n NM1*x:y::*~~  ~REF**~tail".toList) =
    some "ISA*a:b*c~NM1*x:y~REF*~".toList := by decide

/-- a composite without any sub-element makes `Composite.format` raise (unbound loop variable): explicit outcome -/
example : formatSeg dflt ⟨"A".toList, [[], [['x']]]⟩ = none := by decide

def hdr : List Char :=
  "ISA*00*          *00*          *ZZ*SENDER         *ZZ*RECEIVER       *200101*1200*^*00501*000000001*0*P*:~".toList

/-- a header read in pieces of 3, 1, 50, 1, ... characters; `~~` and a blank-only segment in the body -/
example : readAll { rest := hdr ++ "\nGS*1~~ ~ ST*2*~x".toList, sizes := [3, 1, 50, 1, 1, 60, 2, 2, 2, 2, 2, 2, 2, 2] } =
    .ok { seg := '~', ele := '*', sub := ':', rep := some '^', icvn := "00501".toList }
      { segs := [([], ⟨"ISA".toList, (splitOn '*' (hdr.drop 4).dropLast).map (fun p => [p])⟩),
                 ([], ⟨"GS".toList, [["1".toList]]⟩),
                 ([.leadingBlank, .leadingBlank, .trailingSep], ⟨"ST".toList, [["2".toList], [[]]]⟩)],
        crashed := false, pending := [] } := by decide +kernel

example : rawSpec ("ISB".toList ++ hdr.drop 3) = .error .notISA := by decide +kernel
example : rawSpec (hdr.take 100) = .error .short := by decide +kernel
example : rawSpec (hdr.take 84 ++ "00301".toList ++ hdr.drop 89) = .error .badVersion := by decide +kernel

example : Decomp '~' "A*1~\r\nB~~x".toList ["A*1".toList, "B".toList] :=
  ⟨[([], "A*1".toList), ("\r\n".toList, "B".toList), ([], [])], "x".toList, by decide, by decide,
    by
      intro p hp
      simp only [List.mem_cons, List.not_mem_nil, or_false] at hp
      rcases hp with rfl | rfl | rfl <;> refine ⟨?_, by decide, by decide, ?_⟩ <;> simp [isBrk],
    by decide⟩

end Pyx12Verif.C01
