/-
Non-vacuity for Props/C06Reval.lean, evaluated by the kernel (part 2).

The 997 of Props/C06RevalExample.lean is FED BACK to `Doc.validateDoc`: the 997 map is selected, every segment lands on the
intended node, the verdict is true and no error is handed to the error handler — computed by the kernel, independently of
`ack997_revalidates`.  And ALL hypotheses of `ack997_revalidates` hold for that acknowledgement (the acknowledgement-side ones
by the Boolean checkers of Proofs/C06RevalCheck.lean), so the theorem yields the same conclusion: the hypotheses are jointly
satisfiable.
-/
import Pyx12Verif.Props.C06RevalExample
import Pyx12Verif.Proofs.C06RevalCheck

namespace Pyx12Verif.C06R.Ex
open Pyx12Verif Pyx12Verif.Ack Pyx12Verif.C06 Pyx12Verif.MapSkel Pyx12Verif.WalkerGen

set_option maxRecDepth 100000

/-- the text of the 997 -/
def ackText : List Char := renderText (ack997 fixed st params).out

/-- **fed back to the validator**: the 997 map is selected and every segment lands on the intended node … -/
example : (Doc.validateDoc ms Doc.Ex.ctx ackText).segs.map (fun o => o.node) =
    [some ("x12.control.00401.xml".toList, [0, 0]), some ("997.4010.xml".toList, [0, 1, 0]),
     some ("997.4010.xml".toList, ipST), some ("997.4010.xml".toList, ipAK1), some ("997.4010.xml".toList, ipAK2),
     some ("997.4010.xml".toList, ipAK3), some ("997.4010.xml".toList, ipAK4), some ("997.4010.xml".toList, ipAK4),
     some ("997.4010.xml".toList, ipAK5), some ("997.4010.xml".toList, ipAK9), some ("997.4010.xml".toList, ipSE),
     some ("997.4010.xml".toList, ipGE), some ("997.4010.xml".toList, ipIEA)] := by decide +kernel

/-- … and it is accepted: verdict true, no error handed to the error handler -/
example : (Doc.validateDoc ms Doc.Ex.ctx ackText).outcome = .verdict true := by decide +kernel
example : (Doc.validateDoc ms Doc.Ex.ctx ackText).events.all (fun e => !Doc.isErrorEvent e) = true := by decide +kernel

def control : Doc.MapX := Doc.Ex.mapX "x12.control.00401.xml"

/-- **every hypothesis of `ack997_revalidates` is satisfied by this acknowledgement** -/
theorem ack_revalidates :
    (Doc.validateDoc ms Doc.Ex.ctx (renderText (ack997 fixed st params).out)).outcome = .verdict true ∧
      Doc.Quiet (Doc.validateDoc ms Doc.Ex.ctx (renderText (ack997 fixed st params).out)).events :=
  ack997_revalidates ms Doc.Ex.ctx control m997 [0, 0] [0, 1, 0] aids st params "00401".toList
    (complete_of_b st (by decide +kernel)) (trailerSafe_of_b st params (by decide +kernel)) (by decide +kernel)
    (gs06_of_b st (by decide +kernel)) (isaPlain_of_b st params _ (by decide +kernel))
    (echoSafe_of_b st params (by decide +kernel)) (echoFits_of_b Doc.Ex.ctx control [0, 0] m997 st params (by decide +kernel))
    (withinRepeats_of_b m997.root st (by decide +kernel)) (sizesFit_of_b st (by decide +kernel))
    rfl rfl rfl ex_isaDef (by decide +kernel) rfl
    ex_shape ex_defs ex_keys ex_wf ex_unamb

/-- the hypotheses of `ack997_ak402_not_echo` hold for it as well: both AK402 (`1`) are the writer's own -/
theorem ak402_not_echo : ∀ x ∈ ((ack997 fixed st params).out.drop 2), x.id = sAK4 → ∀ c, (toSeg x).elems[1]? = some c →
    (kindOf x.id).own 1 c = true ∧
      (c = [[]] ∨ ∃ r, c = [r] ∧ 1 ≤ r.length ∧ r.length ≤ 4 ∧ ∀ ch ∈ r, '0' ≤ ch ∧ ch ≤ '9') := by
  have hC := complete_of_b st (by decide +kernel)
  obtain ⟨_, _, isa, gs, _, _, _, _, hout, _⟩ := ack997_written st params hC
  rw [hout]
  exact ack997_ak402_not_echo st params hC (echoSafe_of_b st params (by decide +kernel))
    (refNumsFit_of_b st (by decide +kernel)) isa gs _ hout

end Pyx12Verif.C06R.Ex
