/-
Props/DocDelimSubExample.lean continued: what `witness_sub` concludes for the document `docW` is what the kernel computes for
the two texts independently.
-/
import Pyx12Verif.Props.DocDelimSubExample

namespace Pyx12Verif.Doc.Ex
open Pyx12Verif Pyx12Verif.Doc SegText

/-- both sides, computed independently: the verdict, and the report on REF02 with the value as printed on that side -/
example : (validateDoc ms ctx textWA).outcome = .verdict false ∧ (validateDoc ms ctx textWC).outcome = .verdict false := by
  decide +kernel

example : ((validateDoc ms ctx textWA).events.filter isErrorEvent).map dropMsg =
    [.eleError ['6'] [] (some "S:T".toList), .eleError ['6'] [] (some "1:2".toList)] := by decide +kernel

example : ((validateDoc ms ctx textWC).events.filter isErrorEvent).map dropMsg =
    [.eleError ['6'] [] (some "S>T".toList), .eleError ['6'] [] (some "1>2".toList)] := by decide +kernel

/-- the events differ literally … -/
example : (validateDoc ms ctx textWA).events ≠ (validateDoc ms ctx textWC).events := by decide +kernel

/-- … and agree after the renaming (the kernel's computation, matching `witness_sub.events`) -/
example : (validateDoc ms ctx textWA).events.map (renEvent ':' '>') =
    (validateDoc ms ctx textWC).events.map (renEvent ':' '>') := by decide +kernel

/-- the final error trees: different, equal after the renaming; the acknowledgement choice is the 997 on both sides -/
example : (validateDoc ms ctx textWA).final ≠ (validateDoc ms ctx textWC).final ∧
    renS ':' '>' (validateDoc ms ctx textWA).final = renS ':' '>' (validateDoc ms ctx textWC).final ∧
    (validateDoc ms ctx textWA).ackKind = .a997 ∧ (validateDoc ms ctx textWC).ackKind = .a997 := by decide +kernel

end Pyx12Verif.Doc.Ex
