/- C05 at pipeline level: everything audited by Audit/C05.lean (theorems, counterexample, non-vacuity). -/
import Pyx12Verif.Props.DocC05Ack
import Pyx12Verif.Props.DocC05Counter
import Pyx12Verif.Props.DocC05Example2
import Pyx12Verif.Props.DocC05Example3
