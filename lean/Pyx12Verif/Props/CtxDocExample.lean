/-
Non-vacuity and reachability for Props/CtxDoc.lean, Props/CtxDocPartition.lean, Props/CtxDocDelim.lean, on the maps and the
documents of Props/DocExample.lean / DocExample3.lean / DocDelimExample.lean:

* every way `ctxDoc` can end that the totality theorems leave open IS reached (kernel evaluation): `done`, `refused`,
  `notX12`, `mapNotFound`, `mapLoadFailed`, `crash nodeNone` (a map without `/ISA_LOOP/GS_LOOP/GS`), and
  `crash (reader plainNodeAsLoop)` — the recorded finding `crash:AttributeError:x12context.py:_add_segment`, reached by
  requesting a loop that does not begin with a segment (the wrapper `DETAIL` of `msW`);
  (Props/CtxDocExample3.lean);
* ALL hypotheses of `ctxDoc_total_sharp`, `ctxDoc_partition_generated` and `ctxDoc_delimiter_independent` are discharged
  for the conformant document written with `~ * :` / CRLF (and `LF | :`), ST_LOOP requested (Props/CtxDocExample2.lean).
-/
import Pyx12Verif.Props.CtxDoc
import Pyx12Verif.Props.DocExample

namespace Pyx12Verif.Doc.Ex
open Pyx12Verif Pyx12Verif.Doc MapSkel WalkerGen

/-! ### how the generator can end -/

def leafIdx (o : CtxOutcome) : List (List Nat) := o.yields.map (fun y => (Ctx.segsOf y).map (·.text))
def isTreeY : Ctx.Yield → Bool
  | .tree _ => true
  | .plain .. => false

/-- no loop id: seven plain nodes -/
example : (ctxDoc ms none good).stop = .done ∧ leafIdx (ctxDoc ms none good) = [[0], [1], [2], [3], [4], [5], [6]] := by
  decide +kernel
/-- ST_LOOP (14) requested: ISA, GS plain, one tree with ST REF SE, GE, IEA plain; seg_count and line carried -/
example : (ctxDoc ms (some 14) good).stop = .done ∧
    leafIdx (ctxDoc ms (some 14) good) = [[0], [1], [2, 3, 4], [5], [6]] ∧
    (ctxDoc ms (some 14) good).yields.map isTreeY = [false, false, true, false, false] ∧
    ((ctxDoc ms (some 14) good).yields.map Ctx.segsOf).flatten.map (fun i => (i.segCount, i.line)) =
      [(0, 1), (0, 2), (1, 3), (2, 4), (2, 5), (2, 6), (2, 7)] := by decide +kernel
example : (ctxDoc ms none noMap).stop = .mapNotFound ∧ leafIdx (ctxDoc ms none noMap) = [[0]] := by decide +kernel
example : (ctxDoc ms none badIsa).stop = .notX12 ∧ leafIdx (ctxDoc ms none badIsa) = [[0]] := by decide +kernel
example : (ctxDoc ms none "GS*1~".toList).stop = .refused .notISA := by decide +kernel
example : (ctxDoc { ms with maps := [] } none good).stop = .mapLoadFailed := by decide +kernel
/-- the index names a file that is not loadable -/
example : (ctxDoc { ms with maps := [mapX "x12.control.00401.xml"] } none good).stop = .mapLoadFailed := by decide +kernel

/-- a transaction map without `/ISA_LOOP/GS_LOOP/GS`: `self.x12_map_node.parent` on None -/
def rootNoGs : List Node :=
  [.loop 10 1 0 1 false [.seg 11 0 10 0 1 [] [el 1], .seg 26 0 30 0 1 [] [el 1]]]
def msNoGs : Maps :=
  { ms with maps := [mapX "x12.control.00401.xml", { (mapX "m.xml") with root := rootNoGs }] }
example : (ctxDoc msNoGs none good).stop = .crash .nodeNone := by decide +kernel

end Pyx12Verif.Doc.Ex
