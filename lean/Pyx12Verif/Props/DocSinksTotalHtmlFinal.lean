/-
`docHtml_total` with the hypothesis `hviews` discharged from conditions on the maps (`validateRead_views`,
Proofs/DocSinksViews.lean): the corrected `docHtml_total_full` — `CtlIsaOK ms` (the control maps define their
`/ISA_LOOP/ISA` segment) takes the place of `MapsOK2 ms`, which the statement does not need.
-/
import Pyx12Verif.Props.DocSinksTotalHtml
import Pyx12Verif.Proofs.DocSinksViews
import Pyx12Verif.Props.DocSinksExample

namespace Pyx12Verif.Doc
open Pyx12Verif

theorem nodesViewable_of_maps (ms : Maps) (hs : SinkMapsOK ms) (hci : CtlIsaOK ms) : NodesViewable ms :=
  fun ctx h rr b hv => validateRead_views ms hs hci ctx h rr b hv

/-- **the HTML sink completes exactly when no reader segment has 100 or more elements** — for all maps whose segment
    definitions are viewable (`SinkMapsOK`) and whose control maps define the ISA segment (`CtlIsaOK`), every setting, every
    text whose read succeeds and whose validation ends with a verdict. -/
theorem docHtml_total_maps (ms : Maps) (hs : SinkMapsOK ms) (hci : CtlIsaOK ms) (ctx : Ctx) (sc : SinkCtx) (text : List Char)
    (hd : Tokenizer.Header) (rr : SegText.ReadResult)
    (hread : SegText.readAll { rest := text, sizes := [] } = .ok hd rr)
    (hv : ∃ b, (validateDoc ms ctx text).outcome = .verdict b) :
    ((∃ ws, docHtmlWrites ms ctx sc text = some ws) ↔ ∀ p ∈ rr.segs, p.2.elems.length < 100) :=
  docHtml_total_of_viewable ms (nodesViewable_of_maps ms hs hci) ctx sc text hd rr hread hv

/-- the hypotheses hold for the example maps -/
example : SinkMapsOK ExS.msS ∧ CtlIsaOK ExS.msS :=
  ⟨sinkMapsOK_of_b _ (by decide +kernel), ctlIsaOK_of_b _ (by decide +kernel)⟩

end Pyx12Verif.Doc
