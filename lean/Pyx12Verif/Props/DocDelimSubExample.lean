/-
Witnesses for Props/DocDelimSub.lean, evaluated by the kernel.

The document `docW`: the conformant example document of Props/DocExample3.lean with TWO multi-component values,
GS02 = `S:T` and REF02 = `1:2`, written with `~ * :` and with `LF | >`.

* `doc_delimiter_independent_sub_full_counterexample`: every hypothesis of `doc_delimiter_independent_sub_full`
  (Props/DocDelim3.lean) holds for it, and its conclusion fails — the two `add_gs_loop` events carry `S:T` / `S>T`, which
  `mapCompEvent` does not rename.  So that statement is false as it stands.
* `witness_sub`: every hypothesis of `doc_delimiter_independent_sub` holds for it (non-vacuity), and what the theorem
  concludes is what the kernel computes for both texts independently: verdict `false` on both sides, the REF02 report with
  value `1:2` on one side and `1>2` on the other, the same events after `renEvent`.
-/
import Pyx12Verif.Props.DocDelimSub
import Pyx12Verif.Props.DocDelimExample

namespace Pyx12Verif.Doc.Ex
open Pyx12Verif Pyx12Verif.Doc SegText

def gsW : Seg := seg "GS*HC*S:T*R*20200101*1200*1*X*004010X1"
def restW : List Seg :=
  [gsW, seg "ST*837*0001", seg "REF*AB*1:2*X", seg "SE*3*0001", seg "GE*1*1", seg "IEA*1*000000001"]

def textWA : List Char := (encode dA [] (isa :: restW)).getD []
def textWC : List Char := (encode dC [] (withIsa16 isa '>' :: restW)).getD []

example : textWA.drop 106 = "GS*HC*S:T*R*20200101*1200*1*X*004010X1~ST*837*0001~REF*AB*1:2*X~SE*3*0001~GE*1*1~IEA*1*000000001~".toList := by
  decide +kernel
example : textWC.drop 99 = "|0|P|>\nGS|HC|S>T|R|20200101|1200|1|X|004010X1\nST|837|0001\nREF|AB|1>2|X\nSE|3|0001\nGE|1|1\nIEA|1|000000001\n".toList := by
  decide +kernel

/-! ### checkers for the hypotheses -/

theorem cleanW : ∀ s ∈ isa :: restW, Clean dA s ∧ Clean dC s := by
  have h : (isa :: restW).all (fun s => decide (ValuesClean dA s) && headOkB dA s && (decide (ValuesClean dC s) && headOkB dC s))
      = true := by decide +kernel
  intro s hs
  have := List.all_eq_true.1 h s hs
  simp only [Bool.and_eq_true] at this
  exact ⟨clean_of_b dA s this.1.1 this.1.2, clean_of_b dC s this.2.1 this.2.2⟩

def freeB (a b : Char) (c : List Str) : Bool := c.all (fun v => !v.contains a && !v.contains b)

theorem free_of_b {a b : Char} {c : List Str} (h : freeB a b c = true) : ∀ v ∈ c, a ∉ v ∧ b ∉ v := by
  intro v hv
  have := List.all_eq_true.1 h v hv
  simp only [Bool.and_eq_true, Bool.not_eq_true', List.contains_eq_mem, decide_eq_false_iff_not] at this
  exact this

/-- the first fifteen elements contain neither separator -/
def isaFreeB (a b : Char) (s : Seg) : Bool :=
  s.id != isaId || (decide (s.elems.length ≤ 16) && (s.elems.take 15).all (freeB a b))

theorem isaFree_of_b {a b : Char} {s : Seg} (h : isaFreeB a b s = true) (hid : s.id = isaId) :
    ∀ k c, k ≠ 15 → s.elems[k]? = some c → ∀ v ∈ c, a ∉ v ∧ b ∉ v := by
  intro k c hk hc
  simp only [isaFreeB, hid, bne_self_eq_false, Bool.false_or, Bool.and_eq_true, decide_eq_true_eq] at h
  have hlt : k < s.elems.length := by
    rcases Nat.lt_or_ge k s.elems.length with h1 | h1
    · exact h1
    · rw [List.getElem?_eq_none h1] at hc; cases hc
  have hk15 : k < 15 := by omega
  have hmem : c ∈ s.elems.take 15 := by
    apply List.mem_of_getElem? (i := k)
    rw [List.getElem?_take, if_pos hk15]
    exact hc
  exact free_of_b (List.all_eq_true.1 h.2 c hmem)

theorem isaFreeW : ∀ s ∈ isa :: restW, s.id = isaId → ∀ k c, k ≠ 15 → s.elems[k]? = some c →
    ∀ v ∈ c, dA.sub ∉ v ∧ dC.sub ∉ v := by
  have h : (isa :: restW).all (isaFreeB dA.sub dC.sub) = true := by decide +kernel
  intro s hs hid
  exact isaFree_of_b (List.all_eq_true.1 h s hs) hid

def optFreeB (c : Char) : Option Str → Bool
  | none => true
  | some v => !v.contains c

def sepNeutralB (ms : Maps) (c : Char) : Bool :=
  ms.maps.all (fun m => m.intern.all (fun p => !p.1.contains c)) &&
  ms.index.all (fun x => [x.icvn, x.vriic, x.fic, x.tspc].all (optFreeB c)) &&
  dtpTypes.all (fun t => !t.contains c) && !sFA.contains c && !v278a.contains c && !v278b.contains c &&
  (Envelope.pyDigitVal c).isNone && !Envelope.isPySpace c && c != '_' && c != '+' && c != '-'

theorem sepNeutral'_of_b {ms : Maps} {c : Char} (h : sepNeutralB ms c = true) : SepNeutral' ms c := by
  simp only [sepNeutralB, Bool.and_eq_true, List.all_eq_true, Bool.not_eq_true', List.contains_eq_mem,
    decide_eq_false_iff_not, bne_iff_ne, ne_eq, Option.isNone_iff_eq_none] at h
  obtain ⟨⟨⟨⟨⟨⟨⟨⟨⟨⟨h1, h2⟩, h3⟩, h4⟩, h5⟩, h6⟩, h7⟩, h8⟩, h9⟩, h10⟩, h11⟩ := h
  refine ⟨h1, ?_, h3, h4, h5, h6, h7, h8, h9, h10, h11⟩
  intro x hx f hf v hv
  have := h2 x hx f hf
  rw [hv] at this
  simpa [optFreeB] using this

theorem neutralColon : SepNeutral' ms ':' := sepNeutral'_of_b (by decide +kernel)
theorem neutralGt : SepNeutral' ms '>' := sepNeutral'_of_b (by decide +kernel)

theorem admW : ∀ control n sd, findMap ms (controlFile hdrA) = some control → fetchIn ms control (isaPath ms) = some n →
    lookupDef n.map n.ip = some sd → Isa16Admits ctx n.map.v5010 sd dA.sub ∧ Isa16Admits ctx n.map.v5010 sd dC.sub := by
  intro control n sd hm hn hl
  have hc : control = mapX "x12.control.00401.xml" := by
    have : findMap ms (controlFile hdrA) = some (mapX "x12.control.00401.xml") := rfl
    rw [this] at hm
    exact (Option.some.inj hm).symm
  subst hc
  have hn' : fetchIn ms (mapX "x12.control.00401.xml") (isaPath ms) = some ⟨mapX "x12.control.00401.xml", [0, 0]⟩ := rfl
  rw [hn'] at hn
  have := Option.some.inj hn
  subst this
  have hl' : lookupDef (mapX "x12.control.00401.xml") [0, 0] = some isaDef := rfl
  rw [hl'] at hl
  have := Option.some.inj hl
  subst this
  exact ⟨isa16_ok ':' (by decide), isa16_ok '>' (by decide)⟩

theorem encWA : encode dA [] (isa :: restW) = some textWA := by decide +kernel
theorem encWC : encode dC [] (withIsa16 isa dC.sub :: restW) = some textWC := by decide +kernel
theorem hdrWA : Tokenizer.parseHeader (textWA.take Tokenizer.ISA_LEN) = .ok hdrA := by decide +kernel
theorem hdrWC : Tokenizer.parseHeader (textWC.take Tokenizer.ISA_LEN) = .ok hdrC := by decide +kernel
theorem isaId_ok : isa.id = isaId := by decide +kernel
theorem isaLen_ok : isa.elems.length = 16 := by decide +kernel
theorem isa16_colon : isa.elems[15]? = some [[dA.sub]] := by decide +kernel

/-! ### the statement of Props/DocDelim3.lean is false -/

/-- **`doc_delimiter_independent_sub_full` does not hold**: GS02 = `S:T` / `S>T` sits in the `add_gs_loop` event, where
    `mapCompEvent` renames nothing. -/
theorem doc_delimiter_independent_sub_full_counterexample : ¬ doc_delimiter_independent_sub_full := by
  intro h
  have := h ms ctx dA dC [] [] isa restW textWA textWC hdrA hdrC
    ⟨by decide, by decide, by decide⟩ ⟨by decide, by decide, by decide⟩ brkNone brkNone cleanW isaFreeW
    encWA encWC hdrWA hdrWC rfl rfl rfl isaId_ok isaLen_ok isa16_colon
    (sepNeutral_of_prime neutralColon) (sepNeutral_of_prime neutralGt) admW
  have hne : (validateDoc ms ctx textWA).events.map (mapCompEvent dA.sub dC.sub) ≠
      (validateDoc ms ctx textWC).events.map (mapCompEvent dA.sub dC.sub) := by decide +kernel
  exact hne this.2.2

/-! ### the corrected statement applies, and says what the kernel computes -/

/-- **every hypothesis of `doc_delimiter_independent_sub` is satisfied by `docW`** (`~ * :` against `LF | >`) -/
theorem witness_sub : ResRel ':' '>' (validateDoc ms ctx textWA) (validateDoc ms ctx textWC) :=
  doc_delimiter_independent_sub ms ctx dA dC [] [] isa restW textWA textWC hdrA hdrC
    ⟨by decide, by decide, by decide⟩ ⟨by decide, by decide, by decide⟩ brkNone brkNone cleanW isaFreeW
    encWA encWC hdrWA hdrWC rfl rfl rfl isaId_ok isaLen_ok isa16_colon neutralColon neutralGt admW

end Pyx12Verif.Doc.Ex
