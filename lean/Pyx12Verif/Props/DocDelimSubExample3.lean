/-
The `int()`-neutrality of the component separator (`Envelope.IntNeutral`, part of `SepNeutral'`) CANNOT be dropped from
`doc_delimiter_independent_sub` — not even inside the property's domain, where the separator is a character the declared
character set allows: `+` (basic character set), `-` (basic) and `_` (extended) are such characters.

The document `docP`: the conformant example document whose SE01 is the two-component value (empty, `3`).
  * written with `~ * :` the reader computes `int(':3')`: ValueError, segment-count error (ST level, code 4);
  * written with `LF | +` the reader computes `int('+3') == 3`: the count is right, no such report.
Both separators are absent from the data, pairwise distinct from the other delimiters, admitted by the ISA16 definition
(character set E) and absent from every string of the maps — every hypothesis of the theorem except `IntNeutral '+'`.
The real pyx12 behaves like the model (X12Base._int over `seg.get_value('SE01')`, which prints the composite with the
source's separator): replayed through harness/pipeline.py on a generated 837 (SE01 = `:462` / `+462`, and `4:62` / `4_62`).
-/
import Pyx12Verif.Props.DocDelimSubExample

namespace Pyx12Verif.Doc
open Pyx12Verif

/-- `SepNeutral'` without its last component -/
def SepTables (ms : Maps) (c : Char) : Prop :=
  (∀ m ∈ ms.maps, ∀ p ∈ m.intern, c ∉ p.1) ∧
  (∀ x ∈ ms.index, ∀ f ∈ [x.icvn, x.vriic, x.fic, x.tspc], ∀ v, f = some v → c ∉ v) ∧
  (∀ t ∈ dtpTypes, c ∉ t) ∧ c ∉ sFA ∧ c ∉ v278a ∧ c ∉ v278b

/-- `doc_delimiter_independent_sub_correct` with `SepTables` in place of `SepNeutral'` (outcome and events only) -/
def doc_delimiter_independent_sub_noint : Prop :=
  ∀ (ms : Maps) (ctx : Ctx) (d₁ d₂ : Delims) (b₁ b₂ : List Char) (isa : Seg) (rest : List Seg) (t₁ t₂ : List Char)
    (hd₁ hd₂ : Tokenizer.Header),
    d₁.Distinct → d₂.Distinct → C01.AllBrk b₁ → C01.AllBrk b₂ →
    (∀ s ∈ isa :: rest, SegText.Clean d₁ s ∧ SegText.Clean d₂ s) →
    (∀ s ∈ isa :: rest, s.id = SegText.isaId → ∀ k c, k ≠ 15 → s.elems[k]? = some c → ∀ v ∈ c, d₁.sub ∉ v ∧ d₂.sub ∉ v) →
    SegText.encode d₁ b₁ (isa :: rest) = some t₁ → SegText.encode d₂ b₂ (withIsa16 isa d₂.sub :: rest) = some t₂ →
    Tokenizer.parseHeader (t₁.take Tokenizer.ISA_LEN) = .ok hd₁ → Tokenizer.parseHeader (t₂.take Tokenizer.ISA_LEN) = .ok hd₂ →
    SegText.delimsOf hd₁ = d₁ → SegText.delimsOf hd₂ = d₂ → hd₁.icvn = hd₂.icvn →
    isa.id = SegText.isaId → isa.elems.length = 16 → isa.elems[15]? = some [[d₁.sub]] →
    SepTables ms d₁.sub → SepTables ms d₂.sub →
    (∀ control n sd, findMap ms (controlFile hd₁) = some control → fetchIn ms control (isaPath ms) = some n →
      lookupDef n.map n.ip = some sd →
        Isa16Admits ctx n.map.v5010 sd d₁.sub ∧ Isa16Admits ctx n.map.v5010 sd d₂.sub) →
    (validateDoc ms ctx t₁).outcome = (validateDoc ms ctx t₂).outcome ∧
    (validateDoc ms ctx t₁).events.map (renEvent d₁.sub d₂.sub) =
      (validateDoc ms ctx t₂).events.map (renEvent d₁.sub d₂.sub)

namespace Ex
open SegText

def dP : Delims := ⟨'\n', '|', '+'⟩
def hdrP : Tokenizer.Header := { seg := '\n', ele := '|', sub := '+', rep := none, icvn := "00401".toList }

def restP : List Seg :=
  [gs, seg "ST*837*0001", seg "REF*AB*1*X", seg "SE*:3*0001", seg "GE*1*1", seg "IEA*1*000000001"]

def textPA : List Char := (encode dA [] (isa :: restP)).getD []
def textPP : List Char := (encode dP [] (withIsa16 isa '+' :: restP)).getD []

example : textPA.drop 106 = "GS*HC*S*R*20200101*1200*1*X*004010X1~ST*837*0001~REF*AB*1*X~SE*:3*0001~GE*1*1~IEA*1*000000001~".toList := by
  decide +kernel
example : textPP.drop 99 = "|0|P|+\nGS|HC|S|R|20200101|1200|1|X|004010X1\nST|837|0001\nREF|AB|1|X\nSE|+3|0001\nGE|1|1\nIEA|1|000000001\n".toList := by
  decide +kernel

theorem hdrPA : Tokenizer.parseHeader (textPA.take Tokenizer.ISA_LEN) = .ok hdrA := by decide +kernel

theorem cleanP : ∀ s ∈ isa :: restP, Clean dA s ∧ Clean dP s := by
  have h : (isa :: restP).all (fun s => decide (ValuesClean dA s) && headOkB dA s && (decide (ValuesClean dP s) && headOkB dP s))
      = true := by decide +kernel
  intro s hs
  have := List.all_eq_true.1 h s hs
  simp only [Bool.and_eq_true] at this
  exact ⟨clean_of_b dA s this.1.1 this.1.2, clean_of_b dP s this.2.1 this.2.2⟩

theorem isaFreeP : ∀ s ∈ isa :: restP, s.id = isaId → ∀ k c, k ≠ 15 → s.elems[k]? = some c →
    ∀ v ∈ c, dA.sub ∉ v ∧ dP.sub ∉ v := by
  have h : (isa :: restP).all (isaFreeB dA.sub dP.sub) = true := by decide +kernel
  intro s hs hid
  exact isaFree_of_b (List.all_eq_true.1 h s hs) hid

def sepTablesB (ms : Maps) (c : Char) : Bool :=
  ms.maps.all (fun m => m.intern.all (fun p => !p.1.contains c)) &&
  ms.index.all (fun x => [x.icvn, x.vriic, x.fic, x.tspc].all (optFreeB c)) &&
  dtpTypes.all (fun t => !t.contains c) && !sFA.contains c && !v278a.contains c && !v278b.contains c

theorem sepTables_of_b {ms : Maps} {c : Char} (h : sepTablesB ms c = true) : SepTables ms c := by
  simp only [sepTablesB, Bool.and_eq_true, List.all_eq_true, Bool.not_eq_true', List.contains_eq_mem,
    decide_eq_false_iff_not] at h
  obtain ⟨⟨⟨⟨⟨h1, h2⟩, h3⟩, h4⟩, h5⟩, h6⟩ := h
  refine ⟨h1, ?_, h3, h4, h5, h6⟩
  intro x hx f hf v hv
  have := h2 x hx f hf
  rw [hv] at this
  simpa [optFreeB] using this

theorem admP : ∀ control n sd, findMap ms (controlFile hdrA) = some control → fetchIn ms control (isaPath ms) = some n →
    lookupDef n.map n.ip = some sd → Isa16Admits ctx n.map.v5010 sd dA.sub ∧ Isa16Admits ctx n.map.v5010 sd dP.sub := by
  intro control n sd hm hn hl
  have hc : control = mapX "x12.control.00401.xml" := by
    have : findMap ms (controlFile hdrA) = some (mapX "x12.control.00401.xml") := rfl
    rw [this] at hm
    exact (Option.some.inj hm).symm
  subst hc
  have hn' : fetchIn ms (mapX "x12.control.00401.xml") (isaPath ms) = some ⟨mapX "x12.control.00401.xml", [0, 0]⟩ := rfl
  rw [hn'] at hn
  have := Option.some.inj hn
  subst this
  have hl' : lookupDef (mapX "x12.control.00401.xml") [0, 0] = some isaDef := rfl
  rw [hl'] at hl
  have := Option.some.inj hl
  subst this
  exact ⟨isa16_ok ':' (by decide), isa16_ok '+' (by decide)⟩

/-- `+` passes every table test and is a character of the basic set — but it is not `int()`-neutral -/
example : SepTables ms '+' ∧ Validation.inClass .B '+' = true ∧ ¬ Envelope.IntNeutral '+' :=
  ⟨sepTables_of_b (by decide +kernel), by decide, fun h => h.2.2.2.1 rfl⟩

/-- **without `IntNeutral` the statement is false** -/
theorem doc_delimiter_independent_sub_noint_counterexample : ¬ doc_delimiter_independent_sub_noint := by
  intro h
  have := h ms ctx dA dP [] [] isa restP textPA textPP hdrA hdrP
    ⟨by decide, by decide, by decide⟩ ⟨by decide, by decide, by decide⟩ brkNone brkNone cleanP isaFreeP
    (by decide +kernel) (by decide +kernel) hdrPA (by decide +kernel) rfl rfl rfl isaId_ok isaLen_ok isa16_colon
    (sepTables_of_b (by decide +kernel)) (sepTables_of_b (by decide +kernel)) admP
  have hne : (validateDoc ms ctx textPA).events.map (renEvent dA.sub dP.sub) ≠
      (validateDoc ms ctx textPP).events.map (renEvent dA.sub dP.sub) := by decide +kernel
  exact hne this.2

/-- what differs: the segment-count report (`st_error` code 4) is there with `:` and not with `+`; the `ele_error` for
    the composite SE01 is there on both sides -/
example : ((validateDoc ms ctx textPA).events.filter isErrorEvent).map dropMsg =
      [.stError ['4'], .eleError ['6'] [] (some ":3".toList)] ∧
    ((validateDoc ms ctx textPP).events.filter isErrorEvent).map dropMsg = [.eleError ['6'] [] (some "+3".toList)] := by
  decide +kernel

end Ex
end Pyx12Verif.Doc
