/-
(2) C12 at pipeline level, DIFFERENT component separators, GENERAL documents (multi-component values anywhere).

With another component separator two things change in the text: every composite value is printed with the other character,
and ISA16 — which IS the component separator — holds the other character.  So the two encodings write
`isa :: rest` under `d₁` and `withIsa16 isa d₂.sub :: rest` under `d₂` (any terminators, element separators, CR/LF layouts).

`doc_delimiter_independent_sub_full` (Props/DocDelim3.lean) is FALSE as it stands
(`Ex.doc_delimiter_independent_sub_full_counterexample`, Props/DocDelimSubExample.lean), for a reason of FORM: its event
comparison `mapCompEvent` renames the separator inside `seg_error` / `ele_error` values only, while `add_gs_loop` and
`add_st_loop` also carry printed values (GS02/03/06/07, ST01/03 — printed with the separator when they have components).
And its hypothesis `SepNeutral` speaks of ASCII digits and blanks, which is too weak for the Unicode-faithful `pyInt`
(an Arabic-Indic digit as separator turns the composite `1<sep>2` into the number 132; Proofs/DocDelimSubStr.lean).

What holds — `doc_delimiter_independent_sub` — is the same statement with
  * `SepNeutral'` (no Unicode decimal digit, no `str.isspace()` character, none of `_ + -`, not in the constants
    `FA` / `004010X094` / `004010X094A1`) instead of `SepNeutral`  (`sepNeutral_of_prime : SepNeutral' → SepNeutral`),
  * the separator renamed inside EVERY data string of an event (`renEvent`; message texts are kept and are EQUAL),
and a stronger conclusion (`ResRel`): same outcome (hence the verdict), per yielded segment the same identifier / matched
flag / matched node / popped reader errors / events up to the separator, the same whole event list up to the separator, the
same final error tree up to the separator inside the stored values (same shape, codes, positions, counts, ack codes,
message texts), the same acknowledgement choice.  The acknowledgement itself echoes stored values (AK1/AK2 fields, AK4-04),
so it is the same whenever the renaming leaves both final trees alone (`ack_eq_of_fixed`), and in general it is the
acknowledgement of trees that agree up to the separator.

`stepSeg_rename` (Proofs/DocDelimSubStep.lean) is the lemma the previous round named as missing; `runSegs_rename`,
`validateRead_rename` (Proofs/DocDelimSubRun.lean) and `validateDoc_rename` (here) lift it.
-/
import Pyx12Verif.Proofs.DocDelimSubRun

namespace Pyx12Verif.Doc
open Pyx12Verif

/-! ### what the reader yields satisfies `SegRen` -/

theorem getElem?_trimTrail {α : Type} (p : α → Bool) (l : List α) (k : Nat) (x : α)
    (h : (SegText.trimTrail p l)[k]? = some x) : l[k]? = some x := by
  rw [← SegText.trimTrail_prefix p l, List.getElem?_take] at h
  split at h
  · exact h
  · cases h

theorem plainSeg_norm (a b : Char) (s : Seg) (hid : s.id ≠ SegText.isaId)
    (hfree : ∀ c ∈ s.elems, ∀ v ∈ c, a ∉ v ∧ b ∉ v) : PlainSeg a b (SegText.normSeg s) := by
  have hmem : ∀ c ∈ (SegText.normSeg s).elems, c = [[]] ∨ ∃ c' ∈ s.elems, c = SegText.normComp c' := by
    intro c hc
    simp only [SegText.normSeg, SegText.normElems] at hc
    split at hc
    · simp only [List.mem_singleton] at hc; exact Or.inl hc
    · obtain ⟨c', hc', rfl⟩ := List.mem_map.1 hc
      exact Or.inr ⟨c', SegText.mem_trimTrail hc', rfl⟩
  refine ⟨hid, ?_, ?_⟩
  · intro c hc
    rcases hmem c hc with rfl | ⟨c', _, rfl⟩
    · simp
    · exact SegText.normComp_ne_nil c'
  · intro c hc v hv
    rcases hmem c hc with rfl | ⟨c', hc', rfl⟩
    · simp only [List.mem_singleton] at hv; subst hv; exact ⟨by simp, by simp⟩
    · exact normComp_free (hfree c' hc') v hv

theorem isaSeg_norm (a b : Char) (s : Seg) (hid : s.id = SegText.isaId) (hsingle : ∀ c ∈ s.elems, c.length = 1)
    (hfree : ∀ k c, k ≠ 15 → s.elems[k]? = some c → ∀ v ∈ c, a ∉ v ∧ b ∉ v) : IsaSeg a b (SegText.normSeg s) := by
  have hone : ∀ c ∈ s.elems, (SegText.normComp c).length = 1 := by
    intro c hc
    have hl := hsingle c hc
    match c, hl with
    | [v], _ => rw [SegText.normComp_single]; rfl
  refine ⟨hid, normSeg_single s hone, ?_⟩
  intro k c hk hc v hv
  simp only [SegText.normSeg, SegText.normElems] at hc
  split at hc
  · cases k with
    | zero =>
      simp only [List.getElem?_cons_zero, Option.some.injEq] at hc
      subst hc
      simp only [List.mem_singleton] at hv; subst hv; exact ⟨by simp, by simp⟩
    | succ j => simp at hc
  · rw [List.getElem?_map] at hc
    cases hx : (SegText.trimTrail SegText.isEmptyComp s.elems)[k]? with
    | none => rw [hx] at hc; cases hc
    | some c' =>
      rw [hx] at hc
      simp only [Option.map_some, Option.some.injEq] at hc
      subst hc
      have hs := getElem?_trimTrail _ _ _ _ hx
      exact normComp_free (hfree k c' hk hs) v hv

theorem readSpec_segRen (d₁ d₂ : Delims) (ha : DtpFree d₁.sub) (hb : DtpFree d₂.sub) (rest : List Seg)
    (hisa : ∀ s ∈ rest, s.id = SegText.isaId → (∀ c ∈ s.elems, c.length = 1) ∧
      ∀ k c, k ≠ 15 → s.elems[k]? = some c → ∀ v ∈ c, d₁.sub ∉ v ∧ d₂.sub ∉ v)
    (hplain : ∀ s ∈ rest, s.id ≠ SegText.isaId → ∀ c ∈ s.elems, ∀ v ∈ c, d₁.sub ∉ v ∧ d₂.sub ∉ v) :
    ∀ p ∈ (C12.readSpec [] rest).segs, SegRen d₁ d₂ p.2 := by
  intro p hp
  obtain ⟨s, hs, e⟩ := readSpec_segs_mem rest [] p hp
  rw [e]
  by_cases hid : s.id = SegText.isaId
  · exact segRen_isa d₁ d₂ (isaSeg_norm _ _ s hid (hisa s hs hid).1 (hisa s hs hid).2)
  · exact segRen_plain d₁ d₂ ha hb (plainSeg_norm _ _ s hid (hplain s hs hid))

/-! ### the document -/

/-- **`validateDoc` commutes with the change of component separator.**  Two texts that the reader turns into the read
    results of `isa :: rest` and of `withIsa16 isa h₂.sub :: rest` (Proofs/DocDelimRead.lean: what it makes of ANY admissible
    encoding of these lists), headers declaring the separators `h₁.sub` / `h₂.sub` and the same version; both separators
    neutral (`SepNeutral'`), admitted as ISA16, and absent from the values (ISA16 of ISA segments excepted). -/
theorem validateDoc_rename (ms : Maps) (ctx : Ctx) (t₁ t₂ : List Char) (h₁ h₂ : Tokenizer.Header) (isa : Seg)
    (rest : List Seg)
    (hr₁ : SegText.readAll { rest := t₁, sizes := [] } = .ok h₁ (C12.readSpec [] (isa :: rest)))
    (hr₂ : SegText.readAll { rest := t₂, sizes := [] } = .ok h₂ (C12.readSpec [] (withIsa16 isa h₂.sub :: rest)))
    (hicvn : h₁.icvn = h₂.icvn) (hn₁ : SepNeutral' ms h₁.sub) (hn₂ : SepNeutral' ms h₂.sub)
    (hw : IsaWith isa h₁.sub)
    (hisa : ∀ s ∈ isa :: rest, s.id = SegText.isaId → (∀ c ∈ s.elems, c.length = 1) ∧
      ∀ k c, k ≠ 15 → s.elems[k]? = some c → ∀ v ∈ c, h₁.sub ∉ v ∧ h₂.sub ∉ v)
    (hplain : ∀ s ∈ rest, s.id ≠ SegText.isaId → ∀ c ∈ s.elems, ∀ v ∈ c, h₁.sub ∉ v ∧ h₂.sub ∉ v)
    (hadm : ∀ control n sd, findMap ms (controlFile h₁) = some control → fetchIn ms control (isaPath ms) = some n →
      lookupDef n.map n.ip = some sd →
        Isa16Admits ctx n.map.v5010 sd h₁.sub ∧ Isa16Admits ctx n.map.v5010 sd h₂.sub) :
    ResRel h₁.sub h₂.sub (validateDoc ms ctx t₁) (validateDoc ms ctx t₂) := by
  have N := glueNeutral_of hn₁ hn₂
  have hw' : IsaWith (withIsa16 isa h₂.sub) h₂.sub := withIsa16_isaWith hw h₂.sub
  simp only [validateDoc, hr₁, hr₂]
  simp only [C12.readSpec, SegText.ReadResult.push, normSeg_isa hw, normSeg_isa hw', lineReports_isa hw,
    lineReports_isa hw', List.append_nil]
  exact validateRead_rename ms ctx h₁ h₂ [] isa _ _ _ N hicvn hw (hisa isa (by simp) hw.id).2
    (readSpec_segRen (SegText.delimsOf h₁) (SegText.delimsOf h₂) N.dtpA N.dtpB rest
      (fun s hs => hisa s (List.mem_cons_of_mem _ hs)) hplain)
    hadm

theorem clean_withIsa16 (d : Delims) (hd : d.Distinct) (isa : Seg) (hid : isa.id = SegText.isaId)
    (h : SegText.Clean d isa) : SegText.Clean d (withIsa16 isa d.sub) := by
  obtain ⟨⟨h1, h2, h3⟩, h4⟩ := h
  refine ⟨⟨h1, h2, ?_⟩, h4⟩
  intro c hc
  simp only [withIsa16] at hc
  rcases List.mem_or_eq_of_mem_set hc with hc | rfl
  · exact h3 c hc
  · refine ⟨by simp, fun _ => rfl, ?_⟩
    intro v hv
    simp only [List.mem_singleton] at hv
    subst hv
    refine ⟨?_, ?_, ?_⟩
    · simp only [List.mem_singleton]; exact hd.2.1
    · simp only [List.mem_singleton]; exact hd.2.2
    · intro hne
      exact absurd hid hne

/-- **(2) for different component separators, general documents.**
    `isa :: rest` written with `d₁` / line break `b₁`, and the same document with ISA16 replaced by the other separator
    written with `d₂` / `b₂`: any terminators, element separators, component separators, CR/LF layouts; both triples pairwise
    distinct and absent from the data; no separator inside an ISA value other than ISA16; both header lines declare their
    triple and the same version; both separators neutral (`SepNeutral'`) and admitted by the ISA16 definition.
    Then the two results agree in everything up to the component separator inside printed values (`ResRel`). -/
theorem doc_delimiter_independent_sub (ms : Maps) (ctx : Ctx) (d₁ d₂ : Delims) (b₁ b₂ : List Char) (isa : Seg)
    (rest : List Seg) (t₁ t₂ : List Char) (hd₁ hd₂ : Tokenizer.Header)
    (h1 : d₁.Distinct) (h2 : d₂.Distinct) (hb₁ : C01.AllBrk b₁) (hb₂ : C01.AllBrk b₂)
    (hclean : ∀ s ∈ isa :: rest, SegText.Clean d₁ s ∧ SegText.Clean d₂ s)
    (hisaFree : ∀ s ∈ isa :: rest, s.id = SegText.isaId → ∀ k c, k ≠ 15 → s.elems[k]? = some c →
      ∀ v ∈ c, d₁.sub ∉ v ∧ d₂.sub ∉ v)
    (e₁ : SegText.encode d₁ b₁ (isa :: rest) = some t₁)
    (e₂ : SegText.encode d₂ b₂ (withIsa16 isa d₂.sub :: rest) = some t₂)
    (hh₁ : Tokenizer.parseHeader (t₁.take Tokenizer.ISA_LEN) = .ok hd₁)
    (hh₂ : Tokenizer.parseHeader (t₂.take Tokenizer.ISA_LEN) = .ok hd₂)
    (hdel₁ : SegText.delimsOf hd₁ = d₁) (hdel₂ : SegText.delimsOf hd₂ = d₂) (hicvn : hd₁.icvn = hd₂.icvn)
    (hisa : isa.id = SegText.isaId) (hlen : isa.elems.length = 16) (h16 : isa.elems[15]? = some [[d₁.sub]])
    (hn₁ : SepNeutral' ms d₁.sub) (hn₂ : SepNeutral' ms d₂.sub)
    (hadm : ∀ control n sd, findMap ms (controlFile hd₁) = some control → fetchIn ms control (isaPath ms) = some n →
      lookupDef n.map n.ip = some sd →
        Isa16Admits ctx n.map.v5010 sd d₁.sub ∧ Isa16Admits ctx n.map.v5010 sd d₂.sub) :
    ResRel d₁.sub d₂.sub (validateDoc ms ctx t₁) (validateDoc ms ctx t₂) := by
  subst hdel₁
  subst hdel₂
  have hw : IsaWith isa hd₁.sub :=
    ⟨hisa, hlen, h16, fun x hx => (((hclean isa (by simp)).1).1.2.2 x hx).2.1 hisa⟩
  have nosz : ∀ k ∈ ([] : List Nat), 1 ≤ k := by intro k hk; cases hk
  have hc₁ : ∀ s ∈ isa :: rest, SegText.Clean (SegText.delimsOf hd₁) s := fun s hs => (hclean s hs).1
  have hc₂ : ∀ s ∈ withIsa16 isa (SegText.delimsOf hd₂).sub :: rest, SegText.Clean (SegText.delimsOf hd₂) s := by
    intro s hs
    rcases List.mem_cons.1 hs with rfl | hs
    · exact clean_withIsa16 _ h2 isa hisa (hclean isa (by simp)).2
    · exact (hclean s (List.mem_cons_of_mem _ hs)).2
  have hr₁ := C12.read_encoded_reports _ h1 b₁ hb₁ _ hc₁ t₁ e₁ [] nosz hd₁ hh₁ rfl
  have hr₂ := C12.read_encoded_reports _ h2 b₂ hb₂ _ hc₂ t₂ e₂ [] nosz hd₂ hh₂ rfl
  refine validateDoc_rename ms ctx t₁ t₂ hd₁ hd₂ isa rest hr₁ hr₂ hicvn hn₁ hn₂ hw ?_ ?_ hadm
  · intro s hs hid
    exact ⟨fun c hc => (((hclean s hs).1).1.2.2 c hc).2.1 hid, hisaFree s hs hid⟩
  · intro s hs hid c hc v hv
    have q1 := ((((hclean s (List.mem_cons_of_mem _ hs)).1).1.2.2 c hc).2.2 v hv).2.2 hid
    have q2 := ((((hclean s (List.mem_cons_of_mem _ hs)).2).1.2.2 c hc).2.2 v hv).2.2 hid
    exact ⟨q1, q2⟩

/-- the corrected general statement as a `Prop` (compare `doc_delimiter_independent_sub_full`, Props/DocDelim3.lean):
    `SepNeutral'` for `SepNeutral`, and the events compared with the separator renamed in every data string -/
def doc_delimiter_independent_sub_correct : Prop :=
  ∀ (ms : Maps) (ctx : Ctx) (d₁ d₂ : Delims) (b₁ b₂ : List Char) (isa : Seg) (rest : List Seg) (t₁ t₂ : List Char)
    (hd₁ hd₂ : Tokenizer.Header),
    d₁.Distinct → d₂.Distinct → C01.AllBrk b₁ → C01.AllBrk b₂ →
    (∀ s ∈ isa :: rest, SegText.Clean d₁ s ∧ SegText.Clean d₂ s) →
    (∀ s ∈ isa :: rest, s.id = SegText.isaId → ∀ k c, k ≠ 15 → s.elems[k]? = some c → ∀ v ∈ c, d₁.sub ∉ v ∧ d₂.sub ∉ v) →
    SegText.encode d₁ b₁ (isa :: rest) = some t₁ → SegText.encode d₂ b₂ (withIsa16 isa d₂.sub :: rest) = some t₂ →
    Tokenizer.parseHeader (t₁.take Tokenizer.ISA_LEN) = .ok hd₁ → Tokenizer.parseHeader (t₂.take Tokenizer.ISA_LEN) = .ok hd₂ →
    SegText.delimsOf hd₁ = d₁ → SegText.delimsOf hd₂ = d₂ → hd₁.icvn = hd₂.icvn →
    isa.id = SegText.isaId → isa.elems.length = 16 → isa.elems[15]? = some [[d₁.sub]] →
    SepNeutral' ms d₁.sub → SepNeutral' ms d₂.sub →
    (∀ control n sd, findMap ms (controlFile hd₁) = some control → fetchIn ms control (isaPath ms) = some n →
      lookupDef n.map n.ip = some sd →
        Isa16Admits ctx n.map.v5010 sd d₁.sub ∧ Isa16Admits ctx n.map.v5010 sd d₂.sub) →
    (validateDoc ms ctx t₁).outcome = (validateDoc ms ctx t₂).outcome ∧
    (validateDoc ms ctx t₁).segs.map (fun o => (o.sid, o.matched, o.node, o.popped)) =
      (validateDoc ms ctx t₂).segs.map (fun o => (o.sid, o.matched, o.node, o.popped)) ∧
    (validateDoc ms ctx t₁).segs.map (fun o => o.events.map (renEvent d₁.sub d₂.sub)) =
      (validateDoc ms ctx t₂).segs.map (fun o => o.events.map (renEvent d₁.sub d₂.sub)) ∧
    (validateDoc ms ctx t₁).events.map (renEvent d₁.sub d₂.sub) =
      (validateDoc ms ctx t₂).events.map (renEvent d₁.sub d₂.sub) ∧
    renS d₁.sub d₂.sub (validateDoc ms ctx t₁).final = renS d₁.sub d₂.sub (validateDoc ms ctx t₂).final ∧
    (validateDoc ms ctx t₁).ackKind = (validateDoc ms ctx t₂).ackKind

theorem resRel_views {a b : Char} {r₁ r₂ : DocResult} (h : ResRel a b r₁ r₂) :
    r₁.outcome = r₂.outcome ∧
    r₁.segs.map (fun o => (o.sid, o.matched, o.node, o.popped)) = r₂.segs.map (fun o => (o.sid, o.matched, o.node, o.popped)) ∧
    r₁.segs.map (fun o => o.events.map (renEvent a b)) = r₂.segs.map (fun o => o.events.map (renEvent a b)) ∧
    r₁.events.map (renEvent a b) = r₂.events.map (renEvent a b) ∧
    renS a b r₁.final = renS a b r₂.final ∧ r₁.ackKind = r₂.ackKind := by
  refine ⟨h.outcome, ?_, ?_, h.events, h.final, h.ackKind⟩
  · have := congrArg (List.map (fun k : Str × Bool × Option (Str × List Nat) × List RdErr × List Event =>
      (k.1, k.2.1, k.2.2.1, k.2.2.2.1))) h.segs
    simpa only [List.map_map, Function.comp_def, outKey] using this
  · have := congrArg (List.map (fun k : Str × Bool × Option (Str × List Nat) × List RdErr × List Event => k.2.2.2.2)) h.segs
    simpa only [List.map_map, Function.comp_def, outKey] using this

/-- **the corrected general statement holds** -/
theorem doc_delimiter_independent_sub_views : doc_delimiter_independent_sub_correct := by
  intro ms ctx d₁ d₂ b₁ b₂ isa rest t₁ t₂ hd₁ hd₂ h1 h2 hb₁ hb₂ hclean hisaFree e₁ e₂ hh₁ hh₂ hdel₁ hdel₂ hicvn hisa hlen h16
    hn₁ hn₂ hadm
  exact resRel_views (doc_delimiter_independent_sub ms ctx d₁ d₂ b₁ b₂ isa rest t₁ t₂ hd₁ hd₂ h1 h2 hb₁ hb₂ hclean
    hisaFree e₁ e₂ hh₁ hh₂ hdel₁ hdel₂ hicvn hisa hlen h16 hn₁ hn₂ hadm)

/-- the acknowledgement: written for the same visitor, from trees that agree up to the separator; hence identical as soon as
    the renaming leaves both final trees alone (no stored envelope field or reported value contains the separator `a`) -/
theorem ack_eq_of_fixed {a b : Char} {r₁ r₂ : DocResult} (h : ResRel a b r₁ r₂) (f₁ : renS a b r₁.final = r₁.final)
    (f₂ : renS a b r₂.final = r₂.final) (p : Ack.Params) : ackFor r₁ p = ackFor r₂ p := by
  have : r₁.final = r₂.final := by rw [← f₁, ← f₂, h.final]
  simp only [ackFor, h.ackKind, this]

/-- in general: the acknowledgements of the two canonical trees are the same -/
theorem ack_canonical {a b : Char} {r₁ r₂ : DocResult} (h : ResRel a b r₁ r₂) (p : Ack.Params) :
    ackOf r₁.ackKind (renS a b r₁.final) p = ackOf r₂.ackKind (renS a b r₂.final) p := by
  rw [h.ackKind, h.final]

/-! ### the comparison of Props/DocDelim3.lean, for the error events -/

/-- `renEvent` followed by dropping the message text -/
def dropMsg : Event → Event
  | .eleError c _ v => .eleError c [] v
  | e => e

theorem mapCompEvent_error (a b : Char) (e : Event) (h : isErrorEvent e = true) :
    mapCompEvent a b e = dropMsg (renEvent a b e) := by
  cases e <;> first | rfl | cases h

theorem isErrorEvent_ren (a b : Char) (e : Event) : isErrorEvent (renEvent a b e) = isErrorEvent e := by
  cases e <;> rfl

theorem filter_ren (a b : Char) (l : List Event) :
    (l.filter isErrorEvent).map (renEvent a b) = (l.map (renEvent a b)).filter isErrorEvent := by
  induction l with
  | nil => rfl
  | cons e r ih =>
    simp only [List.filter_cons, List.map_cons, isErrorEvent_ren]
    split
    · simp only [List.map_cons, ih]
    · exact ih

/-- the reported ERRORS (`isa_error`, `gs_error`, `st_error`, `seg_error`, `ele_error`: code and value, in order) compared
    as Props/DocDelim3.lean compares events — `mapCompEvent` — are the same -/
theorem errorEvents_mapComp {a b : Char} {l₁ l₂ : List Event} (h : EvEq a b l₁ l₂) :
    (l₁.filter isErrorEvent).map (mapCompEvent a b) = (l₂.filter isErrorEvent).map (mapCompEvent a b) := by
  have key : ∀ l : List Event, (l.filter isErrorEvent).map (mapCompEvent a b) =
      ((l.map (renEvent a b)).filter isErrorEvent).map dropMsg := by
    intro l
    rw [← filter_ren, List.map_map]
    apply List.map_congr_left
    intro e he
    exact mapCompEvent_error a b e (List.mem_filter.1 he).2
  rw [key l₁, key l₂, h]

end Pyx12Verif.Doc
