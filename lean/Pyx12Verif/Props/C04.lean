/-
C04 — envelope, control-number and counter checks are exact.

`run Fixes.all` is the model of the reader after the three guard patches (D5, D6, D34); `run Fixes.none` the
model of the unchanged code.  Documents are structured (`Interchange ⊃ Group ⊃ TSet ⊃ body`); `flatten` turns
them into the segment sequence the reader sees; `recountSegs` is the structural recount.

  reader_eq_recount_segs / reader_eq_recount / reader_eq_recount_open   the reader's errors = the recount, segment by segment
  consistent_no_error                                                   a consistent envelope draws no error
  hl_stack_is_ancestor_chain, chain_suffix_is_chain                     the HL stack is the ancestor chain
  reader_total                                                          the guarded reader never crashes (any segment sequence)
  reader_total_unfixed_counterexample                                   the unchanged reader does (D5, D6, D34 witnesses)
  not_nested_reports_full (def), not_nested_reports_counterexample      "any other arrangement draws an error" is FALSE (D38)
  not_nested_reports_partial                                            … it is true for what a stack can notice
  properlyNested_iff, flattenDoc_properlyNested                         the recogniser accepts exactly the flattenings

`fieldInt` / `pyInt` (Python `int()` on IEA01, GE01, SE01, HL01, HL02, LX01) is modelled for EVERY string: Unicode decimal digits
of all 68 Nd runs and the non-ASCII `isspace` characters included, so no theorem above carries an ASCII hypothesis.
  pyInt_ascii                      on text below U+007F it is the ASCII reader (the former definition of `pyInt`)
  pyInt_ascii_digits               a run of 1 .. 4300 ASCII digits reads as its decimal value
  pyInt_unicode_digits             … so does a run of decimal digits of any scripts (Proofs/EnvelopeInt)
  pyInt_skips, pyInt_rejects       white space skipped on the left; a non-convertible character anywhere ⇒ not a number
  isPySpace_iff, pyDigitVal_eq_some  the two tables restated point by point (Proofs/EnvelopeInt)
  pyInt_unicode_example            non-vacuity: `int('١٢') = 12`, `int('1\u2028') = 1`, `int('\x1c1')` fails, …
-/
import Pyx12Verif.Proofs.EnvelopeTail
import Pyx12Verif.Proofs.EnvelopeNest
import Pyx12Verif.Proofs.EnvelopeParse

namespace Pyx12Verif.Envelope

/-! ### the reader's errors are the recount -/

theorem run_of_runs {chk : Bool} {segs : List SegView} {s : RState} {o : List (List Err)}
    (h : Runs (RState.init chk) segs s o) : run Fixes.all chk segs = .ok (o ++ [cleanup s]) := by
  unfold Runs at h
  simp [run, h, Outcome.bind]

/-- segment by segment (and for the end of input) the guarded reader pops exactly the errors the structural
recount blames on that segment -/
theorem reader_eq_recount_segs (chk : Bool) (d : List Interchange) (hd : InDomain chk d) :
    run Fixes.all chk (flatten d) = .ok (recountSegs chk d) := by
  obtain ⟨s', hrun, hl, _, _⟩ := file_run chk d [] (RState.init chk) rfl (by simp [RState.init]) hd
  rw [run_of_runs hrun]
  simp [cleanup, hl, RState.init, recountSegs]

theorem reader_eq_recount (chk : Bool) (d : List Interchange) (hd : InDomain chk d) :
    errs (run Fixes.all chk (flatten d)) = recount chk d := by
  rw [reader_eq_recount_segs chk d hd]; rfl

/-- the same when the input stops inside open envelopes: the end of input is blamed for each missing trailer -/
theorem reader_eq_recount_open (chk : Bool) (d : Doc) (hd : DocDomain chk d) :
    run Fixes.all chk (flattenDoc d) = .ok (recountDoc chk d) := by
  obtain ⟨h1, h2⟩ := hd
  obtain ⟨s1, hrun1, hl, hm, hc⟩ := file_run chk d.complete [] (RState.init chk) rfl (by simp [RState.init]) h1
  obtain ⟨s2, out, hrun2, hout⟩ := tail_run chk d.complete s1 hc (by simpa using hm)
    (by rw [hl]; rfl) d.tail h2
  have := Runs.append hrun1 hrun2
  rw [flattenDoc, run_of_runs this, recountDoc, ← hout]
  simp

/-! ### a consistent envelope never draws an error -/

theorem consistent_no_error_segs (chk : Bool) (d : List Interchange) (hd : InDomain chk d) (hc : Consistent chk d) :
    ∃ outs, run Fixes.all chk (flatten d) = .ok outs ∧ ∀ l ∈ outs, l = [] := by
  refine ⟨_, reader_eq_recount_segs chk d hd, ?_⟩
  unfold recountSegs
  exact AllNil.append (recountFile_nil chk d [] (by simpa using hc.1) hc.2) (fun l hl => by simpa using hl)

theorem consistent_no_error (chk : Bool) (d : List Interchange) (hd : InDomain chk d) (hc : Consistent chk d) :
    errs (run Fixes.all chk (flatten d)) = [] := by
  obtain ⟨outs, h, hn⟩ := consistent_no_error_segs chk d hd hc
  rw [h]; exact AllNil.flatten hn

/-! ### HL -/

/-- after the ST of a set and any body, `hl_stack` is the ancestor chain (self first) that the table of chains
assigns to the last HL; `hl_count` is the number of HLs -/
theorem hl_stack_is_ancestor_chain (s : RState) (c : Option Str) (body : List SegView)
    (hd : BodyDom s.chk837 body) :
    ∃ s' out, Runs s (mkST c :: body) s' out ∧ s'.hlStack = lastChain body ∧
      s'.hlCount = (body.filter isHL).length := by
  obtain ⟨s', hrun, _, _, _, _, _, _, _, _, inv⟩ := openSet_run s c body hd
  exact ⟨s', _, hrun, inv.hlStack, inv.hlCount⟩

/-- the table really holds ancestor chains: the `k`-th entry starts with `k`, and what follows a member of a chain is
that member's own chain (so the tail of a chain is the chain of the parent) -/
theorem chain_suffix_is_chain (ps : List (Option Str)) (c : List Nat) (hc : c ∈ chainTable ps) (k : Nat) (r : List Nat)
    (hs : (k :: r) <:+ c) : (chainTable ps)[k - 1]? = some (k :: r) :=
  good_chainTable ps c hc k r hs

/-- D37 in the model: HL 4 has a blank parent, yet HL 5 may still name HL 1 of the closed tree -/
theorem hl_blank_parent_keeps_closed_tree :
    hlErrs [⟨idHL, some ['1'], some [], false⟩, ⟨idHL, some ['2'], some ['1'], false⟩,
            ⟨idHL, some ['3'], some ['2'], false⟩, ⟨idHL, some ['4'], some [], false⟩]
           ⟨idHL, some ['5'], some ['1'], false⟩ = [] := by decide

/-! ### totality -/

/-- the guarded reader raises no unintended exception, whatever the segment sequence -/
theorem reader_total (chk : Bool) (segs : List SegView) (e : Exc) : run Fixes.all chk segs ≠ .crash e := by
  unfold run
  exact noCrash_bind _ _ (runSegs_noCrash segs _) (fun _ => noCrash_ok _) e

def reader_total_unfixed : Prop := ∀ (chk : Bool) (segs : List SegView) (e : Exc), run Fixes.none chk segs ≠ .crash e

/-- D5: a GE right after the ISA pops the ISA and then indexes an empty stack -/
theorem d5_witness :
    run Fixes.none false [mkISA (some ['1']), mkGE (some ['1']) (some ['1'])] = .crash Exc.indexError := by decide

/-- D6: `GE~` — the count element is absent, `int(None)` -/
theorem d6_witness :
    run Fixes.none false [mkISA (some ['1']), mkGS (some ['1']), mkGE none none] = .crash Exc.typeError := by decide

/-- D34: a non-numeric HL02 is formatted with `{:d}` -/
theorem d34_witness :
    run ⟨false, true, false⟩ false [mkISA (some ['1']), mkGS (some ['1']), mkST (some ['1']),
      ⟨idHL, some ['1'], some ['X'], false⟩] = .crash Exc.typeError := by decide

theorem reader_total_unfixed_counterexample : ¬ reader_total_unfixed :=
  fun h => h false _ _ d5_witness

/-! ### other arrangements -/

/-- the recogniser `properlyNested` accepts exactly the flattenings of structured documents whose trailers may be
missing at the end of input (views normalised as `flatten` builds them) -/
theorem properlyNested_iff (s : List SegView) (hn : ∀ v ∈ s, Normal v) :
    properlyNested s = true ↔ ∃ d : Doc, DocDomain false d ∧ flattenDoc d = s := by
  constructor
  · exact nested_is_flattening s hn
  · rintro ⟨d, hd, rfl⟩; exact flattenDoc_nested false d hd

/-- "for any other arrangement of header and trailer segments at least one envelope error is reported":
whenever the input is not the flattening of any structured document, a run that completes reports something -/
def not_nested_reports_full : Prop :=
  ∀ (chk : Bool) (segs : List SegView) (outs : List (List Err)),
    (∀ v ∈ segs, Normal v) → (¬ ∃ d : Doc, DocDomain false d ∧ flattenDoc d = segs) →
    run Fixes.all chk segs = .ok outs → outs.flatten ≠ []

def d38_witness : List SegView :=
  [mkISA (some ['1']), mkISA (some ['2']), mkIEA (some ['0']) (some ['2']), mkIEA (some ['0']) (some ['1'])]

theorem d38_witness_not_nested : properlyNested d38_witness = false := by decide

theorem d38_witness_normal : ∀ v ∈ d38_witness, Normal v := by
  intro v hv
  simp only [d38_witness, List.mem_cons, List.mem_nil_iff, or_false] at hv
  rcases hv with rfl | rfl | rfl | rfl <;> simp [Normal, mkISA, mkIEA, idISA, idIEA, idGS, idST, idSE, idGE]

theorem d38_witness_no_error : run Fixes.all false d38_witness = .ok [[], [], [], [], []] := by decide

/-- D38: `ISA ISA IEA IEA` is no flattening and draws no error at all -/
theorem not_nested_reports_counterexample : ¬ not_nested_reports_full := by
  intro h
  refine h false d38_witness _ d38_witness_normal ?_ d38_witness_no_error rfl
  intro hex
  have := (properlyNested_iff d38_witness d38_witness_normal).mpr hex
  rw [d38_witness_not_nested] at this
  cases this

/-- the other D38 arrangements: GS in GS, ST in ST, a set directly inside an interchange, a body segment outside any set -/
example : properlyNested [mkISA (some ['1']), mkGS (some ['1']), mkGS (some ['2']), mkGE (some ['0']) (some ['2']),
      mkGE (some ['0']) (some ['1']), mkIEA (some ['2']) (some ['1'])] = false ∧
    run Fixes.all false [mkISA (some ['1']), mkGS (some ['1']), mkGS (some ['2']), mkGE (some ['0']) (some ['2']),
      mkGE (some ['0']) (some ['1']), mkIEA (some ['2']) (some ['1'])] = .ok [[], [], [], [], [], [], []] := by decide

example : properlyNested [mkISA (some ['1']), mkST (some ['1']), mkSE (some ['2']) (some ['1']),
      mkIEA (some ['0']) (some ['1'])] = false ∧
    run Fixes.all false [mkISA (some ['1']), mkST (some ['1']), mkSE (some ['2']) (some ['1']),
      mkIEA (some ['0']) (some ['1'])] = .ok [[], [], [], [], []] := by decide

example : properlyNested [mkISA (some ['1']), ⟨['R', 'E', 'F'], none, none, false⟩, mkIEA (some ['0']) (some ['1'])] = false ∧
    run Fixes.all false [mkISA (some ['1']), ⟨['R', 'E', 'F'], none, none, false⟩, mkIEA (some ['0']) (some ['1'])]
      = .ok [[], [], [], []] := by decide

/-- what a stack of open envelopes does notice -/
inductive StackNotices (chk : Bool) (segs : List SegView) : Prop
  /-- a trailer arrives while the innermost open envelope is not its own header: another kind (wrong-kind trailer),
  the right kind with another control number (mismatch), or nothing open at all (orphan trailer) -/
  | unmatchedTrailer (pre post : List SegView) (v : SegView) (s : RState) (o : List (List Err)) (k : Kind) :
      segs = pre ++ v :: post → Runs (RState.init chk) pre s o → trailerKind v = some k →
      s.loops.head? ≠ some (k, v.ctl) → StackNotices chk segs
  /-- the input ends while an envelope is still open (missing trailer at end of input) -/
  | missingTrailer (s : RState) (o : List (List Err)) :
      Runs (RState.init chk) segs s o → s.loops ≠ [] → StackNotices chk segs

theorem not_nested_reports_partial (chk : Bool) (segs : List SegView) (outs : List (List Err))
    (h : StackNotices chk segs) (hr : run Fixes.all chk segs = .ok outs) : outs.flatten ≠ [] := by
  unfold run at hr
  cases hrs : runSegs Fixes.all (RState.init chk) segs with
  | raised => simp [hrs, Outcome.bind] at hr
  | crash e => simp [hrs, Outcome.bind] at hr
  | ok a =>
    simp only [hrs, Outcome.bind] at hr
    injection hr with hr
    have hruns : Runs (RState.init chk) segs a.1 a.2 := hrs
    cases h with
    | unmatchedTrailer pre post v s o k hseg hpre hk hu =>
      rw [hseg] at hruns
      obtain ⟨s1, o1, o2, r1, r2, eo⟩ := Runs.append_inv hruns
      obtain ⟨e1, _⟩ := Runs.det r1 hpre
      subst e1
      obtain ⟨s2, es, o', hs, _, eo'⟩ := Runs.cons_inv r2
      obtain ⟨s3, es', hs', hne⟩ := unmatched_trailer_step s1 v k hk hu
      rw [hs] at hs'
      injection hs' with hs'
      injection hs' with _ e3
      subst e3
      rw [← hr, eo, eo']
      cases es with
      | nil => exact absurd rfl hne
      | cons x xs => simp
    | missingTrailer s o hrun hl =>
      obtain ⟨e1, _⟩ := Runs.det hruns hrun
      have := cleanup_ne_nil a.1 (e1 ▸ hl)
      rw [← hr]
      cases hc : cleanup a.1 with
      | nil => exact absurd hc this
      | cons x xs => simp

/-- every flattening of a structured document (trailers possibly missing at the end) is accepted by the recogniser, so
`properlyNested s = false` implies that `s` is no such flattening -/
theorem flattenDoc_properlyNested (chk : Bool) (d : Doc) (hd : DocDomain chk d) :
    properlyNested (flattenDoc d) = true := flattenDoc_nested chk d hd

/-! ### the hypotheses are satisfiable; the recount is not vacuous -/

def goodSet : TSet :=
  ⟨some ['0', '1'],
   [⟨idHL, some ['1'], some [], false⟩, ⟨idHL, some [' ', '2'], some ['+', '1'], false⟩, ⟨idCLM, none, none, false⟩,
    ⟨idLX, some ['1'], none, false⟩, ⟨idLX, some ['2'], none, false⟩],
   some ['7'], some ['0', '1']⟩

def goodDoc : List Interchange :=
  [⟨some ['9'], [⟨some ['5'], [goodSet], some ['1'], some ['5']⟩], some ['0', '1'], some ['9']⟩]

example : recountSegs true goodDoc = [[], [], [], [], [], [], [], [], [], [], [], []] := by decide
example : run Fixes.all true (flatten goodDoc) = .ok (recountSegs true goodDoc) := by decide

/-- a document with one discrepancy of each envelope kind -/
def badDoc : List Interchange :=
  [⟨some ['9'], [⟨some ['5'], [goodSet, { goodSet with seCnt := some ['8'], seCtl := some ['1'] }], some ['1'], some ['6']⟩],
    some ['X'], some ['9']⟩,
   ⟨some ['9'], [], some ['0'], none⟩]

example : recount true badDoc =
    [Err.st23, Err.st3, Err.st4, Err.gs4, Err.gs5, Err.isa021, Err.isa025, Err.isa001] := by decide
example : errs (run Fixes.all true (flatten badDoc)) = recount true badDoc := by decide

/-! ### `int()` beyond ASCII -/

/-- below U+007F `int()` is the ASCII reader: `pyInt` as it was defined before non-ASCII text was modelled -/
theorem pyInt_ascii (s : Str) (h : ∀ c ∈ s, c.toNat < 127) : pyInt s = signedInt (dropSpace s) :=
  pyInt_of_ascii s h

/-- a run of 1 .. 4300 ASCII digits reads as its decimal value (`Nat.ofDigitChars`: the standard library's reading) -/
theorem pyInt_ascii_digits (s : Str) (hne : s ≠ []) (h : ∀ c ∈ s, isDigit c = true) (hlen : s.length ≤ maxStrDigits) :
    pyInt s = some (Nat.ofDigitChars 10 s 0 : Nat) := by
  rw [pyInt_unicode_digits s hne (fun c hc => by rw [pyDigitVal_ascii c (h c hc)]; simp) hlen]
  have key : ∀ (l : Str) (acc : Nat), (∀ c ∈ l, isDigit c = true) → uniVal acc l = Nat.ofDigitChars 10 l acc := by
    intro l
    induction l with
    | nil => intro acc _; simp [uniVal]
    | cons c r ih =>
      intro acc hl
      simp only [uniVal, pyDigitVal_ascii c (hl c (by simp)), Option.getD_some, Nat.ofDigitChars_cons]
      rw [ih _ (fun x hx => hl x (List.mem_cons_of_mem _ hx)), Nat.mul_comm]
      rfl
  rw [key s 0 h]

/-- what `int()` skips on the left: `\t \n \v \f \r`, blank and every `isspace` character from U+007F up -/
theorem pyInt_skips (c : Char) (s : Str) (h : isIntSpace c = true ∨ (127 ≤ c.toNat ∧ isPySpace c = true)) :
    pyInt (c :: s) = pyInt s := by
  apply pyInt_skip_left
  simp only [isSkipped, Bool.or_eq_true, Bool.and_eq_true, decide_eq_true_eq]
  exact h

/-- a character from U+007F up that is neither `isspace` nor a decimal digit, anywhere: `int()` raises ValueError -/
theorem pyInt_rejects (a b : Str) (c : Char) (h1 : 127 ≤ c.toNat) (h2 : isPySpace c = false) (h3 : pyDigitVal c = none) :
    pyInt (a ++ c :: b) = none :=
  pyInt_bad_char a b c ⟨h1, h2, h3⟩

/-- non-vacuity, each line observed on CPython 3.12: Arabic-Indic and fullwidth digits, mixed scripts, U+2028 / U+00A0 /
U+3000 / U+0085 skipped, U+001C (isspace, but not skipped), a non-digit letter, superscript two (a digit, not a decimal) -/
theorem pyInt_unicode_example :
    pyInt ['١', '٢'] = some 12 ∧ pyInt ['1', ' '] = some 1 ∧ pyInt ['１', '٢', '3'] = some 123 ∧
    pyInt ['\u2028', '-', '٤', '_', '２', '\u00a0', '\u3000', '\u0085'] = some (-42) ∧
    pyInt ['1', '\u2028'] = some 1 ∧ pyInt ['\u2028'] = none ∧ pyInt ['\x1c', '1'] = none ∧ pyInt ['1', '\x1f'] = none ∧
    pyInt ['1', 'é'] = none ∧ pyInt ['²'] = none ∧ pyInt ['１', '_', '_', '２'] = none ∧ pyInt ['𝟗', '\x7f'] = none ∧
    pyInt ['𝟗', '𑁦'] = some 90 := by decide

example : isPySpace '\x1c' = true ∧ isPySpace '\u2029' = true ∧ isPySpace '\u200b' = false ∧
    pyDigitVal '٣' = some 3 ∧ pyDigitVal '🯹' = some 9 ∧ pyDigitVal '²' = none ∧ pyDigitVal 'a' = none := by decide

example : pyInt [' ', '+', '1', '_', '0', '\t'] = some 10 := by decide
example : pyInt ['1', '_'] = none ∧ pyInt ['_', '1'] = none ∧ pyInt ['1', '_', '_', '0'] = none ∧
    pyInt ['+', ' ', '1'] = none ∧ pyInt [] = none ∧ pyInt ['-', '0'] = some 0 ∧ pyInt ['\x1c', '1'] = none := by decide

end Pyx12Verif.Envelope
