/-
Non-vacuity for Props/C06Reval.lean, evaluated by the kernel (part 1: the maps, the source document, its acknowledgement).

The maps of Props/DocExample.lean (control map + one transaction map) are extended by a COPY of the shipped 997 map
(`m997`: skeleton, every segment / element definition, string table — printed by `tools/xack.py --example`; the translator
emits the same term from the current file as `Gen.X997_4010` together with the obligations about it) and the index entry
(00401, 004010, FA).  A document with two errors is validated and the 997 for it is written by the model of the repaired
visitor.  The decidable map hypotheses of `ack997_revalidates` hold for the copy (`shape997`, `ackDefsOk`, `ackKeysOkOf`,
`isaDefOk`, `WFMap`, `Unambiguous`).  Part 2 (Props/C06RevalExample2.lean) feeds the written text back to `Doc.validateDoc`.
-/
import Pyx12Verif.Props.C06Reval
import Pyx12Verif.Props.DocExample

namespace Pyx12Verif.C06R.Ex
open Pyx12Verif Pyx12Verif.Ack Pyx12Verif.C06 Pyx12Verif.MapSkel Pyx12Verif.WalkerGen

set_option maxRecDepth 100000

/-- skeleton of 997.4010.xml (copy; the translator regenerates `Gen.M997_4010` from the current file) -/
def root997 : List MapSkel.Node := [
    .loop 10 1 0 0 false [
      .seg 11 0 10 0 1 []
        [.elem { xid := 101, seq := 1, usage := 0, dataEle := 102, isID := true, isAN := false, codes := [103, 104], ncodes := 2, ext := 0, regex := false },
         .elem { xid := 105, seq := 2, usage := 0, dataEle := 106, isID := false, isAN := true, codes := [], ncodes := 0, ext := 0, regex := false },
         .elem { xid := 107, seq := 3, usage := 0, dataEle := 108, isID := true, isAN := false, codes := [103, 109], ncodes := 2, ext := 0, regex := false },
         .elem { xid := 110, seq := 4, usage := 0, dataEle := 111, isID := false, isAN := true, codes := [], ncodes := 0, ext := 0, regex := false },
         .elem { xid := 112, seq := 5, usage := 0, dataEle := 113, isID := true, isAN := false, codes := [], ncodes := 9, ext := 0, regex := false },
         .elem { xid := 114, seq := 6, usage := 0, dataEle := 115, isID := false, isAN := true, codes := [], ncodes := 0, ext := 0, regex := false },
         .elem { xid := 116, seq := 7, usage := 0, dataEle := 113, isID := true, isAN := false, codes := [], ncodes := 9, ext := 0, regex := false },
         .elem { xid := 117, seq := 8, usage := 0, dataEle := 118, isID := false, isAN := true, codes := [], ncodes := 0, ext := 0, regex := false },
         .elem { xid := 119, seq := 9, usage := 0, dataEle := 120, isID := false, isAN := false, codes := [], ncodes := 0, ext := 0, regex := false },
         .elem { xid := 121, seq := 10, usage := 0, dataEle := 122, isID := false, isAN := false, codes := [], ncodes := 0, ext := 0, regex := false },
         .elem { xid := 123, seq := 11, usage := 0, dataEle := 124, isID := true, isAN := false, codes := [], ncodes := 1, ext := 0, regex := false },
         .elem { xid := 125, seq := 12, usage := 0, dataEle := 126, isID := true, isAN := false, codes := [], ncodes := 1, ext := 0, regex := false },
         .elem { xid := 127, seq := 13, usage := 0, dataEle := 128, isID := false, isAN := false, codes := [], ncodes := 0, ext := 0, regex := false },
         .elem { xid := 129, seq := 14, usage := 0, dataEle := 130, isID := true, isAN := false, codes := [], ncodes := 2, ext := 0, regex := false },
         .elem { xid := 131, seq := 15, usage := 0, dataEle := 132, isID := true, isAN := false, codes := [], ncodes := 2, ext := 0, regex := false },
         .elem { xid := 133, seq := 16, usage := 0, dataEle := 134, isID := false, isAN := true, codes := [], ncodes := 0, ext := 0, regex := false }],
      .loop 12 20 0 0 false [
        .seg 13 0 10 0 1 []
          [.elem { xid := 135, seq := 1, usage := 0, dataEle := 136, isID := true, isAN := false, codes := [137, 138, 139, 140, 141, 142, 143, 144, 145, 146], ncodes := 10, ext := 0, regex := false },
           .elem { xid := 147, seq := 2, usage := 0, dataEle := 148, isID := false, isAN := true, codes := [], ncodes := 0, ext := 0, regex := false },
           .elem { xid := 149, seq := 3, usage := 0, dataEle := 150, isID := false, isAN := true, codes := [], ncodes := 0, ext := 0, regex := false },
           .elem { xid := 151, seq := 4, usage := 0, dataEle := 152, isID := false, isAN := false, codes := [], ncodes := 0, ext := 0, regex := false },
           .elem { xid := 153, seq := 5, usage := 0, dataEle := 154, isID := false, isAN := false, codes := [], ncodes := 0, ext := 0, regex := false },
           .elem { xid := 155, seq := 6, usage := 0, dataEle := 156, isID := false, isAN := false, codes := [], ncodes := 0, ext := 0, regex := false },
           .elem { xid := 157, seq := 7, usage := 0, dataEle := 158, isID := true, isAN := false, codes := [], ncodes := 1, ext := 0, regex := false },
           .elem { xid := 159, seq := 8, usage := 0, dataEle := 160, isID := false, isAN := true, codes := [], ncodes := 19, ext := 0, regex := false }],
        .loop 14 20 0 0 false [
          .seg 166 0 5 0 1 []
            [.elem { xid := 161, seq := 1, usage := 0, dataEle := 162, isID := true, isAN := false, codes := [163], ncodes := 1, ext := 0, regex := false },
             .elem { xid := 164, seq := 2, usage := 0, dataEle := 165, isID := false, isAN := true, codes := [], ncodes := 0, ext := 0, regex := false }],
          .loop 16 10 0 1 true [
            .seg 169 0 20 0 1 []
              [.elem { xid := 167, seq := 1, usage := 0, dataEle := 136, isID := true, isAN := false, codes := [139, 141, 138, 137, 144, 140, 145, 142, 143], ncodes := 9, ext := 0, regex := false },
               .elem { xid := 168, seq := 2, usage := 0, dataEle := 156, isID := false, isAN := false, codes := [], ncodes := 0, ext := 0, regex := false }],
            .loop 170 30 1 999999 false [
              .seg 170 0 30 0 1 []
                [.elem { xid := 172, seq := 1, usage := 0, dataEle := 162, isID := true, isAN := false, codes := [173, 174, 175, 176, 177, 178, 179, 180, 181], ncodes := 9, ext := 0, regex := false },
                 .elem { xid := 182, seq := 2, usage := 0, dataEle := 165, isID := false, isAN := true, codes := [], ncodes := 0, ext := 0, regex := false }],
              .loop 183 40 1 999999 false [
                .seg 183 0 40 0 1 []
                  [.elem { xid := 184, seq := 1, usage := 0, dataEle := 185, isID := true, isAN := false, codes := [], ncodes := 0, ext := 0, regex := false },
                   .elem { xid := 186, seq := 2, usage := 0, dataEle := 187, isID := false, isAN := false, codes := [], ncodes := 0, ext := 0, regex := false },
                   .elem { xid := 188, seq := 3, usage := 1, dataEle := 189, isID := false, isAN := true, codes := [], ncodes := 0, ext := 0, regex := false },
                   .elem { xid := 190, seq := 4, usage := 1, dataEle := 191, isID := true, isAN := false, codes := [], ncodes := 8, ext := 0, regex := false }],
                .seg 213 0 50 1 99 []
                  [.comp 0 1 0 196 [{ xid := 192, seq := 1, usage := 0, dataEle := 193, isID := false, isAN := false, codes := [], ncodes := 0, ext := 0, regex := false }, { xid := 194, seq := 2, usage := 1, dataEle := 195, isID := false, isAN := false, codes := [], ncodes := 0, ext := 0, regex := false }],
                   .elem { xid := 197, seq := 2, usage := 1, dataEle := 198, isID := false, isAN := false, codes := [], ncodes := 0, ext := 0, regex := false },
                   .elem { xid := 199, seq := 3, usage := 0, dataEle := 200, isID := true, isAN := false, codes := [201, 202, 203, 204, 205, 206, 207, 208, 209, 210], ncodes := 10, ext := 0, regex := false },
                   .elem { xid := 211, seq := 4, usage := 1, dataEle := 212, isID := false, isAN := true, codes := [], ncodes := 0, ext := 0, regex := false }]],
              .seg 238 0 60 0 1 []
                [.elem { xid := 214, seq := 1, usage := 0, dataEle := 215, isID := true, isAN := false, codes := [216, 217, 218, 100, 219, 220], ncodes := 6, ext := 0, regex := false },
                 .elem { xid := 221, seq := 2, usage := 1, dataEle := 222, isID := true, isAN := false, codes := [201, 202, 203, 204, 205, 206, 207, 208, 209, 210, 223, 224, 225, 226, 227, 228, 229, 230, 231, 232, 233], ncodes := 21, ext := 0, regex := false },
                 .elem { xid := 234, seq := 3, usage := 1, dataEle := 222, isID := true, isAN := false, codes := [201, 202, 203, 204, 205, 206, 207, 208, 209, 210, 223, 224, 225, 226, 227, 228, 229, 230, 231, 232, 233], ncodes := 21, ext := 0, regex := false },
                 .elem { xid := 235, seq := 4, usage := 1, dataEle := 222, isID := true, isAN := false, codes := [], ncodes := 21, ext := 0, regex := false },
                 .elem { xid := 236, seq := 5, usage := 1, dataEle := 222, isID := true, isAN := false, codes := [], ncodes := 21, ext := 0, regex := false },
                 .elem { xid := 237, seq := 6, usage := 1, dataEle := 222, isID := true, isAN := false, codes := [], ncodes := 21, ext := 0, regex := false }]],
            .seg 253 0 70 0 1 []
              [.elem { xid := 239, seq := 1, usage := 0, dataEle := 240, isID := true, isAN := false, codes := [216, 217, 218, 241, 100, 219, 220], ncodes := 7, ext := 0, regex := false },
               .elem { xid := 242, seq := 2, usage := 0, dataEle := 243, isID := false, isAN := false, codes := [], ncodes := 0, ext := 0, regex := false },
               .elem { xid := 244, seq := 3, usage := 0, dataEle := 245, isID := false, isAN := false, codes := [], ncodes := 0, ext := 0, regex := false },
               .elem { xid := 246, seq := 4, usage := 0, dataEle := 202, isID := false, isAN := false, codes := [], ncodes := 0, ext := 0, regex := false },
               .elem { xid := 247, seq := 5, usage := 1, dataEle := 248, isID := true, isAN := false, codes := [], ncodes := 19, ext := 0, regex := false },
               .elem { xid := 249, seq := 6, usage := 1, dataEle := 248, isID := true, isAN := false, codes := [], ncodes := 19, ext := 0, regex := false },
               .elem { xid := 250, seq := 7, usage := 1, dataEle := 248, isID := true, isAN := false, codes := [], ncodes := 19, ext := 0, regex := false },
               .elem { xid := 251, seq := 8, usage := 1, dataEle := 248, isID := true, isAN := false, codes := [], ncodes := 19, ext := 0, regex := false },
               .elem { xid := 252, seq := 9, usage := 1, dataEle := 248, isID := true, isAN := false, codes := [], ncodes := 19, ext := 0, regex := false }]],
          .loop 254 20 2 0 true [
],
          .loop 256 30 2 1 true [
],
          .seg 260 0 80 0 1 []
            [.elem { xid := 257, seq := 1, usage := 0, dataEle := 258, isID := false, isAN := false, codes := [], ncodes := 0, ext := 0, regex := false },
             .elem { xid := 259, seq := 2, usage := 0, dataEle := 165, isID := false, isAN := true, codes := [], ncodes := 0, ext := 0, regex := false }]],
        .seg 263 0 30 0 1 []
          [.elem { xid := 261, seq := 1, usage := 0, dataEle := 243, isID := false, isAN := false, codes := [], ncodes := 0, ext := 0, regex := false },
           .elem { xid := 262, seq := 2, usage := 0, dataEle := 156, isID := false, isAN := false, codes := [], ncodes := 0, ext := 0, regex := false }]],
      .seg 271 0 20 1 1 []
        [.elem { xid := 264, seq := 1, usage := 0, dataEle := 128, isID := false, isAN := false, codes := [], ncodes := 0, ext := 0, regex := false },
         .elem { xid := 265, seq := 2, usage := 0, dataEle := 120, isID := false, isAN := false, codes := [], ncodes := 0, ext := 0, regex := false },
         .elem { xid := 266, seq := 3, usage := 0, dataEle := 122, isID := false, isAN := false, codes := [], ncodes := 0, ext := 0, regex := false },
         .elem { xid := 267, seq := 4, usage := 0, dataEle := 268, isID := true, isAN := false, codes := [], ncodes := 3, ext := 0, regex := false },
         .elem { xid := 269, seq := 5, usage := 0, dataEle := 270, isID := true, isAN := false, codes := [], ncodes := 32, ext := 0, regex := false }],
      .seg 275 0 30 0 1 []
        [.elem { xid := 272, seq := 1, usage := 0, dataEle := 273, isID := false, isAN := false, codes := [], ncodes := 0, ext := 0, regex := false },
         .elem { xid := 274, seq := 2, usage := 0, dataEle := 128, isID := false, isAN := false, codes := [], ncodes := 0, ext := 0, regex := false }]]]

def m997 : Pyx12Verif.Doc.MapX :=
  { file := "997.4010.xml".toList, is837 := false, v5010 := false, rootId := 163, root := root997,
    defs := [
      ([0, 0], { sid := "ISA".toList, name := "Interchange Control Header".toList, notes := [], children := [
        .elem { d := { usage := .R, dataType := "ID".toList, minLen := 2, maxLen := 2, codes := ["00".toList, "03".toList], extDeclared := false, hasRegex := false, typeList := [], seq := 1, parentComposite := false, parentRequired := false }, defined := true, name := "Authorization Information Qualifier".toList, refdes := "ISA01".toList, dataEle := (some "I01".toList), ext := [], regex := [] },
        .elem { d := { usage := .R, dataType := "AN".toList, minLen := 10, maxLen := 10, codes := [], extDeclared := false, hasRegex := false, typeList := [], seq := 2, parentComposite := false, parentRequired := false }, defined := true, name := "Authorization Information".toList, refdes := "ISA02".toList, dataEle := (some "I02".toList), ext := [], regex := [] },
        .elem { d := { usage := .R, dataType := "ID".toList, minLen := 2, maxLen := 2, codes := ["00".toList, "01".toList], extDeclared := false, hasRegex := false, typeList := [], seq := 3, parentComposite := false, parentRequired := false }, defined := true, name := "Security Information Qualifier".toList, refdes := "ISA03".toList, dataEle := (some "I03".toList), ext := [], regex := [] },
        .elem { d := { usage := .R, dataType := "AN".toList, minLen := 10, maxLen := 10, codes := [], extDeclared := false, hasRegex := false, typeList := [], seq := 4, parentComposite := false, parentRequired := false }, defined := true, name := "Security Information".toList, refdes := "ISA04".toList, dataEle := (some "I04".toList), ext := [], regex := [] },
        .elem { d := { usage := .R, dataType := "ID".toList, minLen := 2, maxLen := 2, codes := ["01".toList, "14".toList, "20".toList, "27".toList, "28".toList, "29".toList, "30".toList, "33".toList, "ZZ".toList], extDeclared := false, hasRegex := false, typeList := [], seq := 5, parentComposite := false, parentRequired := false }, defined := true, name := "Interchange ID Qualifier".toList, refdes := "ISA05".toList, dataEle := (some "I05".toList), ext := [], regex := [] },
        .elem { d := { usage := .R, dataType := "AN".toList, minLen := 15, maxLen := 15, codes := [], extDeclared := false, hasRegex := false, typeList := [], seq := 6, parentComposite := false, parentRequired := false }, defined := true, name := "Interchange Sender ID".toList, refdes := "ISA06".toList, dataEle := (some "I06".toList), ext := [], regex := [] },
        .elem { d := { usage := .R, dataType := "ID".toList, minLen := 2, maxLen := 2, codes := ["01".toList, "14".toList, "20".toList, "27".toList, "28".toList, "29".toList, "30".toList, "33".toList, "ZZ".toList], extDeclared := false, hasRegex := false, typeList := [], seq := 7, parentComposite := false, parentRequired := false }, defined := true, name := "Interchange ID Qualifier".toList, refdes := "ISA07".toList, dataEle := (some "I05".toList), ext := [], regex := [] },
        .elem { d := { usage := .R, dataType := "AN".toList, minLen := 15, maxLen := 15, codes := [], extDeclared := false, hasRegex := false, typeList := [], seq := 8, parentComposite := false, parentRequired := false }, defined := true, name := "Interchange Receiver ID".toList, refdes := "ISA08".toList, dataEle := (some "I07".toList), ext := [], regex := [] },
        .elem { d := { usage := .R, dataType := "DT".toList, minLen := 6, maxLen := 6, codes := [], extDeclared := false, hasRegex := false, typeList := [], seq := 9, parentComposite := false, parentRequired := false }, defined := true, name := "Interchange Date".toList, refdes := "ISA09".toList, dataEle := (some "I08".toList), ext := [], regex := [] },
        .elem { d := { usage := .R, dataType := "TM".toList, minLen := 4, maxLen := 4, codes := [], extDeclared := false, hasRegex := false, typeList := [], seq := 10, parentComposite := false, parentRequired := false }, defined := true, name := "Interchange Time".toList, refdes := "ISA10".toList, dataEle := (some "I09".toList), ext := [], regex := [] },
        .elem { d := { usage := .R, dataType := "ID".toList, minLen := 1, maxLen := 1, codes := ["U".toList], extDeclared := false, hasRegex := false, typeList := [], seq := 11, parentComposite := false, parentRequired := false }, defined := true, name := "Interchange Control Standards Identifier".toList, refdes := "ISA11".toList, dataEle := (some "I10".toList), ext := [], regex := [] },
        .elem { d := { usage := .R, dataType := "ID".toList, minLen := 5, maxLen := 5, codes := ["00401".toList], extDeclared := false, hasRegex := false, typeList := [], seq := 12, parentComposite := false, parentRequired := false }, defined := true, name := "Interchange Control Version Number".toList, refdes := "ISA12".toList, dataEle := (some "I11".toList), ext := [], regex := [] },
        .elem { d := { usage := .R, dataType := "N0".toList, minLen := 9, maxLen := 9, codes := [], extDeclared := false, hasRegex := false, typeList := [], seq := 13, parentComposite := false, parentRequired := false }, defined := true, name := "Interchange Control Number".toList, refdes := "ISA13".toList, dataEle := (some "I12".toList), ext := [], regex := [] },
        .elem { d := { usage := .R, dataType := "ID".toList, minLen := 1, maxLen := 1, codes := ["0".toList, "1".toList], extDeclared := false, hasRegex := false, typeList := [], seq := 14, parentComposite := false, parentRequired := false }, defined := true, name := "Acknowledgment Requested".toList, refdes := "ISA14".toList, dataEle := (some "I13".toList), ext := [], regex := [] },
        .elem { d := { usage := .R, dataType := "ID".toList, minLen := 1, maxLen := 1, codes := ["P".toList, "T".toList], extDeclared := false, hasRegex := false, typeList := [], seq := 15, parentComposite := false, parentRequired := false }, defined := true, name := "Usage Indicator".toList, refdes := "ISA15".toList, dataEle := (some "I14".toList), ext := [], regex := [] },
        .elem { d := { usage := .R, dataType := "AN".toList, minLen := 1, maxLen := 1, codes := [], extDeclared := false, hasRegex := false, typeList := [], seq := 16, parentComposite := false, parentRequired := false }, defined := true, name := "Component Element Separator".toList, refdes := "ISA16".toList, dataEle := (some "I15".toList), ext := [], regex := [] }] }),
      ([0, 1, 0], { sid := "GS".toList, name := "Functional Group Header".toList, notes := [], children := [
        .elem { d := { usage := .R, dataType := "ID".toList, minLen := 2, maxLen := 2, codes := ["HI".toList, "HC".toList, "BE".toList, "HP".toList, "HB".toList, "HS".toList, "RA".toList, "HN".toList, "HR".toList, "FA".toList], extDeclared := false, hasRegex := false, typeList := [], seq := 1, parentComposite := false, parentRequired := false }, defined := true, name := "Functional Identifier Code".toList, refdes := "GS01".toList, dataEle := (some "479".toList), ext := [], regex := [] },
        .elem { d := { usage := .R, dataType := "AN".toList, minLen := 2, maxLen := 15, codes := [], extDeclared := false, hasRegex := false, typeList := [], seq := 2, parentComposite := false, parentRequired := false }, defined := true, name := "Application Sender's Code".toList, refdes := "GS02".toList, dataEle := (some "142".toList), ext := [], regex := [] },
        .elem { d := { usage := .R, dataType := "AN".toList, minLen := 2, maxLen := 15, codes := [], extDeclared := false, hasRegex := false, typeList := [], seq := 3, parentComposite := false, parentRequired := false }, defined := true, name := "Application Receiver's Code".toList, refdes := "GS03".toList, dataEle := (some "124".toList), ext := [], regex := [] },
        .elem { d := { usage := .R, dataType := "DT".toList, minLen := 8, maxLen := 8, codes := [], extDeclared := false, hasRegex := false, typeList := [], seq := 4, parentComposite := false, parentRequired := false }, defined := true, name := "Date".toList, refdes := "GS04".toList, dataEle := (some "373".toList), ext := [], regex := [] },
        .elem { d := { usage := .R, dataType := "TM".toList, minLen := 4, maxLen := 8, codes := [], extDeclared := false, hasRegex := false, typeList := [], seq := 5, parentComposite := false, parentRequired := false }, defined := true, name := "Time".toList, refdes := "GS05".toList, dataEle := (some "337".toList), ext := [], regex := [] },
        .elem { d := { usage := .R, dataType := "N0".toList, minLen := 1, maxLen := 9, codes := [], extDeclared := false, hasRegex := false, typeList := [], seq := 6, parentComposite := false, parentRequired := false }, defined := true, name := "Group Control Number".toList, refdes := "GS06".toList, dataEle := (some "28".toList), ext := [], regex := [] },
        .elem { d := { usage := .R, dataType := "ID".toList, minLen := 1, maxLen := 2, codes := ["X".toList], extDeclared := false, hasRegex := false, typeList := [], seq := 7, parentComposite := false, parentRequired := false }, defined := true, name := "Responsible Agency Code".toList, refdes := "GS07".toList, dataEle := (some "455".toList), ext := [], regex := [] },
        .elem { d := { usage := .R, dataType := "AN".toList, minLen := 1, maxLen := 12, codes := ["004010".toList, "004010X061".toList, "004010X091".toList, "004010X092".toList, "004010X093".toList, "004010X094".toList, "004010X095".toList, "004010X096".toList, "004010X097".toList, "004010X098".toList, "004010X061A1".toList, "004010X091A1".toList, "004010X092A1".toList, "004010X093A1".toList, "004010X094A1".toList, "004010X095A1".toList, "004010X096A1".toList, "004010X097A1".toList, "004010X098A1".toList], extDeclared := false, hasRegex := false, typeList := [], seq := 8, parentComposite := false, parentRequired := false }, defined := true, name := "Version / Release / Industry Identifier Code".toList, refdes := "GS08".toList, dataEle := (some "480".toList), ext := [], regex := [] }] }),
      ([0, 1, 1, 0], { sid := "ST".toList, name := "Transaction Set Header".toList, notes := [], children := [
        .elem { d := { usage := .R, dataType := "ID".toList, minLen := 3, maxLen := 3, codes := ["997".toList], extDeclared := false, hasRegex := false, typeList := [], seq := 1, parentComposite := false, parentRequired := false }, defined := true, name := "Transaction Set Identifier Code".toList, refdes := "ST01".toList, dataEle := (some "143".toList), ext := [], regex := [] },
        .elem { d := { usage := .R, dataType := "AN".toList, minLen := 4, maxLen := 9, codes := [], extDeclared := false, hasRegex := false, typeList := [], seq := 2, parentComposite := false, parentRequired := false }, defined := true, name := "Transaction Set Control Number".toList, refdes := "ST02".toList, dataEle := (some "329".toList), ext := [], regex := [] }] }),
      ([0, 1, 1, 1, 0], { sid := "AK1".toList, name := "Functional Group Response Header".toList, notes := [], children := [
        .elem { d := { usage := .R, dataType := "ID".toList, minLen := 2, maxLen := 2, codes := ["BE".toList, "HB".toList, "HC".toList, "HI".toList, "HN".toList, "HP".toList, "HR".toList, "HS".toList, "RA".toList], extDeclared := false, hasRegex := false, typeList := [], seq := 1, parentComposite := false, parentRequired := false }, defined := true, name := "Functional Identifier Code".toList, refdes := "AK101".toList, dataEle := (some "479".toList), ext := [], regex := [] },
        .elem { d := { usage := .R, dataType := "N0".toList, minLen := 1, maxLen := 9, codes := [], extDeclared := false, hasRegex := false, typeList := [], seq := 2, parentComposite := false, parentRequired := false }, defined := true, name := "Group Control Number".toList, refdes := "AK102".toList, dataEle := (some "28".toList), ext := [], regex := [] }] }),
      ([0, 1, 1, 1, 1, 0], { sid := "AK2".toList, name := "Transaction Set Response Header".toList, notes := [], children := [
        .elem { d := { usage := .R, dataType := "ID".toList, minLen := 3, maxLen := 3, codes := ["270".toList, "271".toList, "276".toList, "277".toList, "278".toList, "820".toList, "834".toList, "835".toList, "837".toList], extDeclared := false, hasRegex := false, typeList := [], seq := 1, parentComposite := false, parentRequired := false }, defined := true, name := "Transaction Set Identifier Code".toList, refdes := "AK201".toList, dataEle := (some "143".toList), ext := [], regex := [] },
        .elem { d := { usage := .R, dataType := "AN".toList, minLen := 4, maxLen := 9, codes := [], extDeclared := false, hasRegex := false, typeList := [], seq := 2, parentComposite := false, parentRequired := false }, defined := true, name := "Transaction Set Control Number".toList, refdes := "AK202".toList, dataEle := (some "329".toList), ext := [], regex := [] }] }),
      ([0, 1, 1, 1, 1, 1, 0], { sid := "AK3".toList, name := "Data Segment Note".toList, notes := [], children := [
        .elem { d := { usage := .R, dataType := "ID".toList, minLen := 2, maxLen := 3, codes := [], extDeclared := false, hasRegex := false, typeList := [], seq := 1, parentComposite := false, parentRequired := false }, defined := true, name := "Segment ID Code".toList, refdes := "AK301".toList, dataEle := (some "721".toList), ext := [], regex := [] },
        .elem { d := { usage := .R, dataType := "N0".toList, minLen := 1, maxLen := 6, codes := [], extDeclared := false, hasRegex := false, typeList := [], seq := 2, parentComposite := false, parentRequired := false }, defined := true, name := "Segment Position in Transaction Set".toList, refdes := "AK302".toList, dataEle := (some "719".toList), ext := [], regex := [] },
        .elem { d := { usage := .S, dataType := "AN".toList, minLen := 1, maxLen := 4, codes := [], extDeclared := false, hasRegex := false, typeList := [], seq := 3, parentComposite := false, parentRequired := false }, defined := true, name := "Loop Identifier Code".toList, refdes := "AK303".toList, dataEle := (some "447".toList), ext := [], regex := [] },
        .elem { d := { usage := .S, dataType := "ID".toList, minLen := 1, maxLen := 3, codes := ["1".toList, "2".toList, "3".toList, "4".toList, "5".toList, "6".toList, "7".toList, "8".toList], extDeclared := false, hasRegex := false, typeList := [], seq := 4, parentComposite := false, parentRequired := false }, defined := true, name := "Segment Syntax Error Code".toList, refdes := "AK304".toList, dataEle := (some "720".toList), ext := [], regex := [] }] }),
      ([0, 1, 1, 1, 1, 1, 1], { sid := "AK4".toList, name := "Data Element Note".toList, notes := [], children := [
        .comp .R 1 "Position in Segment".toList "None".toList (some "C030".toList) [{ d := { usage := .R, dataType := "N0".toList, minLen := 1, maxLen := 2, codes := [], extDeclared := false, hasRegex := false, typeList := [], seq := 1, parentComposite := true, parentRequired := true }, defined := true, name := "Element Position in Segment".toList, refdes := "AK401-01".toList, dataEle := (some "722".toList), ext := [], regex := [] }, { d := { usage := .S, dataType := "N0".toList, minLen := 1, maxLen := 2, codes := [], extDeclared := false, hasRegex := false, typeList := [], seq := 2, parentComposite := true, parentRequired := true }, defined := true, name := "Component Data Element Position in Composite".toList, refdes := "AK401-02".toList, dataEle := (some "1528".toList), ext := [], regex := [] }],
        .elem { d := { usage := .S, dataType := "N0".toList, minLen := 1, maxLen := 4, codes := [], extDeclared := false, hasRegex := false, typeList := [], seq := 2, parentComposite := false, parentRequired := false }, defined := true, name := "Data Element Reference Number".toList, refdes := "AK402".toList, dataEle := (some "725".toList), ext := [], regex := [] },
        .elem { d := { usage := .R, dataType := "ID".toList, minLen := 1, maxLen := 3, codes := ["1".toList, "2".toList, "3".toList, "4".toList, "5".toList, "6".toList, "7".toList, "8".toList, "9".toList, "10".toList], extDeclared := false, hasRegex := false, typeList := [], seq := 3, parentComposite := false, parentRequired := false }, defined := true, name := "Data Element Syntax Error Code".toList, refdes := "AK403".toList, dataEle := (some "723".toList), ext := [], regex := [] },
        .elem { d := { usage := .S, dataType := "AN".toList, minLen := 1, maxLen := 99, codes := [], extDeclared := false, hasRegex := false, typeList := [], seq := 4, parentComposite := false, parentRequired := false }, defined := true, name := "Copy of Bad Data Element".toList, refdes := "AK404".toList, dataEle := (some "724".toList), ext := [], regex := [] }] }),
      ([0, 1, 1, 1, 1, 2], { sid := "AK5".toList, name := "Transaction Set Response Trailer".toList, notes := [], children := [
        .elem { d := { usage := .R, dataType := "ID".toList, minLen := 1, maxLen := 1, codes := ["A".toList, "E".toList, "M".toList, "R".toList, "W".toList, "X".toList], extDeclared := false, hasRegex := false, typeList := [], seq := 1, parentComposite := false, parentRequired := false }, defined := true, name := "Transaction Set Acknowledgment Code".toList, refdes := "AK501".toList, dataEle := (some "717".toList), ext := [], regex := [] },
        .elem { d := { usage := .S, dataType := "ID".toList, minLen := 1, maxLen := 3, codes := ["1".toList, "2".toList, "3".toList, "4".toList, "5".toList, "6".toList, "7".toList, "8".toList, "9".toList, "10".toList, "11".toList, "12".toList, "13".toList, "15".toList, "16".toList, "17".toList, "23".toList, "24".toList, "25".toList, "26".toList, "27".toList], extDeclared := false, hasRegex := false, typeList := [], seq := 2, parentComposite := false, parentRequired := false }, defined := true, name := "Transaction Set Syntax Error Code".toList, refdes := "AK502".toList, dataEle := (some "718".toList), ext := [], regex := [] },
        .elem { d := { usage := .S, dataType := "ID".toList, minLen := 1, maxLen := 3, codes := ["1".toList, "2".toList, "3".toList, "4".toList, "5".toList, "6".toList, "7".toList, "8".toList, "9".toList, "10".toList, "11".toList, "12".toList, "13".toList, "15".toList, "16".toList, "17".toList, "23".toList, "24".toList, "25".toList, "26".toList, "27".toList], extDeclared := false, hasRegex := false, typeList := [], seq := 3, parentComposite := false, parentRequired := false }, defined := true, name := "Transaction Set Syntax Error Code".toList, refdes := "AK503".toList, dataEle := (some "718".toList), ext := [], regex := [] },
        .elem { d := { usage := .S, dataType := "ID".toList, minLen := 1, maxLen := 3, codes := ["1".toList, "2".toList, "3".toList, "4".toList, "5".toList, "6".toList, "7".toList, "8".toList, "9".toList, "10".toList, "11".toList, "12".toList, "13".toList, "15".toList, "16".toList, "17".toList, "23".toList, "24".toList, "25".toList, "26".toList, "27".toList], extDeclared := false, hasRegex := false, typeList := [], seq := 4, parentComposite := false, parentRequired := false }, defined := true, name := "Transaction Set Syntax Error Code".toList, refdes := "AK504".toList, dataEle := (some "718".toList), ext := [], regex := [] },
        .elem { d := { usage := .S, dataType := "ID".toList, minLen := 1, maxLen := 3, codes := ["1".toList, "2".toList, "3".toList, "4".toList, "5".toList, "6".toList, "7".toList, "8".toList, "9".toList, "10".toList, "11".toList, "12".toList, "13".toList, "15".toList, "16".toList, "17".toList, "23".toList, "24".toList, "25".toList, "26".toList, "27".toList], extDeclared := false, hasRegex := false, typeList := [], seq := 5, parentComposite := false, parentRequired := false }, defined := true, name := "Transaction Set Syntax Error Code".toList, refdes := "AK505".toList, dataEle := (some "718".toList), ext := [], regex := [] },
        .elem { d := { usage := .S, dataType := "ID".toList, minLen := 1, maxLen := 3, codes := ["1".toList, "2".toList, "3".toList, "4".toList, "5".toList, "6".toList, "7".toList, "8".toList, "9".toList, "10".toList, "11".toList, "12".toList, "13".toList, "15".toList, "16".toList, "17".toList, "23".toList, "24".toList, "25".toList, "26".toList, "27".toList], extDeclared := false, hasRegex := false, typeList := [], seq := 6, parentComposite := false, parentRequired := false }, defined := true, name := "Transaction Set Syntax Error Code".toList, refdes := "AK506".toList, dataEle := (some "718".toList), ext := [], regex := [] }] }),
      ([0, 1, 1, 1, 2], { sid := "AK9".toList, name := "Functional Group Response Trailer".toList, notes := [], children := [
        .elem { d := { usage := .R, dataType := "ID".toList, minLen := 1, maxLen := 1, codes := ["A".toList, "E".toList, "M".toList, "P".toList, "R".toList, "W".toList, "X".toList], extDeclared := false, hasRegex := false, typeList := [], seq := 1, parentComposite := false, parentRequired := false }, defined := true, name := "Functional Group Acknowledge Code".toList, refdes := "AK901".toList, dataEle := (some "715".toList), ext := [], regex := [] },
        .elem { d := { usage := .R, dataType := "N0".toList, minLen := 1, maxLen := 6, codes := [], extDeclared := false, hasRegex := false, typeList := [], seq := 2, parentComposite := false, parentRequired := false }, defined := true, name := "Number of Transaction Sets Included".toList, refdes := "AK902".toList, dataEle := (some "97".toList), ext := [], regex := [] },
        .elem { d := { usage := .R, dataType := "N0".toList, minLen := 1, maxLen := 6, codes := [], extDeclared := false, hasRegex := false, typeList := [], seq := 3, parentComposite := false, parentRequired := false }, defined := true, name := "Number of Received Transaction Sets".toList, refdes := "AK903".toList, dataEle := (some "123".toList), ext := [], regex := [] },
        .elem { d := { usage := .R, dataType := "N0".toList, minLen := 1, maxLen := 6, codes := [], extDeclared := false, hasRegex := false, typeList := [], seq := 4, parentComposite := false, parentRequired := false }, defined := true, name := "Number of Accepted Transaction Sets".toList, refdes := "AK904".toList, dataEle := (some "2".toList), ext := [], regex := [] },
        .elem { d := { usage := .S, dataType := "ID".toList, minLen := 1, maxLen := 3, codes := ["1".toList, "2".toList, "3".toList, "4".toList, "5".toList, "6".toList, "10".toList, "11".toList, "12".toList, "13".toList, "14".toList, "15".toList, "16".toList, "17".toList, "18".toList, "23".toList, "24".toList, "25".toList, "26".toList], extDeclared := false, hasRegex := false, typeList := [], seq := 5, parentComposite := false, parentRequired := false }, defined := true, name := "Functional Group Syntax Error Code".toList, refdes := "AK905".toList, dataEle := (some "716".toList), ext := [], regex := [] },
        .elem { d := { usage := .S, dataType := "ID".toList, minLen := 1, maxLen := 3, codes := ["1".toList, "2".toList, "3".toList, "4".toList, "5".toList, "6".toList, "10".toList, "11".toList, "12".toList, "13".toList, "14".toList, "15".toList, "16".toList, "17".toList, "18".toList, "23".toList, "24".toList, "25".toList, "26".toList], extDeclared := false, hasRegex := false, typeList := [], seq := 6, parentComposite := false, parentRequired := false }, defined := true, name := "Functional Group Syntax Error Code".toList, refdes := "AK906".toList, dataEle := (some "716".toList), ext := [], regex := [] },
        .elem { d := { usage := .S, dataType := "ID".toList, minLen := 1, maxLen := 3, codes := ["1".toList, "2".toList, "3".toList, "4".toList, "5".toList, "6".toList, "10".toList, "11".toList, "12".toList, "13".toList, "14".toList, "15".toList, "16".toList, "17".toList, "18".toList, "23".toList, "24".toList, "25".toList, "26".toList], extDeclared := false, hasRegex := false, typeList := [], seq := 7, parentComposite := false, parentRequired := false }, defined := true, name := "Functional Group Syntax Error Code".toList, refdes := "AK907".toList, dataEle := (some "716".toList), ext := [], regex := [] },
        .elem { d := { usage := .S, dataType := "ID".toList, minLen := 1, maxLen := 3, codes := ["1".toList, "2".toList, "3".toList, "4".toList, "5".toList, "6".toList, "10".toList, "11".toList, "12".toList, "13".toList, "14".toList, "15".toList, "16".toList, "17".toList, "18".toList, "23".toList, "24".toList, "25".toList, "26".toList], extDeclared := false, hasRegex := false, typeList := [], seq := 8, parentComposite := false, parentRequired := false }, defined := true, name := "Functional Group Syntax Error Code".toList, refdes := "AK908".toList, dataEle := (some "716".toList), ext := [], regex := [] },
        .elem { d := { usage := .S, dataType := "ID".toList, minLen := 1, maxLen := 3, codes := ["1".toList, "2".toList, "3".toList, "4".toList, "5".toList, "6".toList, "10".toList, "11".toList, "12".toList, "13".toList, "14".toList, "15".toList, "16".toList, "17".toList, "18".toList, "23".toList, "24".toList, "25".toList, "26".toList], extDeclared := false, hasRegex := false, typeList := [], seq := 9, parentComposite := false, parentRequired := false }, defined := true, name := "Functional Group Syntax Error Code".toList, refdes := "AK909".toList, dataEle := (some "716".toList), ext := [], regex := [] }] }),
      ([0, 1, 1, 4], { sid := "SE".toList, name := "Transaction Set Trailer".toList, notes := [], children := [
        .elem { d := { usage := .R, dataType := "N0".toList, minLen := 1, maxLen := 10, codes := [], extDeclared := false, hasRegex := false, typeList := [], seq := 1, parentComposite := false, parentRequired := false }, defined := true, name := "Number of Included Segments".toList, refdes := "SE01".toList, dataEle := (some "96".toList), ext := [], regex := [] },
        .elem { d := { usage := .R, dataType := "AN".toList, minLen := 4, maxLen := 9, codes := [], extDeclared := false, hasRegex := false, typeList := [], seq := 2, parentComposite := false, parentRequired := false }, defined := true, name := "Transaction Set Control Number".toList, refdes := "SE02".toList, dataEle := (some "329".toList), ext := [], regex := [] }] }),
      ([0, 1, 2], { sid := "GE".toList, name := "Functional Group Trailer".toList, notes := [], children := [
        .elem { d := { usage := .R, dataType := "N0".toList, minLen := 1, maxLen := 6, codes := [], extDeclared := false, hasRegex := false, typeList := [], seq := 1, parentComposite := false, parentRequired := false }, defined := true, name := "Number of Transaction Sets Included".toList, refdes := "GE01".toList, dataEle := (some "97".toList), ext := [], regex := [] },
        .elem { d := { usage := .R, dataType := "N0".toList, minLen := 1, maxLen := 9, codes := [], extDeclared := false, hasRegex := false, typeList := [], seq := 2, parentComposite := false, parentRequired := false }, defined := true, name := "Group Control Number".toList, refdes := "GE02".toList, dataEle := (some "28".toList), ext := [], regex := [] }] }),
      ([0, 2], { sid := "TA1".toList, name := "Interchange Acknowledgement".toList, notes := [], children := [
        .elem { d := { usage := .R, dataType := "N0".toList, minLen := 9, maxLen := 9, codes := [], extDeclared := false, hasRegex := false, typeList := [], seq := 1, parentComposite := false, parentRequired := false }, defined := true, name := "Interchange Control Number".toList, refdes := "TA101".toList, dataEle := (some "I12".toList), ext := [], regex := [] },
        .elem { d := { usage := .R, dataType := "DT".toList, minLen := 6, maxLen := 6, codes := [], extDeclared := false, hasRegex := false, typeList := [], seq := 2, parentComposite := false, parentRequired := false }, defined := true, name := "Interchange Date".toList, refdes := "TA102".toList, dataEle := (some "I08".toList), ext := [], regex := [] },
        .elem { d := { usage := .R, dataType := "TM".toList, minLen := 4, maxLen := 4, codes := [], extDeclared := false, hasRegex := false, typeList := [], seq := 3, parentComposite := false, parentRequired := false }, defined := true, name := "Interchange Time".toList, refdes := "TA103".toList, dataEle := (some "I09".toList), ext := [], regex := [] },
        .elem { d := { usage := .R, dataType := "ID".toList, minLen := 1, maxLen := 1, codes := ["A".toList, "E".toList, "R".toList], extDeclared := false, hasRegex := false, typeList := [], seq := 4, parentComposite := false, parentRequired := false }, defined := true, name := "Interchange Acknowledgement Code".toList, refdes := "TA104".toList, dataEle := (some "I17".toList), ext := [], regex := [] },
        .elem { d := { usage := .R, dataType := "ID".toList, minLen := 3, maxLen := 3, codes := ["000".toList, "001".toList, "002".toList, "003".toList, "004".toList, "005".toList, "006".toList, "007".toList, "008".toList, "009".toList, "010".toList, "011".toList, "012".toList, "013".toList, "014".toList, "015".toList, "016".toList, "017".toList, "018".toList, "019".toList, "020".toList, "021".toList, "022".toList, "023".toList, "024".toList, "025".toList, "026".toList, "027".toList, "028".toList, "029".toList, "030".toList, "031".toList], extDeclared := false, hasRegex := false, typeList := [], seq := 5, parentComposite := false, parentRequired := false }, defined := true, name := "Interchange Note Code".toList, refdes := "TA105".toList, dataEle := (some "I18".toList), ext := [], regex := [] }] }),
      ([0, 3], { sid := "IEA".toList, name := "Interchange Control Trailer".toList, notes := [], children := [
        .elem { d := { usage := .R, dataType := "N0".toList, minLen := 1, maxLen := 5, codes := [], extDeclared := false, hasRegex := false, typeList := [], seq := 1, parentComposite := false, parentRequired := false }, defined := true, name := "Number of Included Functional Groups".toList, refdes := "IEA01".toList, dataEle := (some "I16".toList), ext := [], regex := [] },
        .elem { d := { usage := .R, dataType := "N0".toList, minLen := 9, maxLen := 9, codes := [], extDeclared := false, hasRegex := false, typeList := [], seq := 2, parentComposite := false, parentRequired := false }, defined := true, name := "Interchange Control Number".toList, refdes := "IEA02".toList, dataEle := (some "I12".toList), ext := [], regex := [] }] })],
    intern := [("00".toList, 103), ("01".toList, 109), ("03".toList, 104), ("1".toList, 201), ("10".toList, 210), ("11".toList, 223), ("12".toList, 224), ("13".toList, 225), ("15".toList, 226), ("16".toList, 227), ("17".toList, 228), ("2".toList, 202), ("23".toList, 229), ("24".toList, 230), ("25".toList, 231), ("26".toList, 232), ("27".toList, 233), ("270".toList, 173), ("271".toList, 174), ("276".toList, 175), ("277".toList, 176), ("278".toList, 177), ("3".toList, 203), ("4".toList, 204), ("5".toList, 205), ("6".toList, 206), ("7".toList, 207), ("8".toList, 208), ("820".toList, 178), ("834".toList, 179), ("835".toList, 180), ("837".toList, 181), ("9".toList, 209), ("997".toList, 163), ("A".toList, 216), ("AK1".toList, 169), ("AK2".toList, 170), ("AK3".toList, 183), ("AK4".toList, 213), ("AK5".toList, 238), ("AK9".toList, 253), ("BE".toList, 139), ("BHT".toList, 17), ("CTX".toList, 3), ("DETAIL".toList, 254), ("E".toList, 217), ("ENT".toList, 1), ("FA".toList, 146), ("FOOTER".toList, 256), ("GE".toList, 263), ("GS".toList, 13), ("GS_LOOP".toList, 12), ("HB".toList, 141), ("HC".toList, 138), ("HEADER".toList, 16), ("HI".toList, 137), ("HL".toList, 2), ("HN".toList, 144), ("HP".toList, 140), ("HR".toList, 145), ("HS".toList, 142), ("IEA".toList, 275), ("ISA".toList, 11), ("ISA_LOOP".toList, 10), ("M".toList, 218), ("P".toList, 241), ("R".toList, 100), ("RA".toList, 143), ("SE".toList, 260), ("ST".toList, 166), ("ST_LOOP".toList, 14), ("TA1".toList, 271), ("W".toList, 219), ("X".toList, 220)] }

def aids : AckIds := ⟨166, 169, 170, 183, 213, 238, 253, 260, 263, 275⟩


/-- the example maps, the 997 map and its index entry added -/
def ms : Doc.Maps :=
  { Doc.Ex.ms with
      maps := Doc.Ex.ms.maps ++ [m997]
      index := Doc.Ex.ms.index ++ [{ icvn := some "00401".toList, vriic := some "004010".toList, fic := some "FA".toList,
                                     tspc := none, file := some "997.4010.xml".toList }] }

/-- REF01 too long and the paired note of REF violated -/
def src : List Char :=
  (Doc.Ex.isaText ++
    "GS*HC*SENDER*RECEIVER*20200101*1200*1*X*004010X1~ST*837*0001~REF*ABCD*1~SE*3*0001~GE*1*1~IEA*1*000000001~").toList

def params : Params :=
  { date6 := "200101".toList, time4 := "1200".toList, date8 := "20200101".toList, time6 := "120000".toList, gsCtl := "1".toList }

/-- the error-tree state the validator ends with for `src` (printed by `#eval`, checked below) -/
def st : ErrTree.State :=
  { tree := [{ e05 := some ['Z', 'Z'],
               e06 := some ['S', 'E', 'N', 'D', 'E', 'R', ' ', ' ', ' ', ' ', ' ', ' ', ' ', ' ', ' '],
               e07 := some ['Z', 'Z'],
               e08 := some ['R', 'E', 'C', 'E', 'I', 'V', 'E', 'R', ' ', ' ', ' ', ' ', ' ', ' ', ' '],
               origDate := some ['2', '0', '0', '1', '0', '1'],
               origTime := some ['1', '2', '0', '0'],
               e11 := some ['U'],
               e12 := some ['0', '0', '4', '0', '1'],
               trnSetId := some ['0', '0', '0', '0', '0', '0', '0', '0', '1'],
               ta1Req := some ['0'],
               e15 := some ['P'],
               closed := true,
               errors := [],
               elements := [],
               children := [{ fic := some ['H', 'C'],
                              gs02 := some ['S', 'E', 'N', 'D', 'E', 'R'],
                              gs03 := some ['R', 'E', 'C', 'E', 'I', 'V', 'E', 'R'],
                              gs06 := some ['1'],
                              gs07 := some ['X'],
                              vriic := some ['0', '0', '4', '0', '1', '0', 'X', '1'],
                              ctlNum := some ['1'],
                              ackCode := some ['R'],
                              countOrig := 1,
                              countRecv := 1,
                              closed := true,
                              errors := [],
                              elements := [],
                              children := [{ trnSetId := some ['8', '3', '7'],
                                             ctlNum := some ['0', '0', '0', '1'],
                                             vriic := none,
                                             ackCode := ['R'],
                                             closed := true,
                                             errors := [],
                                             elements := [],
                                             children := [{ segId := ['R', 'E', 'F'],
                                                            segCount := 2,
                                                            lsId := none,
                                                            errors := [],
                                                            elements := [{ pos := 1,
                                                                           subpos := none,
                                                                           refNum := some ['1'],
                                                                           errors := [{ code := ['5'],
                                                                                        msg := ['D', 'a', 't', 'a', ' ',
                                                                                                'e', 'l', 'e', 'm', 'e',
                                                                                                'n', 't', ' ', '\"', '1',
                                                                                                '2', '8', '\"', ' ', '(',
                                                                                                'R', 'E', 'F', '0', '1',
                                                                                                ')', ' ', 'i', 's', ' ',
                                                                                                't', 'o', 'o', ' ', 'l',
                                                                                                'o', 'n', 'g', ':', ' ',
                                                                                                'l', 'e', 'n', '(', '\"',
                                                                                                'A', 'B', 'C', 'D', '\"',
                                                                                                ')', ' ', '=', ' ', '4',
                                                                                                ' ', '>', ' ', '3', ' ',
                                                                                                '(', 'm', 'a', 'x', '_',
                                                                                                'l', 'e', 'n', ')'],
                                                                                        value := some ['A', 'B', 'C',
                                                                                                  'D'] }] },
                                                                         { pos := 2,
                                                                           subpos := none,
                                                                           refNum := some ['1'],
                                                                           errors := [{ code := ['2'],
                                                                                        msg := ['S', 'y', 'n', 't', 'a',
                                                                                                'x', ' ', 'E', 'r', 'r',
                                                                                                'o', 'r', ' ', '(', 'P',
                                                                                                '0', '2', '0', '3', ')',
                                                                                                ':', ' ', 'I', 'f', ' ',
                                                                                                'a', 'n', 'y', ' ', 'o',
                                                                                                'f', ' ', 'R', 'E', 'F',
                                                                                                '0', '2', ' ', 'o', 'r',
                                                                                                ' ', 'R', 'E', 'F', '0',
                                                                                                '3', ' ', 'i', 's', ' ',
                                                                                                'p', 'r', 'e', 's', 'e',
                                                                                                'n', 't', ',', ' ', 't',
                                                                                                'h', 'e', 'n', ' ', 'a',
                                                                                                'l', 'l', ' ', 'a', 'r',
                                                                                                'e', ' ', 'r', 'e', 'q',
                                                                                                'u', 'i', 'r', 'e', 'd'],
                                                                                        value := none }] }] }] }] }] }],
    curIsa := some 0,
    curGs := some (0, 0),
    curSt := some (0, 0, 0),
    curSeg := Pyx12Verif.ErrTree.SegPtr.host (Pyx12Verif.ErrTree.Host.isa 0),
    curEle := Pyx12Verif.ErrTree.ElePtr.pending { pos := 2, subpos := none, refNum := some ['1'], errors := [] },
    lost := 0 }

/-- the source is rejected and acknowledged with a 997; `st` is the final error tree -/
example : (Doc.validateDoc ms Doc.Ex.ctx src).outcome = .verdict false := by decide +kernel
example : (Doc.validateDoc ms Doc.Ex.ctx src).ackKind = .a997 := by decide +kernel
example : (Doc.validateDoc ms Doc.Ex.ctx src).final = st := by decide +kernel

/-- what the repaired visitor writes for it -/
example : (ack997 fixed st params).crash = none := by decide +kernel
example : (ack997 fixed st params).out.map render997 =
    ["ISA*00*          *00*          *ZZ*RECEIVER       *ZZ*SENDER         *200101*1200*U*00401*001011200*0*P*:~".toList,
     "GS*FA*RECEIVER*SENDER*20200101*120000*1*X*004010~".toList, "ST*997*0001~".toList, "AK1*HC*1~".toList,
     "AK2*837*0001~".toList, "AK3*REF*2**8~".toList, "AK4*1*1*5*ABCD~".toList, "AK4*2*1*2~".toList, "AK5*R*5~".toList,
     "AK9*R*1*1*0~".toList, "SE*9*0001~".toList, "GE*1*1~".toList, "IEA*1*001011200~".toList] := by decide +kernel

/-- the decidable map hypotheses of `ack997_revalidates` hold for the copy of the 997 map and the example control map -/
theorem ex_shape : shape997 ms.consts ms.ids aids m997.root = true := by decide +kernel
theorem ex_defs : ackDefsOk m997 = true := by decide +kernel
theorem ex_keys : ackKeysOkOf ms.consts ms.unk m997 = true := by decide +kernel
theorem ex_isaDef : isaDefOk (Doc.Ex.mapX "x12.control.00401.xml") [0, 0] = true := by decide +kernel
theorem ex_wf : WFMap m997.root = true := by decide +kernel
theorem ex_unamb : Unambiguous ms.consts m997.root = true := by decide +kernel

end Pyx12Verif.C06R.Ex
