/-
The unrestricted form of `doc_verdict_iff_no_report` (Props/DocC05.lean) is FALSE: kernel-evaluated witness on the maps of
Props/DocExample.lean — an unknown segment between GS and ST.  The walker's "segment not found" is reported while no set
node exists; `err_handler.seg_error` swallows it (finding D27): verdict TRUE with a report.
-/
import Pyx12Verif.Props.DocC05Example

namespace Pyx12Verif.Doc.Ex
open Pyx12Verif Pyx12Verif.Doc DocC05

/-- an unknown segment between GS and ST -/
def strayBeforeSt : List Char :=
  (isaText ++ "GS*HC*S*R*20200101*1200*1*X*004010X1~ZZZ*1~ST*837*0001~REF*AB*1*X~SE*3*0001~GE*1*1~IEA*1*000000001~").toList

theorem stray_verdict : (validateDoc ms ctx strayBeforeSt).outcome = .verdict true := by decide +kernel

theorem stray_reported :
    ErrTree.Event.segError ['1'] none ∈ (validateDoc ms ctx strayBeforeSt).events := by decide +kernel

/-- D27 at pipeline level: the verdict is true although an error was reported -/
theorem doc_verdict_iff_no_report_counterexample : ¬ doc_verdict_iff_no_report_full := by
  intro h
  have := (h ms ctx strayBeforeSt true ms_tlOk stray_verdict).1 rfl _ stray_reported
  cases this

/-- … and the restricted theorem says why: that report is swallowed (no set node exists yet) -/
example : ∀ pre e post, (validateDoc ms ctx strayBeforeSt).events = pre ++ e :: post → ErrTree.Event.isError e = true →
    Swallowed pre e :=
  doc_verdict_true_swallowed ms ctx strayBeforeSt stray_verdict

end Pyx12Verif.Doc.Ex
