/-
C18 — results are a function of the document and the parameters alone (the modelled part):
the only cross-run state reachable through default arguments is never written, so what a run
observes is what a fresh process observes.  PARTIAL by nature: interpreter-level state outside the
model (logging handlers, sys.path, module caches of the standard library) is only exercised by the harness.
-/
import Pyx12Verif.Model.Globals

namespace Pyx12Verif.Globals

theorem step_cells (g : G) (op : Op) : (step g op).cells = g.cells := rfl

theorem inv_preserved (g : G) (op : Op) (h : Inv g) : Inv (step g op) := h

theorem run_state (g : G) (ops : List Op) : (run g ops).1 = g := by
  unfold run
  suffices h : ∀ (acc : G × List Cell), (ops.foldl (fun acc op => (step acc.1 op, acc.2 ++ [observe acc.1 op])) acc).1 = acc.1 from h (g, [])
  induction ops with
  | nil => intro acc; rfl
  | cons op r ih => intro acc; simp only [List.foldl_cons]; rw [ih]; rfl

theorem cell_of_inv (g : G) (h : Inv g) (i : Nat) : g.cell i = [] := by
  unfold G.cell
  cases hi : g.cells[i]? with
  | none => simp [List.getD, hi]
  | some c => simp [List.getD, hi]; exact h c (List.mem_of_getElem? hi)

theorem observe_of_inv (g : G) (h : Inv g) (op : Op) : observe g op = observe (g0 g.cells.length) op := by
  have h0 : Inv (g0 g.cells.length) := by
    intro c hc; simp [g0] at hc; exact hc.2
  cases op <;> simp [observe, cell_of_inv g h, cell_of_inv _ h0]

theorem run_obs_aux (g g' : G) (hg : Inv g) (hg' : Inv g') (hl : g'.cells.length = g.cells.length)
    (ops : List Op) (o : List Cell) :
    (ops.foldl (fun acc op => (step acc.1 op, acc.2 ++ [observe acc.1 op])) (g, o)).2 =
    (ops.foldl (fun acc op => (step acc.1 op, acc.2 ++ [observe acc.1 op])) (g', o)).2 := by
  induction ops generalizing o with
  | nil => rfl
  | cons op r ih =>
    simp only [List.foldl_cons, step]
    rw [observe_of_inv g hg op, observe_of_inv g' hg' op, hl]
    exact ih _

/-- whatever ran before (any state satisfying the invariant), a run observes exactly what it observes in a
    fresh process; and it leaves the invariant intact for the next run -/
theorem run_independent_of_history (g : G) (h : Inv g) (ops : List Op) :
    (run g ops).2 = (run (g0 g.cells.length) ops).2 ∧ Inv (run g ops).1 := by
  constructor
  · unfold run
    exact run_obs_aux g (g0 g.cells.length) h (by intro c hc; simp [g0] at hc; exact hc.2) (by simp [g0]) ops []
  · rw [run_state]; exact h

/-- histories: any sequence of runs -/
theorem history_independent (g : G) (h : Inv g) (hist : List (List Op)) (ops : List Op) :
    (run (hist.foldl (fun s o => (run s o).1) g) ops).2 = (run (g0 g.cells.length) ops).2 := by
  have : hist.foldl (fun s o => (run s o).1) g = g := by
    induction hist with
    | nil => rfl
    | cons o r ih => rw [List.foldl_cons, run_state]; exact ih
  rw [this]; exact (run_independent_of_history g h ops).1

example : Inv (g0 8) ∧ (run (g0 8) [.read 0 none, .alias 2 (some [1, 2]), .rebindField 2]).2 = [[], [1, 2], []] := by
  constructor
  · intro c hc; simp [g0] at hc; exact hc
  · decide

end Pyx12Verif.Globals
