/-
Non-vacuity for Props/Doc.lean, Props/DocAccept.lean: a small but complete set of maps (control map + one transaction map +
index) and whole documents, run through `Doc.validateDoc` by the kernel: every outcome class of `doc_total` is reached, and
the conclusion of `doc_accepts_generated` (verdict true, no error event) is attained.
-/
import Pyx12Verif.Props.Doc
import Pyx12Verif.Props.DocAccept

namespace Pyx12Verif.Doc.Ex
open Pyx12Verif Pyx12Verif.Doc MapSkel

def an (seq : Nat) (usage : ElemValid.Usage) (mn mx : Nat) (name refdes : String) : ChildX :=
  .elem { d := { usage := usage, dataType := ElemValid.tyAN, minLen := mn, maxLen := mx, codes := [], extDeclared := false,
                 hasRegex := false, typeList := [], seq := seq, parentComposite := false, parentRequired := false },
          defined := true, name := name.toList, refdes := refdes.toList, dataEle := some ['1'], ext := [], regex := [] }

/-- an element whose data element dataele.xml does not define (finding D30) -/
def undefinedEle (seq : Nat) : ChildX :=
  .elem { d := { usage := .S, dataType := [], minLen := 0, maxLen := 0, codes := [], extDeclared := false,
                 hasRegex := false, typeList := [], seq := seq, parentComposite := false, parentRequired := false },
          defined := false, name := "Ghost".toList, refdes := "ZZ01".toList, dataEle := some ['9', '9', '9'], ext := [],
          regex := [] }

def isaDef : SegDef :=
  { sid := "ISA".toList, name := "Interchange Control Header".toList, notes := [],
    children := [an 1 .R 2 2 "I01" "ISA01", an 2 .R 10 10 "I02" "ISA02", an 3 .R 2 2 "I03" "ISA03", an 4 .R 10 10 "I04" "ISA04",
                 an 5 .R 2 2 "I05" "ISA05", an 6 .R 15 15 "I06" "ISA06", an 7 .R 2 2 "I05" "ISA07", an 8 .R 15 15 "I07" "ISA08",
                 an 9 .R 6 6 "I08" "ISA09", an 10 .R 4 4 "I09" "ISA10", an 11 .R 1 1 "I10" "ISA11", an 12 .R 5 5 "I11" "ISA12",
                 an 13 .R 9 9 "I12" "ISA13", an 14 .R 1 1 "I13" "ISA14", an 15 .R 1 1 "I14" "ISA15", an 16 .R 1 1 "I15" "ISA16"] }

def gsDef : SegDef :=
  { sid := "GS".toList, name := "Functional Group Header".toList, notes := [],
    children := [an 1 .R 2 2 "479" "GS01", an 2 .R 1 15 "142" "GS02", an 3 .R 1 15 "124" "GS03", an 4 .R 8 8 "373" "GS04",
                 an 5 .R 4 8 "337" "GS05", an 6 .R 1 9 "28" "GS06", an 7 .R 1 2 "455" "GS07", an 8 .R 1 12 "480" "GS08"] }

def stDef : SegDef :=
  { sid := "ST".toList, name := "Transaction Set Header".toList, notes := [],
    children := [an 1 .R 3 3 "143" "ST01", an 2 .R 4 9 "329" "ST02"] }
/-- a body segment with a paired note, an optional element and an element without data-element definition -/
def refDef : SegDef :=
  { sid := "REF".toList, name := "Reference".toList, notes := [⟨'P', [2, 3]⟩],
    children := [an 1 .R 2 3 "128" "REF01", an 2 .S 1 30 "127" "REF02", an 3 .S 1 30 "352" "REF03", undefinedEle 4] }
def seDef : SegDef :=
  { sid := "SE".toList, name := "Transaction Set Trailer".toList, notes := [],
    children := [an 1 .R 1 10 "96" "SE01", an 2 .R 4 9 "329" "SE02"] }
def geDef : SegDef :=
  { sid := "GE".toList, name := "Functional Group Trailer".toList, notes := [],
    children := [an 1 .R 1 6 "97" "GE01", an 2 .R 1 9 "28" "GE02"] }
def ieaDef : SegDef :=
  { sid := "IEA".toList, name := "Interchange Control Trailer".toList, notes := [],
    children := [an 1 .R 1 5 "I16" "IEA01", an 2 .R 9 9 "I12" "IEA02"] }

def el (seq : Nat) : Child :=
  .elem { xid := 0, seq := seq, usage := 0, dataEle := 1, isID := false, isAN := true, codes := [], ncodes := 0, ext := 0,
          regex := false }

/-- ISA_LOOP [ISA, GS_LOOP [GS, ST_LOOP [ST, REF (situational, up to 2), SE], GE], IEA] -/
def root : List Node :=
  [.loop 10 1 0 1 false
    [.seg 11 0 10 0 1 [] [el 1],
     .loop 12 20 0 0 false
       [.seg 13 0 10 0 1 [] [el 1],
        .loop 14 20 0 0 false [.seg 15 0 10 0 1 [] [el 1], .seg 18 0 20 1 2 [] [el 1], .seg 24 0 30 0 1 [] [el 1]],
        .seg 25 0 30 0 1 [] [el 1]],
     .seg 26 0 30 0 1 [] [el 1]]]

def mapX (file : String) : MapX :=
  { file := file.toList, is837 := false, v5010 := false, rootId := 0, root := root,
    defs := [([0, 0], isaDef), ([0, 1, 0], gsDef), ([0, 1, 1, 0], stDef), ([0, 1, 1, 1], refDef), ([0, 1, 1, 2], seDef),
             ([0, 1, 2], geDef), ([0, 2], ieaDef)],
    intern := [("ISA".toList, 11), ("GS".toList, 13), ("ST".toList, 15), ("REF".toList, 18), ("SE".toList, 24),
               ("GE".toList, 25), ("IEA".toList, 26)] }

def ms : Maps :=
  { consts := ⟨1, 2, 3⟩, ids := ⟨10, 11, 12, 13, 14, 16, 17⟩, unk := 999,
    maps := [mapX "x12.control.00401.xml", mapX "m.xml"],
    index := [{ icvn := some "00401".toList, vriic := some "004010X1".toList, fic := some "HC".toList, tspc := none,
                file := some "m.xml".toList }] }

def ctx : Ctx := { extended := true, extMember := fun _ _ => false, regexFound := fun _ _ => false }

def isaText : String :=
  "ISA*00*          *00*          *ZZ*SENDER         *ZZ*RECEIVER       *200101*1200*U*00401*000000001*0*P*:~"

/-- a conformant document -/
def good : List Char :=
  (isaText ++ "GS*HC*S*R*20200101*1200*1*X*004010X1~ST*837*0001~REF*AB*1*X~SE*3*0001~GE*1*1~IEA*1*000000001~").toList
/-- the paired note of REF is violated and REF01 is too long -/
def faulty : List Char :=
  (isaText ++ "GS*HC*S*R*20200101*1200*1*X*004010X1~ST*837*0001~REF*ABCD*1~SE*3*0001~GE*1*1~IEA*1*000000001~").toList
/-- an unknown segment: the walker finds no node, `valid` stays true, the error is counted by the tree -/
def unknownSeg : List Char :=
  (isaText ++ "GS*HC*S*R*20200101*1200*1*X*004010X1~ST*837*0001~ZZZ*1~SE*3*0001~GE*1*1~IEA*1*000000001~").toList
def noMap : List Char := (isaText ++ "GS*HC*S*R*20200101*1200*1*X*009999~").toList
def badIsa : List Char := (isaText ++ "ISA*1~").toList
/-- SE without ST: the reader's ST-level error meets an error handler without a set node (finding C07) -/
def orphanSe : List Char := (isaText ++ "GS*HC*S*R*20200101*1200*1*X*004010X1~SE*1*0001~").toList
/-- a value for the element whose data element is not defined (finding D30) -/
def ghost : List Char :=
  (isaText ++ "GS*HC*S*R*20200101*1200*1*X*004010X1~ST*837*0001~REF*AB***X~SE*3*0001~GE*1*1~IEA*1*000000001~").toList

theorem allWF_nil : Syn.AllWF [] := fun n hn => by cases hn

theorem refWF : Syn.AllWF refDef.notes := by
  intro n hn
  simp only [refDef, List.mem_singleton] at hn
  subst hn
  exact ⟨⟨by decide, by decide⟩, Or.inl rfl⟩

theorem ms_wf : MapsWF ms := by
  intro m hm p hp
  simp only [ms, List.mem_cons, List.mem_nil_iff, or_false] at hm
  rcases hm with rfl | rfl <;>
  · simp only [mapX, List.mem_cons, List.mem_nil_iff, or_false] at hp
    rcases hp with rfl | rfl | rfl | rfl | rfl | rfl | rfl
    · exact ⟨by decide, allWF_nil⟩
    · exact ⟨by decide, allWF_nil⟩
    · exact ⟨by decide, allWF_nil⟩
    · exact ⟨by decide, refWF⟩
    · exact ⟨by decide, allWF_nil⟩
    · exact ⟨by decide, allWF_nil⟩
    · exact ⟨by decide, allWF_nil⟩

/-- `doc_total` applies to these maps -/
example (text : List Char) (site : Site) (h : (validateDoc ms ctx text).outcome = .crash site) :
    site = .dataEle ∨ site = .nodeNone ∨ site = .noSegDef ∨ ∃ e, site = .errTree e := doc_total ms ms_wf ctx text site h

/-- conclusion of `doc_accepts_generated` attained: verdict true, nothing reported, 997 selected -/
example : (validateDoc ms ctx good).outcome = .verdict true := by decide +kernel
example : ((validateDoc ms ctx good).events.all (fun e => !isErrorEvent e)) = true := by decide +kernel
example : (validateDoc ms ctx good).segs.map (fun o => o.node.map (·.2)) =
    [some [0, 0], some [0, 1, 0], some [0, 1, 1, 0], some [0, 1, 1, 1], some [0, 1, 1, 2], some [0, 1, 2], some [0, 2]] := by
  decide +kernel

/-- rejected documents: the errors as the flattened tree shows them -/
example : ((validateDoc ms ctx faulty).segs.map SegOut.valErrs).flatten =
    [⟨['5'], 1, none, some "ABCD".toList⟩, ⟨['2'], 2, none, none⟩] := by decide +kernel
example : ((validateDoc ms ctx unknownSeg).segs.map (fun o => o.matched)) = [true, true, true, false, true, true, true] := by
  decide +kernel

end Pyx12Verif.Doc.Ex
