/-
C07, end-to-end: the two open statements about the sinks (`docXml_total_full`, `docHtml_total_full` of Props/DocSinks.lean),
closed, and the family put together.

Both statements are FALSE as written, by the same kernel-evaluated witness (`docXml_total_full_false`,
`docHtml_total_full_false`; Props/DocSinksTotalXml.lean, Props/DocSinksTotalHtmlCounter.lean): `SinkMapsOK` speaks only of
nodes that HAVE a definition in `Maps`, and with an element separator that is a letter of `ISA` the first segment is not
ISA, is not placed, and is handed to the sinks with the initial node `/ISA_LOOP/ISA` of the control map — which a
degenerate `Maps` may leave without definition.  This is a gap of the model's `Maps` only (every real node object carries its
definition); the real code writes both documents on that input.

With the one hypothesis they lack (`CtlIsaOK`: the loadable control maps define their ISA segment; decidable `ctlIsaOKB`):

  docXml_total_holds    `docXml_total_ctl_full`: the XML sink never raises — a verdict run always writes the document
                        (any header, unplaced segments, surplus elements / sub-elements, composite data in simple elements)
  docHtml_total_holds   `docHtml_total_ctl_full`: the HTML sink of a verdict run completes exactly when no reader segment has
                        100 or more elements (`'%02i' % 100` is no reference designator: listed finding
                        crash:TypeError:segment.py:is_composite)
  well-formedness of what is written: `docXml_total_wf` (balanced, one `seg` per call inside the loops of its node, the six
                        literal element names, markup independent of the values, every value escaped) and
                        `docHtml_total_wf` (header first, footer last, one segment line per reader segment, every write
                        classified, markup = fixed templates / a function of marks and shape only)
  doc_sinks_total       THE FAMILY: for every text (sane delimiters) and every consistent set of maps, `x12n_document`
                        with both sinks ends in exactly one of: a verdict with the XML document written and well formed
                        and the HTML report written iff all segments are short; a refusal (`refused`, `notX12`,
                        `mapNotFound`, `mapLoadFailed`); or one of six enumerated exceptions (three model-only / map-data
                        classes `dataEle`, `nodeNone`, `noSegDef`, and the three listed `err_handler` findings)
-/
import Pyx12Verif.Props.DocSinksTotalXml
import Pyx12Verif.Props.DocSinksTotalHtmlCounter
import Pyx12Verif.Props.DocSinksTotalHtmlFinal
import Pyx12Verif.Props.DocTotalFull

namespace Pyx12Verif.Doc
open Pyx12Verif

/-- `docXml_total_full` with the hypothesis it lacks -/
def docXml_total_ctl_full : Prop :=
  ∀ (ms : Maps) (ctx : Ctx) (text : List Char), SinkMapsOK ms → MapsOK2 ms → CtlIsaOK ms →
    (∃ b, (validateDoc ms ctx text).outcome = .verdict b) → ∃ evs, docXml ms ctx text = some evs

theorem docXml_total_holds : docXml_total_ctl_full :=
  fun ms ctx text hs hok hci hv => docXml_total ms hs hok hci ctx text hv

/-- `docHtml_total_full` with the hypothesis it lacks -/
def docHtml_total_ctl_full : Prop :=
  ∀ (ms : Maps) (ctx : Ctx) (sc : SinkCtx) (text : List Char) (hd : Tokenizer.Header) (rr : SegText.ReadResult),
    SinkMapsOK ms → MapsOK2 ms → CtlIsaOK ms → SegText.readAll { rest := text, sizes := [] } = .ok hd rr →
    (∃ b, (validateDoc ms ctx text).outcome = .verdict b) →
    ((∃ ws, docHtmlWrites ms ctx sc text = some ws) ↔ ∀ p ∈ rr.segs, p.2.elems.length < 100)

theorem docHtml_total_holds : docHtml_total_ctl_full :=
  fun ms ctx sc text hd rr hs _ hci hread hv => docHtml_total_maps ms hs hci ctx sc text hd rr hread hv

/-- the three statements left open in the C07 family are false as they stood -/
theorem c07_open_statements_false : ¬ doc_total_sharp_full ∧ ¬ docXml_total_full ∧ ¬ docHtml_total_full :=
  ⟨doc_total_sharp_full_false, docXml_total_full_false, ExH.docHtml_total_full_false⟩

/-- what a run with both sinks ends in -/
inductive SinksEnd (ms : Maps) (ctx : Ctx) (sc : SinkCtx) (text : List Char) : Prop
  /-- a verdict: the XML document is written and balanced; the HTML report is written iff every segment is short -/
  | verdict (b : Bool) (hd : Tokenizer.Header) (rr : SegText.ReadResult) (evs : List Xml.Ev) :
      (validateDoc ms ctx text).outcome = .verdict b → SegText.readAll { rest := text, sizes := [] } = .ok hd rr →
      docXml ms ctx text = some evs → Xml.wellFormed evs = true →
      ((∃ ws, docHtmlWrites ms ctx sc text = some ws) ↔ ∀ p ∈ rr.segs, p.2.elems.length < 100) → SinksEnd ms ctx sc text
  /-- a documented refusal -/
  | refusal : ((∃ e, (validateDoc ms ctx text).outcome = .refused e) ∨ (validateDoc ms ctx text).outcome = .notX12 ∨
        (validateDoc ms ctx text).outcome = .mapNotFound ∨ (validateDoc ms ctx text).outcome = .mapLoadFailed) →
      docXml ms ctx text = none → docHtmlWrites ms ctx sc text = none → SinksEnd ms ctx sc text
  /-- one of the six enumerated exceptions -/
  | raised (site : Site) : (validateDoc ms ctx text).outcome = .crash site →
      (site = .dataEle ∨ site = .nodeNone ∨ site = .noSegDef ∨ site = .errTree .stErrorNoSt ∨
        site = .errTree .gsErrorNoGs ∨ site = .errTree .eleErrorNoSt) →
      docXml ms ctx text = none → docHtmlWrites ms ctx sc text = none → SinksEnd ms ctx sc text

theorem docHtml_verdict (ms : Maps) (ctx : Ctx) (sc : SinkCtx) (text : List Char) (ws : List (List Char))
    (h : docHtmlWrites ms ctx sc text = some ws) : ∃ b, (validateDoc ms ctx text).outcome = .verdict b := by
  unfold docHtmlWrites at h
  unfold validateDoc
  cases hr : SegText.readAll { rest := text, sizes := [] } with
  | error e => rw [hr] at h; cases h
  | ok hd rr =>
    rw [hr] at h
    simp only at h ⊢
    cases ho : (validateRead ms ctx hd rr).outcome with
    | verdict b => exact ⟨b, rfl⟩
    | refused e => simp [roundsOf, ho, htmlOfRounds] at h
    | notX12 => simp [roundsOf, ho, htmlOfRounds] at h
    | mapNotFound => simp [roundsOf, ho, htmlOfRounds] at h
    | mapLoadFailed => simp [roundsOf, ho, htmlOfRounds] at h
    | crash s => simp [roundsOf, ho, htmlOfRounds] at h

theorem no_sinks_of_not_verdict (ms : Maps) (ctx : Ctx) (sc : SinkCtx) (text : List Char)
    (h : ∀ b, (validateDoc ms ctx text).outcome ≠ .verdict b) :
    docXml ms ctx text = none ∧ docHtmlWrites ms ctx sc text = none := by
  refine ⟨?_, ?_⟩
  · cases hx : docXml ms ctx text with
    | none => rfl
    | some evs =>
      obtain ⟨b, hb⟩ := docXml_verdict ms ctx text evs hx
      exact absurd hb (h b)
  · cases hx : docHtmlWrites ms ctx sc text with
    | none => rfl
    | some ws =>
      obtain ⟨b, hb⟩ := docHtml_verdict ms ctx sc text ws hx
      exact absurd hb (h b)

/-- **the C07 family, end to end.**  Maps: segment definitions well formed (`MapsWF`), viewable with well-formed ids
    (`SinkMapsOK`), loop ids separable (`MapsOK2`), control maps with the pinned nodes (`ControlOk`) and a defined ISA
    segment (`CtlIsaOK`), envelope nesting (`EnvNested`).  Text: ANY text whose declared terminator and element separator
    are not letters of `ISA`.  Then `x12n_document` with the XML and the HTML sink ends in one of the enumerated ways. -/
theorem doc_sinks_total (ms : Maps) (hwf : MapsWF ms) (hs : SinkMapsOK ms) (hok : MapsOK2 ms) (hci : CtlIsaOK ms)
    (hctl : ∀ f control, (f = ctl401 ∨ f = ctl501) → findMap ms f = some control → ControlOk ms control)
    (hnest : EnvNested ms) (ctx : Ctx) (sc : SinkCtx) (text : List Char)
    (hsane : ∀ hd, Tokenizer.parseHeader (text.take Tokenizer.ISA_LEN) = .ok hd → SaneHeader hd) :
    SinksEnd ms ctx sc text := by
  cases ho : (validateDoc ms ctx text).outcome with
  | verdict b =>
    obtain ⟨hd, rr, hread, _⟩ := verdict_read ms ctx text b ho
    obtain ⟨evs, he⟩ := docXml_total ms hs hok hci ctx text ⟨b, ho⟩
    exact .verdict b hd rr evs ho hread he (docXml_balanced_all ms hok ctx text evs he)
      (docHtml_total_maps ms hs hci ctx sc text hd rr hread ⟨b, ho⟩)
  | refused e =>
    obtain ⟨h1, h2⟩ := no_sinks_of_not_verdict ms ctx sc text (fun b hb => by rw [ho] at hb; cases hb)
    exact .refusal (Or.inl ⟨e, ho⟩) h1 h2
  | notX12 =>
    obtain ⟨h1, h2⟩ := no_sinks_of_not_verdict ms ctx sc text (fun b hb => by rw [ho] at hb; cases hb)
    exact .refusal (Or.inr (Or.inl ho)) h1 h2
  | mapNotFound =>
    obtain ⟨h1, h2⟩ := no_sinks_of_not_verdict ms ctx sc text (fun b hb => by rw [ho] at hb; cases hb)
    exact .refusal (Or.inr (Or.inr (Or.inl ho))) h1 h2
  | mapLoadFailed =>
    obtain ⟨h1, h2⟩ := no_sinks_of_not_verdict ms ctx sc text (fun b hb => by rw [ho] at hb; cases hb)
    exact .refusal (Or.inr (Or.inr (Or.inr ho))) h1 h2
  | crash site =>
    obtain ⟨h1, h2⟩ := no_sinks_of_not_verdict ms ctx sc text (fun b hb => by rw [ho] at hb; cases hb)
    exact .raised site ho (doc_crash_sites_nested ms hwf ctx text hsane hctl hnest site ho) h1 h2

end Pyx12Verif.Doc
