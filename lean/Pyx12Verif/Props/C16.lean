/-
C16 — generic theorems behind the per-map obligations (`Gen/Checks/*.lean` evaluate `violations` on the
regenerated map terms with `decide +kernel`).

`fetch_sound`: the Boolean fetch check that `violations` runs over a map really means "EVERY loop and segment
node, addressed by any index path, is returned by `getnodebypath` (model: `fetch`) for the path it reports".
-/
import Pyx12Verif.Model.Walker

namespace Pyx12Verif.MapSkel
open Pyx12Verif.Walker

theorem append_nil_iff {α : Type} (a b : List α) : a ++ b = [] ↔ a = [] ∧ b = [] := by
  cases a <;> simp

/-- one level: if the fetch check of a child list reports nothing, every child is fetched by its path and the
    check of its own children reports nothing -/
theorem fetchViolsList_nil (ent hl : Nat) (root : List Node) (ip : List Nat) (path : List (Nat × Nat)) :
    ∀ (ch : List Node) (i : Nat), fetchViolsList ent hl root ip path i ch = [] →
      ∀ (j : Nat) (n : Node), ch[j]? = some n →
        fetch ent hl root (path ++ [n.comp]) = some (ip ++ [i + j]) ∧
        fetchViolsList ent hl root (ip ++ [i + j]) (path ++ [n.comp]) 0 n.children = [] := by
  intro ch
  induction ch with
  | nil => intro i _ j n hj; simp at hj
  | cons c r ih =>
    intro i h j n hj
    unfold fetchViolsList at h
    rw [append_nil_iff, append_nil_iff] at h
    obtain ⟨⟨h1, h2⟩, h3⟩ := h
    cases j with
    | zero =>
      simp only [List.getElem?_cons_zero, Option.some.injEq] at hj
      subst hj
      constructor
      · by_cases hf : (fetch ent hl root (path ++ [c.comp]) == some (ip ++ [i])) = true
        · simpa using hf
        · simp [hf] at h1
      · cases c with
        | seg a b c d e f g => simp [Node.children, fetchViolsList]
        | loop a b c d e sub => simpa [fetchViolsNode, Node.children] using h2
    | succ j' =>
      simp only [List.getElem?_cons_succ] at hj
      have := ih (i + 1) h3 j' n hj
      have e : i + 1 + j' = i + (j' + 1) := by omega
      rw [e] at this
      exact this

/-- all depths -/
theorem fetch_sound_aux (ent hl : Nat) (root : List Node) :
    ∀ (r : List Nat) (ch : List Node) (ip : List Nat) (path : List (Nat × Nat)),
      fetchViolsList ent hl root ip path 0 ch = [] →
      ∀ n, nodeAt ch r = some n → fetch ent hl root (path ++ keyAt ch r) = some (ip ++ r) := by
  intro r
  induction r with
  | nil => intro ch ip path _ n hn; simp [nodeAt] at hn
  | cons i r' ih =>
    intro ch ip path h n hn
    cases r' with
    | nil =>
      simp only [nodeAt] at hn
      have := (fetchViolsList_nil ent hl root ip path ch 0 h i n hn).1
      simpa [keyAt, hn, Node.children] using this
    | cons i2 r2 =>
      simp only [nodeAt] at hn
      cases hc : ch[i]? with
      | none => simp [hc] at hn
      | some c =>
        cases c with
        | seg a b c d e f g => simp [hc] at hn
        | loop a b c d e sub =>
          simp only [hc] at hn
          have hsub := (fetchViolsList_nil ent hl root ip path ch 0 h i _ hc).2
          simp only [Nat.zero_add, Node.children] at hsub
          have := ih sub (ip ++ [i]) (path ++ [(Node.loop a b c d e sub).comp]) hsub n hn
          simpa [keyAt, hc, Node.children, List.append_assoc] using this

/-- if the fetch rule reports no violation for a map, every loop/segment node is fetched by its own path -/
theorem fetch_sound (ent hl : Nat) (root : List Node)
    (h : fetchViolsList ent hl root [] [] 0 root = []) (ip : List Nat) (n : Node)
    (hn : nodeAt root ip = some n) : fetch ent hl root (keyAt root ip) = some ip := by
  simpa using fetch_sound_aux ent hl root ip root [] [] h n hn

/-- consequence used for "node paths are unique within a map": two different index paths that both resolve
    cannot report the same path -/
theorem paths_unique (ent hl : Nat) (root : List Node)
    (h : fetchViolsList ent hl root [] [] 0 root = []) (ip1 ip2 : List Nat) (n1 n2 : Node)
    (h1 : nodeAt root ip1 = some n1) (h2 : nodeAt root ip2 = some n2)
    (hk : keyAt root ip1 = keyAt root ip2) : ip1 = ip2 := by
  have a := fetch_sound ent hl root h ip1 n1 h1
  have b := fetch_sound ent hl root h ip2 n2 h2
  rw [hk] at a
  rw [a] at b
  exact Option.some.inj b

mutual
theorem fetchViolsNode_rule (ent hl : Nat) (root : List Node) (ip : List Nat) (path : List (Nat × Nat)) :
    ∀ (n : Node), ∀ v ∈ fetchViolsNode ent hl root ip path n, v.1 = R_FETCH
  | .seg .., v, hv => by simp [fetchViolsNode] at hv
  | .loop _ _ _ _ _ ch, v, hv => by
    simp only [fetchViolsNode] at hv
    exact fetchViolsList_rule ent hl root ip path 0 ch v hv
theorem fetchViolsList_rule (ent hl : Nat) (root : List Node) (ip : List Nat) (path : List (Nat × Nat)) (i : Nat) :
    ∀ (ch : List Node), ∀ v ∈ fetchViolsList ent hl root ip path i ch, v.1 = R_FETCH
  | [], v, hv => by simp [fetchViolsList] at hv
  | n :: r, v, hv => by
    simp only [fetchViolsList, List.mem_append] at hv
    rcases hv with (hv | hv) | hv
    · split at hv
      · simp at hv
      · simp at hv; rw [hv]
    · exact fetchViolsNode_rule ent hl root (ip ++ [i]) (path ++ [n.comp]) n v hv
    · exact fetchViolsList_rule ent hl root ip path (i + 1) r v hv
end

/-- the link from a per-map obligation to the ∀-nodes statement: if the violations of a map are (as a set) a
    known list without any fetch entry, then every loop and segment is fetched by its own path and paths are unique -/
theorem obligation_gives_fetch (ent hl ctx : Nat) (des exts : List Nat) (m : MapFile) (known : List Viol)
    (hs : sameSet (violations ent hl ctx des exts m) known = true) (hk : ∀ v ∈ known, v.1 ≠ R_FETCH)
    (ip : List Nat) (n : Node) (hn : nodeAt m.children ip = some n) :
    fetch ent hl m.children (keyAt m.children ip) = some ip := by
  apply fetch_sound ent hl m.children _ ip n hn
  cases hl' : fetchViolsList ent hl m.children [] [] 0 m.children with
  | nil => rfl
  | cons v r =>
    exfalso
    have hv : v ∈ fetchViolsList ent hl m.children [] [] 0 m.children := by rw [hl']; simp
    have hrule := fetchViolsList_rule ent hl m.children [] [] 0 m.children v hv
    have hin : v ∈ violations ent hl ctx des exts m := by
      unfold violations; simp [hv]
    unfold sameSet at hs
    rw [Bool.and_eq_true, List.all_eq_true] at hs
    have := hs.1 v hin
    have hmem : v ∈ known := by simpa using this
    exact hk v hmem hrule

end Pyx12Verif.MapSkel
