/-
Non-vacuity for Props/C10Bridge.lean, continued (Props/C10BridgeExample.lean builds the reader tree `exT` and its conversion
`exD`): an `add_segment` into the second ST_LOOP instance, and a history of calls — the corollaries applied, and the same
computed by the kernel.
-/
import Pyx12Verif.Props.C10BridgeExample

namespace Pyx12Verif.Bridge.Ex
open Pyx12Verif Pyx12Verif.Doc Pyx12Verif.Doc.Ex Pyx12Verif.Bridge

/-- `add_segment('REF*ZZ*9~')` on the SECOND ST_LOOP instance (address [2]): the new node is child 1 of that loop — after
    ST (10), before SE (30) — and the serialisation gains exactly that segment, in that place -/
example : (match DataTree.addSegmentAt exD [2] "REF*ZZ*9~".toList with
    | .ok (t', na) => (na, DataTree.fmtAll t', allSortedB t')
    | .error _ => ([], [], false)) =
    ([2, 1],
     ["GS*HC*S*R*20200101*1200*1*X*004010X1~".toList, "ST*837*0001~".toList, "REF*AB*1*X~".toList, "SE*3*0001~".toList,
      "ST*837*0002~".toList, "REF*ZZ*9~".toList, "SE*2*0002~".toList, "GE*2*1~".toList], true) := by decide +kernel

/-- `reader_add_segment_places` applies to that call -/
example (t' : DataTree.DNode) (na : List Nat) (h : DataTree.addSegmentAt exD [2] "REF*ZZ*9~".toList = .ok (t', na)) :
    ∃ hd mk cs d sg l1 l2, DataTree.getAt [2] exD = some (.loop hd mk cs) ∧ DataTree.cleanup cs = l1 ++ l2 ∧
      DataTree.getAt [2] t' = some (.loop hd mk (l1 ++ .seg d sg :: l2)) ∧ na = [2] ++ [l1.length] ∧
      (∀ y ∈ l2, d.pos < DataTree.nodePos y) ∧ (∀ x ∈ l1, DataTree.nodePos x ≤ d.pos) ∧
      DataTree.posSorted (l1 ++ .seg d sg :: l2) ∧ DataTree.AllSorted t' :=
  reader_add_segment_places ms (some 12) textR (readerOK_of_bool rok12) md segsR exT exT_mem [2] _ t' na h

/-- a history on the reader tree: add a REF to the second set, add a whole new set (`add_loop`), delete the first set, copy
    the rest — `reader_history` applies, and the kernel evaluates invariant and serialisation after it -/
def exOps : List DataTree.Op :=
  [.addSegment 0 [2] "REF*ZZ*9~".toList, .addLoop 0 [] "ST*837*0003~".toList, .deleteNode 0 [] "ST_LOOP".toList,
   .copy 0 [], .setValue 1 [] "ST_LOOP/REF02".toList "7".toList]

example : DataTree.ForestSorted (DataTree.run [exD] exOps).2 ∧
    DataTree.serF (DataTree.run [exD] exOps).2 = DataTree.absRun [treeSegs segsR exT] (DataTree.resolveRun [exD] exOps) :=
  reader_history ms (some 12) textR (readerOK_of_bool rok12) md segsR exT exT_mem exOps

example : ((DataTree.run [exD] exOps).2.map allSortedB, (DataTree.run [exD] exOps).2.map DataTree.fmtAll) =
    ([true, true],
     [["GS*HC*S*R*20200101*1200*1*X*004010X1~".toList, "ST*837*0002~".toList, "REF*ZZ*9~".toList, "SE*2*0002~".toList,
       "ST*837*0003~".toList, "GE*2*1~".toList],
      ["GS*HC*S*R*20200101*1200*1*X*004010X1~".toList, "ST*837*0002~".toList, "REF*ZZ*7~".toList, "SE*2*0002~".toList,
       "ST*837*0003~".toList, "GE*2*1~".toList]]) := by decide +kernel

end Pyx12Verif.Bridge.Ex
