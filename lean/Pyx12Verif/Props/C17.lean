/-
C17 — reference-designator and path addressing is consistent.

Part 1 (paths).  `WFPath` describes a *structured* path of the documented grammar (declaratively: no matcher occurs
in it; `matchLast_none_iff` in Proofs/PathSound.lean shows the written-out regex search accepts exactly
the declarative designator language `IsDesignator`); the theorems say that
printing it and parsing the text gives the structure back (`parse_print`), that printing is stable
under a parse/print round (`print_parse_print`), and that a qualifier or an element/component index that
follows loop ids without a segment id is refused (`qualifier_needs_segment`,
`index_after_loops_needs_segment`).  All for every loop-id list, no depth bound.
-/
import Pyx12Verif.Proofs.PathSound
import Pyx12Verif.Model.Segment

namespace Pyx12Verif.Path

/-- a structured path of the documented grammar -/
structure WFPath (p : XPath) : Prop where
  /-- loop ids are non-empty and contain no `/` -/
  loops : ∀ l ∈ p.loops, l ≠ [] ∧ '/' ∉ l
  /-- a path that ends in a loop id: that id is not itself a text of the designator language
      (`IsDesignator`, Spec/Path.lean — e.g. `AK2`, `N1`, `02` are, `2000A`, `HEADER` are not) -/
  lastLoop : p.segId = none → p.eleIdx = none → ∀ l, p.loops.getLast? = some l → ¬ IsDesignator l
  /-- segment id: two or three of `[A-Z0-9]`, the first a letter -/
  seg : ∀ s, p.segId = some s → SegIdOK s
  /-- a qualifier needs a segment id; it is a non-empty run of `[A-Z0-9]` -/
  qual : ∀ q, p.idVal = some q → p.segId ≠ none ∧ q ≠ [] ∧ ∀ x ∈ q, isIdChar x = true
  /-- element index 01..99 -/
  ele : ∀ e, p.eleIdx = some e → 1 ≤ e ∧ e ≤ 99
  /-- component index from 1, only after an element index -/
  sub : ∀ c, p.subIdx = some c → 1 ≤ c ∧ p.eleIdx ≠ none
  /-- a bare designator (no segment id) has no loop ids -/
  bare : p.segId = none → p.eleIdx ≠ none → p.loops = []

def segText : Option (List Char) → List Char
  | none => []
  | some s => s

theorem idChar_ne_slash (x : Char) (h : isIdChar x = true) : x ≠ '/' :=
  idChar_ne x '/' h (by decide)

theorem digit_ne_slash (x : Char) (h : isDigit x = true) : x ≠ '/' :=
  digit_ne x '/' h (by decide)

theorem subPart_no_slash (c : Option Nat) : '/' ∉ subPart c := by
  cases c with
  | none => simp [subPart]
  | some k =>
    simp only [subPart]; split
    · simp
    · intro h; simp only [List.mem_cons] at h
      rcases h with h | h
      · revert h; decide
      · exact digit_ne_slash _ (natDigits_allDigits k _ h) rfl

theorem eleText_no_slash (e : Option Nat) (he : ∀ k, e = some k → k ≤ 99) : '/' ∉ eleText e := by
  cases e with
  | none => simp [eleText]
  | some k =>
    obtain ⟨d1, d2, hp, h1, h2, _⟩ := pad2_two k (he k rfl)
    simp only [eleText, hp, List.mem_cons, List.not_mem_nil, or_false, not_or]
    exact ⟨fun h => digit_ne_slash d1 h1 h.symm, fun h => digit_ne_slash d2 h2 h.symm⟩

theorem qualText_no_slash (q : Option (List Char)) (hq : ∀ t, q = some t → ∀ x ∈ t, isIdChar x = true) :
    '/' ∉ qualText q := by
  cases q with
  | none => simp [qualText]
  | some t =>
    intro hm
    have hm' : '/' ∈ t := by simpa [qualText] using hm
    exact idChar_ne_slash _ (hq t rfl _ hm') rfl

variable {p : XPath}

theorem WFPath.idVal_none (h : WFPath p) (hs : p.segId = none) : p.idVal = none := by
  cases hq : p.idVal with
  | none => rfl
  | some q => exact absurd hs (h.qual q hq).1

theorem WFPath.ele_le (h : WFPath p) : ∀ k, p.eleIdx = some k → k ≤ 99 := fun k hk => (h.ele k hk).2
theorem WFPath.sub_pos (h : WFPath p) : ∀ k, p.subIdx = some k → 1 ≤ k := fun k hk => (h.sub k hk).1
theorem WFPath.qual_ok (h : WFPath p) : ∀ t, p.idVal = some t → t ≠ [] ∧ ∀ x ∈ t, isIdChar x = true :=
  fun t ht => (h.qual t ht).2

/-- under `WFPath` no truthiness test of the printer suppresses anything -/
theorem formatRefdes_eq (h : WFPath p) :
    formatRefdes p = segText p.segId ++ tailText p.idVal p.eleIdx p.subIdx := by
  have hele : elePart p = eleText p.eleIdx ++ subPart p.subIdx := by
    unfold elePart
    cases he : p.eleIdx with
    | none =>
      cases hc : p.subIdx with
      | none => rfl
      | some c => exact absurd he (h.sub c hc).2
    | some e =>
      have : e ≠ 0 := by have := (h.ele e he).1; omega
      simp [this, eleText]
  unfold formatRefdes segPart
  cases hs : p.segId with
  | none => simp [segText, tailText, h.idVal_none hs, qualText, hele]
  | some s =>
    obtain ⟨_, _, a, r, rfl, _⟩ := h.seg s hs
    have hq : qualPart p.idVal = qualText p.idVal := by
      cases hq : p.idVal with
      | none => rfl
      | some q =>
        have := (h.qual q hq).2.1
        cases q with
        | nil => exact absurd rfl this
        | cons x y => simp [qualPart, qualText]
    simp [segText, tailText, hq, hele]

theorem refdes_no_slash (h : WFPath p) : '/' ∉ formatRefdes p := by
  rw [formatRefdes_eq h]
  simp only [List.mem_append, tailText, not_or]
  refine ⟨?_, qualText_no_slash _ (fun t ht => (h.qual_ok t ht).2), eleText_no_slash _ h.ele_le,
    subPart_no_slash _⟩
  cases hs : p.segId with
  | none => simp [segText]
  | some s =>
    obtain ⟨_, hall, _⟩ := h.seg s hs
    exact fun hm => idChar_ne_slash _ (hall _ hm) rfl

theorem matchLast_refdes (h : WFPath p) :
    matchLast (formatRefdes p) = some ⟨p.segId, p.idVal, p.eleIdx, p.subIdx⟩ := by
  rw [formatRefdes_eq h]
  cases hs : p.segId with
  | none => simpa [segText] using matchLast_tail _ _ _ h.qual_ok h.ele_le h.sub_pos
  | some s => exact matchLast_seg s (h.seg s hs) _ _ _ h.qual_ok h.ele_le h.sub_pos

/-- `__init__` on a text assembled from `/`-free components -/
theorem parse_join (rel : Bool) (parts : List (List Char)) (hne : parts ≠ [])
    (hs : ∀ x ∈ parts, '/' ∉ x) (hh : rel = true → ∀ x r, parts = x :: r → x ≠ []) :
    parse ((if rel then [] else ['/']) ++ joinWith '/' parts) = finish rel parts := by
  cases rel with
  | false => simp [parse, splitOn_join '/' parts hne hs]
  | true =>
    match parts, hne with
    | x :: r, _ =>
      match x, hh rfl x r rfl with
      | ch :: t, _ =>
        obtain ⟨t', ht⟩ := joinWith_head '/' (ch :: t) r ch t rfl
        have hch : ch ≠ '/' := by
          intro e; exact hs (ch :: t) (by simp) (by simp [e])
        have := splitOn_join '/' ((ch :: t) :: r) (by simp) hs
        rw [ht] at this
        simp [ht, parse, hch, this]

theorem finish_snoc (rel : Bool) (loops : List (List Char)) (last : List Char) (m : Last)
    (hne : last ≠ []) (hm : matchLast last = some m) :
    finish rel (loops ++ [last]) = checkLast rel loops m := by
  have : last.isEmpty = false := by
    cases last with
    | nil => exact absurd rfl hne
    | cons a b => rfl
  simp [finish, this, hm]

/-- the text in front of the designator -/
theorem format_with_refdes (h : WFPath p) (hr : formatRefdes p ≠ []) :
    format p = (if p.relative then [] else ['/']) ++ joinWith '/' (p.loops ++ [formatRefdes p]) := by
  unfold format
  cases hl : p.loops with
  | nil =>
    have : sepPart p = [] := by
      unfold sepPart loopsPart; rw [hl]
      cases p.relative <;> simp [joinWith]
    simp [this, loopsPart, hl, joinWith]
  | cons x r =>
    -- loop ids in front: there is a segment id
    have hseg : segTruthy p = true := by
      cases hs : p.segId with
      | some s =>
        obtain ⟨_, _, a, t, rfl, _⟩ := h.seg s hs
        simp [segTruthy, hs]
      | none =>
        cases he : p.eleIdx with
        | some e => have := h.bare hs (by simp [he]); rw [hl] at this; cases this
        | none =>
          exfalso; apply hr
          have hq := h.idVal_none hs
          have hc : p.subIdx = none := by
            cases hc : p.subIdx with
            | none => rfl
            | some c => exact absurd he (h.sub c hc).2
          simp [formatRefdes, segPart, elePart, hs, he]
    obtain ⟨hx, hxs⟩ := h.loops x (by simp [hl])
    match x, hx with
    | ch :: t, _ =>
      obtain ⟨t', ht⟩ := joinWith_head '/' (ch :: t) r ch t rfl
      have hch : ch ≠ '/' := by intro e; exact hxs (by simp [e])
      have hsep : sepPart p = ['/'] := by
        unfold sepPart loopsPart; rw [hl, ht, hseg]
        cases p.relative <;> simp [hch]
      rw [hsep, joinWith_snoc '/' _ _ (by simp)]
      simp [loopsPart, hl]

theorem checkLast_wf (h : WFPath p) :
    checkLast p.relative p.loops ⟨p.segId, p.idVal, p.eleIdx, p.subIdx⟩ = some p := by
  unfold checkLast
  cases hs : p.segId with
  | some s => cases p; simp_all
  | none =>
    have hq := h.idVal_none hs
    cases he : p.eleIdx with
    | some e =>
      have := h.bare hs (by simp [he])
      simp [hq, this]
      cases p; simp_all
    | none =>
      have hc : p.subIdx = none := by
        cases hc : p.subIdx with
        | none => rfl
        | some c => exact absurd he (h.sub c hc).2
      simp [hq, hc]
      cases p; simp_all

/-- **parse ∘ print** on the grammar: parsing the printed text yields exactly the parts -/
theorem parse_print (p : XPath) (h : WFPath p) : parse (format p) = some p := by
  by_cases hr : formatRefdes p = []
  · -- a pure loop path
    have hs : p.segId = none := by
      cases hs : p.segId with
      | none => rfl
      | some s =>
        obtain ⟨_, _, a, t, rfl, _⟩ := h.seg s hs
        rw [formatRefdes_eq h, hs] at hr; simp [segText] at hr
    have he : p.eleIdx = none := by
      cases he : p.eleIdx with
      | none => rfl
      | some e =>
        obtain ⟨d1, d2, hp, _⟩ := pad2_two e (h.ele e he).2
        rw [formatRefdes_eq h, hs, he, h.idVal_none hs] at hr
        simp [segText, tailText, qualText, eleText, hp] at hr
    have hq := h.idVal_none hs
    have hc : p.subIdx = none := by
      cases hc : p.subIdx with
      | none => rfl
      | some c => exact absurd he (h.sub c hc).2
    have hsep : sepPart p = [] := by simp [sepPart, segTruthy, hs]
    have hfmt : format p = (if p.relative then [] else ['/']) ++ joinWith '/' p.loops := by
      simp [format, hsep, hr, loopsPart]
    cases hl : p.loops with
    | nil =>
      rw [hfmt, hl]
      cases hrel : p.relative <;> cases p <;> simp_all [joinWith, parse, splitOn, finish, loopsOnly]
    | cons x r =>
      rw [hfmt, hl, parse_join p.relative (x :: r) (by simp)
        (fun y hy => (h.loops y (by rw [hl]; exact hy)).2)
        (fun _ y t e => by
          simp only [List.cons.injEq] at e
          rw [← e.1]; exact (h.loops x (by simp [hl])).1)]
      unfold finish
      have hne : (x :: r) ≠ [] := by simp
      obtain ⟨l, hlast⟩ : ∃ l, (x :: r).getLast? = some l := ⟨_, List.getLast?_eq_some_getLast hne⟩
      have hmem : l ∈ p.loops := by
        rw [hl]; exact List.mem_of_getLast? hlast
      have hlne := (h.loops l hmem).1
      have hemp : l.isEmpty = false := by
        cases l with
        | nil => exact absurd rfl hlne
        | cons a b => rfl
      have hm := matchLast_none_of_not_designator l (h.lastLoop hs he l (by rw [hl]; exact hlast))
      rw [hlast]; simp only [hemp, hm]
      cases p; simp_all [loopsOnly]
  · rw [format_with_refdes h hr,
      parse_join p.relative (p.loops ++ [formatRefdes p]) (by simp)
        (by
          intro y hy; simp only [List.mem_append, List.mem_singleton] at hy
          rcases hy with hy | hy
          · exact (h.loops y hy).2
          · rw [hy]; exact refdes_no_slash h)
        (by
          intro _ y t e
          cases hl : p.loops with
          | nil => rw [hl] at e; simp at e; rw [← e.1]; exact hr
          | cons a b =>
            rw [hl] at e; simp at e; rw [← e.1]; exact (h.loops a (by simp [hl])).1),
      finish_snoc _ _ _ _ hr (matchLast_refdes h)]
    exact checkLast_wf h

/-- printing is stable under a parse / print round, and the re-parsed path is the same path -/
theorem print_parse_print (p : XPath) (h : WFPath p) :
    (parse (format p)).map format = some (format p) ∧
    ((parse (format p)).bind fun q => parse (format q)) = parse (format p) := by
  simp [parse_print p h]

end Pyx12Verif.Path

namespace Pyx12Verif.Path

/-! ### refusals -/

theorem tailText_no_slash (q : Option (List Char)) (e c : Option Nat)
    (hq : ∀ t, q = some t → ∀ x ∈ t, isIdChar x = true) (he : ∀ k, e = some k → k ≤ 99) :
    '/' ∉ tailText q e c := by
  simp only [tailText, List.mem_append, not_or]
  exact ⟨qualText_no_slash q hq, eleText_no_slash e he, subPart_no_slash c⟩

/-- the text `[/]L1/…/Ln/<last>` -/
def pathText (rel : Bool) (loops : List (List Char)) (last : List Char) : List Char :=
  (if rel then [] else ['/']) ++ joinWith '/' (loops ++ [last])

theorem parse_pathText (rel : Bool) (loops : List (List Char)) (last : List Char) (m : Last)
    (hl : ∀ l ∈ loops, l ≠ [] ∧ '/' ∉ l) (hne : last ≠ []) (hs : '/' ∉ last)
    (hm : matchLast last = some m) :
    parse (pathText rel loops last) = checkLast rel loops m := by
  unfold pathText
  rw [parse_join rel (loops ++ [last]) (by simp)
      (by
        intro y hy; simp only [List.mem_append, List.mem_singleton] at hy
        rcases hy with hy | hy
        · exact (hl y hy).2
        · rw [hy]; exact hs)
      (by
        intro _ y t e
        cases loops with
        | nil => simp at e; rw [← e.1]; exact hne
        | cons a b => simp at e; rw [← e.1]; exact (hl a (by simp)).1),
    finish_snoc _ _ _ _ hne hm]

/-- a bracketed qualifier without a segment id is refused with the path error — after any loop ids
    (also none), absolute or relative, with or without element / component index -/
theorem qualifier_needs_segment (rel : Bool) (loops : List (List Char)) (q : List Char)
    (e c : Option Nat) (hl : ∀ l ∈ loops, l ≠ [] ∧ '/' ∉ l)
    (hq : q ≠ [] ∧ ∀ x ∈ q, isIdChar x = true)
    (he : ∀ k, e = some k → k ≤ 99) (hc : ∀ k, c = some k → 1 ≤ k) :
    parse (pathText rel loops (tailText (some q) e c)) = none := by
  have hq' : ∀ t, some q = some t → t ≠ [] ∧ ∀ x ∈ t, isIdChar x = true := by
    intro t ht; cases ht; exact hq
  rw [parse_pathText rel loops _ _ hl (by simp [tailText, qualText])
    (tailText_no_slash _ _ _ (fun t ht => (hq' t ht).2) he) (matchLast_tail _ e c hq' he hc)]
  simp [checkLast]

/-- an element and/or component index that follows loop ids without a segment id is refused -/
theorem index_after_loops_needs_segment (rel : Bool) (loops : List (List Char)) (e c : Option Nat)
    (hl : ∀ l ∈ loops, l ≠ [] ∧ '/' ∉ l) (hloops : loops ≠ [])
    (hidx : e ≠ none ∨ c ≠ none)
    (he : ∀ k, e = some k → k ≤ 99) (hc : ∀ k, c = some k → 1 ≤ k) :
    parse (pathText rel loops (tailText none e c)) = none := by
  have hne : tailText none e c ≠ [] := by
    intro h0
    rcases hidx with h | h
    · cases e with
      | none => exact h rfl
      | some k =>
        obtain ⟨d1, d2, hp, _⟩ := pad2_two k (he k rfl)
        simp [tailText, qualText, eleText, hp] at h0
    · cases c with
      | none => exact h rfl
      | some k =>
        have : k ≠ 0 := by have := hc k rfl; omega
        simp [tailText, qualText, subPart, this] at h0
  rw [parse_pathText rel loops _ _ hl hne (tailText_no_slash _ _ _ (by simp) he)
    (matchLast_tail none e c (by simp) he hc)]
  have hemp : loops.isEmpty = false := by
    cases loops with
    | nil => exact absurd rfl hloops
    | cons a b => rfl
  rcases hidx with h | h
  · cases e with
    | none => exact absurd rfl h
    | some k => simp [checkLast, hemp]
  · cases c with
    | none => exact absurd rfl h
    | some k => simp [checkLast, hemp]

/-! ### non-vacuity and the documented corner cases (kernel-evaluated) -/

def ex1 : XPath :=
  ⟨false, [['2','0','0','0','A'], ['2','3','0','0']], some ['C','L','M'], none, some 5, some 1⟩

example : WFPath ex1 :=
  { loops := by simp [ex1]
    lastLoop := by simp [ex1]
    seg := by
      intro s hs; simp [ex1] at hs; subst hs
      exact ⟨Or.inr rfl, by decide, 'C', ['L', 'M'], rfl, by decide⟩
    qual := by simp [ex1]
    ele := by simp [ex1]
    sub := by simp [ex1]
    bare := by simp [ex1] }

example : format ex1 = "/2000A/2300/CLM05-1".toList := by decide
example : parse "/2000A/2300/CLM05-1".toList = some ex1 := by decide
/-- a loop path whose last id is not a designator -/
example : WFPath ⟨true, [['I','S','A','_','L','O','O','P'], ['2','0','0','0','A']], none, none, none, none⟩ :=
  { loops := by simp
    lastLoop := by
      intro _ _ l hl; simp at hl; subst hl
      exact (matchLast_none_iff _).mp (by decide)
    seg := by simp, qual := by simp, ele := by simp, sub := by simp, bare := by simp }

/-- the hypotheses of the refusal theorems are satisfiable -/
example : parse "/2000A/[X]01".toList = none := by decide
example : parse "2000A/02-1".toList = none := by decide
example : parse "/02-1".toList = some ⟨false, [], none, none, some 2, some 1⟩ := by decide

/-- greedy seg-id group with backtracking, `$` before a final newline, falsy suppression -/
example : parse "N1011".toList = some ⟨true, [], some ['N','1','0'], none, some 11, none⟩ := by decide
example : parse "AB12".toList = some ⟨true, [], some ['A','B'], none, some 12, none⟩ := by decide
example : parse "A12".toList = some ⟨true, [], some ['A','1','2'], none, none, none⟩ := by decide
example : parse "N102\n".toList = parse "N102".toList := by decide
example : (parse "N102-01".toList).map format = some "N102-1".toList := by decide
example : (parse "-2".toList).map format = some [] := by decide

/-- `lastLoop` cannot be dropped from `WFPath`: the 997 loop id `AK2` is read as a segment id
    (finding `pred:loop-id-reads-as-designator`) -/
theorem loop_id_AK2_reads_as_segment :
    parse "/HEADER/AK2".toList =
      some ⟨false, [['H','E','A','D','E','R']], some ['A','K','2'], none, none, none⟩ := by decide

end Pyx12Verif.Path

/-!
Part 2 (segments).  A reference designator is printed from its parts: optional segment id, element
number `k+1` (1..99), optional component number `j+1`; `set` / `get_value` are the models of
`Segment.set` / `Segment.get_value`.
-/
namespace Pyx12Verif.Segment
open Pyx12Verif.Path

/-- the designator `[SEG]ee[-c]` for element `k+1` and component `j+1`, as a structured path -/
def desig (seg : Option (List Char)) (k : Nat) (c : Option Nat) : XPath :=
  ⟨true, [], seg, none, some (k + 1), c.map (· + 1)⟩

/-- its text -/
def refText (seg : Option (List Char)) (k : Nat) (c : Option Nat) : List Char := format (desig seg k c)

/-- designator grammar: the segment id (when given) has the id shape, element number ≤ 99 -/
def WFDesig (seg : Option (List Char)) (k : Nat) : Prop :=
  (∀ x, seg = some x → SegIdOK x) ∧ k < 99

theorem desig_wf (seg : Option (List Char)) (k : Nat) (c : Option Nat) (h : WFDesig seg k) :
    WFPath (desig seg k c) :=
  { loops := by simp [desig]
    lastLoop := by simp [desig]
    seg := by intro s hs; exact h.1 s (by simpa [desig] using hs)
    qual := by simp [desig]
    ele := by intro e he; simp [desig] at he; have := h.2; omega
    sub := by
      intro x hx; simp [desig] at hx ⊢
      obtain ⟨a, _, rfl⟩ := hx; omega
    bare := by simp [desig] }

theorem parse_refText (seg : Option (List Char)) (k : Nat) (c : Option Nat) (h : WFDesig seg k) :
    parse (refText seg k c) = some (desig seg k c) := parse_print _ (desig_wf seg k c h)

theorem map_pred (c : Option Nat) : (c.map (· + 1)).map pyPred = c.map PyIdx.nat := by
  cases c <;> rfl

/-- a designator without segment id, or with the segment's own id, addresses `(k, j)` -/
theorem parseRefdes_own (s : SegObj) (seg : Option (List Char)) (k : Nat) (c : Option Nat)
    (h : WFDesig seg k) (hown : seg = none ∨ seg = some s.id) :
    parseRefdes s (refText seg k c) = .ok (some (.nat k), c.map PyIdx.nat) := by
  unfold parseRefdes; rw [parse_refText seg k c h]
  rcases hown with rfl | rfl <;> simp [refOfPath, desig] <;> exact ⟨rfl, by cases c <;> rfl⟩

/-- **foreign_segment_refused** (`_parse_refdes`) -/
theorem parseRefdes_foreign (s : SegObj) (x : List Char) (k : Nat) (c : Option Nat)
    (h : WFDesig (some x) k) (hx : x ≠ s.id) :
    parseRefdes s (refText (some x) k c) = .error .engineError := by
  unfold parseRefdes; rw [parse_refText (some x) k c h]
  simp [refOfPath, desig, hx]

/-- a designator that names another segment is refused by `set` and by `get_value`
    (`EngineError`; the model's `set` returns no new segment: nothing is changed) -/
theorem foreign_segment_refused (s : SegObj) (x : List Char) (k : Nat) (c : Option Nat)
    (v : List Char) (h : WFDesig (some x) k) (hx : x ≠ s.id) :
    set s (refText (some x) k c) v = .error .engineError ∧
    getValue s (refText (some x) k c) = .error .engineError := by
  simp [set, getValue, get, parseRefdes_foreign s x k c h hx]

/-! ### list facts -/

theorem padTo_length {α : Type} (b : α) (xs : List α) (k : Nat) :
    (padTo b xs (.nat k)).length = max xs.length (k + 1) := by
  simp [padTo]; omega

theorem padTo_lt {α : Type} (b : α) (xs : List α) (k : Nat) : k < (padTo b xs (.nat k)).length := by
  rw [padTo_length]; omega

theorem padTo_old {α : Type} (b : α) (xs : List α) (k i : Nat) (hi : i < xs.length) :
    (padTo b xs (.nat k))[i]? = xs[i]? := by
  simp [padTo, List.getElem?_append_left hi]

theorem padTo_new {α : Type} (b : α) (xs : List α) (k i : Nat) (h1 : xs.length ≤ i) (h2 : i ≤ k) :
    (padTo b xs (.nat k))[i]? = some b := by
  simp only [padTo]
  rw [List.getElem?_append_right h1, List.getElem?_replicate]
  have : i - xs.length < k + 1 - xs.length := by omega
  simp [this]

/-- the separator `set` builds a whole element with -/
def wholeTerm (s : SegObj) (k : Nat) : Char :=
  if isISA s.id && k == 15 then s.eleTerm else s.subTerm

/-- the element list after the padding loop -/
def padded (s : SegObj) (k : Nat) : List Comp := padTo (blankComp s) s.elements (.nat k)

/-! ### what `set` returns -/

theorem isa_cond (id : List Char) (k : Nat) :
    (isISA id && decide (PyIdx.nat k = PyIdx.nat 15)) = (isISA id && k == 15) := by
  by_cases h : k = 15 <;> simp [h]

theorem set_whole_eq (s : SegObj) (seg : Option (List Char)) (k : Nat) (v : List Char)
    (h : WFDesig seg k) (hown : seg = none ∨ seg = some s.id) :
    set s (refText seg k none) v =
      .ok (withElements s ((padded s k).set k (mkComp (wholeTerm s k) v))) := by
  have hlt := padTo_lt (blankComp s) s.elements k
  unfold set; rw [parseRefdes_own s seg k none h hown]
  simp only [Option.map_none, setRef, setAt, isa_cond, wholeTerm, padded]
  cases hcond : (isISA s.id && k == 15) <;> simp [storeComp, pySet, hlt]

theorem set_sub_eq (s : SegObj) (seg : Option (List Char)) (k j : Nat) (v : List Char)
    (h : WFDesig seg k) (hown : seg = none ∨ seg = some s.id)
    (hisa : ¬ (isISA s.id = true ∧ k = 15)) :
    ∃ c0, (padded s k)[k]? = some c0 ∧
      set s (refText seg k (some j)) v =
        .ok (withElements s ((padded s k).set k ⟨c0.term, (padTo [] c0.subs (.nat j)).set j v⟩)) := by
  have hlt := padTo_lt (blankComp s) s.elements k
  have hget : (padded s k)[k]? = some ((padded s k)[k]'hlt) := List.getElem?_eq_getElem hlt
  refine ⟨_, hget, ?_⟩
  unfold set; rw [parseRefdes_own s seg k (some j) h hown]
  have : (isISA s.id && k == 15) = false := by
    cases hI : isISA s.id with
    | false => simp
    | true =>
      have : k ≠ 15 := fun e => hisa ⟨hI, e⟩
      simp [this]
  have hj := padTo_lt ([] : List Char) ((padded s k)[k]'hlt).subs j
  simp only [Option.map_some, setRef, setAt, isa_cond, this]
  unfold padded at hget hlt hj ⊢
  simp [setComponent, pyGet, setSub, pySet, hj, storeComp, hlt]

/-! ### the laws -/

theorem getValue_ok (s : SegObj) (seg : Option (List Char)) (k : Nat) (c : Option Nat) (g : Got)
    (h : WFDesig seg k) (hown : seg = none ∨ seg = some s.id)
    (hg : getAt s (.nat k) (c.map PyIdx.nat) = .ok g) :
    getValue s (refText seg k c) = valueOf g := by
  simp [getValue, get, parseRefdes_own s seg k c h hown, getRef, hg]

theorem getValue_err (s : SegObj) (seg : Option (List Char)) (k : Nat) (c : Option Nat) (e : Err)
    (h : WFDesig seg k) (hown : seg = none ∨ seg = some s.id)
    (hg : getAt s (.nat k) (c.map PyIdx.nat) = .error e) :
    getValue s (refText seg k c) = .error e := by
  simp [getValue, get, parseRefdes_own s seg k c h hown, getRef, hg]

theorem getAt_set_whole (s : SegObj) (es : List Comp) (k : Nat) (comp : Comp) (hlt : k < es.length) :
    getAt (withElements s (es.set k comp)) (.nat k) none = .ok (.comp comp) := by
  simp [getAt, geLen, withElements, pyGet, hlt, Nat.not_le.mpr hlt]

theorem getAt_set_sub (s : SegObj) (es : List Comp) (k j : Nat) (t : Char) (subs : List (List Char))
    (v : List Char) (hlt : k < es.length) (hj : j < subs.length) :
    getAt (withElements s (es.set k ⟨t, subs.set j v⟩)) (.nat k) (some (.nat j)) = .ok (.elem v) := by
  simp [getAt, geLen, withElements, pyGet, hlt, Nat.not_le.mpr hlt, getSub, hj, Nat.not_le.mpr hj]

/-- **get_set**, whole element: reading the designator just written returns the value, provided the
    value does not contain the separator the element is built with (the component separator; the
    element separator for `ISA16`) -/
theorem get_set_whole (s : SegObj) (seg : Option (List Char)) (k : Nat) (v : List Char)
    (h : WFDesig seg k) (hown : seg = none ∨ seg = some s.id) (hv : wholeTerm s k ∉ v) :
    ∃ s', set s (refText seg k none) v = .ok s' ∧
      getValue s' (refText seg k none) = .ok (some v) := by
  refine ⟨_, set_whole_eq s seg k v h hown, ?_⟩
  have hlt : k < (padded s k).length := padTo_lt (blankComp s) s.elements k
  rw [getValue_ok _ seg k none _ h (by simpa [withElements] using hown)
    (getAt_set_whole s _ k _ hlt)]
  simp [valueOf, fmtComp, mkComp, splitOn_no_sep _ v hv, dropTrailingEmpty, joinWith]

/-- **get_set**, component: no restriction on the value (`ISA16` is always replaced as a whole and
    is excluded, see `isa16_component_ignored`) -/
theorem get_set_sub (s : SegObj) (seg : Option (List Char)) (k j : Nat) (v : List Char)
    (h : WFDesig seg k) (hown : seg = none ∨ seg = some s.id)
    (hisa : ¬ (isISA s.id = true ∧ k = 15)) :
    ∃ s', set s (refText seg k (some j)) v = .ok s' ∧
      getValue s' (refText seg k (some j)) = .ok (some v) := by
  obtain ⟨c0, _, hset⟩ := set_sub_eq s seg k j v h hown hisa
  refine ⟨_, hset, ?_⟩
  have hlt : k < (padded s k).length := padTo_lt (blankComp s) s.elements k
  have hj := padTo_lt ([] : List Char) c0.subs j
  rw [getValue_ok _ seg k (some j) _ h (by simpa [withElements] using hown)
    (getAt_set_sub s _ k j _ _ v hlt hj)]
  rfl

/-- the domain of the read-after-write law -/
def InDomain (s : SegObj) (k : Nat) (c : Option Nat) (v : List Char) : Prop :=
  match c with
  | none => wholeTerm s k ∉ v
  | some _ => ¬ (isISA s.id = true ∧ k = 15)

/-- **get_set**: writing a value at a designator (element or component, with or without the
    segment's own id) succeeds, and reading the same designator returns the value -/
theorem get_set (s : SegObj) (seg : Option (List Char)) (k : Nat) (c : Option Nat) (v : List Char)
    (h : WFDesig seg k) (hown : seg = none ∨ seg = some s.id) (hd : InDomain s k c v) :
    ∃ s', set s (refText seg k c) v = .ok s' ∧ getValue s' (refText seg k c) = .ok (some v) := by
  cases c with
  | none => exact get_set_whole s seg k v h hown hd
  | some j => exact get_set_sub s seg k j v h hown hd

/-- reading an element beyond the end, or a component beyond the end of its element, gives `None` -/
theorem get_missing (s : SegObj) (seg : Option (List Char)) (k : Nat) (c : Option Nat)
    (h : WFDesig seg k) (hown : seg = none ∨ seg = some s.id)
    (hm : s.elements.length ≤ k ∨
      ∃ e j, s.elements[k]? = some e ∧ c = some j ∧ e.subs.length ≤ j) :
    getValue s (refText seg k c) = .ok none := by
  have hg : getAt s (.nat k) (c.map PyIdx.nat) = .ok .nothing := by
    rcases hm with hm | ⟨e, j, he, rfl, hj⟩
    · simp [getAt, geLen, hm]
    · have hk : k < s.elements.length := by
        rcases Nat.lt_or_ge k s.elements.length with hk | hk
        · exact hk
        · rw [List.getElem?_eq_none_iff.mpr hk] at he; cases he
      simp [getAt, geLen, Nat.not_le.mpr hk, pyGet, he, getSub, hj]
  rw [getValue_ok s seg k c _ h hown hg]; rfl

/-- **set_pads** (elements): the segment grows exactly to the element written; every new position in
    between is an empty simple element -/
theorem set_pads (s s' : SegObj) (seg : Option (List Char)) (k : Nat) (c : Option Nat) (v : List Char)
    (h : WFDesig seg k) (hown : seg = none ∨ seg = some s.id)
    (hisa : c ≠ none → ¬ (isISA s.id = true ∧ k = 15))
    (hs : set s (refText seg k c) v = .ok s') :
    s'.elements.length = max s.elements.length (k + 1) ∧
    ∀ i, s.elements.length ≤ i → i < k → s'.elements[i]? = some ⟨s.subTerm, [[]]⟩ := by
  have hlen := padTo_length (blankComp s) s.elements k
  cases c with
  | none =>
    rw [set_whole_eq s seg k v h hown] at hs
    cases hs
    refine ⟨by simp [withElements, padded, hlen], ?_⟩
    intro i h1 h2
    simp only [withElements, padded]
    rw [List.getElem?_set_ne (by omega), padTo_new _ _ _ _ h1 (by omega)]; rfl
  | some j =>
    obtain ⟨c0, _, hset⟩ := set_sub_eq s seg k j v h hown (hisa (by simp))
    rw [hset] at hs
    cases hs
    refine ⟨by simp [withElements, padded, hlen], ?_⟩
    intro i h1 h2
    simp only [withElements, padded]
    rw [List.getElem?_set_ne (by omega), padTo_new _ _ _ _ h1 (by omega)]; rfl

/-- **set_pads** (components): the element written grows exactly to the component written; new
    components in between are empty; an element that did not exist before starts as one empty
    component -/
theorem set_pads_sub (s s' : SegObj) (seg : Option (List Char)) (k j : Nat) (v : List Char)
    (h : WFDesig seg k) (hown : seg = none ∨ seg = some s.id)
    (hisa : ¬ (isISA s.id = true ∧ k = 15))
    (hs : set s (refText seg k (some j)) v = .ok s') :
    ∃ old new, (if k < s.elements.length then s.elements[k]? else some ⟨s.subTerm, [[]]⟩) = some old ∧
      s'.elements[k]? = some new ∧ new.term = old.term ∧
      new.subs.length = max old.subs.length (j + 1) ∧ new.subs[j]? = some v ∧
      (∀ i, old.subs.length ≤ i → i < j → new.subs[i]? = some []) ∧
      (∀ i, i ≠ j → i < old.subs.length → new.subs[i]? = old.subs[i]?) := by
  obtain ⟨c0, hc0, hset⟩ := set_sub_eq s seg k j v h hown hisa
  rw [hset] at hs
  cases hs
  have hlt := padTo_lt (blankComp s) s.elements k
  have hj := padTo_lt ([] : List Char) c0.subs j
  refine ⟨c0, ⟨c0.term, (padTo [] c0.subs (.nat j)).set j v⟩, ?_, ?_, rfl, ?_, ?_, ?_, ?_⟩
  · split
    · rename_i hk; rw [← hc0]; exact (padTo_old _ _ _ _ hk).symm
    · rename_i hk; rw [← hc0]; unfold padded
      rw [padTo_new _ _ _ _ (by omega) (by omega)]; rfl
  · simp [withElements, padded, hlt]
  · simp [padTo_length]
  · simp [hj]
  · intro i h1 h2
    show ((padTo [] c0.subs (.nat j)).set j v)[i]? = some []
    rw [List.getElem?_set_ne (by omega), padTo_new _ _ _ _ h1 (by omega)]
  · intro i h1 h2
    show ((padTo [] c0.subs (.nat j)).set j v)[i]? = c0.subs[i]?
    rw [List.getElem?_set_ne (by omega), padTo_old _ _ _ _ h2]

/-- **set_frame**: id and separators are kept and every other element that existed is unchanged -/
theorem set_frame (s s' : SegObj) (seg : Option (List Char)) (k : Nat) (c : Option Nat) (v : List Char)
    (h : WFDesig seg k) (hown : seg = none ∨ seg = some s.id)
    (hisa : c ≠ none → ¬ (isISA s.id = true ∧ k = 15))
    (hs : set s (refText seg k c) v = .ok s') :
    s'.id = s.id ∧ s'.eleTerm = s.eleTerm ∧ s'.subTerm = s.subTerm ∧
    ∀ i, i ≠ k → i < s.elements.length → s'.elements[i]? = s.elements[i]? := by
  cases c with
  | none =>
    rw [set_whole_eq s seg k v h hown] at hs
    cases hs
    refine ⟨rfl, rfl, rfl, ?_⟩
    intro i h1 h2
    simp only [withElements, padded]
    rw [List.getElem?_set_ne (by omega), padTo_old _ _ _ _ h2]
  | some j =>
    obtain ⟨c0, _, hset⟩ := set_sub_eq s seg k j v h hown (hisa (by simp))
    rw [hset] at hs
    cases hs
    refine ⟨rfl, rfl, rfl, ?_⟩
    intro i h1 h2
    simp only [withElements, padded]
    rw [List.getElem?_set_ne (by omega), padTo_old _ _ _ _ h2]

/-- `get_value` of an own designator depends only on the addressed element -/
theorem getValue_congr (s s' : SegObj) (seg : Option (List Char)) (k : Nat) (c : Option Nat)
    (h : WFDesig seg k) (hown : seg = none ∨ seg = some s.id) (hid : s'.id = s.id)
    (he : s'.elements[k]? = s.elements[k]?) :
    getValue s' (refText seg k c) = getValue s (refText seg k c) := by
  have hlen : (s'.elements.length ≤ k) ↔ (s.elements.length ≤ k) := by
    rw [← List.getElem?_eq_none_iff, ← List.getElem?_eq_none_iff, he]
  have heq : getAt s' (.nat k) (c.map PyIdx.nat) = getAt s (.nat k) (c.map PyIdx.nat) := by
    unfold getAt
    by_cases hk : s.elements.length ≤ k
    · have hk' := hlen.mpr hk
      simp [geLen, hk, hk']
    · have hk' : ¬ s'.elements.length ≤ k := fun x => hk (hlen.mp x)
      simp [geLen, hk, hk', pyGet, he]
  have hown' : seg = none ∨ seg = some s'.id := by rw [hid]; exact hown
  cases hg : getAt s (.nat k) (c.map PyIdx.nat) with
  | ok g => rw [getValue_ok s seg k c g h hown hg, getValue_ok s' seg k c g h hown' (heq.trans hg)]
  | error e => rw [getValue_err s seg k c e h hown hg, getValue_err s' seg k c e h hown' (heq.trans hg)]

/-- **set_frame**, as observed through `get_value`: reading any designator of another existing
    element gives the same result before and after the write -/
theorem set_frame_observed (s s' : SegObj) (seg seg' : Option (List Char)) (k k' : Nat)
    (c c' : Option Nat) (v : List Char)
    (h : WFDesig seg k) (hown : seg = none ∨ seg = some s.id)
    (h' : WFDesig seg' k') (hown' : seg' = none ∨ seg' = some s.id)
    (hisa : c ≠ none → ¬ (isISA s.id = true ∧ k = 15))
    (hs : set s (refText seg k c) v = .ok s') (hk : k' ≠ k) (hex : k' < s.elements.length) :
    getValue s' (refText seg' k' c') = getValue s (refText seg' k' c') := by
  obtain ⟨hid, _, _, hfr⟩ := set_frame s s' seg k c v h hown hisa hs
  exact getValue_congr s s' seg' k' c' h' hown' hid (hfr k' hk hex)

/-- the exception to get_set: on an `ISA` segment element 16 is always replaced as a whole, the
    component number of the designator is ignored; reading `ISA16-2` back gives `None`
    (finding `pred:isa16-component-designator`) -/
theorem isa16_component_ignored :
    (match set ⟨['I','S','A'], [], '*', ':'⟩ "ISA16-2".toList ['x'] with
     | .ok s' => getValue s' "ISA16-2".toList
     | .error e => .error e) = .ok none := by rfl

/-! ### non-vacuity -/

example : WFDesig (some ['N','M','1']) 2 :=
  ⟨by intro x hx; cases hx; exact ⟨Or.inr rfl, by decide, 'N', ['M','1'], rfl, by decide⟩, by omega⟩
example : refText (some ['N','M','1']) 2 (some 0) = "NM103-1".toList := by decide
example : refText none 15 none = "16".toList := by decide
example :
    set ⟨['N','1'], [⟨':', [['a']]⟩], '*', ':'⟩ "N104-2".toList ['x'] =
      .ok ⟨['N','1'], [⟨':', [['a']]⟩, ⟨':', [[]]⟩, ⟨':', [[]]⟩, ⟨':', [[], ['x']]⟩], '*', ':'⟩ := by rfl
example : getValue ⟨['N','1'], [⟨':', [['a'], ['b'], []]⟩], '*', ':'⟩ "01".toList = .ok (some "a:b".toList) := by
  rfl
example : set ⟨['N','1'], [], '*', ':'⟩ "N201".toList ['x'] = .error .engineError := by rfl
/-- the value restriction of `get_set_whole` is needed: trailing component separators are trimmed -/
example :
    (match set ⟨['N','1'], [], '*', ':'⟩ "01".toList "a::".toList with
     | .ok s' => getValue s' "01".toList
     | .error e => .error e) = .ok (some ['a']) := by rfl

end Pyx12Verif.Segment
