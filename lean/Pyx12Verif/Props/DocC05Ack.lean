/-
C05 at PIPELINE level (2): the acknowledgement of a run of `validateDoc`, for texts whose header and trailer segments
NEST (`Envelope.properlyNested`, the recogniser of C04, over the views the reader has of the yielded segments) and in which
every header / trailer segment found its map node (`EnvMatched`; a set whose ST01 is not the map's transaction id is not
matched — listed finding `ack-omits-a-set`).  Composition of `doc_events_wellformed` (Props/DocC05.lean) with the theorems
of Props/C05.lean:

  doc_ack_names_groups_and_sets   the 997 names, in order, one group per GS segment the reader yielded (GS01, GS06) and one
                                  set per ST segment (ST01, ST02)                       [C05 `ack_names_every_group_and_set_in_order`]
  doc_ack_accepts_iff             the node of the set between an ST and its SE: position in document order, ST01 / ST02, and
                                  `ack_code == 'A'` ⇔ between its `add_st_loop` and its `close_st_loop` no error was ATTACHED:
                                  no `st_error`, and no segment / element error after an `add_seg` (`anyCounts`).  What is
                                  reported before the first `add_seg` — element errors of the ST segment itself (D22), a
                                  reader error on the ST line (D27) — is not attached, and what is reported after the
                                  `close_st_loop` (element errors of SE, D22 / D28) comes too late; AK501 is that code.
  doc_ack_totals                  the node of the group between a GS and its GE: position, GS01 / GS06, AK902 = GE01 as
                                  `err_gs.close` reads it, AK903 = number of ST segments between them, AK904 = number of
                                  its sets marked accepted                                        [C05 `ak9_totals_eq_recount`]

`MapsFresh` (every segment definition has a simple element or its syntax notes name element positions of the segment; true
of every shipped map) is what keeps `ele_error` off stale element nodes; it is needed only for the acceptance code.
-/
import Pyx12Verif.Props.DocC05
import Pyx12Verif.Proofs.DocC05Nest2

namespace Pyx12Verif.Doc
open Pyx12Verif DocC05

/-! ### a run with a verdict, unpacked -/

theorem views_append (d : Delims) (A B : List (List SegText.RErr × Seg)) : views d (A ++ B) = views d A ++ views d B := by
  simp [views]

theorem views_cons (d : Delims) (p : List SegText.RErr × Seg) (B : List (List SegText.RErr × Seg)) :
    views d (p :: B) = viewD d p.2 :: views d B := rfl

theorem initState_loopsAt (ms : Maps) (control : MapX) : Envelope.LoopsAt .top (initState ms control).rs := rfl

/-- the rounds, the events and the final tree of a run that ends with a verdict -/
theorem doc_verdict_trace (ms : Maps) (ctx : Ctx) (text : List Char) (b : Bool)
    (hv : (validateDoc ms ctx text).outcome = .verdict b) (hd : Tokenizer.Header) (rr : SegText.ReadResult)
    (hr : SegText.readAll { rest := text, sizes := [] } = .ok hd rr) :
    ∃ control st fin, Trace ms ctx control (SegText.delimsOf hd) (initState ms control) rr.segs (validateDoc ms ctx text).segs st ∧
      (validateDoc ms ctx text).events = evsOf (validateDoc ms ctx text).segs ++ fin ∧ RdOnly fin ∧
      ErrTree.run ErrTree.State.init (validateDoc ms ctx text).events = .ok (validateDoc ms ctx text).final := by
  have hrun := doc_final_run ms ctx text b hv
  obtain ⟨hd', rr', control, a, est, hr', _, hl, _, heq⟩ := validateDoc_verdict ms ctx text b hv
  rw [hr] at hr'
  injection hr' with h1 h2
  subst h1 h2
  obtain ⟨ps1, ps2, outs, st, e1, e2, e3, e4, e5⟩ :=
    runSegs_trace ms ctx control (SegText.delimsOf hd) rr.segs (initAcc ms control)
  obtain ⟨f1, _, _⟩ := e5 a hl
  subst f1
  rw [List.append_nil] at e1
  subst e1
  rw [hl] at e3 e4
  have e3' : a.outs = outs := e3
  have e4' : a.events = evsOf outs := e4
  refine ⟨control, st, _, ?_, ?_, rdOnly_final rr a.st, hrun⟩
  · rw [heq]; simp only; rw [e3']; exact e2
  · rw [heq]; simp only; rw [e3', e4']

/-! ## 3a. names -/

/-- **the acknowledgement names, in order, the groups and sets the reader yielded** -/
theorem doc_ack_names_groups_and_sets (ms : Maps) (ctx : Ctx) (text : List Char) (b : Bool) (p : Ack.Params)
    (hv : (validateDoc ms ctx text).outcome = .verdict b) (hd : Tokenizer.Header) (rr : SegText.ReadResult)
    (hr : SegText.readAll { rest := text, sizes := [] } = .ok hd rr)
    (hnest : Envelope.properlyNested (views (SegText.delimsOf hd) rr.segs) = true)
    (hmatched : EnvMatched (validateDoc ms ctx text).segs)
    (hack : (Ack.ack997 { legacy := false } (validateDoc ms ctx text).final p).crash = none)
    (hsafe : ∀ g ∈ Ack.allGs (validateDoc ms ctx text).final.tree, C05.GsNamesSafe g) :
    C05.namesOf (Ack.ack997 { legacy := false } (validateDoc ms ctx text).final p).out =
      docNames (SegText.delimsOf hd) (rr.segs.map (fun q => q.2)) := by
  obtain ⟨control, st, fin, htr, hev, hfin, hrun⟩ := doc_verdict_trace ms ctx text b hv hd rr hr
  rw [C05.ack_names_every_group_and_set_in_order _ _ p hack hsafe, tree_names _ _ hrun, hev, List.filterMap_append,
    rd_names hfin, List.append_nil]
  exact trace_names htr .top (initState_loopsAt ms control) hnest hmatched

/-- the same about what `x12n_document` writes (`ackFor`), when the 997 visitor is the one selected -/
theorem doc_ack_names (ms : Maps) (ctx : Ctx) (text : List Char) (b : Bool) (p : Ack.Params)
    (hv : (validateDoc ms ctx text).outcome = .verdict b) (hd : Tokenizer.Header) (rr : SegText.ReadResult)
    (hr : SegText.readAll { rest := text, sizes := [] } = .ok hd rr)
    (hnest : Envelope.properlyNested (views (SegText.delimsOf hd) rr.segs) = true)
    (hmatched : EnvMatched (validateDoc ms ctx text).segs)
    (hk : (validateDoc ms ctx text).ackKind = .a997) (hack : (ackFor (validateDoc ms ctx text) p).crash = none)
    (hsafe : ∀ g ∈ Ack.allGs (validateDoc ms ctx text).final.tree, C05.GsNamesSafe g) :
    ∃ out, (ackFor (validateDoc ms ctx text) p).segs = out.map Ack.render997 ∧
      C05.namesOf out = docNames (SegText.delimsOf hd) (rr.segs.map (fun q => q.2)) := by
  unfold ackFor at hack ⊢
  rw [hk] at hack ⊢
  exact ⟨_, rfl, doc_ack_names_groups_and_sets ms ctx text b p hv hd rr hr hnest hmatched hack hsafe⟩

/-! ## 3b. acceptance of a set -/

/-- what the ST round hands over after its `add_st_loop` -/
def afterAddSt (l : List Event) : List Event := (l.dropWhile (fun e => !evAddSt e)).drop 1
/-- what the SE round hands over before its `close_st_loop` -/
def beforeCloseSt (l : List Event) : List Event := l.takeWhile (fun e => !evCloseSt e)

/-- the calls between `add_st_loop` of the ST round and `close_st_loop` of the SE round -/
def setBody (oST : SegOut) (OB : List SegOut) (oSE : SegOut) : List Event :=
  afterAddSt oST.events ++ evsOf OB ++ beforeCloseSt oSE.events

theorem dropWhile_prefix {α : Type} (p : α → Bool) : ∀ (w : List α) (x : α) (r : List α), (∀ e ∈ w, p e = true) →
    p x = false → (w ++ x :: r).dropWhile p = x :: r := by
  intro w
  induction w with
  | nil => intro x r _ hx; simp [hx]
  | cons a w ih =>
    intro x r hw hx
    simp only [List.cons_append, List.dropWhile_cons, hw a (by simp), if_true]
    exact ih x r (fun e he => hw e (by simp [he])) hx

theorem takeWhile_prefix {α : Type} (p : α → Bool) : ∀ (w : List α) (x : α) (r : List α), (∀ e ∈ w, p e = true) →
    p x = false → (w ++ x :: r).takeWhile p = w := by
  intro w
  induction w with
  | nil => intro x r _ hx; simp [hx]
  | cons a w ih =>
    intro x r hw hx
    simp only [List.cons_append, List.takeWhile_cons, hw a (by simp), if_true]
    rw [ih x r (fun e he => hw e (by simp [he])) hx]

theorem nested_of_levelAfter : ∀ (vs : List Envelope.SegView) (l l1 : Envelope.Level), levelAfter l vs = some l1 →
    Envelope.nestedFrom l vs = true := by
  intro vs
  induction vs with
  | nil => intro _ _ _; rfl
  | cons v r ih =>
    intro l l1 h
    simp only [levelAfter] at h
    simp only [Envelope.nestedFrom]
    cases hn : Envelope.nestStep l v with
    | none => rw [hn] at h; cases h
    | some l' => rw [hn] at h; exact ih l' l1 h

theorem anyCounts_false_iff : ∀ (body : List Event) (a : Bool),
    anyCounts a body = false ↔
      ∀ b1 e b2, body = b1 ++ e :: b2 → counts (a || b1.any evAddSeg) e = false := by
  intro body
  induction body with
  | nil => intro a; simp only [anyCounts, true_iff]; intro b1 e b2 h; cases b1 <;> cases h
  | cons x r ih =>
    intro a
    simp only [anyCounts, Bool.or_eq_false_iff]
    rw [ih, split_cons (fun b1 e => counts (a || b1.any evAddSeg) e = false)]
    simp only [List.any_nil, Bool.or_false, List.any_cons, Bool.or_assoc]

/-- **a set is marked accepted iff nothing was attached between its ST and its SE** -/
theorem doc_ack_accepts_iff (ms : Maps) (hf : MapsFresh ms) (ctx : Ctx) (text : List Char) (b : Bool)
    (hv : (validateDoc ms ctx text).outcome = .verdict b) (hd : Tokenizer.Header) (rr : SegText.ReadResult)
    (hr : SegText.readAll { rest := text, sizes := [] } = .ok hd rr)
    (hnest : Envelope.properlyNested (views (SegText.delimsOf hd) rr.segs) = true)
    (hmatched : EnvMatched (validateDoc ms ctx text).segs)
    (P1 PB P2 : List (List SegText.RErr × Seg)) (pST pSE : List SegText.RErr × Seg)
    (hsplit : rr.segs = P1 ++ pST :: (PB ++ pSE :: P2)) (hST : pST.2.id = Envelope.idST) (hSE : pSE.2.id = Envelope.idSE)
    (hB : ∀ q ∈ PB, Envelope.isEnvId q.2.id = false) :
    ∃ O1 oST OB oSE O2 st, (validateDoc ms ctx text).segs = O1 ++ oST :: (OB ++ oSE :: O2) ∧ O1.length = P1.length ∧
      OB.length = PB.length ∧
      (allS (validateDoc ms ctx text).final.tree)[((P1.map (fun q => q.2)).filter isST).length]? = some st ∧
      st.trnSetId = gv (SegText.delimsOf hd) pST.2 0 ∧ st.ctlNum = gv (SegText.delimsOf hd) pST.2 1 ∧ st.closed = true ∧
      st.ackCode = (if anyCounts false (setBody oST OB oSE) then ['R'] else ['A']) ∧
      (st.ackCode = ['A'] ↔ anyCounts false (setBody oST OB oSE) = false) := by
  obtain ⟨control, stEnd, fin, htr, hev, hfin, hrun⟩ := doc_verdict_trace ms ctx text b hv hd rr hr
  have hok : (ledger (validateDoc ms ctx text).events).ok = true := (doc_events_wellformed ms ctx text).fresh hf
  generalize (validateDoc ms ctx text).segs = outs at htr hev hmatched ⊢
  generalize (validateDoc ms ctx text).events = events at hev hrun hok
  generalize (validateDoc ms ctx text).final = final at hrun ⊢
  have hnest' : Envelope.nestedFrom .top (views (SegText.delimsOf hd) rr.segs) = true := hnest
  rw [hsplit] at htr hnest'
  -- split the trace
  obtain ⟨st1, O1, R1, rfl, hlen1, T1, T2⟩ := Trace.split P1 _ _ _ _ htr
  cases T2 with
  | cons _ st2 _ _ _ oST R2 hsST T3 =>
    obtain ⟨st3, OB, R3, rfl, hlenB, T4, T5⟩ := Trace.split PB _ _ _ _ T3
    cases T5 with
    | cons _ st4 _ _ _ oSE O2 hsSE T6 =>
      -- levels
      rw [views_append, views_cons] at hnest'
      obtain ⟨l1, hl1, hn1⟩ := nested_append _ _ _ hnest'
      obtain ⟨l2, hs1, hn2⟩ := nested_cons hn1
      have hl1' : l1 = .inGs := nest_st hs1 ((viewD_id _ _).trans hST)
      subst hl1'
      have hl2 : l2 = .inSt := by
        simp only [Envelope.nestStep, viewD_id, hST, if_true, Option.some.injEq] at hs1
        exact hs1.symm
      subst hl2
      rw [views_append, views_cons] at hn2
      obtain ⟨l3, hl3, hn3⟩ := nested_append _ _ _ hn2
      rw [levelAfter_body _ PB hB] at hl3
      injection hl3 with hl3
      subst hl3
      obtain ⟨l4, hs2, hn4⟩ := nested_cons hn3
      have hl4 : l4 = .inGs := by
        simp only [Envelope.nestStep, viewD_id, hSE, if_true, Option.some.injEq] at hs2
        exact hs2.symm
      subst hl4
      -- matching
      have hmO1 : EnvMatched O1 := fun x hx => hmatched x (by simp [hx])
      have hmST := hmatched oST (by simp)
      have hmSE := hmatched oSE (by simp)
      have hmO2 : EnvMatched O2 := fun x hx => hmatched x (by simp [hx])
      -- reader states
      have L1 := T1.loopsAt .top .inGs (initState_loopsAt ms control) hl1
      obtain ⟨L2, sid1, _, _, _, c1⟩ := round_nested ms ctx control _ pST.1 pST.2 st1 st2 oST .inGs .inSt hsST L1 hs1
      obtain ⟨w1, mid1, tl1, pops1, rs1, hev1, hw1, htl1, hp1, hmid1, _, _, hst1⟩ :=
        matched_of_env sid1 c1 hmST (by rw [hST]; decide)
      have L3 := T4.loopsAt .inSt .inSt L2 (levelAfter_body _ PB hB)
      obtain ⟨L4, sid2, _, _, _, c2⟩ := round_nested ms ctx control _ pSE.1 pSE.2 st3 st4 oSE .inSt .inGs hsSE L3 hs2
      obtain ⟨w2, mid2, tl2, pops2, rs2, hev2, hw2, htl2, hp2, hmid2, _, _, _⟩ :=
        matched_of_env sid2 c2 hmSE (by rw [hSE]; decide)
      rw [midX_st hmid1 hST] at hev1
      rw [midX_se hmid2 hSE] at hev2
      -- the events, split at the two structural calls
      have hpost := NoReclose.prepend (trace_noReclose T6 .inGs L4 hn4 hmO2 (by decide) fin hfin) (ele_QSt htl2)
      have hevents : events = (evsOf O1 ++ w1) ++ .addSt (stData (SegText.delimsOf hd) pST.2 rs1) ::
          ((pops1 ++ tl1) ++ evsOf OB ++ (w2 ++ pops2)) ++ .closeSt :: (tl2 ++ (evsOf O2 ++ fin)) := by
        rw [hev]
        simp only [evsOf_append, evsOf_cons, hev1, hev2, List.append_assoc, List.cons_append, List.nil_append]
      have hbody : ∀ e ∈ (pops1 ++ tl1) ++ evsOf OB ++ (w2 ++ pops2), evStruct e = false := by
        intro e he
        simp only [List.mem_append] at he
        rcases he with ((he | he) | he) | (he | he)
        · exact rd_all (P := fun e => evStruct e = false) hp1 (fun _ => rfl) (fun _ => rfl) (fun _ => rfl) (fun _ _ => rfl) e he
        · exact ele_all (P := fun e => evStruct e = false) htl1 (fun _ _ _ => rfl) (fun _ _ _ => rfl) e he
        · exact trace_set_body T4 hB e he
        · exact walk_all (P := fun e => evStruct e = false) hw2 (fun _ _ _ => rfl) (fun _ _ => rfl) e he
        · exact rd_all (P := fun e => evStruct e = false) hp2 (fun _ => rfl) (fun _ => rfl) (fun _ => rfl) (fun _ _ => rfl) e he
      rw [hevents] at hrun hok
      obtain ⟨st, g1, g2, g3, g4, g5⟩ := tree_set_block _ _ _ _ final hrun hbody hpost
      -- the position: one `add_st_loop` per ST segment before
      have hidx : ((evsOf O1 ++ w1).filter evAddSt).length = ((P1.map (fun q => q.2)).filter isST).length := by
        rw [List.filter_append,
          filter_none _ w1 (walk_all (P := fun e => evAddSt e = false) hw1 (fun _ _ _ => rfl) (fun _ _ => rfl)),
          List.append_nil]
        exact (trace_counts T1 .top (initState_loopsAt ms control) (nested_of_levelAfter _ _ _ hl1) hmO1).1
      rw [hidx] at g1
      -- the body, read off the rounds
      have hset : setBody oST OB oSE = (pops1 ++ tl1) ++ evsOf OB ++ (w2 ++ pops2) := by
        unfold setBody afterAddSt beforeCloseSt
        rw [hev1, hev2]
        have e1 : (w1 ++ .addSt (stData (SegText.delimsOf hd) pST.2 rs1) :: pops1 ++ tl1) =
            w1 ++ .addSt (stData (SegText.delimsOf hd) pST.2 rs1) :: (pops1 ++ tl1) := by simp
        have e2 : (w2 ++ (pops2 ++ [ErrTree.Event.closeSt]) ++ tl2) = (w2 ++ pops2) ++ .closeSt :: tl2 := by simp
        rw [e1, e2, dropWhile_prefix _ w1 _ _
          (by intro e he; simp [walk_all (P := fun e => evAddSt e = false) hw1 (fun _ _ _ => rfl) (fun _ _ => rfl) e he])
          (by simp [evAddSt]),
          takeWhile_prefix _ (w2 ++ pops2) _ _ (by
            intro e he
            rcases List.mem_append.1 he with he | he
            · simp [(walk_QSt hw2 e he).1]
            · simp [(rd_QSt hp2 e he).1]) (by simp [evCloseSt])]
        simp
      obtain ⟨k1, k2⟩ := g5 hok
      refine ⟨O1, oST, OB, oSE, O2, st, rfl, by rw [hlen1], by rw [hlenB], g1, g2, ?_, g4, ?_, ?_⟩
      · rw [g3]
        show loopId .st rs1 = _
        exact hst1 hST
      · rw [hset]; exact k1
      · rw [hset]; exact k2

/-- the criterion, spelled out: no `st_error`, and no segment / element error once an `add_seg` was made -/
theorem setBody_clean_iff (body : List Event) :
    anyCounts false body = false ↔
      ∀ b1 e b2, body = b1 ++ e :: b2 →
        evStError e = false ∧ ((evSegError e = true ∨ evEleError e = true) → b1.any evAddSeg = false) := by
  rw [anyCounts_false_iff]
  constructor
  · intro h b1 e b2 hs
    have := h b1 e b2 hs
    simp only [counts, Bool.false_or, Bool.or_eq_false_iff, Bool.and_eq_false_imp, Bool.or_eq_true] at this
    exact ⟨this.1, this.2⟩
  · intro h b1 e b2 hs
    obtain ⟨h1, h2⟩ := h b1 e b2 hs
    simp only [counts, Bool.false_or, Bool.or_eq_false_iff, Bool.and_eq_false_imp, Bool.or_eq_true]
    exact ⟨h1, h2⟩

/-- AK501 of the line the 997 visitor writes for a set whose code is `A` or `R` is that code -/
theorem ak501_eq (st : ErrTree.St) (codes : List Str) (h : st.ackCode = ['A'] ∨ st.ackCode = ['R']) :
    (Ack.ak5Seg997 st codes).getValue 0 = some st.ackCode := by
  unfold Ack.ak5Seg997
  rw [Ack.appendAll_getValue _ _ 0 (by simp [Ack.bare])]
  rcases h with h | h <;>
    simp [h, Ack.PSeg.getValue, Ack.bare, Ack.splitOn, Ack.consHead, Ack.fmtComp, Ack.trimR, Ack.trimCons, Ack.joinWith]

/-- … so, in the situation of `doc_ack_accepts_iff`: AK501 = `A` exactly when nothing was attached between ST and SE -/
theorem ak501_iff (st : ErrTree.St) (codes : List Str) (body : List Event)
    (h : st.ackCode = (if anyCounts false body then ['R'] else ['A'])) :
    (Ack.ak5Seg997 st codes).getValue 0 = some ['A'] ↔ anyCounts false body = false := by
  rw [ak501_eq st codes (by rw [h]; cases anyCounts false body <;> simp), h]
  cases anyCounts false body <;> simp

/-! ## 3c. totals of a group -/

theorem count_filter_map {α : Type} (f : α → Bool) (l : List α) : (l.filter f).length = l.countP f := by
  rw [List.countP_eq_length_filter]

/-- **AK9: declared, received, accepted — against the segments the reader yielded** -/
theorem doc_ack_totals (ms : Maps) (ctx : Ctx) (text : List Char) (b : Bool)
    (hv : (validateDoc ms ctx text).outcome = .verdict b) (hd : Tokenizer.Header) (rr : SegText.ReadResult)
    (hr : SegText.readAll { rest := text, sizes := [] } = .ok hd rr)
    (hnest : Envelope.properlyNested (views (SegText.delimsOf hd) rr.segs) = true)
    (hmatched : EnvMatched (validateDoc ms ctx text).segs)
    (P1 PG P2 : List (List SegText.RErr × Seg)) (pGS pGE : List SegText.RErr × Seg)
    (hsplit : rr.segs = P1 ++ pGS :: (PG ++ pGE :: P2)) (hGS : pGS.2.id = Envelope.idGS) (hGE : pGE.2.id = Envelope.idGE)
    (hG : ∀ q ∈ PG, q.2.id ≠ Envelope.idGS ∧ q.2.id ≠ Envelope.idGE) :
    ∃ g, (Ack.allGs (validateDoc ms ctx text).final.tree)[((P1.map (fun q => q.2)).filter isGS).length]? = some g ∧
      g.fic = gv (SegText.delimsOf hd) pGS.2 0 ∧ g.ctlNum = gv (SegText.delimsOf hd) pGS.2 5 ∧ g.closed = true ∧
      g.children.length = ((PG.map (fun q => q.2)).filter isST).length ∧
      (Ack.ak9Head g).drop 1 =
        [Ack.intStr (geCount (gv (SegText.delimsOf hd) pGE.2 0)).value,
         Ack.natStr ((PG.map (fun q => q.2)).filter isST).length, Ack.natStr (g.children.countP C05.accepted)] := by
  obtain ⟨control, stEnd, fin, htr, hev, hfin, hrun⟩ := doc_verdict_trace ms ctx text b hv hd rr hr
  generalize (validateDoc ms ctx text).segs = outs at htr hev hmatched
  generalize (validateDoc ms ctx text).events = events at hev hrun
  generalize (validateDoc ms ctx text).final = final at hrun ⊢
  have hnest' : Envelope.nestedFrom .top (views (SegText.delimsOf hd) rr.segs) = true := hnest
  rw [hsplit] at htr hnest'
  obtain ⟨st1, O1, R1, rfl, hlen1, T1, T2⟩ := Trace.split P1 _ _ _ _ htr
  cases T2 with
  | cons _ st2 _ _ _ oGS R2 hsGS T3 =>
    obtain ⟨st3, OG, R3, rfl, hlenG, T4, T5⟩ := Trace.split PG _ _ _ _ T3
    cases T5 with
    | cons _ st4 _ _ _ oGE O2 hsGE T6 =>
      rw [views_append, views_cons] at hnest'
      obtain ⟨l1, hl1, hn1⟩ := nested_append _ _ _ hnest'
      obtain ⟨l2, hs1, hn2⟩ := nested_cons hn1
      have hl1' : l1 = .inIsa := nest_gs hs1 ((viewD_id _ _).trans hGS)
      subst hl1'
      have hl2 : l2 = .inGs := by
        simp only [Envelope.nestStep, viewD_id, hGS, if_true, Option.some.injEq] at hs1
        exact hs1.symm
      subst hl2
      rw [views_append, views_cons] at hn2
      obtain ⟨l3, hl3, hn3⟩ := nested_append _ _ _ hn2
      obtain ⟨l4, hs2, hn4⟩ := nested_cons hn3
      -- GE is accepted at level inGs only
      have hl3' : l3 = .inGs ∧ l4 = .inIsa := by
        have hid := (viewD_id (SegText.delimsOf hd) pGE.2).trans hGE
        cases l3 <;> simp [Envelope.nestStep, hid, Envelope.idGS, Envelope.idISA, Envelope.idST, Envelope.idGE,
          Envelope.idSE, Envelope.isEnvId, Envelope.idIEA] at hs2 ⊢
        exact hs2.symm
      obtain ⟨rfl, rfl⟩ := hl3'
      have hmO1 : EnvMatched O1 := fun x hx => hmatched x (by simp [hx])
      have hmGS := hmatched oGS (by simp)
      have hmOG : EnvMatched OG := fun x hx => hmatched x (by simp [hx])
      have hmGE := hmatched oGE (by simp)
      have hmO2 : EnvMatched O2 := fun x hx => hmatched x (by simp [hx])
      have L1 := T1.loopsAt .top .inIsa (initState_loopsAt ms control) hl1
      obtain ⟨L2, sid1, z1, _, _, c1⟩ := round_nested ms ctx control _ pGS.1 pGS.2 st1 st2 oGS .inIsa .inGs hsGS L1 hs1
      obtain ⟨w1, mid1, tl1, pops1, rs1, hev1, hw1, htl1, hp1, hmid1, _, hgs1, _⟩ :=
        matched_of_env sid1 c1 hmGS (by rw [hGS]; decide)
      have L3 := T4.loopsAt .inGs .inGs L2 hl3
      obtain ⟨L4, sid2, _, _, z2, c2⟩ := round_nested ms ctx control _ pGE.1 pGE.2 st3 st4 oGE .inGs .inIsa hsGE L3 hs2
      obtain ⟨w2, mid2, tl2, pops2, rs2, hev2, hw2, htl2, hp2, hmid2, hcnt2, _, _⟩ :=
        matched_of_env sid2 c2 hmGE (by rw [hGE]; decide)
      rw [midX_gs hmid1 hGS] at hev1
      rw [midX_ge hmid2 hGE] at hev2
      -- the reader's set counter at the GE
      obtain ⟨cnt1, _, cnt3⟩ := trace_counts T4 .inGs L2 (nested_of_levelAfter _ _ _ hl3) hmOG
      have hrecv : rs2.stCount = ((PG.map (fun q => q.2)).filter isST).length := by
        rw [hcnt2, z2 (by rw [hGE]; decide) (by rw [hGE]; decide), cnt3 (fun q hq => (hG q hq).1), z1 hGS]
        omega
      have hpost := NoRegroup.prepend (trace_noRegroup T6 .inIsa L4 hn4 hmO2 (Or.inr rfl) fin hfin) (ele_QGs htl2)
      have hevents : events = (evsOf O1 ++ w1) ++ .addGs (gsData (SegText.delimsOf hd) pGS.2 rs1) ::
          ((pops1 ++ tl1) ++ evsOf OG ++ (w2 ++ pops2)) ++
            .closeGs (geCount (gv (SegText.delimsOf hd) pGE.2 0)) rs2.stCount :: (tl2 ++ (evsOf O2 ++ fin)) := by
        rw [hev]
        simp only [evsOf_append, evsOf_cons, hev1, hev2, List.append_assoc, List.cons_append, List.nil_append]
      have hbody : ∀ e ∈ (pops1 ++ tl1) ++ evsOf OG ++ (w2 ++ pops2), evGsLevel e = false := by
        intro e he
        simp only [List.mem_append] at he
        rcases he with ((he | he) | he) | (he | he)
        · exact rd_all (P := fun e => evGsLevel e = false) hp1 (fun _ => rfl) (fun _ => rfl) (fun _ => rfl) (fun _ _ => rfl) e he
        · exact ele_all (P := fun e => evGsLevel e = false) htl1 (fun _ _ _ => rfl) (fun _ _ _ => rfl) e he
        · exact trace_group_body T4 hG e he
        · exact walk_all (P := fun e => evGsLevel e = false) hw2 (fun _ _ _ => rfl) (fun _ _ => rfl) e he
        · exact rd_all (P := fun e => evGsLevel e = false) hp2 (fun _ => rfl) (fun _ => rfl) (fun _ => rfl) (fun _ _ => rfl) e he
      rw [hevents] at hrun
      obtain ⟨g, g1, g2, g3, g4, g5, g6, g7⟩ := tree_group_block _ _ _ _ _ _ final hrun hbody hpost
      have hidx : ((evsOf O1 ++ w1).filter evAddGs).length = ((P1.map (fun q => q.2)).filter isGS).length := by
        rw [List.filter_append,
          filter_none _ w1 (walk_all (P := fun e => evAddGs e = false) hw1 (fun _ _ _ => rfl) (fun _ _ => rfl)),
          List.append_nil]
        exact (trace_counts T1 .top (initState_loopsAt ms control) (nested_of_levelAfter _ _ _ hl1) hmO1).2.1
      rw [hidx, allG_eq] at g1
      -- the number of set nodes: one `add_st_loop` per ST segment of the group
      have hsets : g.children.length = ((PG.map (fun q => q.2)).filter isST).length := by
        rw [g7]
        simp only [List.filter_append]
        rw [filter_none _ pops1 (rd_all (P := fun e => evAddSt e = false) hp1 (fun _ => rfl) (fun _ => rfl) (fun _ => rfl) (fun _ _ => rfl)),
          filter_none _ tl1 (ele_all (P := fun e => evAddSt e = false) htl1 (fun _ _ _ => rfl) (fun _ _ _ => rfl)),
          filter_none _ w2 (walk_all (P := fun e => evAddSt e = false) hw2 (fun _ _ _ => rfl) (fun _ _ => rfl)),
          filter_none _ pops2 (rd_all (P := fun e => evAddSt e = false) hp2 (fun _ => rfl) (fun _ => rfl) (fun _ => rfl) (fun _ _ => rfl))]
        simp only [List.nil_append, List.append_nil]
        exact cnt1
      have hr' : g.countRecv = g.children.length := by rw [g6, hrecv, hsets]
      refine ⟨g, g1, g2, ?_, g4, hsets, ?_⟩
      · rw [g3]
        show loopId .gs rs1 = _
        exact hgs1 hGS
      · rw [C05.ak9_totals_eq_recount g hr', g5, hsets]

end Pyx12Verif.Doc
