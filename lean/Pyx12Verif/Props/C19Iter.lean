/-
C19, the part of the statement that depends on the cursor `err_iter`:
"the message of every segment-level and element-level error reported for a segment is shown next to that segment".

Model: `Model/ErrIter.lean` (cursor, drain loop, `get_error_list` filters, `gen_seg`/`footer` order) over the error
tree of `Model/ErrTree.lean`.  A *history* is the sequence of `err_handler` calls of a run of `x12n_document`
interleaved with one `.seg sid` per source segment (end of the loop body: drain the cursor, `gen_seg`).
All theorems hold for every history (any order of calls, any tree), unless a hypothesis says otherwise.

  (a) drain_visits_new_nodes_once      no node is handed to `gen_seg` twice by the same kind of move (down / up) in a whole
                                       run; segment nodes at most once, envelope nodes at most twice, ROOT never
      drain_fuel_suffices, drain_ends_out_of_bounds, run_cursor_valid
                                       the fuel of the drain loop is never used up; the loop ends with IterOutOfBounds
  (b) shown_iff_reachable              the report lists tuple `r` next to segment `k`  iff  `ShownAt h k r`
                                       (handed over at `k`, stored at that moment, selected by the filters as coded)
      one lemma per known-finding class (`¬ Reachable`), each with a kernel-checked witness history
  (c) body_segment_errors_shown        the ordinary case: a segment inside an open set whose error node is created
                                       while the segment is the current one - all its errors are shown next to it
  all_errors_shown_full                the property at full strength; FALSE of the code (`all_errors_shown_full_false`)
-/
import Pyx12Verif.Proofs.ErrIterFuel
import Pyx12Verif.Proofs.ErrIterShown
import Pyx12Verif.Proofs.ErrIterRun
import Pyx12Verif.Proofs.ErrIterBody

namespace Pyx12Verif.ErrIter
open Pyx12Verif.ErrTree

/-! ## (a) every node is handed over at most once per direction -/

/-- Over a whole run - the tree growing by arbitrary error-handler calls between the drains - no node is handed to
    `gen_seg` twice by the same kind of move: at most once when the cursor arrives on it going down
    (`get_first_child` / `get_next_sibling`) and at most once when it comes back up (`get_parent`). -/
theorem drain_visits_new_nodes_once (h : List Item) : (allVisits (runH RState.init h)).Nodup := by
  have := (runH_visits_sorted h RState.init Inv.init).1
  rw [List.pairwise_map] at this
  rw [List.nodup_iff_pairwise_ne]
  exact this.imp (fun hlt e => by subst e; exact Pos.lt_irrefl _ hlt)

theorem count_addr (l : List Visit) (a : Addr) :
    (l.map (·.addr)).count a = l.count ⟨a, false⟩ + l.count ⟨a, true⟩ := by
  induction l with
  | nil => simp
  | cons v r ih =>
    cases v with
    | mk b u =>
      simp only [List.map_cons, List.count_cons, ih]
      by_cases hb : b = a
      · subst hb; cases u <;> simp <;> omega
      · have h1 : ¬ (b == a) = true := by simpa using hb
        simp [hb]

theorem allVisits_addrs (fs : List Frame) : fs.flatMap Frame.addrs = (allVisits fs).map (·.addr) := by
  induction fs with
  | nil => simp [allVisits]
  | cons f r ih => simp [allVisits, Frame.addrs, List.flatMap_cons] at ih ⊢; rw [ih]

/-- an envelope node (ISA / GS / ST) is in `err_node_list` of at most two segments of a run -/
theorem node_handed_over_at_most_twice (h : List Item) (a : Addr) :
    ((runH RState.init h).flatMap Frame.addrs).count a ≤ 2 := by
  rw [allVisits_addrs, count_addr]
  have hn := List.nodup_iff_count.mp (drain_visits_new_nodes_once h)
  have h1 := hn ⟨a, false⟩
  have h2 := hn ⟨a, true⟩
  omega

/-- a segment node is in `err_node_list` of at most one segment of a run -/
theorem segment_node_handed_over_once (h : List Item) (a : Addr) (hs : a.isSeg = true) :
    ((runH RState.init h).flatMap Frame.addrs).count a ≤ 1 := by
  rw [allVisits_addrs, count_addr]
  have hn := List.nodup_iff_count.mp (drain_visits_new_nodes_once h)
  have h1 := hn ⟨a, false⟩
  have h2 : (allVisits (runH RState.init h)).count ⟨a, true⟩ = 0 := by
    rw [List.count_eq_zero]
    intro hm
    have := (runH_facts h RState.init _ hm).2 rfl
    simp [hs] at this
  omega

/-- ROOT (the `err_handler` itself, which has no `elements`) is never handed to `gen_seg` -/
theorem root_never_handed_over (h : List Item) : Addr.root ∉ (runH RState.init h).flatMap Frame.addrs := by
  rw [allVisits_addrs]
  intro hm
  obtain ⟨v, hv, he⟩ := List.mem_map.mp hm
  exact (runH_facts h RState.init v hv).1 he

/-- the fuel of the drain loop (`2 * #nodes + 1`) is not observable: more fuel gives the same result, for every
    cursor that satisfies the invariant and stands on an existing node (`run_cursor_valid`: always, in a run) -/
theorem drain_fuel_suffices (t : Tree) (c : Cursor) (hi : Inv c) (hv : Valid t c.cur) (n : Nat) :
    drainF t (fuel t + n) c = drainV t c := drainF_fuel_suffices t c hi hv n

/-- at every moment of a run the cursor satisfies the invariant and stands on an existing node -/
theorem run_cursor_valid (h : List Item) (rs : RState) (he : runEnd RState.init h = some rs) :
    Inv rs.cur ∧ Valid rs.st.tree rs.cur.cur := by
  refine ⟨(runEnd_inv h RState.init rs Inv.init he).1, ?_⟩
  exact runEnd_valid h RState.init rs (by simp [RState.init, Cursor.init, Valid]) he

/-! ## (b) which stored errors are shown -/

/-- tuple `r` is written next to source segment number `k` (from 0): its node is handed to `gen_seg` at that
    segment, the tuple is in the tree at that moment, and it passes the selection for the segment's identifier -/
def ShownAt (h : List Item) (k : Nat) (r : ErrRef) : Prop :=
  ∃ f, (runH RState.init h)[k]? = some f ∧ r.addr ∈ f.addrs ∧ Selected f.tree f.sid r

/-- tuple `r` is shown somewhere in the report of history `h` -/
def Reachable (h : List Item) (r : ErrRef) : Prop := ∃ k, ShownAt h k r

/-- the report built by the model (`reportPairs`: drain, `shown`, numbered frames) lists `r` at `k` iff `ShownAt` -/
theorem shown_iff_reachable (h : List Item) (k : Nat) (r : ErrRef) :
    (∃ c, (k, ({ ref := r, code := c } : Err)) ∈ reportPairs h) ↔ ShownAt h k r := by
  unfold reportPairs ShownAt
  constructor
  · rintro ⟨c, hc⟩
    obtain ⟨j, f, h1, h2, h3⟩ := (mem_numberFrom _ _ _ _).mp hc
    obtain ⟨h4, h5, _⟩ := (mem_frame_shown _ _).mp h3
    exact ⟨f, by rw [h2, Nat.zero_add]; exact h1, h4, h5⟩
  · rintro ⟨f, h1, h2, h3⟩
    have hst := Selected.stored _ _ _ h3
    unfold Stored at hst
    obtain ⟨c, hc⟩ := Option.isSome_iff_exists.mp hst
    exact ⟨c, (mem_numberFrom _ _ _ _).mpr ⟨k, f, h1, by omega, (mem_frame_shown _ _).mpr ⟨h2, h3, hc⟩⟩⟩

/-- the message lines `gen_seg` writes for a frame (the order the driver reports, compared with the real HTML by
    harness/c19.py) carry exactly the messages of `Frame.shown` -/
theorem frame_lines_shown (f : Frame) (e : Err) : Line.err e ∈ f.lines ↔ e ∈ f.shown := by
  unfold Frame.lines Frame.shown
  rw [mem_genSeg, List.mem_flatMap]

theorem reachable_iff (h : List Item) (r : ErrRef) : Reachable h r ↔ ∃ p ∈ reportPairs h, p.2.ref = r := by
  unfold Reachable
  constructor
  · rintro ⟨k, hk⟩
    obtain ⟨c, hc⟩ := (shown_iff_reachable h k r).mpr hk
    exact ⟨_, hc, rfl⟩
  · rintro ⟨⟨k, e⟩, hp, he⟩
    cases e with
    | mk r' c =>
      simp only at he; subst he
      exact ⟨k, (shown_iff_reachable h k r').mp ⟨c, hp⟩⟩

instance (h : List Item) (r : ErrRef) : Decidable (Reachable h r) := decidable_of_iff _ (reachable_iff h r).symm

instance (h : List Item) (k : Nat) (r : ErrRef) : Decidable (ShownAt h k r) :=
  decidable_of_iff (∃ p ∈ reportPairs h, p.1 = k ∧ p.2.ref = r) (by
    rw [← shown_iff_reachable]
    constructor
    · rintro ⟨⟨k', e⟩, hp, hk, he⟩
      cases e with
      | mk r' c => simp only at hk he; subst hk; subst he; exact ⟨c, hp⟩
    · rintro ⟨c, hc⟩; exact ⟨_, hc, rfl, rfl⟩)

/-- what is shown is stored (at the moment it is shown) -/
theorem reachable_stored (h : List Item) (r : ErrRef) (hr : Reachable h r) :
    ∃ f ∈ runH RState.init h, r.addr ∈ f.addrs ∧ Stored f.tree r := by
  obtain ⟨k, f, h1, h2, h3⟩ := hr
  exact ⟨f, List.mem_of_getElem? h1, h2, Selected.stored _ _ _ h3⟩

/-! ### sample histories (shared by the witnesses below) -/

def isaD : IsaData :=
  { e05 := none, e06 := none, e07 := none, e08 := none, e09 := none, e10 := none, e11 := none, e12 := none,
    e13 := none, e14 := none, e15 := none }
def gsD : GsData := { e01 := none, e02 := none, e03 := none, e06 := none, e07 := none, e08 := none, ctl := none }
def stD : StData := { e01 := none, e03 := none, ctl := none }
def sBHT : Str := ['B', 'H', 'T']
def sNM1 : Str := ['N', 'M', '1']
def sZZZ : Str := ['Z', 'Z', 'Z']

/-- ISA, GS, ST - each followed by its drain -/
def openSet : List Item :=
  [.ev (.addIsa isaD), .seg sISA, .ev (.addGs gsD), .seg sGS, .ev (.addSt stD), .seg sST]

/-- SE, GE, IEA - each followed by its drain -/
def closeAll : List Item :=
  [.ev .closeSt, .seg sSE, .ev (.closeGs (.num 1) 1), .seg sGE, .ev .closeIsa, .seg sIEA]

/-- "every node is handed to `gen_seg` at most once" without the direction: FALSE of the code - a set node with an
    erroneous body segment is handed over at ST (way down) and again at SE (way up); that second hand-over is how the
    errors raised at SE get into the report at all -/
def every_node_once_full : Prop :=
  ∀ (h : List Item) (a : Addr), ((runH RState.init h).flatMap Frame.addrs).count a ≤ 1

theorem every_node_once_full_false : ¬ every_node_once_full := by
  intro h
  have := h (openSet ++ [.ev (.addSeg sBHT 2 none), .ev (.segError ['8'] none), .seg sBHT, .ev .closeSt, .seg sSE])
    (.st 0 0 0)
  revert this
  decide

/-! ### class: interchange-level errors (`'ISA' in err[0]` never holds) -/

/-- a code that contains neither "ISA" nor "IEA" (every code pyx12 uses: 001, 021, 024, 025 …) stored on an
    interchange node is never shown, in any history -/
theorem interchange_level_not_reachable (h : List Item) (i n : Nat)
    (hc : ∀ f ∈ runH RState.init h, ∀ c, (nodeCodes f.tree (.isa i))[n]? = some c → ¬ Occurs sISA c ∧ ¬ Occurs sIEA c) :
    ¬ Reachable h (.node (.isa i) n) := by
  rintro ⟨k, f, h1, _, c, h3, h4⟩
  have := hc f (List.mem_of_getElem? h1) c h3
  simp only [NodeSel] at h4
  rcases h4 with ⟨_, h4⟩ | ⟨_, h4⟩
  · exact this.1 h4
  · exact this.2 h4

/-- every code pyx12 passes to `isa_error` is numeric: a code without the letter `I` contains neither "ISA" nor "IEA" -/
theorem no_I_not_isa (c : Str) (h : 'I' ∉ c) : ¬ Occurs sISA c ∧ ¬ Occurs sIEA c := by
  constructor <;> rintro ⟨u, v, e⟩ <;> apply h <;> rw [e] <;> simp [sISA, sIEA]

/-- witness: ISA with error 025 raised while the ISA segment is the current one -/
def wIsaLevel : List Item := [.ev (.addIsa isaD), .ev (.isaError ['0', '2', '5']), .seg sISA]

theorem interchange_level_witness :
    Stored ((runH RState.init wIsaLevel)[0]?.map (·.tree)).get! (.node (.isa 0) 0) ∧
      (.isa 0) ∈ ((runH RState.init wIsaLevel)[0]?.map (·.addrs)).get! ∧
      ¬ Reachable wIsaLevel (.node (.isa 0) 0) := by decide

/-! ### class: every error of a second interchange (ROOT stays on the visit stack) -/

/-- a cursor that is back on ROOT (ROOT on the visit stack) raises `IterOutOfBounds` on every tree, unchanged -/
theorem home_absorbing (t : Tree) (c : Cursor) (hc : c.cur = .root) (hs : Addr.root ∈ c.stack) : step t c = .oob c := by
  cases c with
  | mk cur stack =>
    simp only at hc hs; subst hc
    simp [step, descendTarget, hs, nextSibling, ascend, closedAt, parent]

theorem home_frames_empty (h : List Item) (rs : RState) (hc : rs.cur.cur = .root) (hs : Addr.root ∈ rs.cur.stack) :
    ∀ f ∈ runH rs h, f.visits = [] := by
  induction h generalizing rs with
  | nil => simp [runH]
  | cons it r ih =>
    have hd : ∀ t, drainV t rs.cur = ([], rs.cur) := by
      intro t; simp [drainV, fuel, drainF, home_absorbing t rs.cur hc hs]
    cases it with
    | ev e =>
      simp only [runH]
      split
      · exact ih _ hc hs
      · simp
    | seg sid =>
      simp only [runH, hd, List.mem_cons]
      rintro f (e | e)
      · subst e; rfl
      · exact ih { st := rs.st, cur := rs.cur } hc hs f e

/-- once the cursor is back on ROOT - after the first interchange has been closed and drained - nothing that
    happens later adds anything to the report -/
theorem nothing_shown_after_cursor_is_home (h1 h2 : List Item) (rs1 : RState)
    (he : runEnd RState.init h1 = some rs1) (hc : rs1.cur.cur = .root) (hs : Addr.root ∈ rs1.cur.stack) (r : ErrRef)
    (hr : Reachable (h1 ++ h2) r) : Reachable h1 r := by
  obtain ⟨k, f, h1', h2', h3'⟩ := hr
  rw [runH_append, he] at h1'
  simp only [tailFrames] at h1'
  by_cases hk : k < (runH RState.init h1).length
  · rw [List.getElem?_append_left hk] at h1'
    exact ⟨k, f, h1', h2', h3'⟩
  · rw [List.getElem?_append_right (by omega)] at h1'
    have := home_frames_empty h2 rs1 hc hs f (List.mem_of_getElem? h1')
    simp [Frame.addrs, this] at h2'

/-- no error that is stored only after the cursor is back on ROOT is ever shown: every error of a second or later
    interchange of the same file -/
theorem second_interchange_not_reachable (h1 h2 : List Item) (rs1 : RState)
    (he : runEnd RState.init h1 = some rs1) (hc : rs1.cur.cur = .root) (hs : Addr.root ∈ rs1.cur.stack) (r : ErrRef)
    (hns : ∀ f ∈ runH RState.init h1, ¬ Stored f.tree r) : ¬ Reachable (h1 ++ h2) r := by
  intro hr
  obtain ⟨f, hf, _, hst⟩ := reachable_stored _ _ (nothing_shown_after_cursor_is_home h1 h2 rs1 he hc hs r hr)
  exact hns f hf hst

def wFirst : List Item := openSet ++ closeAll
def wSecond : List Item :=
  openSet ++ [.ev (.addSeg sNM1 2 none), .ev (.segError ['8'] none), .seg sNM1]

/-- witness: a complete first interchange, then a second one with a segment error in its body.  The hypotheses of
    `second_interchange_not_reachable` hold after the first interchange, the error is stored in the final tree, its
    node is never handed over -/
theorem second_interchange_witness :
    (runEnd RState.init wFirst).map (fun rs => (rs.cur.cur, decide (Addr.root ∈ rs.cur.stack))) = some (.root, true) ∧
      ((runEnd RState.init (wFirst ++ wSecond)).map (fun rs => decide (Stored rs.st.tree (.node (.seg 1 0 0 0) 0)))) =
        some true ∧
      ¬ Reachable (wFirst ++ wSecond) (.node (.seg 1 0 0 0) 0) := by decide

/-! ### class: errors appended to a node the cursor has passed -/

/-- a node whose after-the-subtree position the cursor has reached is never handed over again: a tuple stored on it
    (or, `passed_subtree_not_reachable`, below it) only later is never shown -/
theorem passed_node_not_reachable (h1 h2 : List Item) (rs1 : RState) (he : runEnd RState.init h1 = some rs1)
    (r : ErrRef) (hpass : Pos.le ⟨r.addr, true⟩ rs1.cur.pos)
    (hns : ∀ f ∈ runH RState.init h1, ¬ Stored f.tree r) : ¬ Reachable (h1 ++ h2) r := by
  rintro ⟨k, f, h1', h2', h3'⟩
  rw [runH_append, he] at h1'
  simp only [tailFrames] at h1'
  by_cases hk : k < (runH RState.init h1).length
  · rw [List.getElem?_append_left hk] at h1'
    exact hns f (List.mem_of_getElem? h1') (Selected.stored _ _ _ h3')
  · rw [List.getElem?_append_right (by omega)] at h1'
    obtain ⟨v, hv, hva⟩ := List.mem_map.mp h2'
    have hi := (runEnd_inv h1 RState.init rs1 Inv.init he).1
    have hlt := (runH_visits_sorted h2 rs1 hi).2 v
      ((mem_allVisits _ _).mpr ⟨f, List.mem_of_getElem? h1', hv⟩)
    have h3 : Pos.lt ⟨r.addr, true⟩ v.pos := Pos.lt_of_le_of_lt hpass hlt
    have h4 : Pos.le v.pos ⟨r.addr, true⟩ := by
      cases v with
      | mk a u =>
        simp only at hva; subst hva
        cases u
        · exact Or.inr (lt_false_true _)
        · exact Or.inl rfl
    exact Pos.lt_irrefl _ (Pos.lt_of_lt_of_le h3 h4)

/-- a segment node is handed over at one segment only: a tuple that is not yet stored at that moment (a reader
    error surfacing one segment late, appended to the node of the previous segment) is never shown -/
theorem passed_segment_node_not_reachable (h : List Item) (k0 : Nat) (f0 : Frame) (r : ErrRef)
    (hseg : r.addr.isSeg = true) (hf : (runH RState.init h)[k0]? = some f0) (hv : r.addr ∈ f0.addrs)
    (hns : ¬ Stored f0.tree r) : ¬ Reachable h r := by
  rintro ⟨k, f, h1, h2, h3⟩
  obtain ⟨v0, hv0, ha0⟩ := List.mem_map.mp hv
  obtain ⟨v, hv', ha⟩ := List.mem_map.mp h2
  have hfacts := runH_facts h RState.init
  have e0 : v0 = ⟨r.addr, false⟩ := by
    have := (hfacts v0 ((mem_allVisits _ _).mpr ⟨f0, List.mem_of_getElem? hf, hv0⟩)).2
    cases v0 with
    | mk a u =>
      simp only at ha0; subst ha0
      cases u
      · rfl
      · simp [hseg] at this
  have e1 : v = ⟨r.addr, false⟩ := by
    have := (hfacts v ((mem_allVisits _ _).mpr ⟨f, List.mem_of_getElem? h1, hv'⟩)).2
    cases v with
    | mk a u =>
      simp only at ha; subst ha
      cases u
      · rfl
      · simp [hseg] at this
  have hk := frames_disjoint _ (drain_visits_new_nodes_once h) k0 k f0 f hf h1 ⟨r.addr, false⟩
    (by rw [← e0]; exact hv0) (by rw [← e1]; exact hv')
  subst hk
  rw [hf] at h1
  simp only [Option.some.injEq] at h1
  subst h1
  exact hns (Selected.stored _ _ _ h3)

/-- witness: segment A with an error (its node is handed over at A), then a segment-level error arriving while the
    next segment is the current one but no new node has been prepared: it is appended to A's node -/
def wLate : List Item :=
  openSet ++ [.ev (.addSeg sBHT 2 none), .ev (.segError ['8'] none), .seg sBHT,
              .ev (.segError ['1'] none), .seg sNM1]

theorem stored_under_another_segment_witness :
    (runEnd RState.init wLate).map (fun rs => decide (Stored rs.st.tree (.node (.seg 0 0 0 0) 1))) = some true ∧
      (Addr.seg 0 0 0 0) ∈ ((runH RState.init wLate)[3]?.map (·.addrs)).get! ∧
      ¬ Stored ((runH RState.init wLate)[3]?.map (·.tree)).get! (.node (.seg 0 0 0 0) 1) ∧
      Reachable wLate (.node (.seg 0 0 0 0) 0) ∧ ¬ Reachable wLate (.node (.seg 0 0 0 0) 1) := by decide

/-! ### class: error node appended to a closed set -/

/-- everything below a node whose after-the-subtree position the cursor has reached -/
theorem passed_subtree_not_reachable (h1 h2 : List Item) (rs1 : RState) (he : runEnd RState.init h1 = some rs1)
    (r : ErrRef) (p : Addr) (hp : p ∈ ancestors r.addr) (hpass : Pos.le ⟨p, true⟩ rs1.cur.pos)
    (hns : ∀ f ∈ runH RState.init h1, ¬ Stored f.tree r) : ¬ Reachable (h1 ++ h2) r := by
  apply passed_node_not_reachable h1 h2 rs1 he r _ hns
  refine Pos.le_trans (Or.inr ?_) hpass
  -- (r.addr, true) < (p, true) for a proper ancestor p
  have : ∀ (a q : Addr), q ∈ ancestors a → Pos.lt ⟨a, true⟩ ⟨q, true⟩ := by
    intro a q hq
    cases a <;> cases q <;> simp [ancestors] at hq <;> simp [Pos.lt, plt, Addr.path, hq]
  exact this _ _ hp

/-- the cursor is back on a transaction set (it has come up from the set's last error node, at SE): an error node
    appended to the set afterwards (a segment after SE) is never visited, none of its errors is shown -/
theorem closed_set_child_not_reachable (h1 h2 : List Item) (rs1 : RState) (he : runEnd RState.init h1 = some rs1)
    (i g s k : Nat) (hc : rs1.cur.cur = .st i g s) (hs : Addr.st i g s ∈ rs1.cur.stack) (r : ErrRef)
    (hr : r.addr = .seg i g s k) (hns : ∀ f ∈ runH RState.init h1, ¬ Stored f.tree r) :
    ¬ Reachable (h1 ++ h2) r := by
  apply passed_subtree_not_reachable h1 h2 rs1 he r (.st i g s) (by rw [hr]; simp [ancestors]) _ hns
  refine Or.inl ?_
  simp [Cursor.pos, hc, hs]

def wBodyErr : List Item := openSet ++ [.ev (.addSeg sBHT 2 none), .ev (.segError ['8'] none), .seg sBHT]

/-- witness: a set with one erroneous body segment is closed (the cursor comes up to the set at SE), then a segment
    ZZZ follows before GE: its error node becomes the set's second child and is never handed over -/
def wAfterSE : List Item :=
  wBodyErr ++ [.ev .closeSt, .seg sSE] ++ [.ev (.addSeg sZZZ 4 none), .ev (.segError ['2'] none), .seg sZZZ]

theorem segment_outside_set_witness :
    (runEnd RState.init (wBodyErr ++ [.ev .closeSt, .seg sSE])).map
        (fun rs => (rs.cur.cur, decide (Addr.st 0 0 0 ∈ rs.cur.stack))) = some (.st 0 0 0, true) ∧
      (runEnd RState.init wAfterSE).map (fun rs => decide (Stored rs.st.tree (.node (.seg 0 0 0 1) 0))) = some true ∧
      ¬ Reachable wAfterSE (.node (.seg 0 0 0 1) 0) := by decide

/-! ### class: trailer errors of a loop that closed without child error nodes -/

/-- the cursor stands on an envelope node on its way down (the node is not on the visit stack) and the node never gets
    a child error node: it is never handed over again - a tuple stored on it only later (an error raised at its
    trailer SE / GE / IEA) is never shown -/
theorem trailer_without_error_nodes_not_reachable (h1 h2 : List Item) (rs1 : RState)
    (he : runEnd RState.init h1 = some rs1) (a : Addr) (hc : rs1.cur.cur = a) (hd : a ∉ rs1.cur.stack)
    (hkids : ∀ f ∈ runH rs1 h2, kids f.tree a = 0) (r : ErrRef) (hr : r.addr = a)
    (hns : ∀ f ∈ runH RState.init h1, ¬ Stored f.tree r) : ¬ Reachable (h1 ++ h2) r := by
  rintro ⟨k, f, h1', h2', h3'⟩
  rw [runH_append, he] at h1'
  simp only [tailFrames] at h1'
  by_cases hk : k < (runH RState.init h1).length
  · rw [List.getElem?_append_left hk] at h1'
    exact hns f (List.mem_of_getElem? h1') (Selected.stored _ _ _ h3')
  · rw [List.getElem?_append_right (by omega)] at h1'
    have hfm := List.mem_of_getElem? h1'
    obtain ⟨v, hv, hva⟩ := List.mem_map.mp h2'
    obtain ⟨hi, hval⟩ := run_cursor_valid h1 rs1 he
    have hlt := (runH_visits_sorted h2 rs1 hi).2 v ((mem_allVisits _ _).mpr ⟨f, hfm, hv⟩)
    have hpos : rs1.cur.pos = ⟨a, false⟩ := by simp [Cursor.pos, hc, hd]
    -- the visit is the way-up visit of `a`, which needs a child
    have hup : v = ⟨a, true⟩ := by
      cases v with
      | mk b u =>
        simp only at hva; rw [hr] at hva; subst hva
        cases u
        · rw [hpos] at hlt; exact absurd hlt (Pos.lt_irrefl _)
        · rfl
    subst hup
    have := runH_up_needs_child h2 rs1 hval f hfm _ hv rfl
    have h0 := hkids f hfm
    simp only at this
    omega

/-- witness: ST … SE with a count mismatch reported at SE (`st_error('4')`), no erroneous body segment -/
def wTrailer : List Item :=
  openSet ++ [.ev (.stError ['4']), .ev .closeSt, .seg sSE, .ev (.closeGs (.num 1) 1), .seg sGE,
              .ev .closeIsa, .seg sIEA]

theorem trailer_witness :
    (runEnd RState.init openSet).map (fun rs => (rs.cur.cur, decide (Addr.st 0 0 0 ∈ rs.cur.stack))) =
        some (.st 0 0 0, false) ∧
      (∀ f ∈ runH RState.init wTrailer, kids f.tree (.st 0 0 0) = 0) ∧
      (runEnd RState.init wTrailer).map (fun rs => decide (Stored rs.st.tree (.node (.st 0 0 0) 0))) = some true ∧
      ¬ Reachable wTrailer (.node (.st 0 0 0) 0) := by decide

/-- the same error *is* shown when the set has an erroneous body segment (the cursor comes back up through the set
    node at SE) - the finding really is about loops without child error nodes -/
theorem trailer_with_error_node_shown :
    Reachable (wBodyErr ++ [.ev (.stError ['4']), .ev .closeSt, .seg sSE]) (.node (.st 0 0 0) 0) := by decide

/-! ## (c) the ordinary case -/

/-- A segment inside an open transaction set, processed while the cursor has caught up with the set (it stands on
    the set node with no error node below it yet, or on the set's last error node): `add_seg` for the segment, then
    any number of element / segment errors of it, then the end of the loop body.  Every tuple stored for the segment
    at that moment - segment-level and element-level - is written next to the segment (`k` = its number). -/
theorem body_segment_errors_shown (h1 : List Item) (rs1 : RState) (i g s : Nat) (x : St)
    (segId : Str) (cnt : Nat) (ls : Option Str) (own : List Event) (sid : Str) (h2 : List Item) (s' : State)
    (he : runEnd RState.init h1 = some rs1)
    (hcur : rs1.st.curSt = some (i, g, s)) (hst : getSt rs1.st.tree i g s = some x) (hopen : x.closed = false)
    (hcaught : CaughtUp rs1.cur i g s x.children.length)
    (hown : ∀ e ∈ own, OwnEvent e) (hrun : ErrTree.run rs1.st (.addSeg segId cnt ls :: own) = .ok s')
    (hsid : sid ≠ sGE) (r : ErrRef) (hr : r.addr = .seg i g s x.children.length) (hstored : Stored s'.tree r) :
    ShownAt (h1 ++ (Item.ev (.addSeg segId cnt ls) :: own.map Item.ev) ++ Item.seg sid :: h2) (nSegs h1) r := by
  have hframe := body_frame rs1 i g s x segId cnt ls own s' hcur hst hopen hcaught hown hrun
  have hrunItems : runEnd rs1 (Item.ev (.addSeg segId cnt ls) :: own.map Item.ev) = some { st := s', cur := rs1.cur } := by
    have := runEnd_events rs1 (.addSeg segId cnt ls :: own) s' hrun
    simpa using this
  have hnil : runH rs1 (Item.ev (.addSeg segId cnt ls) :: own.map Item.ev) = [] := by
    simpa using runH_events_nil rs1 (.addSeg segId cnt ls :: own)
  unfold ShownAt
  rw [List.append_assoc, runH_append, he]
  simp only [tailFrames]
  rw [List.getElem?_append_right (by rw [runH_length _ _ _ he]; omega), runH_length _ _ _ he, Nat.sub_self,
    runH_append, hrunItems, hnil]
  simp only [tailFrames, List.nil_append, runH, List.getElem?_cons_zero]
  refine ⟨_, rfl, ?_, ?_⟩
  · by_cases hl : kids s'.tree (.st i g s) = x.children.length + 1
    · simp [Frame.addrs, hframe.1 hl, hr]
    · exact absurd hstored (hframe.2 hl r hr)
  · exact stored_seg_selected s'.tree sid r _ _ _ _ hr hsid hstored

/-- non-vacuity: NM1 with a bad element (element error) and a segment-level error, inside an open set that already has
    an erroneous BHT: all three tuples are shown next to NM1 (segment number 4) and nowhere else -/
def wOrdinary : List Item :=
  wBodyErr ++ [.ev (.addSeg sNM1 3 none), .ev (.addEle 2 none none), .ev (.eleError ['7'] ['x'] none),
               .ev (.eleError ['5'] ['y'] none), .ev (.segError ['8'] none), .seg sNM1] ++
    [.ev .closeSt, .seg sSE]

theorem ordinary_witness :
    ShownAt wOrdinary 4 (.node (.seg 0 0 0 1) 0) ∧ ShownAt wOrdinary 4 (.ele (.seg 0 0 0 1) 0 0) ∧
      ShownAt wOrdinary 4 (.ele (.seg 0 0 0 1) 0 1) ∧ ¬ ShownAt wOrdinary 3 (.node (.seg 0 0 0 1) 0) ∧
      ¬ ShownAt wOrdinary 5 (.node (.seg 0 0 0 1) 0) := by decide

/-! ## the property at full strength -/

/-- "the message of every error reported for a segment is shown next to that segment": whenever an error-handler
    call stores a tuple while segment number `k` is being processed and the run completes that segment's loop body,
    the tuple is written next to segment `k` -/
def all_errors_shown_full : Prop :=
  ∀ (h1 h2 : List Item) (e : Event) (sid : Str) (h3 : List Item) (rs1 : RState) (s' : State) (r : ErrRef),
    runEnd RState.init h1 = some rs1 → ErrTree.step rs1.st e = .ok s' →
    ¬ Stored rs1.st.tree r → Stored s'.tree r →
    (∀ it ∈ h2, ∃ e', it = Item.ev e') →
    runEnd RState.init (h1 ++ Item.ev e :: h2 ++ Item.seg sid :: h3) ≠ none →
    ShownAt (h1 ++ Item.ev e :: h2 ++ Item.seg sid :: h3) (nSegs h1) r

/-- FALSE of the code: the interchange-level witness (error 025 at the ISA segment) -/
theorem all_errors_shown_full_false : ¬ all_errors_shown_full := by
  intro h
  have := h [.ev (.addIsa isaD)] [] (.isaError ['0', '2', '5']) sISA []
    { st := (ErrTree.addIsaLoop State.init isaD), cur := Cursor.init }
    { (ErrTree.addIsaLoop State.init isaD) with
      tree := modIsa (ErrTree.addIsaLoop State.init isaD).tree 0 (fun a => { a with errors := a.errors ++ [['0', '2', '5']] }) }
    (.node (.isa 0) 0) (by decide) (by decide) (by decide) (by decide) (by simp) (by decide)
  revert this
  decide

end Pyx12Verif.ErrIter
