/-
Non-vacuity for Props/CtxDocFull.lean on the maps of Props/DocExample.lean / CtxDocExample3.lean: the Boolean hypotheses
`mapsGoodB`, `lidGoodB` hold there; `ctxDoc_total_full_bool` is applied to a badly malformed interchange (a GS in the middle
of a set, a second IEA, an unknown segment, a GS after IEA) for every admissible loop id, and the kernel evaluates the same
runs; the exit the theorem leaves open (`plainNodeAsLoop`) is reached with an admissible id.
-/
import Pyx12Verif.Props.CtxDocFull

namespace Pyx12Verif.Doc
open Pyx12Verif

/-! ### non-vacuity -/

namespace Ex

/-- the example maps pass all checks; ISA_LOOP (10), GS_LOOP (12), ST_LOOP (14) are anchored ids, 99 names nothing -/
example : mapsGoodB ms = true ∧ lidGoodB ms none = true ∧ lidGoodB ms (some 10) = true ∧ lidGoodB ms (some 12) = true ∧
    lidGoodB ms (some 14) = true ∧ lidGoodB ms (some 99) = true := by decide +kernel

/-- with a wrapper loop in the map: DETAIL (19) is admissible as "anchored nowhere", L2000 (20) as anchored -/
example : mapsGoodB msW = true ∧ lidGoodB msW (some 19) = true ∧ lidGoodB msW (some 20) = true := by decide +kernel

/-- a malformed interchange: GS in the middle of a set, a second IEA, an unknown segment, a GS after IEA -/
def textJunk : List Char :=
  (isaText ++ "GS*HC*S*R*20200101*1200*1*X*004010X1~ST*837*0001~REF*AB*1~GS*HC*S*R*20200101*1200*1*X*004010X1~" ++
    "ST*837*0001~SE*4*0001~GE*1*1~IEA*1*000000001~IEA*1*000000001~ZZ*1~GS*HC*S*R*20200101*1200*1*X*004010X1~GE*1*1~").toList

theorem junk_sane : ∀ hd, Tokenizer.parseHeader (textJunk.take Tokenizer.ISA_LEN) = .ok hd → SaneHeader hd := by
  intro hd hp
  have : Tokenizer.parseHeader (textJunk.take Tokenizer.ISA_LEN) = .ok hdr := by decide +kernel
  rw [this] at hp
  rw [← Tokenizer.HeaderRes.ok.inj hp]
  exact ⟨by decide, by decide⟩

/-- the theorem applies to it, for every admissible id … -/
example (lid : Option Ctx.LoopId) (hlid : lidGoodB ms lid = true) (c : Ctx.Crash)
    (h : (ctxDoc ms lid textJunk).stop = .crash (.reader c)) : c = Ctx.Crash.plainNodeAsLoop :=
  ctxDoc_total_full_bool ms lid textJunk c (by decide +kernel) hlid junk_sane pin_ok h

/-- … and the kernel agrees: the generator runs to its end with ISA_LOOP, GS_LOOP, ST_LOOP requested (the misplaced GS is
    attached BELOW the open ST_LOOP node of the ISA_LOOP tree: no exception, though the segments come out of order) -/
example : (ctxDoc ms (some 10) textJunk).stop = .done ∧ (ctxDoc ms (some 12) textJunk).stop = .done ∧
    (ctxDoc ms (some 14) textJunk).stop = .done ∧ (ctxDoc ms none textJunk).stop = .done ∧
    leafIdx (ctxDoc ms (some 10) textJunk) = [[0, 1, 2, 3, 4, 5, 6, 7, 11, 12, 8, 9, 10]] := by decide +kernel

/-- the exit the theorem leaves open is reached (the listed finding): a wrapper requested -/
example : lidGoodB msW (some 19) = true ∧
    (ctxDoc msW (some 19) good).stop = .crash (.reader Ctx.Crash.plainNodeAsLoop) := by decide +kernel

end Ex

end Pyx12Verif.Doc
