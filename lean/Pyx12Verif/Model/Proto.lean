/-
Line protocol helpers shared by the driver handlers (not part of any theorem).

One operation per line, TAB-separated fields; inside a field `\\ \t \n \r` and `\uXXXXXX;` escapes.
-/
namespace Pyx12Verif.Proto

def hexVal (c : Char) : Nat :=
  if '0' ≤ c ∧ c ≤ '9' then c.toNat - '0'.toNat
  else if 'a' ≤ c ∧ c ≤ 'f' then c.toNat - 'a'.toNat + 10
  else if 'A' ≤ c ∧ c ≤ 'F' then c.toNat - 'A'.toNat + 10
  else 0

/-- decode the escapes of one field -/
partial def unesc : List Char → List Char
  | [] => []
  | '\\' :: 't' :: r => '\t' :: unesc r
  | '\\' :: 'n' :: r => '\n' :: unesc r
  | '\\' :: 'r' :: r => '\r' :: unesc r
  | '\\' :: '\\' :: r => '\\' :: unesc r
  | '\\' :: 'u' :: r =>
      let hex := r.takeWhile (· != ';')
      let rest := (r.dropWhile (· != ';')).drop 1
      Char.ofNat (hex.foldl (fun a c => a * 16 + hexVal c) 0) :: unesc rest
  | c :: r => c :: unesc r

def hexDigit (n : Nat) : Char :=
  if n < 10 then Char.ofNat ('0'.toNat + n) else Char.ofNat ('a'.toNat + n - 10)

partial def toHex (n : Nat) : List Char :=
  if n < 16 then [hexDigit n] else toHex (n / 16) ++ [hexDigit (n % 16)]

def esc : List Char → List Char
  | [] => []
  | c :: r =>
    (if c = '\t' then ['\\', 't']
     else if c = '\n' then ['\\', 'n']
     else if c = '\r' then ['\\', 'r']
     else if c = '\\' then ['\\', '\\']
     else if c.toNat < 32 ∨ c.toNat > 126 then ['\\', 'u'] ++ toHex c.toNat ++ [';']
     else [c]) ++ esc r

def escS (s : List Char) : String := String.ofList (esc s)

/-- split a raw line into decoded fields -/
def fields (line : String) : List (List Char) :=
  let l := line.toList.filter (fun c => c != '\n')
  let rec go (cur : List Char) (acc : List (List Char)) : List Char → List (List Char)
    | [] => (cur.reverse :: acc).reverse
    | c :: r => if c = '\t' then go [] (cur.reverse :: acc) r else go (c :: cur) acc r
  (go [] [] l).map unesc

def natOf (s : List Char) : Nat := (String.ofList s).toNat!

def boolStr (b : Bool) : String := if b then "1" else "0"

end Pyx12Verif.Proto
