/-
Model of `pyx12/rawx12file.py` (class `RawX12File`) AFTER the fixes C01-D2 (an empty piece is skipped, it does not
stop the iteration) and C01-D3 (the header read and the buffer refill loop until enough data or end of input).

* `Stream` is an open text stream together with a read-size oracle: `read n` returns `min n k` characters where `k`
  is the next oracle size (oracle exhausted: full reads).  An empty read is what Python treats as end of input.
* `parseHeader` mirrors `RawX12File.__init__` (offsets 3 / 82 / 84..89 / 104 / 105 of the 106-character ISA line).
* `readHeader`, `refill`, `iter` mirror the read loops statement by statement.
* `spec` is the declarative splitter (no buffer, no stream): the pieces before each terminator with leading CR/LF
  removed, empty pieces dropped, the unterminated tail dropped.
-/
namespace Pyx12Verif.Tokenizer

def BUF : Nat := 8192
def ISA_LEN : Nat := 106

/-- `str.lstrip('\n\r')` -/
def lstripCRLF : List Char → List Char
  | [] => []
  | c :: cs => if c = '\n' ∨ c = '\r' then lstripCRLF cs else c :: cs

/-! ### the stream with its read-size oracle -/

structure Stream where
  rest : List Char
  sizes : List Nat

def Stream.readLen (s : Stream) (n : Nat) : Nat :=
  match s.sizes with
  | [] => n
  | k :: _ => min n k

/-- `fd.read(n)` -/
def Stream.read (s : Stream) (n : Nat) : List Char × Stream :=
  (s.rest.take (s.readLen n), { rest := s.rest.drop (s.readLen n), sizes := s.sizes.tail })

/-! ### header -/

inductive HeaderErr where
  | notISA        -- "First line does not begin with 'ISA'"
  | short         -- "ISA line is only n characters"
  | badVersion    -- "ISA Interchange Control Version Number is unknown"
  deriving DecidableEq, Repr

structure Header where
  seg : Char                 -- line[-1]  (offset 105)
  ele : Char                 -- line[3]
  sub : Char                 -- line[-2]  (offset 104)
  rep : Option Char          -- line[82] when the version is 00501, else None
  icvn : List Char           -- line[84:89]
  deriving DecidableEq, Repr

inductive HeaderRes where
  | error (e : HeaderErr)
  | ok (h : Header)
  deriving DecidableEq, Repr

def v4010 : List Char := ['0', '0', '4', '0', '1']
def v5010 : List Char := ['0', '0', '5', '0', '1']

def icvnOf (line : List Char) : List Char := (line.drop 84).take 5

def repOf (icvn : List Char) (c : Char) : Option Char := if icvn = v5010 then some c else none

def mkHeader (line : List Char) (e r s t : Char) : Header :=
  { seg := t, ele := e, sub := s, rep := repOf (icvnOf line) r, icvn := icvnOf line }

/-- the four indexings cannot fail on a 106-character line; a failure is reported like a short line -/
def headerChars (line : List Char) : HeaderRes :=
  match line[3]? with
  | none => .error .short
  | some e =>
    match line[82]? with
    | none => .error .short
    | some r =>
      match line[104]? with
      | none => .error .short
      | some s =>
        match line[105]? with
        | none => .error .short
        | some t => .ok (mkHeader line e r s t)

/-- `RawX12File.__init__` on the (up to) 106 characters read -/
def parseHeader (line : List Char) : HeaderRes :=
  if line.take 3 ≠ ['I', 'S', 'A'] then .error .notISA
  else if line.length ≠ ISA_LEN then .error .short
  else if icvnOf line ≠ v4010 ∧ icvnOf line ≠ v5010 then .error .badVersion
  else headerChars line

/-- `while len(line) < ISA_LEN: data = fd.read(ISA_LEN - len(line)); if not data: break; line += data` -/
def readMore : Nat → List Char → Stream → List Char × Stream
  | 0, l, s => (l, s)
  | f + 1, l, s =>
    if l.length < ISA_LEN then
      if (s.read (ISA_LEN - l.length)).1.isEmpty then (l, s)
      else readMore f (l ++ (s.read (ISA_LEN - l.length)).1) (s.read (ISA_LEN - l.length)).2
    else (l, s)

/-- `line = fd.read(ISA_LEN)` followed by the loop above -/
def readHeader (s : Stream) : List Char × Stream :=
  readMore ISA_LEN (s.read ISA_LEN).1 (s.read ISA_LEN).2

/-! ### the iteration -/

/-- `while buffer.find(term) == -1: data = fd.read(BUF); if not data: break; buffer += data` -/
def refill (t : Char) : Nat → List Char → Stream → List Char × Stream
  | 0, b, s => (b, s)
  | f + 1, b, s =>
    if b.contains t then (b, s)
    else if (s.read BUF).1.isEmpty then (b, s)
    else refill t f (b ++ (s.read BUF).1) (s.read BUF).2

/-- `line` of `(line, buffer) = buffer.split(term, 1)` followed by `line.lstrip('\n\r')` -/
def firstLine (t : Char) (b : List Char) : List Char := lstripCRLF (b.takeWhile (· != t))

/-- `buffer` of `(line, buffer) = buffer.split(term, 1)` -/
def afterFirst (t : Char) (b : List Char) : List Char := (b.dropWhile (· != t)).tail

/-- `RawX12File.__iter__`; the fuel bounds the number of `while True` rounds (each consumes a terminator) -/
def iter (t : Char) : Nat → List Char → Stream → List (List Char)
  | 0, _, _ => []
  | f + 1, b, s =>
    if (refill t (f + 1) b s).1.contains t then
      if (firstLine t (refill t (f + 1) b s).1).isEmpty then
        iter t f (afterFirst t (refill t (f + 1) b s).1) (refill t (f + 1) b s).2
      else
        firstLine t (refill t (f + 1) b s).1 ::
          iter t f (afterFirst t (refill t (f + 1) b s).1) (refill t (f + 1) b s).2
    else []

inductive RawOutcome where
  | error (e : HeaderErr)                       -- X12Error raised by the constructor
  | ok (h : Header) (lines : List (List Char))  -- the delimiters and the yielded lines
  deriving DecidableEq, Repr

/-- buffer after the constructor: `self.buffer = line; self.buffer += self.fd.read(DEFAULT_BUFSIZE)` -/
def initBuffer (s : Stream) : List Char × Stream :=
  ((readHeader s).1 ++ ((readHeader s).2.read BUF).1, ((readHeader s).2.read BUF).2)

/-- constructor followed by complete iteration -/
def rawRead (s : Stream) : RawOutcome :=
  match parseHeader (readHeader s).1 with
  | .error e => .error e
  | .ok h => .ok h (iter h.seg (s.rest.length + 1) (initBuffer s).1 (initBuffer s).2)

/-! ### declarative splitter -/

/-- what a finished piece contributes -/
def emit (piece : List Char) (rest : List (List Char)) : List (List Char) :=
  if (lstripCRLF piece).isEmpty then rest else lstripCRLF piece :: rest

/-- `acc` = the current piece, reversed -/
def specAux (t : Char) : List Char → List Char → List (List Char)
  | _, [] => []
  | acc, c :: cs =>
    if c = t then emit acc.reverse (specAux t [] cs)
    else specAux t (c :: acc) cs

def spec (t : Char) (text : List Char) : List (List Char) := specAux t [] text

/-- the reader specified on the text alone -/
def rawSpec (text : List Char) : RawOutcome :=
  match parseHeader (text.take ISA_LEN) with
  | .error e => .error e
  | .ok h => .ok h (spec h.seg text)

end Pyx12Verif.Tokenizer
