/-
Model of the cross-run state of a pyx12 process (C18): the mutable default-argument cells and how the
code uses the names bound to them.

Cells (one per `def f(…, p=[] / {})` in the package):
  0 element_if.is_valid(type_list=[])        1 walk_tree.setCountState(initialCounts={})
  2 X12LoopDataNode.__init__(end_loops=[])   3 X12SegmentDataNode.__init__(start_loops=[])
  4 X12SegmentDataNode.__init__(end_loops=[])
  5 xmlwriter.push(attrs={})  6 xmlwriter.elem(attrs={})  7 xmlwriter.empty(attrs={})
Uses (what the harness's AST scan establishes for each cell on every run): the bound name is only
*read* (iterated, measured, copied) or *aliased* into a field that is itself only read or rebound to a
fresh object — never mutated in place.
-/
namespace Pyx12Verif.Globals

abbrev Cell := List Nat

structure G where
  cells : List Cell
  deriving DecidableEq, Repr

/-- operations the code performs on a default-bound name `i`; `v` is the caller-supplied argument
    (`none` = the default object itself is used) -/
inductive Op
  | read (i : Nat) (v : Option Cell)          -- iterate / len / membership
  | alias (i : Nat) (v : Option Cell)         -- `self.f = p`, later reads of `self.f`
  | copy (i : Nat) (v : Option Cell)          -- `list(p)` / `NodeCounter(p)` copy constructor
  | rebindField (i : Nat)                     -- `self.f = []` (fresh object; the default is untouched)
  deriving DecidableEq, Repr

def G.cell (g : G) (i : Nat) : Cell := g.cells.getD i []

/-- what an operation observes: the supplied value, or the default cell -/
def observe (g : G) : Op → Cell
  | .read i v => v.getD (g.cell i)
  | .alias i v => v.getD (g.cell i)
  | .copy i v => v.getD (g.cell i)
  | .rebindField _ => []

/-- no modelled operation writes a cell -/
def step (g : G) (_ : Op) : G := g

def run (g : G) (ops : List Op) : G × List Cell :=
  ops.foldl (fun acc op => (step acc.1 op, acc.2 ++ [observe acc.1 op])) (g, [])

/-- invariant: every default cell is empty, as at import time -/
def Inv (g : G) : Prop := ∀ c ∈ g.cells, c = []

def g0 (n : Nat) : G := ⟨List.replicate n []⟩

end Pyx12Verif.Globals
