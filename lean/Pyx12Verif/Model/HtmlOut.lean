/-
Model of pyx12/error_html.py (HTML report sink) as it is after the two proposed fixes
  * D16: every error message is passed through `escape_html_chars` before it is written,
  * D39: the segment identifier and the three source delimiters are passed through `escape_html_chars`.

Strings are `List Char`.  One definition per Python function:
  `rep`/`escape`     str.replace (one-character pattern) / escape_html_chars (four replaces, in the code's order)
  `joinWith`         str.join
  `subStrs/elemStr/elemStrs`  the `t_seg` loop of gen_seg (with the `ele_pos_map` marks and `_wrap_ele_error`)
  `segStr`           seg_str + _seg_str
  `segLineM/segLine` the `<span class="seg">` write of gen_seg
  `msgLine/infoLine` the error and loop-information writes
  `genSeg/report/drive`  gen_seg's write order and the per-segment loop of x12n_document (header, one gen_seg per
                     reader segment numbered 1.., footer)
  `stripTags/tags/unescape`   the reader's side: drop markup / keep only markup / decode the four entities

Not modelled (parameters): `time.strftime` in the header (a parameter string), the contents of the error tree and the
`err_iter` cursor (the messages handed to `genSeg` are parameters; their completeness is the oracle's business).
`escape_html_chars(None)` is not reachable from `gen_seg` (every reference designator it builds is in range).
A `Composite` always has at least one sub-element (`str.split` never returns an empty list): `Elem` is non-empty by
construction.
-/
namespace Pyx12Verif.Html

/-! ### escaping -/

/-- `s.replace(c, r)` for a one-character pattern `c` -/
def rep (c : Char) (r : List Char) : List Char → List Char
  | [] => []
  | x :: xs => if x = c then r ++ rep c r xs else x :: rep c r xs

def entAmp : List Char := ['&', 'a', 'm', 'p', ';']
def entNbsp : List Char := ['&', 'n', 'b', 's', 'p', ';']
def entGt : List Char := ['&', 'g', 't', ';']
def entLt : List Char := ['&', 'l', 't', ';']

/-- `escape_html_chars`: `&` first, then blank, `>`, `<` (the order of the Python statements) -/
def escape (s : List Char) : List Char :=
  rep '<' entLt (rep '>' entGt (rep ' ' entNbsp (rep '&' entAmp s)))

/-! ### the segment line -/

/-- a parsed element: the sub-elements `first :: rest` (`Composite.elements`, never empty) -/
structure Elem where
  first : List Char
  rest : List (List Char)
  deriving Repr, DecidableEq

def Elem.subs (e : Elem) : List (List Char) := e.first :: e.rest

/-- a parsed segment (`Segment.seg_id`, `Segment.elements`) -/
structure Seg where
  id : List Char
  elems : List Elem
  deriving Repr, DecidableEq

/-- the source terminators handed to `error_html.__init__` (each a one-character string) -/
structure Delims where
  seg : Char
  ele : Char
  sub : Char
  deriving Repr, DecidableEq

/-- `sep ++ y` for every further item -/
def joinTail (sep : List Char) : List (List Char) → List Char
  | [] => []
  | y :: r => sep ++ y ++ joinTail sep r

/-- `sep.join(xs)` -/
def joinWith (sep : List Char) : List (List Char) → List Char
  | [] => []
  | x :: r => x ++ joinTail sep r

/-- `<span class="ele_err">` -/
def spanErrOpen : List Char :=
  ['<', 's', 'p', 'a', 'n', ' ', 'c', 'l', 'a', 's', 's', '=', '"', 'e', 'l', 'e', '_', 'e', 'r', 'r', '"',
   '>']
/-- `</span>` -/
def spanClose : List Char :=
  ['<', '/', 's', 'p', 'a', 'n', '>']

/-- `_wrap_ele_error` -/
def wrapErr (s : List Char) : List Char := spanErrOpen ++ s ++ spanClose

/-- `ele_pos_map`: built by assignment in iteration order (a later entry for the same position wins);
    `none` = key absent, `some v` = `ele_pos_map[i] == v` (`v = none` is Python `None`) -/
def findMark : List (Nat × Option Nat) → Nat → Option (Option Nat)
  | [], _ => none
  | kv :: r, i => if (findMark r i).isSome then findMark r i else if kv.1 = i then some kv.2 else none

/-- inner loop over `j` (sub-elements of a composite), `j` is 1-based -/
def subStrs (m : Option (Option Nat)) : Nat → List (List Char) → List (List Char)
  | _, [] => []
  | j, v :: r => (if m = some (some j) then wrapErr (escape v) else escape v) :: subStrs m (j + 1) r

/-- one iteration of the loop over `i`: composite (more than one sub-element) or simple element -/
def elemStr (sub : List Char) (m : Option (Option Nat)) (e : Elem) : List Char :=
  if e.rest = [] then (if m.isSome then wrapErr (escape e.first) else escape e.first)
  else joinWith sub (subStrs m 1 e.subs)

/-- the loop over `i` (1-based element position) -/
def elemStrs (marks : List (Nat × Option Nat)) (sub : List Char) : Nat → List Elem → List (List Char)
  | _, [] => []
  | i, e :: r => elemStr sub (findMark marks i) e :: elemStrs marks sub (i + 1) r

/-- `_seg_str(escape(seg_id), t_seg)` with the escaped terminators stored by `__init__` (eol = '') -/
def segStr (marks : List (Nat × Option Nat)) (s : Seg) (d : Delims) : List Char :=
  escape s.id ++ escape [d.ele] ++ joinWith (escape [d.ele]) (elemStrs marks (escape [d.sub]) 1 s.elems)
    ++ escape [d.seg]

/-! decimal rendering of the line number (`%i` of a non-negative int) -/

def digitChar (d : Nat) : Char := Char.ofNat (48 + d)

def decFuel : Nat → Nat → List Char → List Char
  | 0, _, acc => acc
  | f + 1, n, acc => if n < 10 then digitChar n :: acc else decFuel f (n / 10) (digitChar (n % 10) :: acc)

def dec (n : Nat) : List Char := decFuel (n + 1) n []

/-- `<span class="seg">` -/
def spanSegOpen : List Char :=
  ['<', 's', 'p', 'a', 'n', ' ', 'c', 'l', 'a', 's', 's', '=', '"', 's', 'e', 'g', '"', '>']
/-- `</span><br />\n` -/
def lineClose : List Char :=
  ['<', '/', 's', 'p', 'a', 'n', '>', '<', 'b', 'r', ' ', '/', '>', '\n']

/-- the `<span class="seg">%i:&nbsp;%s</span><br />\n` write -/
def segLineM (marks : List (Nat × Option Nat)) (lineNo : Nat) (s : Seg) (d : Delims) : List Char :=
  spanSegOpen ++ dec lineNo ++ [':'] ++ entNbsp ++ segStr marks s d ++ lineClose

def segLine (lineNo : Nat) (s : Seg) (d : Delims) : List Char := segLineM [] lineNo s d

/-! ### message and information lines -/

inductive Kind | segment | element
  deriving Repr, DecidableEq

def kindText : Kind → List Char
  | .segment => ['S', 'e', 'g', 'm', 'e', 'n', 't']
  | .element => ['E', 'l', 'e', 'm', 'e', 'n', 't']

/-- `<span class="error">` -/
def spanErrorOpen : List Char :=
  ['<', 's', 'p', 'a', 'n', ' ', 'c', 'l', 'a', 's', 's', '=', '"', 'e', 'r', 'r', 'o', 'r', '"', '>']
/-- `<span class="info">` -/
def spanInfoOpen : List Char :=
  ['<', 's', 'p', 'a', 'n', ' ', 'c', 'l', 'a', 's', 's', '=', '"', 'i', 'n', 'f', 'o', '"', '>']

/-- ` Error Code: ` -/
def errorCodeText : List Char := [' ', 'E', 'r', 'r', 'o', 'r', ' ', 'C', 'o', 'd', 'e', ':', ' ']

/-- an error message as `gen_seg`/`footer` write it; `code` is one of pyx12's own error-code literals -/
structure Msg where
  kind : Kind
  text : List Char
  code : List Char
  deriving Repr, DecidableEq

/-- `'<span class="error">&nbsp;%s (Segment Error Code: %s)</span><br />\n' % (escape(err_str), err_cde)` -/
def msgLine (m : Msg) : List Char :=
  spanErrorOpen ++ entNbsp ++ escape m.text ++ [' ', '('] ++ kindText m.kind ++ errorCodeText ++ m.code
    ++ [')'] ++ lineClose

/-- `gen_info`: text taken from the map (not from the input), written as it is -/
def infoLine (info : List Char) : List Char :=
  spanInfoOpen ++ entNbsp ++ entNbsp ++ info ++ lineClose

/-! ### the per-segment driver -/

/-- what `gen_seg` is handed for one segment: the messages it prints before (code 3) and after the segment line,
    the pending loop information, the marks -/
structure Ann where
  pre : List Msg
  info : Option (List Char)
  marks : List (Nat × Option Nat)
  post : List Msg
  deriving Repr

def infoWrites : Option (List Char) → List (List Char)
  | none => []
  | some i => [infoLine i]

/-- the `fd.write` calls of one `gen_seg`, in order -/
def genSeg (d : Delims) (lineNo : Nat) (s : Seg) (a : Ann) : List (List Char) :=
  a.pre.map msgLine ++ infoWrites a.info ++ [segLineM a.marks lineNo s d] ++ a.post.map msgLine

/-- the loop `for seg in src: … html.gen_seg(seg, src, …)`; `src.cur_line` is `n + 1` for the next segment -/
def segLoop (d : Delims) : Nat → List (Seg × Ann) → List (List Char)
  | _, [] => []
  | n, sa :: r => genSeg d (n + 1) sa.1 sa.2 ++ segLoop d (n + 1) r

/-- the header after `<html>`; `date` is the `time.strftime` text (a parameter) -/
def headerBody (date : List Char) : List Char :=
  ("\n<head>\n<title>X12N Error Analysis</title>\n<style type=\"text/css\">\n<!--\n" ++
   "  span.seg { color: black; font-style: normal; }\n" ++
   "  span.error { background-color: #CCCCFF; color: red; font-style: normal; }\n" ++
   "  span.info { color: blue; font-style: normal; }\n" ++
   "  span.ele_err { background-color: yellow; color: red; font-style: normal; }\n" ++
   "  -->\n</style>\n  <link rel=\"stylesheet\" href=\"errors.css\" type=\"text/css\" />\n</head>\n<body>\n" ++
   "<h1>X12N Error Analysis</h1>\n<h3>Analysis Date: ").toList ++ date ++
  "</h3><p>\n<div class=\"segs\" style=\"\">\n".toList

/-- everything `header()` writes -/
def headerText (date : List Char) : List Char := ['<', 'h', 't', 'm', 'l', '>'] ++ headerBody date

/-- the footer after `</div>` -/
def footerBody : List Char :=
  ("\n<p>\n<a href=\"http://sourceforge.net/projects/pyx12/\">pyx12 Validator</a>\n</p>\n" ++
   "</body>\n</html>\n").toList

/-- what `footer()` writes after its trailing messages -/
def footerText : List Char := ['<', '/', 'd', 'i', 'v', '>'] ++ footerBody

/-- all writes of one `x12n_document` run with an HTML sink: header, the loop, the footer's trailing messages -/
def report (date : List Char) (d : Delims) (segs : List (Seg × Ann)) (tail : List Msg) : List (List Char) :=
  [headerText date] ++ segLoop d 0 segs ++ tail.map msgLine ++ [footerText]

/-! ### the reader's side -/

/-- drop everything from a `<` up to and including the next `>` -/
def stripAux : Bool → List Char → List Char
  | _, [] => []
  | true, c :: r => if c = '>' then stripAux false r else stripAux true r
  | false, c :: r => if c = '<' then stripAux true r else c :: stripAux false r

def stripTags (s : List Char) : List Char := stripAux false s

/-- the complement: only the characters `stripTags` drops (the markup) -/
def tagsAux : Bool → List Char → List Char
  | _, [] => []
  | true, c :: r => if c = '>' then c :: tagsAux false r else c :: tagsAux true r
  | false, c :: r => if c = '<' then c :: tagsAux true r else tagsAux false r

def tags (s : List Char) : List Char := tagsAux false s

def startsWith : List Char → List Char → Bool
  | [], _ => true
  | _ :: _, [] => false
  | p :: ps, c :: cs => p == c && startsWith ps cs

/-- after an `&`: which entity follows (decoded character, number of characters to skip) -/
def entityAt (r : List Char) : Option (Char × Nat) :=
  if startsWith ['a', 'm', 'p', ';'] r then some ('&', 4)
  else if startsWith ['n', 'b', 's', 'p', ';'] r then some (' ', 5)
  else if startsWith ['g', 't', ';'] r then some ('>', 3)
  else if startsWith ['l', 't', ';'] r then some ('<', 3)
  else none

def decodeAmp (c : Char) (o : Option (Char × Nat)) : Char × Nat :=
  match o with
  | some p => p
  | none => (c, 0)

/-- decode `&amp; &nbsp; &gt; &lt;`; the first argument counts characters of an entity still to be skipped -/
def unescAux : Nat → List Char → List Char
  | _, [] => []
  | k + 1, _ :: r => unescAux k r
  | 0, c :: r =>
    if c = '&' then (decodeAmp c (entityAt r)).1 :: unescAux (decodeAmp c (entityAt r)).2 r
    else c :: unescAux 0 r

def unescape (s : List Char) : List Char := unescAux 0 s

/-- is this write a segment line? -/
def isSegWrite (w : List Char) : Bool := startsWith spanSegOpen w

end Pyx12Verif.Html
