/-
Model of pyx12/segment.py : Segment._parse_refdes, get, get_value, set  (with Composite.__init__,
Composite.format, Element.format as far as those use them).

`Seg` is the plain data shape shared with the tokenizer model: segment id + elements, each element a
list of sub-element strings (a simple element has one).  The *object* the get/set code works on,
`SegObj`, additionally remembers for every `Composite` the separator it was built with
(`Composite.subele_term`): the constructor builds the elements of an `ISA` segment, and `set` builds
`ISA16`, with the *element* separator, everything else with the component separator, and
`Composite.format()` joins with the composite's own separator.

Python partial operations are explicit outcomes (`Err`): `X12PathError`, `EngineError`,
`IndexError` (`elements[-1]` on an empty list, `get` without element index), `TypeError`
(`len(..) <= None` in `set` without element index), `UnboundLocalError` (`Composite.format` on a
composite without elements — not constructible through the public API, but the datatype allows it).
A segment id of `None` (segment built from `''`) is represented by `[]`: for get/set both only ever
compare unequal to the id of a designator, which is never empty.
No failing `set` mutates the segment, so `Err` carries no state.
-/
import Pyx12Verif.Model.Path

namespace Pyx12Verif.Segment
open Pyx12Verif.Path

/-- segment id and elements; element = list of sub-element strings -/
structure Seg where
  id : List Char
  elems : List (List (List Char))
  deriving DecidableEq, Repr

/-- `Composite`: `subele_term` and the values of its `Element`s -/
structure Comp where
  term : Char
  subs : List (List Char)
  deriving DecidableEq, Repr

/-- `Segment`: id, composites, `ele_term`, `subele_term` -/
structure SegObj where
  id : List Char
  elements : List Comp
  eleTerm : Char
  subTerm : Char
  deriving DecidableEq, Repr

inductive Err | pathError | engineError | indexError | typeError | unboundLocal
  deriving DecidableEq, Repr

/-- the value of `n - 1` for a natural `n`, as a Python index -/
inductive PyIdx | neg1 | nat (n : Nat)
  deriving DecidableEq, Repr

def pyPred : Nat → PyIdx
  | 0 => .neg1
  | k + 1 => .nat k

/-- `idx >= n` -/
def geLen : PyIdx → Nat → Bool
  | .neg1, _ => false
  | .nat i, n => n ≤ i

/-- `xs[idx]` (`none` = IndexError) -/
def pyGet {α : Type} (xs : List α) : PyIdx → Option α
  | .neg1 => xs.getLast?
  | .nat i => xs[i]?

/-- `xs[idx] = x` (`none` = IndexError) -/
def pySet {α : Type} (xs : List α) (i : PyIdx) (x : α) : Option (List α) :=
  match i with
  | .neg1 => if xs.isEmpty then none else some (xs.set (xs.length - 1) x)
  | .nat k => if k < xs.length then some (xs.set k x) else none

/-- `while len(xs) <= idx: xs.append(blank)` -/
def padTo {α : Type} (blank : α) (xs : List α) : PyIdx → List α
  | .neg1 => xs
  | .nat k => xs ++ List.replicate (k + 1 - xs.length) blank

/-- `Composite(val, term)` -/
def mkComp (term : Char) (val : List Char) : Comp := ⟨term, splitOn term val⟩

def isISA (id : List Char) : Bool := id = ['I', 'S', 'A']

/-- the constructor's choice of separator per element, given plain data -/
def ofSeg (eleTerm subTerm : Char) (s : Seg) : SegObj :=
  ⟨s.id, s.elems.map (fun e => ⟨if isISA s.id then eleTerm else subTerm, e⟩), eleTerm, subTerm⟩

def toSeg (s : SegObj) : Seg := ⟨s.id, s.elements.map Comp.subs⟩

/-! ### `_parse_refdes` -/

def refOfPath (s : SegObj) (xp : XPath) : Except Err (Option PyIdx × Option PyIdx) :=
  match xp.segId with
  | none => .ok (xp.eleIdx.map pyPred, xp.subIdx.map pyPred)
  | some sid =>
    if sid = s.id then .ok (xp.eleIdx.map pyPred, xp.subIdx.map pyPred) else .error .engineError

def parseRefdes (s : SegObj) (d : List Char) : Except Err (Option PyIdx × Option PyIdx) :=
  match parse d with
  | none => .error .pathError
  | some xp => refOfPath s xp

/-! ### `get`, `get_value` -/

inductive Got
  | comp (c : Comp)
  | elem (v : List Char)
  | nothing
  deriving DecidableEq, Repr

def getSub (c : Comp) (cj : PyIdx) : Except Err Got :=
  if geLen cj c.subs.length then .ok .nothing
  else
    match pyGet c.subs cj with
    | none => .error .indexError
    | some v => .ok (.elem v)

def getAt (s : SegObj) (ei : PyIdx) (ci : Option PyIdx) : Except Err Got :=
  if geLen ei s.elements.length then .ok .nothing
  else
    match pyGet s.elements ei with
    | none => .error .indexError
    | some c =>
      match ci with
      | none => .ok (.comp c)
      | some cj => getSub c cj

def getRef (s : SegObj) : Option PyIdx × Option PyIdx → Except Err Got
  | (none, _) => .error .indexError
  | (some ei, ci) => getAt s ei ci

/-- `Segment.get(ref_des)` -/
def get (s : SegObj) (d : List Char) : Except Err Got :=
  match parseRefdes s d with
  | .error e => .error e
  | .ok r => getRef s r

/-- trailing empty strings removed -/
def dropTrailingEmpty : List (List Char) → List (List Char)
  | [] => []
  | x :: r => if (dropTrailingEmpty r).isEmpty && x.isEmpty then [] else x :: dropTrailingEmpty r

/-- `Composite.format()`: sub-elements up to the last non-empty one (at least the first), joined -/
def fmtComp (c : Comp) : Except Err (List Char) :=
  match c.subs with
  | [] => .error .unboundLocal
  | x :: r => .ok (joinWith c.term (x :: dropTrailingEmpty r))

/-- `get_value` result: `none` = Python `None` -/
def valueOf : Got → Except Err (Option (List Char))
  | .nothing => .ok none
  | .elem v => .ok (some v)
  | .comp c =>
    match fmtComp c with
    | .error e => .error e
    | .ok v => .ok (some v)

/-- `Segment.get_value(ref_des)` -/
def getValue (s : SegObj) (d : List Char) : Except Err (Option (List Char)) :=
  match get s d with
  | .error e => .error e
  | .ok g => valueOf g

/-! ### `set` -/

def blankComp (s : SegObj) : Comp := ⟨s.subTerm, [[]]⟩

def withElements (s : SegObj) (es : List Comp) : SegObj := ⟨s.id, es, s.eleTerm, s.subTerm⟩

def storeComp (s : SegObj) (es : List Comp) (ei : PyIdx) (c : Comp) : Except Err SegObj :=
  match pySet es ei c with
  | none => .error .indexError
  | some es' => .ok (withElements s es')

/-- `while len(comp) <= cj: comp.elements.append(Element(''))`, then `comp[cj] = Element(val)` -/
def setSub (c : Comp) (cj : PyIdx) (val : List Char) : Except Err Comp :=
  match pySet (padTo [] c.subs cj) cj val with
  | none => .error .indexError
  | some subs => .ok ⟨c.term, subs⟩

def setComponent (s : SegObj) (es : List Comp) (ei cj : PyIdx) (val : List Char) : Except Err SegObj :=
  match pyGet es ei with
  | none => .error .indexError
  | some c =>
    match setSub c cj val with
    | .error e => .error e
    | .ok c' => storeComp s es ei c'

/-- the body of `set` after the padding loop; `es` is the padded element list -/
def setAt (s : SegObj) (es : List Comp) (ei : PyIdx) (ci : Option PyIdx) (val : List Char) :
    Except Err SegObj :=
  if isISA s.id && ei = .nat 15 then storeComp s es ei (mkComp s.eleTerm val)
  else
    match ci with
    | none => storeComp s es ei (mkComp s.subTerm val)
    | some cj => setComponent s es ei cj val

def setRef (s : SegObj) (val : List Char) : Option PyIdx × Option PyIdx → Except Err SegObj
  | (none, _) => .error .typeError
  | (some ei, ci) => setAt s (padTo (blankComp s) s.elements ei) ei ci val

/-- `Segment.set(ref_des, val)`: the new segment, or the exception (segment unchanged) -/
def set (s : SegObj) (d : List Char) (val : List Char) : Except Err SegObj :=
  match parseRefdes s d with
  | .error e => .error e
  | .ok r => setRef s val r

end Pyx12Verif.Segment
