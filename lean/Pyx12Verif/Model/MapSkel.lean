/-
Skeleton of a pyx12 implementation-guide map as the loader (`map_if.load_map_file`) builds it, and the
decidable well-formedness / addressing predicates of C16 (also used by C02/C14).

All identifiers, codes and data-element numbers are interned to `Nat` by the translator
(`tools/xlate.py`); the table is kept on the Python side and compared with the loader's strings by the
C16 correspondence.  Everything here is structurally recursive (mutual node / list recursion) so that
`decide +kernel` can evaluate it on the regenerated map terms.
-/
namespace Pyx12Verif.MapSkel

/-- simple element or sub-element definition -/
structure Elem where
  xid : Nat
  seq : Nat
  usage : Nat          -- 0 R, 1 S, 2 N, ≥ 3 anything else (interned text + 3)
  dataEle : Nat        -- interned data element number; 0 = absent
  isID : Bool          -- data type of the data element is `ID` (as looked up by the translator)
  isAN : Bool
  codes : List Nat     -- inline code list (kept only for match-key candidates, else `[]`)
  ncodes : Nat         -- length of the inline code list
  ext : Nat            -- interned external code set name; 0 = none
  regex : Bool
  deriving DecidableEq, Repr

inductive Child
  | elem (e : Elem)
  | comp (xid seq usage dataEle : Nat) (subs : List Elem)
  deriving Repr

/-- a syntax note: type letter code (0 P, 1 R, 2 E, 3 C, 4 L, ≥ 5 other) and the positions -/
abbrev Note := Nat × List Nat

inductive Node
  /-- `qual` = interned code appended to the path in brackets, 0 = none.
      `maxUse`/`rep`: 0 = `>1` (unbounded), n ≥ 1 = n, ≥ 1000000 = malformed text. -/
  | seg (sid qual pos usage maxUse : Nat) (notes : List Note) (children : List Child)
  | loop (lid pos usage rep : Nat) (wrapper : Bool) (children : List Node)
  deriving Repr

structure MapFile where
  xid : Nat
  children : List Node
  deriving Repr

def Node.pos : Node → Nat
  | .seg _ _ p _ _ _ _ => p
  | .loop _ p _ _ _ _ => p

def Node.ident : Node → Nat
  | .seg s _ _ _ _ _ _ => s
  | .loop l _ _ _ _ _ => l

def Node.isSeg : Node → Bool
  | .seg .. => true
  | .loop .. => false

def Node.usage : Node → Nat
  | .seg _ _ _ u _ _ _ => u
  | .loop _ _ u _ _ _ => u

def Node.rep : Node → Nat
  | .seg _ _ _ _ m _ _ => m
  | .loop _ _ _ r _ _ => r

def Node.children : Node → List Node
  | .seg .. => []
  | .loop _ _ _ _ _ ch => ch

/-! ### element-level well-formedness -/

def usageWF (u : Nat) : Bool := decide (u ≤ 2)
def repWF (r : Nat) : Bool := decide (r < 1000000)

def elemWF (des exts : List Nat) (e : Elem) : Bool :=
  usageWF e.usage && des.contains e.dataEle && (e.ext == 0 || exts.contains e.ext)

def elemsWF (des exts : List Nat) : List Elem → Bool
  | [] => true
  | e :: r => elemWF des exts e && elemsWF des exts r

def childWF (des exts : List Nat) : Child → Bool
  | .elem e => elemWF des exts e
  | .comp _ _ u _ subs => usageWF u && elemsWF des exts subs

def childrenWF (des exts : List Nat) : List Child → Bool
  | [] => true
  | c :: r => childWF des exts c && childrenWF des exts r

def Child.seq : Child → Nat
  | .elem e => e.seq
  | .comp _ s _ _ _ => s

/-- children carry seq 1, 2, 3 … in order (the loader indexes them by position) -/
def seqsFrom (k : Nat) : List Child → Bool
  | [] => true
  | c :: r => c.seq == k && seqsFrom (k + 1) r

def subSeqsFrom (k : Nat) : List Elem → Bool
  | [] => true
  | e :: r => e.seq == k && subSeqsFrom (k + 1) r

def compSeqsWF : List Child → Bool
  | [] => true
  | .elem _ :: r => compSeqsWF r
  | .comp _ _ _ _ subs :: r => subSeqsFrom 1 subs && compSeqsWF r

/-! ### syntax notes -/

def posInRange (n : Nat) : List Nat → Bool
  | [] => true
  | p :: r => decide (1 ≤ p) && decide (p ≤ n) && posInRange n r

/-- note type is one of P R E C L, at least two positions, every position within the segment -/
def noteWF (nchild : Nat) (n : Note) : Bool :=
  decide (n.1 ≤ 4) && decide (2 ≤ n.2.length) && posInRange nchild n.2

def notesWF (nchild : Nat) : List Note → Bool
  | [] => true
  | n :: r => noteWF nchild n && notesWF nchild r

/-! ### match keys (what `segment_if.is_match` keys on) -/

/-- `none` = matches any segment with the id; `some cs` = the qualifier must be in `cs` -/
abbrev Key := Nat × Option (List Nat)

def nthChild : List Child → Nat → Option Child
  | [], _ => none
  | c :: _, 0 => some c
  | _ :: r, n + 1 => nthChild r n

def firstSub : List Elem → Option Elem
  | [] => none
  | e :: _ => some e

/-- mirrors the cascade of `is_match` (ids: `ent hl ctx` are the interned `ENT`, `HL`, `CTX`) -/
def segKeyCodes (ent hl ctx : Nat) (sid : Nat) (ch : List Child) : Option (List Nat) :=
  match nthChild ch 0 with
  | some (.elem e0) =>
    if e0.isID && e0.usage == 0 && e0.ncodes > 0 then some e0.codes
    else if sid == ent then
      (match nthChild ch 1 with
       | some (.elem e1) => if e1.isID && e1.ncodes > 0 then some e1.codes else none
       | _ => none)
    else if sid == hl then
      (match nthChild ch 2 with
       | some (.elem e2) => if e2.ncodes > 0 then some e2.codes else none
       | _ => none)
    else none
  | some (.comp _ _ _ _ subs) =>
    (match firstSub subs with
     | some s0 =>
       if sid == ctx && s0.isAN && s0.ncodes > 0 then some s0.codes
       else if s0.isID && s0.ncodes > 0 then some s0.codes
       else none
     | none => none)
  | none => none

def overlapCodes : List Nat → List Nat → Bool
  | [], _ => false
  | c :: r, ys => ys.contains c || overlapCodes r ys

def overlap (a b : Key) : Bool :=
  a.1 == b.1 &&
    (match a.2, b.2 with
     | none, _ => true
     | _, none => true
     | some x, some y => overlapCodes x y)

mutual
/-- keys by which a node can be entered: a segment's own key, a loop's first child (through wrappers) -/
def entryKeys (ent hl ctx : Nat) : Node → List Key
  | .seg sid _ _ _ _ _ ch => [(sid, segKeyCodes ent hl ctx sid ch)]
  | .loop _ _ _ _ _ ch => entryKeysFirst ent hl ctx ch
def entryKeysFirst (ent hl ctx : Nat) : List Node → List Key
  | [] => []
  | n :: _ => entryKeys ent hl ctx n
end

def anyOverlap (ka kb : List Key) : Bool :=
  ka.any (fun a => kb.any (fun b => overlap a b))

/-! ### violations, reported as (rule, index path) so that known findings can be listed exactly -/

abbrev Viol := Nat × List Nat

def R_USAGE : Nat := 1        -- usage not R/S/N
def R_REPEAT : Nat := 2       -- repeat / max_use malformed
def R_ELEM : Nat := 3         -- element: usage, undefined data element or external code set
def R_SEQ : Nat := 4          -- element seqs are not 1..n
def R_NOTE : Nat := 5         -- syntax note malformed or out of range
def R_SIBLING : Nat := 6      -- same-position siblings cannot be told apart
def R_PATHDUP : Nat := 7      -- two loop/segment children of one parent report the same path component
def R_FETCH : Nat := 8        -- node not fetched by the path it reports
def R_POS : Nat := 9          -- positions not in non-decreasing order

def segViols (des exts : List Nat) (ip : List Nat) : Node → List Viol
  | .seg _ _ _ usage maxUse notes ch =>
    (if usageWF usage then [] else [(R_USAGE, ip)]) ++
    (if repWF maxUse then [] else [(R_REPEAT, ip)]) ++
    (if childrenWF des exts ch then [] else [(R_ELEM, ip)]) ++
    (if seqsFrom 1 ch && compSeqsWF ch then [] else [(R_SEQ, ip)]) ++
    (if notesWF ch.length notes then [] else [(R_NOTE, ip)])
  | .loop _ _ usage rep _ _ =>
    (if usageWF usage then [] else [(R_USAGE, ip)]) ++
    (if repWF rep then [] else [(R_REPEAT, ip)])

/-- path component a node reports for itself: (id, qualifier) -/
def Node.comp : Node → Nat × Nat
  | .seg s q _ _ _ _ _ => (s, q)
  | .loop l _ _ _ _ _ => (l, 0)

/-- index (within `all`) of later siblings that clash with child `i` -/
def siblingClash (ent hl ctx : Nat) (n : Node) : List Node → Bool
  | [] => false
  | m :: r => (m.pos == n.pos && anyOverlap (entryKeys ent hl ctx n) (entryKeys ent hl ctx m))
              || siblingClash ent hl ctx n r

def compClash (n : Node) : List Node → Bool
  | [] => false
  | m :: r => (m.isSeg == n.isSeg && m.comp == n.comp) || compClash n r

def posSorted : List Node → Bool
  | [] => true
  | [_] => true
  | a :: b :: r => decide (a.pos ≤ b.pos) && posSorted (b :: r)

mutual
def nodeViols (ent hl ctx : Nat) (des exts : List Nat) (ip : List Nat) : Node → List Viol
  | .seg a b c d e f g => segViols des exts ip (.seg a b c d e f g)
  | .loop a b c d e ch =>
    segViols des exts ip (.loop a b c d e ch) ++
    (if posSorted ch then [] else [(R_POS, ip)]) ++
    listViols ent hl ctx des exts ip 0 ch
def listViols (ent hl ctx : Nat) (des exts : List Nat) (ip : List Nat) (i : Nat) : List Node → List Viol
  | [] => []
  | n :: r =>
    (if siblingClash ent hl ctx n r then [(R_SIBLING, ip ++ [i])] else []) ++
    (if compClash n r then [(R_PATHDUP, ip ++ [i])] else []) ++
    nodeViols ent hl ctx des exts (ip ++ [i]) n ++
    listViols ent hl ctx des exts ip (i + 1) r
end

/-! ### fetching a node by the path it reports (`getnodebypath`) -/

/-- does the bracketed code select this segment? (`get_unique_key_id_element(id_val) is not None`) -/
def keyHasCode (ent hl : Nat) (sid : Nat) (ch : List Child) (code : Nat) : Bool :=
  match nthChild ch 0 with
  | some (.elem e0) =>
    if e0.isID && e0.ncodes > 0 && e0.codes.contains code then true
    else if sid == ent then
      (match nthChild ch 1 with
       | some (.elem e1) => e1.isID && e1.ncodes > 0 && e1.codes.contains code
       | _ => false)
    else if sid == hl then
      (match nthChild ch 2 with
       | some (.elem e2) => e2.ncodes > 0 && e2.codes.contains code
       | _ => false)
    else false
  | some (.comp _ _ _ _ subs) =>
    (match firstSub subs with
     | some s0 => s0.isID && s0.ncodes > 0 && s0.codes.contains code
     | none => false)
  | none => false

def consOpt (i : Nat) : Option (List Nat) → Option (List Nat)
  | some p => some (i :: p)
  | none => none

mutual
/-- one child tried against the head component `(pid, q)` of the path: `none` = not this child, go on;
    `some r` = this child matched and the search is committed to `r` (no backtracking). -/
def fetchNode (ent hl : Nat) (i pid q : Nat) (rest : List (Nat × Nat)) : Node → Option (Option (List Nat))
  | .loop lid _ _ _ _ ch =>
    if lid == pid && q == 0 then
      some (match rest with
            | [] => some [i]
            | c :: cs => consOpt i (fetchList ent hl 0 c.1 c.2 cs ch))
    else none
  | .seg sid _ _ _ _ _ sch =>
    if rest.isEmpty && sid == pid && (q == 0 || keyHasCode ent hl sid sch q) then some (some [i]) else none
/-- `loop_if.getnodebypath` / `map_if.getnodebypath`: first child in position order whose id matches wins -/
def fetchList (ent hl : Nat) (i pid q : Nat) (rest : List (Nat × Nat)) : List Node → Option (List Nat)
  | [] => none
  | n :: r =>
    match fetchNode ent hl i pid q rest n with
    | some res => res
    | none => fetchList ent hl (i + 1) pid q rest r
end

/-- fetch the node addressed by a full path (list of `(id, qualifier)` components) from the root children -/
def fetch (ent hl : Nat) (root : List Node) : List (Nat × Nat) → Option (List Nat)
  | [] => none
  | c :: cs => fetchList ent hl 0 c.1 c.2 cs root

mutual
def fetchViolsNode (ent hl : Nat) (root : List Node) (ip : List Nat) (path : List (Nat × Nat)) : Node → List Viol
  | .seg .. => []
  | .loop _ _ _ _ _ ch => fetchViolsList ent hl root ip path 0 ch
def fetchViolsList (ent hl : Nat) (root : List Node) (ip : List Nat) (path : List (Nat × Nat)) (i : Nat) :
    List Node → List Viol
  | [] => []
  | n :: r =>
    (if fetch ent hl root (path ++ [n.comp]) == some (ip ++ [i]) then [] else [(R_FETCH, ip ++ [i])]) ++
    fetchViolsNode ent hl root (ip ++ [i]) (path ++ [n.comp]) n ++
    fetchViolsList ent hl root ip path (i + 1) r
end

/-- all violations of a map file, in document order -/
def violations (ent hl ctx : Nat) (des exts : List Nat) (m : MapFile) : List Viol :=
  (if posSorted m.children then [] else [(R_POS, [])]) ++
  listViols ent hl ctx des exts [] 0 m.children ++ fetchViolsList ent hl m.children [] [] 0 m.children

/-- equality of violation lists as sets -/
def sameSet (a b : List Viol) : Bool := a.all (fun x => b.contains x) && b.all (fun x => a.contains x)

/-! ### the map index -/

/-- index entry: (icvn, vriic, fic, tspc (0 = none), file) -/
abbrev IndexEntry := Nat × Nat × Nat × Nat × Nat

def keyClash (a : IndexEntry) : List IndexEntry → Bool
  | [] => false
  | b :: r =>
    (a.1 == b.1 && a.2.1 == b.2.1 && a.2.2.1 == b.2.2.1 &&
      (a.2.2.2.1 == b.2.2.2.1 || a.2.2.2.1 == 0 || b.2.2.2.1 == 0)) || keyClash a r

def indexViols (i : Nat) : List IndexEntry → List Nat
  | [] => []
  | a :: r => (if keyClash a r then [i] else []) ++ indexViols (i + 1) r

end Pyx12Verif.MapSkel
