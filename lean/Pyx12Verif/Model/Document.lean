/-
END-TO-END model of `pyx12/x12n_document.py : x12n_document` (the glue), composed of the finished component models:

  text -> segments        Tokenizer.rawRead / SegText.readLines (via `SegText.readAll`)                    (C01)
  reader bookkeeping      Envelope.step Fixes.all, Envelope.cleanup (via `Pipeline.viewOf`)                  (C04)
  matched map node        Walker.walk / Walker.forceLoopStart over the translated skeleton `MapSkel.Node`   (C02)
  node.is_valid           ElemValid.elemValidIn (Boolean + codes), Syn.routeNote (syntax notes)             (C15, C14)
  error tree              ErrTree.run over the event list produced here                                      (C05)
  acknowledgement         Ack.ack997 / Ack.ack999 on the final error-tree state                              (C05/C06)

What is written here mirrors, statement by statement:
  * `x12n_document`: control-map choice, the `for seg in src` loop (ISA/GS pinned to the control map with
    `forceWalkCounterToLoopStart`, everything else walked from the current node; `node is None` => fall back to the previous
    node WITHOUT clearing `valid` and WITHOUT popping the reader's errors; map selection through `map_index.get_filename` at
    GS and, for the two 278 maps, at BHT; `errh.add_*` / `handle_errors(src.pop_errors())` per segment kind;
    `valid &= node.is_valid(seg, errh)`), `cleanup`, visitor selection by the GS08 prefix, the verdict;
  * `segment_if.is_valid`, `composite_if.is_valid`, `element_if.is_valid` as EVENT producers (`add_ele`, `ele_error` with code,
    message text and value); their Boolean results / code lists are those of `Model/ElemValid.lean`
    (`Proofs/DocValid.lean` proves the two agree);
  * the two checks at the top of `X12Base._parse_segment` that `Model/Envelope.lean` leaves out (empty segment `8`,
    invalid identifier `1`);
  * `map_index.get_filename`.

A map is the C02 skeleton (`MapSkel.Node`, interned ids) EXTENDED by a lookup table index path -> `SegDef` (what validation
and error reporting read off the segment node).  Values that depend on code outside the modelled functions are context:
external code set membership and the regex verdict (`Ctx`).
-/
import Pyx12Verif.Model.Pipeline
import Pyx12Verif.Model.Walker
import Pyx12Verif.Model.ErrTree
import Pyx12Verif.Model.Ack

namespace Pyx12Verif.Doc
open Pyx12Verif

abbrev Str := List Char
abbrev Seg := SegText.Seg
abbrev Delims := SegText.Delims
abbrev Event := ErrTree.Event
abbrev Usage := ElemValid.Usage

/-! ### extended map definitions -/

/-- a simple element / sub-element node: the validation definition (C15) plus what error reporting reads -/
structure ElemX where
  d : ElemValid.ElemDef
  /-- `data_ele in root.data_elements` (else `get_by_elem_num` raises EngineError, finding D30) -/
  defined : Bool
  name : Str
  refdes : Str
  /-- `map_node.data_ele` (`err_ele.ele_ref_num`) -/
  dataEle : Option Str
  /-- `external_codes` ("" when none) -/
  ext : Str
  /-- `self.res` ("" when none) -/
  regex : Str

inductive ChildX
  | elem (e : ElemX)
  | comp (usage : Usage) (seq : Nat) (name refdes : Str) (dataEle : Option Str) (kids : List ElemX)

structure SegDef where
  sid : Str
  name : Str
  children : List ChildX
  notes : List Syn.Note

structure MapX where
  file : Str
  /-- `cur_map.id == '837'` -/
  is837 : Bool
  /-- `root.icvn == '00501'` (`map_if._get_icvn`) -/
  v5010 : Bool
  rootId : Nat
  root : List MapSkel.Node
  defs : List (List Nat × SegDef)
  /-- interning of the strings the skeleton mentions (segment ids, match-key codes) -/
  intern : List (Str × Nat)

structure EnvIds where
  isaLoop : Nat
  isa : Nat
  gsLoop : Nat
  gs : Nat
  stLoop : Nat
  header : Nat
  bht : Nat

/-- one `<map>` of maps.xml -/
structure IndexEntry where
  icvn : Option Str
  vriic : Option Str
  fic : Option Str
  tspc : Option Str
  file : Option Str

structure Maps where
  consts : Walker.Consts
  ids : EnvIds
  /-- number standing for any string the skeleton does not mention -/
  unk : Nat
  /-- every loadable map file (control maps included) -/
  maps : List MapX
  index : List IndexEntry

/-- settings and value-dependent facts computed outside the modelled functions -/
structure Ctx where
  /-- `param.get('charset') == 'E'` -/
  extended : Bool
  /-- `root.ext_codes.isValid(set, value)` -/
  extMember : Str → Str → Bool
  /-- `re.compile(pattern, re.S).search(value) is not None` -/
  regexFound : Str → Str → Bool

/-! ### outcomes -/

inductive Site
  | readerLine                       -- X12Reader.__iter__ (`line[-1]`)
  | getValue                         -- Composite.format on a composite without sub-elements (not constructible by the parser)
  | envelope (e : Envelope.Exc)      -- _parse_segment (none after the guard fixes)
  | elementValue                     -- Composite.get_value on a composite without sub-elements
  | refDes                           -- '%02i' % n with n >= 100 is no reference designator
  | syntaxNote                       -- is_syntax_valid / the note loop
  | dataEle                          -- EngineError: data element not defined (D30)
  | nodeNone                         -- `node` is None where a map node is dereferenced
  | noSegDef                         -- (model only) `Maps` has no definition for a segment node of the skeleton
  | errTree (s : ErrTree.Site)       -- AttributeError inside err_handler
  deriving DecidableEq, Repr

inductive Outcome
  | verdict (b : Bool)
  | refused (e : Tokenizer.HeaderErr)   -- X12Error in the constructor: logged, returns False
  | notX12                              -- X12Error raised while iterating (ISA without 16 elements)
  | mapNotFound                         -- EngineError("Map not found ...")
  | mapLoadFailed                       -- load_map_file raised (file named by the index is not loadable)
  | crash (s : Site)
  deriving DecidableEq, Repr

/-! ### strings -/

def sBHT : Str := ['B', 'H', 'T']
def sDTP : Str := ['D', 'T', 'P']
def sFA : Str := ['F', 'A']
def s1250 : Str := ['1', '2', '5', '0']
def s1251 : Str := ['1', '2', '5', '1']
def ctl401 : Str := "x12.control.00401.xml".toList
def ctl501 : Str := "x12.control.00501.xml".toList
def v278a : Str := "004010X094".toList
def v278b : Str := "004010X094A1".toList
def p004010 : Str := "004010".toList
def p005010 : Str := "005010".toList

def natStr (n : Nat) : Str := Ack.natStr n
/-- `'%02i' % n` -/
def pad2 (n : Nat) : Str := Ack.padZeros 2 (Ack.natStr n)
def codeStr (c : Nat) : Str := Ack.natStr c

/-! ### `Segment.get_value` -/

def optV : Pipeline.GetV → Option Str
  | .value v => some v
  | .absent => none
  | .crash => none

/-- `seg.get_value('%02i' % (k + 1))` -/
def gv (d : Delims) (s : Seg) (k : Nat) : Option Str := optV (Pipeline.getValue d s k)

def firstOf : List Str → Option Str
  | [] => none
  | v :: _ => some v

/-- `seg.get_value('01-1')` -/
def gv011 (s : Seg) : Option Str :=
  match s.elems with
  | [] => none
  | c :: _ => firstOf c

/-! ### reader errors as tuples of `err_list` -/

inductive Level | isa | gs | st | seg
  deriving DecidableEq, Repr

/-- `(err_type, err_cde, err_str, err_val, src_line)` without text and line -/
structure RdErr where
  level : Level
  code : Str
  value : Option Str
  deriving DecidableEq, Repr

def lineErr : SegText.RErr → RdErr
  | .leadingBlank => ⟨.seg, ['1'], none⟩
  | .trailingSep => ⟨.seg, ['S', 'E', 'G', '1'], none⟩

def envErr : Envelope.Err → RdErr
  | .isa025 => ⟨.isa, ['0', '2', '5'], none⟩
  | .isa024 => ⟨.isa, ['0', '2', '4'], none⟩
  | .isa001 => ⟨.isa, ['0', '0', '1'], none⟩
  | .isa021 => ⟨.isa, ['0', '2', '1'], none⟩
  | .isa023 => ⟨.isa, ['0', '2', '3'], none⟩
  | .gs6 => ⟨.gs, ['6'], none⟩
  | .gs3 => ⟨.gs, ['3'], none⟩
  | .gs4 => ⟨.gs, ['4'], none⟩
  | .gs5 => ⟨.gs, ['5'], none⟩
  | .st23 => ⟨.st, ['2', '3'], none⟩
  | .st3 => ⟨.st, ['3'], none⟩
  | .st4 => ⟨.st, ['4'], none⟩
  | .st2 => ⟨.st, ['2'], none⟩
  | .hl1 => ⟨.seg, ['H', 'L', '1'], none⟩
  | .hl2 => ⟨.seg, ['H', 'L', '2'], none⟩
  | .lx => ⟨.seg, ['L', 'X'], none⟩

/-- one tuple through `err_handler.handle_errors` -/
def rdEvent (e : RdErr) : Event :=
  match e.level with
  | .isa => .isaError e.code
  | .gs => .gsError e.code
  | .st => .stError e.code
  | .seg => .segError e.code e.value

/-- `Segment.is_empty` -/
def segEmpty (s : Seg) : Bool := s.elems.isEmpty || s.elems.all SegText.isEmptyComp

def isUpperAZ (c : Char) : Bool := 'A' ≤ c && c ≤ 'Z'
def isAZ09 (c : Char) : Bool := isUpperAZ c || ('0' ≤ c && c ≤ '9')

/-- `Segment.is_seg_id_valid`: length 2..3 and `^[A-Z][A-Z0-9]{1,2}$` (`$` also matches before one trailing newline) -/
def segIdValid : Str → Bool
  | [a, b] => isUpperAZ a && isAZ09 b
  | [a, b, c] => isUpperAZ a && isAZ09 b && (isAZ09 c || c == '\n')
  | _ => false

/-- the two checks at the top of `X12Base._parse_segment` -/
def baseErrs (s : Seg) : List RdErr :=
  (if segEmpty s then [⟨.seg, ['8'], none⟩] else []) ++ (if segIdValid s.id then [] else [⟨.seg, ['1'], none⟩])

/-! ### element_if.is_valid as an event producer -/

/-- what `element_if.is_valid` is handed -/
inductive EIn
  | absent
  | composite (repr : Str)
  | simple (v : Str)

def EIn.toInput : EIn → ElemValid.Input
  | .absent => .absent
  | .composite _ => .composite
  | .simple v => .simple v

def EIn.value : EIn → Str
  | .simple v => v
  | _ => []

/-- `(err_cde, err_str, bad_value)` handed to `errh.ele_error` -/
structure Report where
  code : Str
  msg : Str
  value : Option Str
  deriving DecidableEq, Repr

def Report.event (r : Report) : Event := .eleError r.code r.msg r.value

def ctlNames : List (Nat × Str) :=
  [(0x07, "BEL".toList), (0x09, "HT".toList), (0x0A, "LF".toList), (0x0B, "VT".toList), (0x0C, "FF".toList),
   (0x0D, "CR".toList), (0x1C, "FS".toList), (0x1D, "GS".toList), (0x1E, "RS".toList), (0x1F, "US".toList),
   (0x01, "SOH".toList), (0x02, "STX".toList), (0x03, "ETX".toList), (0x04, "EOT".toList), (0x05, "ENQ".toList),
   (0x06, "ACK".toList), (0x11, "DC1".toList), (0x12, "DC2".toList), (0x13, "DC3".toList), (0x14, "DC4".toList),
   (0x15, "NAK".toList), (0x16, "SYN".toList), (0x17, "ETB".toList)]

def hasCode (n : Nat) : Str → Bool
  | [] => false
  | c :: r => c.toNat == n || hasCode n r

/-- `bad_string` of `contains_control_character`: the first table entry (dict order) found in the value -/
def badStringIn (v : Str) : List (Nat × Str) → Str
  | [] => []
  | p :: r => if hasCode p.1 v then '<' :: p.2 ++ ['>'] else badStringIn v r

def badString (v : Str) : Str := badStringIn v ctlNames

def hdr (e : ElemX) : Str := "Data element \"".toList ++ e.name ++ "\" (".toList ++ e.refdes ++ ")".toList

def msgComposite (e : ElemX) : Str := hdr e ++ " is an invalid composite".toList
def msgMissing (e : ElemX) : Str :=
  "Mandatory data element \"".toList ++ e.name ++ "\" (".toList ++ e.refdes ++ ") is missing".toList
def msgNotUsed (e : ElemX) : Str := hdr e ++ " is marked as Not Used".toList
def msgShort (e : ElemX) (d : ElemValid.ElemDef) (v : Str) : Str :=
  hdr e ++ " is too short: len(\"".toList ++ v ++ "\") = ".toList ++ natStr (ElemValid.effLen d.dataType v) ++
    " < ".toList ++ natStr d.minLen ++ " (min_len)".toList
def msgLong (e : ElemX) (d : ElemValid.ElemDef) (v : Str) : Str :=
  hdr e ++ " is too long: len(\"".toList ++ v ++ "\") = ".toList ++ natStr (ElemValid.effLen d.dataType v) ++
    " > ".toList ++ natStr d.maxLen ++ " (max_len)".toList
def msgControl (e : ElemX) (bad : Str) : Str :=
  hdr e ++ ", contains an invalid control character(".toList ++ bad ++ ")".toList
def msgTrailing (e : ElemX) (v : Str) : Str := hdr e ++ " has unnecessary trailing spaces. (".toList ++ v ++ ")".toList
def msgCode (e : ElemX) (v : Str) : Str :=
  "(".toList ++ v ++ ") is not a valid code for ".toList ++ e.name ++ " (".toList ++ e.refdes ++ ")".toList
def msgDate (e : ElemX) (v : Str) : Str := hdr e ++ " contains an invalid date (".toList ++ v ++ ")".toList
def msgTime (e : ElemX) (v : Str) : Str := hdr e ++ " contains an invalid time (".toList ++ v ++ ")".toList
def msgType (e : ElemX) (d : ElemValid.ElemDef) (v : Str) : Str :=
  hdr e ++ " is type ".toList ++ d.dataType ++ ", contains an invalid character(".toList ++ v ++ ")".toList
def msgRegex (e : ElemX) (v : Str) : Str :=
  "Data element \"".toList ++ e.name ++ "\" with a value of (".toList ++ v ++
    ") failed to match the regular expression \"".toList ++ e.regex ++ "\"".toList

def rcond (b : Bool) (r : Report) : List Report := if b then [r] else []

/-- the report for a value that is not of the declared type -/
def typeReport (e : ElemX) (d : ElemValid.ElemDef) (v : Str) : Report :=
  if ElemValid.isDateType d.dataType then ⟨['8'], msgDate e v, some v⟩
  else if d.dataType = ElemValid.tyTM then ⟨['9'], msgTime e v, some v⟩
  else ⟨['6'], msgType e d v, some v⟩

/-- what is reported when no type of the qualifier-selected list fits -/
def tlReports (e : ElemX) (tl : List Str) (v : Str) : List Report :=
  if tl.contains ElemValid.tyTM then [⟨['9'], msgTime e v, some v⟩]
  else if tl.contains ElemValid.tyRD8 || tl.contains ElemValid.tyDT || tl.contains ElemValid.tyD8 ||
      tl.contains ElemValid.tyD6 then [⟨['8'], msgDate e v, some v⟩]
  else []

/-- `is_valid` from `elem_val = elem.get_value()` on (value non-empty, usage not N): the reports, in order -/
def valueReports (e : ElemX) (d : ElemValid.ElemDef) (c : ElemValid.Ctx) (v : Str) : List Report :=
  if Validation.hasControl v then
    rcond (ElemValid.tooShort d v) ⟨['4'], msgShort e d v, some v⟩ ++
    rcond (ElemValid.tooLong d v) ⟨['5'], msgLong e d v, some v⟩ ++
    [⟨['6'], msgControl e (badString v), some (badString v)⟩]
  else
    rcond (ElemValid.tooShort d v) ⟨['4'], msgShort e d v, some v⟩ ++
    rcond (ElemValid.tooLong d v) ⟨['5'], msgLong e d v, some v⟩ ++
    rcond (ElemValid.trailing d v) ⟨['6'], msgTrailing e v, some v⟩ ++
    rcond (!ElemValid.codeOk d c v) ⟨['7'], msgCode e v, some v⟩ ++
    rcond (!ElemValid.typeOk d c v) (typeReport e d v) ++
    (if ElemValid.tlBad d c v then tlReports e d.typeList v else []) ++
    rcond (ElemValid.regexBad d c) ⟨['7'], msgRegex e v, some v⟩

/-- the branch `elem is None or elem.get_value() == ''` -/
def emptyReports (e : ElemX) (d : ElemValid.ElemDef) : List Report :=
  match d.usage with
  | .N => []
  | .S => []
  | .R => if ElemValid.missingIsError d then [⟨['1'], msgMissing e, none⟩] else []

def simpleReports (e : ElemX) (d : ElemValid.ElemDef) (c : ElemValid.Ctx) (v : Str) : List Report :=
  if v.isEmpty then emptyReports e d
  else if d.usage = .N then [⟨['1', '0'], msgNotUsed e, none⟩]
  else valueReports e d c v

/-- everything `element_if.is_valid` hands to `errh.ele_error`, in order -/
def elemReports (e : ElemX) (d : ElemValid.ElemDef) (c : ElemValid.Ctx) : EIn → List Report
  | .composite r => [⟨['6'], msgComposite e, some r⟩]
  | .absent => emptyReports e d
  | .simple v => simpleReports e d c v

/-- the definition as `is_valid` sees it: with the `type_list` argument -/
def defWith (e : ElemX) (tl : List Str) : ElemValid.ElemDef := { e.d with typeList := tl }

def elemCtx (ctx : Ctx) (v5010 : Bool) (e : ElemX) (v : Str) : ElemValid.Ctx :=
  { extended := ctx.extended, v5010 := v5010, extMember := ctx.extMember e.ext v, regexFound := ctx.regexFound e.regex v }

/-- is `self.root.data_elements.get_by_elem_num(self.data_ele)` reached? -/
def needsLookup (e : ElemX) : EIn → Bool
  | .simple v => !v.isEmpty && !(e.d.usage = .N)
  | _ => false

inductive ERes
  | ok (valid : Bool) (evs : List Event)
  | crash (s : Site)

/-- sequential composition: `valid &= ...`; the first exception wins -/
def ERes.andThen : ERes → ERes → ERes
  | .crash s, _ => .crash s
  | .ok _ _, .crash s => .crash s
  | .ok v a, .ok w b => .ok (v && w) (a ++ b)

/-- `element_if.is_valid(elem, errh, type_list)` for the element reported at (`pos`, `sub`) -/
def elemEvents (ctx : Ctx) (v5010 : Bool) (pos : Nat) (sub : Option Nat) (e : ElemX) (tl : List Str) (i : EIn) : ERes :=
  if needsLookup e i && !e.defined then .crash .dataEle
  else
    .ok (ElemValid.elemValidIn (defWith e tl) (elemCtx ctx v5010 e i.value) i.toInput).1
      (.addEle pos sub e.dataEle ::
        (elemReports e (defWith e tl) (elemCtx ctx v5010 e i.value) i).map Report.event)

/-! ### composite_if.is_valid -/

/-- the two child loops: child `i` gets `comp_data[i]` while there is one, `None` afterwards -/
def kidsEvents (ctx : Ctx) (v5010 : Bool) (pos : Nat) : List ElemX → List Str → ERes
  | [], _ => .ok true []
  | k :: ks, [] => (elemEvents ctx v5010 pos (some k.d.seq) k [] .absent).andThen (kidsEvents ctx v5010 pos ks [])
  | k :: ks, v :: vs => (elemEvents ctx v5010 pos (some k.d.seq) k [] (.simple v)).andThen (kidsEvents ctx v5010 pos ks vs)

def msgCompRequired (name refdes : Str) : Str :=
  "At least one component of composite \"".toList ++ name ++ "\" (".toList ++ refdes ++ ") is required".toList
def msgCompNotUsed (name refdes : Str) : Str :=
  "Composite \"".toList ++ name ++ "\" (".toList ++ refdes ++ ") is marked as Not Used".toList
def msgCompTooMany (name refdes : Str) : Str :=
  "Too many sub-elements in composite \"".toList ++ name ++ "\" (".toList ++ refdes ++ ")".toList

/-- `errh.add_ele(self); errh.ele_error(code, err_str, None, self.refdes)` -/
def compErr (seq : Nat) (de : Option Str) (code msg : Str) : List Event :=
  [.addEle seq none de, .eleError code msg none]

/-- from `if self.usage == 'N' and not comp_data.is_empty()` on -/
def compPresentEvents (ctx : Ctx) (v5010 : Bool) (usage : Usage) (seq : Nat) (name refdes : Str) (de : Option Str)
    (kids : List ElemX) (vs : List Str) : ERes :=
  if usage = .N && !ElemValid.allEmpty vs then .ok false (compErr seq de ['5'] (msgCompNotUsed name refdes))
  else
    (ERes.ok (!(vs.length > kids.length))
        (if vs.length > kids.length then compErr seq de ['3'] (msgCompTooMany name refdes) else [])).andThen
      (kidsEvents ctx v5010 seq kids vs)

/-- `composite_if.is_valid(comp_data, errh)` (after the guard fix D19a) -/
def compEvents (ctx : Ctx) (v5010 : Bool) (usage : Usage) (seq : Nat) (name refdes : Str) (de : Option Str)
    (kids : List ElemX) : Option (List Str) → ERes
  | none =>
    match usage with
    | .N => .ok true []
    | .S => .ok true []
    | .R => .ok false (compErr seq de ['2'] (msgCompRequired name refdes))
  | some vs =>
    if ElemValid.allEmpty vs && (usage = .N || usage = .S) then .ok true []
    else if usage = .R && !ElemValid.anyNonEmpty vs then .ok false (compErr seq de ['2'] (msgCompRequired name refdes))
    else compPresentEvents ctx v5010 usage seq name refdes de kids vs

/-! ### segment_if.is_valid -/

def dtpTypes : List Str := [['R', 'D', '8'], ['D', '8'], ['D', '6'], ['D', 'T'], ['T', 'M']]

/-- `if i == 1 and seg_id == 'DTP' and get_value('02') in (...): dtype = [get_value('02')]` -/
def newDtype (sid : Str) (i : Nat) (v02 : Option Str) (dt : List Str) : List Str :=
  if i = 1 ∧ sid = sDTP then
    (match v02 with
     | some v => if dtpTypes.contains v then [v] else dt
     | none => dt)
  else dt

/-- `if child_node.data_ele == '1250': type_list.extend(child_node.valid_codes)` -/
def newTl (x : ElemX) (tl : List Str) : List Str := if x.dataEle = some s1250 then tl ++ x.d.codes else tl

/-- the `type_list` argument the element at index `i` is validated with -/
def pickTl (sid : Str) (i : Nat) (x : ElemX) (dt tl : List Str) : List Str :=
  if i = 2 ∧ sid = sDTP then dt else if x.dataEle = some s1251 ∧ !tl.isEmpty then tl else []

/-- `seg_data.get('%02i')` seen by `element_if.is_valid`: `None`, a one-component `Composite` (simple value) or more -/
def elemIn (sep : Char) : List Str → Option EIn
  | [] => none
  | [v] => some (.simple v)
  | a :: b :: r =>
    match SegText.formatComp sep (a :: b :: r) with
    | none => none
    | some t => some (.composite t)

def elemAt (ctx : Ctx) (v5010 : Bool) (sep : Char) (x : ElemX) (tl : List Str) (data : List Str) : ERes :=
  match elemIn sep data with
  | none => .crash .elementValue
  | some i => elemEvents ctx v5010 x.d.seq none x tl i

/-- a child validated against `None` (second loop of `is_valid`) -/
def childAbsent (ctx : Ctx) (v5010 : Bool) : ChildX → ERes
  | .elem x => elemEvents ctx v5010 x.d.seq none x [] .absent
  | .comp u seq nm rd de kids => compEvents ctx v5010 u seq nm rd de kids none

/-- a child validated against the data at its index (first loop of `is_valid`), with the type lists as they are
    after the updates made at this index -/
def childPresent (ctx : Ctx) (v5010 : Bool) (sep : Char) (sid : Str) (i : Nat) (dt tl : List Str) (data : List Str) :
    ChildX → ERes
  | .elem x => elemAt ctx v5010 sep x (pickTl sid i x dt tl) data
  | .comp u seq nm rd de kids => compEvents ctx v5010 u seq nm rd de kids (some data)

def stepDtype (sid : Str) (i : Nat) (v02 : Option Str) (dt : List Str) : ChildX → List Str
  | .elem _ => newDtype sid i v02 dt
  | .comp .. => dt

def stepTl (tl : List Str) : ChildX → List Str
  | .elem x => newTl x tl
  | .comp .. => tl

/-- the two child loops of `segment_if.is_valid`; `i` = index of the first listed child, `dt` / `tl` = `dtype` / `type_list` -/
def childrenEvents (ctx : Ctx) (v5010 : Bool) (sep : Char) (sid : Str) (v02 : Option Str) :
    Nat → List Str → List Str → List ChildX → List (List Str) → ERes
  | _, _, _, [], _ => .ok true []
  | i, dt, tl, c :: cs, [] =>
    (childAbsent ctx v5010 c).andThen (childrenEvents ctx v5010 sep sid v02 (i + 1) dt tl cs [])
  | i, dt, tl, c :: cs, e :: es =>
    (childPresent ctx v5010 sep sid i (stepDtype sid i v02 dt c) (stepTl tl c) e c).andThen
      (childrenEvents ctx v5010 sep sid v02 (i + 1) (stepDtype sid i v02 dt c) (stepTl tl c) cs es)

def msgTooMany (sd : SegDef) (sid : Str) (has : Nat) : Str :=
  "Too many elements in segment \"".toList ++ sd.name ++ "\" (".toList ++ sid ++ "). Has ".toList ++ natStr has ++
    ", should have ".toList ++ natStr sd.children.length

def tooManyValue (sd : SegDef) (s : Seg) : Pipeline.GetV → ERes
  | .crash => .crash .getValue
  | .absent => .ok false [.addEle (sd.children.length + 1) none none,
                          .eleError ['3'] (msgTooMany sd s.id s.elems.length) none]
  | .value v => .ok false [.addEle (sd.children.length + 1) none none,
                           .eleError ['3'] (msgTooMany sd s.id s.elems.length) (some v)]

/-- `if len(seg_data) > child_count: ... errh.add_ele(_surplus_element(...)); errh.ele_error('3', ...)` -/
def tooManyEvents (d : Delims) (sd : SegDef) (s : Seg) : ERes :=
  if s.elems.length > sd.children.length then
    (if 100 ≤ sd.children.length + 1 then .crash .refDes
     else tooManyValue sd s (Pipeline.getValue d s sd.children.length))
  else .ok true []

/-! #### syntax notes -/

def synStr (n : Syn.Note) : Str := n.code :: (n.idx.map pad2).flatten

def eleId (sid : Str) (k : Nat) : Str := sid ++ pad2 k

/-- `syntax_ele_id_str` for the positions after the first -/
def eleIdRest (sid : Str) : List Nat → Str
  | [] => []
  | [k] => " or ".toList ++ eleId sid k
  | k :: j :: r => ", ".toList ++ eleId sid k ++ eleIdRest sid (j :: r)

def eleIdList (sid : Str) : List Nat → Str
  | [] => []
  | k :: r => eleId sid k ++ eleIdRest sid r

def synHead (n : Syn.Note) : Str := "Syntax Error (".toList ++ synStr n ++ "): ".toList

/-- the message `is_syntax_valid` returns with `False` -/
def synMsg (sid : Str) (n : Syn.Note) : Str :=
  if n.idx.length + 1 < 3 then "Syntax string must have at least two comparators ".toList ++ synStr n
  else if n.code = 'P' then synHead n ++ "If any of ".toList ++ eleIdList sid n.idx ++ " is present, then all are required".toList
  else if n.code = 'R' then synHead n ++ "At least one element is required".toList
  else if n.code = 'E' then synHead n ++ "At most one of ".toList ++ eleIdList sid n.idx ++ " may be present".toList
  else if n.code = 'C' then
    synHead n ++ "If ".toList ++ eleId sid (n.idx.headD 0) ++ " is present, then ".toList ++ eleIdList sid n.idx.tail ++
      (if n.idx.tail.length > 1 then " are required".toList else " is required".toList)
  else if n.code = 'L' then
    synHead n ++ "If ".toList ++ eleId sid (n.idx.headD 0) ++ " is present, then at least one of ".toList ++
      eleIdList sid n.idx.tail ++ " is required".toList
  else "Syntax Type ".toList ++ synStr n ++ " Not Found".toList

/-- `errh.add_ele(child)` for a child of the segment node -/
def childAddEle : ChildX → Event
  | .elem x => .addEle x.d.seq none x.dataEle
  | .comp _ seq _ _ de _ => .addEle seq none de

/-- `if 0 < syn[1] <= child_count: errh.add_ele(self.get_child_node_by_idx(syn[1] - 1))` -/
def noteAddEle (sd : SegDef) (k : Nat) : List Event :=
  if 0 < k ∧ k ≤ sd.children.length then
    (match sd.children[k - 1]? with
     | some c => [childAddEle c]
     | none => [])
  else []

def noteErrEvents (sd : SegDef) (sid : Str) (n : Syn.Note) (e : Syn.EleErr) : List Event :=
  noteAddEle sd e.pos ++ [.eleError e.code (synMsg sid n) none]

def notesEvents (sd : SegDef) (sid : Str) (vals : List Str) : List Syn.Note → ERes
  | [] => .ok true []
  | n :: ns =>
    match Syn.routeNote vals n with
    | none => .crash .syntaxNote
    | some errs =>
      (ERes.ok errs.isEmpty ((errs.map (noteErrEvents sd sid n)).flatten)).andThen (notesEvents sd sid vals ns)

def notesOn (sd : SegDef) (sid : Str) : Option (List Str) → ERes
  | none => .crash .getValue
  | some vals => notesEvents sd sid vals sd.notes

/-- `segment_if.is_valid(seg_data, errh)` -/
def segEvents (ctx : Ctx) (v5010 : Bool) (d : Delims) (sd : SegDef) (s : Seg) : ERes :=
  ((tooManyEvents d sd s).andThen
    (childrenEvents ctx v5010 (Pipeline.sepOf d s.id) s.id (gv d s 1) 0 [] [] sd.children s.elems)).andThen
    (notesOn sd s.id (SegText.formatComps (Pipeline.sepOf d s.id) s.elems))

/-! ### the walker's reports as events -/

def lookupDef (m : MapX) (ip : List Nat) : Option SegDef :=
  match m.defs.find? (fun p => p.1 == ip) with
  | some p => some p.2
  | none => none

/-- id of the (segment) map node a "mandatory ... missing" report is attached to (`fake_seg`) -/
def sidAt (m : MapX) (ip : List Nat) : Str :=
  match lookupDef m ip with
  | some sd => sd.sid
  | none => []

/-- `errh.add_seg(node, seg, seg_count, cur_line, ls_id)` (where it is called) followed by `errh.seg_error(code, ...)` -/
def werrEvents (m : MapX) (sid : Str) (segCount : Nat) (e : Walker.WErr) : List Event :=
  match e.1 with
  | .segNotUsed => [.segError ['2'] none]
  | .segMaxCount => [.addSeg sid segCount none, .segError ['5'] none]
  | .loopNotUsed => [.segError ['2'] none]
  | .loopMaxCount => [.addSeg sid segCount none, .segError ['4'] none]
  | .mandatoryMissing => [.addSeg (sidAt m e.2) segCount none, .segError ['3'] none]
  | .notFound => [.addSeg sid segCount none, .segError ['1'] none]

/-! ### interning, segment view for `is_match` -/

def lookupStr (t : List (Str × Nat)) (unk : Nat) (v : Str) : Nat :=
  match t.find? (fun p => p.1 == v) with
  | some p => p.2
  | none => unk

/-- 0 for `None` / `''`, the skeleton's number for a string it mentions, `unk` otherwise -/
def internV (m : MapX) (unk : Nat) : Option Str → Nat
  | none => 0
  | some v => if v.isEmpty then 0 else lookupStr m.intern unk v

def segData (ms : Maps) (m : MapX) (d : Delims) (s : Seg) : Walker.SegData :=
  { sid := internV m ms.unk (some s.id), v01 := internV m ms.unk (gv d s 0), v02 := internV m ms.unk (gv d s 1),
    v03 := internV m ms.unk (gv d s 2), v011 := internV m ms.unk (gv011 s) }

/-! ### map index and paths -/

/-- `map_index.get_filename(icvn, vriic, fic, tspc)` -/
def getFilename : List IndexEntry → Option Str → Option Str → Option Str → Option Str → Option Str
  | [], _, _, _, _ => none
  | a :: r, icvn, vriic, fic, tspc =>
    if a.icvn = icvn ∧ a.vriic = vriic ∧ a.fic = fic ∧ (tspc = none ∨ a.tspc = tspc) then a.file
    else getFilename r icvn vriic fic tspc

/-- `load_map_file(name, ...)`: `none` = the file does not load -/
def findMap (ms : Maps) (file : Str) : Option MapX := ms.maps.find? (fun m => m.file == file)

structure NodeRef where
  map : MapX
  ip : List Nat

def isaPath (ms : Maps) : List (Nat × Nat) := [(ms.ids.isaLoop, 0), (ms.ids.isa, 0)]
def gsPath (ms : Maps) : List (Nat × Nat) := [(ms.ids.isaLoop, 0), (ms.ids.gsLoop, 0), (ms.ids.gs, 0)]
def bhtPath (ms : Maps) : List (Nat × Nat) :=
  [(ms.ids.isaLoop, 0), (ms.ids.gsLoop, 0), (ms.ids.stLoop, 0), (ms.ids.header, 0), (ms.ids.bht, 0)]

/-- `m.getnodebypath(path)` -/
def fetchIn (ms : Maps) (m : MapX) (path : List (Nat × Nat)) : Option NodeRef :=
  match MapSkel.fetch ms.consts.ent ms.consts.hl m.root path with
  | some ip => some ⟨m, ip⟩
  | none => none

/-! ### error-tree arguments read off the segment and the reader -/

/-- `src.get_gs_id()` / `src.get_st_id()`: the first entry of that kind in `loops` (bottom first) -/
def loopId (k : Envelope.Kind) (rs : Envelope.RState) : Option Str :=
  match rs.loops.reverse.find? (fun p => p.1 == k) with
  | some p => p.2
  | none => none

def isaData (d : Delims) (s : Seg) : ErrTree.IsaData :=
  { e05 := gv d s 4, e06 := gv d s 5, e07 := gv d s 6, e08 := gv d s 7, e09 := gv d s 8, e10 := gv d s 9,
    e11 := gv d s 10, e12 := gv d s 11, e13 := gv d s 12, e14 := gv d s 13, e15 := gv d s 14 }

def gsData (d : Delims) (s : Seg) (rs : Envelope.RState) : ErrTree.GsData :=
  { e01 := gv d s 0, e02 := gv d s 1, e03 := gv d s 2, e06 := gv d s 5, e07 := gv d s 6, e08 := gv d s 7,
    ctl := loopId .gs rs }

def stData (d : Delims) (s : Seg) (rs : Envelope.RState) : ErrTree.StData :=
  { e01 := gv d s 0, e03 := gv d s 2, ctl := loopId .st rs }

/-- `int(seg.get_value('GE01'))` as `err_gs.close` classifies it -/
def geCount : Option Str → ErrTree.GeCount
  | none => .absent
  | some t =>
    match Envelope.pyInt t with
    | some n => .num n
    | none => .bad

/-! ### one round of `for seg in src:` -/

structure LState where
  rs : Envelope.RState
  /-- `src.err_list`: reported by the reader, not yet popped -/
  pend : List RdErr
  cnt : Walker.Counter
  /-- `node` -/
  node : Option NodeRef
  /-- `map_file` -/
  mapFile : Option Str
  /-- `cur_map` -/
  curMap : Option MapX
  icvn : Option Str
  fic : Option Str
  vriic : Option Str
  valid : Bool

/-- what the model reports for one yielded segment -/
structure SegOut where
  sid : Str
  /-- the walker (or the pin) returned a node -/
  matched : Bool
  /-- `node` after the round (what the callback sees): map file and index path -/
  node : Option (Str × List Nat)
  /-- the reader errors handled at this segment (`handle_errors(src.pop_errors())`) -/
  popped : List RdErr
  /-- everything handed to the error handler in this round, in order -/
  events : List Event

inductive Step
  | next (st : LState) (out : SegOut)
  | stop (o : Outcome)

def NodeRef.key (n : NodeRef) : Str × List Nat := (n.map.file, n.ip)

def nodeKey : Option NodeRef → Option (Str × List Nat)
  | some n => some n.key
  | none => none

/-- result of the node search of one round -/
inductive Found
  | crash (s : Site)
  | res (node : Option NodeRef) (cnt : Walker.Counter) (evs : List Event)

def foundOf (m : MapX) (sid : Str) (segCount : Nat) (r : Walker.WalkResult) : Found :=
  .res
    (match r.node with
     | some ip => some ⟨m, ip⟩
     | none => none)
    r.st.cnt ((r.st.errs.map (werrEvents m sid segCount)).flatten)

def walkFound (ms : Maps) (d : Delims) (s : Seg) (segCount : Nat) (cnt : Walker.Counter) (cur : NodeRef) : Found :=
  foundOf cur.map s.id segCount
    (Walker.walk ms.consts cur.map.root cur.map.rootId cnt cur.ip (segData ms cur.map d s))

/-- the `if ISA … elif GS … else walker.walk(...)` at the top of the loop body -/
def findNode (ms : Maps) (control : MapX) (d : Delims) (s : Seg) (segCount : Nat) (st : LState) : Found :=
  if s.id = Envelope.idISA then
    .res (fetchIn ms control (isaPath ms))
      (Walker.forceLoopStart st.cnt [(ms.ids.isaLoop, 0)] [(ms.ids.isaLoop, 0), (ms.ids.isa, 0)]) []
  else if s.id = Envelope.idGS then
    .res (fetchIn ms control (gsPath ms))
      (Walker.forceLoopStart st.cnt [(ms.ids.isaLoop, 0), (ms.ids.gsLoop, 0)]
        [(ms.ids.isaLoop, 0), (ms.ids.gsLoop, 0), (ms.ids.gs, 0)]) []
  else
    match st.node with
    | none => .crash .nodeNone
    | some cur => walkFound ms d s segCount st.cnt cur

/-- what the per-segment-kind branch decides: new loop state (reader errors popped), the node `is_valid` runs on, events -/
inductive Branch
  | go (st : LState) (node : NodeRef) (evs : List Event)
  | stop (o : Outcome)

def popEvents (st : LState) : List Event := st.pend.map rdEvent

def LState.popped (st : LState) : LState := { st with pend := [] }

/-- `cur_map = load_map_file(map_file, ...)`, `src.check_837_lx = cur_map.id == '837'`, then continue with `k` -/
def withNewMap (ms : Maps) (st : LState) (file : Option Str) (k : LState → MapX → Branch) : Branch :=
  match file with
  | none => .stop .mapNotFound
  | some f =>
    match findMap ms f with
    | none => .stop .mapLoadFailed
    | some m => k { st with mapFile := some f, curMap := some m, rs := { st.rs with chk837 := m.is837 } } m

/-- tail of the GS branch: `node = cur_map.getnodebypath('/ISA_LOOP/GS_LOOP/GS')`, `add_gs_loop`, `handle_errors` -/
def gsTail (ms : Maps) (d : Delims) (s : Seg) (st : LState) (m : MapX) : Branch :=
  match fetchIn ms m (gsPath ms) with
  | none => .stop (.crash .nodeNone)
  | some n => .go st.popped n (.addGs (gsData d s st.rs) :: popEvents st)

def gsBranch (ms : Maps) (d : Delims) (s : Seg) (st : LState) : Branch :=
  if st.mapFile ≠ getFilename ms.index st.icvn (gv d s 7) (gv d s 0) none ∨ st.curMap.isNone then
    withNewMap ms { st with fic := gv d s 0, vriic := gv d s 7 }
      (getFilename ms.index st.icvn (gv d s 7) (gv d s 0) none) (gsTail ms d s)
  else
    match st.curMap with
    | none => .stop (.crash .nodeNone)
    | some m => gsTail ms d s { st with fic := gv d s 0, vriic := gv d s 7 } m

/-- `errh.add_seg(node, seg, ...)`, `handle_errors` (the plain-segment branch, also the end of the BHT branch) -/
def plainTail (s : Seg) (st : LState) (n : NodeRef) : Branch :=
  .go st.popped n (.addSeg s.id st.rs.segCount none :: popEvents st)

def bhtSwitch (ms : Maps) (s : Seg) (st : LState) (m : MapX) : Branch :=
  match fetchIn ms m (bhtPath ms) with
  | none => .stop (.crash .nodeNone)
  | some n => plainTail s st n

def bhtBranch (ms : Maps) (d : Delims) (s : Seg) (st : LState) (n : NodeRef) : Branch :=
  if st.vriic = some v278a ∨ st.vriic = some v278b then
    (if st.mapFile ≠ getFilename ms.index st.icvn st.vriic st.fic (gv d s 1) then
       withNewMap ms st (getFilename ms.index st.icvn st.vriic st.fic (gv d s 1)) (bhtSwitch ms s)
     else plainTail s st n)
  else plainTail s st n

/-- the `if seg_id == 'ISA' … else` after a node was found -/
def branch (ms : Maps) (d : Delims) (s : Seg) (st : LState) (n : NodeRef) : Branch :=
  if s.id = Envelope.idISA then
    .go { st.popped with icvn := gv d s 11 } n (.addIsa (isaData d s) :: popEvents st)
  else if s.id = Envelope.idIEA then .go st.popped n (popEvents st ++ [.closeIsa])
  else if s.id = Envelope.idGS then gsBranch ms d s st
  else if s.id = sBHT then bhtBranch ms d s st n
  else if s.id = Envelope.idGE then .go st.popped n (popEvents st ++ [.closeGs (geCount (gv d s 0)) st.rs.stCount])
  else if s.id = Envelope.idST then .go st.popped n (.addSt (stData d s st.rs) :: popEvents st)
  else if s.id = Envelope.idSE then .go st.popped n (popEvents st ++ [.closeSt])
  else plainTail s st n

/-- `valid &= node.is_valid(seg, errh)` -/
def validate (ctx : Ctx) (d : Delims) (s : Seg) (matchedEvs : List Event) (popped : List RdErr) :
    Branch → Step
  | .stop o => .stop o
  | .go st n evs =>
    match lookupDef n.map n.ip with
    | none => .stop (.crash .noSegDef)
    | some sd =>
      match segEvents ctx n.map.v5010 d sd s with
      | .crash site => .stop (.crash site)
      | .ok v evs2 =>
        .next { st with node := some n, valid := st.valid && v }
          { sid := s.id, matched := true, node := some n.key, popped := popped, events := matchedEvs ++ evs ++ evs2 }

/-- after the node search: `if node is None: node = orig_node  else: …` -/
def afterFind (ms : Maps) (ctx : Ctx) (d : Delims) (s : Seg) (st : LState) : Found → Step
  | .crash site => .stop (.crash site)
  | .res none cnt evs =>
    .next { st with cnt := cnt }
      { sid := s.id, matched := false, node := nodeKey st.node, popped := [], events := evs }
  | .res (some n) cnt evs => validate ctx d s evs st.pend (branch ms d s { st with cnt := cnt } n)

def afterStep (ms : Maps) (ctx : Ctx) (control : MapX) (d : Delims) (s : Seg) (st : LState) : Step :=
  afterFind ms ctx d s st (findNode ms control d s st.rs.segCount st)

/-- after `_parse_segment` -/
def afterReader (ms : Maps) (ctx : Ctx) (control : MapX) (d : Delims) (s : Seg) (st : LState) (pend : List RdErr) :
    Envelope.Outcome (Envelope.RState × List Envelope.Err) → Step
  | .crash e => .stop (.crash (.envelope e))
  | .raised => .stop .notX12
  | .ok r => afterStep ms ctx control d s { st with rs := r.1, pend := pend ++ r.2.map envErr }

def withView (ms : Maps) (ctx : Ctx) (control : MapX) (d : Delims) (le : List SegText.RErr) (s : Seg) (st : LState) :
    Option Envelope.SegView → Step
  | none => .stop (.crash .getValue)
  | some v =>
    afterReader ms ctx control d s st (st.pend ++ le.map lineErr ++ baseErrs s) (Envelope.step Envelope.Fixes.all st.rs v)

/-- one round of `for seg in src:` (`le` = what the line wrapper reported since the previous yielded segment) -/
def stepSeg (ms : Maps) (ctx : Ctx) (control : MapX) (d : Delims) (le : List SegText.RErr) (s : Seg) (st : LState) : Step :=
  withView ms ctx control d le s st (Pipeline.viewOf d s)

/-! ### the whole run -/

structure Acc where
  st : LState
  est : ErrTree.State
  outs : List SegOut
  events : List Event

/-- how the loop ended -/
inductive LoopEnd
  | done (a : Acc)
  | stopped (o : Outcome) (a : Acc)

def pushOut (a : Acc) (st : LState) (est : ErrTree.State) (out : SegOut) : Acc :=
  { st := st, est := est, outs := a.outs ++ [out], events := a.events ++ out.events }

def runSegs (ms : Maps) (ctx : Ctx) (control : MapX) (d : Delims) : Acc → List (List SegText.RErr × Seg) → LoopEnd
  | a, [] => .done a
  | a, p :: ps =>
    match stepSeg ms ctx control d p.1 p.2 a.st with
    | .stop o => .stopped o a
    | .next st out =>
      match ErrTree.run a.est out.events with
      | .crash site => .stopped (.crash (.errTree site)) (pushOut a st a.est out)
      | .ok est => runSegs ms ctx control d (pushOut a st est out) ps

/-- which acknowledgement visitor runs: `fic != 'FA'` and the prefix of GS08 -/
inductive AckKind | none | a997 | a999
  deriving DecidableEq, Repr

def ackKind (st : LState) : AckKind :=
  if st.fic = some sFA then .none
  else
    match st.vriic with
    | none => .none
    | some v => if v.take 6 = p004010 then .a997 else if v.take 6 = p005010 then .a999 else .none

structure AckOut where
  kind : AckKind
  crash : Option Ack.ASite
  segs : List Str
  deriving DecidableEq, Repr

def ackOf (k : AckKind) (es : ErrTree.State) (p : Ack.Params) : AckOut :=
  match k with
  | .none => { kind := .none, crash := none, segs := [] }
  | .a997 => { kind := .a997, crash := (Ack.ack997 { legacy := false } es p).crash,
               segs := (Ack.ack997 { legacy := false } es p).out.map Ack.render997 }
  | .a999 => { kind := .a999, crash := (Ack.ack999 { legacy := false } es p).crash,
               segs := (Ack.ack999 { legacy := false } es p).out.map Ack.render999 }

structure DocResult where
  outcome : Outcome
  segs : List SegOut
  /-- the events fed to the error tree, in order -/
  events : List Event
  /-- the error-tree state they lead to (before the failing event list when the handler raised) -/
  final : ErrTree.State
  ackKind : AckKind

def emptyResult (o : Outcome) : DocResult :=
  { outcome := o, segs := [], events := [], final := ErrTree.State.init, ackKind := .none }

/-- what `src.cleanup(); src.pop_errors()` returns after the loop -/
def finalErrs (rr : SegText.ReadResult) (st : LState) : List RdErr :=
  st.pend ++ rr.pending.map lineErr ++ (Envelope.cleanup st.rs).map envErr

def finishDone (a : Acc) (evs : List Event) : ErrTree.Res ErrTree.State → DocResult
  | .crash site =>
    { outcome := .crash (.errTree site), segs := a.outs, events := a.events ++ evs, final := a.est, ackKind := .none }
  | .ok est =>
    { outcome := .verdict (ErrTree.verdict a.st.valid est.tree), segs := a.outs, events := a.events ++ evs,
      final := est, ackKind := ackKind a.st }

/-- `src.cleanup(); errh.handle_errors(src.pop_errors())`, the visitor choice, the verdict -/
def finish (rr : SegText.ReadResult) : LoopEnd → DocResult
  | .stopped o a => { outcome := o, segs := a.outs, events := a.events, final := a.est, ackKind := .none }
  | .done a =>
    if rr.crashed = true then
      { outcome := .crash .readerLine, segs := a.outs, events := a.events, final := a.est, ackKind := .none }
    else finishDone a ((finalErrs rr a.st).map rdEvent) (ErrTree.run a.est ((finalErrs rr a.st).map rdEvent))

def controlFile (h : Tokenizer.Header) : Str := if h.icvn = Tokenizer.v5010 then ctl501 else ctl401

def initState (ms : Maps) (control : MapX) : LState :=
  { rs := Envelope.RState.init false, pend := [], cnt := [], node := fetchIn ms control (isaPath ms),
    mapFile := some control.file, curMap := none, icvn := none, fic := none, vriic := none, valid := true }

def initAcc (ms : Maps) (control : MapX) : Acc :=
  { st := initState ms control, est := ErrTree.State.init, outs := [], events := [] }

/-- everything after the reader: a function of the delimiters, the header and the read result -/
def validateRead (ms : Maps) (ctx : Ctx) (h : Tokenizer.Header) (rr : SegText.ReadResult) : DocResult :=
  match findMap ms (controlFile h) with
  | none => emptyResult .mapLoadFailed
  | some control => finish rr (runSegs ms ctx control (SegText.delimsOf h) (initAcc ms control) rr.segs)

/-- `x12n_document(param, io.StringIO(text), fd_997, None)` -/
def validateDoc (ms : Maps) (ctx : Ctx) (text : List Char) : DocResult :=
  match SegText.readAll { rest := text, sizes := [] } with
  | .error e => emptyResult (.refused e)
  | .ok h rr => validateRead ms ctx h rr

/-- the acknowledgement written for a result (with the clock / random values the visitors read) -/
def ackFor (r : DocResult) (p : Ack.Params) : AckOut := ackOf r.ackKind r.final p

/-! ### derived views -/

/-- validation error as the flattened tree shows it: code, element position, sub position, value -/
structure ValErr where
  code : Str
  pos : Nat
  sub : Option Nat
  value : Option Str
  deriving DecidableEq, Repr

/-- `ele_error` attaches to the `cur_ele_node` prepared by the latest `add_ele`; (0, none) when none was prepared
    in this list -/
def valErrsFrom : Nat → Option Nat → List Event → List ValErr
  | _, _, [] => []
  | _, _, .addEle p s _ :: r => valErrsFrom p s r
  | p, s, .eleError c _ v :: r => ⟨c, p, s, v⟩ :: valErrsFrom p s r
  | p, s, .addIsa _ :: r => valErrsFrom p s r
  | p, s, .addGs _ :: r => valErrsFrom p s r
  | p, s, .addSt _ :: r => valErrsFrom p s r
  | p, s, .addSeg _ _ _ :: r => valErrsFrom p s r
  | p, s, .isaError _ :: r => valErrsFrom p s r
  | p, s, .gsError _ :: r => valErrsFrom p s r
  | p, s, .stError _ :: r => valErrsFrom p s r
  | p, s, .segError _ _ :: r => valErrsFrom p s r
  | p, s, .closeSt :: r => valErrsFrom p s r
  | p, s, .closeGs _ _ :: r => valErrsFrom p s r
  | p, s, .closeIsa :: r => valErrsFrom p s r

def SegOut.valErrs (o : SegOut) : List ValErr := valErrsFrom 0 none o.events

def isErrorEvent : Event → Bool
  | .isaError _ => true
  | .gsError _ => true
  | .stError _ => true
  | .segError _ _ => true
  | .eleError _ _ _ => true
  | _ => false

end Pyx12Verif.Doc
