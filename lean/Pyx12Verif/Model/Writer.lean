/-
Model of `pyx12/x12file.py`, class `X12Writer`:

  X12Writer.__init__              -> `Cfg` (the four delimiters + eol) and `RState.init false`
  X12Base._parse_segment          -> `Envelope.baseStep Fixes.all` on `viewOf` (the element values it consults)
  X12Writer.Write                 -> `write`     (= `viewOf`, `baseStep`, then `emitFor`)
  X12Writer._popToLoop            -> `popTo` / `popToLoop`
  X12Writer._close_loop/_close_*  -> `closeLoop`
  X12Writer._get_trailer_segment  -> `trailerText` / `trailerSeg`
  X12Writer._write_isa_segment    -> `isaOut`
  X12Writer.Close                 -> `close`
  X12Writer._write_segment        -> the segments are collected in order; `render` prints them
                                      (`Segment.format(seg_term, ele_term, subele_term) + eol`)

The writer state is the `RState` of the shared base class (`loops` top first, the counters, the id lists).
A segment is plain data (`SegText.Seg`: id + elements, each a list of component values); it is assumed to have been
built with the writer's own delimiters (as all callers in pyx12 do), so a `Composite`'s own separator is `d.sub`
(`d.ele` inside an ISA segment).  Not modelled: `err_list` (the writer never reports it), `cur_line`, `isa_usage`,
a segment object built from the empty string (`seg_id None`).

What happens to a trailer the stack cannot match is not an exception in this code, it is a silent outcome of
`popTo`: with an empty stack nothing is written at all; with a stack that does not contain the wanted kind every open
envelope is closed (e.g. `GE` directly inside `ISA` writes the `IEA`).  See `Props/C11.lean` (`orphan_*`).
-/
import Pyx12Verif.Model.Envelope
import Pyx12Verif.Model.SegText

namespace Pyx12Verif.Writer
open Pyx12Verif.Envelope (RState SegView Kind Fixes Str idISA idIEA idGS idGE idST idSE idHL idLX decimal)
open Pyx12Verif.SegText (Seg Delims)

/-! ### outcomes -/

inductive Exc
  | base (e : Envelope.Exc)   -- an exception of `X12Base._parse_segment` (none is left after the guard fixes)
  | unboundLocal              -- `Composite.format` on a composite without any component (not constructible by parsing)
  deriving DecidableEq, Repr

inductive Outcome (α : Type)
  | ok (a : α)
  | raised            -- pyx12.errors.X12Error raised on purpose (ISA without 16 elements): nothing is written
  | crash (e : Exc)
  deriving DecidableEq, Repr

def Outcome.bind {α β : Type} : Outcome α → (α → Outcome β) → Outcome β
  | .ok a, f => f a
  | .raised, _ => .raised
  | .crash e, _ => .crash e

def lift {α : Type} : Envelope.Outcome α → Outcome α
  | .ok a => .ok a
  | .raised => .raised
  | .crash e => .crash (.base e)

/-- constructor arguments of `X12Writer` -/
structure Cfg where
  d : Delims
  rep : Char
  eol : List Char
  deriving DecidableEq, Repr

/-! ### the element values `_parse_segment` reads -/

/-- `seg_data.get_value('<id>NN')` for element index `i` (0-based): `None` beyond the last element, else the
composite printed with its own separator `term` -/
def getValue (term : Char) (s : Seg) (i : Nat) : Outcome (Option Str) :=
  match s.elems[i]? with
  | none => .ok none
  | some c =>
    match SegText.formatComp term c with
    | none => .crash .unboundLocal
    | some v => .ok (some v)

def viewISA (d : Delims) (s : Seg) : Outcome SegView :=
  if s.elems.length = 16 then
    (getValue d.ele s 12).bind fun c => (getValue d.ele s 14).bind fun _ => .ok ⟨s.id, none, c, true⟩
  else .ok ⟨s.id, none, none, false⟩

def viewHL (d : Delims) (s : Seg) : Outcome SegView :=
  (getValue d.sub s 0).bind fun n => (getValue d.sub s 1).bind fun p => .ok ⟨s.id, n, p, false⟩

/-- what `X12Base._parse_segment` consults of a segment -/
def viewOf (d : Delims) (chk : Bool) (s : Seg) : Outcome SegView :=
  if s.id = idISA then viewISA d s
  else if s.id = idGS then (getValue d.sub s 5).bind fun c => .ok ⟨s.id, none, c, false⟩
  else if s.id = idST then (getValue d.sub s 1).bind fun c => .ok ⟨s.id, none, c, false⟩
  else if s.id = idHL then viewHL d s
  else if chk = true ∧ s.id = idLX then (getValue d.sub s 0).bind fun n => .ok ⟨s.id, n, none, false⟩
  else .ok ⟨s.id, none, none, false⟩

/-! ### generated trailers -/

def noneText : Str := ['N', 'o', 'n', 'e']

/-- `'{id}'.format(id=loop_id)`: a header without control-number element gave `None` -/
def ctlText : Option Str → Str
  | none => noneText
  | some c => c

/-- `'{seg_id}{ele_term}{count:d}{ele_term}{id}'` -/
def trailerText (e : Char) (id : Str) (count : Nat) (ctl : Option Str) : Str :=
  id ++ e :: (decimal count ++ e :: ctlText ctl)

/-- `pyx12.segment.Segment(seg_str, seg_term, ele_term, subele_term)`; the text is never empty, the `none` branch
(a `Segment` with `seg_id None`, printed `None<ele><term>`) is unreachable -/
def trailerSeg (d : Delims) (id : Str) (count : Nat) (ctl : Option Str) : Seg :=
  match SegText.parseSeg d (trailerText d.ele id count ctl) with
  | none => ⟨noneText, []⟩
  | some s => s

/-- `_close_loop` on the popped entry: the trailer from the running count and the header's control number; the count
is reset -/
def closeLoop (d : Delims) (s : RState) (top : Kind × Option Str) : RState × Seg :=
  match top.1 with
  | .isa => ({ s with gsCount := 0 }, trailerSeg d idIEA s.gsCount top.2)
  | .gs => ({ s with stCount := 0 }, trailerSeg d idGE s.stCount top.2)
  | .st => ({ s with segCount := 0 }, trailerSeg d idSE (s.segCount + 1) top.2)

/-- `_popToLoop(kind)` over the stack `loops` (top first, always the stack of the state passed along): pop an entry
and close it, until an entry of the wanted kind has been closed; an empty stack ends the loop -/
def popTo (d : Delims) (k : Kind) : List (Kind × Option Str) → RState → RState × List Seg
  | [], s => (s, [])
  | top :: r, s =>
    if top.1 = k then ((closeLoop d { s with loops := r } top).1, [(closeLoop d { s with loops := r } top).2])
    else ((popTo d k r (closeLoop d { s with loops := r } top).1).1,
          (closeLoop d { s with loops := r } top).2 :: (popTo d k r (closeLoop d { s with loops := r } top).1).2)

def popToLoop (d : Delims) (k : Kind) (s : RState) : RState × List Seg := popTo d k s.loops s

/-! ### ISA and LX rewriting -/

def v5010 : Str := ['0', '0', '5', '0', '1']

/-- `if icvn == '00501': seg_data.set('ISA11', repetition_term)` (a `Composite` split at the component separator);
`seg_data.set('ISA16', subele_term)` (a `Composite` split at the element separator).  Only reached with 16 elements,
so `set` never pads. -/
def isaOut (c : Cfg) (s : Seg) (icvn : Option Str) : Seg :=
  ⟨s.id, ((if icvn = some v5010 then s.elems.set 10 (SegText.splitOn c.d.sub [c.rep]) else s.elems).set 15
            (SegText.splitOn c.d.ele [c.d.sub]))⟩

/-- `seg_data.set('01', val)`: pad to one element, replace the first -/
def setFirst (es : List (List (List Char))) (c : List (List Char)) : List (List (List Char)) :=
  match es with
  | [] => [c]
  | _ :: r => c :: r

def lxOut (d : Delims) (s : Seg) (n : Nat) : Seg := ⟨s.id, setFirst s.elems (SegText.splitOn d.sub (decimal n))⟩

/-! ### Write / Close -/

/-- the part of `Write` after `_parse_segment`; `s` is the state `_parse_segment` left -/
def emitFor (c : Cfg) (s : RState) (seg : Seg) : Outcome (RState × List Seg) :=
  if seg.id = idIEA then .ok (popToLoop c.d .isa s)
  else if seg.id = idGE then .ok (popToLoop c.d .gs s)
  else if seg.id = idSE then .ok (popToLoop c.d .st s)
  else if s.chk837 = true ∧ seg.id = idLX then .ok (s, [lxOut c.d seg s.lxCount])
  else if seg.id = idISA then (getValue c.d.ele seg 11).bind fun icvn => .ok (s, [isaOut c seg icvn])
  else .ok (s, [seg])

/-- `X12Writer.Write(seg)`: new state and the segments handed to `_write_segment`, in order -/
def write (c : Cfg) (s : RState) (seg : Seg) : Outcome (RState × List Seg) :=
  (viewOf c.d s.chk837 seg).bind fun v =>
    (lift (Envelope.baseStep Fixes.all s v)).bind fun r => emitFor c r.1 seg

/-- `X12Writer.Close()` -/
def close (c : Cfg) (s : RState) : RState × List Seg := popToLoop c.d .isa s

/-- a sequence of `Write` calls -/
def writeAll (c : Cfg) : RState → List Seg → Outcome (RState × List Seg)
  | s, [] => .ok (s, [])
  | s, seg :: r => (write c s seg).bind fun a => (writeAll c a.1 r).bind fun b => .ok (b.1, a.2 ++ b.2)

/-- `X12Writer(...)`, the `Write` calls of a history, `Close()`: everything handed to `_write_segment` -/
def session (c : Cfg) (h : List Seg) : Outcome (List Seg) :=
  (writeAll c (RState.init false) h).bind fun a => .ok (a.2 ++ (close c a.1).2)

/-- the text on the stream: each segment printed with the writer's delimiters, followed by `eol`;
`none` = `Composite.format` raised (a composite without components) -/
def render (c : Cfg) (segs : List Seg) : Option (List Char) := SegText.encode c.d c.eol segs

end Pyx12Verif.Writer
