/-
Model of the envelope bookkeeping of pyx12/x12file.py:

  X12Base._parse_segment   -> `baseStep`     (shared by X12Reader and X12Writer)
  X12Base._int             -> `pyIntArg` / `pyInt`
  X12Reader._parse_segment -> `step`         (= `baseStep`, then `trailerStep`)
  X12Reader.cleanup        -> `cleanup`
  `for seg in reader: pop_errors()` … `cleanup(); pop_errors()` -> `run`

A segment is seen through `SegView`: its identifier and the few element strings the code consults,
`none` = the element is absent (`Segment.get_value` returns `None`).
    ISA : ctl = ISA13, n16 = (len(seg) == 16)        IEA : cnt = IEA01, ctl = IEA02
    GS  : ctl = GS06                                 GE  : cnt = GE01,  ctl = GE02
    ST  : ctl = ST02                                 SE  : cnt = SE01,  ctl = SE02
    HL  : cnt = HL01, ctl = HL02                     LX  : cnt = LX01
Python lists used as stacks (`loops`, `hl_stack`) are stored top first: `loops[-1]` is the head.
`cur_line`, `isa_usage` and the terminators are not modelled: on well-formed segments (non-empty,
valid identifier, no leading blank / trailing separator — the tokeniser's business, C01) they are
consulted by no envelope check.

The three crash defects of the unchanged code are kept in the model behind `Fixes` flags, so that the
same definitions describe the code before (`Fixes.none`) and after (`Fixes.all`) the guard patches:
    d5  : trailer handling guards an empty `loops` stack (else IndexError)
    d6  : `_int` also catches TypeError (`int(None)`)
    d34 : the HL2 message no longer formats a non-integer parent with `{:d}` (else TypeError)
-/
namespace Pyx12Verif.Envelope

abbrev Str := List Char

/-! ### Python `int(str)` (`X12Base._int`), for every string

CPython reads `int(s)` in two steps (`PyLong_FromUnicodeObject`):
  1. `_PyUnicode_TransformDecimalAndSpaceToASCII` -> `toAscii`: a character below U+007F is kept; any other character
     becomes a blank when `str.isspace()` holds for it, the ASCII digit of its value when it is a Unicode decimal digit
     (general category Nd), and otherwise `?` -- and the text is cut there;
  2. `PyLong_FromString` on the ASCII text -> `signedInt (dropSpace _)`: skip `\t \n \v \f \r` and blank, an optional
     sign, digits with single `_` between digits, trailing blanks; more than 4300 digits is a ValueError.
So U+001C..U+001F (for which `isspace` holds, but which step 1 keeps and step 2 does not skip) are NOT skipped, while
U+0085, U+00A0, U+2028 ... are.  The two tables below are those of the Python that runs the checks (3.12, Unicode
15.0.0): `str.isspace` and `unicodedata.decimal` over all code points; the C04 harness re-derives both on every run. -/

def isDigit (c : Char) : Bool := '0' ≤ c && c ≤ '9'
def digitVal (c : Char) : Nat := c.toNat - '0'.toNat

/-- the characters `PyLong_FromString` skips around an ASCII literal (`Py_ISSPACE`): `\t \n \v \f \r` and blank -/
def isIntSpace (c : Char) : Bool :=
  c == ' ' || c == '\t' || c == '\n' || c == '\x0b' || c == '\x0c' || c == '\r'

/-- `str.isspace()`: the 29 code points, as 10 inclusive ranges -/
def pySpaceRanges : List (Nat × Nat) :=
  [(0x9, 0xD), (0x1C, 0x20), (0x85, 0x85), (0xA0, 0xA0), (0x1680, 0x1680), (0x2000, 0x200A), (0x2028, 0x2029),
   (0x202F, 0x202F), (0x205F, 0x205F), (0x3000, 0x3000)]

def inRanges : List (Nat × Nat) → Nat → Bool
  | [], _ => false
  | p :: r, n => (p.1 ≤ n && n ≤ p.2) || inRanges r n

/-- `c.isspace()` -/
def isPySpace (c : Char) : Bool := inRanges pySpaceRanges c.toNat

/-- the Unicode decimal digits (Nd) come in 68 runs of ten consecutive code points `zero .. zero + 9` with the values
`0 .. 9`; these are the zeros -/
def pyDigitZeros : List Nat :=
  [0x30, 0x660, 0x6F0, 0x7C0, 0x966, 0x9E6, 0xA66, 0xAE6, 0xB66, 0xBE6, 0xC66, 0xCE6, 0xD66, 0xDE6, 0xE50,
   0xED0, 0xF20, 0x1040, 0x1090, 0x17E0, 0x1810, 0x1946, 0x19D0, 0x1A80, 0x1A90, 0x1B50, 0x1BB0, 0x1C40,
   0x1C50, 0xA620, 0xA8D0, 0xA900, 0xA9D0, 0xA9F0, 0xAA50, 0xABF0, 0xFF10, 0x104A0, 0x10D30, 0x11066, 0x110F0,
   0x11136, 0x111D0, 0x112F0, 0x11450, 0x114D0, 0x11650, 0x116C0, 0x11730, 0x118E0, 0x11950, 0x11C50, 0x11D50,
   0x11DA0, 0x11F50, 0x16A60, 0x16AC0, 0x16B50, 0x1D7CE, 0x1D7D8, 0x1D7E2, 0x1D7EC, 0x1D7F6, 0x1E140, 0x1E2F0,
   0x1E4F0, 0x1E950, 0x1FBF0]

def digitIn : List Nat → Nat → Option Nat
  | [], _ => none
  | z :: r, n => if z ≤ n ∧ n < z + 10 then some (n - z) else digitIn r n

/-- `unicodedata.decimal(c, None)` = `int(c)` for a single character -/
def pyDigitVal (c : Char) : Option Nat := digitIn pyDigitZeros c.toNat

def asciiOfDigit : Option Nat → Option Char
  | none => none
  | some d => some (Nat.digitChar d)

/-- what step 1 writes for one character; `none` = not convertible -/
def asciiOf (c : Char) : Option Char :=
  if c.toNat < 127 then some c
  else if isPySpace c then some ' '
  else asciiOfDigit (pyDigitVal c)

def toAsciiStep (rest : Str) : Option Char → Str
  | none => ['?']
  | some a => a :: rest

/-- `_PyUnicode_TransformDecimalAndSpaceToASCII` (ASCII texts are returned unchanged) -/
def toAscii : Str → Str
  | [] => []
  | c :: r => toAsciiStep (toAscii r) (asciiOf c)

def dropSpace : Str → Str
  | [] => []
  | c :: r => if isIntSpace c then dropSpace r else c :: r

def allSpace : Str → Bool
  | [] => true
  | c :: r => isIntSpace c && allSpace r

/-- digits, single `_` only between digits, optional trailing blanks up to the end of the text.
`us` = the previous character was `_`.  Returns (value, number of digits). -/
def scanDigits : Bool → Nat → Nat → Str → Option (Nat × Nat)
  | us, acc, n, [] => if us then none else some (acc, n)
  | us, acc, n, c :: r =>
    if isDigit c then scanDigits false (acc * 10 + digitVal c) (n + 1) r
    else if c = '_' then (if us then none else scanDigits true acc n r)
    else if isIntSpace c then (if us then none else if allSpace r then some (acc, n) else none)
    else none

def startDigits : Str → Option (Nat × Nat)
  | [] => none
  | c :: r => if isDigit c then scanDigits false (digitVal c) 1 r else none

/-- `sys.get_int_max_str_digits()` default: longer decimal literals raise ValueError -/
def maxStrDigits : Nat := 4300

def finishInt (neg : Bool) : Option (Nat × Nat) → Option Int
  | none => none
  | some (v, n) => if n > maxStrDigits then none else some (if neg then - (v : Int) else (v : Int))

def signedInt : Str → Option Int
  | [] => none
  | c :: r =>
    if c = '-' then finishInt true (startDigits r)
    else if c = '+' then finishInt false (startDigits r)
    else finishInt false (startDigits (c :: r))

/-- step 2 alone: `int(s)` for a text that step 1 leaves unchanged (every character below U+007F) -/
def pyIntAscii (s : Str) : Option Int := signedInt (dropSpace s)

/-- `int(s)` for any `s`: `some v`, or `none` for ValueError (which `_int` turns into `None`) -/
def pyInt (s : Str) : Option Int := pyIntAscii (toAscii s)

/-! ### data -/

inductive Err
  | isa025 | isa024 | isa001 | isa021 | isa023
  | gs6 | gs3 | gs4 | gs5
  | st23 | st3 | st4 | st2
  | hl1 | hl2 | lx
  deriving DecidableEq, Repr

inductive Exc | indexError | typeError
  deriving DecidableEq, Repr

inductive Outcome (α : Type)
  | ok (a : α)
  | raised            -- pyx12.errors.X12Error raised on purpose (ISA without 16 elements)
  | crash (e : Exc)   -- an unintended Python exception
  deriving DecidableEq, Repr

def Outcome.bind {α β : Type} : Outcome α → (α → Outcome β) → Outcome β
  | .ok a, f => f a
  | .raised, _ => .raised
  | .crash e, _ => .crash e

structure Fixes where
  d5 : Bool
  d6 : Bool
  d34 : Bool
  deriving DecidableEq, Repr

def Fixes.all : Fixes := ⟨true, true, true⟩
def Fixes.none : Fixes := ⟨false, false, false⟩

inductive Kind | isa | gs | st
  deriving DecidableEq, Repr

structure SegView where
  id : Str
  cnt : Option Str
  ctl : Option Str
  n16 : Bool
  deriving DecidableEq, Repr

structure RState where
  loops : List (Kind × Option Str)
  hlStack : List Nat
  gsCount : Nat
  stCount : Nat
  hlCount : Nat
  segCount : Nat
  lxCount : Nat
  isaIds : List (Option Str)
  gsIds : List (Option Str)
  stIds : List (Option Str)
  chk837 : Bool
  deriving DecidableEq, Repr

/-- `X12Base.__init__` (with `check_837_lx` as set by the caller afterwards) -/
def RState.init (chk : Bool) : RState :=
  { loops := [], hlStack := [], gsCount := 0, stCount := 0, hlCount := 0, segCount := 0, lxCount := 0,
    isaIds := [], gsIds := [], stIds := [], chk837 := chk }

def idISA : Str := ['I', 'S', 'A']
def idIEA : Str := ['I', 'E', 'A']
def idGS : Str := ['G', 'S']
def idGE : Str := ['G', 'E']
def idST : Str := ['S', 'T']
def idSE : Str := ['S', 'E']
def idHL : Str := ['H', 'L']
def idLX : Str := ['L', 'X']
def idCLM : Str := ['C', 'L', 'M']

/-- `seg_id in ('ISA', 'IEA', 'GS', 'GE', 'ST', 'SE')` -/
def isEnvId (i : Str) : Bool :=
  i == idISA || i == idIEA || i == idGS || i == idGE || i == idST || i == idSE

/-! ### X12Base._parse_segment -/

/-- `self._int(seg_data.get_value(..))`: `int(None)` is a TypeError, caught only after fix d6 -/
def pyIntArg (fx : Fixes) : Option Str → Outcome (Option Int)
  | none => if fx.d6 then .ok none else .crash .typeError
  | some t => .ok (pyInt t)

def baseIsa (s : RState) (v : SegView) : Outcome (RState × List Err) :=
  if v.n16 = false then .raised
  else .ok ({ s with loops := (Kind.isa, v.ctl) :: s.loops, isaIds := v.ctl :: s.isaIds,
                     gsCount := 0, gsIds := [] },
            if v.ctl ∈ s.isaIds then [Err.isa025] else [])

def baseGs (s : RState) (v : SegView) : RState × List Err :=
  ({ s with gsCount := s.gsCount + 1, gsIds := v.ctl :: s.gsIds, loops := (Kind.gs, v.ctl) :: s.loops,
            stCount := 0, stIds := [] },
   if v.ctl ∈ s.gsIds then [Err.gs6] else [])

def baseSt (s : RState) (v : SegView) : RState × List Err :=
  ({ s with hlStack := [], hlCount := 0, stCount := s.stCount + 1, stIds := v.ctl :: s.stIds,
            loops := (Kind.st, v.ctl) :: s.loops, segCount := 1 },
   if v.ctl ∈ s.stIds then [Err.st23] else [])

/-- a Python `int` that is a count kept by the reader -/
def natInt (n : Nat) : Int := Int.ofNat n

theorem natInt_inj {a b : Nat} (h : natInt a = natInt b) : a = b := Int.ofNat.inj h
theorem natInt_toNat (n : Nat) : (natInt n).toNat = n := rfl

/-- `hl_parent in self.hl_stack` (an `int` or `None` against a list of `int`) -/
def inStack (p : Option Int) (st : List Nat) : Bool :=
  match p with
  | none => false
  | some i => decide (i ∈ st.map natInt)

/-- `while self.hl_stack and hl_parent != self.hl_stack[-1]: del self.hl_stack[-1]` -/
def popUntil (p : Option Int) : List Nat → List Nat
  | [] => []
  | k :: r => if p = some (natInt k) then k :: r else popUntil p r

/-- the HL02 part of the HL branch; `s.hlCount` is already incremented -/
def hlParent (fx : Fixes) (s : RState) (v : SegView) (es : List Err) : Outcome (RState × List Err) :=
  if v.ctl = some [] then .ok ({ s with hlStack := s.hlCount :: s.hlStack }, es)
  else (pyIntArg fx v.ctl).bind fun p =>
    if inStack p s.hlStack = true then
      .ok ({ s with hlStack := s.hlCount :: popUntil p s.hlStack }, es)
    else if p = none ∧ fx.d34 = false then .crash .typeError
    else .ok ({ s with hlStack := s.hlCount :: popUntil p s.hlStack }, es ++ [Err.hl2])

def baseHl (fx : Fixes) (s : RState) (v : SegView) : Outcome (RState × List Err) :=
  (pyIntArg fx v.cnt).bind fun n =>
    hlParent fx { s with hlCount := s.hlCount + 1 } v
      (if n = some (natInt (s.hlCount + 1)) then [] else [Err.hl1])

/-- `'{:d}'.format(n)` -/
def decimal (n : Nat) : Str := Nat.toDigits 10 n

def baseLx (s : RState) (v : SegView) : RState × List Err :=
  ({ s with lxCount := s.lxCount + 1 },
   if v.cnt = some (decimal (s.lxCount + 1)) then [] else [Err.lx])

def baseBranch (fx : Fixes) (s : RState) (v : SegView) : Outcome (RState × List Err) :=
  if v.id = idISA then baseIsa s v
  else if v.id = idGS then .ok (baseGs s v)
  else if v.id = idST then .ok (baseSt s v)
  else if v.id = idHL then baseHl fx s v
  else if s.chk837 = true ∧ v.id = idCLM then .ok ({ s with lxCount := 0 }, [])
  else if s.chk837 = true ∧ v.id = idLX then .ok (baseLx s v)
  else .ok (s, [])

/-- `if seg_id not in (...): self.seg_count += 1` -/
def countSeg (v : SegView) (s : RState) : RState :=
  if isEnvId v.id = true then s else { s with segCount := s.segCount + 1 }

def baseStep (fx : Fixes) (s : RState) (v : SegView) : Outcome (RState × List Err) :=
  (baseBranch fx s v).bind fun r => .ok (countSeg v r.1, r.2)

/-! ### X12Reader._parse_segment (trailers) -/

/-- final `del self.loops[-1]` -/
def popLoop (fx : Fixes) (s : RState) (es : List Err) : Outcome (RState × List Err) :=
  match s.loops with
  | [] => if fx.d5 then .ok (s, es) else .crash .indexError
  | _ :: r => .ok ({ s with loops := r }, es)

/-- `if self._int(<count element>) != <my count>: error`, then the final pop -/
def checkCount (fx : Fixes) (s : RState) (es : List Err) (cnt : Option Str) (expected : Nat) (e : Err) :
    Outcome (RState × List Err) :=
  (pyIntArg fx cnt).bind fun n =>
    popLoop fx s (if n = some (natInt expected) then es else es ++ [e])

/-- `if self.loops[-1][1] != <control number element>: error` (IEA, GE) -/
def checkId (fx : Fixes) (s : RState) (es : List Err) (v : SegView) (eId eCnt : Err) (expected : Nat) :
    Outcome (RState × List Err) :=
  match s.loops with
  | [] => if fx.d5 then checkCount fx s (es ++ [eId]) v.cnt expected eCnt else .crash .indexError
  | top :: _ => checkCount fx s (if top.2 = v.ctl then es else es ++ [eId]) v.cnt expected eCnt

/-- IEA / GE: `if self.loops[-1][0] != kind: error; del self.loops[-1]`, then id, count, pop -/
def closeEnv (fx : Fixes) (k : Kind) (eOpen eId eCnt : Err) (expected : Nat) (s : RState) (v : SegView) :
    Outcome (RState × List Err) :=
  match s.loops with
  | [] => if fx.d5 then checkId fx s [] v eId eCnt expected else .crash .indexError
  | top :: r =>
    if top.1 = k then checkId fx s [] v eId eCnt expected
    else checkId fx { s with loops := r } [eOpen] v eId eCnt expected

/-- SE: one combined test of kind and control number, no extra pop -/
def closeSet (fx : Fixes) (s : RState) (v : SegView) : Outcome (RState × List Err) :=
  match s.loops with
  | [] => if fx.d5 then checkCount fx s [Err.st3] v.cnt (s.segCount + 1) Err.st4 else .crash .indexError
  | top :: _ =>
    checkCount fx s (if top.1 = Kind.st ∧ top.2 = v.ctl then [] else [Err.st3]) v.cnt (s.segCount + 1) Err.st4

def trailerStep (fx : Fixes) (s : RState) (v : SegView) : Outcome (RState × List Err) :=
  if v.id = idIEA then closeEnv fx Kind.isa Err.isa024 Err.isa001 Err.isa021 s.gsCount s v
  else if v.id = idGE then closeEnv fx Kind.gs Err.gs3 Err.gs4 Err.gs5 s.stCount s v
  else if v.id = idSE then closeSet fx s v
  else .ok (s, [])

/-- one iteration of `for seg in reader:` followed by `pop_errors()` -/
def step (fx : Fixes) (s : RState) (v : SegView) : Outcome (RState × List Err) :=
  (baseStep fx s v).bind fun r => (trailerStep fx r.1 v).bind fun q => .ok (q.1, r.2 ++ q.2)

/-! ### X12Reader.cleanup -/

def cleanupErr : Kind × Option Str → Err
  | (Kind.st, _) => Err.st2
  | (Kind.gs, _) => Err.gs3
  | (Kind.isa, _) => Err.isa023

/-- `for (seg, id1) in self.loops:` runs bottom to top -/
def cleanup (s : RState) : List Err := s.loops.reverse.map cleanupErr

/-! ### whole runs -/

/-- errors popped after each segment -/
def runSegs (fx : Fixes) : RState → List SegView → Outcome (RState × List (List Err))
  | s, [] => .ok (s, [])
  | s, v :: r => (step fx s v).bind fun a => (runSegs fx a.1 r).bind fun b => .ok (b.1, a.2 :: b.2)

/-- all segments, then `cleanup()`; one error list per segment and a last one for `cleanup` -/
def run (fx : Fixes) (chk : Bool) (segs : List SegView) : Outcome (List (List Err)) :=
  (runSegs fx (RState.init chk) segs).bind fun a => .ok (a.2 ++ [cleanup a.1])

def Outcome.isCrash {α : Type} : Outcome α → Bool
  | .crash _ => true
  | _ => false

/-- the flat error list of a run (empty when the run did not complete) -/
def errs : Outcome (List (List Err)) → List Err
  | .ok l => l.flatten
  | _ => []

end Pyx12Verif.Envelope
