/-
END-TO-END model of the two output sinks of `pyx12/x12n_document.py : x12n_document`, obtained by running the finished
end-to-end validation model (`Model/Document.lean : validateDoc`) and feeding its per-segment results into the finished
sink models exactly as the glue code drives the real sinks:

  XML    `xmldoc = x12xml_simple(fd_xmldoc, '')` before the loop, `xmldoc.seg(node, seg)` at the end of every round
         (ALSO when the walker found no node: `node` is then the node of the previous round), `del xmldoc` after the
         loop                                                        -> `Model/XmlOut.lean` (state machine, `render`)
  HTML   `html.header()`; per round `html.loop(node.get_parent())` when `node.is_first_seg_in_loop()`, the `err_iter`
         drain loop, `html.gen_seg(seg, src, err_node_list)`; after the loop and after
         `errh.handle_errors(src.pop_errors())`: `html.footer()`      -> `Model/HtmlOut.lean` (`report`), `Model/ErrIter.lean`
                                                                         (`drainV`, `genSeg` selection, `footer`)

What is read off a map node here (not part of the finished models):
  * `parent.get_path()` of the enclosing loop  = the identifiers of the loops on the index path of the node (`loopsTo`,
    strings through the interning table of the map);
  * `seg_node.is_first_seg_in_loop()`          = the node is child 0 of its loop (last index of the path is 0);
  * `loop_node.type != 'wrapper'`              = the skeleton's `wrapper` flag;
  * the part of a segment node `x12xml_simple.seg` reads (`xmlDef`): ids, `seq`, `usage == 'N'`.
Context that no finished model carries (`SinkCtx`): `loop_node.name` (map text), the message TEXT of the errors stored in
`node.errors` of the error tree (reader / envelope / walker messages; the tree model keeps their codes only), the
`time.strftime` text of the header.

`x12xml_simple.seg` is modelled AS IT IS NOW (after `fix: the XML sink stops at elements the map does not define`):
`child_node is None: break` / `subele_node is None: break` (`…G` definitions below).  `Model/XmlOut.lean` has the
pre-fix behaviour (AttributeError) at these two places; wherever that model succeeds the two agree
(`Proofs/DocSinksXml.lean : run_agrees`).

`none` = the run does not complete (`x12n_document` returns before the loop, or raises — in validation or in the sink),
or (model only) a node of the result has no definition / no name in `Maps`.
-/
import Pyx12Verif.Model.Document
import Pyx12Verif.Model.XmlOut
import Pyx12Verif.Model.HtmlOut
import Pyx12Verif.Model.ErrIter

namespace Pyx12Verif.Doc
open Pyx12Verif

/-! ### map facts the sinks read -/

/-- the string an interned number stands for in map `m` -/
def strOf (m : MapX) (n : Nat) : Option Str :=
  match m.intern.find? (fun p => p.2 == n) with
  | some p => some p.1
  | none => none

def consOpt {α : Type} (a : α) : Option (List α) → Option (List α)
  | none => none
  | some l => some (a :: l)

/-- one step down: a segment node must end the index path, a loop node must not; `k` continues below a loop -/
def loopsNode (rest : List Nat) (k : List MapSkel.Node → Option (List (Nat × Bool))) : MapSkel.Node → Option (List (Nat × Bool))
  | .seg .. => if rest.isEmpty then some [] else none
  | .loop lid _ _ _ w ch => if rest.isEmpty then none else consOpt (lid, w) (k ch)

/-- (loop id, `type == 'wrapper'`) of the loops passed on the way to the SEGMENT node at an index path, outermost first -/
def loopsTo : List MapSkel.Node → List Nat → Option (List (Nat × Bool))
  | _, [] => none
  | ns, i :: r =>
    match ns[i]? with
    | none => none
    | some n => loopsNode r (fun ch => loopsTo ch r) n

def strsOf (m : MapX) : List (Nat × Bool) → Option (List Str)
  | [] => some []
  | p :: r =>
    match strOf m p.1 with
    | none => none
    | some s => consOpt s (strsOf m r)

/-- `seg_node.is_first_seg_in_loop()`: the node is the first child (position order) of its parent -/
def isFirst (ip : List Nat) : Bool := ip.getLast? == some 0

/-! ### the XML sink -/

def xmlChild : ChildX → Xml.ChildDef
  | .elem x => .elem x.d.seq x.refdes (decide (x.d.usage = .N))
  | .comp u seq _ _ _ kids => .comp seq (decide (u = .N)) (kids.map (fun k => k.refdes))

/-- what `x12xml_simple.seg` reads of a segment node -/
def xmlDef (sd : SegDef) : Xml.SegDef := ⟨sd.sid, sd.children.map xmlChild⟩

/-- a node of the result as the sinks see it -/
structure NodeView where
  file : Str
  ip : List Nat
  map : MapX
  sd : SegDef
  loops : List (Nat × Bool)
  /-- `_path_list(parent.get_path())` -/
  path : List Str

def viewFrom (file : Str) (ip : List Nat) (m : MapX) (sd : SegDef) (loops : List (Nat × Bool)) :
    Option (List Str) → Option NodeView
  | none => none
  | some p => some { file := file, ip := ip, map := m, sd := sd, loops := loops, path := p }

def viewLoops (file : Str) (ip : List Nat) (m : MapX) (sd : SegDef) : Option (List (Nat × Bool)) → Option NodeView
  | none => none
  | some l => viewFrom file ip m sd l (strsOf m l)

def viewDef (file : Str) (ip : List Nat) (m : MapX) : Option SegDef → Option NodeView
  | none => none
  | some sd => viewLoops file ip m sd (loopsTo m.root ip)

def viewMap (file : Str) (ip : List Nat) : Option MapX → Option NodeView
  | none => none
  | some m => viewDef file ip m (lookupDef m ip)

/-- `node` at the end of a round (`none`: `node` is `None` — not reachable — or `Maps` lacks something) -/
def nodeView (ms : Maps) : Option (Str × List Nat) → Option NodeView
  | none => none
  | some k => viewMap k.1 k.2 (findMap ms k.1)

/-- the `Segment` object handed to the sinks -/
def segObjOf (d : Delims) (s : Seg) : Segment.SegObj := Segment.ofSeg d.ele d.sub s

def xmlStepOf (d : Delims) (s : Seg) (v : NodeView) : Xml.Step :=
  { path := v.path, first := isFirst v.ip, node := xmlDef v.sd, seg := segObjOf d s }

/-! #### `x12xml_simple.seg` as it is now (the two `break`s) -/
namespace XmlG
open Pyx12Verif.Xml Pyx12Verif.Segment

/-- `for j in range(len(comp_data)): subele_node = …; if subele_node is None: break; writer.elem("subele", …)` -/
def subLoopG : List Str → List Str → W → W
  | _, [], w => w
  | [], _ :: _, w => w
  | xid :: ids, v :: vs, w => subLoopG ids vs (w.elem tagSubele xid v)

def compOutG (sid : Str) (subs : List Str) (c : Comp) (w : W) : W :=
  (subLoopG subs c.subs (w.push tagComp (some sid))).pop

/-- after the `usage == 'N'` test (as `Xml.childOut`, with the composite branch of the current code) -/
def childOutG (sid : Str) (seg : SegObj) (ref : Str) (c : ChildDef) (w : W) :
    Except Segment.Err Got → Except XErr W
  | .error e => .error (.seg e)
  | .ok .nothing => .error .attribute
  | .ok (.elem _) => .error .attribute
  | .ok (.comp data) =>
    if compIsEmpty data then .ok w
    else
      match c with
      | .comp _ _ subs => .ok (compOutG sid subs data w)
      | .elem _ xid _ => eleOut xid w (Segment.getValue seg ref)

/-- one iteration of `for i in range(len(seg_data))`; `.ok none` = `break` (`child_node is None`) -/
def elemStepG (node : Xml.SegDef) (seg : SegObj) (i : Nat) (w : W) : Except XErr (Option W) :=
  match childByIdx node.children i with
  | .error e => .error e
  | .ok none => .ok none
  | .ok (some c) =>
    if c.notUsed then .ok (some w)
    else
      match childOutG node.sid seg (Path.pad2 (i + 1)) c w (Segment.get seg (Path.pad2 (i + 1))) with
      | .error e => .error e
      | .ok w' => .ok (some w')

def elemLoopG (node : Xml.SegDef) (seg : SegObj) : Nat → Nat → W → Except XErr W
  | 0, _, w => .ok w
  | n + 1, i, w =>
    match elemStepG node seg i w with
    | .error e => .error e
    | .ok none => .ok w
    | .ok (some w') => elemLoopG node seg n (i + 1) w'

def segOutG (node : Xml.SegDef) (seg : SegObj) (w : W) : Except XErr W :=
  match elemLoopG node seg seg.elements.length 0 (w.push tagSeg (some node.sid)) with
  | .error e => .error e
  | .ok w' => .ok w'.pop

/-- `x12xml_simple.seg(seg_node, seg_data)` -/
def segStepG (st : Xml.St) (x : Xml.Step) : Except XErr (Xml.St × List Ev) :=
  match transition st.lastPath x.path x.first ⟨st.stack, []⟩ with
  | .error e => .error e
  | .ok w =>
    match segOutG x.node x.seg w with
    | .error e => .error e
    | .ok w' => .ok (⟨x.path, w'.stack⟩, w'.out)

def runG : Xml.St → List Xml.Step → Except XErr (Xml.St × List Ev)
  | st, [] => .ok (st, [])
  | st, x :: r =>
    match segStepG st x with
    | .error e => .error e
    | .ok (st', evs) =>
      match runG st' r with
      | .error e => .error e
      | .ok (st'', evs') => .ok (st'', evs ++ evs')

/-- `x12xml_simple(fd, '')`, one `seg` call per step, `del xmldoc` -/
def docEventsG (steps : List Xml.Step) : Except XErr (List Ev) :=
  match runG initSt steps with
  | .error e => .error e
  | .ok (st, evs) => .ok (initEvs ++ evs ++ delEvs st)

end XmlG

/-! #### the steps of a document -/

/-- reader segment, what the validation loop reports for it -/
abbrev Round := SegOut × Seg

def zipExact {α β : Type} : List α → List β → Option (List (α × β))
  | [], [] => some []
  | [], _ :: _ => none
  | _ :: _, [] => none
  | a :: r, b :: s => consOpt (a, b) (zipExact r s)

/-- the rounds of a run that completes (`x12n_document` returns a verdict) -/
def roundsOf (r : DocResult) (rr : SegText.ReadResult) : Option (List Round) :=
  match r.outcome with
  | .verdict _ => zipExact r.segs (rr.segs.map (fun p => p.2))
  | _ => none

def xmlSteps (ms : Maps) (d : Delims) : List Round → Option (List Xml.Step)
  | [] => some []
  | p :: r =>
    match nodeView ms p.1.node with
    | none => none
    | some v => consOpt (xmlStepOf d p.2 v) (xmlSteps ms d r)

def stepsOfRounds (ms : Maps) (d : Delims) : Option (List Round) → Option (List Xml.Step)
  | none => none
  | some rs => xmlSteps ms d rs

/-- the calls `xmldoc.seg(node, seg)` of a run on the text -/
def docSteps (ms : Maps) (ctx : Ctx) (text : List Char) : Option (List Xml.Step) :=
  match SegText.readAll { rest := text, sizes := [] } with
  | .error _ => none
  | .ok h rr => stepsOfRounds ms (SegText.delimsOf h) (roundsOf (validateRead ms ctx h rr) rr)

def eventsOfSteps : Option (List Xml.Step) → Option (List Xml.Ev)
  | none => none
  | some steps =>
    match XmlG.docEventsG steps with
    | .error _ => none
    | .ok evs => some evs

/-- everything the XML writer emits for `x12n_document(param, text, fd_997, None, fd_xmldoc)` -/
def docXml (ms : Maps) (ctx : Ctx) (text : List Char) : Option (List Xml.Ev) := eventsOfSteps (docSteps ms ctx text)

def textOfEvents : Option (List Xml.Ev) → Option (List Char)
  | none => none
  | some evs => some (Xml.xmlDecl ++ Xml.renderFrom 0 evs)

/-- the XML document as text -/
def docXmlText (ms : Maps) (ctx : Ctx) (text : List Char) : Option (List Char) := textOfEvents (docXml ms ctx text)

/-! ### the HTML sink -/

/-- context no finished model carries -/
structure SinkCtx where
  /-- `loop_node.name` (`'%s'` of it) of the loop at an index path of a map file -/
  loopName : Str → List Nat → Str
  /-- `err_str` of entry `n` of `node.errors` (the tree model stores codes; reader / envelope / walker texts are not modelled) -/
  nodeMsg : ErrIter.Addr → Nat → Str
  /-- `time.strftime('%m/%d/%Y %H:%M:%S')` -/
  date : Str

def htmlElem : List Str → Option Html.Elem
  | [] => none
  | a :: r => some ⟨a, r⟩

def htmlElems : List (List Str) → Option (List Html.Elem)
  | [] => some []
  | e :: r =>
    match htmlElem e with
    | none => none
    | some x => consOpt x (htmlElems r)

/-- the segment as `gen_seg` walks it: `'%02i' % i` is no reference designator from `i = 100` on (TypeError) -/
def htmlSeg (s : Seg) : Option Html.Seg :=
  if 100 ≤ s.elems.length then none
  else
    match htmlElems s.elems with
    | none => none
    | some es => some ⟨s.id, es⟩

def htmlDelims (d : Delims) : Html.Delims := ⟨d.term, d.ele, d.sub⟩

def sLoop : Str := ['L', 'o', 'o', 'p', ' ']

/-- `'Loop %s: %s' % (loop_node.id, loop_node.name)` -/
def loopInfoText (sc : SinkCtx) (v : NodeView) (lid : Str) : Str :=
  sLoop ++ lid ++ [':', ' '] ++ sc.loopName v.file v.ip.dropLast

def infoOfLoop (sc : SinkCtx) (v : NodeView) (p : Nat × Bool) : Option Str :=
  if p.2 then none
  else
    match strOf v.map p.1 with
    | none => none
    | some lid => some (loopInfoText sc v lid)

/-- `if node.is_first_seg_in_loop(): html.loop(node.get_parent())`, read by the `gen_seg` of the same round -/
def infoOf (sc : SinkCtx) (v : NodeView) : Option Str :=
  if isFirst v.ip then
    (match v.loops.getLast? with
     | none => none
     | some p => infoOfLoop sc v p)
  else none

/-- `err_str` of an `err_ele.errors` tuple -/
def eleMsgIn : Option ErrTree.EleErr → Str
  | none => []
  | some x => x.msg

def eleMsgOf (n : Nat) : Option ErrTree.Ele → Str
  | none => []
  | some e => eleMsgIn (e.errors[n]?)

/-- the written message of a selected tuple -/
def msgOf (sc : SinkCtx) (t : ErrTree.Tree) (e : ErrIter.Err) : Html.Msg :=
  match e.ref with
  | .node a n => ⟨.segment, sc.nodeMsg a n, e.code⟩
  | .ele a k n => ⟨.element, eleMsgOf n ((ErrIter.nodeEles t a)[k]?), e.code⟩

/-- `ele_pos_map`, in assignment order -/
def marksOf (t : ErrTree.Tree) (l : List ErrIter.Addr) : List (Nat × Option Nat) :=
  l.flatMap (fun a => (ErrIter.nodeEles t a).map (fun e => (e.pos, e.subpos)))

/-- the messages before the segment line: `get_error_list(seg_id, True)` with code '3' -/
def preErrs (t : ErrTree.Tree) (l : List ErrIter.Addr) (sid : Str) : List ErrIter.Err :=
  l.flatMap (fun a => (ErrIter.nodeShown t a sid).filter ErrIter.isCode3)

/-- … and after it, node by node: the other node messages, then the element messages -/
def postErrs (t : ErrTree.Tree) (l : List ErrIter.Addr) (sid : Str) : List ErrIter.Err :=
  l.flatMap (fun a => (ErrIter.nodeShown t a sid).filter (fun e => !(ErrIter.isCode3 e)) ++ ErrIter.eleShown t a sid)

/-- what `gen_seg` is handed in one round -/
def annOf (sc : SinkCtx) (t : ErrTree.Tree) (l : List ErrIter.Addr) (sid : Str) (info : Option Str) : Html.Ann :=
  { pre := (preErrs t l sid).map (msgOf sc t), info := info, marks := marksOf t l,
    post := (postErrs t l sid).map (msgOf sc t) }

def addrsOf (vs : List ErrIter.Visit) : List ErrIter.Addr := vs.map (fun v => v.addr)

def roundAnn (sc : SinkCtx) (t : ErrTree.Tree) (c : ErrIter.Cursor) (p : Round) (v : NodeView) : Option Html.Seg →
    Option (Html.Seg × Html.Ann)
  | none => none
  | some hs => some (hs, annOf sc t (addrsOf (ErrIter.drainV t c).1) p.2.id (infoOf sc v))

def roundView (sc : SinkCtx) (t : ErrTree.Tree) (c : ErrIter.Cursor) (p : Round) : Option NodeView →
    Option (Html.Seg × Html.Ann)
  | none => none
  | some v => roundAnn sc t c p v (htmlSeg p.2)

/-- the loop `for seg in src:` as the HTML sink sees it: the round's `err_handler` calls, then `html.loop`, the drain of
    the cursor over the tree as it is now, `gen_seg` -/
def htmlLoop (ms : Maps) (sc : SinkCtx) : ErrIter.RState → List Round → Option (List (Html.Seg × Html.Ann) × ErrIter.RState)
  | rs, [] => some ([], rs)
  | rs, p :: r =>
    match ErrTree.run rs.st p.1.events with
    | .crash _ => none
    | .ok st1 =>
      match roundView sc st1.tree rs.cur p (nodeView ms p.1.node) with
      | none => none
      | some sa =>
        match htmlLoop ms sc { st := st1, cur := (ErrIter.drainV st1.tree rs.cur).2 } r with
        | none => none
        | some q => some (sa :: q.1, q.2)

/-- the writes of a run whose loop gave `q`: `footer()` reads the tree after `handle_errors(src.pop_errors())` -/
def htmlWritesOf (sc : SinkCtx) (d : Delims) (final : ErrTree.State) :
    Option (List (Html.Seg × Html.Ann) × ErrIter.RState) → Option (List (List Char))
  | none => none
  | some q =>
    some (Html.report sc.date (htmlDelims d) q.1 ((ErrIter.footer final).map (msgOf sc final.tree)))

def htmlOfRounds (ms : Maps) (sc : SinkCtx) (d : Delims) (final : ErrTree.State) : Option (List Round) →
    Option (List (List Char))
  | none => none
  | some rs => htmlWritesOf sc d final (htmlLoop ms sc ErrIter.RState.init rs)

/-- the `fd_html.write` calls of `x12n_document(param, text, fd_997, fd_html)` -/
def docHtmlWrites (ms : Maps) (ctx : Ctx) (sc : SinkCtx) (text : List Char) : Option (List (List Char)) :=
  match SegText.readAll { rest := text, sizes := [] } with
  | .error _ => none
  | .ok h rr =>
    htmlOfRounds ms sc (SegText.delimsOf h) (validateRead ms ctx h rr).final (roundsOf (validateRead ms ctx h rr) rr)

def flattenOpt : Option (List (List Char)) → Option (List Char)
  | none => none
  | some ws => some ws.flatten

/-- the HTML document (the date text is `sc.date`) -/
def docHtml (ms : Maps) (ctx : Ctx) (sc : SinkCtx) (text : List Char) : Option (List Char) :=
  flattenOpt (docHtmlWrites ms ctx sc text)

/-! ### the per-map side condition of the XML theorems (C08 `noSiblingLoopIdPrefix`) as a decidable check
(evaluated for the shipped maps by the harness through the driver; `Proofs/DocSinksMaps.lean` shows the enumeration complete) -/

mutual
/-- the loop chain of every segment node below a node -/
def loopsOfNode : MapSkel.Node → List (List (Nat × Bool))
  | .seg .. => [[]]
  | .loop lid _ _ _ w ch => consAll (lid, w) (allLoopsIn ch)
/-- … below a list of nodes -/
def allLoopsIn : List MapSkel.Node → List (List (Nat × Bool))
  | [] => []
  | n :: r => loopsOfNode n ++ allLoopsIn r
/-- `l.map (p :: ·)` -/
def consAll (p : Nat × Bool) : List (List (Nat × Bool)) → List (List (Nat × Bool))
  | [] => []
  | l :: r => (p :: l) :: consAll p r
end

/-- the loop paths (as strings) of the segment nodes of a map; `none`: an id without a string in the interning table -/
def mapPaths (m : MapX) : List (Option (List Str)) := (allLoopsIn m.root).map (strsOf m)

def pathCovered (P : List (List Str)) : Option (List Str) → Bool
  | none => true
  | some p => P.contains p && !p.isEmpty

/-- decidable form of `MapsOK` -/
def mapsOKB (ms : Maps) (P : List (List Str)) : Bool :=
  Xml.noSiblingLoopIdPrefix P && ms.maps.all (fun m => (mapPaths m).all (pathCovered P))

/-- every loop path of every loaded map (a canonical `P`) -/
def allPaths (ms : Maps) : List (List Str) := (ms.maps.flatMap mapPaths).filterMap id


/-! #### the same for ALL loaded maps: per map, plus a condition on the three envelope nodes reached by path
(two consecutive `seg()` calls use nodes of one map unless the second is `/ISA_LOOP/ISA`, `/ISA_LOOP/GS_LOOP/GS` or
`…/HEADER/BHT` of some map: `Proofs/DocSinksTrans.lean`) -/

/-- `_path_list(parent.get_path())` of the segment node at an index path -/
def pathAt (m : MapX) (ip : List Nat) : Option (List Str) :=
  match loopsTo m.root ip with
  | none => none
  | some l => strsOf m l

/-- the loop paths of the segment nodes of a map -/
def pathsOf (m : MapX) : List (List Str) := (mapPaths m).filterMap id

def envPathOf (ms : Maps) (m : MapX) (p : List (Nat × Nat)) : Option (List Str) :=
  match MapSkel.fetch ms.consts.ent ms.consts.hl m.root p with
  | none => none
  | some ip => pathAt m ip

/-- loop paths of the nodes `x12n_document` fetches by path -/
def envPaths (ms : Maps) (m : MapX) : List (List Str) :=
  [envPathOf ms m (isaPath ms), envPathOf ms m (gsPath ms), envPathOf ms m (bhtPath ms)].filterMap id

def filesUnique : List MapX → Bool
  | [] => true
  | m :: r => r.all (fun x => x.file != m.file) && filesUnique r

/-- C08's `noSiblingLoopIdPrefix` for one map; no segment directly under the root -/
def perMapOK (m : MapX) : Bool := Xml.noSiblingLoopIdPrefix (pathsOf m) && (pathsOf m).all (fun p => !p.isEmpty)

/-- an envelope path of any map against every loop path of any map -/
def crossOK (ms : Maps) : Bool :=
  ms.maps.all (fun m2 => (envPaths ms m2).all (fun q => ms.maps.all (fun m1 => (pathsOf m1).all (fun p => Xml.sibOK q p))))

def mapsOK2B (ms : Maps) : Bool := filesUnique ms.maps && ms.maps.all perMapOK && crossOK ms

end Pyx12Verif.Doc
