/-
BRIDGE between the context reader (C09, `Model/CtxReader.lean` / `Model/CtxDoc.lean`) and the tree-editing model
(C10, `Model/DataTree.lean`): the conversion `harness/c10.py` performs (`MapEnc` + `enc_tree`) when it hands a real
`X12LoopDataNode` obtained from `X12ContextReader.iter_segments(loop_id)` to the C10 model.

  real tree                                              reader model (`Ctx.DNode`)            editing model (`DataTree.DNode`)
  X12SegmentDataNode(x12_map_node, seg_data)             .seg ⟨text, …⟩ path pos               .seg (SegDef of the map node) Seg
  X12LoopDataNode(x12_map_node, children)                .loop path pos ch                     .loop Hdr (map children) ch'

* children keep their order (the order of `children` = the order `iterate_segments()` walks = yield order);
* every node carries the plain map data of the map node it matched: id, parent id, grandparent id, the `is_match` key rules,
  the `is_match_qual` key — looked up through `MapData` — and the POSITION the reader recorded for it (`x12_map_node.pos`:
  the reader model keeps exactly that number, so it is copied, not looked up);
* a segment leaf carries the source segment whose index it holds (`SegInfo.text`), with the delimiters of the file.

`MapData` is the abstraction of "the loaded map" at the level C10 uses it (the harness builds the same three tables from
the real map nodes).  `skelData` derives it from the translated skeleton (`MapSkel.Node`, interned ids) and a name table, the
way `seg_keys` / `pid_gid` / `MapEnc._walk` of the harness read it off the real nodes.
-/
import Pyx12Verif.Model.CtxDoc
import Pyx12Verif.Model.DataTree

namespace Pyx12Verif.Bridge
open Pyx12Verif

/-- what the editing model needs to know of the map, keyed the way the reader model identifies a map node:
    (path of the enclosing loop | own path of a loop, position) -/
structure MapData where
  /-- the segment node at position `pos` of the loop with path `path` that the data segment matched -/
  segDef : Ctx.LPath → Nat → DataTree.Seg → DataTree.SegDef
  /-- id / parent id / grandparent id of the loop with this path -/
  loopHdr : Ctx.LPath → Nat → DataTree.Hdr
  /-- its map children in `childIterator` order -/
  loopKids : Ctx.LPath → Nat → List DataTree.MNode

/-- a source segment as a `pyx12.segment.Segment` built with the delimiters of the file -/
def toSeg (d : Doc.Delims) (s : Doc.Seg) : DataTree.Seg :=
  { id := s.id, els := s.elems, st := d.term, et := d.ele, sub := d.sub }

/-- `Segment('', …)`: what an index outside the file stands for (never produced by the reader) -/
def noSeg (d : Doc.Delims) : DataTree.Seg := { id := [], els := [], st := d.term, et := d.ele, sub := d.sub }

/-- the source segments by index (`SegInfo.text` of a yielded leaf) -/
def segTable (d : Doc.Delims) (segs : List Doc.Seg) (k : Nat) : DataTree.Seg :=
  match segs[k]? with
  | some s => toSeg d s
  | none => noSeg d

mutual
/-- the editing model's tree for a tree of the reader model -/
def toDNode (md : MapData) (segs : Nat → DataTree.Seg) : Ctx.DNode → DataTree.DNode
  | .seg s p n => .seg { md.segDef p n (segs s.text) with pos := n } (segs s.text)
  | .loop p n ch => .loop { md.loopHdr p n with pos := n } (md.loopKids p n) (toDNodeL md segs ch)
def toDNodeL (md : MapData) (segs : Nat → DataTree.Seg) : List Ctx.DNode → List DataTree.DNode
  | [] => []
  | c :: r => toDNode md segs c :: toDNodeL md segs r
end

/-- the source segments a reader tree holds, in `iterate_segments()` order -/
def treeSegs (segs : Nat → DataTree.Seg) (t : Ctx.DNode) : List DataTree.Seg :=
  (Ctx.leaves t).map (fun l => segs l.1.text)

/-- the trees among the yields, in order -/
def treesOf : List Ctx.Yield → List Ctx.DNode
  | [] => []
  | .tree d :: r => d :: treesOf r
  | .plain _ _ _ :: r => treesOf r

/-! ### `MapData` read off the translated skeleton (as `harness/c10.py : MapEnc` reads it off the real map nodes) -/

/-- `list(e.valid_codes)` with the names of the interned codes -/
def codeNames (names : Nat → DataTree.Str) (cs : List Nat) : List DataTree.Str := cs.map names

/-- `k1`: element 1 is a required ID element with an inline code list -/
def key1 (names : Nat → DataTree.Str) : Option MapSkel.Child → Option DataTree.QKey
  | some (.elem e) =>
    if e.isID && e.usage == 0 && e.ncodes > 0 then some { ele := 1, sub := none, codes := codeNames names e.codes } else none
  | _ => none

/-- `k2` (ENT only): element 2 is an ID element with an inline code list -/
def key2 (names : Nat → DataTree.Str) (isEnt : Bool) : Option MapSkel.Child → Option DataTree.QKey
  | some (.elem e) =>
    if isEnt && e.isID && e.ncodes > 0 then some { ele := 2, sub := none, codes := codeNames names e.codes } else none
  | _ => none

/-- `k3` (CTX only): element 1 is a composite whose first sub-element is AN with an inline code list -/
def key3 (names : Nat → DataTree.Str) (isCtx : Bool) : Option MapSkel.Child → Option DataTree.QKey
  | some (.comp _ _ _ _ subs) =>
    (match MapSkel.firstSub subs with
     | some s0 =>
       if isCtx && s0.isAN && s0.ncodes > 0 then some { ele := 1, sub := some 1, codes := codeNames names s0.codes } else none
     | none => none)
  | _ => none

/-- `k4`: element 1 is a composite whose first sub-element is ID with an inline code list -/
def key4 (names : Nat → DataTree.Str) : Option MapSkel.Child → Option DataTree.QKey
  | some (.comp _ _ _ _ subs) =>
    (match MapSkel.firstSub subs with
     | some s0 => if s0.isID && s0.ncodes > 0 then some { ele := 1, sub := some 1, codes := codeNames names s0.codes } else none
     | none => none)
  | _ => none

/-- `k5` (HL only): element 3 has an inline code list -/
def key5 (names : Nat → DataTree.Str) (isHl : Bool) : Option MapSkel.Child → Option DataTree.QKey
  | some (.elem e) =>
    if isHl && e.ncodes > 0 then some { ele := 3, sub := none, codes := codeNames names e.codes } else none
  | _ => none

def optList {α : Type} : Option α → List α
  | some x => [x]
  | none => []

def firstSome {α : Type} : List (Option α) → Option α
  | [] => none
  | some x :: _ => some x
  | none :: r => firstSome r

/-- `seg_keys(sn)` : (mkeys, qkey) -/
def segKeys (names : Nat → DataTree.Str) (K : Walker.Consts) (sid : Nat) (ch : List MapSkel.Child) :
    List DataTree.QKey × Option DataTree.QKey :=
  (optList (key1 names (MapSkel.nthChild ch 0)) ++ optList (key2 names (sid == K.ent) (MapSkel.nthChild ch 1)) ++
     optList (key3 names (sid == K.ctx) (MapSkel.nthChild ch 0)) ++ optList (key4 names (MapSkel.nthChild ch 0)) ++
     optList (key5 names (sid == K.hl) (MapSkel.nthChild ch 2)),
   firstSome [key1 names (MapSkel.nthChild ch 0), key2 names (sid == K.ent) (MapSkel.nthChild ch 1),
              key4 names (MapSkel.nthChild ch 0), key5 names (sid == K.hl) (MapSkel.nthChild ch 2)])

mutual
/-- `MapEnc._walk` : the map subtree as plain data; `pid` / `gid` = id of the parent / grandparent map node -/
def toMNode (names : Nat → DataTree.Str) (K : Walker.Consts) (pid gid : DataTree.Str) : MapSkel.Node → DataTree.MNode
  | .seg sid _ pos _ _ _ ch =>
    .seg { id := names sid, pos := pos, pid := pid, gid := gid, mkeys := (segKeys names K sid ch).1,
           qkey := (segKeys names K sid ch).2 }
  | .loop lid pos _ _ _ ch =>
    .loop { id := names lid, pos := pos, pid := pid, gid := gid } (toMNodeL names K (names lid) pid ch)
def toMNodeL (names : Nat → DataTree.Str) (K : Walker.Consts) (pid gid : DataTree.Str) :
    List MapSkel.Node → List DataTree.MNode
  | [] => []
  | c :: r => toMNode names K pid gid c :: toMNodeL names K pid gid r
end

/-- first child loop with the given id -/
def childLoop (x : Nat) : List MapSkel.Node → Option MapSkel.Node
  | [] => none
  | .seg .. :: r => childLoop x r
  | .loop l p u rep w ch :: r => if l = x then some (.loop l p u rep w ch) else childLoop x r

/-- the loop with the given path, with the ids of its parent and grandparent (`[]` = none: the map root's id is not a
    loop id) -/
def loopAt (names : Nat → DataTree.Str) : List MapSkel.Node → Ctx.LPath → DataTree.Str → DataTree.Str →
    Option (MapSkel.Node × DataTree.Str × DataTree.Str)
  | _, [], _, _ => none
  | ch, [x], pid, gid =>
    (match childLoop x ch with
     | some n => some (n, pid, gid)
     | none => none)
  | ch, x :: y :: r, pid, _ =>
    (match childLoop x ch with
     | some n => loopAt names n.children (y :: r) (names x) pid
     | none => none)

def dummyHdr : DataTree.Hdr := { id := [], pos := 0, pid := [], gid := [] }
def dummySeg (s : DataTree.Seg) : DataTree.SegDef := { id := s.id, pos := 0, pid := [], gid := [], mkeys := [], qkey := none }

/-- the segment child at position `pos` that the data segment matches (`x12_map_node` of the data node) -/
def segAtPos (pos : Nat) (s : DataTree.Seg) : List DataTree.MNode → Option DataTree.SegDef
  | [] => none
  | .seg d :: r => if d.pos = pos ∧ DataTree.isMatch d s = true then some d else segAtPos pos s r
  | .loop _ _ :: r => segAtPos pos s r

/-- the map data of one skeleton (`rootName` = id of the map root, the parent of the top-level loops) -/
def skelData (names : Nat → DataTree.Str) (K : Walker.Consts) (rootName : DataTree.Str) (root : List MapSkel.Node) : MapData :=
  { segDef := fun p pos s =>
      match loopAt names root p rootName [] with
      | some (n, pid, _) =>
        (match segAtPos pos s (toMNodeL names K (names n.ident) pid n.children) with
         | some d => d
         | none => dummySeg s)
      | none => dummySeg s,
    loopHdr := fun p _ =>
      match loopAt names root p rootName [] with
      | some (n, pid, gid) => { id := names n.ident, pos := n.pos, pid := pid, gid := gid }
      | none => dummyHdr,
    loopKids := fun p _ =>
      match loopAt names root p rootName [] with
      | some (n, pid, _) => toMNodeL names K (names n.ident) pid n.children
      | none => [] }

end Pyx12Verif.Bridge
