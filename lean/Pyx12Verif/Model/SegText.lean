/-
Model of the text <-> segment layer:
  * `pyx12/segment.py`: `Segment.__init__` (parse of one segment string), `Composite.__init__`,
    `Segment.format`, `Composite.format`, `is_empty`;
  * `pyx12/x12file.py`: `X12Reader.__iter__` (leading-blank error `1` + `str.lstrip()`, trailing element separator
    error `SEG1`) AFTER the fix C01-D4 (a segment that is blank after `lstrip()` is skipped, it used to raise
    `IndexError` at `line[-1]`).  The envelope bookkeeping `_parse_segment` is not part of this model.
-/
import Pyx12Verif.Model.Tokenizer
import Pyx12Verif.Model.Segment

namespace Pyx12Verif.SegText

/-- a segment: identifier and elements; every element is a composite = list of sub-element values
    (the data shape shared with the get/set model `Model/Segment.lean`) -/
abbrev Seg := Pyx12Verif.Segment.Seg

structure Delims where
  term : Char
  ele : Char
  sub : Char
  deriving DecidableEq, Repr

/-! ### split / join -/

def consHead (c : Char) : List (List Char) → List (List Char)
  | [] => [[c]]
  | p :: ps => (c :: p) :: ps

/-- `str.split(e)` for a one-character separator -/
def splitOn (e : Char) : List Char → List (List Char)
  | [] => [[]]
  | c :: cs => if c = e then [] :: splitOn e cs else consHead c (splitOn e cs)

/-- `e.join(pieces)` -/
def joinWith (e : Char) : List (List Char) → List Char
  | [] => []
  | [p] => p
  | p :: q :: r => p ++ e :: joinWith e (q :: r)

/-! ### parse (`Segment.__init__`) -/

def isaId : List Char := ['I', 'S', 'A']

/-- `seg_str[:-1] if seg_str[-1] == seg_term else seg_str` -/
def stripTerm (t : Char) (s : List Char) : List Char :=
  if s.getLast? = some t then s.dropLast else s

/-- `Composite(ele, ele_term)` for the ISA segment ("guarantee subele_term will not be matched"),
    `Composite(ele, subele_term)` otherwise; `Composite.__init__` splits on the separator it is given -/
def splitComp (d : Delims) (id : List Char) (ele : List Char) : List (List Char) :=
  if id = isaId then splitOn d.ele ele else splitOn d.sub ele

def buildSeg (d : Delims) : List (List Char) → Option Seg
  | [] => none
  | i :: es => some { id := i, elems := es.map (splitComp d i) }

/-- `none` stands for the `Segment` object that has `seg_id None` and no elements (empty input string) -/
def parseSeg (d : Delims) (str : List Char) : Option Seg :=
  if str = [] then none else buildSeg d (splitOn d.ele (stripTerm d.term str))

/-! ### format (`Segment.format`, `Composite.format`) -/

def isEmptyVal (v : List Char) : Bool := v.isEmpty

/-- `Composite.is_empty` -/
def isEmptyComp (c : List (List Char)) : Bool := c.all isEmptyVal

/-- value of `i` after `for i in range(len(l) - 1, -1, -1): if not empty(l[i]): break`;
    the list is given reversed together with the index of its head; `cur` = value of `i` so far
    (`none` = the name is unbound) -/
def scanDown {α : Type} (empty : α → Bool) : List α → Nat → Option Nat → Option Nat
  | [], _, cur => cur
  | x :: xs, i, _ => if empty x then scanDown empty xs (i - 1) (some i) else some i

/-- `Composite.format`: `i` is unbound when the composite has no sub-element at all (UnboundLocalError) -/
def formatComp (sub : Char) (c : List (List Char)) : Option (List Char) :=
  match scanDown isEmptyVal c.reverse (c.length - 1) none with
  | none => none
  | some i => some (joinWith sub (c.take (i + 1)))

/-- both succeed, or the exception propagates -/
def both {α β γ : Type} (f : α → β → γ) (x : Option α) (y : Option β) : Option γ :=
  match x with
  | none => none
  | some a =>
    match y with
    | none => none
    | some b => some (f a b)

def formatComps (sub : Char) : List (List (List Char)) → Option (List (List Char))
  | [] => some []
  | c :: cs => both List.cons (formatComp sub c) (formatComps sub cs)

/-- number of leading elements `Segment.format` prints (`i = 0` before the loop, then `elements[:i + 1]`) -/
def keptElems (s : Seg) : List (List (List Char)) :=
  match scanDown isEmptyComp s.elems.reverse (s.elems.length - 1) (some 0) with
  | none => []
  | some i => s.elems.take (i + 1)

/-- `'%s%s%s%s' % (seg_id, ele_term, ele_term.join(str_elems), seg_term)` -/
def formatSeg (d : Delims) (s : Seg) : Option (List Char) :=
  match formatComps d.sub (keptElems s) with
  | none => none
  | some strs => some (s.id ++ d.ele :: (joinWith d.ele strs ++ [d.term]))

/-! ### reader wrapper (`X12Reader.__iter__`) -/

/-- `str.isspace()` / the set `str.lstrip()` removes (checked against CPython by the harness, all code points) -/
def isPyWhitespace (c : Char) : Bool :=
  (9 ≤ c.toNat && c.toNat ≤ 13) || (28 ≤ c.toNat && c.toNat ≤ 32) || c.toNat = 0x85 || c.toNat = 0xa0 ||
  c.toNat = 0x1680 || (0x2000 ≤ c.toNat && c.toNat ≤ 0x200a) || c.toNat = 0x2028 || c.toNat = 0x2029 ||
  c.toNat = 0x202f || c.toNat = 0x205f || c.toNat = 0x3000

/-- `str.lstrip()` -/
def lstripWs : List Char → List Char
  | [] => []
  | c :: cs => if isPyWhitespace c then lstripWs cs else c :: cs

inductive RErr where
  | leadingBlank   -- ('seg', '1', ...)
  | trailingSep    -- ('seg', 'SEG1', ...)
  deriving DecidableEq, Repr

inductive LineOut where
  | skip (errs : List RErr)            -- nothing yielded (blank-only segment), errors stay pending
  | seg (errs : List RErr) (s : Seg)   -- errors appended to err_list, segment yielded
  | crash                              -- an exception leaves the generator
  deriving DecidableEq, Repr

def sepErr (d : Delims) (last : Char) : List RErr := if last = d.ele then [.trailingSep] else []

/-- from `if line[-1] == self.ele_term` on -/
def afterStrip (d : Delims) (errs : List RErr) (line : List Char) : LineOut :=
  match line.getLast? with
  | none => .crash                                        -- IndexError
  | some c =>
    match parseSeg d line with
    | none => .crash                                      -- not reachable: the line is not empty here
    | some s => .seg (errs ++ sepErr d c) s

def wrapLine (d : Delims) (line : List Char) : LineOut :=
  if line.head? = some ' ' then
    if lstripWs line = [] then .skip [.leadingBlank]
    else afterStrip d [.leadingBlank] (lstripWs line)
  else afterStrip d [] line

structure ReadResult where
  segs : List (List RErr × Seg)   -- per yielded segment: what `pop_errors()` returns right after it (reader part)
  crashed : Bool
  pending : List RErr             -- errors still in `err_list` when the iteration ends
  deriving DecidableEq, Repr

def ReadResult.push (e : List RErr) (s : Seg) (r : ReadResult) : ReadResult :=
  { segs := (e, s) :: r.segs, crashed := r.crashed, pending := r.pending }

/-- the `for line in self.raw` loop, the caller popping the errors after every segment -/
def readLines (d : Delims) : List RErr → List (List Char) → ReadResult
  | pend, [] => { segs := [], crashed := false, pending := pend }
  | pend, l :: ls =>
    match wrapLine d l with
    | .skip e => readLines d (pend ++ e) ls
    | .seg e s => (readLines d [] ls).push (pend ++ e) s
    | .crash => { segs := [], crashed := true, pending := pend }

def delimsOf (h : Tokenizer.Header) : Delims := { term := h.seg, ele := h.ele, sub := h.sub }

inductive ReaderOutcome where
  | error (e : Tokenizer.HeaderErr)
  | ok (h : Tokenizer.Header) (r : ReadResult)
  deriving DecidableEq, Repr

/-- `X12Reader(stream)` followed by complete iteration -/
def readAll (s : Tokenizer.Stream) : ReaderOutcome :=
  match Tokenizer.rawRead s with
  | .error e => .error e
  | .ok h lines => .ok h (readLines (delimsOf h) [] lines)

/-- segments of a text under given delimiters (declarative tokenizer + wrapper) -/
def segments (d : Delims) (text : List Char) : List Seg :=
  (readLines d [] (Tokenizer.spec d.term text)).segs.map (·.2)

/-- `''.join(seg.format() + brk for seg in segs)` -/
def encode (d : Delims) (brk : List Char) : List Seg → Option (List Char)
  | [] => some []
  | s :: ss => both (fun x xs => x ++ brk ++ xs) (formatSeg d s) (encode d brk ss)

end Pyx12Verif.SegText
