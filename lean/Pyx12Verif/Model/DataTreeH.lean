/-
Heap-style variant of the data-tree model (C10, sharing).

Model/DataTree.lean represents a tree as a value, so two trees can never share anything and `copy_independent`
there is a frame property.  Here the one kind of object that pyx12 mutates in place below a segment — the
`Composite` (list of sub-element strings) held in `Segment.elements` — lives in a heap and is referred to by
location, so that aliasing IS expressible:

  * `Heap`   = the composite cells, `Loc` = index of a cell;
  * `SegH`   = a `Segment` whose `elements` are locations;
  * `DNodeH` = the data tree over such segments;
  * `abstr H n` reads the tree out of the heap: the pure `DNode` of Model/DataTree.lean;
  * `copyH H n` is `copy()`: every segment is formatted and parsed again (`Segment.__copy__`), which builds NEW
    composite objects — the cells are allocated at the end of the heap;
  * `copyShareH` is the mutant "`Segment.__copy__` shares composites" (DESIGN §5 row C10-2): a new segment object
    whose `elements` list holds the SAME composite objects.
Only composites are heap objects: segment nodes and loop nodes are rebuilt by `copy()` in both variants and the pure
model already covers their (non-)sharing.
-/
import Pyx12Verif.Model.DataTree

namespace Pyx12Verif.DataTree

abbrev Loc := Nat
abbrev Heap := List (List Str)

structure SegH where
  id : Str
  els : List Loc
  st : Char
  et : Char
  sub : Char
  deriving DecidableEq, Repr

inductive DNodeH
  | seg (d : SegDef) (s : SegH)
  | loop (h : Hdr) (mk : List MNode) (cs : List DNodeH)
  | dead
  deriving Repr

/-- contents of a cell (`[]` for a location that was never allocated; excluded by `WFH`) -/
def cell (H : Heap) (l : Loc) : List Str := H.getD l []

/-- read a segment out of the heap -/
def derefSeg (H : Heap) (s : SegH) : Seg :=
  { id := s.id, els := s.els.map (cell H), st := s.st, et := s.et, sub := s.sub }

mutual
/-- read a tree out of the heap -/
def abstr (H : Heap) : DNodeH → DNode
  | .seg d s => .seg d (derefSeg H s)
  | .loop h mk cs => .loop h mk (abstrList H cs)
  | .dead => .dead
def abstrList (H : Heap) : List DNodeH → List DNode
  | [] => []
  | c :: r => abstr H c :: abstrList H r
end

mutual
/-- the composite cells reachable from a tree -/
def locs : DNodeH → List Loc
  | .seg _ s => s.els
  | .loop _ _ cs => locsList cs
  | .dead => []
def locsList : List DNodeH → List Loc
  | [] => []
  | c :: r => locs c ++ locsList r
end

def isDeadH : DNodeH → Bool
  | .dead => true
  | .seg _ _ => false
  | .loop _ _ _ => false

/-- `Segment.__copy__`: `Segment(self.format(), …)` — the parsed elements are new composite objects -/
def copySegH (H : Heap) (s : SegH) : Heap × SegH :=
  (H ++ (segCopy (derefSeg H s)).els,
   { id := (segCopy (derefSeg H s)).id,
     els := List.range' H.length (segCopy (derefSeg H s)).els.length,
     st := s.st, et := s.et, sub := s.sub })

mutual
/-- `copy()` (with fixes D12, D40 as in `copyNode`), threading the heap -/
def copyH (H : Heap) : DNodeH → Heap × DNodeH
  | .seg d s => ((copySegH H s).1, .seg d (copySegH H s).2)
  | .loop h mk cs => ((copyKidsH H cs).1, .loop h mk (copyKidsH H cs).2)
  | .dead => (H, .dead)
def copyKidsH (H : Heap) : List DNodeH → Heap × List DNodeH
  | [] => (H, [])
  | c :: r =>
    if isDeadH c then copyKidsH H r
    else ((copyKidsH (copyH H c).1 r).1, (copyH H c).2 :: (copyKidsH (copyH H c).1 r).2)
end

mutual
/-- the mutant: new node objects, new `elements` lists, the same composite objects -/
def copyShareH : DNodeH → DNodeH
  | .seg d s => .seg d s
  | .loop h mk cs => .loop h mk (copyShareKidsH cs)
  | .dead => .dead
def copyShareKidsH : List DNodeH → List DNodeH
  | [] => []
  | c :: r => if isDeadH c then copyShareKidsH r else copyShareH c :: copyShareKidsH r
end

/-- an in-place write to one composite object (`Composite.__setitem__`, reached through `Segment.set` with a
sub-element index) -/
def writeCell (H : Heap) (w : Loc × List Str) : Heap := H.set w.1 w.2

/-- any number of in-place writes -/
def writeCells (H : Heap) (ws : List (Loc × List Str)) : Heap := ws.foldl writeCell H

/-- what a call on some tree can do to the heap: write an existing composite in place, or allocate a new one
(`Segment.set` without sub-element index, padding, `add_segment`, `copy` … build new `Composite` objects and link
them into the elements list of the segment they are called on) -/
inductive HeapStep
  | write (l : Loc) (c : List Str)
  | alloc (c : List Str)
  deriving Repr

def heapStep (H : Heap) : HeapStep → Heap
  | .write l c => H.set l c
  | .alloc c => H ++ [c]

def heapRun (H : Heap) (steps : List HeapStep) : Heap := steps.foldl heapStep H

end Pyx12Verif.DataTree
