/-
Model of pyx12/x12context.py: `X12ContextReader.iter_segments(loop_id)`, `_add_segment`,
`X12LoopDataNode._add_loop_node`, `X12DataNode._get_insert_idx`, `iterate_segments` (construction and
iteration only; the editing API is Model/DataTree.lean, C10).

The walker is NOT re-modelled here: the reader consumes one *abstract walker answer* per source segment —
what `iter_segments` holds in `self.x12_map_node`, `pop_loops`, `push_loops` when it reaches
`node_x12path = self.x12_map_node.x12path` — and everything it does afterwards is a function of those.

Representation.  Loop ids and formatted segments are interned to `Nat` by the harness.  A map loop is
identified by its path (ids from the map root down to the loop itself) — `x12path` equality in the code is
equality of that path; `node.id` is the last id.  Python's mutable tree with `parent` pointers is a zipper:
`Cursor` = the loop data node `cur_loop_node` points at (`path pos ch`) plus the chain of its ancestors, each
with the children left and right of the open child.  `cur_loop_node.parent` is `parent`; a tree is handed
out by closing the zipper (`Cursor.tree`).

The model is of the code AFTER the proposed fixes C09-D10 (final `yield cur_tree`) — `flush` below.
(C09-D11 and C09-gs-loop-level change what answers the reader sees at BHT / GS, not this function.)
-/
namespace Pyx12Verif.Ctx

abbrev LoopId := Nat
/-- a map loop: ids from the map root down to the loop itself -/
abbrev LPath := List LoopId

/-- a source segment as the reader hands it on: interned `seg.format()`, `src.get_seg_count()`, `src.get_cur_line()` -/
structure SegInfo where
  text : Nat
  segCount : Nat
  line : Nat
  deriving DecidableEq, Repr

/-- what `iter_segments` knows about one source segment once the map node is fixed -/
structure Answer where
  seg : SegInfo
  /-- `self.x12_map_node.x12path.loop_list` = path of the enclosing map loop (`pop_to_parent_loop(node).x12path`) -/
  path : LPath
  /-- `self.x12_map_node.is_first_seg_in_loop()` -/
  first : Bool
  /-- `self.x12_map_node.pos` -/
  pos : Nat
  /-- `self.x12_map_node.parent.pos` -/
  ppos : Nat
  /-- `pop_loops`, innermost first -/
  pops : List LPath
  /-- `push_loops`, outermost first, each with its `pos` -/
  pushes : List (LPath × Nat)
  deriving DecidableEq, Repr

/-- X12SegmentDataNode / X12LoopDataNode: the map node is kept as (path of the enclosing loop | own path, pos) -/
inductive DNode where
  | seg (s : SegInfo) (path : LPath) (pos : Nat)
  | loop (path : LPath) (pos : Nat) (ch : List DNode)
  deriving Repr

/-- `child.x12_map_node.pos` -/
def DNode.pos : DNode → Nat
  | .seg _ _ n => n
  | .loop _ n _ => n

/-- a leaf as `iterate_segments()` reports it, together with the map position it matched -/
abbrev Leaf := SegInfo × LPath × Nat

mutual
/-- `iterate_segments()`: this node and its children, depth first, in child order -/
def leaves : DNode → List Leaf
  | .seg s p n => [(s, p, n)]
  | .loop _ _ ch => leavesL ch
def leavesL : List DNode → List Leaf
  | [] => []
  | d :: r => leaves d ++ leavesL r
end

/-- the `for i in range(len(self.children))` of `_get_insert_idx`: last index whose node has `pos <= map_idx` -/
def lastLe (mapIdx : Nat) : List DNode → Nat → Option Nat → Option Nat
  | [], _, idx => idx
  | d :: r, i, idx => if d.pos ≤ mapIdx then lastLe mapIdx r (i + 1) (some i) else lastLe mapIdx r (i + 1) idx

/-- `_get_insert_idx(x12_node)` (no deleted children exist while a tree is being built) -/
def insertIdx (ch : List DNode) (mapIdx : Nat) : Nat :=
  match lastLe mapIdx ch 0 none with
  | some i => i + 1
  | none => 0

/-- an ancestor of the open loop: its own map node and the children left / right of the open child -/
structure Frame where
  path : LPath
  pos : Nat
  before : List DNode
  after : List DNode
  deriving Repr

/-- `cur_loop_node` seen from inside -/
structure Cursor where
  path : LPath
  pos : Nat
  ch : List DNode
  up : List Frame
  deriving Repr

/-- close the open node into its ancestors -/
def plug (d : DNode) : List Frame → DNode
  | [] => d
  | f :: r => plug (.loop f.path f.pos (f.before ++ d :: f.after)) r

/-- the whole tree `cur_tree` the cursor lives in -/
def Cursor.tree (c : Cursor) : DNode := plug (.loop c.path c.pos c.ch) c.up

/-- `cur_loop_node.parent` (`none` = Python `None`: the tree root has no parent) -/
def parent (c : Cursor) : Option Cursor :=
  match c.up with
  | [] => none
  | f :: r => some { path := f.path, pos := f.pos, ch := f.before ++ DNode.loop c.path c.pos c.ch :: f.after, up := r }

/-- `cur._add_loop_node(x12_loop)`: a new empty loop data node inserted at `_get_insert_idx`; returns the new node -/
def addLoopNode (c : Cursor) (l : LPath) (lpos : Nat) : Cursor :=
  { path := l, pos := lpos, ch := [],
    up := { path := c.path, pos := c.pos, before := c.ch.take (insertIdx c.ch lpos),
            after := c.ch.drop (insertIdx c.ch lpos) } :: c.up }

/-- the ways `iter_segments` can raise instead of yielding -/
inductive Crash where
  | noCurrentNode     -- EngineError 'Either cur_data_node or self.x12_map_node is None'
  | plainNodeAsLoop   -- `_add_segment` entered with a plain segment node: its `parent` is a list / None
  | popMismatch       -- EngineError 'Loop pop: a != b'
  | popPastRoot       -- `cur_loop_node` became None while popping: `None.id`
  | pushOnNone        -- EngineError 'cur_loop_node is None'
  | appendOnNone      -- EngineError 'X12SegmentDataNode child append failed'
  | pushAssert        -- AssertionError 'Loop ID … should not be in push loops'
  deriving DecidableEq, Repr

/-- `x12_node.id` of a loop given by its path -/
def idOf (l : LPath) : Option LoopId := l.getLast?

/-- `for x12_loop in pop_loops: if cur_loop_node.id != x12_loop.id: raise …; cur_loop_node = cur_loop_node.parent` -/
def popLoops : Option Cursor → List LPath → Except Crash (Option Cursor)
  | oc, [] => .ok oc
  | oc, l :: r =>
    match oc with
    | none => .error .popPastRoot
    | some c => if idOf c.path = idOf l then popLoops (parent c) r else .error .popMismatch

/-- `for x12_loop in push_loops: if cur_loop_node is None: raise …; cur_loop_node = cur_loop_node._add_loop_node(x12_loop)` -/
def pushLoops : Option Cursor → List (LPath × Nat) → Except Crash (Option Cursor)
  | oc, [] => .ok oc
  | oc, l :: r =>
    match oc with
    | none => .error .pushOnNone
    | some c => pushLoops (some (addLoopNode c l.1 l.2)) r

/-- `new_node = X12SegmentDataNode(self.x12_map_node, seg_data); new_node.parent = cur_loop_node;
    cur_loop_node.children.append(new_node)` -/
def appendSeg (oc : Option Cursor) (a : Answer) : Except Crash Cursor :=
  match oc with
  | none => .error .appendOnNone
  | some c => .ok { c with ch := c.ch ++ [DNode.seg a.seg a.path a.pos] }

/-- the `if last_path != new_path:` arm of `_add_segment` -/
def replay (c : Cursor) (a : Answer) : Except Crash Cursor :=
  match popLoops (some c) a.pops with
  | .error e => .error e
  | .ok c1 =>
    match pushLoops c1 a.pushes with
    | .error e => .error e
    | .ok c2 => appendSeg c2 a

/-- the `else:` arm ("handle loop repeat") -/
def repeatArm (c : Cursor) (a : Answer) : Except Crash Cursor :=
  match parent c with
  | none => appendSeg (some c) a
  | some p => if a.first = true then appendSeg (some (addLoopNode p a.path a.ppos)) a else appendSeg (some c) a

/-- `_add_segment(cur_data_node, segment_x12_node, seg_data, pop_loops, push_loops)` with `cur_data_node` a node of the
    tree under construction (the cursor is the loop holding it, or `cur_tree` itself) -/
def addSegment (c : Cursor) (a : Answer) : Except Crash Cursor :=
  if c.path = a.path then repeatArm c a else replay c a

/-- `X12LoopDataNode(x12_node=self.x12_map_node.parent, end_loops=pop_loops)` -/
def freshTree (a : Answer) : Cursor := { path := a.path, pos := a.ppos, ch := [], up := [] }

inductive Yield where
  | plain (s : SegInfo) (path : LPath) (pos : Nat)
  | tree (d : DNode)
  deriving Repr

/-- segments of a yielded node: the node itself, or `iterate_segments()` of the tree -/
def leavesOf : Yield → List Leaf
  | .plain s p n => [(s, p, n)]
  | .tree d => leaves d

def segsOf (y : Yield) : List SegInfo := (leavesOf y).map (fun l => l.1)

/-- `loop_id is not None and loop_id in node_x12path.loop_list` -/
def inReq (lid : Option LoopId) (a : Answer) : Bool :=
  match lid with
  | none => false
  | some l => a.path.contains l

/-- `node_x12path.loop_list[-1] == loop_id and self.x12_map_node.is_first_seg_in_loop()` -/
def isStart (lid : Option LoopId) (a : Answer) : Bool :=
  match lid with
  | none => false
  | some l => a.path.getLast? = some l && a.first

/-- `if cur_tree is not None: yield cur_tree` -/
def emit : Option Cursor → List Yield
  | none => []
  | some c => [Yield.tree c.tree]

/-- what a run produced: the nodes yielded, and the exception that ended it (if any) -/
structure Run where
  yields : List Yield
  crash : Option Crash
  deriving Repr

def Run.prepend (ys : List Yield) (r : Run) : Run := { r with yields := ys ++ r.yields }

/-- the `assert loop_id not in [x12.id for x12 in push_loops]` of the plain-segment arm (evaluated only when a
    previous node exists).  The pop-list assertion cannot fire: the list was filtered on the same id just before. -/
def pushAssertFails (lid : Option LoopId) (hasPrev : Bool) (a : Answer) : Bool :=
  match lid with
  | none => false
  | some l => hasPrev && (a.pushes.map (fun p => idOf p.1)).contains (some l)

/-- the `for seg in self.src:` loop of `iter_segments(loop_id)`.
    `cur : Option Cursor` = `cur_tree` together with `cur_data_node` when that is a node of the tree;
    `hasPrev` = `cur_data_node is not None`. -/
def runFrom (lid : Option LoopId) : Option Cursor → Bool → List Answer → Run
  | cur, _, [] => { yields := emit cur, crash := none }          -- C09-D10: the final `yield cur_tree`
  | cur, hasPrev, a :: r =>
    if inReq lid a = true then
      if isStart lid a = true then
        match addSegment (freshTree a) a with
        | .error e => { yields := emit cur, crash := some e }
        | .ok c => (runFrom lid (some c) true r).prepend (emit cur)
      else
        match cur with
        | none => { yields := [], crash := some (if hasPrev = true then Crash.plainNodeAsLoop else Crash.noCurrentNode) }
        | some c =>
          match addSegment c a with
          | .error e => { yields := [], crash := some e }
          | .ok c' => runFrom lid (some c') true r
    else
      if pushAssertFails lid hasPrev a = true then { yields := emit cur, crash := some Crash.pushAssert }
      else (runFrom lid none true r).prepend (emit cur ++ [Yield.plain a.seg a.path a.pos])

def ctxRunFull (lid : Option LoopId) (answers : List Answer) : Run := runFrom lid none false answers

/-- the nodes `iter_segments(lid)` yields, in order -/
def ctxRun (lid : Option LoopId) (answers : List Answer) : List Yield := (ctxRunFull lid answers).yields

/-! ### The assumption on the walker's answers (executable: the harness evaluates it on every real trace)

The reader's view of "where we are in the map": the open loops, innermost first, as `(id, pos)`, plus the position
of the node last placed in the innermost one. -/

structure Where where
  open_ : List (LoopId × Nat)
  last : Nat
  deriving DecidableEq, Repr

/-- map path spelled by a stack of open loops -/
def pathOf (rs : List (LoopId × Nat)) : LPath := (rs.map (fun x => x.1)).reverse

/-- a first segment reached without consulting the walker (ISA: `pop_loops = push_loops = []`) closes the previous
    instance of its loop, if one is open, and opens a new one -/
def implicitOpen (a : Answer) : Bool := a.first && a.pushes.isEmpty

def effPops (cur : LPath) (a : Answer) : List LPath :=
  if implicitOpen a = true then (if cur = a.path then [cur] else []) else a.pops

def effPushes (a : Answer) : List (LPath × Nat) :=
  if implicitOpen a = true then [(a.path, a.ppos)] else a.pushes

/-- close loops: every popped loop must be the innermost open one; returns what stays open and the position of
    the node last placed in the loop we end up in -/
def popRun : List (LoopId × Nat) → Nat → List LPath → Option (List (LoopId × Nat) × Nat)
  | rs, last, [] => some (rs, last)
  | rs, _, l :: r =>
    match rs with
    | [] => none
    | x :: rs' => if l = pathOf (x :: rs') then popRun rs' x.2 r else none

/-- open loops: every pushed loop must be a child of the innermost open one -/
def pushRun : List (LoopId × Nat) → List (LPath × Nat) → Option (List (LoopId × Nat))
  | rs, [] => some rs
  | rs, l :: r =>
    match l.1.getLast? with
    | none => none
    | some x => if l.1 = pathOf rs ++ [x] then pushRun ((x, l.2) :: rs) r else none

/-- position of the first loop opened after the pops (`lastC` itself when none is opened: a segment is always
    appended, only loops are inserted by position) -/
def firstPushPos (a : Answer) (lastC : Nat) : Nat :=
  match effPushes a with
  | [] => lastC
  | l :: _ => l.2

/-- requested-loop side conditions: only the innermost pushed loop may carry the requested id (outer pushed loops
    are wrappers, which do not begin with a segment) and the id occurs once on a path -/
def anchoredOk (lid : Option LoopId) (a : Answer) : Bool :=
  match lid with
  | none => true
  | some l => !((effPushes a).dropLast.map (fun p => idOf p.1)).contains (some l) && decide (a.path.count l ≤ 1)

def stepOk (lid : Option LoopId) (w : Where) (a : Answer) : Option Where :=
  match popRun w.open_ w.last (effPops (pathOf w.open_) a) with
  | none => none
  | some (rs1, lastC) =>
    match pushRun rs1 (effPushes a) with
    | none => none
    | some rs2 =>
      if pathOf rs2 = a.path
          ∧ (a.first = true ∨ a.pushes = [])                       -- loops are entered only at their first segment
          ∧ (a.first = true → rs2.head?.map (fun x => x.2) = some a.ppos)   -- the loop entered is the node's parent
          ∧ (pathOf w.open_ = a.path → (effPops (pathOf w.open_) a).length ≤ 1) -- a repeat closes one loop and opens it again
          ∧ (implicitOpen a = true → (pathOf w.open_ = a.path ∨ w.open_ = []))
          ∧ lastC ≤ firstPushPos a lastC                            -- positions do not decrease inside a loop instance
          ∧ anchoredOk lid a = true
      then some { open_ := rs2, last := a.pos } else none

def consistentFrom (lid : Option LoopId) : Where → List Answer → Bool
  | _, [] => true
  | w, a :: r =>
    match stepOk lid w a with
    | none => false
    | some w' => consistentFrom lid w' r

/-- pops / pushes / first-flags agree with consecutive paths, positions are monotone inside a loop instance -/
def Consistent (lid : Option LoopId) (answers : List Answer) : Prop :=
  consistentFrom lid { open_ := [], last := 0 } answers = true

instance (lid : Option LoopId) (answers : List Answer) : Decidable (Consistent lid answers) := by
  unfold Consistent; infer_instance

end Pyx12Verif.Ctx
