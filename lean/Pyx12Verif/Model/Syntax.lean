/-
Model of the syntax-note machinery of pyx12 (C14; also used by C15/C03 at segment level):

* `pyx12/syntax.py : is_syntax_valid`                 → `isSyntaxValid`
* `pyx12/map_if.py : segment_if._split_syntax`        → `splitSyntax` (and `loadNotes` for the loop in `__init__`)
* `pyx12/map_if.py : segment_if.is_valid` (last loop) → `routeNote`, `syntaxErrors`

A data segment is seen by this code only through `len(seg_data)` and `seg_data.get_value('NN')`; it is modelled
as the list of the `get_value` strings of its elements (element 1 first).  Every Python partial operation
(negative index for position 00, `IndexError` for a three-digit designator, `syn[1]` of a one-item list,
`syntax[0]` of an empty text) is an explicit outcome.  Import-free, executable, structurally recursive.
-/
namespace Pyx12Verif.Syn

/-- the elements of a segment after the segment id: `Seg.length = len(seg_data)`, entry `k-1` is what
`seg_data.get_value('%02d' % k)` returns for `1 ≤ k ≤ len` (the empty string for an empty element or a
composite whose components are all empty) -/
abbrev Seg := List (List Char)

/-- result of `seg_data.get_value(ref_des)` -/
inductive GV where
  | indexError
  | absent
  | val (v : List Char)
  deriving DecidableEq, Repr

/-- `self.elements[-1]` (reached for position `00`: `ele_idx = -1`, and `-1 >= len` is false) -/
def lastVal : Seg → GV
  | [] => .indexError
  | [v] => .val v
  | _ :: w :: r => lastVal (w :: r)

/-- `None if ele_idx >= len else self.elements[ele_idx].format()` for `ele_idx ≥ 0` -/
def nthVal : Seg → Nat → GV
  | [], _ => .absent
  | v :: _, 0 => .val v
  | _ :: r, i + 1 => nthVal r i

/-- `seg_data.get_value('{:02d}'.format(k))`: three digits are no element index (`IndexError`), `00` is index -1 -/
def getValue (seg : Seg) (k : Nat) : GV :=
  if 100 ≤ k then .indexError else if k = 0 then lastVal seg else nthVal seg (k - 1)

/-- `v != ''` -/
def nonEmptyStr : List Char → Bool
  | [] => false
  | _ :: _ => true

/-- one pass of the counting loop:  `_val = get_value(..)` (may raise) and then
`if len(seg_data) >= s and _val != '': count += 1`  (`None != ''` is true) -/
def countStep (seg : Seg) (k : Nat) : Option Nat :=
  match getValue seg k with
  | .indexError => none
  | .absent => some (if k ≤ seg.length then 1 else 0)
  | .val v => some (if k ≤ seg.length ∧ nonEmptyStr v = true then 1 else 0)

def addCount (a : Nat) : Option Nat → Option Nat
  | none => none
  | some b => some (a + b)

def countRest (rest : Option Nat) : Option Nat → Option Nat
  | none => none
  | some a => addCount a rest

/-- the counting loop over a list of positions; `none` = an exception escaped -/
def countPresent (seg : Seg) : List Nat → Option Nat
  | [] => some 0
  | k :: ks => countRest (countPresent seg ks) (countStep seg k)

/-- `get_value(..) != ''` where the length test has already succeeded -/
def valueTest (seg : Seg) (k : Nat) : Option Bool :=
  match getValue seg k with
  | .indexError => none
  | .absent => some true
  | .val v => some (nonEmptyStr v)

/-- type C guard: `len(seg_data) >= syn_idx[0] and seg_data.get_value(..) != ''` (short-circuit) -/
def headPresentC (seg : Seg) (k : Nat) : Option Bool :=
  if k ≤ seg.length then valueTest seg k else some false

/-- type L guard: `len(seg_data) > syn_idx[0] - 1 and ...` over the integers, i.e. `len + 1 > k` -/
def headPresentL (seg : Seg) (k : Nat) : Option Bool :=
  if k < seg.length + 1 then valueTest seg k else some false

inductive Verdict where
  | valid
  | violated
  | crash
  deriving DecidableEq, Repr

/-- a note as `_split_syntax` returns it: `[code, i1, i2, …]` -/
structure Note where
  code : Char
  idx : List Nat
  deriving DecidableEq, Repr

def evalP (n : Nat) : Option Nat → Verdict
  | none => .crash
  | some c => if c ≠ 0 ∧ c ≠ n then .violated else .valid

def evalR : Option Nat → Verdict
  | none => .crash
  | some c => if c = 0 then .violated else .valid

def evalE : Option Nat → Verdict
  | none => .crash
  | some c => if 1 < c then .violated else .valid

/-- `if count != len(syn_idx) - 1` -/
def evalCRest (n : Nat) : Option Nat → Verdict
  | none => .crash
  | some c => if c ≠ n then .violated else .valid

/-- `if count == 0` -/
def evalLRest : Option Nat → Verdict
  | none => .crash
  | some c => if c = 0 then .violated else .valid

def afterGuardC (seg : Seg) (rest : List Nat) : Option Bool → Verdict
  | none => .crash
  | some false => .valid
  | some true => evalCRest rest.length (countPresent seg rest)

def afterGuardL (seg : Seg) (rest : List Nat) : Option Bool → Verdict
  | none => .crash
  | some false => .valid
  | some true => evalLRest (countPresent seg rest)

def evalC (seg : Seg) : List Nat → Verdict
  | [] => .crash
  | k :: rest => afterGuardC seg rest (headPresentC seg k)

def evalL (seg : Seg) : List Nat → Verdict
  | [] => .crash
  | k :: rest => afterGuardL seg rest (headPresentL seg k)

/-- `is_syntax_valid(seg_data, syn)` with `syn = [n.code] + n.idx`; `.valid` = `(True, None)`,
`.violated` = `(False, message)`.  Fewer than two positions and an unknown type give `(False, …)`. -/
def isSyntaxValid (seg : Seg) (n : Note) : Verdict :=
  if n.idx.length + 1 < 3 then .violated
  else if n.code = 'P' then evalP n.idx.length (countPresent seg n.idx)
  else if n.code = 'R' then evalR (countPresent seg n.idx)
  else if n.code = 'E' then evalE (countPresent seg n.idx)
  else if n.code = 'C' then evalC seg n.idx
  else if n.code = 'L' then evalL seg n.idx
  else .violated

/-! ### routing of a violated note into an element-level error (`segment_if.is_valid`, last loop) -/

/-- `errh.ele_error(code, err_str, None, syn[1])` -/
structure EleErr where
  code : List Char
  pos : Nat
  deriving DecidableEq, Repr

def errCode (c : Char) : List Char := if c = 'E' then ['1', '0'] else ['2']

/-- the element error for `syn[1]`; `syn[1]` of a one-item list raises -/
def errFor (c : Char) : List Nat → Option (List EleErr)
  | [] => none
  | k :: _ => some [⟨errCode c, k⟩]

def routeVerdict (n : Note) : Verdict → Option (List EleErr)
  | .crash => none
  | .valid => some []
  | .violated => errFor n.code n.idx

/-- what one note contributes to the error list; `none` = an exception escaped -/
def routeNote (seg : Seg) (n : Note) : Option (List EleErr) :=
  routeVerdict n (isSyntaxValid seg n)

def appendErrs (a : List EleErr) : Option (List EleErr) → Option (List EleErr)
  | none => none
  | some b => some (a ++ b)

def thenErrs (rest : Option (List EleErr)) : Option (List EleErr) → Option (List EleErr)
  | none => none
  | some a => appendErrs a rest

/-- `for syn in self.syntax: …` — the syntax errors of a segment, in note order -/
def syntaxErrors (seg : Seg) : List Note → Option (List EleErr)
  | [] => some []
  | n :: ns => thenErrs (syntaxErrors seg ns) (routeNote seg n)

/-! ### note text → note (`segment_if._split_syntax`) -/

inductive Parse where
  | crash
  | dropped
  | outside
  | ok (n : Note)
  deriving DecidableEq, Repr

def isDigit (c : Char) : Bool := decide ('0' ≤ c ∧ c ≤ '9')

def digitVal (c : Char) : Nat := c.toNat - 48

def consChunk (k : Nat) : Option (List Nat) → Option (List Nat)
  | none => none
  | some ks => some (k :: ks)

/-- `[int(syntax[2i+1 : 2i+3]) for i in range(len(syntax[1:]) // 2)]`: two characters per position, an odd
trailing character is ignored.  `none`: some chunk is not two ASCII decimal digits — outside the modelled
domain (Python's `int` raises `ValueError` or accepts a sign / blank / non-ASCII digit form). -/
def chunks : List Char → Option (List Nat)
  | [] => some []
  | [_] => some []
  | a :: b :: r =>
    if isDigit a = true ∧ isDigit b = true then consChunk (digitVal a * 10 + digitVal b) (chunks r) else none

def knownCode (c : Char) : Bool :=
  decide (c = 'P' ∨ c = 'R' ∨ c = 'C' ∨ c = 'L' ∨ c = 'E')

def parseOf (c : Char) : Option (List Nat) → Parse
  | none => .outside
  | some ks => .ok ⟨c, ks⟩

/-- `_split_syntax(text)`: `.dropped` = returns `None` (unknown type letter), `.crash` = `syntax[0]` of `''` -/
def splitSyntax : List Char → Parse
  | [] => .crash
  | c :: r => if knownCode c = true then parseOf c (chunks r) else .dropped

def consNote (n : Note) : Option (List Note) → Option (List Note)
  | none => none
  | some ns => some (n :: ns)

def keepParse (rest : Option (List Note)) : Parse → Option (List Note)
  | .crash => none
  | .outside => none
  | .dropped => rest
  | .ok n => consNote n rest

/-- `for s in elem.findall('syntax'): syn_list = self._split_syntax(s.text); if syn_list is not None: append` -/
def loadNotes : List (List Char) → Option (List Note)
  | [] => some []
  | t :: ts => keepParse (loadNotes ts) (splitSyntax t)

/-- two decimal digits of a position below 100 (how the maps write a position) -/
def twoDigits (k : Nat) : List Char := [Char.ofNat (48 + k / 10), Char.ofNat (48 + k % 10)]

def renderIdx : List Nat → List Char
  | [] => []
  | k :: ks => twoDigits k ++ renderIdx ks

/-- the note text of a note, e.g. `⟨'P', [3, 4]⟩ ↦ "P0304"` -/
def render (n : Note) : List Char := n.code :: renderIdx n.idx

/-! ### hypothesis check for map notes (not pyx12 code): evaluated by the driver for every note of every map -/

def nodupB : List Nat → Bool
  | [] => true
  | k :: ks => !(ks.contains k) && nodupB ks

/-- at least two positions, each in 01..99, none listed twice, known type letter -/
def wfB (n : Note) : Bool :=
  decide (2 ≤ n.idx.length) && n.idx.all (fun k => decide (1 ≤ k) && decide (k < 100)) && nodupB n.idx && knownCode n.code

/-- every position is one of the segment's children (not needed by the theorems; reported as map information) -/
def withinB (n : Note) (childCount : Nat) : Bool := n.idx.all (fun k => decide (k ≤ childCount))

end Pyx12Verif.Syn
