/-
Model of the XML sink: pyx12/xmlwriter.py (XMLWriter.push / elem / pop / _escape_cont / _escape_attr / _indent),
pyx12/x12xml.py (_path_list, _get_path_match_idx) and pyx12/x12xml_simple.py (x12xml_simple.__init__, seg,
__del__), as driven by x12n_document (`xmldoc.seg(node, seg)` once per segment, `del xmldoc` at the end).

Shape of the model
* The writer's only state is its `stack` of open element *names* (Python order: innermost last).  What it
  writes is modelled as a list of events `Ev` (start tag with the `id` attribute, text element, end tag —
  the end tag carries the name `pop()` takes from the stack); `render` turns events into the exact text
  (indentation = two blanks per open element, attribute in single quotes, escaping).
* `seg()` receives the enclosing loop's path as the list `_path_list(parent.get_path())` of loop ids, the
  flag `seg_node.is_first_seg_in_loop()`, the part of the segment node the code reads (`SegDef`: id, children
  with `seq`, `usage == 'N'`, kind, ids) and the data segment (`Segment.SegObj`).
* `os.path.commonprefix([a, b])` of two strings is their longest common character prefix (`commonPrefix`);
  the code applies it to the '/'-joined paths — kept exactly so (`rootPath`).  The side condition under which
  that equals the component-wise comparison is `noSiblingLoopIdPrefix` (with `idsOK`), see Props/C08.
* Python partial operations are explicit: `cur_path[-1]` on an empty path (`index`), `None.usage` /
  `None.id` when the data has more (sub-)elements than the node (`attribute`, defect D18),
  `get_child_node_by_idx` not finding a unique `seq` (`engine`), and whatever `Segment.get` raises (`seg e`).
  A decremented `match_idx` of `-1` is kept as Python treats it (`range(-1, n)` and `cur_path[-1]`).
-/
import Pyx12Verif.Model.Segment

namespace Pyx12Verif.Xml
open Pyx12Verif.Path Pyx12Verif.Segment

abbrev Str := List Char

/-! ### xmlwriter.py -/

/-- `s.replace(c, rep)` for a one-character pattern -/
def replaceChar (c : Char) (rep : Str) : Str → Str
  | [] => []
  | x :: r => if x = c then rep ++ replaceChar c rep r else x :: replaceChar c rep r

def entAmp : Str := ['&', 'a', 'm', 'p', ';']
def entLt : Str := ['&', 'l', 't', ';']
def entGt : Str := ['&', 'g', 't', ';']
def entApos : Str := ['&', 'a', 'p', 'o', 's', ';']
def entQuot : Str := ['&', 'q', 'u', 'o', 't', ';']

/-- `_escape_cont`: `text.replace("&", "&amp;").replace("<", "&lt;").replace(">", "&gt;")` -/
def escapeText (s : Str) : Str :=
  replaceChar '>' entGt (replaceChar '<' entLt (replaceChar '&' entAmp s))

/-- `_escape_attr`: `&`, then `'`, then `<`, then `>` -/
def escapeAttr (s : Str) : Str :=
  replaceChar '>' entGt (replaceChar '<' entLt (replaceChar '\'' entApos (replaceChar '&' entAmp s)))

/-- what the writer emits -/
inductive Ev
  /-- `push(tag, {'id': id})` (`none`: no attribute) -/
  | start (tag : Str) (id : Option Str)
  /-- `elem(tag, text, {'id': id})` -/
  | leaf (tag : Str) (id : Str) (text : Str)
  /-- `pop()`: the name is the one taken from the stack -/
  | stop (tag : Str)
  deriving DecidableEq, Repr

/-- writer: open element names (innermost last) and what has been written in the current call -/
structure W where
  stack : List Str
  out : List Ev
  deriving DecidableEq, Repr

def W.push (w : W) (tag : Str) (id : Option Str) : W := ⟨w.stack ++ [tag], w.out ++ [.start tag id]⟩

def W.elem (w : W) (tag id text : Str) : W := ⟨w.stack, w.out ++ [.leaf tag id text]⟩

/-- `pop()`: nothing happens on an empty stack -/
def W.pop (w : W) : W :=
  match w.stack.getLast? with
  | none => w
  | some t => ⟨w.stack.dropLast, w.out ++ [.stop t]⟩

def popN : Nat → W → W
  | 0, w => w
  | n + 1, w => popN n w.pop

/-! text of the events (`_indent` = `indent * (len(stack) * 2)`, indent = one blank) -/

def indentOf (depth : Nat) : Str := List.replicate (depth * 2) ' '

def attrText : Option Str → Str
  | none => []
  | some v => [' ', 'i', 'd', '=', '\''] ++ escapeAttr v ++ ['\'']

/-- `depth` = `len(stack)` before the event -/
def renderFrom : Nat → List Ev → Str
  | _, [] => []
  | d, .start t i :: r => indentOf d ++ '<' :: t ++ attrText i ++ ['>', '\n'] ++ renderFrom (d + 1) r
  | d, .leaf t i x :: r =>
      indentOf d ++ '<' :: t ++ attrText (some i) ++ '>' :: escapeText x ++ '<' :: '/' :: t ++ ['>', '\n']
        ++ renderFrom d r
  | d, .stop t :: r => indentOf (d - 1) ++ '<' :: '/' :: t ++ ['>', '\n'] ++ renderFrom (d - 1) r

def xmlDecl : Str := "<?xml version=\"1.0\" encoding=\"utf-8\"?>\n".toList

/-! ### x12xml.py helpers -/

/-- `_path_list`: `[x for x in path_str.split('/') if x != '']` -/
def pathList (s : Str) : List Str := (splitOn '/' s).filter (fun x => !x.isEmpty)

/-- `os.path.commonprefix` of two strings -/
def commonPrefix : Str → Str → Str
  | [], _ => []
  | _ :: _, [] => []
  | a :: r, b :: s => if a = b then a :: commonPrefix r s else []

/-- `_get_path_match_idx(last_path, cur_path)` -/
def pathMatchIdx : List Str → List Str → Nat
  | [], _ => 0
  | _ :: _, [] => 0
  | a :: r, b :: s => if a = b then pathMatchIdx r s + 1 else 0

/-- `self._path_list(commonprefix(['/'.join(cur_path), '/'.join(last_path)]))` -/
def rootPath (cur last : List Str) : List Str :=
  pathList (commonPrefix (joinWith '/' cur) (joinWith '/' last))

/-! ### the part of a segment node that `seg()` reads -/

inductive ChildDef
  /-- `element_if`: seq, id, `usage == 'N'` -/
  | elem (seq : Nat) (xid : Str) (notUsed : Bool)
  /-- `composite_if`: seq, `usage == 'N'`, ids of the sub-element nodes in list order -/
  | comp (seq : Nat) (notUsed : Bool) (subs : List Str)
  deriving DecidableEq, Repr

def ChildDef.seq : ChildDef → Nat
  | .elem s _ _ => s
  | .comp s _ _ => s

def ChildDef.notUsed : ChildDef → Bool
  | .elem _ _ n => n
  | .comp _ n _ => n

structure SegDef where
  sid : Str
  children : List ChildDef
  deriving DecidableEq, Repr

inductive XErr
  | index            -- IndexError: cur_path[-1] of an empty path
  | attribute        -- AttributeError: None.usage / None.id / None.is_empty
  | engine           -- EngineError: get_child_node_by_idx finds no unique seq
  | seg (e : Segment.Err)
  | typeError        -- TypeError (reader side: missing id attribute)
  deriving DecidableEq, Repr

/-- `m = [c for c in self.children if c.seq == idx + 1]`; exactly one, else EngineError -/
def uniqueChild : List ChildDef → Except XErr (Option ChildDef)
  | [] => .error .engine
  | [c] => .ok (some c)
  | _ :: _ :: _ => .error .engine

/-- `segment_if.get_child_node_by_idx(idx)` -/
def childByIdx (children : List ChildDef) (idx : Nat) : Except XErr (Option ChildDef) :=
  if children.length ≤ idx then .ok none
  else uniqueChild (children.filter (fun c => c.seq == idx + 1))

def tagLoop : Str := ['l', 'o', 'o', 'p']
def tagSeg : Str := ['s', 'e', 'g']
def tagComp : Str := ['c', 'o', 'm', 'p']
def tagEle : Str := ['e', 'l', 'e']
def tagSubele : Str := ['s', 'u', 'b', 'e', 'l', 'e']
def tagRoot : Str := ['x', '1', '2', 's', 'i', 'm', 'p', 'l', 'e']

/-- `Composite.is_empty()` -/
def compIsEmpty (c : Comp) : Bool := c.subs.all (fun v => v.isEmpty)

/-- `for j in range(len(comp_data)): … self.writer.elem("subele", comp_data[j].get_value(), {'id': subele_node.id})`;
    `ids` = the sub-element nodes not yet consumed (`composite_if.get_child_node_by_idx(j)` = `children[j]` or `None`) -/
def subLoop : List Str → List Str → W → Except XErr W
  | _, [], w => .ok w
  | [], _ :: _, _ => .error .attribute
  | xid :: ids, v :: vs, w => subLoop ids vs (w.elem tagSubele xid v)

/-- the simple-element branch; `v` = `seg_data.get_value(ref)` -/
def eleOut (xid : Str) (w : W) : Except Segment.Err (Option Str) → Except XErr W
  | .error e => .error (.seg e)
  | .ok none => .error .attribute          -- not reachable (index < len): `None == ''` is False, then elem(None)
  | .ok (some v) => if v.isEmpty then .ok w else .ok (w.elem tagEle xid v)

def compOut (sid : Str) (subs : List Str) (c : Comp) (w : W) : Except XErr W :=
  match subLoop subs c.subs (w.push tagComp (some sid)) with
  | .error e => .error e
  | .ok w' => .ok w'.pop

/-- after the `usage == 'N'` test: `seg_data.get(ref).is_empty()` and the two branches -/
def childOut (sid : Str) (seg : SegObj) (ref : Str) (c : ChildDef) (w : W) :
    Except Segment.Err Got → Except XErr W
  | .error e => .error (.seg e)
  | .ok .nothing => .error .attribute
  | .ok (.elem _) => .error .attribute       -- `get` without sub-index never returns an Element
  | .ok (.comp data) =>
    if compIsEmpty data then .ok w
    else
      match c with
      | .comp _ _ subs => compOut sid subs data w
      | .elem _ xid _ => eleOut xid w (Segment.getValue seg ref)

/-- one iteration of `for i in range(len(seg_data))` -/
def elemStep (node : SegDef) (seg : SegObj) (i : Nat) (w : W) : Except XErr W :=
  match childByIdx node.children i with
  | .error e => .error e
  | .ok none => .error .attribute            -- `None.usage` (D18)
  | .ok (some c) =>
    if c.notUsed then .ok w
    else childOut node.sid seg (pad2 (i + 1)) c w (Segment.get seg (pad2 (i + 1)))

/-- iterations `i, i+1, …` (`n` of them) -/
def elemLoop (node : SegDef) (seg : SegObj) : Nat → Nat → W → Except XErr W
  | 0, _, w => .ok w
  | n + 1, i, w =>
    match elemStep node seg i w with
    | .error e => .error e
    | .ok w' => elemLoop node seg n (i + 1) w'

/-- from `self.writer.push("seg", …)` to the closing `self.writer.pop()` -/
def segOut (node : SegDef) (seg : SegObj) (w : W) : Except XErr W :=
  match elemLoop node seg seg.elements.length 0 (w.push tagSeg (some node.sid)) with
  | .error e => .error e
  | .ok w' => .ok w'.pop

/-! ### x12xml_simple.seg -/

structure Step where
  path : List Str          -- `_path_list(parent.get_path())`
  first : Bool             -- `seg_node.is_first_seg_in_loop()`
  node : SegDef
  seg : SegObj
  deriving Repr

structure St where
  lastPath : List Str
  stack : List Str
  deriving DecidableEq, Repr

def pushAll : List Str → W → W
  | [], w => w
  | l :: r, w => pushAll r (w.push tagLoop (some l))

/-- number of iterations of `for i in range(len(last_path) - 1, match_idx - 1, -1)` -/
def popCount (lastLen : Nat) : PyIdx → Nat
  | .neg1 => lastLen + 1
  | .nat k => lastLen - k

/-- `for i in range(match_idx, len(cur_path)): push(loop cur_path[i])`; `-1` indexes the last component -/
def pushFrom (cur : List Str) : PyIdx → W → Except XErr W
  | .nat k, w => .ok (pushAll (cur.drop k) w)
  | .neg1, w =>
    match cur.getLast? with
    | none => .error .index
    | some l => .ok (pushAll cur (w.push tagLoop (some l)))

/-- `match_idx`, decremented when `is_first_seg_in_loop() and root_path == cur_path` -/
def matchIdx (last cur : List Str) (first : Bool) : PyIdx :=
  if first && rootPath cur last == cur then pyPred (pathMatchIdx last cur) else .nat (pathMatchIdx last cur)

/-- the loop bookkeeping of `seg()` (everything before the segment itself) -/
def transition (last cur : List Str) (first : Bool) (w : W) : Except XErr W :=
  if last == cur && first then
    (match cur.getLast? with
     | none => .error .index
     | some l => .ok (w.pop.push tagLoop (some l)))
  else pushFrom cur (matchIdx last cur first) (popN (popCount last.length (matchIdx last cur first)) w)

/-- `x12xml_simple.seg(seg_node, seg_data)`: new state and the events written -/
def segStep (st : St) (x : Step) : Except XErr (St × List Ev) :=
  match transition st.lastPath x.path x.first ⟨st.stack, []⟩ with
  | .error e => .error e
  | .ok w =>
    match segOut x.node x.seg w with
    | .error e => .error e
    | .ok w' => .ok (⟨x.path, w'.stack⟩, w'.out)

def run : St → List Step → Except XErr (St × List Ev)
  | st, [] => .ok (st, [])
  | st, x :: r =>
    match segStep st x with
    | .error e => .error e
    | .ok (st', evs) =>
      match run st' r with
      | .error e => .error e
      | .ok (st'', evs') => .ok (st'', evs ++ evs')

/-- `x12xml_simple.__init__` (no DTD: `params['simple_dtd']` is empty) -/
def initSt : St := ⟨[], [tagRoot]⟩
def initEvs : List Ev := [.start tagRoot none]

/-- `__del__`: `while len(self.writer) > 0: self.writer.pop()` -/
def delEvs (st : St) : List Ev := (popN st.stack.length ⟨st.stack, []⟩).out

/-- all events of one document -/
def docEvents (steps : List Step) : Except XErr (List Ev) :=
  match run initSt steps with
  | .error e => .error e
  | .ok (st, evs) => .ok (initEvs ++ evs ++ delEvs st)

def docText (steps : List Step) : Except XErr Str :=
  match docEvents steps with
  | .error e => .error e
  | .ok evs => .ok (xmlDecl ++ renderFrom 0 evs)

/-! ### per-map side conditions (decidable; evaluated for every shipped map by the harness through the driver) -/

def isCharPrefix : Str → Str → Bool
  | [], _ => true
  | _ :: _, [] => false
  | a :: r, b :: s => a == b && isCharPrefix r s

/-- the first components at which two loop paths differ are not textual prefixes of one another -/
def sibOK : List Str → List Str → Bool
  | [], _ => true
  | _ :: _, [] => true
  | a :: p, b :: q => if a = b then sibOK p q else !isCharPrefix a b && !isCharPrefix b a

def idOK (s : Str) : Bool := !s.isEmpty && !s.contains '/'

def idsOK (p : List Str) : Bool := p.all idOK

def allPairs (f : List Str → List Str → Bool) (ps : List (List Str)) : Bool :=
  ps.all (fun p => ps.all (fun q => f p q))

/-- over the loop paths of one map -/
def noSiblingLoopIdPrefix (paths : List (List Str)) : Bool :=
  paths.all idsOK && allPairs sibOK paths

/-- `[A-Z][A-Z0-9]{1,2}` -/
def segIdOK (s : Str) : Bool := (s.length == 2 || s.length == 3) && segShape s

/-- `xid` = `pre ++ ds` with `ds` a non-empty digit string of value `k` -/
def isNumSuffix (pre : Str) (k : Nat) : Str → Bool
  | xid => isCharPrefix pre xid && !(xid.drop pre.length).isEmpty && (xid.drop pre.length).all isDigit
            && num (xid.drop pre.length) == k

def subIdsOK (pre : Str) : Nat → List Str → Bool
  | _, [] => true
  | j, x :: r => isNumSuffix pre (j + 1) x && subIdsOK pre (j + 1) r

/-- element id = segment id + two-digit position; sub-element id = that + `-` + its position -/
def childIdOK (sid : Str) (i : Nat) : ChildDef → Bool
  | .elem seq xid _ => seq == i + 1 && xid == sid ++ pad2 (i + 1)
  | .comp seq _ subs => seq == i + 1 && subIdsOK (sid ++ pad2 (i + 1) ++ ['-']) 0 subs

def childrenIdsOK (sid : Str) : Nat → List ChildDef → Bool
  | _, [] => true
  | i, c :: r => childIdOK sid i c && childrenIdsOK sid (i + 1) r

def wfIds (node : SegDef) : Bool :=
  segIdOK node.sid && decide (node.children.length ≤ 99) && childrenIdsOK node.sid 0 node.children

end Pyx12Verif.Xml
