/-
Model of `pyx12/error_handler.py`: class `err_handler` (the attach state machine with its "current"
pointers) and the node classes `err_isa / err_gs / err_st / err_seg / err_ele`.

Python keeps object references (`cur_isa_node`, `cur_gs_node`, `cur_st_node`, `cur_seg_node`, `cur_ele_node`);
here a reference to a node that is linked into the tree is the index path of that node (nodes are only ever
appended, never removed, so a path stays valid), a node that has been created but not linked yet
(`add_seg` / `add_ele` only *prepare* a node) is carried by value (`pending`).

  * `seg_node_added = False`  ⇔  `curSeg` is `pending`   (set False only by `add_seg`, which creates the node)
  * `ele_node_added` does not exist before the first `add_ele` (reading it raises `AttributeError`)  ⇔ `curEle = none`;
    `False` ⇔ `pending`; `True` ⇔ `linked`
  * a linked `cur_ele_node` is always the *last* entry of the `elements` list it was appended to (an append to any
    `elements` list is an append of `cur_ele_node`, and `add_ele` replaces `cur_ele_node` before the next one)

Every Python exception is an explicit `Res.crash`; the bare `except:` of `seg_error` is the explicit "lost" branch
(ghost counter `lost`, not present in Python).  `int(GE01)` is classified by the caller (`GeCount`).
-/
namespace Pyx12Verif.ErrTree

abbrev Str := List Char

/-- `(err_cde, err_str, bad_value)` of `err_ele.errors` -/
structure EleErr where
  code : Str
  msg : Str
  value : Option Str
deriving DecidableEq, Repr

structure Ele where
  pos : Nat
  subpos : Option Nat
  refNum : Option Str
  errors : List EleErr
deriving DecidableEq, Repr

/-- `(err_cde, err_str, err_value)` of `err_seg.errors` (message text not modelled) -/
structure SegErr where
  code : Str
  value : Option Str
deriving DecidableEq, Repr

structure Seg where
  segId : Str
  segCount : Nat
  lsId : Option Str
  errors : List SegErr
  elements : List Ele
deriving DecidableEq, Repr

structure St where
  trnSetId : Option Str
  ctlNum : Option Str
  vriic : Option Str
  ackCode : Str
  closed : Bool
  errors : List Str
  elements : List Ele
  children : List Seg
deriving DecidableEq, Repr

structure Gs where
  fic : Option Str
  gs02 : Option Str
  gs03 : Option Str
  gs06 : Option Str
  gs07 : Option Str
  vriic : Option Str
  ctlNum : Option Str
  ackCode : Option Str
  countOrig : Int
  countRecv : Nat
  closed : Bool
  errors : List Str
  elements : List Ele
  children : List St
deriving DecidableEq, Repr

structure Isa where
  e05 : Option Str
  e06 : Option Str
  e07 : Option Str
  e08 : Option Str
  origDate : Option Str
  origTime : Option Str
  e11 : Option Str
  e12 : Option Str
  trnSetId : Option Str
  ta1Req : Option Str
  e15 : Option Str
  closed : Bool
  errors : List Str
  elements : List Ele
  children : List Gs
deriving DecidableEq, Repr

abbrev Tree := List Isa

/-- a node that owns an `elements` list and can be `cur_seg_node` -/
inductive Host where
  | isa (i : Nat)
  | gs (i g : Nat)
  | st (i g s : Nat)
  | seg (i g s k : Nat)
deriving DecidableEq, Repr

inductive SegPtr where
  | none
  | host (h : Host)
  | pending (s : Seg)
deriving DecidableEq, Repr

inductive ElePtr where
  | none
  | pending (e : Ele)
  | linked (h : Host)
deriving DecidableEq, Repr

structure State where
  tree : Tree
  curIsa : Option Nat
  curGs : Option (Nat × Nat)
  curSt : Option (Nat × Nat × Nat)
  curSeg : SegPtr
  curEle : ElePtr
  lost : Nat
deriving DecidableEq, Repr

def State.init : State :=
  { tree := [], curIsa := none, curGs := none, curSt := none, curSeg := .none, curEle := .none, lost := 0 }

/-- where a Python exception is raised -/
inductive Site where
  | addGsNoIsa | addStNoGs | addEleNoSeg
  | isaErrorNoIsa | gsErrorNoGs | stErrorNoSt
  | eleErrorNoSt | eleErrorNoEle | eleErrorNoSeg
  | closeIsaNoIsa | closeGsNoGs | closeStNoSt
deriving DecidableEq, Repr

inductive Res (α : Type) where
  | ok (a : α)
  | crash (s : Site)
deriving DecidableEq, Repr

/-- result of `int(seg_data.get_value('GE01'))`: a number, `ValueError` (`bad`) or `TypeError` (`absent`: GE01 is `None`) -/
inductive GeCount where
  | num (n : Int)
  | bad
  | absent
deriving DecidableEq, Repr

/-- `err_gs.close` after the repair of D7: `except (TypeError, ValueError): st_count_orig = 0` -/
def GeCount.value : GeCount → Int
  | .num n => n
  | .bad => 0
  | .absent => 0

structure IsaData where
  e05 : Option Str
  e06 : Option Str
  e07 : Option Str
  e08 : Option Str
  e09 : Option Str
  e10 : Option Str
  e11 : Option Str
  e12 : Option Str
  e13 : Option Str
  e14 : Option Str
  e15 : Option Str
deriving DecidableEq, Repr

structure GsData where
  e01 : Option Str
  e02 : Option Str
  e03 : Option Str
  e06 : Option Str
  e07 : Option Str
  e08 : Option Str
  ctl : Option Str
deriving DecidableEq, Repr

structure StData where
  e01 : Option Str
  e03 : Option Str
  ctl : Option Str
deriving DecidableEq, Repr

inductive Event where
  | addIsa (d : IsaData)
  | addGs (d : GsData)
  | addSt (d : StData)
  | addSeg (segId : Str) (segCount : Nat) (lsId : Option Str)
  | addEle (pos : Nat) (subpos : Option Nat) (refNum : Option Str)
  | isaError (code : Str)
  | gsError (code : Str)
  | stError (code : Str)
  | segError (code : Str) (value : Option Str)
  | eleError (code : Str) (msg : Str) (value : Option Str)
  | closeSt
  | closeGs (ge : GeCount) (recv : Nat)
  | closeIsa
deriving DecidableEq, Repr

/-! ### list helpers -/

def modNth {α : Type} (f : α → α) : List α → Nat → List α
  | [], _ => []
  | x :: xs, 0 => f x :: xs
  | x :: xs, n + 1 => x :: modNth f xs n

def modLast {α : Type} (f : α → α) : List α → List α
  | [] => []
  | [x] => [f x]
  | x :: y :: r => x :: modLast f (y :: r)

/-! ### node constructors (`__init__`) -/

def mkIsa (d : IsaData) : Isa :=
  { e05 := d.e05, e06 := d.e06, e07 := d.e07, e08 := d.e08, origDate := d.e09, origTime := d.e10,
    e11 := d.e11, e12 := d.e12, trnSetId := d.e13, ta1Req := d.e14, e15 := d.e15,
    closed := false, errors := [], elements := [], children := [] }

def mkGs (d : GsData) : Gs :=
  { fic := d.e01, gs02 := d.e02, gs03 := d.e03, gs06 := d.e06, gs07 := d.e07, vriic := d.e08, ctlNum := d.ctl,
    ackCode := none, countOrig := 0, countRecv := 0, closed := false, errors := [], elements := [], children := [] }

def mkSt (d : StData) : St :=
  { trnSetId := d.e01, ctlNum := d.ctl, vriic := d.e03, ackCode := ['R'], closed := false,
    errors := [], elements := [], children := [] }

/-! ### counting (`err_count`, `child_err_count`, `get_error_count`) -/

def Ele.errCount (e : Ele) : Nat := e.errors.length

def eleChildErrCount : List Ele → Nat
  | [] => 0
  | e :: r => (if e.errCount > 0 then 1 else 0) + eleChildErrCount r

def Seg.childErrCount (s : Seg) : Nat := eleChildErrCount s.elements

def Seg.errCount (s : Seg) : Nat := s.errors.length + (if s.childErrCount > 0 then 1 else 0)

def segChildErrCount : List Seg → Nat
  | [] => 0
  | s :: r => (if s.errCount > 0 then 1 else 0) + segChildErrCount r

def St.childErrCount (s : St) : Nat := segChildErrCount s.children

/-- `err_st.err_count` (= `get_error_count`): the `elements` of the set node are *not* counted -/
def St.errCount (s : St) : Nat := s.errors.length + (if s.childErrCount > 0 then 1 else 0)

def sumEleErrors : List Ele → Nat
  | [] => 0
  | e :: r => e.errCount + sumEleErrors r

def sumStErrors : List St → Nat
  | [] => 0
  | s :: r => s.errCount + sumStErrors r

def Gs.errorCount (g : Gs) : Nat := sumEleErrors g.elements + sumStErrors g.children + g.errors.length

def sumGsErrors : List Gs → Nat
  | [] => 0
  | g :: r => g.errorCount + sumGsErrors r

def Isa.errorCount (a : Isa) : Nat := sumEleErrors a.elements + sumGsErrors a.children + a.errors.length

/-- `err_handler.get_error_count` -/
def errorCount : Tree → Nat
  | [] => 0
  | a :: r => a.errorCount + errorCount r

/-- tail of `x12n_document`: `not valid or errh.get_error_count() > 0` ⇒ False -/
def verdict (valid : Bool) (t : Tree) : Bool := valid && errorCount t == 0

/-! ### ack codes fixed by `close` -/

def anyStHasErrors : List St → Bool
  | [] => false
  | s :: r => if s.errCount > 0 then true else anyStHasErrors r

/-- `err_gs._get_ack_code` -/
def Gs.getAckCode (g : Gs) : Str :=
  if anyStHasErrors g.children then ['R'] else if g.errors.length > 0 then ['R'] else ['A']

/-- `err_gs.count_failed_st`: children whose `ack_code not in ['A', 'E']` -/
def countFailedSt : List St → Nat
  | [] => 0
  | s :: r => (if s.ackCode = ['A'] ∨ s.ackCode = ['E'] then 0 else 1) + countFailedSt r

def St.close (s : St) : St :=
  { s with closed := true, ackCode := if s.errCount > 0 then ['R'] else ['A'] }

def Gs.closeWith (g : Gs) (orig : Int) (recv : Nat) : Gs :=
  { g with closed := true, ackCode := some g.getAckCode, countOrig := orig, countRecv := recv }

/-! ### tree access by path -/

def getGs (t : Tree) (i g : Nat) : Option Gs := (t[i]?).bind (fun a => a.children[g]?)
def getSt (t : Tree) (i g s : Nat) : Option St := (getGs t i g).bind (fun x => x.children[s]?)
def getSeg (t : Tree) (i g s k : Nat) : Option Seg := (getSt t i g s).bind (fun x => x.children[k]?)

def modIsa (t : Tree) (i : Nat) (f : Isa → Isa) : Tree := modNth f t i
def modGs (t : Tree) (i g : Nat) (f : Gs → Gs) : Tree :=
  modIsa t i (fun a => { a with children := modNth f a.children g })
def modSt (t : Tree) (i g s : Nat) (f : St → St) : Tree :=
  modGs t i g (fun x => { x with children := modNth f x.children s })
def modSeg (t : Tree) (i g s k : Nat) (f : Seg → Seg) : Tree :=
  modSt t i g s (fun x => { x with children := modNth f x.children k })

/-- `host.elements.append(e)` -/
def appendEle (t : Tree) (h : Host) (e : Ele) : Tree :=
  match h with
  | .isa i => modIsa t i (fun a => { a with elements := a.elements ++ [e] })
  | .gs i g => modGs t i g (fun x => { x with elements := x.elements ++ [e] })
  | .st i g s => modSt t i g s (fun x => { x with elements := x.elements ++ [e] })
  | .seg i g s k => modSeg t i g s k (fun x => { x with elements := x.elements ++ [e] })

def Ele.addError (e : Ele) (x : EleErr) : Ele := { e with errors := e.errors ++ [x] }

/-- `host.elements[-1].add_error(…)` (the linked `cur_ele_node`) -/
def addErrLastEle (t : Tree) (h : Host) (x : EleErr) : Tree :=
  match h with
  | .isa i => modIsa t i (fun a => { a with elements := modLast (fun e => e.addError x) a.elements })
  | .gs i g => modGs t i g (fun a => { a with elements := modLast (fun e => e.addError x) a.elements })
  | .st i g s => modSt t i g s (fun a => { a with elements := modLast (fun e => e.addError x) a.elements })
  | .seg i g s k => modSeg t i g s k (fun a => { a with elements := modLast (fun e => e.addError x) a.elements })

/-- number of children of the set at a path (index the next linked segment gets) -/
def stChildCount (t : Tree) (p : Nat × Nat × Nat) : Nat :=
  match getSt t p.1 p.2.1 p.2.2 with
  | some s => s.children.length
  | none => 0

/-! ### the methods of `err_handler` -/

def addIsaLoop (s : State) (d : IsaData) : State :=
  { s with tree := s.tree ++ [mkIsa d], curIsa := some s.tree.length, curSeg := .host (.isa s.tree.length) }

def gsChildCount (t : Tree) (i : Nat) : Nat :=
  match t[i]? with
  | some a => a.children.length
  | none => 0

def addGsLoop (s : State) (d : GsData) : Res State :=
  match s.curIsa with
  | none => .crash .addGsNoIsa
  | some i =>
    .ok { s with tree := modIsa s.tree i (fun a => { a with children := a.children ++ [mkGs d] }),
                 curGs := some (i, gsChildCount s.tree i),
                 curSeg := .host (.gs i (gsChildCount s.tree i)) }

def stChildCountGs (t : Tree) (p : Nat × Nat) : Nat :=
  match getGs t p.1 p.2 with
  | some g => g.children.length
  | none => 0

def addStLoop (s : State) (d : StData) : Res State :=
  match s.curGs with
  | none => .crash .addStNoGs
  | some p =>
    .ok { s with tree := modGs s.tree p.1 p.2 (fun x => { x with children := x.children ++ [mkSt d] }),
                 curSt := some (p.1, p.2, stChildCountGs s.tree p),
                 curSeg := .host (.st p.1 p.2 (stChildCountGs s.tree p)) }

def addSeg (s : State) (segId : Str) (segCount : Nat) (lsId : Option Str) : State :=
  { s with curSeg := .pending { segId := segId, segCount := segCount, lsId := lsId, errors := [], elements := [] } }

/-- `_add_cur_seg`: `none` = `AttributeError` (`cur_st_node` is `None`; in the initial state `seg_node_added` is
`False` while both `cur_seg_node` and `cur_st_node` are `None`) -/
def addCurSeg (s : State) : Option State :=
  match s.curSeg with
  | .pending sg =>
    match s.curSt with
    | none => none
    | some p =>
      some { s with tree := modSt s.tree p.1 p.2.1 p.2.2 (fun x => { x with children := x.children ++ [sg] }),
                    curSeg := .host (.seg p.1 p.2.1 p.2.2 (stChildCount s.tree p)) }
  | .host _ => some s
  | .none => none

def addEle (s : State) (pos : Nat) (subpos : Option Nat) (refNum : Option Str) : Res State :=
  match s.curSeg with
  | .none => .crash .addEleNoSeg
  | .host _ => .ok { s with curEle := .pending { pos := pos, subpos := subpos, refNum := refNum, errors := [] } }
  | .pending _ => .ok { s with curEle := .pending { pos := pos, subpos := subpos, refNum := refNum, errors := [] } }

def isaError (s : State) (code : Str) : Res State :=
  match s.curIsa with
  | none => .crash .isaErrorNoIsa
  | some i => .ok { s with tree := modIsa s.tree i (fun a => { a with errors := a.errors ++ [code] }) }

def gsError (s : State) (code : Str) : Res State :=
  match s.curGs with
  | none => .crash .gsErrorNoGs
  | some p => .ok { s with tree := modGs s.tree p.1 p.2 (fun a => { a with errors := a.errors ++ [code] }) }

def stError (s : State) (code : Str) : Res State :=
  match s.curSt with
  | none => .crash .stErrorNoSt
  | some p => .ok { s with tree := modSt s.tree p.1 p.2.1 p.2.2 (fun a => { a with errors := a.errors ++ [code] }) }

/-- `cur_seg_node.add_error(err_cde, err_str, err_value)`: only `err_seg.add_error` takes three arguments; on an
envelope node it is a `TypeError`, on `None` an `AttributeError` (both swallowed by the caller) -/
def segAddError (s : State) (x : SegErr) : Option State :=
  match s.curSeg with
  | .host (.seg i g st k) =>
    some { s with tree := modSeg s.tree i g st k (fun a => { a with errors := a.errors ++ [x] }) }
  | .host (.isa _) => none
  | .host (.gs _ _) => none
  | .host (.st _ _ _) => none
  | .pending _ => none
  | .none => none

/-- `seg_error`: `try: _add_cur_seg(); cur_seg_node.add_error(...)  except: <log only>` -/
def segError (s : State) (code : Str) (value : Option Str) : State :=
  match addCurSeg s with
  | none => { s with lost := s.lost + 1 }
  | some s1 =>
    match segAddError s1 { code := code, value := value } with
    | none => { s1 with lost := s1.lost + 1 }
    | some s2 => s2

/-- second half of `_add_cur_ele` + `cur_ele_node.add_error` + the `cur_seg_node.get_cur_line()` of the log line -/
def eleErrorLinked (s : State) (x : EleErr) : Res State :=
  match s.curEle with
  | .none => .crash .eleErrorNoEle
  | .linked h =>
    (match s.curSeg with
     | .none => .crash .eleErrorNoSeg
     | .host _ => .ok { s with tree := addErrLastEle s.tree h x }
     | .pending _ => .ok { s with tree := addErrLastEle s.tree h x })
  | .pending e =>
    (match s.curSeg with
     | .none => .crash .eleErrorNoSeg
     | .host h => .ok { s with tree := appendEle s.tree h (e.addError x), curEle := .linked h }
     | .pending _ => .crash .eleErrorNoSeg)

def eleError (s : State) (code msg : Str) (value : Option Str) : Res State :=
  match addCurSeg s with
  | none => .crash .eleErrorNoSt
  | some s1 => eleErrorLinked s1 { code := code, msg := msg, value := value }

def closeIsaLoop (s : State) : Res State :=
  match s.curIsa with
  | none => .crash .closeIsaNoIsa
  | some i => .ok { s with tree := modIsa s.tree i (fun a => { a with closed := true }), curSeg := .host (.isa i) }

def closeGsLoop (s : State) (ge : GeCount) (recv : Nat) : Res State :=
  match s.curGs with
  | none => .crash .closeGsNoGs
  | some p =>
    .ok { s with tree := modGs s.tree p.1 p.2 (fun g => g.closeWith ge.value recv), curSeg := .host (.gs p.1 p.2) }

def closeStLoop (s : State) : Res State :=
  match s.curSt with
  | none => .crash .closeStNoSt
  | some p =>
    .ok { s with tree := modSt s.tree p.1 p.2.1 p.2.2 St.close, curSeg := .host (.st p.1 p.2.1 p.2.2) }

def step (s : State) (e : Event) : Res State :=
  match e with
  | .addIsa d => .ok (addIsaLoop s d)
  | .addGs d => addGsLoop s d
  | .addSt d => addStLoop s d
  | .addSeg a b c => .ok (addSeg s a b c)
  | .addEle a b c => addEle s a b c
  | .isaError c => isaError s c
  | .gsError c => gsError s c
  | .stError c => stError s c
  | .segError c v => .ok (segError s c v)
  | .eleError c m v => eleError s c m v
  | .closeSt => closeStLoop s
  | .closeGs ge recv => closeGsLoop s ge recv
  | .closeIsa => closeIsaLoop s

def run (s : State) : List Event → Res State
  | [] => .ok s
  | e :: r =>
    match step s e with
    | .ok s1 => run s1 r
    | .crash c => .crash c

end Pyx12Verif.ErrTree
