/-
Model of pyx12/xmlx12_simple.py : convert (the walk over `doc.iter()` selecting `seg` elements) and get_segment
(`Segment(seg_id, '~', '*', ':')`, `Segment.set` by the `id` of every `ele`, and of every `subele` directly inside a
`comp`), plus `Segment.format('~', '*', ':')` as `X12Writer._write_segment` prints the result.

`xml.etree` is a parameter of the verification (trusted to invert well-formed serialisation).  Its part is
represented by `buildTree`, which folds the writer's events the way `TreeBuilder` folds start/data/end callbacks:
a stack of open elements, a finished element is appended to its parent.  Text: an element written by
`XMLWriter.elem` with empty content has `text is None`, otherwise its (unescaped) content; container elements
(`push`) have only layout whitespace as text, which no code reads (`none` here).

Partial operations: `Segment.set` outcomes (`seg e`); `X12Path(None)` for a missing `id` (`typeError`);
`Composite(None, …)` for an `ele` without text (`seg engineError`).
-/
import Pyx12Verif.Model.XmlOut

namespace Pyx12Verif.Xml
open Pyx12Verif.Path Pyx12Verif.Segment

inductive XNode
  | mk (tag : Str) (id : Option Str) (text : Option Str) (kids : List XNode)
  deriving Repr

def XNode.tag : XNode → Str
  | .mk t _ _ _ => t

def XNode.id : XNode → Option Str
  | .mk _ i _ _ => i

def XNode.text : XNode → Option Str
  | .mk _ _ x _ => x

def XNode.kids : XNode → List XNode
  | .mk _ _ _ k => k

/-! ### events → element tree (the `xml.etree` parameter) -/

structure Frame where
  tag : Str
  id : Option Str
  kids : List XNode

def textOf (x : Str) : Option Str := if x.isEmpty then none else some x

/-- append a finished node to the innermost open frame, or to the finished roots -/
def attach (n : XNode) : List Frame → List XNode → List Frame × List XNode
  | [], roots => ([], roots ++ [n])
  | f :: fs, roots => (⟨f.tag, f.id, f.kids ++ [n]⟩ :: fs, roots)

/-- frames: innermost first.  `none` = not well formed (end tag without / with another start tag, unclosed element) -/
def buildFrom : List Frame → List XNode → List Ev → Option (List XNode)
  | [], roots, [] => some roots
  | _ :: _, _, [] => none
  | fs, roots, .start t i :: r => buildFrom (⟨t, i, []⟩ :: fs) roots r
  | fs, roots, .leaf t i x :: r =>
      buildFrom (attach (.mk t (some i) (textOf x) []) fs roots).1 (attach (.mk t (some i) (textOf x) []) fs roots).2 r
  | [], _, .stop _ :: _ => none
  | f :: fs, roots, .stop t :: r =>
      if t = f.tag then
        buildFrom (attach (.mk f.tag f.id none f.kids) fs roots).1 (attach (.mk f.tag f.id none f.kids) fs roots).2 r
      else none

def buildTree (evs : List Ev) : Option (List XNode) := buildFrom [] [] evs

/-! ### xmlx12_simple.get_segment -/

mutual
/-- `node.iter()`: the node and all its descendants in document order -/
def iterNode : XNode → List XNode
  | .mk t i x kids => .mk t i x kids :: iterList kids
def iterList : List XNode → List XNode
  | [] => []
  | k :: r => iterNode k ++ iterList r
end

/-- `Segment(seg_str, '~', '*', ':')` for a non-empty string -/
def segOfParts : List Str → SegObj
  | [] => ⟨[], [], '*', ':'⟩
  | h :: t => ⟨h, t.map (fun e => mkComp (if isISA h then '*' else ':') e), '*', ':'⟩

def stripTerm (s : Str) : Str :=
  match s.getLast? with
  | none => s
  | some c => if c = '~' then s.dropLast else s

/-- `pyx12.segment.Segment(cSegment.get('id'), '~', '*', ':')` -/
def newSegment : Option Str → SegObj
  | none => ⟨[], [], '*', ':'⟩
  | some s => if s.isEmpty then ⟨[], [], '*', ':'⟩ else segOfParts (splitOn '*' (stripTerm s))

def liftSeg : Except Segment.Err SegObj → Except XErr SegObj
  | .error e => .error (.seg e)
  | .ok s => .ok s

/-- `seg_data.set(ele_id, None)`: `Composite(None, …)` raises, `Element(None)` is `Element('')` -/
def setNoneAt (s : SegObj) (d : Str) : Option PyIdx × Option PyIdx → Except XErr SegObj
  | (none, _) => .error (.seg .typeError)
  | (some _, none) => .error (.seg .engineError)
  | (some ei, some _) =>
    if isISA s.id && ei = .nat 15 then .error (.seg .engineError) else liftSeg (Segment.set s d [])

/-- the `ele` branch: `if node.text != '': seg_data.set(ele_id, node.text)` (`None != ''` holds) -/
def setEle (s : SegObj) : Option Str → Option Str → Except XErr SegObj
  | none, _ => .error .typeError
  | some d, some v => if v.isEmpty then .ok s else liftSeg (Segment.set s d v)
  | some d, none =>
    match parseRefdes s d with
    | .error e => .error (.seg e)
    | .ok r => setNoneAt s d r

/-- one `subele`: `if subele.text is not None and subele.text != '': seg_data.set(subele_id, subele.text)` -/
def setSubele (s : SegObj) : Option Str → Option Str → Except XErr SegObj
  | _, none => .ok s
  | none, some v => if v.isEmpty then .ok s else .error .typeError
  | some d, some v => if v.isEmpty then .ok s else liftSeg (Segment.set s d v)

/-- `for subele in node.findall('subele')` (direct children) -/
def compLoop (s : SegObj) : List XNode → Except XErr SegObj
  | [] => .ok s
  | k :: r =>
    if k.tag = tagSubele then
      (match setSubele s k.id k.text with
       | .error e => .error e
       | .ok s' => compLoop s' r)
    else compLoop s r

/-- `for node in cSegment.iter()` -/
def nodeLoop (s : SegObj) : List XNode → Except XErr SegObj
  | [] => .ok s
  | n :: r =>
    if n.tag = tagEle then
      (match setEle s n.id n.text with
       | .error e => .error e
       | .ok s' => nodeLoop s' r)
    else if n.tag = tagComp then
      (match compLoop s n.kids with
       | .error e => .error e
       | .ok s' => nodeLoop s' r)
    else nodeLoop s r

/-- `get_segment(cSegment)` -/
def getSegment (n : XNode) : Except XErr SegObj := nodeLoop (newSegment n.id) (iterNode n)

/-- `for node in doc.iter(): if node.tag == 'seg': wr.Write(get_segment(node))` — the segments handed to the writer -/
def segsOf : List XNode → Except XErr (List SegObj)
  | [] => .ok []
  | n :: r =>
    if n.tag = tagSeg then
      (match getSegment n with
       | .error e => .error e
       | .ok s =>
         match segsOf r with
         | .error e => .error e
         | .ok ss => .ok (s :: ss))
    else segsOf r

def convertSegs (root : XNode) : Except XErr (List SegObj) := segsOf (iterNode root)

/-! ### Segment.format / Composite.format with explicit terminators -/

/-- `for i in range(len(xs) - 1, -1, -1): if not empty(xs[i]): break` then `xs[:i + 1]`: up to the last non-empty
    item, but never fewer than one item (when there is one) -/
def uptoLastNonEmpty {α : Type} (isEmpty : α → Bool) : List α → List α
  | [] => []
  | x :: r => if r.all isEmpty then [x] else x :: uptoLastNonEmpty isEmpty r

def fmtCompWith (sub : Char) (c : Comp) : Str :=
  joinWith sub (uptoLastNonEmpty (fun (v : Str) => v.isEmpty) c.subs)

/-- `seg.format(seg_term, ele_term, subele_term)` -/
def formatSeg (segT eleT subT : Char) (s : SegObj) : Str :=
  s.id ++ eleT :: joinWith eleT ((uptoLastNonEmpty compIsEmpty s.elements).map (fmtCompWith subT)) ++ [segT]

end Pyx12Verif.Xml
