/-
Model of pyx12/map_if.py : element_if.is_valid (with _is_valid_code) and composite_if.is_valid.

What the map declares for one element node is an `ElemDef` (plain attribute reads of the node and
of its data-element row); what depends on the value through code outside these two functions is a
Boolean in `Ctx` (external-code-set membership incl. the exclusion list = `ExternalCodes.isValid`,
and `self.rec.search(v) is not None`).  Error codes are the numbers of the strings passed to
`errh.ele_error` ('1' … '10'), in the order they are reported.

Domain assumptions (checked for every node by harness/c15.py): usage ∈ {R, S, N}; the data element
is defined and its `data_type` is a non-empty string (otherwise `get_by_elem_num` raises — D30);
min/max lengths are naturals.
-/
import Pyx12Verif.Model.Validation

namespace Pyx12Verif.ElemValid
open Pyx12Verif.Validation

inductive Usage | R | S | N
  deriving DecidableEq, Repr

/-- error code as reported to the handler: 1 … 10 -/
abbrev Code := Nat

/-- the definition of one simple element / sub-element node -/
structure ElemDef where
  usage : Usage
  /-- `data_ele['data_type']` -/
  dataType : List Char
  minLen : Nat
  maxLen : Nat
  /-- `self.valid_codes` (inline `<code>` texts) -/
  codes : List (List Char)
  /-- `self.external_codes is not None` -/
  extDeclared : Bool
  /-- `self.rec` is set (a non-empty `<regex>`) -/
  hasRegex : Bool
  /-- the `type_list` argument: date/time formats selected by a preceding qualifier (DTP02 value,
      or the code list of the preceding data element 1250); `[]` when none -/
  typeList : List (List Char)
  /-- `self.seq` -/
  seq : Nat
  /-- `self.parent.is_composite()` -/
  parentComposite : Bool
  /-- `self.parent.usage == 'R'` -/
  parentRequired : Bool

/-- value-dependent facts computed outside the modelled functions, and the two settings -/
structure Ctx where
  /-- `param.get('charset') == 'E'` -/
  extended : Bool
  /-- `root.icvn == '00501'` -/
  v5010 : Bool
  /-- `root.ext_codes.isValid(self.external_codes, v)` -/
  extMember : Bool
  /-- `self.rec.search(v)` found a match -/
  regexFound : Bool

/-- what is handed to `is_valid`: `None`, an object with several components, or a simple value -/
inductive Input
  | absent
  | composite
  | simple (v : List Char)

def tyR : List Char := ['R']
def tyAN : List Char := ['A', 'N']
def tyID : List Char := ['I', 'D']
def tyRD8 : List Char := ['R', 'D', '8']
def tyDT : List Char := ['D', 'T']
def tyD8 : List Char := ['D', '8']
def tyD6 : List Char := ['D', '6']
def tyTM : List Char := ['T', 'M']

/-- `data_type == 'R' or data_type[0] == 'N'` -/
def isNumType (ty : List Char) : Bool := ty = tyR || startsWithN ty

/-- `elem_val.replace('-', '').replace('.', '')` -/
def stripSignPoint : List Char → List Char
  | [] => []
  | c :: r => if c = '-' then stripSignPoint r else if c = '.' then stripSignPoint r
              else c :: stripSignPoint r

/-- the length that is compared with min/max -/
def effLen (ty v : List Char) : Nat :=
  if isNumType ty then (stripSignPoint v).length else v.length

def tooShort (d : ElemDef) (v : List Char) : Bool := effLen d.dataType v < d.minLen
def tooLong (d : ElemDef) (v : List Char) : Bool := effLen d.dataType v > d.maxLen

/-- code points for which Python's `str.isspace()` is true (what `rstrip()` removes) -/
def wsCodes : List Nat :=
  [0x09, 0x0A, 0x0B, 0x0C, 0x0D, 0x1C, 0x1D, 0x1E, 0x1F, 0x20, 0x85, 0xA0, 0x1680,
   0x2000, 0x2001, 0x2002, 0x2003, 0x2004, 0x2005, 0x2006, 0x2007, 0x2008, 0x2009, 0x200A,
   0x2028, 0x2029, 0x202F, 0x205F, 0x3000]

def isSpace (c : Char) : Bool := wsCodes.contains c.toNat

/-- `str.rstrip()` -/
def rstrip : List Char → List Char
  | [] => []
  | c :: r => if (rstrip r).isEmpty && isSpace c then [] else c :: rstrip r

/-- `elem_val[-1] == ' '` (the value is non-empty where this is evaluated) -/
def endsBlank : List Char → Bool
  | [] => false
  | c :: r => if r.isEmpty then c = ' ' else endsBlank r

def isTextType (ty : List Char) : Bool := ty = tyAN || ty = tyID

/-- the "unnecessary trailing spaces" test -/
def trailing (d : ElemDef) (v : List Char) : Bool :=
  isTextType d.dataType && endsBlank v && d.minLen ≤ (rstrip v).length

/-- `_is_valid_code`: `bValidCode` -/
def codeOk (d : ElemDef) (ctx : Ctx) (v : List Char) : Bool :=
  (d.codes.isEmpty && !d.extDeclared) || d.codes.contains v || (d.extDeclared && ctx.extMember)

def isDateType (ty : List Char) : Bool := ty = tyRD8 || ty = tyDT || ty = tyD8 || ty = tyD6

def typeOk (d : ElemDef) (ctx : Ctx) (v : List Char) : Bool :=
  isValidDataType v d.dataType ctx.extended ctx.v5010

/-- the code reported when the value is not of the declared type -/
def typeCode (ty : List Char) : Code :=
  if isDateType ty then 8 else if ty = tyTM then 9 else 6

/-- `valid_type |= IsValidDataType(elem_val, dtype, charset)` over the list (icvn defaulted) -/
def anyType (ctx : Ctx) (v : List Char) : List (List Char) → Bool
  | [] => false
  | t :: r => isValidDataType v t ctx.extended false || anyType ctx v r

/-- `len(type_list) > 0 and not valid_type` -/
def tlBad (d : ElemDef) (ctx : Ctx) (v : List Char) : Bool :=
  !d.typeList.isEmpty && !anyType ctx v d.typeList

/-- what is reported when no type of the list fits -/
def tlCodes (tl : List (List Char)) : List Code :=
  if tl.contains tyTM then [9]
  else if tl.contains tyRD8 || tl.contains tyDT || tl.contains tyD8 || tl.contains tyD6 then [8]
  else []

def regexBad (d : ElemDef) (ctx : Ctx) : Bool := d.hasRegex && !ctx.regexFound

def cond (b : Bool) (c : Code) : List Code := if b then [c] else []

/-- `is_valid` from `elem_val = elem.get_value()` on: value non-empty, usage not N -/
def checkValue (d : ElemDef) (ctx : Ctx) (v : List Char) : Bool × List Code :=
  if hasControl v then
    (false, cond (tooShort d v) 4 ++ cond (tooLong d v) 5 ++ [6])
  else
    (!tooShort d v && !tooLong d v && !trailing d v && codeOk d ctx v && typeOk d ctx v
        && !tlBad d ctx v && !regexBad d ctx,
     cond (tooShort d v) 4 ++ cond (tooLong d v) 5 ++ cond (trailing d v) 6
       ++ cond (!codeOk d ctx v) 7 ++ cond (!typeOk d ctx v) (typeCode d.dataType)
       ++ (if tlBad d ctx v then tlCodes d.typeList else []) ++ cond (regexBad d ctx) 7)

/-- `self.seq != 1 or not self.parent.is_composite() or self.parent.usage == 'R'` -/
def missingIsError (d : ElemDef) : Bool := d.seq != 1 || !d.parentComposite || d.parentRequired

/-- the branch `elem is None or elem.get_value() == ''` -/
def emptyCase (d : ElemDef) : Bool × List Code :=
  match d.usage with
  | .N => (true, [])
  | .S => (true, [])
  | .R => if missingIsError d then (false, [1]) else (true, [])

/-- `element_if.is_valid(elem, errh, type_list)`: result and the codes reported, in order -/
def elemValidIn (d : ElemDef) (ctx : Ctx) : Input → Bool × List Code
  | .composite => (false, [6])
  | .absent => emptyCase d
  | .simple v =>
    if v.isEmpty then emptyCase d
    else if d.usage = .N then (false, [10])
    else checkValue d ctx v

def toInput : Option (List Char) → Input
  | none => .absent
  | some v => .simple v

/-- `is_valid` on `None` / a simple value -/
def elemValid (d : ElemDef) (ctx : Ctx) (v : Option (List Char)) : Bool × List Code :=
  elemValidIn d ctx (toInput v)

/-! ### composite_if.is_valid -/

inductive CompOutcome
  | ok (valid : Bool) (codes : List Code)
  /-- `for sub_ele in None` : TypeError -/
  | crashIterNone
  deriving DecidableEq, Repr

/-- `comp_data.is_empty()` -/
def allEmpty : List (List Char) → Bool
  | [] => true
  | v :: r => v.isEmpty && allEmpty r

/-- the loop setting `good_flag` -/
def anyNonEmpty : List (List Char) → Bool
  | [] => false
  | v :: r => !v.isEmpty || anyNonEmpty r

def both (a b : Bool × List Code) : Bool × List Code := (a.1 && b.1, a.2 ++ b.2)

/-- the two child loops: child `i` gets `comp_data[i]` while there is one, `None` afterwards;
    surplus values are not looked at.  Each child comes with the context of its own value. -/
def kidsValid : List (ElemDef × Ctx) → List (List Char) → Bool × List Code
  | [], _ => (true, [])
  | k :: ks, [] => both (elemValidIn k.1 k.2 .absent) (kidsValid ks [])
  | k :: ks, v :: vs => both (elemValidIn k.1 k.2 (.simple v)) (kidsValid ks vs)

/-- from `if self.usage == 'N' and not comp_data.is_empty()` on; `comp_data` is not `None` here -/
def compPresent (usage : Usage) (kids : List (ElemDef × Ctx)) (vs : List (List Char)) : Bool × List Code :=
  if usage = .N && !allEmpty vs then (false, [5])
  else both (!(vs.length > kids.length), cond (vs.length > kids.length) 3) (kidsValid kids vs)

/-- `composite_if.is_valid(comp_data, errh)`.  `patched = false` is the code as shipped (iterating
    `None` for an absent required composite); `patched = true` guards that loop. -/
def compValid (patched : Bool) (usage : Usage) (kids : List (ElemDef × Ctx)) :
    Option (List (List Char)) → CompOutcome
  | none =>
    match usage with
    | .N => .ok true []
    | .S => .ok true []
    | .R => if patched then .ok false [2] else .crashIterNone
  | some vs =>
    if allEmpty vs && (usage = .N || usage = .S) then .ok true []
    else if usage = .R && !anyNonEmpty vs then .ok false [2]
    else .ok (compPresent usage kids vs).1 (compPresent usage kids vs).2

end Pyx12Verif.ElemValid
