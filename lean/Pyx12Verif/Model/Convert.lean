/-
Model of `pyx12/xmlx12_simple.py : convert` UP TO THE OUTPUT TEXT: the use it makes of `pyx12.x12file.X12Writer`.

    wr = pyx12.x12file.X12Writer(fd_out, '~', '*', ':', '\n', '^')     -> `convCfg` (FIXED delimiters: nothing is taken
                                                                           from the ISA segment of the XML; the writer
                                                                           puts ITS separators into ISA16 and, for 00501,
                                                                           ISA11 — `Writer.isaOut`)
    doc = et.parse(filename, parser=parser)                             -> `Xml.buildTree` (the `xml.etree` parameter)
    for node in doc.iter():                                             -> `convLoop` over `Xml.iterNode root`
        if node.tag == 'seg':
            wr.Write(get_segment(node))                                 -> `Xml.getSegment`, `Segment.toSeg`, `Writer.write`;
                                                                           every segment `Write` hands to `_write_segment`
                                                                           is printed at once (`Writer.render` of them)
    return True                                                         -> `Close()` is NEVER called and `X12Writer` has no
                                                                           `__del__`: a trailer is written only when the XML
                                                                           carries the SE / GE / IEA segment (any content:
                                                                           the writer discards it and generates its own from
                                                                           its counters), envelopes left open stay open.

Every segment found in the XML is passed to `Write`, the trailers included.  `get_segment` and `Write` alternate, so the
first exception in document order is the one that leaves `convert` (`convLoop` keeps that order).  What is on `fd_out`
when an exception leaves is not modelled (`ConvOut` carries the text of a completed conversion only).
-/
import Pyx12Verif.Model.Writer
import Pyx12Verif.Model.XmlIn

namespace Pyx12Verif.Convert
open Pyx12Verif

abbrev Str := List Char

/-- `X12Writer(fd_out, '~', '*', ':', '\n', '^')` -/
def convCfg : Writer.Cfg := ⟨⟨'~', '*', ':'⟩, '^', ['\n']⟩

inductive ConvOut
  | ok (text : Str)              -- `convert` returns True; the text written to `fd_out`
  | notTree                      -- the events are not one element tree (`et.parse` raises ParseError)
  | getSegment (e : Xml.XErr)    -- `get_segment` raised
  | raised                       -- `pyx12.errors.X12Error` (ISA without 16 elements)
  | crash (e : Writer.Exc)       -- an unintended exception inside `Write`
  | format                       -- `Composite.format` raised inside `_write_segment`
  deriving DecidableEq, Repr

/-- the text appended by the `_write_segment` calls of one `Write`, then the rest of the loop -/
def emitThen (txt : Option Str) (rest : ConvOut) : ConvOut :=
  match txt with
  | none => .format
  | some t =>
    match rest with
    | .ok u => .ok (t ++ u)
    | o => o

/-- what follows `seg_data = get_segment(node)` -/
def afterWrite (c : Writer.Cfg) (k : Envelope.RState → ConvOut) : Writer.Outcome (Envelope.RState × List SegText.Seg) → ConvOut
  | .raised => .raised
  | .crash e => .crash e
  | .ok a => emitThen (Writer.render c a.2) (k a.1)

/-- `for node in doc.iter(): if node.tag == 'seg': wr.Write(get_segment(node))` -/
def convLoop (c : Writer.Cfg) : Envelope.RState → List Xml.XNode → ConvOut
  | _, [] => .ok []
  | w, n :: r =>
    if n.tag = Xml.tagSeg then
      (match Xml.getSegment n with
       | .error e => .getSegment e
       | .ok s => afterWrite c (fun w' => convLoop c w' r) (Writer.write c w (Segment.toSeg s)))
    else convLoop c w r

def convTree : Option (List Xml.XNode) → ConvOut
  | some [root] => convLoop convCfg (Envelope.RState.init false) (Xml.iterNode root)
  | _ => .notTree

/-- `xmlx12_simple.convert(xml, fd_out)` on the XML document whose SAX events are `evs`: the text on `fd_out` -/
def convertText (evs : List Xml.Ev) : ConvOut := convTree (Xml.buildTree evs)

/-- … on what an XML sink left (`none`: no XML document) -/
def convertOpt : Option (List Xml.Ev) → Option ConvOut
  | none => none
  | some evs => some (convertText evs)

end Pyx12Verif.Convert
