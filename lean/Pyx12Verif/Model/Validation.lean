/-
Model of pyx12/validation.py : IsValidDataType and the recognisers it dispatches to.

Strings are `List Char`.  Every definition mirrors one Python function; regex searches are written
out as the scans they perform.  `Outcome`-style crash results are not needed here after the RD8 fix:
every branch is total (theorem `never_crashes` is the statement that the dispatcher is a total
function returning a Bool; the Python side's exceptions are observed by the correspondence).
-/
namespace Pyx12Verif.Validation

def isDigit (c : Char) : Bool := '0' ≤ c && c ≤ '9'

/-- longest prefix of ASCII digits, and the rest (`[0-9]*` anchored at the start) -/
def spanDigits : List Char → List Char × List Char
  | [] => ([], [])
  | c :: cs => if isDigit c then ((c :: (spanDigits cs).1), (spanDigits cs).2) else ([], c :: cs)

/-- `-?` -/
def stripMinus : List Char → List Char
  | [] => []
  | c :: r => if c = '-' then r else c :: r

def allDigits : List Char → Bool
  | [] => true
  | c :: cs => isDigit c && allDigits cs

def hasDigit : List Char → Bool
  | [] => false
  | c :: cs => isDigit c || hasDigit cs

/-- `match_re('N', v)`: `^-?[0-9]+` and the match must be the whole string (and contain a digit) -/
def matchN (s : List Char) : Bool :=
  !(spanDigits (stripMinus s)).1.isEmpty && (spanDigits (stripMinus s)).2.isEmpty && hasDigit s

/-- what `^-?[0-9]*(\.[0-9]+)?` matches in full: helper on the part after the integer digits -/
def fracOk : List Char → Bool
  | [] => true
  | c :: r => c = '.' && !(spanDigits r).1.isEmpty && (spanDigits r).2.isEmpty

/-- `match_re('R', v)`: the regex matches the whole string, and the value has at least one digit -/
def matchR (s : List Char) : Bool :=
  fracOk (spanDigits (stripMinus s)).2 && hasDigit s

/-! ### character sets -/

inductive Charset | B | E | E5
  deriving DecidableEq, Repr

def isUpper (c : Char) : Bool := 'A' ≤ c && c ≤ 'Z'
def isLower (c : Char) : Bool := 'a' ≤ c && c ≤ 'z'

def basicPunct : List Char :=
  ['!', '"', '&', '\'', '(', ')', '*', '+', ',', '-', '.', '/', ':', ';', '?', '=', ' ']
def extPunct : List Char :=
  ['%', '~', '@', '[', ']', '_', '{', '}', '\\', '|', '<', '>', '#', '$']
def ext5Punct : List Char := ['^', '`']

/-- the complemented class of `rec_ID_B`, `rec_ID_E`, `rec_ID_E5` -/
def inClass (cs : Charset) (c : Char) : Bool :=
  match cs with
  | .B => isUpper c || isDigit c || basicPunct.contains c
  | .E => isUpper c || isDigit c || basicPunct.contains c || isLower c || extPunct.contains c
  | .E5 => isUpper c || isDigit c || basicPunct.contains c || isLower c || extPunct.contains c
            || ext5Punct.contains c

/-- `not not_match_re('ID', v, charset, icvn)`: no character outside the class -/
def idOk (cs : Charset) : List Char → Bool
  | [] => true
  | c :: r => inClass cs c && idOk cs r

/-- choice of class made by `not_match_re` from `(charset, icvn)` -/
def pickCharset (extended : Bool) (v5010 : Bool) : Charset :=
  if extended then (if v5010 then .E5 else .E) else .B

/-! ### dates and times -/

def digitVal (c : Char) : Nat := c.toNat - '0'.toNat

/-- Python `int()` on a string of ASCII digits -/
def num (s : List Char) : Nat := s.foldl (fun a c => a * 10 + digitVal c) 0

/-- `is_valid_time` (after the short-value fix) -/
def isValidTime (v : List Char) : Bool :=
  if !allDigits v then false
  else if v.length < 4 then false
  else if num (v.take 2) > 23 || num ((v.drop 2).take 2) > 59 then false
  else if v.length > 4 then
    (if v.length < 6 then false
     else if num ((v.drop 4).take 2) > 59 then false
     else if v.length > 8 then false
     else true)
  else true

/-- the day test of `is_valid_date`, branch for branch -/
def dayOk (year month day : Nat) : Bool :=
  if month = 1 || month = 3 || month = 5 || month = 7 || month = 8 || month = 10 || month = 12 then
    !(day < 1 || day > 31)
  else if month = 4 || month = 6 || month = 9 || month = 11 then
    !(day < 1 || day > 30)
  else if year % 4 = 0 && !(year % 100 = 0 && year % 400 != 0) then
    !(day < 1 || day > 29)
  else !(day < 1 || day > 28)

/-- body of `is_valid_date` once the value is 8 or 12 digits (century already added) -/
def ymdOk (v : List Char) : Bool :=
  if num (v.take 4) < 1800 then false
  else if num ((v.drop 4).take 2) < 1 || num ((v.drop 4).take 2) > 12 then false
  else if !dayOk (num (v.take 4)) (num ((v.drop 4).take 2)) (num ((v.drop 6).take 2)) then false
  else if v.length = 12 then isValidTime ((v.drop 8).take 4)
  else true

def addCentury (v : List Char) : List Char :=
  if num (v.take 2) < 50 then '2' :: '0' :: v else '1' :: '9' :: v

inductive DateTy | DT | D8 | D6
  deriving DecidableEq, Repr

/-- `is_valid_date(data_type, val)` -/
def isValidDate (ty : DateTy) (v : List Char) : Bool :=
  if ty = .D8 && v.length != 8 then false
  else if ty = .D6 && v.length != 6 then false
  else if !allDigits v then false
  else if v.length = 6 then ymdOk (addCentury v)
  else if v.length = 8 || v.length = 12 then ymdOk v
  else false

/-- number of `-` in the value -/
def countHyphen : List Char → Nat
  | [] => 0
  | c :: r => (if c = '-' then 1 else 0) + countHyphen r

/-- `str.split('-')` for a value with exactly one hyphen -/
def beforeHyphen : List Char → List Char
  | [] => []
  | c :: r => if c = '-' then [] else c :: beforeHyphen r
def afterHyphen : List Char → List Char
  | [] => []
  | c :: r => if c = '-' then r else afterHyphen r

/-- the `RD8` branch (after the multi-hyphen fix) -/
def isValidRD8 (v : List Char) : Bool :=
  if countHyphen v = 1 then isValidDate .D8 (beforeHyphen v) && isValidDate .D8 (afterHyphen v)
  else false

/-! ### dispatcher -/

def startsWithN : List Char → Bool
  | [] => false
  | c :: _ => c = 'N'

/-- `IsValidDataType(str_val, data_type, charset, icvn)` for a `str` value -/
def isValidDataType (v : List Char) (ty : List Char) (extended v5010 : Bool) : Bool :=
  if ty.isEmpty then true
  else if startsWithN ty then matchN v
  else if ty = ['R'] then matchR v
  else if ty = ['I', 'D'] || ty = ['A', 'N'] then idOk (pickCharset extended v5010) v
  else if ty = ['R', 'D', '8'] then isValidRD8 v
  else if ty = ['D', 'T'] then isValidDate .DT v
  else if ty = ['D', '8'] then isValidDate .D8 v
  else if ty = ['D', '6'] then isValidDate .D6 v
  else if ty = ['T', 'M'] then isValidTime v
  else if ty = ['B'] then true
  else false

/-! ### control characters (`contains_control_character`) -/

def controlCodes : List Nat :=
  [0x07, 0x09, 0x0A, 0x0B, 0x0C, 0x0D, 0x1C, 0x1D, 0x1E, 0x1F,
   0x01, 0x02, 0x03, 0x04, 0x05, 0x06, 0x11, 0x12, 0x13, 0x14, 0x15, 0x16, 0x17]

def hasControl : List Char → Bool
  | [] => false
  | c :: r => controlCodes.contains c.toNat || hasControl r

end Pyx12Verif.Validation
