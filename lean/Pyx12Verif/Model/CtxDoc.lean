/-
END-TO-END model of `pyx12/x12context.py : X12ContextReader(param, errh, fd).iter_segments(loop_id)`, from the TEXT:

  text -> segments        Tokenizer.rawRead / SegText.readLines (`SegText.readAll`)                             (C01)
  reader bookkeeping      Envelope.step Fixes.all (`Pipeline.viewOf`)                                           (C04)
  matched map node        Walker.walk over the translated skeleton, ISA / GS pinned                              (C02)
  data tree / yields      Ctx.addSegment, Ctx.freshTree, Ctx.emit ... of Model/CtxReader.lean                    (C09)

`iter_segments` DUPLICATES the glue of `x12n_document` (Model/Document.lean).  The differences, all mirrored here:

  * the constructor lets the `X12Error` of `X12Reader(...)` escape (`refused`), loads the control map and fetches
    `/ISA_LOOP/ISA` before anything is iterated;
  * ISA and GS are pinned WITHOUT `forceWalkCounterToLoopStart`: the counter is touched at GS only —
    `_reset_counter_to_isa_counts` when another map is selected (or none was), `_reset_counter_to_gs_counts` always —
    and AFTER the map was chosen;
  * the walker reports into a fresh `errh_list` per segment (no call of it can raise); nothing is validated;
  * "no node found" falls back to the previous node AND goes on: the segment is treated as another occurrence of that
    node, with the pop / push lists the walker returned;
  * at GS the pop / push lists are made up: `[orig_node.parent]` when that loop is called GS_LOOP, `[GS_LOOP of the new map]`;
  * at the BHT of the two 278 releases the node is replaced by the BHT node of the newly selected map, the pop / push lists
    stay those of the walk over the OLD map;
  * reader errors are popped (`src.pop_errors()`) only when a plain node is yielded — errors reported while a tree is
    being built are attached to the next plain node, the walker's reports for tree segments are dropped, `cleanup()` is
    never called (`plainErrs`);
  * the exits: `EngineError("Map not found")`, the exceptions of `_add_segment` (`Ctx.Crash`), the two assertions of
    the plain arm, the final `yield cur_tree`.

Loop ids are the interned numbers of the skeleton (`Maps.ids`, shared by all maps).  A yielded leaf carries
`SegInfo.text` = index of the source segment in `CtxOutcome.segs`, `segCount` = `src.get_seg_count()` after the segment
was parsed, `line` = `src.get_cur_line()` (= number of segments parsed so far: `cur_line += 1` closes `_parse_segment`).
-/
import Pyx12Verif.Model.Document
import Pyx12Verif.Model.CtxReader

namespace Pyx12Verif.Doc
open Pyx12Verif

/-! ### from index paths of the skeleton to the loop records the context reader works with
(the same functions as `CtxWalk.recsAt / lpathAt / posAt / cvPops / cvPushes` of Proofs/CtxWalkDefs.lean, which a Model
file cannot import; `Proofs/CtxDocRun.lean` proves them equal) -/

/-- (id, pos) of every loop on the index path, outermost first -/
def cxRecs : List MapSkel.Node → List Nat → List (Nat × Nat)
  | _, [] => []
  | ch, i :: r =>
    match ch[i]? with
    | some n => (n.ident, n.pos) :: cxRecs n.children r
    | none => []

/-- `x12path.loop_list` of the loop at the index path -/
def cxPath (root : List MapSkel.Node) (p : List Nat) : Ctx.LPath := (cxRecs root p).map (fun x => x.1)

/-- `node.pos` -/
def cxPos (root : List MapSkel.Node) (p : List Nat) : Nat :=
  match Walker.nodeAt root p with
  | some n => n.pos
  | none => 0

def cxPops (root : List MapSkel.Node) (pops : List (List Nat)) : List Ctx.LPath := pops.map (cxPath root)

def cxPushes (root : List MapSkel.Node) (pushes : List (List Nat)) : List (Ctx.LPath × Nat) :=
  pushes.map (fun p => (cxPath root p, cxPos root p))

/-- what `iter_segments` reads off `self.x12_map_node` (a segment node `n`) after the glue: `x12path.loop_list`,
    `is_first_seg_in_loop()`, `pos`, `parent.pos` -/
def answerAt (n : NodeRef) (si : Ctx.SegInfo) (pops : List Ctx.LPath) (pushes : List (Ctx.LPath × Nat)) : Ctx.Answer :=
  { seg := si, path := cxPath n.map.root n.ip.dropLast, first := n.ip.getLast? == some 0, pos := cxPos n.map.root n.ip,
    ppos := cxPos n.map.root n.ip.dropLast, pops := pops, pushes := pushes }

/-! ### outcomes -/

inductive CSite
  | readerLine                  -- X12Reader.__iter__ (`line[-1]`)
  | getValue                    -- Composite.format on a composite without sub-elements (not constructible by the parser)
  | envelope (e : Envelope.Exc) -- _parse_segment (none after the guard fixes)
  | nodeNone                    -- a map node is None where it is dereferenced (`Maps` lacks an envelope node)
  | reader (c : Ctx.Crash)      -- iter_segments / _add_segment: see `Ctx.Crash`
  | noParent                    -- AssertionError 'Node "…" has no parent' of the plain arm
  deriving DecidableEq, Repr

/-- how the generator ended -/
inductive CStop
  | done                                -- StopIteration
  | refused (e : Tokenizer.HeaderErr)   -- X12Error out of the constructor
  | notX12                              -- X12Error raised while iterating (ISA without 16 elements)
  | mapNotFound                         -- EngineError("Map not found ...")
  | mapLoadFailed                       -- load_map_file raised
  | crash (s : CSite)
  deriving DecidableEq, Repr

/-- what one round of `for seg in self.src:` knows when it reaches `node_x12path = self.x12_map_node.x12path` -/
structure CtxRound where
  ans : Ctx.Answer
  /-- `self.x12_map_node.id == 'ISA'` -/
  isaNode : Bool
  /-- codes handed to `errh.seg_error` by the walker in this round (`errh` is a fresh `errh_list`) -/
  werrs : List Str
  /-- what the reader put on `src.err_list` for this segment (line wrapper, `_parse_segment`) -/
  rerrs : List RdErr

/-- the errors found on a yielded plain node: `err_seg` begins with the walker's codes of that round; the reader's
    tuples are everything reported since the previous plain node -/
structure PlainErrs where
  /-- source index of the segment -/
  seg : Nat
  werrs : List Str
  rerrs : List RdErr
  deriving DecidableEq, Repr

structure CtxOutcome where
  stop : CStop
  /-- the nodes yielded before the generator ended, in order -/
  yields : List Ctx.Yield
  /-- the source segments read so far (index = `SegInfo.text`) -/
  segs : List Seg
  /-- one entry per yielded plain node -/
  errs : List PlainErrs

/-! ### loop state of the glue -/

structure CState where
  rs : Envelope.RState
  /-- `self.walker.counter` -/
  cnt : Walker.Counter
  /-- `self.x12_map_node` -/
  node : Option NodeRef
  /-- `self.map_file` -/
  mapFile : Option Str
  /-- `cur_map` -/
  curMap : Option MapX
  icvn : Option Str
  fic : Option Str
  vriic : Option Str

def isaLoopKey (ms : Maps) : Walker.PathKey := [(ms.ids.isaLoop, 0)]
def isaKey (ms : Maps) : Walker.PathKey := [(ms.ids.isaLoop, 0), (ms.ids.isa, 0)]
def gsLoopKey (ms : Maps) : Walker.PathKey := [(ms.ids.isaLoop, 0), (ms.ids.gsLoop, 0)]
def gsKey (ms : Maps) : Walker.PathKey := [(ms.ids.isaLoop, 0), (ms.ids.gsLoop, 0), (ms.ids.gs, 0)]

/-- code of the `seg_error` call behind a walker report -/
def werrCode (e : Walker.WErr) : Str :=
  match e.1 with
  | .segNotUsed => ['2']
  | .segMaxCount => ['5']
  | .loopNotUsed => ['2']
  | .loopMaxCount => ['4']
  | .mandatoryMissing => ['3']
  | .notFound => ['1']

/-- result of the node search at the top of the loop body; pop / push lists already as loop records -/
inductive CFound
  | crash (s : CSite)
  | res (node : Option NodeRef) (pops : List Ctx.LPath) (pushes : List (Ctx.LPath × Nat)) (cnt : Walker.Counter)
      (werrs : List Str)

def cNodeOf (m : MapX) : Option (List Nat) → Option NodeRef
  | some ip => some ⟨m, ip⟩
  | none => none

def cFoundOf (m : MapX) (r : Walker.WalkResult) : CFound :=
  .res (cNodeOf m r.node) (cxPops m.root r.pops) (cxPushes m.root r.pushes) r.st.cnt (r.st.errs.map werrCode)

def cWalk (ms : Maps) (d : Delims) (s : Seg) (cnt : Walker.Counter) (cur : NodeRef) : CFound :=
  cFoundOf cur.map (Walker.walk ms.consts cur.map.root cur.map.rootId cnt cur.ip (segData ms cur.map d s))

/-- `if ISA: … elif GS: … else: (seg_node, pop_loops, push_loops) = self.walker.walk(...)` — no counter is forced here -/
def cFind (ms : Maps) (control : MapX) (d : Delims) (s : Seg) (st : CState) : CFound :=
  if s.id = Envelope.idISA then .res (fetchIn ms control (isaPath ms)) [] [] st.cnt []
  else if s.id = Envelope.idGS then .res (fetchIn ms control (gsPath ms)) [] [] st.cnt []
  else
    match st.node with
    | none => .crash .nodeNone
    | some cur => cWalk ms d s st.cnt cur

/-- what the per-segment-kind branch decides: state, node, pop and push lists -/
inductive CBranch
  | go (st : CState) (node : NodeRef) (pops : List Ctx.LPath) (pushes : List (Ctx.LPath × Nat))
  | stop (o : CStop)

/-- `cur_map = load_map_file(...)`, `self.src.check_837_lx = cur_map.id == '837'` -/
def cWithNewMap (ms : Maps) (st : CState) (file : Option Str) (k : CState → MapX → CBranch) : CBranch :=
  match file with
  | none => .stop .mapNotFound
  | some f =>
    match findMap ms f with
    | none => .stop .mapLoadFailed
    | some m => k { st with mapFile := some f, curMap := some m, rs := { st.rs with chk837 := m.is837 } } m

/-- `if orig_node.parent.id == 'GS_LOOP': pop_loops = [orig_node.parent]` -/
def gsPops (ms : Maps) (orig : NodeRef) : List Ctx.LPath :=
  if Walker.idAt orig.map.root orig.ip.dropLast == ms.ids.gsLoop then [cxPath orig.map.root orig.ip.dropLast] else []

/-- `self._reset_counter_to_gs_counts(); self.x12_map_node = cur_map.getnodebypath('/ISA_LOOP/GS_LOOP/GS')`, the made-up
    pop / push lists -/
def cGsTail (ms : Maps) (orig : NodeRef) (st : CState) (m : MapX) : CBranch :=
  match fetchIn ms m (gsPath ms) with
  | none => .stop (.crash .nodeNone)
  | some n =>
    .go { st with cnt := Walker.forceLoopStart st.cnt (gsLoopKey ms) (gsKey ms) } n (gsPops ms orig)
      [(cxPath n.map.root n.ip.dropLast, cxPos n.map.root n.ip.dropLast)]

/-- after a (re)load: `self._reset_counter_to_isa_counts()` first -/
def cGsReload (ms : Maps) (orig : NodeRef) (st : CState) (m : MapX) : CBranch :=
  cGsTail ms orig { st with cnt := Walker.forceLoopStart st.cnt (isaLoopKey ms) (isaKey ms) } m

def cGsBranch (ms : Maps) (d : Delims) (s : Seg) (orig : NodeRef) (st : CState) : CBranch :=
  if st.mapFile ≠ getFilename ms.index st.icvn (gv d s 7) (gv d s 0) none ∨ st.curMap.isNone then
    cWithNewMap ms { st with fic := gv d s 0, vriic := gv d s 7 }
      (getFilename ms.index st.icvn (gv d s 7) (gv d s 0) none) (cGsReload ms orig)
  else
    match st.curMap with
    | none => .stop (.crash .nodeNone)
    | some m => cGsTail ms orig { st with fic := gv d s 0, vriic := gv d s 7 } m

/-- `self.x12_map_node = cur_map.getnodebypath('/ISA_LOOP/GS_LOOP/ST_LOOP/HEADER/BHT')`; the lists stay the walker's -/
def cBhtSwitch (ms : Maps) (pops : List Ctx.LPath) (pushes : List (Ctx.LPath × Nat)) (st : CState) (m : MapX) : CBranch :=
  match fetchIn ms m (bhtPath ms) with
  | none => .stop (.crash .nodeNone)
  | some n => .go st n pops pushes

def cBhtBranch (ms : Maps) (d : Delims) (s : Seg) (st : CState) (n : NodeRef) (pops : List Ctx.LPath)
    (pushes : List (Ctx.LPath × Nat)) : CBranch :=
  if st.vriic = some v278a ∨ st.vriic = some v278b then
    (if st.mapFile ≠ getFilename ms.index st.icvn st.vriic st.fic (gv d s 1) then
       cWithNewMap ms st (getFilename ms.index st.icvn st.vriic st.fic (gv d s 1)) (cBhtSwitch ms pops pushes)
     else .go st n pops pushes)
  else .go st n pops pushes

/-- the `else:` of `if self.x12_map_node is None` -/
def cBranch (ms : Maps) (d : Delims) (s : Seg) (orig : Option NodeRef) (st : CState) (n : NodeRef) (pops : List Ctx.LPath)
    (pushes : List (Ctx.LPath × Nat)) : CBranch :=
  if s.id = Envelope.idISA then .go { st with icvn := gv d s 11 } n pops pushes
  else if s.id = Envelope.idGS then
    (match orig with
     | none => .stop (.crash .nodeNone)
     | some o => cGsBranch ms d s o st)
  else if s.id = sBHT then cBhtBranch ms d s st n pops pushes
  else .go st n pops pushes

inductive CStep
  | next (st : CState) (r : CtxRound)
  | stop (o : CStop)

def mkRound (n : NodeRef) (ids : EnvIds) (si : Ctx.SegInfo) (pops : List Ctx.LPath) (pushes : List (Ctx.LPath × Nat))
    (werrs : List Str) (rerrs : List RdErr) : CtxRound :=
  { ans := answerAt n si pops pushes, isaNode := Walker.idAt n.map.root n.ip == ids.isa, werrs := werrs, rerrs := rerrs }

def cAfterBranch (ms : Maps) (si : Ctx.SegInfo) (werrs : List Str) (rerrs : List RdErr) : CBranch → CStep
  | .stop o => .stop o
  | .go st n pops pushes => .next { st with node := some n } (mkRound n ms.ids si pops pushes werrs rerrs)

/-- after the node search: `if self.x12_map_node is None: self.x12_map_node = orig_node  else: …` -/
def cAfterFind (ms : Maps) (d : Delims) (s : Seg) (si : Ctx.SegInfo) (rerrs : List RdErr) (st : CState) : CFound → CStep
  | .crash site => .stop (.crash site)
  | .res none pops pushes cnt werrs =>
    (match st.node with
     | none => .stop (.crash .nodeNone)
     | some o => .next { st with cnt := cnt } (mkRound o ms.ids si pops pushes werrs rerrs))
  | .res (some n) pops pushes cnt werrs =>
    cAfterBranch ms si werrs rerrs (cBranch ms d s st.node { st with cnt := cnt } n pops pushes)

/-- after `_parse_segment`; `k` = index of the segment in the file -/
def cAfterReader (ms : Maps) (control : MapX) (d : Delims) (k : Nat) (s : Seg) (st : CState) (pre : List RdErr) :
    Envelope.Outcome (Envelope.RState × List Envelope.Err) → CStep
  | .crash e => .stop (.crash (.envelope e))
  | .raised => .stop .notX12
  | .ok r =>
    cAfterFind ms d s ⟨k, r.1.segCount, k + 1⟩ (pre ++ r.2.map envErr) { st with rs := r.1 }
      (cFind ms control d s { st with rs := r.1 })

def cWithView (ms : Maps) (control : MapX) (d : Delims) (k : Nat) (le : List SegText.RErr) (s : Seg) (st : CState) :
    Option Envelope.SegView → CStep
  | none => .stop (.crash .getValue)
  | some v => cAfterReader ms control d k s st (le.map lineErr ++ baseErrs s) (Envelope.step Envelope.Fixes.all st.rs v)

/-- the glue part of one round of `for seg in self.src:` -/
def cStepSeg (ms : Maps) (control : MapX) (d : Delims) (k : Nat) (le : List SegText.RErr) (s : Seg) (st : CState) : CStep :=
  cWithView ms control d k le s st (Pipeline.viewOf d s)

/-! ### the tree part of one round -/

inductive TRes
  | ok (cur : Option Ctx.Cursor)
  | crash (s : CSite)

/-- from `node_x12path = self.x12_map_node.x12path` to the end of the loop body: the nodes yielded in this round and the
    new `cur_tree` / `cur_data_node` (as in `Ctx.runFrom`), or the exception -/
def treeStep (lid : Option Ctx.LoopId) (cur : Option Ctx.Cursor) (hasPrev : Bool) (r : CtxRound) : List Ctx.Yield × TRes :=
  if Ctx.inReq lid r.ans = true then
    if Ctx.isStart lid r.ans = true then
      match Ctx.addSegment (Ctx.freshTree r.ans) r.ans with
      | .error e => (Ctx.emit cur, .crash (.reader e))
      | .ok c => (Ctx.emit cur, .ok (some c))
    else
      match cur with
      | none => ([], .crash (.reader (if hasPrev = true then Ctx.Crash.plainNodeAsLoop else Ctx.Crash.noCurrentNode)))
      | some c =>
        match Ctx.addSegment c r.ans with
        | .error e => ([], .crash (.reader e))
        | .ok c' => ([], .ok (some c'))
  else
    if Ctx.pushAssertFails lid hasPrev r.ans = true then (Ctx.emit cur, .crash (.reader Ctx.Crash.pushAssert))
    else if hasPrev = false ∧ r.isaNode = false then (Ctx.emit cur, .crash .noParent)
    else (Ctx.emit cur ++ [Ctx.Yield.plain r.ans.seg r.ans.path r.ans.pos], .ok none)

/-! ### the whole run -/

structure CAcc where
  st : CState
  cur : Option Ctx.Cursor
  hasPrev : Bool
  yields : List Ctx.Yield
  /-- the rounds that ran to their end -/
  rounds : List CtxRound
  /-- the segments read -/
  segs : List Seg

inductive CLoopEnd
  | done (a : CAcc)
  | stopped (o : CStop) (a : CAcc)

def CAcc.read (a : CAcc) (s : Seg) : CAcc := { a with segs := a.segs ++ [s] }

def cAfterTree (a : CAcc) (st : CState) (r : CtxRound) (ys : List Ctx.Yield) : TRes → CLoopEnd ⊕ CAcc
  | .crash site => .inl (.stopped (.crash site) { a with st := st, yields := a.yields ++ ys })
  | .ok cur => .inr { a with st := st, cur := cur, hasPrev := true, yields := a.yields ++ ys, rounds := a.rounds ++ [r] }

def cRound (lid : Option Ctx.LoopId) (a : CAcc) : CStep → CLoopEnd ⊕ CAcc
  | .stop o => .inl (.stopped o a)
  | .next st r => cAfterTree a st r (treeStep lid a.cur a.hasPrev r).1 (treeStep lid a.cur a.hasPrev r).2

def cRunSegs (ms : Maps) (control : MapX) (d : Delims) (lid : Option Ctx.LoopId) :
    Nat → CAcc → List (List SegText.RErr × Seg) → CLoopEnd
  | _, a, [] => .done a
  | k, a, p :: ps =>
    match cRound lid (a.read p.2) (cStepSeg ms control d k p.1 p.2 a.st) with
    | .inl e => e
    | .inr a' => cRunSegs ms control d lid (k + 1) a' ps

/-- `errh.handle_errors(self.src.pop_errors()); cur_data_node.handle_errh_errors(errh)` over the completed rounds:
    `pend` = reported by the reader and not yet popped -/
def plainErrs (lid : Option Ctx.LoopId) : List RdErr → List CtxRound → List PlainErrs
  | _, [] => []
  | pend, r :: rs =>
    if Ctx.inReq lid r.ans = true then plainErrs lid (pend ++ r.rerrs) rs
    else ⟨r.ans.seg.text, r.werrs, pend ++ r.rerrs⟩ :: plainErrs lid [] rs

def outcomeOf (lid : Option Ctx.LoopId) (stop : CStop) (a : CAcc) (tail : List Ctx.Yield) : CtxOutcome :=
  { stop := stop, yields := a.yields ++ tail, segs := a.segs, errs := plainErrs lid [] a.rounds }

/-- the end of the generator: an exception, the reader's `line[-1]`, or the final `yield cur_tree` -/
def cFinish (lid : Option Ctx.LoopId) (rr : SegText.ReadResult) : CLoopEnd → CtxOutcome
  | .stopped o a => outcomeOf lid o a []
  | .done a =>
    if rr.crashed = true then outcomeOf lid (.crash .readerLine) a []
    else outcomeOf lid .done a (Ctx.emit a.cur)

/-- `X12ContextReader.__init__` after the reader: `self.map_file`, `self.x12_map_node`, a fresh walker -/
def cInitState (ms : Maps) (control : MapX) : CState :=
  { rs := Envelope.RState.init false, cnt := [], node := fetchIn ms control (isaPath ms),
    mapFile := some control.file, curMap := none, icvn := none, fic := none, vriic := none }

def cInitAcc (ms : Maps) (control : MapX) : CAcc :=
  { st := cInitState ms control, cur := none, hasPrev := false, yields := [], rounds := [], segs := [] }

def emptyOutcome (o : CStop) : CtxOutcome := { stop := o, yields := [], segs := [], errs := [] }

/-- everything after the reader: a function of the header and the read result -/
def ctxRead (ms : Maps) (lid : Option Ctx.LoopId) (h : Tokenizer.Header) (rr : SegText.ReadResult) : CtxOutcome :=
  match findMap ms (controlFile h) with
  | none => emptyOutcome .mapLoadFailed
  | some control =>
    cFinish lid rr (cRunSegs ms control (SegText.delimsOf h) lid 0 (cInitAcc ms control) rr.segs)

/-- `list(X12ContextReader(param, errh, io.StringIO(text)).iter_segments(loop_id))`, with the way it ended -/
def ctxDoc (ms : Maps) (lid : Option Ctx.LoopId) (text : List Char) : CtxOutcome :=
  match SegText.readAll { rest := text, sizes := [] } with
  | .error e => emptyOutcome (.refused e)
  | .ok h rr => ctxRead ms lid h rr

/-! ### what the translator guarantees of the envelope nodes (evaluated by the driver on every loaded map) -/

/-- `getnodebypath('/ISA_LOOP/ISA')` is the first child of a top-level loop called ISA_LOOP and is called ISA -/
def isaPinOK (ms : Maps) (m : MapX) : Bool :=
  match fetchIn ms m (isaPath ms) with
  | none => true
  | some n => (n.ip.getLast? == some 0) && (cxPath m.root n.ip.dropLast == [ms.ids.isaLoop]) &&
      (Walker.idAt m.root n.ip == ms.ids.isa)

end Pyx12Verif.Doc
