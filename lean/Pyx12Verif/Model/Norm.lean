/-
Model of `pyx12/scripts/x12norm.py`, function `main()`, for ONE input file, AFTER the fix C20-D17 (with `-o` the
temporary buffer is written into the named file; the unchanged code opens that file and writes nothing).

    src = X12Reader(file_in)                       -> `Tokenizer.rawSpec` + `SegText.readLines` (C01: the reader is
                                                      chunk independent, so the declarative splitter is the reader)
    for seg_data in src:                           -> `loop`: one `Envelope.step` per yielded segment (the reader's
                                                      `_parse_segment`; `check_837_lx` is never set by x12norm)
        if args.fixcounting:
            err_codes = [x[1] for x in src.pop_errors()]      -> `codes`
            if id == 'IEA' and '021' in err_codes: set('IEA01', '%i' % src.gs_count)
            elif id == 'GE' and '5' in err_codes:  set('GE01',  '%i' % src.st_count)
            elif id == 'SE' and '4' in err_codes:  set('SE01',  '%i' % (src.seg_count + 1))
            elif id == 'HL' and 'HL1' in err_codes: set('HL01', '%i' % src.hl_count)     -> `target`, `repair`
        fd_out.write(seg_data.format() + eol)      -> `emit`
    if eol == '': fd_out.write('\n')               -> `textOf`
    (stdout | -o file | in place) <- fd_out.read() -> the same text in all three cases (`Dest` is not a parameter)

`Segment.get_value` / `Segment.set` are the finished models of `Model/Segment.lean` applied to the literal
designators the code uses.  Error codes are compared as the strings the code compares (`codeOf`): `'4'` is both the
group error "GE02 mismatch" and the set error "SE01 wrong", `'3'` both "unterminated group" and "SE02 mismatch".
The reader's codes `'8'` (empty segment) and `'1'` (invalid identifier) of `X12Base._parse_segment` are not part of
the envelope model; they equal none of the four codes tested here.
An exception anywhere leaves `main()`: the temporary buffer is dropped, nothing is written (`raised` = the
`X12Error` for an ISA without 16 elements, `crash` = any other exception).
-/
import Pyx12Verif.Model.SegText
import Pyx12Verif.Model.Envelope

namespace Pyx12Verif.Norm
open Pyx12Verif SegText Envelope

abbrev Line := List Char

/-- `--eol`, `--fixcounting` -/
structure Options where
  eol : Bool
  fix : Bool
  deriving DecidableEq, Repr

inductive Res (α : Type)
  | ok (a : α)
  | raised
  | crash
  deriving DecidableEq, Repr

def Res.bind {α β : Type} : Res α → (α → Res β) → Res β
  | .ok a, f => f a
  | .raised, _ => .raised
  | .crash, _ => .crash

/-! ### the segment as the reader's bookkeeping sees it -/

def desISA13 : Str := ['I', 'S', 'A', '1', '3']
def desGS06 : Str := ['G', 'S', '0', '6']
def desST02 : Str := ['S', 'T', '0', '2']
def desHL01 : Str := ['H', 'L', '0', '1']
def desHL02 : Str := ['H', 'L', '0', '2']
def desIEA01 : Str := ['I', 'E', 'A', '0', '1']
def desIEA02 : Str := ['I', 'E', 'A', '0', '2']
def desGE01 : Str := ['G', 'E', '0', '1']
def desGE02 : Str := ['G', 'E', '0', '2']
def desSE01 : Str := ['S', 'E', '0', '1']
def desSE02 : Str := ['S', 'E', '0', '2']

/-- the `Segment` object the reader built from the data -/
def objOf (d : Delims) (s : Seg) : Segment.SegObj := Segment.ofSeg d.ele d.sub s

/-- `seg_data.get_value(des)`; `Option` = Python `None` -/
def getVal (d : Delims) (s : Seg) (des : Str) : Res (Option Str) :=
  match Segment.getValue (objOf d s) des with
  | .error _ => .crash
  | .ok v => .ok v

def viewCtl (d : Delims) (s : Seg) (des : Str) : Res SegView :=
  (getVal d s des).bind fun c => .ok ⟨s.id, none, c, false⟩

def viewCntCtl (d : Delims) (s : Seg) (des1 des2 : Str) : Res SegView :=
  (getVal d s des1).bind fun n => (getVal d s des2).bind fun c => .ok ⟨s.id, n, c, false⟩

/-- the elements `_parse_segment` consults, by segment identifier (`len(seg_data) != 16` is tested before ISA13
    is read) -/
def viewOf (d : Delims) (s : Seg) : Res SegView :=
  if s.id = idISA then
    (if s.elems.length = 16 then (getVal d s desISA13).bind fun c => .ok ⟨s.id, none, c, true⟩
     else .ok ⟨s.id, none, none, false⟩)
  else if s.id = idGS then viewCtl d s desGS06
  else if s.id = idST then viewCtl d s desST02
  else if s.id = idHL then viewCntCtl d s desHL01 desHL02
  else if s.id = idIEA then viewCntCtl d s desIEA01 desIEA02
  else if s.id = idGE then viewCntCtl d s desGE01 desGE02
  else if s.id = idSE then viewCntCtl d s desSE01 desSE02
  else .ok ⟨s.id, none, none, false⟩

/-! ### error codes as the strings `main()` compares -/

def codeOf : Err → Str
  | .isa025 => ['0', '2', '5'] | .isa024 => ['0', '2', '4'] | .isa001 => ['0', '0', '1']
  | .isa021 => ['0', '2', '1'] | .isa023 => ['0', '2', '3']
  | .gs6 => ['6'] | .gs3 => ['3'] | .gs4 => ['4'] | .gs5 => ['5']
  | .st23 => ['2', '3'] | .st3 => ['3'] | .st4 => ['4'] | .st2 => ['2']
  | .hl1 => ['H', 'L', '1'] | .hl2 => ['H', 'L', '2'] | .lx => ['L', 'X']

def rcodeOf : RErr → Str
  | .leadingBlank => ['1']
  | .trailingSep => ['S', 'E', 'G', '1']

/-- `[x[1] for x in src.pop_errors()]`: what `__iter__` appended, then what `_parse_segment` appended -/
def codes (re : List RErr) (es : List Err) : List Str := re.map rcodeOf ++ es.map codeOf

/-! ### the count repair -/

/-- the `if / elif` chain: designator to rewrite and the reader's counter to write; `st` is the reader's state after
    the segment was parsed -/
def target (st : RState) (id : Str) (cs : List Str) : Option (Str × Nat) :=
  if id = idIEA ∧ ['0', '2', '1'] ∈ cs then some (desIEA01, st.gsCount)
  else if id = idGE ∧ ['5'] ∈ cs then some (desGE01, st.stCount)
  else if id = idSE ∧ ['4'] ∈ cs then some (desSE01, st.segCount + 1)
  else if id = idHL ∧ ['H', 'L', '1'] ∈ cs then some (desHL01, st.hlCount)
  else none

/-- `seg_data.set(des, val)` -/
def setVal (d : Delims) (s : Seg) (des val : Str) : Res Seg :=
  match Segment.set (objOf d s) des val with
  | .error _ => .crash
  | .ok o => .ok (Segment.toSeg o)

def repairWith (d : Delims) (s : Seg) : Option (Str × Nat) → Res Seg
  | none => .ok s
  | some t => setVal d s t.1 (decimal t.2)

def repair (d : Delims) (st : RState) (cs : List Str) (s : Seg) : Res Seg :=
  repairWith d s (target st s.id cs)

/-! ### the loop -/

def eolOf (o : Options) : List Char := if o.eol then ['\n'] else []

/-- `seg_data.format() + eol` -/
def emit (o : Options) (d : Delims) (s : Seg) : Res Line :=
  match formatSeg d s with
  | none => .crash
  | some t => .ok (t ++ eolOf o)

def afterStep (o : Options) (d : Delims) (re : List RErr) (s : Seg) :
    Outcome (RState × List Err) → Res (RState × Seg)
  | .raised => .raised
  | .crash _ => .crash
  | .ok r => if o.fix then (repair d r.1 (codes re r.2) s).bind fun s' => .ok (r.1, s') else .ok (r.1, s)

/-- one round of `for seg_data in src:` up to the (possibly rewritten) segment -/
def stepSeg (o : Options) (d : Delims) (st : RState) (re : List RErr) (s : Seg) : Res (RState × Seg) :=
  (viewOf d s).bind fun v => afterStep o d re s (step Fixes.all st v)

/-- the rounds: per input segment the segment that is written and its line -/
def loop (o : Options) (d : Delims) : RState → List (List RErr × Seg) → Res (List (Seg × Line))
  | _, [] => .ok []
  | st, x :: rest =>
    (stepSeg o d st x.1 x.2).bind fun r =>
      (emit o d r.2).bind fun l =>
        (loop o d r.1 rest).bind fun ls => .ok ((r.2, l) :: ls)

def Res.map {α β : Type} (f : α → β) : Res α → Res β
  | .ok a => .ok (f a)
  | .raised => .raised
  | .crash => .crash

/-- the segments written (after the optional repair) -/
def normSegs (o : Options) (d : Delims) (inp : List (List RErr × Seg)) : Res (List Seg) :=
  (loop o d (RState.init false) inp).map (fun l => l.map (·.1))

/-- the pieces written by the loop, one per input segment -/
def norm (o : Options) (d : Delims) (inp : List (List RErr × Seg)) : Res (List Line) :=
  (loop o d (RState.init false) inp).map (fun l => l.map (·.2))

/-- the complete output: the pieces, then `'\n'` when no eol was asked for -/
def textOf (o : Options) (ls : List Line) : List Char := ls.flatten ++ (if o.eol then [] else ['\n'])

def normText (o : Options) (d : Delims) (inp : List (List RErr × Seg)) : Res (List Char) :=
  (norm o d inp).map (textOf o)

/-! ### one file -/

/-- what the reader yields for a text under given delimiters: per segment the reader-level errors popped with it -/
def readSegs (d : Delims) (text : List Char) : List (List RErr × Seg) :=
  (readLines d [] (Tokenizer.spec d.term text)).segs

inductive FileRes
  | headerError (e : Tokenizer.HeaderErr)   -- X12Error from the reader's constructor
  | raised
  | crash
  | ok (text : List Char)
  deriving DecidableEq, Repr

def fileOfRes : Res (List Char) → FileRes
  | .ok t => .ok t
  | .raised => .raised
  | .crash => .crash

def normLines (o : Options) (d : Delims) (r : ReadResult) : FileRes :=
  if r.crashed then .crash else fileOfRes (normText o d r.segs)

/-- `main()` on one file whose content is `text` -/
def normFile (o : Options) (text : List Char) : FileRes :=
  match Tokenizer.rawSpec text with
  | .error e => .headerError e
  | .ok h lines => normLines o (delimsOf h) (readLines (delimsOf h) [] lines)

end Pyx12Verif.Norm
