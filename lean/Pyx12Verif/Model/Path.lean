/-
Model of pyx12/path.py : X12Path.__init__ (parser), format / format_refdes (printer), empty,
equality (field-wise: the derived `DecidableEq`), is_child_path.

Strings are `List Char`.  The regular expression

    ^(?P<seg_id>[A-Z][A-Z0-9]{1,2})?(\[(?P<id_val>[A-Z0-9]+)\])?(?P<ele_idx>[0-9]{2})?(-(?P<subele_idx>[0-9]+))?$      (re.S)

is written out as the backtracking search Python's `re` performs: every optional group is first
tried *taken* and, when the rest of the pattern then fails, *skipped*; the seg-id group is greedy
(three characters, then two, then skipped).  `$` (no MULTILINE) succeeds at the end of the string and
before one final `\n`.  Backtracking *inside* `[A-Z0-9]+` / `[0-9]+` is not written out: after a
shorter run the next pattern item (`]`, resp. `$`) would have to match a class character, which it
never does.  `[0-9]` and `[A-Z]` are literal ASCII ranges (no Unicode digits).

`parse` returns `none` for `X12PathError` (the only exception `__init__` raises for `str` input whose
component index has at most 4300 digits — Python's int/str conversion limit; trusted-base note).
-/
namespace Pyx12Verif.Path

def isUpper (c : Char) : Bool := 'A' ≤ c && c ≤ 'Z'
def isDigit (c : Char) : Bool := '0' ≤ c && c ≤ '9'
/-- the class `[A-Z0-9]` -/
def isIdChar (c : Char) : Bool := isUpper c || isDigit c

def digitVal (c : Char) : Nat := c.toNat - '0'.toNat

/-- Python `int()` on a string of ASCII digits -/
def num (s : List Char) : Nat := s.foldl (fun a c => a * 10 + digitVal c) 0

/-- longest prefix of characters satisfying `p`, and the rest -/
def spanP (p : Char → Bool) : List Char → List Char × List Char
  | [] => ([], [])
  | c :: cs => if p c then (c :: (spanP p cs).1, (spanP p cs).2) else ([], c :: cs)

/-! ### `str.split(sep)` and `sep.join` -/

def consHead (c : Char) : List (List Char) → List (List Char)
  | [] => [[c]]
  | h :: t => (c :: h) :: t

/-- `s.split(sep)` for a one-character separator (never returns the empty list) -/
def splitOn (sep : Char) : List Char → List (List Char)
  | [] => [[]]
  | c :: r => if c = sep then [] :: splitOn sep r else consHead c (splitOn sep r)

/-- `sep.join(parts)` -/
def joinWith (sep : Char) : List (List Char) → List Char
  | [] => []
  | [x] => x
  | x :: y :: r => x ++ sep :: joinWith sep (y :: r)

/-! ### the regular expression of the last path component -/

/-- `$` without MULTILINE: at the end, or before one final newline -/
def atEnd : List Char → Bool
  | [] => true
  | [c] => c = '\n'
  | _ :: _ :: _ => false

/-- `(-(?P<subele_idx>[0-9]+))` taken, then `$` -/
def subGroup : List Char → Option (Option Nat)
  | [] => none
  | c :: r =>
    if c = '-' then
      (if !(spanP isDigit r).1.isEmpty && atEnd (spanP isDigit r).2
       then some (some (num (spanP isDigit r).1)) else none)
    else none

/-- `(-(?P<subele_idx>[0-9]+))?$` -/
def matchSub (s : List Char) : Option (Option Nat) :=
  match subGroup s with
  | some r => some r
  | none => if atEnd s then some none else none

/-- `(?P<ele_idx>[0-9]{2})` taken, then the rest of the pattern -/
def eleGroup : List Char → Option (Option Nat × Option Nat)
  | [] => none
  | [_] => none
  | d1 :: d2 :: r =>
    if isDigit d1 && isDigit d2 then
      (match matchSub r with
       | some c => some (some (num [d1, d2]), c)
       | none => none)
    else none

/-- `(?P<ele_idx>[0-9]{2})?(-([0-9]+))?$` -/
def matchEle (s : List Char) : Option (Option Nat × Option Nat) :=
  match eleGroup s with
  | some r => some r
  | none =>
    match matchSub s with
    | some c => some (none, c)
    | none => none

/-- what the four named groups captured -/
structure Last where
  seg : Option (List Char)
  idVal : Option (List Char)
  ele : Option Nat
  sub : Option Nat
  deriving DecidableEq, Repr

/-- after `\[` and the maximal `[A-Z0-9]+` run `q`: `\]` and the rest of the pattern -/
def qualClose (q : List Char) : List Char → Option Last
  | [] => none
  | c :: r =>
    if c = ']' && !q.isEmpty then
      (match matchEle r with
       | some ec => some ⟨none, some q, ec.1, ec.2⟩
       | none => none)
    else none

/-- `(\[(?P<id_val>[A-Z0-9]+)\])` taken, then the rest of the pattern -/
def qualGroup : List Char → Option Last
  | [] => none
  | c :: r => if c = '[' then qualClose (spanP isIdChar r).1 (spanP isIdChar r).2 else none

/-- `(\[(?P<id_val>[A-Z0-9]+)\])?(?P<ele_idx>[0-9]{2})?(-([0-9]+))?$` -/
def matchQual (s : List Char) : Option Last :=
  match qualGroup s with
  | some m => some m
  | none =>
    match matchEle s with
    | some ec => some ⟨none, none, ec.1, ec.2⟩
    | none => none

/-- `[A-Z][A-Z0-9]*` on a whole candidate -/
def segShape : List Char → Bool
  | [] => false
  | c :: r => isUpper c && r.all isIdChar

def withSeg (sid : List Char) (m : Last) : Last := ⟨some sid, m.idVal, m.ele, m.sub⟩

/-- the seg-id group taken with exactly `n` characters (`n` = 3, then 2), then the rest -/
def trySeg (n : Nat) (s : List Char) : Option Last :=
  if (s.take n).length = n && segShape (s.take n) then
    (match matchQual (s.drop n) with
     | some m => some (withSeg (s.take n) m)
     | none => none)
  else none

/-- `rec_path.search(seg_str)`: `none` = no match -/
def matchLast (s : List Char) : Option Last :=
  match trySeg 3 s with
  | some m => some m
  | none =>
    match trySeg 2 s with
    | some m => some m
    | none => matchQual s

/-! ### X12Path -/

structure XPath where
  relative : Bool
  loops : List (List Char)
  segId : Option (List Char)
  idVal : Option (List Char)
  eleIdx : Option Nat
  subIdx : Option Nat
  deriving DecidableEq, Repr

def loopsOnly (rel : Bool) (loops : List (List Char)) : XPath := ⟨rel, loops, none, none, none, none⟩

/-- the two refusals after a successful match (`del self.loop_list[-1]` already done: `loops`) -/
def checkLast (rel : Bool) (loops : List (List Char)) (m : Last) : Option XPath :=
  if m.seg.isNone && m.idVal.isSome then none
  else if m.seg.isNone && (m.ele.isSome || m.sub.isSome) && !loops.isEmpty then none
  else some ⟨rel, loops, m.seg, m.idVal, m.ele, m.sub⟩

/-- `__init__` after the split; `parts` is `loop_list` -/
def finish (rel : Bool) (parts : List (List Char)) : Option XPath :=
  match parts.getLast? with
  | none => some (loopsOnly rel [])
  | some last =>
    if last.isEmpty then some (loopsOnly rel parts.dropLast)
    else
      match matchLast last with
      | none => some (loopsOnly rel parts)
      | some m => checkLast rel parts.dropLast m

/-- `X12Path(path_str)`; `none` = `X12PathError` -/
def parse : List Char → Option XPath
  | [] => some (loopsOnly true [])
  | c :: r => if c = '/' then finish false (splitOn '/' r) else finish true (splitOn '/' (c :: r))

/-! ### printing -/

def digitChar (n : Nat) : Char := Char.ofNat ('0'.toNat + n)

def digitsAux : Nat → Nat → List Char → List Char
  | 0, _, acc => acc
  | fuel + 1, n, acc =>
    if n < 10 then digitChar n :: acc else digitsAux fuel (n / 10) (digitChar (n % 10) :: acc)

/-- `'%i' % n` -/
def natDigits (n : Nat) : List Char := digitsAux (n + 1) n []

/-- `'%02i' % n` -/
def pad2 (n : Nat) : List Char := if n < 10 then '0' :: natDigits n else natDigits n

def qualPart : Option (List Char) → List Char
  | none => []
  | some q => if q.isEmpty then [] else '[' :: q ++ [']']

def segPart (p : XPath) : List Char :=
  match p.segId with
  | none => []
  | some s => if s.isEmpty then [] else s ++ qualPart p.idVal

def subPart : Option Nat → List Char
  | none => []
  | some c => if c = 0 then [] else '-' :: natDigits c

def elePart (p : XPath) : List Char :=
  match p.eleIdx with
  | none => []
  | some e => if e = 0 then [] else pad2 e ++ subPart p.subIdx

/-- `format_refdes` (Python truthiness: `None`, `''` and `0` are skipped) -/
def formatRefdes (p : XPath) : List Char := segPart p ++ elePart p

def segTruthy (p : XPath) : Bool :=
  match p.segId with
  | none => false
  | some s => !s.isEmpty

def loopsPart (p : XPath) : List Char :=
  (if p.relative then [] else ['/']) ++ joinWith '/' p.loops

def sepPart (p : XPath) : List Char :=
  if segTruthy p && !(loopsPart p).isEmpty && loopsPart p != ['/'] then ['/'] else []

/-- `format()` = `__repr__()` -/
def format (p : XPath) : List Char := loopsPart p ++ sepPart p ++ formatRefdes p

/-- `empty()` -/
def isEmptyPath (p : XPath) : Bool :=
  p.relative && p.loops.isEmpty && p.segId.isNone && p.eleIdx.isNone

def isPrefix : List (List Char) → List (List Char) → Bool
  | [], _ => true
  | _ :: _, [] => false
  | a :: r, b :: s => a = b && isPrefix r s

/-- `is_child_path(child_path)` -/
def isChildPath (p : XPath) (child : List Char) : Bool :=
  if (splitOn '/' (format p)).length ≥ (splitOn '/' child).length then false
  else isPrefix (splitOn '/' (format p)) (splitOn '/' child)

end Pyx12Verif.Path
