/-
Model of the cursor `pyx12.error_handler.err_iter` (class at the top of error_handler.py), of the per-segment drain
loop of `x12n_document` (`while True: next(err_iter) … except IterOutOfBounds: break`), and of the selection
`get_error_list(seg_id, pre)` + the loops of `error_html.gen_seg` / `error_html.footer` that decide which tree
errors are written next to which segment.

The tree is the one of `Model/ErrTree.lean`.  A Python node reference is the address of the node (nodes are only
appended, never removed, so an address stays valid and address equality is object identity):

  `cur_node`     ⇔ `Cursor.cur`     (`.root` = the `err_handler` itself, id 'ROOT')
  `visit_stack`  ⇔ `Cursor.stack`   **top first**: `visit_stack.append(x)` is `x :: stack`, `del visit_stack[-1]` is `tail`,
                                    `x in visit_stack` is `x ∈ stack`

`err_ele` nodes are never reached by the cursor (`err_seg.get_first_child` returns `None`, the envelope nodes keep
them in `elements`, not in `children`); they are read through `err_node.elements` by `gen_seg`.

Python partial operations: `del self.visit_stack[-1]` is guarded by `cur_node in visit_stack` (stack not empty);
`get_parent()` of ROOT is `None` (explicit branch).  An address that does not exist in the tree cannot occur in
Python; the accessors answer 0 / `false` / `[]` for it and `Proofs/ErrIterValid.lean` shows the cursor never holds one.
-/
import Pyx12Verif.Model.ErrTree

namespace Pyx12Verif.ErrIter
open Pyx12Verif.ErrTree

/-- reference to a node of the error tree that the cursor can stand on -/
inductive Addr where
  | root
  | isa (i : Nat)
  | gs (i g : Nat)
  | st (i g s : Nat)
  | seg (i g s k : Nat)
deriving DecidableEq, Repr

/-! ### plain reads of the tree -/

/-- `len(node.children)`; `err_seg` has no `children` and answers `get_first_child() = None` -/
def kids (t : Tree) : Addr → Nat
  | .root => t.length
  | .isa i => gsChildCount t i
  | .gs i g => stChildCountGs t (i, g)
  | .st i g s => stChildCount t (i, g, s)
  | .seg _ _ _ _ => 0

def isaClosed (t : Tree) (i : Nat) : Bool :=
  match t[i]? with
  | some a => a.closed
  | none => false

def gsClosed (t : Tree) (i g : Nat) : Bool :=
  match getGs t i g with
  | some x => x.closed
  | none => false

def stClosed (t : Tree) (i g s : Nat) : Bool :=
  match getSt t i g s with
  | some x => x.closed
  | none => false

/-- `node.is_closed()`: ROOT and segment nodes `True`; envelope nodes: the trailer line has been recorded -/
def closedAt (t : Tree) : Addr → Bool
  | .root => true
  | .isa i => isaClosed t i
  | .gs i g => gsClosed t i g
  | .st i g s => stClosed t i g s
  | .seg _ _ _ _ => true

/-- `get_first_child()` -/
def firstChild (t : Tree) : Addr → Option Addr
  | .root => if 0 < kids t .root then some (.isa 0) else none
  | .isa i => if 0 < kids t (.isa i) then some (.gs i 0) else none
  | .gs i g => if 0 < kids t (.gs i g) then some (.st i g 0) else none
  | .st i g s => if 0 < kids t (.st i g s) then some (.seg i g s 0) else none
  | .seg _ _ _ _ => none

/-- `get_next_sibling()`: the entry after `self` in `parent.children`; ROOT has none -/
def nextSibling (t : Tree) : Addr → Option Addr
  | .root => none
  | .isa i => if i + 1 < kids t .root then some (.isa (i + 1)) else none
  | .gs i g => if g + 1 < kids t (.isa i) then some (.gs i (g + 1)) else none
  | .st i g s => if s + 1 < kids t (.gs i g) then some (.st i g (s + 1)) else none
  | .seg i g s k => if k + 1 < kids t (.st i g s) then some (.seg i g s (k + 1)) else none

/-- `get_parent()` -/
def parent : Addr → Option Addr
  | .root => none
  | .isa _ => some .root
  | .gs i _ => some (.isa i)
  | .st i g _ => some (.gs i g)
  | .seg i g s _ => some (.st i g s)

/-! ### the cursor -/

structure Cursor where
  cur : Addr
  stack : List Addr
deriving DecidableEq, Repr

/-- `err_iter.__init__` -/
def Cursor.init : Cursor := { cur := .root, stack := [] }

/-- outcome of one `__next__`: the new cursor, or `IterOutOfBounds` with the state the call leaves behind
    (the ROOT branch assigns `cur_node` and pops the stack before it raises).  `up` is a ghost flag: the move was
    the `get_parent()` branch -/
inductive Step where
  | moved (c : Cursor) (up : Bool)
  | oob (c : Cursor)
deriving DecidableEq, Repr

/-- first four lines of `__next__`: children are not entered from a node that is on the visit stack -/
def descendTarget (t : Tree) (c : Cursor) : Option Addr :=
  if c.cur ∈ c.stack then none else firstChild t c.cur

/-- `if self.cur_node in self.visit_stack: del self.visit_stack[-1]` -/
def popIfIn (c : Cursor) : List Addr :=
  if c.cur ∈ c.stack then c.stack.tail else c.stack

/-- the innermost `else:` of `__next__` -/
def ascend (t : Tree) (c : Cursor) : Step :=
  if closedAt t c.cur = false then .oob c
  else
    match parent c.cur with
    | none => .oob c
    | some p =>
      if closedAt t p = false then .oob c
      else if p = .root then .oob { cur := p, stack := popIfIn c }
      else .moved { cur := p, stack := popIfIn c } true

/-- `err_iter.__next__` -/
def step (t : Tree) (c : Cursor) : Step :=
  match descendTarget t c with
  | some n => .moved { cur := n, stack := c.cur :: c.stack } false
  | none =>
    match nextSibling t c.cur with
    | some n => .moved { cur := n, stack := c.stack } false
    | none => ascend t c

/-- `next(err_iter)`: `none` = `IterOutOfBounds` -/
def next (t : Tree) (c : Cursor) : Option Cursor :=
  match step t c with
  | .moved c' _ => some c'
  | .oob _ => none

/-- the state `__next__` leaves behind when it raises -/
def afterOob (t : Tree) (c : Cursor) : Cursor :=
  match step t c with
  | .moved _ _ => c
  | .oob c' => c'

/-! ### the drain loop of `x12n_document` -/

/-- one entry of `err_node_list` (with the ghost flag of the move that reached it) -/
structure Visit where
  addr : Addr
  up : Bool
deriving DecidableEq, Repr

def consV (v : Visit) (p : List Visit × Cursor) : List Visit × Cursor := (v :: p.1, p.2)

def drainF (t : Tree) : Nat → Cursor → List Visit × Cursor
  | 0, c => ([], c)
  | f + 1, c =>
    match step t c with
    | .moved c' up => consV { addr := c'.cur, up := up } (drainF t f c')
    | .oob c' => ([], c')

/-- every node of the tree that has an address (ROOT included) -/
def nodes (t : Tree) : List Addr :=
  .root :: (List.range (kids t .root)).flatMap (fun i =>
    .isa i :: (List.range (kids t (.isa i))).flatMap (fun g =>
      .gs i g :: (List.range (kids t (.gs i g))).flatMap (fun s =>
        .st i g s :: (List.range (kids t (.st i g s))).map (fun k => .seg i g s k))))

/-- a node is handed over at most once on the way down and once on the way up
    (`Proofs/ErrIterFuel.lean`: `drainF_fuel_suffices`) -/
def fuel (t : Tree) : Nat := 2 * (nodes t).length + 1

def drainV (t : Tree) (c : Cursor) : List Visit × Cursor := drainF t (fuel t) c

/-- `err_node_list` of one source segment and the cursor afterwards -/
def drain (t : Tree) (c : Cursor) : List Addr × Cursor := ((drainV t c).1.map (·.addr), (drainV t c).2)

/-! ### which stored errors `gen_seg` writes for a node: `get_error_list(seg_id, pre)` -/

/-- a stored error tuple: entry `n` of `node.errors`, or entry `n` of `node.elements[e].errors` -/
inductive ErrRef where
  | node (a : Addr) (n : Nat)
  | ele (a : Addr) (e n : Nat)
deriving DecidableEq, Repr

def ErrRef.addr : ErrRef → Addr
  | .node a _ => a
  | .ele a _ _ => a

/-- a written message: which tuple, and its code (`.node` tuples are labelled "Segment Error Code", `.ele` tuples
    "Element Error Code") -/
structure Err where
  ref : ErrRef
  code : Str
deriving DecidableEq, Repr

def sISA : Str := ['I', 'S', 'A']
def sIEA : Str := ['I', 'E', 'A']
def sGS : Str := ['G', 'S']
def sGE : Str := ['G', 'E']
def sST : Str := ['S', 'T']
def sSE : Str := ['S', 'E']

def isPrefix : Str → Str → Bool
  | [], _ => true
  | _ :: _, [] => false
  | a :: p, b :: s => if a = b then isPrefix p s else false

/-- Python `p in s` for strings -/
def isInfix (p : Str) : Str → Bool
  | [] => isPrefix p []
  | c :: s => if isPrefix p (c :: s) then true else isInfix p s

/-- `err_isa.get_error_list`: `'ISA' in err[0]` / `'IEA' in err[0]` - substring tests on the error *code* -/
def isaPass (sid code : Str) : Bool :=
  if sid = sISA then isInfix sISA code
  else if sid = sIEA then isInfix sIEA code
  else false

/-- `err_gs.get_error_list`: `err[0] in ('6')` - `('6')` is the string `'6'`, so this too is a substring test -/
def gsPass (sid code : Str) : Bool :=
  if sid = sGS then isInfix code ['6']
  else if sid = sGE then !(isInfix code ['6'])
  else false

def stCodes : List Str := [['1'], ['6'], ['7'], ['2', '3']]

/-- `err_st.get_error_list`: `err[0] in ('1', '6', '7', '23')` - a real tuple -/
def stPass (sid code : Str) : Bool :=
  if sid = sST then decide (code ∈ stCodes)
  else if sid = sSE then !(decide (code ∈ stCodes))
  else false

/-- `node.get_error_list(seg_id, …)` as a filter on codes (`err_seg` inherits `err_node`'s: everything).
    ROOT is never handed to `gen_seg` (`Props/C19Iter.lean`: `root_never_handed_over`) -/
def nodePass : Addr → Str → Str → Bool
  | .root, _, _ => false
  | .isa _, sid, c => isaPass sid c
  | .gs _ _, sid, c => gsPass sid c
  | .st _ _ _, sid, c => stPass sid c
  | .seg _ _ _ _, _, _ => true

/-- `gen_seg`: `if not (seg_data.get_seg_id() == 'GE' and 'GS' in err_str)` ("Ugly hack") -/
def elePass (sid msg : Str) : Bool := !(decide (sid = sGE) && isInfix sGS msg)

/-- codes of `node.errors`, in order -/
def nodeCodes (t : Tree) : Addr → List Str
  | .root => []
  | .isa i =>
    (match t[i]? with
     | some a => a.errors
     | none => [])
  | .gs i g =>
    (match getGs t i g with
     | some x => x.errors
     | none => [])
  | .st i g s =>
    (match getSt t i g s with
     | some x => x.errors
     | none => [])
  | .seg i g s k =>
    (match getSeg t i g s k with
     | some x => x.errors.map (·.code)
     | none => [])

/-- `node.elements` -/
def nodeEles (t : Tree) : Addr → List Ele
  | .root => []
  | .isa i =>
    (match t[i]? with
     | some a => a.elements
     | none => [])
  | .gs i g =>
    (match getGs t i g with
     | some x => x.elements
     | none => [])
  | .st i g s =>
    (match getSt t i g s with
     | some x => x.elements
     | none => [])
  | .seg i g s k =>
    (match getSeg t i g s k with
     | some x => x.elements
     | none => [])

def pickNode (a : Addr) (sid : Str) : Nat → List Str → List Err
  | _, [] => []
  | n, c :: r =>
    if nodePass a sid c then { ref := .node a n, code := c } :: pickNode a sid (n + 1) r
    else pickNode a sid (n + 1) r

def pickEleErrs (a : Addr) (sid : Str) (e : Nat) : Nat → List EleErr → List Err
  | _, [] => []
  | n, x :: r =>
    if elePass sid x.msg then { ref := .ele a e n, code := x.code } :: pickEleErrs a sid e (n + 1) r
    else pickEleErrs a sid e (n + 1) r

def pickEles (a : Addr) (sid : Str) : Nat → List Ele → List Err
  | _, [] => []
  | e, x :: r => pickEleErrs a sid e 0 x.errors ++ pickEles a sid (e + 1) r

def nodeShown (t : Tree) (a : Addr) (sid : Str) : List Err := pickNode a sid 0 (nodeCodes t a)
def eleShown (t : Tree) (a : Addr) (sid : Str) : List Err := pickEles a sid 0 (nodeEles t a)

/-- every message `gen_seg` writes for the node at `a` when it is in `err_node_list` of a segment with id `sid` -/
def shown (t : Tree) (a : Addr) (sid : Str) : List Err := nodeShown t a sid ++ eleShown t a sid

/-! ### the order of the written lines (`gen_seg`, `footer`) -/

inductive Line where
  | err (e : Err)
  | seg
deriving DecidableEq, Repr

def isCode3 (e : Err) : Bool := decide (e.code = ['3'])

/-- `gen_seg`: messages with code '3' of the node lists first, the segment line, then per node the other node
    messages followed by the element messages -/
def genSeg (t : Tree) (l : List Addr) (sid : Str) : List Line :=
  (l.flatMap (fun a => (nodeShown t a sid).filter isCode3)).map Line.err ++ [Line.seg] ++
    (l.flatMap (fun a => (nodeShown t a sid).filter (fun e => !(isCode3 e)) ++ eleShown t a sid)).map Line.err

def pickCode (a : Addr) (want : Str) : Nat → List Str → List Err
  | _, [] => []
  | n, c :: r =>
    if c = want then { ref := .node a n, code := c } :: pickCode a want (n + 1) r else pickCode a want (n + 1) r

def footSt (s : State) : List Err :=
  match s.curSt with
  | none => []
  | some p => if stClosed s.tree p.1 p.2.1 p.2.2 then []
              else pickCode (.st p.1 p.2.1 p.2.2) ['2'] 0 (nodeCodes s.tree (.st p.1 p.2.1 p.2.2))

def footGs (s : State) : List Err :=
  match s.curGs with
  | none => []
  | some p => if gsClosed s.tree p.1 p.2 then []
              else pickCode (.gs p.1 p.2) ['3'] 0 (nodeCodes s.tree (.gs p.1 p.2))

def footIsa (s : State) : List Err :=
  match s.curIsa with
  | none => []
  | some i => if isaClosed s.tree i then []
              else pickCode (.isa i) ['0', '2', '3'] 0 (nodeCodes s.tree (.isa i))

/-- `error_html.footer`: "unterminated" messages of the still open set / group / interchange -/
def footer (s : State) : List Err := footSt s ++ footGs s ++ footIsa s

/-! ### a whole run: error-handler calls interleaved with the per-segment drain -/

/-- one step of the history of a run of `x12n_document` with an HTML sink: a call of an `err_handler` method, or the
    end of the loop body for a source segment with identifier `sid` (drain the cursor, `gen_seg`) -/
inductive Item where
  | ev (e : Event)
  | seg (sid : Str)
deriving DecidableEq, Repr

structure RState where
  st : State
  cur : Cursor
deriving DecidableEq, Repr

def RState.init : RState := { st := State.init, cur := Cursor.init }

/-- what happened at one source segment: the tree at that moment and `err_node_list` -/
structure Frame where
  sid : Str
  tree : Tree
  visits : List Visit
deriving DecidableEq, Repr

def Frame.addrs (f : Frame) : List Addr := f.visits.map (·.addr)

/-- frames of a history; a crash of an error-handler call ends the run (`x12n_document` raises) -/
def runH : RState → List Item → List Frame
  | _, [] => []
  | rs, .ev e :: r =>
    (match ErrTree.step rs.st e with
     | .ok s1 => runH { st := s1, cur := rs.cur } r
     | .crash _ => [])
  | rs, .seg sid :: r =>
    { sid := sid, tree := rs.st.tree, visits := (drainV rs.st.tree rs.cur).1 } ::
      runH { st := rs.st, cur := (drainV rs.st.tree rs.cur).2 } r

/-- the state at the end of a history (`none`: an error-handler call crashed) -/
def runEnd : RState → List Item → Option RState
  | rs, [] => some rs
  | rs, .ev e :: r =>
    (match ErrTree.step rs.st e with
     | .ok s1 => runEnd { st := s1, cur := rs.cur } r
     | .crash _ => none)
  | rs, .seg _ :: r => runEnd { st := rs.st, cur := (drainV rs.st.tree rs.cur).2 } r

/-- messages written next to the segment of a frame -/
def Frame.shown (f : Frame) : List Err := f.addrs.flatMap (fun a => ErrIter.shown f.tree a f.sid)

def Frame.lines (f : Frame) : List Line := genSeg f.tree f.addrs f.sid

/-- the message and segment lines of the report of a history that does not crash -/
def reportLines (h : List Item) : Option (List Line) :=
  match runEnd RState.init h with
  | none => none
  | some rs => some ((runH RState.init h).flatMap Frame.lines ++ (footer rs.st).map Line.err)

def numberFrom : Nat → List Frame → List (Nat × Err)
  | _, [] => []
  | k, f :: r => f.shown.map (fun e => (k, e)) ++ numberFrom (k + 1) r

/-- `(k, e)`: message `e` is written next to the `k`-th source segment (counting from 0) -/
def reportPairs (h : List Item) : List (Nat × Err) := numberFrom 0 (runH RState.init h)

end Pyx12Verif.ErrIter
