/-
Model of the acknowledgement visitors: `pyx12/error_997.py` (`error_997_visitor`, hand-kept segment counters) and
`pyx12/error_999.py` (`error_999_visitor`, all output through `X12Writer`), together with the parts of
`pyx12/segment.py` they use (`Segment.__init__/append/set/format/get_value`, `Composite.format`).

Output = the list of `Segment` objects handed to `fd.write` (997: `_write`) / `X12Writer._write_segment` (999) in
order; `render997` / `render999` give the text.  A Python exception inside the visitor is swallowed by
`x12n_document`'s `except Exception`, so whatever was written before it stays in the file: `crash = some site` with
the truncated `out`.

`cfg.legacy = true` mirrors the unchanged code; `false` the code after the three proposed repairs (GS08 of the 997,
total ST/SE element-position lookup, AK203 omitted when ST03 is absent).  The fourth repair — AK402 / IK402 written only when
`ele_ref_num` is a string of ASCII digits (`asciiDigits`) — is modelled for both settings.  `list(set(…))` iteration order (hash
dependent in Python) is modelled as sorted order; the correspondence compares those runs as multisets.
-/
import Pyx12Verif.Model.ErrTree

namespace Pyx12Verif.Ack
open Pyx12Verif.ErrTree

/-! ### Python string helpers -/

def consHead (c : Char) : List Str → List Str
  | [] => [[c]]
  | h :: t => (c :: h) :: t

/-- `s.split(sep)` for a one-character separator -/
def splitOn (sep : Char) : Str → List Str
  | [] => [[]]
  | c :: r => if c = sep then [] :: splitOn sep r else consHead c (splitOn sep r)

/-- `sep.join(parts)` -/
def joinWith (sep : Char) : List Str → Str
  | [] => []
  | [x] => x
  | x :: y :: r => x ++ sep :: joinWith sep (y :: r)

/-- `str.isspace` for one character (Unicode White_Space plus 0x1c–0x1f, as CPython) -/
def isPySpace (c : Char) : Bool :=
  (9 ≤ c.toNat && c.toNat ≤ 13) || (28 ≤ c.toNat && c.toNat ≤ 32) || c.toNat == 133 || c.toNat == 160 ||
  c.toNat == 5760 || (8192 ≤ c.toNat && c.toNat ≤ 8202) || c.toNat == 8232 || c.toNat == 8233 ||
  c.toNat == 8239 || c.toNat == 8287 || c.toNat == 12288

def lstrip : Str → Str
  | [] => []
  | c :: r => if isPySpace c then lstrip r else c :: r

def rstrip (s : Str) : Str := (lstrip s.reverse).reverse
def strip (s : Str) : Str := rstrip (lstrip s)

def digitChar (n : Nat) : Char :=
  if n % 10 = 0 then '0' else if n % 10 = 1 then '1' else if n % 10 = 2 then '2' else if n % 10 = 3 then '3'
  else if n % 10 = 4 then '4' else if n % 10 = 5 then '5' else if n % 10 = 6 then '6' else if n % 10 = 7 then '7'
  else if n % 10 = 8 then '8' else '9'

def natDigitsAux : Nat → Nat → Str → Str
  | 0, _, acc => acc
  | f + 1, n, acc => if n < 10 then digitChar n :: acc else natDigitsAux f (n / 10) (digitChar n :: acc)

/-- `'%i' % n` for `n ≥ 0` -/
def natStr (n : Nat) : Str := natDigitsAux (n + 1) n []

/-- `'%i' % n` -/
def intStr (n : Int) : Str :=
  if n < 0 then '-' :: natStr n.natAbs else natStr n.natAbs

def padZeros (w : Nat) (s : Str) : Str := List.replicate (w - s.length) '0' ++ s

/-- `'%04i' % n` for `n ≥ 0` -/
def fmt04 (n : Nat) : Str := padZeros 4 (natStr n)

/-- `'%s' % x` where `x` may be `None` -/
def pyStr : Option Str → Str
  | some s => s
  | none => ['N', 'o', 'n', 'e']

/-- Python truthiness of an optional string -/
def truthy : Option Str → Bool
  | some s => !s.isEmpty
  | none => false

/-- one ASCII decimal digit `0`–`9` -/
def isAsciiDigit (c : Char) : Bool := decide (48 ≤ c.toNat) && decide (c.toNat ≤ 57)

/-- `x and x.isascii() and x.isdigit()` for an optional string: not `None`, not `''`, ASCII decimal digits only -/
def asciiDigits : Option Str → Bool
  | some s => !s.isEmpty && s.all isAsciiDigit
  | none => false

/-- `needle in hay` for strings -/
def isInfix (needle : Str) : Str → Bool
  | [] => needle.isEmpty
  | c :: r => needle.isPrefixOf (c :: r) || isInfix needle r

def strLt : Str → Str → Bool
  | [], [] => false
  | [], _ :: _ => true
  | _ :: _, [] => false
  | a :: r, b :: t => if a.toNat < b.toNat then true else if b.toNat < a.toNat then false else strLt r t

def insertU (x : Str) : List Str → List Str
  | [] => [x]
  | y :: r => if x = y then y :: r else if strLt x y then x :: y :: r else y :: insertU x r

/-- `sorted(set(l))` -/
def sortU : List Str → List Str
  | [] => []
  | x :: r => insertU x (sortU r)

/-! ### `pyx12.segment` -/

/-- `Composite.elements` as strings -/
abbrev Comp := List Str

structure PSeg where
  id : Str
  elems : List Comp
deriving DecidableEq, Repr

def trimCons (x : Str) (t : List Str) : List Str := if t.isEmpty && x.isEmpty then [] else x :: t

/-- drop trailing empty strings -/
def trimR : List Str → List Str
  | [] => []
  | x :: r => trimCons x (trimR r)

/-- `Composite.format`: up to the last non-empty sub-element, but never fewer than the first -/
def fmtComp (c : Comp) : Str :=
  if (trimR c).isEmpty then joinWith ':' (c.take 1) else joinWith ':' (trimR c)

def compEmpty (c : Comp) : Bool := c.all (fun e => e.isEmpty)

def trimConsC (x : Comp) (t : List Comp) : List Comp := if t.isEmpty && compEmpty x then [] else x :: t

def trimRC : List Comp → List Comp
  | [] => []
  | x :: r => trimConsC x (trimRC r)

/-- the element strings `Segment.format` joins: up to the last non-empty element, never fewer than the first -/
def fmtFields (s : PSeg) : List Str :=
  if (trimRC s.elems).isEmpty then (s.elems.take 1).map fmtComp else (trimRC s.elems).map fmtComp

/-- `Segment.format('~', '*', ':')` -/
def PSeg.format (s : PSeg) : Str := s.id ++ '*' :: (joinWith '*' (fmtFields s) ++ ['~'])

def stripTerm (s : Str) : Str := if s.getLast? = some '~' then s.dropLast else s

def isaId : Str := ['I', 'S', 'A']

def mkSegOf : List Str → PSeg
  | [] => { id := [], elems := [] }
  | i :: es => { id := i, elems := if i = isaId then es.map (fun e => [e]) else es.map (splitOn ':') }

/-- `Segment(seg_str, '~', '*', ':')` for a non-empty `seg_str` -/
def mkSeg (s : Str) : PSeg := mkSegOf (splitOn '*' (stripTerm s))

/-- `Segment.append(val)` -/
def PSeg.append (s : PSeg) (v : Str) : PSeg := { s with elems := s.elems ++ [splitOn ':' v] }

def padComps (n : Nat) (l : List Comp) : List Comp := l ++ List.replicate (n + 1 - l.length) [[]]
def padStrs (n : Nat) (l : List Str) : List Str := l ++ List.replicate (n + 1 - l.length) []

/-- `Segment.set('<nn>', val)` with 0-based `idx` (not ISA16) -/
def PSeg.setEle (s : PSeg) (idx : Nat) (v : Str) : PSeg :=
  { s with elems := (padComps idx s.elems).set idx (splitOn ':' v) }

/-- `Segment.set('ISA16', val)`: `Composite(val, ele_term)` -/
def PSeg.setIsa16 (s : PSeg) (v : Str) : PSeg :=
  { s with elems := (padComps 15 s.elems).set 15 (splitOn '*' v) }

/-- `Segment.set('<nn>-<j>', val)` with 0-based indexes -/
def PSeg.setSub (s : PSeg) (idx j : Nat) (v : Str) : PSeg :=
  { s with elems := modNth (fun c => (padStrs j c).set j v) (padComps idx s.elems) idx }

/-- `Segment.get_value('<nn>')` -/
def PSeg.getValue (s : PSeg) (idx : Nat) : Option Str := (s.elems[idx]?).map fmtComp

/-! ### parameters and outcome -/

structure Params where
  date6 : Str
  time4 : Str
  date8 : Str
  time6 : Str
  gsCtl : Str
deriving DecidableEq, Repr

structure Cfg where
  legacy : Bool
deriving DecidableEq, Repr

inductive ASite where
  | rootNoIsa | rootNoGs | isaValueNone | gsValueNone
  | ak1ValueNone | ak2NoId | ak2NoCtl | ak2NoVriic
  | stEleKey | seEleKey | isaEleKey | ieaEleKey | ta1ValueNone | writerIsaLen
deriving DecidableEq, Repr

/-- lines produced by a piece of the visitor before it finished (`none`) or raised (`some site`) -/
structure Lines where
  segs : List PSeg
  crash : Option ASite
deriving DecidableEq, Repr

def Lines.ok (l : List PSeg) : Lines := { segs := l, crash := none }
def Lines.fail (c : ASite) : Lines := { segs := [], crash := some c }

def Lines.andThen (a b : Lines) : Lines :=
  match a.crash with
  | some _ => a
  | none => { segs := a.segs ++ b.segs, crash := b.crash }

def c1 (a : Char) : Str := [a]
def sAK1 : Str := ['A', 'K', '1']
def sAK2 : Str := ['A', 'K', '2']
def sAK3 : Str := ['A', 'K', '3']
def sAK4 : Str := ['A', 'K', '4']
def sAK5 : Str := ['A', 'K', '5']
def sAK9 : Str := ['A', 'K', '9']
def sIK3 : Str := ['I', 'K', '3']
def sIK4 : Str := ['I', 'K', '4']
def sIK5 : Str := ['I', 'K', '5']
def sST : Str := ['S', 'T']
def sSE : Str := ['S', 'E']
def sGS : Str := ['G', 'S']
def sGE : Str := ['G', 'E']
def sIEA : Str := ['I', 'E', 'A']
def sTA1 : Str := ['T', 'A', '1']
def sSEG1 : Str := ['S', 'E', 'G', '1']
def bare (i : Str) : PSeg := { id := i, elems := [] }

/-! ### code tables -/

def validAK3 : List Str := [c1 '1', c1 '2', c1 '3', c1 '4', c1 '5', c1 '6', c1 '7', c1 '8']
def validIK3 : List Str := validAK3 ++ [['I', '4'], ['I', '6'], ['I', '7'], ['I', '8'], ['I', '9']]
def validAK4 : List Str :=
  [c1 '1', c1 '2', c1 '3', c1 '4', c1 '5', c1 '6', c1 '7', c1 '8', c1 '9', ['1', '0']]
def validIK4 : List Str :=
  validAK4 ++ [['1', '2'], ['1', '3'], ['I', '1', '0'], ['I', '1', '1'], ['I', '1', '2'], ['I', '1', '3'],
               ['I', '6'], ['I', '9']]

/-- `st_ele_err_map` = `se_ele_err_map` = `{1: '6', 2: '7'}`; `none` = `KeyError` -/
def stEleMap (pos : Nat) : Option Str :=
  if pos = 1 then some (c1 '6') else if pos = 2 then some (c1 '7') else none

/-- `gs_ele_err_map = {6: '6', 8: '2'}` with the coded default `'1'` -/
def gsEleMap (pos : Nat) : Str := if pos = 6 then c1 '6' else if pos = 8 then c1 '2' else c1 '1'
/-- `ge_ele_err_map = {2: '6'}` with the coded default `'1'` -/
def geEleMap (pos : Nat) : Str := if pos = 2 then c1 '6' else c1 '1'

def isaEleTable : List Str :=
  [['0','1','0'], ['0','1','1'], ['0','1','2'], ['0','1','3'], ['0','0','5'], ['0','0','6'], ['0','0','7'],
   ['0','0','8'], ['0','1','4'], ['0','1','5'], ['0','1','6'], ['0','1','7'], ['0','1','8'], ['0','1','9'],
   ['0','2','0'], ['0','2','7']]

def isaEleMap (pos : Nat) : Option Str := if pos = 0 then none else isaEleTable[pos - 1]?
def ieaEleMap (pos : Nat) : Option Str :=
  if pos = 1 then some ['0','2','1'] else if pos = 2 then some ['0','1','8'] else none

def rejectSuspend : List Str :=
  [['0','0','4'], ['0','0','5'], ['0','0','7'], ['0','1','0'], ['0','1','1'], ['0','1','2'], ['0','1','3'],
   ['0','1','4'], ['0','1','5'], ['0','1','6'], ['0','1','7'], ['0','1','8'], ['0','2','2'], ['0','2','3'],
   ['0','2','4'], ['0','2','5'], ['0','2','6'], ['0','2','7']]

/-! ### `__get_st_errors`, `__get_gs_errors`, `__get_isa_errors` -/

/-- codes contributed by the errors of one element of the set node; `none` = `KeyError` -/
def stEleErrCodes (cfg : Cfg) (pos : Nat) : List EleErr → Option (List Str)
  | [] => some []
  | x :: r =>
    if isInfix sST x.msg || isInfix sSE x.msg then
      (match stEleMap pos with
       | some c => (stEleErrCodes cfg pos r).map (fun l => c :: l)
       | none => if cfg.legacy then none else (stEleErrCodes cfg pos r).map (fun l => c1 '5' :: l))
    else stEleErrCodes cfg pos r

def stElesCodes (cfg : Cfg) : List Ele → Option (List Str)
  | [] => some []
  | e :: r =>
    match stEleErrCodes cfg e.pos e.errors with
    | none => none
    | some l => (stElesCodes cfg r).map (fun m => l ++ m)

def getStErrors (cfg : Cfg) (s : St) : Except ASite (List Str) :=
  match stElesCodes cfg s.elements with
  | none => .error .stEleKey
  | some l => .ok (sortU (s.errors ++ (if s.childErrCount > 0 then [c1 '5'] else []) ++ l))

def gsEleErrCodes (pos : Nat) : List EleErr → List Str
  | [] => []
  | x :: r =>
    if isInfix sGS x.msg then gsEleMap pos :: gsEleErrCodes pos r
    else if isInfix sGE x.msg then geEleMap pos :: gsEleErrCodes pos r
    else gsEleErrCodes pos r

def gsElesCodes : List Ele → List Str
  | [] => []
  | e :: r => gsEleErrCodes e.pos e.errors ++ gsElesCodes r

def getGsErrors (g : Gs) : List Str := sortU (g.errors ++ gsElesCodes g.elements)

def isaEleErrCodes (pos : Nat) : List EleErr → Except ASite (List Str)
  | [] => .ok []
  | x :: r =>
    if isInfix isaId x.msg then
      (match isaEleMap pos with
       | some c => (isaEleErrCodes pos r).map (fun l => c :: l)
       | none => .error .isaEleKey)
    else if isInfix sIEA x.msg then
      (match ieaEleMap pos with
       | some c => (isaEleErrCodes pos r).map (fun l => c :: l)
       | none => .error .ieaEleKey)
    else isaEleErrCodes pos r

def isaElesCodes : List Ele → Except ASite (List Str)
  | [] => .ok []
  | e :: r =>
    match isaEleErrCodes e.pos e.errors with
    | .error c => .error c
    | .ok l => (isaElesCodes r).map (fun m => l ++ m)

/-- 997: unique codes, reject/suspend codes moved to the front (each `insert(0, …)`) -/
def uniqPrior (acc : List Str) : List Str → List Str
  | [] => acc
  | x :: r =>
    if acc.contains x then uniqPrior acc r
    else if rejectSuspend.contains x then uniqPrior (x :: acc) r
    else uniqPrior (acc ++ [x]) r

def getIsaErrors997 (a : Isa) : Except ASite (List Str) :=
  (isaElesCodes a.elements).map (fun l => uniqPrior [] (a.errors ++ l))

/-- 999: `list(set(err_codes))` (order modelled as sorted) -/
def getIsaErrors999 (a : Isa) : Except ASite (List Str) :=
  (isaElesCodes a.elements).map (fun l => sortU (a.errors ++ l))

/-! ### segment- and element-level lines (`visit_seg`, `visit_ele`)

AK402 / IK402 (`ele_ref_num`) is written only when it is a non-empty string of ASCII digits (the element is numeric, N0;
for an error on a composite node `ele_ref_num` is the composite's id, e.g. `C022`). -/

def segCodes (s : Seg) : List Str := s.errors.map (fun x => x.code)

/-- `errors` after the `SEG1` rewrite -/
def segCodes' (s : Seg) : List Str :=
  if (segCodes s).contains sSEG1 then
    (if (segCodes s).contains (c1 '8') then segCodes s else segCodes s ++ [c1 '8']).filter (fun x => x ≠ sSEG1)
  else segCodes s

def segBase997 (s : Seg) : Str :=
  ((((bare sAK3).append s.segId).append (natStr s.segCount)).append
    (if truthy s.lsId then pyStr s.lsId else [])).format

def segBase999 (s : Seg) : Str :=
  (if truthy s.lsId then (((bare sIK3).setEle 0 s.segId).setEle 1 (natStr s.segCount)).setEle 2 (pyStr s.lsId)
   else ((bare sIK3).setEle 0 s.segId).setEle 1 (natStr s.segCount)).format

def segLinesWith (base : Str) (valid : List Str) (s : Seg) : List PSeg :=
  (((sortU (segCodes' s)).filter (fun c => valid.contains c)).map (fun c => (mkSeg base).setEle 3 c)) ++
  (if s.childErrCount > 0 && !(segCodes' s).contains (c1 '8') then [(mkSeg base).setEle 3 (c1 '8')] else [])

def segLines997 (s : Seg) : List PSeg := segLinesWith (segBase997 s) validAK3 s
def segLines999 (s : Seg) : List PSeg := segLinesWith (segBase999 s) validIK3 s

def subTruthy : Option Nat → Bool
  | some n => n != 0
  | none => false

def subVal : Option Nat → Nat
  | some n => n
  | none => 0

def eleBase997 (e : Ele) : Str :=
  ((if subTruthy e.subpos then (bare sAK4).append (natStr e.pos ++ ':' :: natStr (subVal e.subpos))
    else (bare sAK4).append (natStr e.pos)) |>
   (fun b => if asciiDigits e.refNum then b.append (pyStr e.refNum) else b)).format

def eleBase999 (e : Ele) : Str :=
  (((bare sIK4).setSub 0 0 (natStr e.pos)) |>
   (fun b => if subTruthy e.subpos then b.setSub 0 1 (natStr (subVal e.subpos)) else b) |>
   (fun b => if asciiDigits e.refNum then b.setEle 1 (pyStr e.refNum) else b)).format

def eleErrLine (base : Str) (x : EleErr) : PSeg :=
  if truthy x.value then ((mkSeg base).setEle 2 x.code).setEle 3 (pyStr x.value) else (mkSeg base).setEle 2 x.code

def eleLinesWith (base : Str) (valid : List Str) (e : Ele) : List PSeg :=
  (e.errors.filter (fun x => valid.contains x.code)).map (eleErrLine base)

def eleLines997 (e : Ele) : List PSeg := eleLinesWith (eleBase997 e) validAK4 e
def eleLines999 (e : Ele) : List PSeg := eleLinesWith (eleBase999 e) validIK4 e

def elesLines (f : Ele → List PSeg) : List Ele → List PSeg
  | [] => []
  | e :: r => f e ++ elesLines f r

/-- `err_seg.accept`: `visit_seg` then every element -/
def segsLines (fs : Seg → List PSeg) (fe : Ele → List PSeg) : List Seg → List PSeg
  | [] => []
  | s :: r => fs s ++ elesLines fe s.elements ++ segsLines fs fe r

/-! ### set-level lines (`visit_st_pre`, children, `visit_st_post`) -/

def ak2Lines997 (s : St) : Lines :=
  match s.trnSetId with
  | none => Lines.fail .ak2NoId
  | some i =>
    match s.ctlNum with
    | none => Lines.fail .ak2NoCtl
    | some c => Lines.ok [((bare sAK2).append i).append (strip c)]

def ak2Lines999 (cfg : Cfg) (s : St) : Lines :=
  match s.trnSetId with
  | none => Lines.fail .ak2NoId
  | some i =>
    match s.ctlNum with
    | none => Lines.fail .ak2NoCtl
    | some c =>
      match s.vriic with
      | none =>
        if cfg.legacy then Lines.fail .ak2NoVriic
        else Lines.ok [((bare sAK2).setEle 0 i).setEle 1 (strip c)]
      | some v => Lines.ok [(((bare sAK2).setEle 0 i).setEle 1 (strip c)).setEle 2 v]

def appendAll (s : PSeg) : List Str → PSeg
  | [] => s
  | c :: r => appendAll (s.append c) r

def ak5Lines997 (cfg : Cfg) (s : St) : Lines :=
  match getStErrors cfg s with
  | .error c => Lines.fail c
  | .ok codes => Lines.ok [appendAll ((bare sAK5).append s.ackCode) (codes.take 5)]

def ik5Lines999 (cfg : Cfg) (s : St) : Lines :=
  match getStErrors cfg s with
  | .error c => Lines.fail c
  | .ok codes => Lines.ok [appendAll ((bare sIK5).setEle 0 s.ackCode) (codes.take 5)]

def stLines997 (cfg : Cfg) (s : St) : Lines :=
  ((ak2Lines997 s).andThen (Lines.ok (segsLines segLines997 eleLines997 s.children))).andThen (ak5Lines997 cfg s)

def stLines999 (cfg : Cfg) (s : St) : Lines :=
  ((ak2Lines999 cfg s).andThen (Lines.ok (segsLines segLines999 eleLines999 s.children))).andThen (ik5Lines999 cfg s)

def stsLines (f : St → Lines) : List St → Lines
  | [] => Lines.ok []
  | s :: r => (f s).andThen (stsLines f r)

/-- `AK9`: the fall-backs of `visit_gs_post` (`ack_code` None ⇒ `'R'`), counts, accepted = `max(recv − failed, 0)` -/
def ak9Head (g : Gs) : List Str :=
  [(if truthy g.ackCode then pyStr g.ackCode else c1 'R'), intStr g.countOrig, natStr g.countRecv,
   natStr (g.countRecv - countFailedSt g.children)]

/-! ### the 997 visitor -/

structure V where
  out : List PSeg
  segCount : Nat
  stCtl : Nat
  stLoop : Nat
  gsLoop : Nat
  crash : Option ASite
deriving DecidableEq, Repr

/-- `_write` -/
def V.write (v : V) (s : PSeg) : V := { v with out := v.out ++ [s], segCount := v.segCount + 1 }

def V.writeAll (v : V) : List PSeg → V
  | [] => v
  | s :: r => V.writeAll (v.write s) r

def V.writeLines (v : V) (l : Lines) : V := { v.writeAll l.segs with crash := l.crash }

def starJoin (parts : List Str) : Str := joinWith '*' parts

def V.bumpSt (v : V) : V := { v with stCtl := v.stCtl + 1 }
def V.resetCount (v : V) : V := { v with segCount := 1, stLoop := v.stLoop + 1 }
def V.andThen (v : V) (k : V → V) : V :=
  match v.crash with
  | some _ => v
  | none => k v

def stSeg997 (n : Nat) : PSeg := mkSeg (starJoin [sST, ['9', '9', '7'], fmt04 n])
def ak1Seg997 (g : Gs) : PSeg := mkSeg (starJoin [sAK1, pyStr g.fic, pyStr g.ctlNum])
def ak9Seg997 (g : Gs) : PSeg := appendAll (appendAll (bare sAK9) (ak9Head g)) (getGsErrors g)
def seSeg997 (count ctl : Nat) : PSeg := ((bare sSE).append (natStr count)).append (fmt04 ctl)

/-- `visit_gs_pre` -/
def gsPre997 (v : V) (g : Gs) : V :=
  ((v.bumpSt.write (stSeg997 (v.stCtl + 1))).resetCount).write (ak1Seg997 g)

def V.writeSe (v : V) : V := v.write (seSeg997 (v.segCount + 1) v.stCtl)

/-- `visit_gs_post` -/
def gsPost997 (v : V) (g : Gs) : V := (v.write (ak9Seg997 g)).writeSe

/-- `err_gs.accept` -/
def visitGs997 (cfg : Cfg) (v : V) (g : Gs) : V :=
  v.andThen (fun v0 =>
    ((gsPre997 v0 g).writeLines (stsLines (stLines997 cfg) g.children)).andThen (fun v1 => gsPost997 v1 g))

def visitGss997 (cfg : Cfg) (v : V) : List Gs → V
  | [] => v
  | g :: r => visitGss997 cfg (visitGs997 cfg v g) r

def visitIsas997 (cfg : Cfg) (v : V) : List Isa → V
  | [] => v
  | a :: r => visitIsas997 cfg (visitGss997 cfg v a.children) r

def optAppend (s : Option PSeg) (v : Option Str) : Option PSeg :=
  match s with
  | none => none
  | some x => v.map (fun y => x.append y)

def isaCtl (p : Params) : Str := (p.date6 ++ p.time4).drop 1

def isaHead : Str :=
  ['I','S','A','*','0','0','*',' ',' ',' ',' ',' ',' ',' ',' ',' ',' ','*','0','0','*',
   ' ',' ',' ',' ',' ',' ',' ',' ',' ',' ']

def v004010 : Str := ['0', '0', '4', '0', '1', '0']

/-- the ISA of `visit_root_pre` (`none` = a `get_value` returned `None` ⇒ `EngineError` in `Composite`) -/
def isaSeg997 (a : Isa) (p : Params) : Option PSeg :=
  optAppend (optAppend (optAppend (optAppend (optAppend (optAppend (optAppend (optAppend (optAppend (optAppend
    (optAppend (optAppend (some (mkSeg isaHead)) a.e07) a.e08) a.e05) a.e06) (some p.date6)) (some p.time4))
    a.e11) a.e12) (some (isaCtl p))) (some (c1 '0'))) a.e15) (some (c1 ':'))

/-- the GS of `visit_root_pre` (`GS03.rstrip()` on `None` is an `AttributeError`) -/
def gsSeg997 (cfg : Cfg) (a : Isa) (g : Gs) (p : Params) : Option PSeg :=
  optAppend (optAppend (optAppend (optAppend (optAppend (optAppend (optAppend (optAppend
    (some (bare sGS)) (some ['F', 'A'])) (g.gs03.map rstrip)) (g.gs02.map rstrip)) (some p.date8)) (some p.time6))
    g.gs06) g.gs07) (if cfg.legacy then a.e12 else some v004010)

def V.init : V := { out := [], segCount := 0, stCtl := 0, stLoop := 0, gsLoop := 0, crash := none }

def curIsaNode (s : State) : Option Isa := s.curIsa.bind (fun i => s.tree[i]?)
def curGsNode (s : State) : Option Gs := s.curGs.bind (fun p => getGs s.tree p.1 p.2)

/-- `visit_root_pre`; also returns the GS segment kept in `self.gs_seg` -/
def rootPre997 (cfg : Cfg) (s : State) (p : Params) : V × Option PSeg :=
  match curIsaNode s with
  | none => ({ V.init with crash := some .rootNoIsa }, none)
  | some a =>
    match isaSeg997 a p with
    | none => ({ V.init with crash := some .isaValueNone }, none)
    | some isa =>
      match curGsNode s with
      | none => ({ V.init.write isa with crash := some .rootNoGs }, none)
      | some g =>
        match gsSeg997 cfg a g p with
        | none => ({ V.init.write isa with crash := some .gsValueNone }, none)
        | some gs => ({ ((V.init.write isa).write gs) with stLoop := 0, gsLoop := 1 }, some gs)

def ta1Lines (codes : Except ASite (List Str)) (a : Isa) : Lines :=
  if a.ta1Req = some (c1 '1') then
    (match optAppend (optAppend (optAppend (some (bare sTA1)) a.trnSetId) a.origDate) a.origTime with
     | none => Lines.fail .ta1ValueNone
     | some t =>
       match codes with
       | .error c => Lines.fail c
       | .ok [] => Lines.ok [(t.append (c1 'A')).append ['0', '0', '0']]
       | .ok (c :: _) => Lines.ok [(t.append (c1 'R')).append c])
  else Lines.ok []

def geSeg997 (n : Nat) (gs : PSeg) : PSeg := mkSeg (starJoin [sGE, natStr n, pyStr (gs.getValue 5)])
def ieaSeg997 (p : Params) : PSeg := mkSeg (starJoin [sIEA, natStr 1, isaCtl p])
def V.setGsLoop (v : V) : V := { v with gsLoop := 1 }

/-- `visit_root_post` -/
def rootPost997 (v : V) (s : State) (p : Params) (gs : Option PSeg) : V :=
  v.andThen (fun v0 =>
    match gs with
    | none => v0
    | some g =>
      match curIsaNode s with
      | none => { v0 with crash := some .rootNoIsa }
      | some a =>
        (((v0.write (geSeg997 v0.stLoop g)).setGsLoop).writeLines (ta1Lines (getIsaErrors997 a) a)).andThen
          (fun v1 => v1.write (ieaSeg997 p)))

/-- `errh.accept(error_997_visitor(fd))` -/
def ack997 (cfg : Cfg) (s : State) (p : Params) : V :=
  rootPost997 (visitIsas997 cfg (rootPre997 cfg s p).1 s.tree) s p (rootPre997 cfg s p).2

/-- what `_write` sends to the file for one segment (without the `\n`) -/
def render997 (s : PSeg) : Str :=
  if s.id = isaId then s.format.dropLast ++ ['*', ':', '~'] else s.format

/-! ### `X12Writer` as used by the 999 visitor -/

inductive LoopKind where
  | isa | gs | st
deriving DecidableEq, Repr

structure W where
  loops : List (LoopKind × Str)
  gsCount : Nat
  stCount : Nat
  segCount : Nat
  out : List PSeg
  crash : Option ASite
deriving DecidableEq, Repr

def W.init : W := { loops := [], gsCount := 0, stCount := 0, segCount := 0, out := [], crash := none }

/-- `_get_trailer_segment` + `_write_segment` + counter reset of `_close_iea/_close_ge/_close_se` -/
def W.closeLoop (w : W) (k : LoopKind) (id : Str) : W :=
  match k with
  | .isa => { w with out := w.out ++ [mkSeg (starJoin [sIEA, natStr w.gsCount, id])], gsCount := 0 }
  | .gs => { w with out := w.out ++ [mkSeg (starJoin [sGE, natStr w.stCount, id])], stCount := 0 }
  | .st => { w with out := w.out ++ [mkSeg (starJoin [sSE, natStr (w.segCount + 1), id])], segCount := 0 }

/-- `_popToLoop`: `loops` is kept with the innermost loop first -/
def popTo (k : LoopKind) (w : W) : List (LoopKind × Str) → W
  | [] => { w with loops := [] }
  | (k', id) :: r =>
    if k' = k then { (w.closeLoop k' id) with loops := r } else popTo k (w.closeLoop k' id) r

/-- `X12Base._parse_segment` (counters and loop stack only; the visitor never writes `HL`, `LX`, `CLM`) -/
def W.parse (w : W) (s : PSeg) : W :=
  if s.id = isaId then
    (if s.elems.length ≠ 16 then { w with crash := some .writerIsaLen }
     else { w with loops := (LoopKind.isa, pyStr (s.getValue 12)) :: w.loops, gsCount := 0 })
  else if s.id = sGS then
    { w with loops := (LoopKind.gs, pyStr (s.getValue 5)) :: w.loops, gsCount := w.gsCount + 1, stCount := 0 }
  else if s.id = sST then
    { w with loops := (LoopKind.st, pyStr (s.getValue 1)) :: w.loops, stCount := w.stCount + 1, segCount := 1 }
  else if s.id = sIEA ∨ s.id = sGE ∨ s.id = sSE then w
  else { w with segCount := w.segCount + 1 }

def v00501 : Str := ['0', '0', '5', '0', '1']

/-- `_write_isa_segment` -/
def isaForWrite (s : PSeg) : PSeg :=
  (if s.getValue 11 = some v00501 then s.setEle 10 (c1 '^') else s).setIsa16 (c1 ':')

/-- `X12Writer.Write` -/
def W.put (w : W) (s : PSeg) : W :=
  match w.crash with
  | some _ => w
  | none =>
    match (w.parse s).crash with
    | some _ => w.parse s
    | none =>
      if s.id = sIEA then popTo .isa (w.parse s) (w.parse s).loops
      else if s.id = sGE then popTo .gs (w.parse s) (w.parse s).loops
      else if s.id = sSE then popTo .st (w.parse s) (w.parse s).loops
      else if s.id = isaId then { (w.parse s) with out := (w.parse s).out ++ [isaForWrite s] }
      else { (w.parse s) with out := (w.parse s).out ++ [s] }

def W.putAll (w : W) : List PSeg → W
  | [] => w
  | s :: r => W.putAll (w.put s) r

def W.putLines (w : W) (l : Lines) : W :=
  match (w.putAll l.segs).crash with
  | some _ => w.putAll l.segs
  | none => { w.putAll l.segs with crash := l.crash }

/-! ### the 999 visitor -/

def vriic999 : Str := ['0', '0', '5', '0', '1', '0', 'X', '2', '3', '1']

def optSet (s : Option PSeg) (idx : Nat) (v : Option Str) : Option PSeg :=
  match s with
  | none => none
  | some x => v.map (fun y => x.setEle idx y)

def isaSeg999 (a : Isa) (p : Params) : Option PSeg :=
  (optSet (optSet (optSet (optSet (optSet (optSet (optSet (optSet (optSet (optSet (optSet
    (some (mkSeg isaHead)) 4 a.e07) 5 a.e08) 6 a.e05) 7 a.e06) 8 (some p.date6)) 9 (some p.time4))
    10 (some (c1 '^'))) 11 a.e12) 12 (some (isaCtl p))) 13 (some (c1 '0'))) 14 a.e15).map
  (fun s => s.setIsa16 (c1 ':'))

def gsSeg999 (g : Gs) (p : Params) : Option PSeg :=
  optSet (optSet (optSet (optSet (optSet (optSet (optSet (optSet
    (some (bare sGS)) 0 (some ['F', 'A'])) 1 (g.gs03.map rstrip)) 2 (g.gs02.map rstrip)) 3 (some p.date8))
    4 (some p.time6)) 5 (some p.gsCtl)) 6 g.gs07) 7 (some vriic999)

def ak1Seg999 (g : Gs) : Option PSeg :=
  optSet (optSet (optSet (some (bare sAK1)) 0 g.fic) 1 g.ctlNum) 2 g.vriic

def stSeg999 (n : Nat) : PSeg :=
  ((mkSeg (starJoin [sST, ['9', '9', '9']])).setEle 1 (fmt04 n)).setEle 2 vriic999

def ak9Seg999 (g : Gs) : PSeg :=
  appendAll (((((bare sAK9).setEle 0 (if truthy g.ackCode then pyStr g.ackCode else c1 'R')).setEle 1
    (intStr g.countOrig)).setEle 2 (natStr g.countRecv)).setEle 3
    (natStr (g.countRecv - countFailedSt g.children))) ((getGsErrors g).take 5)

def seSeg999 (ctl : Nat) : PSeg := ((bare sSE).append (natStr 0)).append (fmt04 ctl)

def geSeg999 (p : Params) : PSeg := (bare sGE).setEle 1 p.gsCtl

/-- segments `err_gs.accept` hands to `X12Writer.Write`; `n` = `st_control_num` after the increment -/
def gsPuts999 (cfg : Cfg) (n : Nat) (g : Gs) : Lines :=
  match ak1Seg999 g with
  | none => { segs := [stSeg999 n], crash := some .ak1ValueNone }
  | some ak1 =>
    ((Lines.ok [stSeg999 n, ak1]).andThen (stsLines (stLines999 cfg) g.children)).andThen
      (Lines.ok [ak9Seg999 g, seSeg999 n])

def gssPuts999 (cfg : Cfg) (n : Nat) : List Gs → Lines
  | [] => Lines.ok []
  | g :: r => (gsPuts999 cfg (n + 1) g).andThen (gssPuts999 cfg (n + 1) r)

def isasPuts999 (cfg : Cfg) (n : Nat) : List Isa → Lines
  | [] => Lines.ok []
  | a :: r => (gssPuts999 cfg n a.children).andThen (isasPuts999 cfg (n + a.children.length) r)

/-- everything the 999 visitor hands to the writer, in order, until it finishes or raises -/
def puts999 (cfg : Cfg) (s : State) (p : Params) : Lines :=
  match curIsaNode s with
  | none => Lines.fail .rootNoIsa
  | some a =>
    match isaSeg999 a p with
    | none => Lines.fail .isaValueNone
    | some isa =>
      match curGsNode s with
      | none => { segs := [isa], crash := some .rootNoGs }
      | some g =>
        match gsSeg999 g p with
        | none => { segs := [isa], crash := some .gsValueNone }
        | some gs =>
          (((Lines.ok [isa, gs]).andThen (isasPuts999 cfg 0 s.tree)).andThen (Lines.ok [geSeg999 p])).andThen
            ((ta1Lines (getIsaErrors999 a) a).andThen (Lines.ok [mkSeg sIEA]))

/-- `errh.accept(error_999_visitor(fd))`: the visitor never reads the writer's state, so handing over the segments one
by one while visiting = handing over the list; a writer exception stops everything (`putLines`) -/
def ack999 (cfg : Cfg) (s : State) (p : Params) : W := W.init.putLines (puts999 cfg s p)


def render999 (s : PSeg) : Str := s.format

end Pyx12Verif.Ack
