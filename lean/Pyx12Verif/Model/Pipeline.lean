/-
Composed model for C07 (validation is total): `readAndCheck : Oracle → Stream → Outcome`.

What is composed (each part is the finished model of another property, used unchanged):
  * `Tokenizer.rawRead`, `SegText.readLines`        RawX12File + X12Reader.__iter__ + Segment.__init__   (C01)
  * `Envelope.step Fixes.all`, `Envelope.cleanup`   X12Base/X12Reader._parse_segment, cleanup            (C04)
  * `ElemValid.elemValidIn`, `compValid true`       element_if.is_valid, composite_if.is_valid           (C13, C15)
  * `Syn.syntaxErrors`                              is_syntax_valid + the note loop of segment_if.is_valid (C14)
and what is written here, mirroring pyx12 as it is after the accepted guard fixes:
  * `getValue`      Segment.get_value('NN') for a two-digit element index (None beyond the last element, else
                    Composite.format(), which raises UnboundLocalError on a composite without sub-elements)
  * `viewOf`        the element reads `_parse_segment` makes on ISA/IEA/GS/GE/ST/SE/HL/LX (read eagerly here: the model
                    can only crash more often than the code)
  * `segValid`      segment_if.is_valid: too-many-elements test with its `get_value('%02i' % (child_count+1))`
                    (three digits are no reference designator: IndexError), the two child loops (data while there is
                    one, None afterwards), the syntax notes (all element values formatted eagerly)
  * `checkSegs`, `finish`   the `for seg in src` loop of x12n_document reduced to: reader step, matched node, is_valid,
                    `valid &=`, `check_837_lx` switch, then cleanup and the verdict.

NOT modelled - replaced by the universally quantified `Oracle`, or absent (these parts of the real pipeline are covered
by the mutation fuzz of harness/c07.py only):
  * map_walker.walk and the glue around it in x12n_document (ISA/GS shortcuts, `node is None` fallback to the previous
    node, map_index lookup and map switching at GS/BHT, EngineError re-raise): the oracle answers, per segment,
    `unmatched` / `mapNotFound` / `node nd chk` with the definitions `is_valid` reads off the node, the value-dependent
    facts (`Ctx`: external code membership, regex) and the DTP02 / 1250-1251 type lists already resolved;
  * the error tree (err_handler: add_*_loop, add_seg, close_*_loop, *_error, get_error_count): the verdict uses the
    number of reported errors instead, so the Boolean itself is not tied to the code (only "a Boolean is returned");
  * the 997/999 visitors, the HTML sink (error_html, err_iter), the XML sink (x12xml_simple), the callback, logging;
  * X12ContextReader (tree building) - see Model/CtxReader.lean of C09 when present;
  * data-element lookup failures (undefined data element: EngineError, findings D30 of C15/C16) - an `ElemDef` exists.
-/
import Pyx12Verif.Model.SegText
import Pyx12Verif.Model.Envelope
import Pyx12Verif.Model.Syntax
import Pyx12Verif.Model.ElemValid

namespace Pyx12Verif.Pipeline
open Pyx12Verif

abbrev Str := List Char
abbrev Seg := SegText.Seg
abbrev Delims := SegText.Delims

/-- where an unintended exception would leave the modelled code -/
inductive Site
  | readerLine                       -- X12Reader.__iter__ (`line[-1]`)
  | getValue                         -- Composite.format on a composite without sub-elements
  | envelope (e : Envelope.Exc)      -- _parse_segment
  | elementValue                     -- Composite.get_value on a composite without sub-elements (IndexError)
  | refDes                           -- '%02i' % n with n >= 100 is no reference designator (IndexError)
  | iterNone                         -- composite_if.is_valid iterating None (fixed: C15-D19a)
  | syntaxNote                       -- is_syntax_valid / the note loop
  deriving DecidableEq, Repr

inductive Outcome
  | verdict (b : Bool)                      -- x12n_document returns a Boolean
  | refused (e : Tokenizer.HeaderErr)       -- X12Error in the constructor: "does not look like an X12 data file", False
  | notX12                                  -- X12Error raised while iterating (ISA without 16 elements): documented
  | mapNotFound                             -- EngineError("Map not found ..."): documented
  | crash (s : Site)
  deriving DecidableEq, Repr

/-! ### Segment.get_value -/

inductive GetV
  | absent
  | value (v : Str)
  | crash
  deriving DecidableEq, Repr

/-- `Composite.format()` -/
def compFormat (sep : Char) (c : List Str) : GetV :=
  match SegText.formatComp sep c with
  | none => .crash
  | some v => .value v

/-- the separator the composites of this segment were built with -/
def sepOf (d : Delims) (id : Str) : Char := if id = SegText.isaId then d.ele else d.sub

/-- `seg.get_value('%02i' % (k + 1))` for `k + 1 < 100` -/
def getValue (d : Delims) (s : Seg) (k : Nat) : GetV :=
  match s.elems[k]? with
  | none => .absent
  | some c => compFormat (sepOf d s.id) c

/-! ### the reader's view of a segment -/

def cntIdx (id : Str) : Option Nat :=
  if id = Envelope.idIEA then some 0 else if id = Envelope.idGE then some 0 else if id = Envelope.idSE then some 0
  else if id = Envelope.idHL then some 0 else if id = Envelope.idLX then some 0 else none

def ctlIdx (id : Str) : Option Nat :=
  if id = Envelope.idISA then some 12 else if id = Envelope.idIEA then some 1 else if id = Envelope.idGS then some 5
  else if id = Envelope.idGE then some 1 else if id = Envelope.idST then some 1 else if id = Envelope.idSE then some 1
  else if id = Envelope.idHL then some 1 else none

inductive Fetch
  | crash
  | got (v : Option Str)
  deriving DecidableEq, Repr

def fetchOf : GetV → Fetch
  | .crash => .crash
  | .absent => .got none
  | .value v => .got (some v)

def fetch (d : Delims) (s : Seg) : Option Nat → Fetch
  | none => .got none
  | some k => fetchOf (getValue d s k)

def mkView2 (s : Seg) (c : Option Str) : Fetch → Option Envelope.SegView
  | .crash => none
  | .got k => some ⟨s.id, c, k, s.elems.length == 16⟩

def mkView (s : Seg) (k : Fetch) : Fetch → Option Envelope.SegView
  | .crash => none
  | .got c => mkView2 s c k

/-- `none` = a `get_value` raised -/
def viewOf (d : Delims) (s : Seg) : Option Envelope.SegView :=
  mkView s (fetch d s (ctlIdx s.id)) (fetch d s (cntIdx s.id))

/-! ### segment_if.is_valid over the definitions the oracle hands over -/

inductive ChildDef
  | elem (d : ElemValid.ElemDef) (ctx : ElemValid.Ctx)
  | comp (usage : ElemValid.Usage) (kids : List (ElemValid.ElemDef × ElemValid.Ctx))

structure NodeDef where
  children : List ChildDef
  notes : List Syn.Note

inductive SegRes
  | ok (valid : Bool) (nerr : Nat)
  | crash (s : Site)
  deriving DecidableEq, Repr

/-- sequential composition: the first exception wins -/
def SegRes.andThen : SegRes → SegRes → SegRes
  | .crash s, _ => .crash s
  | .ok _ _, .crash s => .crash s
  | .ok v n, .ok w m => .ok (v && w) (n + m)

def ofPair (p : Bool × List ElemValid.Code) : SegRes := .ok p.1 p.2.length

/-- what `element_if.is_valid` is handed: `seg_data.get('NN')` is `None` or the `Composite` at that index -/
def elemRes (d : ElemValid.ElemDef) (ctx : ElemValid.Ctx) : Option (List Str) → SegRes
  | none => ofPair (ElemValid.elemValidIn d ctx .absent)
  | some [] => .crash .elementValue
  | some [v] => ofPair (ElemValid.elemValidIn d ctx (.simple v))
  | some (_ :: _ :: _) => ofPair (ElemValid.elemValidIn d ctx .composite)

def ofComp : ElemValid.CompOutcome → SegRes
  | .ok v codes => .ok v codes.length
  | .crashIterNone => .crash .iterNone

def childRes : ChildDef → Option (List Str) → SegRes
  | .elem d ctx, data => elemRes d ctx data
  | .comp u kids, data => ofComp (ElemValid.compValid true u kids data)

/-- the two child loops of `segment_if.is_valid` -/
def childrenRes : List ChildDef → List (List Str) → SegRes
  | [], _ => .ok true 0
  | c :: cs, [] => (childRes c none).andThen (childrenRes cs [])
  | c :: cs, e :: es => (childRes c (some e)).andThen (childrenRes cs es)

def tooManyValue : GetV → SegRes
  | .crash => .crash .getValue
  | .absent => .ok false 1
  | .value _ => .ok false 1

/-- `if len(seg_data) > child_count: ... seg_data.get_value('%02i' % (child_count + 1)) ... ele_error('3', ...)` -/
def tooMany (d : Delims) (nd : NodeDef) (s : Seg) : SegRes :=
  if s.elems.length > nd.children.length then
    (if 100 ≤ nd.children.length + 1 then .crash .refDes else tooManyValue (getValue d s nd.children.length))
  else .ok true 0

def ofNotes : Option (List Syn.EleErr) → SegRes
  | none => .crash .syntaxNote
  | some errs => .ok errs.isEmpty errs.length

def notesOn (nd : NodeDef) : Option (List Str) → SegRes
  | none => .crash .getValue
  | some vals => ofNotes (Syn.syntaxErrors vals nd.notes)

/-- `for syn in self.syntax: is_syntax_valid(seg_data, syn) ...` on the `get_value` strings of the elements -/
def notesRes (d : Delims) (nd : NodeDef) (s : Seg) : SegRes :=
  notesOn nd (SegText.formatComps (sepOf d s.id) s.elems)

def segValid (d : Delims) (nd : NodeDef) (s : Seg) : SegRes :=
  ((tooMany d nd s).andThen (childrenRes nd.children s.elems)).andThen (notesRes d nd s)

/-! ### the loop of x12n_document over an abstract matched-node oracle -/

inductive Match
  | unmatched                               -- the walker found no node: `node = orig_node`, no `is_valid`
  | mapNotFound                             -- map_index has no entry for the version / type
  | node (nd : NodeDef) (chk837 : Bool)     -- matched node; `check_837_lx` after this segment

structure Oracle where
  matched : Nat → Seg → Match

structure Acc where
  st : Envelope.RState
  valid : Bool
  nerr : Nat
  deriving DecidableEq, Repr

inductive Step
  | next (a : Acc)
  | stop (o : Outcome)
  deriving DecidableEq, Repr

def afterValid (valid : Bool) (n : Nat) (st : Envelope.RState) : SegRes → Step
  | .crash site => .stop (.crash site)
  | .ok v m => .next ⟨st, valid && v, n + m⟩

def afterMatch (d : Delims) (s : Seg) (valid : Bool) (n : Nat) (st : Envelope.RState) : Match → Step
  | .unmatched => .next ⟨st, valid, n⟩
  | .mapNotFound => .stop .mapNotFound
  | .node nd chk => afterValid valid n { st with chk837 := chk } (segValid d nd s)

def afterReader (o : Oracle) (d : Delims) (i : Nat) (a : Acc) (nr : Nat) (s : Seg) :
    Envelope.Outcome (Envelope.RState × List Envelope.Err) → Step
  | .crash e => .stop (.crash (.envelope e))
  | .raised => .stop .notX12
  | .ok r => afterMatch d s a.valid (a.nerr + nr + r.2.length) r.1 (o.matched i s)

def withView (o : Oracle) (d : Delims) (i : Nat) (a : Acc) (nr : Nat) (s : Seg) : Option Envelope.SegView → Step
  | none => .stop (.crash .getValue)
  | some v => afterReader o d i a nr s (Envelope.step Envelope.Fixes.all a.st v)

/-- one round of `for seg in src:`; `nr` = number of errors the line wrapper reported for this segment -/
def checkSeg (o : Oracle) (d : Delims) (i : Nat) (a : Acc) (nr : Nat) (s : Seg) : Step :=
  withView o d i a nr s (viewOf d s)

def checkSegs (o : Oracle) (d : Delims) : Nat → Acc → List (List SegText.RErr × Seg) → Step
  | _, a, [] => .next a
  | i, a, p :: ps =>
    match checkSeg o d i a p.1.length p.2 with
    | .stop out => .stop out
    | .next b => checkSegs o d (i + 1) b ps

def Acc.init : Acc := ⟨Envelope.RState.init false, true, 0⟩

/-- after the loop: the exception of the line wrapper (if any) surfaces, else `cleanup()` and the verdict -/
def finish (r : SegText.ReadResult) : Step → Outcome
  | .stop out => out
  | .next a =>
    if r.crashed = true then .crash .readerLine
    else .verdict (a.valid && (a.nerr + r.pending.length + (Envelope.cleanup a.st).length == 0))

/-- `x12n_document(param, stream, ...)` restricted to the modelled core -/
def readAndCheck (o : Oracle) (s : Tokenizer.Stream) : Outcome :=
  match SegText.readAll s with
  | .error e => .refused e
  | .ok h r => finish r (checkSegs o (SegText.delimsOf h) 0 Acc.init r.segs)

/-! ### plain reading: `for seg in X12Reader(stream): pop_errors()`, then `cleanup()` -/

inductive ReadOutcome
  | refused (e : Tokenizer.HeaderErr)   -- X12Error from the constructor
  | raised (k : Nat)                    -- X12Error from _parse_segment after `k` segments were yielded
  | done (n : Nat)                      -- iteration and cleanup completed, `n` segments yielded
  | crash (k : Nat) (s : Site)
  deriving DecidableEq, Repr

def envAfter (k : Nat) : Envelope.Outcome (Envelope.RState × List Envelope.Err) → Sum ReadOutcome Envelope.RState
  | .crash e => .inl (.crash k (.envelope e))
  | .raised => .inl (.raised k)
  | .ok r => .inr r.1

def envView (k : Nat) (st : Envelope.RState) : Option Envelope.SegView → Sum ReadOutcome Envelope.RState
  | none => .inl (.crash k .getValue)
  | some v => envAfter k (Envelope.step Envelope.Fixes.all st v)

def envSegs (d : Delims) : Nat → Envelope.RState → List (List SegText.RErr × Seg) → Sum ReadOutcome Nat
  | k, _, [] => .inr k
  | k, st, p :: ps =>
    match envView k st (viewOf d p.2) with
    | .inl out => .inl out
    | .inr st2 => envSegs d (k + 1) st2 ps

def envFinish (r : SegText.ReadResult) : Sum ReadOutcome Nat → ReadOutcome
  | .inl out => out
  | .inr n => if r.crashed = true then .crash n .readerLine else .done n

def readEnvelope (s : Tokenizer.Stream) : ReadOutcome :=
  match SegText.readAll s with
  | .error e => .refused e
  | .ok h r => envFinish r (envSegs (SegText.delimsOf h) 0 (Envelope.RState.init false) r.segs)

end Pyx12Verif.Pipeline
