/-
Model of pyx12/map_walker.py (`walk_tree.walk`, `_is_loop_match`, `_goto_seg_match`, usage/count checks,
pending mandatory segments) and pyx12/nodeCounter.py over the map skeleton of `Model/MapSkel.lean`.

Map nodes are addressed by index paths (`List Nat`, child indices from the root); a node's counter key is
its reported path as a list of `(id, qualifier)` components.  Python object equality `x12_node.__eq__`
compares `(id, parent.id)`; the model carries that pair (`NodeId`) wherever the code uses `==`/`!=`.
-/
import Pyx12Verif.Model.MapSkel

namespace Pyx12Verif.Walker
open Pyx12Verif.MapSkel

/-- what `segment_if.is_match` reads from a data segment: id and the (interned) values of 01, 02, 03, 01-1;
    0 stands for an absent / empty value -/
structure SegData where
  sid : Nat
  v01 : Nat
  v02 : Nat
  v03 : Nat
  v011 : Nat
  deriving DecidableEq, Repr

structure Consts where
  ent : Nat
  hl : Nat
  ctx : Nat

abbrev PathKey := List (Nat × Nat)
abbrev Counter := List (PathKey × Nat)

def Counter.get (c : Counter) (k : PathKey) : Nat :=
  match c with
  | [] => 0
  | (k', n) :: r => if k' == k then n else Counter.get r k

def Counter.incr (c : Counter) (k : PathKey) : Counter :=
  match c with
  | [] => [(k, 1)]
  | (k', n) :: r => if k' == k then (k', n + 1) :: r else (k', n) :: Counter.incr r k

def isStrictPrefix : PathKey → PathKey → Bool
  | [], [] => false
  | [], _ :: _ => true
  | _ :: _, [] => false
  | a :: r, b :: s => a == b && isStrictPrefix r s

/-- `reset_to_node`: delete every count strictly below the path -/
def Counter.resetTo (c : Counter) (k : PathKey) : Counter :=
  c.filter (fun e => !isStrictPrefix k e.1)

/-- `segment_if.is_match` for a skeleton segment (id equality checked by the caller) -/
def matchChildren (k : Consts) (ch : List Child) (s : SegData) : Bool :=
  match nthChild ch 0 with
  | some (.elem e0) =>
    if e0.isID && e0.usage == 0 && e0.ncodes > 0 && !e0.codes.contains s.v01 then false
    else if s.sid == k.ent then
      (match nthChild ch 1 with
       | some (.elem e1) => !(e1.isID && e1.ncodes > 0 && !e1.codes.contains s.v02)
       | _ => true)
    else if s.sid == k.hl then
      (match nthChild ch 2 with
       | some (.elem e2) => !(e2.ncodes > 0 && !e2.codes.contains s.v03)
       | _ => true)
    else true
  | some (.comp _ _ _ _ subs) =>
    (match firstSub subs with
     | some s0 =>
       if s.sid == k.ctx && s0.isAN && s0.ncodes > 0 && !s0.codes.contains s.v011 then false
       else if s0.isID && s0.ncodes > 0 && !s0.codes.contains s.v011 then false
       else true
     | none => true)
  | none => true

def isMatch (k : Consts) (n : Node) (s : SegData) : Bool :=
  match n with
  | .seg sid _ _ _ _ _ ch => s.sid == sid && matchChildren k ch s
  | .loop .. => false

/-- `(id, parent id)`: what `x12_node.__eq__` compares -/
abbrev NodeId := Nat × Nat

inductive ErrKind
  | segNotUsed      -- seg_error '2' (no add_seg)
  | segMaxCount     -- add_seg; seg_error '5'
  | loopNotUsed     -- seg_error '2' (no add_seg)
  | loopMaxCount    -- add_seg(loop); seg_error '4'
  | mandatoryMissing-- add_seg(node); seg_error '3'
  | notFound        -- add_seg(orig); seg_error '1'
  deriving DecidableEq, Repr

/-- an error raised by the walker: kind and the index path of the map node it is attached to -/
abbrev WErr := ErrKind × List Nat

/-- entry of `mandatory_segs_missing`: node index path, its `(id, parent id)` and its position -/
structure Pending where
  ip : List Nat
  nid : NodeId
  pos : Nat
  deriving DecidableEq, Repr

structure WState where
  cnt : Counter
  pending : List Pending
  errs : List WErr
  deriving Repr

def maxRepeat (r : Nat) : Option Nat := if r == 0 then none else some r

def exceeds (count : Nat) (r : Nat) : Bool :=
  match maxRepeat r with
  | none => false
  | some m => decide (count > m)

/-- `_flush_mandatory_segs(errh, cur_pos)`; `none` = called without a position (everything is flushed) -/
def flush (st : WState) (curPos : Option Nat) : WState :=
  { st with
    errs := st.errs ++ (st.pending.filter (fun p => some p.pos != curPos)).map (fun p => (ErrKind.mandatoryMissing, p.ip)),
    pending := st.pending.filter (fun p => some p.pos == curPos) }

mutual
/-- `_is_loop_match(loop_node)`; `ip`/`key` address the loop, `pid` is its parent's id -/
def isLoopMatch (k : Consts) (s : SegData) (ip : List Nat) (key : PathKey) (st : WState) :
    Node → Bool × WState
  | .seg .. => (false, st)
  | .loop lid _ usage _ _ ch =>
    match ch with
    | [] => (false, st)
    | first :: _ =>
      if first.isSeg then
        if isMatch k first s then (true, st)
        else if usage == 0 && st.cnt.get key < 1 then
          (false, { st with pending := st.pending ++ [{ ip := ip ++ [0], nid := (first.ident, lid), pos := first.pos }] })
        else (false, st)
      else anyLoopMatch k s ip key 0 st ch
/-- the `for child_node in loop_node.childIterator()` of the wrapper case -/
def anyLoopMatch (k : Consts) (s : SegData) (ip : List Nat) (key : PathKey) (i : Nat) (st : WState) :
    List Node → Bool × WState
  | [] => (false, st)
  | c :: r =>
    if c.isSeg then anyLoopMatch k s ip key (i + 1) st r
    else
      match isLoopMatch k s (ip ++ [i]) (key ++ [c.comp]) st c with
      | (true, st') => (true, st')
      | (false, st') => anyLoopMatch k s ip key (i + 1) st' r
end

/-- `_check_loop_usage` -/
def checkLoopUsage (ip : List Nat) (key : PathKey) (usage rep : Nat) (st : WState) : WState :=
  if usage == 2 then { st with errs := st.errs ++ [(ErrKind.loopNotUsed, ip)] }
  else
    if exceeds (((st.cnt.resetTo key).incr key).get key) rep then
      { st with cnt := (st.cnt.resetTo key).incr key, errs := st.errs ++ [(ErrKind.loopMaxCount, ip)] }
    else { st with cnt := (st.cnt.resetTo key).incr key }

mutual
/-- `_goto_seg_match(loop_node)`: result = (matched segment index path, pushed loops) -/
def gotoSegMatch (k : Consts) (s : SegData) (ip : List Nat) (key : PathKey) (st : WState) :
    Node → Option (List Nat × List (List Nat)) × WState
  | .seg .. => (none, st)
  | .loop _ _ usage rep _ ch =>
    match ch with
    | [] => (none, st)
    | first :: _ =>
      if first.isSeg && isMatch k first s then
        (some (ip ++ [0], [ip]),
          flush { (checkLoopUsage ip key usage rep st) with
                  cnt := (checkLoopUsage ip key usage rep st).cnt.incr (key ++ [first.comp]) } none)
      else gotoChildren k s ip key 0 st ch
def gotoChildren (k : Consts) (s : SegData) (ip : List Nat) (key : PathKey) (i : Nat) (st : WState) :
    List Node → Option (List Nat × List (List Nat)) × WState
  | [] => (none, st)
  | c :: r =>
    if c.isSeg then gotoChildren k s ip key (i + 1) st r
    else
      match gotoSegMatch k s (ip ++ [i]) (key ++ [c.comp]) st c with
      | (some (n, push), st') => (some (n, ip :: push), st')
      | (none, st') => gotoChildren k s ip key (i + 1) st' r
end

/-- node at an index path -/
def nodeAt : List Node → List Nat → Option Node
  | _, [] => none
  | ch, [i] => ch[i]?
  | ch, i :: r =>
    match ch[i]? with
    | some (.loop _ _ _ _ _ sub) => nodeAt sub r
    | _ => none

/-- reported path (counter key) of the node at an index path -/
def keyAt : List Node → List Nat → PathKey
  | _, [] => []
  | ch, i :: r =>
    match ch[i]? with
    | some n => n.comp :: keyAt n.children r
    | none => []

structure WalkResult where
  node : Option (List Nat)          -- matched segment node
  pops : List (List Nat)
  pushes : List (List Nat)
  st : WState
  deriving Repr

/-- outcome of scanning the children of one loop (from a position on) -/
inductive Scan
  | found (r : WalkResult)
  | notHere (st : WState)

/-- the inner `for ord1 … for child …` of `walk` over the children `ch` (index `i` on) of the loop at `lip`.
    `loopNode` is that loop (none for the map root), `origLoopId` the `(id, parent id)` of the loop that
    encloses the start node. -/
def scanChildren (k : Consts) (s : SegData) (lip : List Nat) (lkey : PathKey) (loopNode : Option Node)
    (loopNid origLoop : NodeId) (fromPos : Nat) (pops : List (List Nat)) :
    Nat → WState → List Node → Scan
  | _, st, [] => .notHere st
  | i, st, c :: r =>
    if c.pos < fromPos then scanChildren k s lip lkey loopNode loopNid origLoop fromPos pops (i + 1) st r
    else if c.isSeg then
      if isMatch k c s then
        match loopNode with
        | some ln =>
          (match isLoopMatch k s lip lkey st ln with
           | (true, st1) =>
             (match gotoSegMatch k s lip lkey st1 ln with
              | (some (n, push), st2) =>
                if loopNid == origLoop then .found { node := some n, pops := [lip], pushes := [lip], st := st2 }
                else .found { node := some n, pops := pops, pushes := push, st := st2 }
              | (none, st2) =>
                if loopNid == origLoop then .found { node := none, pops := [lip], pushes := [lip], st := st2 }
                else .found { node := none, pops := pops, pushes := [], st := st2 })
           | (false, st1) => scanSegMatched lip lkey loopNid c i pops st1)
        | none => scanSegMatched lip lkey loopNid c i pops st
      else if c.usage == 0 && st.cnt.get (lkey ++ [c.comp]) < 1 then
        scanChildren k s lip lkey loopNode loopNid origLoop fromPos pops (i + 1)
          { st with pending := st.pending ++ [{ ip := lip ++ [i], nid := (c.ident, loopNid.1), pos := c.pos }] } r
      else scanChildren k s lip lkey loopNode loopNid origLoop fromPos pops (i + 1) st r
    else
      match isLoopMatch k s (lip ++ [i]) (lkey ++ [c.comp]) st c with
      | (true, st1) =>
        (match gotoSegMatch k s (lip ++ [i]) (lkey ++ [c.comp]) st1 c with
         | (some (n, push), st2) => .found { node := some n, pops := pops, pushes := push, st := st2 }
         | (none, st2) => .found { node := none, pops := pops, pushes := [], st := st2 })
      | (false, st1) => scanChildren k s lip lkey loopNode loopNid origLoop fromPos pops (i + 1) st1 r
where
  /-- a plain segment child matched: count it, check usage, drop it from the pending list, flush the rest -/
  scanSegMatched (lip : List Nat) (lkey : PathKey) (loopNid : NodeId) (c : Node) (i : Nat)
      (pops : List (List Nat)) (st : WState) : Scan :=
    .found { node := some (lip ++ [i]), pops := pops, pushes := [],
             st := flush
               { cnt := st.cnt.incr (lkey ++ [c.comp]),
                 pending := st.pending.filter (fun p => p.nid != (c.ident, loopNid.1)),
                 errs := st.errs ++
                   (if c.usage == 2 then [(ErrKind.segNotUsed, lip ++ [i])]
                    else if exceeds ((st.cnt.incr (lkey ++ [c.comp])).get (lkey ++ [c.comp])) c.rep
                    then [(ErrKind.segMaxCount, lip ++ [i])] else []) }
               (some c.pos) }

/-- id of the node at an index path (0 for the root) -/
def idAt (root : List Node) (ip : List Nat) : Nat :=
  match ip with
  | [] => 0
  | _ => match nodeAt root ip with
         | some n => n.ident
         | none => 0

/-- the `while True` of `walk`: scan the loop at `revLip.reverse`, else pop to its parent.
    Structural on the reversed index path of the enclosing loop. -/
def walkUp (k : Consts) (root : List Node) (rootId : Nat) (s : SegData) (origLoop : NodeId) (orig : List Nat) :
    List Nat → Nat → List (List Nat) → WState → WalkResult
  | [], fromPos, pops, st =>
    (match scanChildren k s [] [] none (rootId, 0) origLoop fromPos pops 0 st root with
     | .found r => r
     | .notHere st' =>
       { node := none, pops := [], pushes := [], st := { st' with errs := st'.errs ++ [(ErrKind.notFound, orig)] } })
  | i :: revParent, fromPos, pops, st =>
    match nodeAt root (i :: revParent).reverse with
    | some ln =>
      (match scanChildren k s (i :: revParent).reverse (keyAt root (i :: revParent).reverse) (some ln)
              (ln.ident, idAt root revParent.reverse) origLoop fromPos pops 0 st ln.children with
       | .found r => r
       | .notHere st' => walkUp k root rootId s origLoop orig revParent ln.pos (pops ++ [(i :: revParent).reverse]) st')
    | none => { node := none, pops := [], pushes := [], st := st }

/-- `walk_tree.walk(node, seg, …)` started at the segment node with index path `cur` -/
def walk (k : Consts) (root : List Node) (rootId : Nat) (cnt : Counter) (cur : List Nat) (s : SegData) : WalkResult :=
  match nodeAt root cur with
  | some n =>
    walkUp k root rootId s
      (idAt root cur.dropLast, idAt root cur.dropLast.dropLast) cur
      cur.dropLast.reverse n.pos [] { cnt := cnt, pending := [], errs := [] }
  | none => { node := none, pops := [], pushes := [], st := { cnt := cnt, pending := [], errs := [] } }

/-- `forceWalkCounterToLoopStart(x12_path, child_path)` -/
def forceLoopStart (cnt : Counter) (loopKey segKey : PathKey) : Counter :=
  ((cnt.resetTo loopKey).incr loopKey).incr segKey

end Pyx12Verif.Walker
