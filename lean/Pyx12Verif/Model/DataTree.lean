/-
Model of the tree-editing API of pyx12/x12context.py (X12DataNode, X12LoopDataNode, X12SegmentDataNode)
together with what it consults: pyx12.path.X12Path (parse / format), pyx12.segment.Segment (parse, format,
get_value, set, copy, ==) and the map-node questions is_match / is_match_qual / get_child_seg_node /
get_child_loop_node / pos / (id, parent id) equality.

Behaviour modelled: the code with the three C10 fixes applied
  D12  copy(): children of the copy point to the copy             (parent links = tree structure)
  D40  copy(): deleted (tombstoned) children are skipped
  D41  _get_insert_idx: no sibling at the same or an earlier position -> index 0 (was: end of the list)

Representation
  * strings are `List Char`; a segment is `id + List (List (List Char))` plus its three terminators;
  * the map is abstracted to plain data carried by every data node: id, position, parent id, grandparent id
    (x12_node.__eq__ compares (id, parent.id)), the `is_match` keys, the `is_match_qual` key, and for a loop the
    list of its map children in childIterator order (sorted by position, loops before segments);
  * a data tree is a rose tree with tombstones (`dead` = `type is None`, swept by `_cleanup`);
  * nodes are addressed by index paths (root index in the forest, child indexes counting tombstones);
    Python's `parent` links are the address prefix (`../` = drop the last index);
  * exceptions are explicit outcomes (`Err`), every operation returns (result, new forest) because an exception
    can leave a partial edit behind (add_loop).
Domain restrictions (not modelled, excluded by the harness, listed in the evidence):
  * calls made on a tombstone or on an object that is no longer in any tree;
  * add_node of a node that is still a child of some node (aliasing);
  * on a detached copy of an inner node, paths climbing above the copy's root (the real copy keeps the
    original's parent: known finding pred:copy-root-keeps-original-parent);
  * ISA segments inside a tree (Segment.set special case for ISA16; ISA composites carry another terminator).
-/
namespace Pyx12Verif.DataTree

abbrev Str := List Char

/-- exception classes raised by the Python code -/
inductive Err
  | path | engine | index | type | attr | assertion | fuel
  deriving DecidableEq, Repr

/-! ## strings -/

/-- Python `s.split(c)` for a one-character separator -/
def splitOn (c : Char) : Str → List Str
  | [] => [[]]
  | x :: r =>
    if x = c then [] :: splitOn c r
    else match splitOn c r with
      | [] => [[x]]
      | h :: t => (x :: h) :: t

/-- Python `c.join(parts)` -/
def joinWith (c : Char) : List Str → Str
  | [] => []
  | a :: r => match r with
    | [] => a
    | _ :: _ => a ++ c :: joinWith c r

def isUpper (c : Char) : Bool := 'A' ≤ c ∧ c ≤ 'Z'
def isDigit (c : Char) : Bool := '0' ≤ c ∧ c ≤ '9'
def isUD (c : Char) : Bool := isUpper c || isDigit c

def digitsVal (s : Str) : Nat := s.foldl (fun a c => a * 10 + (c.toNat - '0'.toNat)) 0

def digitChar (n : Nat) : Char := Char.ofNat ('0'.toNat + n % 10)

/-- decimal digits of `n`, most significant first (fuel = n + 1 suffices) -/
def natDigits : Nat → Nat → Str
  | 0, _ => []
  | f + 1, n => if n < 10 then [digitChar n] else natDigits f (n / 10) ++ [digitChar n]

def natStr (n : Nat) : Str := natDigits (n + 1) n

/-- `'%02i' % n` -/
def pad2 (n : Nat) : Str := if n < 10 then '0' :: natStr n else natStr n

/-! ## pyx12.path.X12Path -/

structure XPath where
  rel : Bool
  loops : List Str
  seg : Option Str
  idv : Option Str
  ele : Option Nat
  sub : Option Nat
  deriving DecidableEq, Repr

structure Ref where
  seg : Option Str
  idv : Option Str
  ele : Option Nat
  sub : Option Nat
  deriving DecidableEq, Repr

/-- `(-[0-9]+)?$` -/
def parseSubPart : Str → Option (Option Nat)
  | [] => some none
  | c :: r => if c = '-' ∧ r ≠ [] ∧ r.all isDigit then some (some (digitsVal r)) else none

def withEle (e : Option Nat) : Option (Option Nat) → Option (Option Nat × Option Nat)
  | none => none
  | some s => some (e, s)

/-- `([0-9]{2})?(-[0-9]+)?$` -/
def parseElePart : Str → Option (Option Nat × Option Nat)
  | [] => some (none, none)
  | a :: r => match r with
    | [] => withEle none (parseSubPart [a])
    | b :: r2 =>
      if isDigit a ∧ isDigit b then
        match parseSubPart r2 with
        | some s => some (some (digitsVal [a, b]), s)
        | none => withEle none (parseSubPart (a :: b :: r2))
      else withEle none (parseSubPart (a :: b :: r2))

def withIdv (i : Option Str) : Option (Option Nat × Option Nat) → Option (Option Str × Option Nat × Option Nat)
  | none => none
  | some (e, s) => some (i, e, s)

def closeBracket (body : Str) : Str → Option (Option Str × Option Nat × Option Nat)
  | [] => none
  | c :: r => if c = ']' ∧ body ≠ [] then withIdv (some body) (parseElePart r) else none

/-- `(\[[A-Z0-9]+\])?([0-9]{2})?(-[0-9]+)?$` -/
def parseIdvPart : Str → Option (Option Str × Option Nat × Option Nat)
  | [] => some (none, none, none)
  | c :: r =>
    if c = '[' then closeBracket (r.takeWhile isUD) (r.dropWhile isUD)
    else withIdv none (parseElePart (c :: r))

def mkRef (sg : Option Str) : Option (Option Str × Option Nat × Option Nat) → Option Ref
  | none => none
  | some (i, e, s) => some { seg := sg, idv := i, ele := e, sub := s }

def trySeg3 : Str → Option Ref
  | a :: b :: c :: r => if isUpper a ∧ isUD b ∧ isUD c then mkRef (some [a, b, c]) (parseIdvPart r) else none
  | _ => none

def trySeg2 : Str → Option Ref
  | a :: b :: r => if isUpper a ∧ isUD b then mkRef (some [a, b]) (parseIdvPart r) else none
  | _ => none

def orElseRef (a b : Option Ref) : Option Ref :=
  match a with
  | some x => some x
  | none => b

/-- the regular expression `rec_path` on a string without trailing newline (greedy segment id, backtracking) -/
def parseRefCore (s : Str) : Option Ref :=
  orElseRef (trySeg3 s) (orElseRef (trySeg2 s) (mkRef none (parseIdvPart s)))

/-- `$` also matches before one trailing newline -/
def chomp (s : Str) : Str := if s.getLast? = some '\n' then s.dropLast else s

def parseRef (s : Str) : Option Ref := parseRefCore (chomp s)

def finishPath (rel : Bool) (loops : List Str) (r : Ref) : Except Err XPath :=
  if r.seg = none ∧ r.idv ≠ none then .error .path
  else if r.seg = none ∧ (r.ele ≠ none ∨ r.sub ≠ none) ∧ loops ≠ [] then .error .path
  else .ok { rel := rel, loops := loops, seg := r.seg, idv := r.idv, ele := r.ele, sub := r.sub }

def noSeg (rel : Bool) (loops : List Str) : XPath :=
  { rel := rel, loops := loops, seg := none, idv := none, ele := none, sub := none }

/-- the part of `X12Path.__init__` after `loop_list` was split -/
def parseParts (rel : Bool) (parts : List Str) : Except Err XPath :=
  match parts.getLast? with
  | none => .ok (noSeg rel [])
  | some last =>
    if last = [] then .ok (noSeg rel parts.dropLast)
    else match parseRef last with
      | none => .ok (noSeg rel parts)
      | some r => finishPath rel parts.dropLast r

/-- `X12Path(path_str)` -/
def parsePath : Str → Except Err XPath
  | [] => .ok (noSeg true [])
  | c :: r => if c = '/' then parseParts false (splitOn '/' r) else parseParts true (splitOn '/' (c :: r))

def fmtIdv : Option Str → Str
  | none => []
  | some i => if i = [] then [] else '[' :: i ++ [']']

def fmtSub : Option Nat → Str
  | none => []
  | some s => if s = 0 then [] else '-' :: natStr s

def fmtEle (e : Option Nat) (s : Option Nat) : Str :=
  match e with
  | none => []
  | some n => if n = 0 then [] else pad2 n ++ fmtSub s

def fmtSegId (sg : Option Str) (i : Option Str) : Str :=
  match sg with
  | none => []
  | some g => if g = [] then [] else g ++ fmtIdv i

/-- `X12Path.format_refdes` -/
def fmtRefdes (p : XPath) : Str := fmtSegId p.seg p.idv ++ fmtEle p.ele p.sub

def segTruthy : Option Str → Bool
  | none => false
  | some g => g ≠ []

def fmtHead (p : XPath) : Str := (if p.rel then [] else ['/']) ++ joinWith '/' p.loops

/-- `X12Path.format` -/
def fmtPath (p : XPath) : Str :=
  fmtHead p ++ (if segTruthy p.seg ∧ fmtHead p ≠ [] ∧ fmtHead p ≠ ['/'] then ['/'] else []) ++ fmtRefdes p

/-- strip leading `../`; returns how many were stripped and the rest -/
def countUps : Str → Nat × Str
  | '.' :: '.' :: '/' :: r => ((countUps r).1 + 1, (countUps r).2)
  | s => (0, s)

/-! ## pyx12.segment.Segment -/

structure Seg where
  id : Str
  els : List (List Str)
  st : Char
  et : Char
  sub : Char
  deriving DecidableEq, Repr

def isaId : Str := ['I', 'S', 'A']

def stripTerm (st : Char) (s : Str) : Str := if s.getLast? = some st then s.dropLast else s

def singleton (e : Str) : List Str := [e]

def mkEls (sub : Char) (sid : Str) (es : List Str) : List (List Str) :=
  if sid = isaId then es.map singleton else es.map (splitOn sub)

/-- `Segment(seg_str, seg_term, ele_term, subele_term)`; the empty string gives a segment without id
(`None` in Python; it matches no map node and is never stored) -/
def segParse (s : Str) (st et sub : Char) : Seg :=
  match s with
  | [] => { id := [], els := [], st := st, et := et, sub := sub }
  | c :: r => match splitOn et (stripTerm st (c :: r)) with
    | [] => { id := [], els := [], st := st, et := et, sub := sub }
    | h :: t => { id := h, els := mkEls sub h t, st := st, et := et, sub := sub }

def dropTrailing {α : Type} (p : α → Bool) (l : List α) : List α := (l.reverse.dropWhile p).reverse

def strEmpty (s : Str) : Bool := s.isEmpty

/-- `elements[:i+1]` where `i` is the last non-empty index, `0` when all are empty -/
def trimKeepOne {α : Type} (p : α → Bool) (l : List α) : List α :=
  match dropTrailing p l with
  | [] => l.take 1
  | x :: r => x :: r

/-- `Composite.format` -/
def compFmt (sub : Char) (c : List Str) : Str := joinWith sub (trimKeepOne strEmpty c)

def compEmpty (c : List Str) : Bool := c.all strEmpty

/-- `Segment.format()` with the segment's own terminators -/
def segFmt (s : Seg) : Str :=
  s.id ++ s.et :: joinWith s.et ((trimKeepOne compEmpty s.els).map (compFmt s.sub)) ++ [s.st]

/-- `Segment.__copy__` : parse the formatted text again -/
def segCopy (s : Seg) : Seg := segParse (segFmt s) s.st s.et s.sub

/-- `Segment.__eq__` -/
def segEq (a b : Seg) : Bool := a.id = b.id ∧ a.els = b.els

/-- element / sub-element selection of `Segment.get` + `format()`; `sub = some 0` is Python index `-1` -/
def compPart (sb : Char) (c : List Str) : Option Nat → Except Err (Option Str)
  | none => .ok (some (compFmt sb c))
  | some 0 => match c.getLast? with
    | none => .error .index
    | some x => .ok (some x)
  | some (k + 1) => match c[k]? with
    | none => .ok none
    | some x => .ok (some x)

/-- `Segment.get_value` after `_parse_refdes` : `ele` is the 1-based index (`some 0` is Python index `-1`) -/
def segGet (s : Seg) : Option Nat → Option Nat → Except Err (Option Str)
  | none, _ => .error .index
  | some 0, sb => match s.els.getLast? with
    | none => .error .index
    | some c => compPart s.sub c sb
  | some (e + 1), sb => match s.els[e]? with
    | none => .ok none
    | some c => compPart s.sub c sb

/-- pad with `x` up to length `n` -/
def padTo {α : Type} (x : α) (n : Nat) (l : List α) : List α := l ++ List.replicate (n - l.length) x

def setLast {α : Type} (x : α) (l : List α) : List α := l.dropLast ++ [x]

/-- new composite for `Segment.set` at sub-element index `sb` -/
def compSet (sb : Char) (c : List Str) (v : Str) : Option Nat → List Str
  | none => splitOn sb v
  | some 0 => setLast v c
  | some (k + 1) => (padTo [] (k + 1) c).set k v

/-- `Segment.set` after `_parse_refdes` -/
def segSet (s : Seg) (v : Str) : Option Nat → Option Nat → Except Err Seg
  | none, _ => .error .type
  | some 0, sb => match s.els.getLast? with
    | none => .error .index
    | some c => .ok { s with els := setLast (compSet s.sub c v sb) s.els }
  | some (e + 1), sb =>
    .ok { s with els := (padTo [[]] (e + 1) s.els).set e (compSet s.sub ((padTo [[]] (e + 1) s.els).getD e [[]]) v sb) }

/-- `Segment._parse_refdes` : the designator is parsed as a whole path -/
def refOf (s : Seg) (refdes : Str) : Except Err (Option Nat × Option Nat) :=
  match parsePath refdes with
  | .error e => .error e
  | .ok xp => match xp.seg with
    | none => .ok (xp.ele, xp.sub)
    | some g => if g = s.id then .ok (xp.ele, xp.sub) else .error .engine

def segGetStr (s : Seg) (refdes : Str) : Except Err (Option Str) :=
  match refOf s refdes with
  | .error e => .error e
  | .ok (e, sb) => segGet s e sb

def segSetStr (s : Seg) (refdes : Str) (v : Str) : Except Err Seg :=
  match refOf s refdes with
  | .error e => .error e
  | .ok (e, sb) => segSet s v e sb

/-! ## what the operations ask the map -/

/-- one qualifier rule: the value at (1-based element, optional 1-based sub-element) must be in `codes` -/
structure QKey where
  ele : Nat
  sub : Option Nat
  codes : List Str
  deriving DecidableEq, Repr

structure SegDef where
  id : Str
  pos : Nat
  pid : Str
  gid : Str
  mkeys : List QKey
  qkey : Option QKey
  deriving DecidableEq, Repr

structure Hdr where
  id : Str
  pos : Nat
  pid : Str
  gid : Str
  deriving DecidableEq, Repr

/-- map subtree below a loop, children in `childIterator` order -/
inductive MNode
  | seg (d : SegDef)
  | loop (h : Hdr) (kids : List MNode)
  deriving Repr

def keyVal (s : Seg) (k : QKey) : Option Str :=
  match segGet s (some k.ele) k.sub with
  | .ok v => v
  | .error _ => none

def keyOk (s : Seg) (k : QKey) : Bool :=
  match keyVal s k with
  | none => false
  | some v => k.codes.contains v

/-- `segment_if.is_match` -/
def isMatch (d : SegDef) (s : Seg) : Bool := s.id = d.id ∧ d.mkeys.all (keyOk s)

def qualOk (s : Seg) (q : Str) : Option QKey → Bool
  | none => true
  | some k => k.codes.contains q ∧ keyVal s k = some q

/-- `segment_if.is_match_qual(seg_data, seg_id, qual_code)[0]` -/
def isMatchQual (d : SegDef) (s : Seg) (sid : Option Str) (q : Option Str) : Bool :=
  match sid with
  | none => false
  | some i =>
    if i = d.id then
      match q with
      | none => true
      | some qc => qualOk s qc d.qkey
    else false

mutual
/-- `loop_if.is_match` (first child in position order decides; an empty loop raises IndexError) -/
def mnodeMatch : MNode → Seg → Except Err Bool
  | .seg d, s => .ok (isMatch d s)
  | .loop _ kids, s => firstKidMatch kids s
def firstKidMatch : List MNode → Seg → Except Err Bool
  | [], _ => .error .index
  | k :: _, s => mnodeMatch k s
end

/-- `loop_if.get_child_seg_node` -/
def childSegDef (s : Seg) : List MNode → Option SegDef
  | [] => none
  | .seg d :: r => if isMatch d s then some d else childSegDef s r
  | .loop _ _ :: r => childSegDef s r

/-- `loop_if.get_child_loop_node` -/
def childLoopDef (s : Seg) : List MNode → Except Err (Option (Hdr × List MNode))
  | [] => .ok none
  | .seg _ :: r => childLoopDef s r
  | .loop h kids :: r =>
    match firstKidMatch kids s with
    | .error e => .error e
    | .ok true => .ok (some (h, kids))
    | .ok false => childLoopDef s r

/-! ## the data tree -/

inductive DNode
  | seg (d : SegDef) (s : Seg)
  | loop (h : Hdr) (mk : List MNode) (cs : List DNode)
  | dead
  deriving Repr

def isDead : DNode → Bool
  | .dead => true
  | .seg _ _ => false
  | .loop _ _ _ => false

def isLive (n : DNode) : Bool := !isDead n

/-- `x12_map_node.id` -/
def nodeId : DNode → Option Str
  | .seg d _ => some d.id
  | .loop h _ _ => some h.id
  | .dead => none

def nodePos : DNode → Nat
  | .seg d _ => d.pos
  | .loop h _ _ => h.pos
  | .dead => 0

def nodeParentKey : DNode → Option (Str × Str)
  | .seg d _ => some (d.pid, d.gid)
  | .loop h _ _ => some (h.pid, h.gid)
  | .dead => none

def getAt : List Nat → DNode → Option DNode
  | [], n => some n
  | i :: r, .loop _ _ cs => match cs[i]? with
    | some c => getAt r c
    | none => none
  | _ :: _, .seg _ _ => none
  | _ :: _, .dead => none

def modifyAt (f : DNode → DNode) : List Nat → DNode → DNode
  | [], n => f n
  | i :: r, .loop h mk cs => .loop h mk (cs.modify i (modifyAt f r))
  | _ :: _, .seg d s => .seg d s
  | _ :: _, .dead => .dead

mutual
/-- `iterate_segments` -/
def segsOf : DNode → List Seg
  | .seg _ s => [s]
  | .loop _ _ cs => segsOfList cs
  | .dead => []
def segsOfList : List DNode → List Seg
  | [] => []
  | c :: r => segsOf c ++ segsOfList r
end

/-- `_cleanup` -/
def cleanup (cs : List DNode) : List DNode := cs.filter isLive

/-- index of the last child whose position is `≤ p`, plus one; `0` when there is none (fix D41) -/
def insertIdxFrom (p : Nat) : Nat → Nat → List DNode → Nat
  | _, best, [] => best
  | i, best, c :: r => if nodePos c ≤ p then insertIdxFrom p (i + 1) (i + 1) r else insertIdxFrom p (i + 1) best r

/-- `_get_insert_idx` on the swept child list -/
def insertIdx (p : Nat) (cs : List DNode) : Nat := insertIdxFrom p 0 0 cs

def insertAt {α : Type} (i : Nat) (x : α) (l : List α) : List α := l.take i ++ x :: l.drop i

/-- `self._cleanup(); self.children.insert(self._get_insert_idx(node), new)` -/
def insertChild (n : DNode) (cs : List DNode) : List DNode :=
  insertAt (insertIdx (nodePos n) (cleanup cs)) n (cleanup cs)

/-! ### `_select` -/

/-- `path.X12Path(x12path.format())` with `loop_list` replaced by the tail -/
def reparse (xp : XPath) : Except Err XPath :=
  match parsePath (fmtPath xp) with
  | .error e => .error e
  | .ok p => .ok { p with loops := xp.loops.tail }

def pfx (i : Nat) (l : List (List Nat)) : List (List Nat) := l.map (List.cons i)

def headIs (loops : List Str) (i : Str) : Bool := loops.head? = some i

def lastStep (xp : XPath) : Bool := xp.loops.tail = [] ∧ xp.seg = none

/- `_select` is a Python generator.  The model returns the whole list or the exception.  This loses nothing: the only
exception it can raise is the X12PathError of the re-parse, which depends on the path alone and is raised at the
first child whose id equals the first loop id, at the top level, i.e. before anything was yielded; consumers that
stop early (`exists`, `first`, `delete_node`) therefore see the same exception or the same first item. -/
mutual
/-- matches below one child, relative to that child (`[]` = the child itself) -/
def selChild (xp : XPath) : DNode → Except Err (List (List Nat))
  | .dead => .ok []
  | .seg d s =>
    if xp.loops = [] then (if isMatchQual d s xp.seg xp.idv then .ok [[]] else .ok [])
    else if headIs xp.loops d.id then
      (if lastStep xp then .ok [[]]
       else match reparse xp with
         | .error e => .error e
         | .ok _ => .ok [])
    else .ok []
  | .loop h _ cs =>
    if xp.loops = [] then (if xp.seg = some h.id then .ok [[]] else .ok [])
    else if headIs xp.loops h.id then
      (if lastStep xp then .ok [[]]
       else match reparse xp with
         | .error e => .error e
         | .ok xp2 => selKids xp2 0 cs)
    else .ok []
/-- `_select` over a child list; `i` is the index of the first child of the list -/
def selKids (xp : XPath) (i : Nat) : List DNode → Except Err (List (List Nat))
  | [] => .ok []
  | c :: r =>
    match selChild xp c with
    | .error e => .error e
    | .ok l1 =>
      match selKids xp (i + 1) r with
      | .error e => .error e
      | .ok l2 => .ok (pfx i l1 ++ l2)
end

/-- `node._select(xpath)` -/
def selNode (xp : XPath) : DNode → Except Err (List (List Nat))
  | .loop _ _ cs => selKids xp 0 cs
  | .seg _ _ => .ok []
  | .dead => .ok []

/-- `_get_start_node` on an address: climb `k` levels -/
def climb (a : List Nat) (k : Nat) : Except Err (List Nat) :=
  if k ≤ a.length then .ok (a.take (a.length - k)) else .error .path

/-- start node and parsed rest of a relative path -/
def startOf (a : List Nat) (ps : Str) : Except Err (List Nat × XPath) :=
  match climb a (countUps ps).1 with
  | .error e => .error e
  | .ok b => match parsePath (countUps ps).2 with
    | .error e => .error e
    | .ok xp => .ok (b, xp)

def absAddrs (b : List Nat) (l : List (List Nat)) : List (List Nat) := l.map (fun x => b ++ x)

/-- all matches of a relative path from the node at `a`, as absolute addresses, in `_select` order -/
def selectAt (t : DNode) (a : List Nat) (ps : Str) : Except Err (List (List Nat)) :=
  match startOf a ps with
  | .error e => .error e
  | .ok (b, xp) => match getAt b t with
    | none => .error .attr
    | some n => match selNode xp n with
      | .error e => .error e
      | .ok l => .ok (absAddrs b l)

/-- the assertions of `X12DataNode.select` on one yielded node -/
def selectAssertOk (xp : XPath) (n : DNode) : Bool :=
  match xp.seg with
  | some g => nodeId n = some g
  | none => xp.loops ≠ [] ∧ nodeId n = xp.loops.getLast?

def allAssertOk (t : DNode) (xp : XPath) (l : List (List Nat)) : Bool :=
  l.all (fun a => match getAt a t with
    | none => false
    | some n => selectAssertOk xp n)

/-! ### queries (generic `X12DataNode` methods) -/

def existsAt (t : DNode) (a : List Nat) (ps : Str) : Except Err Bool :=
  match selectAt t a ps with
  | .error e => .error e
  | .ok l => .ok (!l.isEmpty)

def countAt (t : DNode) (a : List Nat) (ps : Str) : Except Err Nat :=
  match selectAt t a ps with
  | .error e => .error e
  | .ok l => .ok l.length

/-- `select` of a loop node (a segment node returns `[]` without looking at the path) -/
def selectLoopAt (t : DNode) (a : List Nat) (ps : Str) : Except Err (List (List Nat)) :=
  match selectAt t a ps with
  | .error e => .error e
  | .ok l => match startOf a ps with
    | .error e => .error e
    | .ok (_, xp) => if allAssertOk t xp l then .ok l else .error .assertion

def isSegNode : Option DNode → Bool
  | some (.seg _ _) => true
  | _ => false

def selectApi (t : DNode) (a : List Nat) (ps : Str) : Except Err (List (List Nat)) :=
  if isSegNode (getAt a t) then .ok [] else selectLoopAt t a ps

def headAssertOk (t : DNode) (xp : XPath) : List (List Nat) → Except Err (Option (List Nat))
  | [] => .ok none
  | x :: _ => if allAssertOk t xp [x] then .ok (some x) else .error .assertion

/-- `first` : `exists`, then the first item of the `select` generator (only its assertions run) -/
def firstAt (t : DNode) (a : List Nat) (ps : Str) : Except Err (Option (List Nat)) :=
  match existsAt t a ps with
  | .error e => .error e
  | .ok false => .ok none
  | .ok true =>
    if isSegNode (getAt a t) then .ok none
    else match selectAt t a ps with
      | .error e => .error e
      | .ok l => match startOf a ps with
        | .error e => .error e
        | .ok (_, xp) => headAssertOk t xp l

/-! ### `get_first_matching_segment` -/

def isSegLive : DNode → Bool
  | .seg _ _ => true
  | _ => false

/-- index of the first segment child matching (segment id, qualifier) -/
def firstSegIdx (sid q : Option Str) (i : Nat) : List DNode → Option Nat
  | [] => none
  | .seg d s :: r => if isMatchQual d s sid q then some i else firstSegIdx sid q (i + 1) r
  | .loop _ _ _ :: r => firstSegIdx sid q (i + 1) r
  | .dead :: r => firstSegIdx sid q (i + 1) r

/-- index of the first loop child with the given id -/
def firstLoopIdx (lid : Str) (i : Nat) : List DNode → Option Nat
  | [] => none
  | .loop h _ _ :: r => if h.id = lid then some i else firstLoopIdx lid (i + 1) r
  | .seg _ _ :: r => firstLoopIdx lid (i + 1) r
  | .dead :: r => firstLoopIdx lid (i + 1) r

def childrenOf : Option DNode → Option (List DNode)
  | some (.loop _ _ cs) => some cs
  | _ => none

def appendIdx (b : List Nat) : Option Nat → Option (List Nat)
  | none => none
  | some i => some (b ++ [i])

/-- `X12LoopDataNode.get_first_matching_segment` from the node at address `a`; address of the segment found.
The recursion passes the *formatted* rest of the path, which is parsed again (so `X/../Y` climbs back). -/
def gfmsLoop (t : DNode) : Nat → List Nat → Str → Except Err (Option (List Nat))
  | 0, _, _ => .error .fuel
  | f + 1, a, ps =>
    if ps = [] then .error .path
    else match startOf a ps with
      | .error e => .error e
      | .ok (b, xp) =>
        if xp.seg = none then .ok none
        else match childrenOf (getAt b t) with
          | none => .error .attr
          | some cs =>
            match xp.loops with
            | [] => .ok (appendIdx b (firstSegIdx xp.seg xp.idv 0 cs))
            | l0 :: lr =>
              match firstLoopIdx l0 0 cs with
              | none => .ok none
              | some i => gfmsLoop t f (b ++ [i]) (fmtPath { xp with loops := lr })

def gfmsLoopAt (t : DNode) (a : List Nat) (ps : Str) : Except Err (Option (List Nat)) :=
  gfmsLoop t (ps.length + 1) a ps

/-- designator handed to `Segment.get_value / set` by the loop node: path without loops and qualifier -/
def segPartOf (xp : XPath) : Str := fmtPath { xp with loops := [], idv := none }

def segAt (t : DNode) (a : List Nat) : Option Seg :=
  match getAt a t with
  | some (.seg _ s) => some s
  | _ => none

def putSeg (s : Seg) : DNode → DNode
  | .seg d _ => .seg d s
  | .loop h mk cs => .loop h mk cs
  | .dead => .dead

/-- where a loop node's `get_value / set_value` looks: (segment address, designator) -/
def targetLoop (t : DNode) (a : List Nat) (ps : Str) : Except Err (Option (List Nat × Str)) :=
  match startOf a ps with
  | .error e => .error e
  | .ok (b, xp) =>
    match gfmsLoopAt t b (countUps ps).2 with
    | .error e => .error e
    | .ok none => .ok none
    | .ok (some sa) => .ok (some (sa, segPartOf xp))

/-- `X12SegmentDataNode.get_first_matching_segment` -/
def gfmsSeg (t : DNode) (a : List Nat) (ps : Str) : Except Err (Option (List Nat)) :=
  match startOf a ps with
  | .error e => .error e
  | .ok (b, xp) =>
    if xp.loops ≠ [] then .error .path
    else if xp.ele ≠ none ∧ xp.seg = none then .ok (some a)
    else match getAt b t with
      | some (.seg d s) => if isMatchQual d s xp.seg xp.idv then .ok (some b) else .ok none
      | some (.loop _ _ _) => .error .attr
      | some .dead => .error .attr
      | none => .error .attr

/-- where a segment node's `get_value / set_value` looks; the designator is the *unstripped* path string -/
def targetSeg (t : DNode) (a : List Nat) (ps : Str) : Except Err (Option (List Nat × Str)) :=
  match gfmsSeg t a ps with
  | .error e => .error e
  | .ok none => .ok none
  | .ok (some sa) => .ok (some (sa, ps))

def targetOf (t : DNode) (a : List Nat) (ps : Str) : Except Err (Option (List Nat × Str)) :=
  if isSegNode (getAt a t) then targetSeg t a ps else targetLoop t a ps

/-- `get_value` -/
def getValueAt (t : DNode) (a : List Nat) (ps : Str) : Except Err (Option Str) :=
  match targetOf t a ps with
  | .error e => .error e
  | .ok none => .ok none
  | .ok (some (sa, rd)) => match segAt t sa with
    | none => .error .attr
    | some s => segGetStr s rd

/-- `set_value` : new tree, or the exception -/
def setValueAt (t : DNode) (a : List Nat) (ps : Str) (v : Str) : Except Err DNode :=
  match targetOf t a ps with
  | .error e => .error e
  | .ok none => .error .path
  | .ok (some (sa, rd)) => match segAt t sa with
    | none => .error .attr
    | some s => match segSetStr s rd v with
      | .error e => .error e
      | .ok s2 => .ok (modifyAt (putSeg s2) sa t)

/-! ### edits -/

def firstSegTerms : List DNode → Option (Char × Char × Char)
  | [] => none
  | .seg _ s :: _ => some (s.st, s.et, s.sub)
  | .loop _ _ _ :: r => firstSegTerms r
  | .dead :: r => firstSegTerms r

/-- `_get_terminators` : first segment child, else ask the parent -/
def termsFrom (t : DNode) : Nat → List Nat → Except Err (Char × Char × Char)
  | 0, _ => .error .attr
  | f + 1, a => match childrenOf (getAt a t) with
    | none => .error .attr
    | some cs => match firstSegTerms cs with
      | some x => .ok x
      | none => if a = [] then .error .attr else termsFrom t f a.dropLast

/-- `_get_segment(str)` -/
def mkSegment (t : DNode) (a : List Nat) (s : Str) : Except Err Seg :=
  match termsFrom t (a.length + 1) a with
  | .error e => .error e
  | .ok (st, et, sb) => .ok (segParse s st et sb)

def withKids (cs : List DNode) : DNode → DNode
  | .loop h mk _ => .loop h mk cs
  | .seg d s => .seg d s
  | .dead => .dead

def loopParts : Option DNode → Option (Hdr × List MNode × List DNode)
  | some (.loop h mk cs) => some (h, mk, cs)
  | _ => none

/-- `add_segment(str)` : (new tree, address of the new node) -/
def addSegmentAt (t : DNode) (a : List Nat) (s : Str) : Except Err (DNode × List Nat) :=
  match loopParts (getAt a t) with
  | none => .error .attr
  | some (_, mk, cs) =>
    match mkSegment t a s with
    | .error e => .error e
    | .ok sg => match childSegDef sg mk with
      | none => .error .path
      | some d =>
        .ok (modifyAt (withKids (insertChild (.seg d sg) cs)) a t, a ++ [insertIdx d.pos (cleanup cs)])

/-- outcome of an edit that may fail after a partial change -/
structure Edit (α : Type) where
  res : Except Err α
  tree : DNode

def newLoopKids (h2 : Hdr) (kids : List MNode) (sg : Seg) : Except Err (List DNode) :=
  match childSegDef sg kids with
  | none => .error .attr
  | some d => if (d.pid, d.gid) = (h2.id, h2.pid) then .ok [.seg d sg] else .error .path

/-- `add_loop(str)` : the empty loop is inserted first; a failure while adding the segment leaves it there -/
def addLoopAt (t : DNode) (a : List Nat) (s : Str) : Edit (List Nat) :=
  match loopParts (getAt a t) with
  | none => { res := .error .attr, tree := t }
  | some (_, mk, cs) =>
    match mkSegment t a s with
    | .error e => { res := .error e, tree := t }
    | .ok sg => match childLoopDef sg mk with
      | .error e => { res := .error e, tree := t }
      | .ok none => { res := .error .path, tree := t }
      | .ok (some (h2, kids)) =>
        match newLoopKids h2 kids sg with
        | .error e =>
          { res := .error e, tree := modifyAt (withKids (insertChild (.loop h2 kids []) cs)) a t }
        | .ok ks =>
          { res := .ok (a ++ [insertIdx h2.pos (cleanup cs)]),
            tree := modifyAt (withKids (insertChild (.loop h2 kids ks) cs)) a t }

/-- `add_node(data_node)` with a detached node `n` -/
def addNodeAt (t : DNode) (a : List Nat) (n : DNode) : Except Err DNode :=
  match loopParts (getAt a t) with
  | none => .error .attr
  | some (h, _, cs) =>
    match nodeParentKey n with
    | none => .error .attr
    | some k => if k = (h.id, h.pid) then .ok (modifyAt (withKids (insertChild n cs)) a t) else .error .path

/-- `for i in range(1, len(children))`: delete the first segment child equal to `sg`, never the child at index 0 -/
def delFirstEq (sg : Seg) : List DNode → Option (List DNode)
  | [] => none
  | .seg d s :: r => if segEq s sg then some r else
      match delFirstEq sg r with
      | none => none
      | some r2 => some (.seg d s :: r2)
  | .loop h mk cs :: r =>
      match delFirstEq sg r with
      | none => none
      | some r2 => some (.loop h mk cs :: r2)
  | .dead :: r =>
      match delFirstEq sg r with
      | none => none
      | some r2 => some (.dead :: r2)

def delAfterFirst (sg : Seg) : List DNode → Option (List DNode)
  | [] => none
  | c :: r => match delFirstEq sg r with
    | none => none
    | some r2 => some (c :: r2)

/-- `delete_segment(str)` : (found, new tree) -/
def deleteSegmentAt (t : DNode) (a : List Nat) (s : Str) : Except Err (Bool × DNode) :=
  match loopParts (getAt a t) with
  | none => .error .attr
  | some (_, mk, cs) =>
    match mkSegment t a s with
    | .error e => .error e
    | .ok sg => match childSegDef sg mk with
      | none => .ok (false, t)
      | some _ => match delAfterFirst sg (cleanup cs) with
        | none => .ok (false, modifyAt (withKids (cleanup cs)) a t)
        | some cs2 => .ok (true, modifyAt (withKids cs2) a t)

def kill (_ : DNode) : DNode := .dead

/-- `delete_node(path)` : tombstone the first match -/
def deleteNodeAt (t : DNode) (a : List Nat) (ps : Str) : Except Err (Bool × DNode) :=
  match selectAt t a ps with
  | .error e => .error e
  | .ok [] => .ok (false, t)
  | .ok (x :: _) => .ok (true, modifyAt kill x t)

mutual
/-- `copy()` with fixes D12 (parent links are the tree structure) and D40 (tombstoned children are skipped);
segments are re-parsed from their text -/
def copyNode : DNode → DNode
  | .seg d s => .seg d (segCopy s)
  | .loop h mk cs => .loop h mk (copyKids cs)
  | .dead => .dead
def copyKids : List DNode → List DNode
  | [] => []
  | c :: r => if isDead c then copyKids r else copyNode c :: copyKids r
end

/-! ## forest of root objects and the twelve API calls -/

abbrev Forest := List DNode

inductive Op
  | getValue (r : Nat) (a : List Nat) (p : Str)
  | setValue (r : Nat) (a : List Nat) (p : Str) (v : Str)
  | existsQ (r : Nat) (a : List Nat) (p : Str)
  | count (r : Nat) (a : List Nat) (p : Str)
  | first (r : Nat) (a : List Nat) (p : Str)
  | select (r : Nat) (a : List Nat) (p : Str)
  | addSegment (r : Nat) (a : List Nat) (s : Str)
  | addLoop (r : Nat) (a : List Nat) (s : Str)
  | addNode (r : Nat) (a : List Nat) (j : Nat)
  | deleteSegment (r : Nat) (a : List Nat) (s : Str)
  | deleteNode (r : Nat) (a : List Nat) (p : Str)
  | copy (r : Nat) (a : List Nat)
  deriving Repr

inductive Res
  | none
  | bool (b : Bool)
  | nat (n : Nat)
  | str (s : Str)
  | addr (r : Nat) (a : List Nat)
  | addrs (r : Nat) (l : List (List Nat))
  | err (e : Err)
  deriving DecidableEq, Repr

def opRoot : Op → Nat
  | .getValue r _ _ => r
  | .setValue r _ _ _ => r
  | .existsQ r _ _ => r
  | .count r _ _ => r
  | .first r _ _ => r
  | .select r _ _ => r
  | .addSegment r _ _ => r
  | .addLoop r _ _ => r
  | .addNode r _ _ => r
  | .deleteSegment r _ _ => r
  | .deleteNode r _ _ => r
  | .copy r _ => r

def resOptStr : Except Err (Option Str) → Res
  | .error e => .err e
  | .ok none => .none
  | .ok (some s) => .str s

def resBool : Except Err Bool → Res
  | .error e => .err e
  | .ok b => .bool b

def resNat : Except Err Nat → Res
  | .error e => .err e
  | .ok n => .nat n

def resOptAddr (r : Nat) : Except Err (Option (List Nat)) → Res
  | .error e => .err e
  | .ok none => .none
  | .ok (some a) => .addr r a

def resAddrs (r : Nat) : Except Err (List (List Nat)) → Res
  | .error e => .err e
  | .ok l => .addrs r l

/-- one call on the tree `t` = root `r` (calls that involve a second root are handled in `step`) -/
def stepTree (t : DNode) : Op → Res × DNode
  | .getValue _ a p => (resOptStr (getValueAt t a p), t)
  | .setValue _ a p v => match setValueAt t a p v with
    | .error e => (.err e, t)
    | .ok t2 => (.none, t2)
  | .existsQ _ a p => (resBool (existsAt t a p), t)
  | .count _ a p => (resNat (countAt t a p), t)
  | .first r a p => (resOptAddr r (firstAt t a p), t)
  | .select r a p => (resAddrs r (selectApi t a p), t)
  | .addSegment r a s => match addSegmentAt t a s with
    | .error e => (.err e, t)
    | .ok (t2, na) => (.addr r na, t2)
  | .addLoop r a s => (resOptAddr r ((addLoopAt t a s).res.map some), (addLoopAt t a s).tree)
  | .addNode _ _ _ => (.err .attr, t)
  | .deleteSegment _ a s => match deleteSegmentAt t a s with
    | .error e => (.err e, t)
    | .ok (b, t2) => (.bool b, t2)
  | .deleteNode _ a p => match deleteNodeAt t a p with
    | .error e => (.err e, t)
    | .ok (b, t2) => (.bool b, t2)
  | .copy _ _ => (.err .attr, t)

/-- one API call on the forest: (result, new forest).  `copy` appends a new root; `add_node r a j` moves root
`j` under the node at `(r, a)` and leaves a tombstone in slot `j`. -/
def step (σ : Forest) : Op → Res × Forest
  | .copy r a => match σ[r]? with
    | none => (.err .attr, σ)
    | some t => match getAt a t with
      | none => (.err .attr, σ)
      | some n => (.addr σ.length [], σ ++ [copyNode n])
  | .addNode r a j =>
    if r = j then (.err .attr, σ)
    else match σ[r]? with
      | none => (.err .attr, σ)
      | some t => match σ[j]? with
        | none => (.err .attr, σ)
        | some n => match addNodeAt t a n with
          | .error e => (.err e, σ)
          | .ok t2 => (.none, (σ.set r t2).set j .dead)
  | op => match σ[opRoot op]? with
    | none => (.err .attr, σ)
    | some t => ((stepTree t op).1, σ.set (opRoot op) (stepTree t op).2)

/-- run a history, collecting the results -/
def run : Forest → List Op → List Res × Forest
  | σ, [] => ([], σ)
  | σ, op :: r => ((step σ op).1 :: (run (step σ op).2 r).1, (run (step σ op).2 r).2)

end Pyx12Verif.DataTree
