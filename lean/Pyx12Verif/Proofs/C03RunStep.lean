/-
C03, structural fault kinds at run level — the faulty steps "one instance too many".

`step_seg_over`: the generator emits one more instance of a segment child whose count already equals a finite
`max_use`; `step_loop_over`: one more instance of a first-seg loop whose count already equals a finite `repeat`.
Same reasoning as `step_seg` / `step_loop` (Proofs/WalkerStep.lean), different last move.
-/
import Pyx12Verif.Proofs.C03RunSpec

namespace Pyx12Verif.WalkerGen
open Pyx12Verif.MapSkel Pyx12Verif.Walker

theorem exceeds_true_of_le {n r : Nat} (h0 : r ≠ 0) (h : r < n) : exceeds n r = true := by
  unfold exceeds maxRepeat
  have : (r == 0) = false := by simpa using h0
  simp [this, h]

/-- the scan reaches a matching segment child that is not the start of a repeat of the enclosing loop:
    whatever the counts are, the answer is that of `scanSegMatched` -/
theorem scan_hit_seg_gen {K : Consts} {s : SegData} (lip : List Nat) (lkey : PathKey) (loopNode : Option Node)
    (loopNid origLoop : NodeId) (fromPos : Nat) (pops : List (List Nat)) (st : WState) (c : Node) (r : List Node) (i : Nat)
    (hpos : ¬ c.pos < fromPos) (hseg : c.isSeg = true) (hm : isMatch K c s = true)
    (hl : loopNode = none ∨ ∃ ln, loopNode = some ln ∧ isLoopMatch K s lip lkey st ln = (false, st)) :
    scanChildren K s lip lkey loopNode loopNid origLoop fromPos pops i st (c :: r) =
      scanChildren.scanSegMatched lip lkey loopNid c i pops st := by
  simp only [scanChildren, hpos, ↓reduceIte, hseg, hm]
  rcases hl with hl | ⟨ln, hl, hlm⟩
  · subst hl; rfl
  · subst hl; simp only [hlm]

theorem segMatched_over (lip : List Nat) (lkey : PathKey) (loopNid : NodeId) (c : Node) (i : Nat)
    (pops : List (List Nat)) (cnt : Counter) (hu : c.usage ≠ 2) (h0 : c.rep ≠ 0) (hr : c.rep ≤ cnt.get (lkey ++ [c.comp])) :
    scanChildren.scanSegMatched lip lkey loopNid c i pops { cnt := cnt, pending := [], errs := [] } =
      .found { node := some (lip ++ [i]), pops := pops, pushes := [],
               st := { cnt := cnt.incr (lkey ++ [c.comp]), pending := [], errs := [(ErrKind.segMaxCount, lip ++ [i])] } } := by
  have hex : exceeds ((cnt.incr (lkey ++ [c.comp])).get (lkey ++ [c.comp])) c.rep = true := by
    rw [get_incr_same]; exact exceeds_true_of_le h0 (by omega)
  have hu' : (c.usage == 2) = false := by simpa using hu
  simp only [scanChildren.scanSegMatched, hu', Bool.false_eq_true, ↓reduceIte, hex, List.filter_nil, List.nil_append]
  rw [flush_nil _ rfl]

/-- **step, segment target, any count**: the walk reaches the segment child `j` of the loop at `q` and answers as
    `scanSegMatched` does -/
theorem step_seg_gen {K : Consts} {root : List Node} (rootId : Nat) (h : MapOK K root) {s : SegData} {cnt : Counter}
    {cur : List Nat} (hinv : Inv root cnt cur) {q : List Nat} {j : Nat} (hr : ReadyOn root cnt cur q j)
    {ch : List Node} (hch : chAt root q = some ch) {c : Node} (hc : ch[j]? = some c)
    (hseg : c.isSeg = true) (hm : isMatch K c s = true) (hnf : q = [] ∨ 0 < j ∨ firstIsLoop ch = true) :
    ∃ nid pops, Scan.found (walk K root rootId cnt cur s) =
      scanChildren.scanSegMatched q (keyAt root q) nid c j pops { cnt := cnt, pending := [], errs := [] } := by
  have hr' := hr
  obtain ⟨i, hqi, hij, hmid, hdeep⟩ := hr
  have hte : ∃ t, t ∈ entry K c ∧ hits s t := by
    cases c with
    | loop => simp [Node.isSeg] at hseg
    | seg a b c d e f g =>
      exact ⟨(a, segSKey K a g), by simp [entry], isMatch_hits K _ s hm (a, segSKey K a g) (by simp [nodeSKey])⟩
  obtain ⟨t, hte, ht⟩ := hte
  have hjne : i = j → q ++ [i] = cur := by
    intro e; subst e
    apply Classical.byContradiction
    intro hne
    obtain ⟨lid, pos, u, r, w, sub, hci, _⟩ := path_child_loop hinv hqi hne hch
    rw [hc] at hci; simp only [Option.some.injEq] at hci; subst hci
    simp [Node.isSeg] at hseg
  have hdead := dead_of_later h hinv (L := q)
    (fun p' i' h1 h2 h3 => hdeep p' i' (by
      have hp'cur : p' <+: cur := List.IsPrefix.trans (List.prefix_append _ _) h3
      have hlen1 := List.IsPrefix.length_le h1
      have hlenne : q.length ≠ p'.length := fun e => h2 (prefix_eq_of_length h1 e).symm
      exact prefix_of_longer hqi hp'cur (by simp; omega)) h3)
    ht (deeper_levels_later hinv hqi hij hch hc hjne hte)
  obtain ⟨loopNode, nid, oL, pops, hln, hfound⟩ := reach_level (K := K) (rootId := rootId) (s := s) hinv hqi hdead hch hc
    (pre_passes h hinv hr' hch hc hte ht _)
  obtain ⟨ch0, hch0, hl⟩ := hinv.lev q i hqi
  rw [hch] at hch0; simp only [Option.some.injEq] at hch0; subst hch0
  obtain ⟨ci, hci⟩ := hl.idx
  have hwf := wfAt_chAt (wfAt_root h.wf) hch
  have hpos : ¬ c.pos < posAt root (q ++ [i]) := by
    have := posSorted_le hwf.pos hci hc hij
    simp only [posAt, nodeAt_snoc hch, hci]; omega
  have hres := scan_hit_seg_gen (K := K) (s := s) q (keyAt root q) loopNode nid oL (posAt root (q ++ [i])) pops
    { cnt := cnt, pending := [], errs := [] } c (ch.drop (j + 1)) j hpos hseg hm ?_
  · refine ⟨nid, pops, ?_⟩
    cases hsm : scanChildren.scanSegMatched q (keyAt root q) nid c j pops { cnt := cnt, pending := [], errs := [] } with
    | notHere st' => simp [scanChildren.scanSegMatched] at hsm
    | found r =>
      rw [hsm] at hres
      rw [hfound r hres]
  · rcases hln with ⟨_, hn⟩ | ⟨P0, a, ln, hq, hn, hnode, hlnch, hlnseg⟩
    · left; exact hn
    · right
      refine ⟨ln, hn, ?_⟩
      have hnf' : 0 < j ∨ firstIsLoop ch = true := by
        rcases hnf with e | e
        · subst e; simp at hq
        · exact e
      subst hq
      have hP0 : P0 ++ [a] <+: cur := List.IsPrefix.trans (List.prefix_append _ _) hqi
      obtain ⟨pch, hpch, hpl⟩ := hinv.lev P0 a hP0
      obtain ⟨pch', lid, pos, u, r, w, hpch', hai, hnode'⟩ := nodeAt_of_chAt hch
      rw [hpch] at hpch'; simp only [Option.some.injEq] at hpch'; subst hpch'
      rw [hnode] at hnode'; simp only [Option.some.injEq] at hnode'; subst hnode'
      have hkey : keyAt root (P0 ++ [a]) = keyAt root P0 ++ [(Node.loop lid pos u r w ch).comp] := keyAt_snoc hpch hai
      cases ch with
      | nil => simp at hc
      | cons first rest =>
        have hf0 : (first :: rest)[0]? = some first := by simp
        cases hfs : first.isSeg with
        | true =>
          have hj0 : 0 < j := by
            rcases hnf' with e | e
            · exact e
            · simp [firstIsLoop, hfs] at e
          apply isLoopMatch_false
          · rw [entry_loop_first hfs]
            exact sib_noHit (uAt_chAt (uAt_root h.un) hch).sib hf0 hc (by omega) hte ht
          · have h1 := hpl.here _ hai (by simp [counted, firstIsSeg, hfs])
            cases first with
            | loop => simp [Node.isSeg] at hfs
            | seg a1 a2 a3 a4 a5 a6 a7 =>
              simp only [satisfied, satHead, Bool.or_eq_true, bne_iff_ne, decide_eq_true_eq]
              right; rw [hkey]; exact h1
        | false =>
          exfalso
          have hwn := wfNode_at (wfAt_root h.wf) hpch hai
          simp only [wfNode, Bool.and_eq_true, transparentOK, firstIsLoop, hfs, Bool.not_false, Bool.not_true,
            Bool.false_or, bne_iff_ne] at hwn
          have := allLoops_get hwn.1.2.2 hc
          rw [hseg] at this; cases this

/-- **faulty step, segment beyond `max_use`**: the count of the segment child `j` of the loop at `q` already equals
    its finite `max_use`; the next instance is answered with that node, counted, and draws exactly `segMaxCount` -/
theorem step_seg_over {K : Consts} {root : List Node} (rootId : Nat) (h : MapOK K root) {s : SegData} {cnt : Counter}
    {cur : List Nat} (hinv : Inv root cnt cur) {q : List Nat} {j : Nat} (hr : ReadyOn root cnt cur q j)
    {ch : List Node} (hch : chAt root q = some ch) {c : Node} (hc : ch[j]? = some c)
    (hseg : c.isSeg = true) (hm : isMatch K c s = true) (hu : c.usage ≠ 2)
    (h0 : c.rep ≠ 0) (hrep : c.rep ≤ cnt.get (keyAt root q ++ [c.comp])) (hnf : q = [] ∨ 0 < j ∨ firstIsLoop ch = true) :
    (walk K root rootId cnt cur s).node = some (q ++ [j]) ∧
    (walk K root rootId cnt cur s).st =
      { cnt := cnt.incr (keyAt root q ++ [c.comp]), pending := [], errs := [(ErrKind.segMaxCount, q ++ [j])] } := by
  obtain ⟨nid, pops, hw⟩ := step_seg_gen rootId h hinv hr hch hc hseg hm hnf
  rw [segMatched_over q (keyAt root q) nid c j pops cnt hu h0 hrep] at hw
  simp only [Scan.found.injEq] at hw
  rw [hw]; exact ⟨rfl, rfl⟩

/-! ### loop beyond `repeat` -/

/-- `_goto_seg_match` on a loop whose first segment matches and whose count already equals a finite `repeat` -/
theorem gotoSegMatch_first_over {K : Consts} {s : SegData} {lid p u r : Nat} {w : Bool} {first : Node} {rest : List Node}
    (ip : List Nat) (key : PathKey) (st : WState) (hseg : first.isSeg = true) (hm : isMatch K first s = true)
    (hp : st.pending = []) (hu : u ≠ 2) (h0 : r ≠ 0) (hr : r ≤ st.cnt.get key) :
    gotoSegMatch K s ip key st (.loop lid p u r w (first :: rest)) =
      (some (ip ++ [0], [ip]),
        { cnt := enterCnt st.cnt key first.comp, pending := [], errs := st.errs ++ [(ErrKind.loopMaxCount, ip)] }) := by
  have hex : exceeds (((st.cnt.resetTo key).incr key).get key) r = true := by
    rw [get_incr_same, get_resetTo_self]; exact exceeds_true_of_le h0 (by omega)
  have hu' : (u == 2) = false := by simpa using hu
  simp only [gotoSegMatch, hseg, hm, Bool.and_self, ↓reduceIte, checkLoopUsage, hu', Bool.false_eq_true, hex]
  rw [flush_nil _ (by simpa using hp)]
  simp [enterCnt, hp]

/-- levels strictly below `L` on the path to the current node are passed when they are complete and the segment
    can enter none of their children -/
theorem dead_of_noHit {K : Consts} {root : List Node} {s : SegData} {cnt : Counter} {cur : List Nat}
    (hinv : Inv root cnt cur) {L : List Nat}
    (hcompl : ∀ p' i', L <+: p' → p' ≠ L → p' ++ [i'] <+: cur → Complete root cnt p' i')
    (hnh : ∀ p' i' ch', L <+: p' → p' ≠ L → p' ++ [i'] <+: cur → chAt root p' = some ch' →
      ∀ (j : Nat) (c : Node), ch'[j]? = some c → NoHit s (entry K c)) :
    ∀ p' i' ch', L <+: p' → p' ≠ L → p' ++ [i'] <+: cur → chAt root p' = some ch' →
      ∀ c ∈ ch', Passes K s cnt (keyAt root p') (posAt root (p' ++ [i'])) c := by
  intro p' i' ch' h1 h2 h3 hch' c hc
  obtain ⟨j, hj⟩ := getElem?_of_mem hc
  right
  refine ⟨hnh p' i' ch' h1 h2 h3 hch' j c hj, ?_⟩
  apply level_all_sat hinv h3 _ (hcompl p' i' h1 h2 h3) hch' hj
  intro p'' i'' h4 h5
  have h6 : L <+: p'' := List.IsPrefix.trans h1 (List.IsPrefix.trans (List.prefix_append _ _) h4)
  have h7 : p'' ≠ L := by
    intro e; subst e
    have l1 := List.IsPrefix.length_le h1
    have l2 := List.IsPrefix.length_le h4
    simp at l2; omega
  exact hcompl p'' i'' h6 h7 h5

/-- the local reading of `selfFollowOK`: below the loop `sub` nothing can be entered by a segment that hits the
    loop's own first-segment key -/
theorem local_follow_noHit {K : Consts} {s : SegData} {sub : List Node}
    (hloc : followList K [] (firstSegKey K sub) sub = true) {t : SKey} (hts : t ∈ firstSegKey K sub) (ht : hits s t)
    {i' : Nat} {rest' : List Nat} {chp : List Node} (hchp : chAt sub (i' :: rest') = some chp)
    {j : Nat} {c : Node} (hc : chp[j]? = some c) : NoHit s (entry K c) := by
  have hf := followList_chAt hloc hchp
  have hmem : t ∈ (laterFrom K [] (firstSegKey K sub) sub (i' :: rest')).1 := by
    simp only [chAt] at hchp
    simp only [laterFrom]
    split at hchp
    · rename_i lid pos u rep w sub2 heq
      simp only [heq]
      exact laterFrom_mono rest' (by simp [hts])
    · cases hchp
  exact noHit_of_noOverlap (followList_get hf hc).1 hmem ht

/-- entering the first-seg loop child `j` of `q`, whose count already equals a finite `repeat`, once the walk has
    got to level `q` -/
theorem step_loop_at_over {K : Consts} {root : List Node} (rootId : Nat) (h : MapOK K root) {s : SegData} {cnt : Counter}
    {cur : List Nat} (hinv : Inv root cnt cur) {q : List Nat} {j : Nat} (hr : ReadyOn root cnt cur q j)
    {ch : List Node} (hch : chAt root q = some ch) {lid pos u r : Nat} {w : Bool} {first : Node} {rest : List Node}
    (hc : ch[j]? = some (.loop lid pos u r w (first :: rest)))
    (hseg : first.isSeg = true) (hm : isMatch K first s = true) (hu : u ≠ 2)
    (h0 : r ≠ 0) (hrep : r ≤ cnt.get (keyAt root q ++ [(lid, 0)]))
    (hdead : ∀ p' i' ch', q <+: p' → p' ≠ q → p' ++ [i'] <+: cur → chAt root p' = some ch' →
      ∀ c ∈ ch', Passes K s cnt (keyAt root p') (posAt root (p' ++ [i'])) c) :
    (walk K root rootId cnt cur s).node = some (q ++ [j] ++ [0]) ∧
    (walk K root rootId cnt cur s).st =
      { cnt := enterCnt cnt (keyAt root q ++ [(lid, 0)]) first.comp, pending := [],
        errs := [(ErrKind.loopMaxCount, q ++ [j])] } := by
  have hr' := hr
  obtain ⟨i, hqi, hij, hmid, hdeep⟩ := hr
  have hte : ∃ t, t ∈ entry K (.loop lid pos u r w (first :: rest)) ∧ hits s t := by
    rw [entry_loop_first hseg]
    cases first with
    | loop => simp [Node.isSeg] at hseg
    | seg a b c d e f g =>
      exact ⟨(a, segSKey K a g), by simp [entry], isMatch_hits K _ s hm (a, segSKey K a g) (by simp [nodeSKey])⟩
  obtain ⟨t, hte, ht⟩ := hte
  obtain ⟨loopNode, nid, oL, pops, _, hfound⟩ := reach_level (K := K) (rootId := rootId) (s := s) hinv hqi hdead hch hc
    (pre_passes h hinv hr' hch hc hte ht _)
  obtain ⟨ch0, hch0, hl⟩ := hinv.lev q i hqi
  rw [hch] at hch0; simp only [Option.some.injEq] at hch0; subst hch0
  obtain ⟨ci, hci⟩ := hl.idx
  have hwf := wfAt_chAt (wfAt_root h.wf) hch
  have hpos : ¬ (Node.loop lid pos u r w (first :: rest)).pos < posAt root (q ++ [i]) := by
    have := posSorted_le hwf.pos hci hc hij
    simp only [posAt, nodeAt_snoc hch, hci]; omega
  have hres := scan_hit_loop (K := K) (s := s) q (keyAt root q) loopNode nid oL (posAt root (q ++ [i])) pops
    { cnt := cnt, pending := [], errs := [] } _ (.loop lid pos u r w (first :: rest)) (ch.drop (j + 1)) j _ _ hpos rfl
    (isLoopMatch_first _ _ _ hseg hm)
    (gotoSegMatch_first_over (q ++ [j]) _ { cnt := cnt, pending := [], errs := [] } hseg hm rfl hu h0 hrep)
  rw [hfound _ hres]; exact ⟨rfl, rfl⟩

/-- **faulty step, loop beyond `repeat`**: the count of the first-seg loop child `j` of the loop at `q` already equals
    its finite `repeat`; one more instance is entered all the same (first segment answered, counters reset and
    counted as for a regular repeat) and draws exactly `loopMaxCount` at the loop node -/
theorem step_loop_over {K : Consts} {root : List Node} (rootId : Nat) (h : MapOK K root) {s : SegData} {cnt : Counter}
    {cur : List Nat} (hinv : Inv root cnt cur) {q : List Nat} {j : Nat} (hr : ReadyOn root cnt cur q j)
    {ch : List Node} (hch : chAt root q = some ch) {lid pos u r : Nat} {w : Bool} {first : Node} {rest : List Node}
    (hc : ch[j]? = some (.loop lid pos u r w (first :: rest)))
    (hseg : first.isSeg = true) (hm : isMatch K first s = true) (hu : u ≠ 2)
    (h0 : r ≠ 0) (hrep : r ≤ cnt.get (keyAt root q ++ [(lid, 0)]))
    (hsf : selfFollowOK K (.loop lid pos u r w (first :: rest)) = true) :
    (walk K root rootId cnt cur s).node = some (q ++ [j] ++ [0]) ∧
    (walk K root rootId cnt cur s).st =
      { cnt := enterCnt cnt (keyAt root q ++ [(lid, 0)]) first.comp, pending := [],
        errs := [(ErrKind.loopMaxCount, q ++ [j])] } := by
  have hr' := hr
  obtain ⟨i, hqi, hij, hmid, hdeep⟩ := hr
  have hte : ∃ t, t ∈ entry K first ∧ hits s t := by
    cases first with
    | loop => simp [Node.isSeg] at hseg
    | seg a b c d e f g =>
      exact ⟨(a, segSKey K a g), by simp [entry], isMatch_hits K _ s hm (a, segSKey K a g) (by simp [nodeSKey])⟩
  obtain ⟨t, hte1, ht⟩ := hte
  have hte : t ∈ entry K (.loop lid pos u r w (first :: rest)) := by rw [entry_loop_first hseg]; exact hte1
  have hts : t ∈ firstSegKey K (first :: rest) := by
    cases first with
    | loop => simp [Node.isSeg] at hseg
    | seg a b c d e f g => simpa [firstSegKey, entry, nodeSKey] using hte1
  obtain ⟨ch0, hch0, hl⟩ := hinv.lev q i hqi
  rw [hch] at hch0; simp only [Option.some.injEq] at hch0; subst hch0
  -- the walk is inside the previous instance
  have hij' : i = j := by
    rcases Nat.lt_or_ge i j with hlt | hge
    · have hz := hl.later j _ hlt hc _ (List.prefix_refl _)
      simp only [Node.comp] at hz
      omega
    · omega
  subst hij'
  have hne : q ++ [i] ≠ cur := by
    intro e
    obtain ⟨nd, hnd, hns⟩ := hinv.seg
    rw [← e, nodeAt_snoc hch, hc] at hnd
    simp only [Option.some.injEq] at hnd; subst hnd; simp [Node.isSeg] at hns
  obtain ⟨i', hi'⟩ := prefix_extend hqi hne
  obtain ⟨sub, hsub, hlA⟩ := hinv.lev (q ++ [i]) i' hi'
  have hsub' : chAt root (q ++ [i]) = some (first :: rest) := by rw [chAt_snoc hch, hc]
  rw [hsub'] at hsub; simp only [Option.some.injEq] at hsub; subst hsub
  have hkey : keyAt root (q ++ [i]) = keyAt root q ++ [(lid, 0)] := keyAt_snoc hch hc
  -- levels strictly below the previous instance
  have hdeadA : ∀ p' i'' ch', q ++ [i] <+: p' → p' ≠ q ++ [i] → p' ++ [i''] <+: cur → chAt root p' = some ch' →
      ∀ c ∈ ch', Passes K s cnt (keyAt root p') (posAt root (p' ++ [i''])) c := by
    apply dead_of_noHit hinv (fun p' i'' h1 _ h3 => hdeep p' i'' h1 h3)
    intro p' i'' ch' h1 h2 h3 hch' jc c hjc
    have hp'cur : p' <+: cur := List.IsPrefix.trans (List.prefix_append _ _) h3
    have hlen1 := List.IsPrefix.length_le h1
    have hlenne : (q ++ [i]).length ≠ p'.length := fun e => h2 (prefix_eq_of_length h1 e).symm
    have hAp : q ++ [i] ++ [i'] <+: p' := prefix_of_longer hi' hp'cur (by simp at hlen1 hlenne ⊢; omega)
    obtain ⟨rest', hrest'⟩ := hAp
    by_cases hr1 : r = 1
    · -- `repeat = 1`: the check `Unambiguous` skips is supplied by `selfFollowOK`
      have hloc : followList K [] (firstSegKey K (first :: rest)) (first :: rest) = true := by
        simpa [selfFollowOK, hr1] using hsf
      have hchp : chAt (first :: rest) (i' :: rest') = some ch' := by
        have := hch'
        rw [← hrest', List.append_assoc, chAt_append, hsub'] at this
        simpa using this
      exact local_follow_noHit hloc hts ht hchp hjc
    · have hself : t ∈ selfKeys K r (first :: rest) := by
        have : (firstIsSeg (first :: rest) && r != 1) = true := by simp [firstIsSeg, hseg, hr1]
        simp only [selfKeys, this, ↓reduceIte]
        exact hts
      obtain ⟨sub', hsub''⟩ : ∃ sub', chAt root (q ++ [i] ++ [i']) = some sub' :=
        chAt_prefix hch' ⟨rest', hrest'⟩
      refine follow_noHit h hch' hjc ?_ ht
      rw [← hrest']
      exact laterFrom_self hch hc i' rest' hsub'' hself
  by_cases hfp : first.pos < posAt root (q ++ [i] ++ [i'])
  · -- the first segment lies before the current position: the scan of the instance ends, the parent re-enters it
    apply step_loop_at_over rootId h hinv hr' hch hc hseg hm hu h0 hrep
    intro p' i'' ch' h1 h2 h3 h4 c hcm
    have hp'cur : p' <+: cur := List.IsPrefix.trans (List.prefix_append _ _) h3
    have hlen1 := List.IsPrefix.length_le h1
    have hlenne : q.length ≠ p'.length := fun e => h2 (prefix_eq_of_length h1 e).symm
    have hAp : q ++ [i] <+: p' := prefix_of_longer hqi hp'cur (by simp; omega)
    by_cases hpA : p' = q ++ [i]
    · subst hpA
      rw [hsub'] at h4; simp only [Option.some.injEq] at h4; subst h4
      have hii : i'' = i' := path_idx_unique h3 hi'
      subst hii
      obtain ⟨jc, hjc⟩ := getElem?_of_mem hcm
      cases jc with
      | zero => simp at hjc; subst hjc; left; exact hfp
      | succ n =>
        right
        have hf0 : (first :: rest)[0]? = some first := by simp
        refine ⟨sib_noHit (uAt_chAt (uAt_root h.un) hsub').sib hjc hf0 (by omega) hte1 ht, ?_⟩
        exact level_all_sat hinv h3 (fun p'' i3 h5 h6 => hdeep p'' i3 (List.IsPrefix.trans (List.prefix_append _ _) h5) h6)
          (hdeep _ _ (List.prefix_refl _) h3) hsub' hjc
    · exact hdeadA p' i'' ch' hAp hpA h3 h4 c hcm
  · -- the first segment is met again inside the instance
    obtain ⟨loopNode, nid, oL, pops, hln, hfound⟩ := reach_level (K := K) (rootId := rootId) (s := s) hinv hi' hdeadA
      hsub' (j := 0) (c := first) (by simp) (by intro j' c' hj'; omega)
    rcases hln with ⟨hnil, _⟩ | ⟨P0, a, ln, _, hn, hnode, _, _⟩
    · simp at hnil
    · rw [nodeAt_snoc hch, hc] at hnode
      simp only [Option.some.injEq] at hnode
      subst hn; subst hnode
      obtain ⟨pops', pushes', hres⟩ := scan_hit_repeat (K := K) (s := s) (q ++ [i]) (keyAt root (q ++ [i]))
        (.loop lid pos u r w (first :: rest)) nid oL (posAt root (q ++ [i] ++ [i'])) pops
        { cnt := cnt, pending := [], errs := [] } _ first (List.drop (0 + 1) (first :: rest)) 0 _ _ hfp hseg hm
        (isLoopMatch_first _ _ _ hseg hm)
        (gotoSegMatch_first_over (q ++ [i]) _ { cnt := cnt, pending := [], errs := [] } hseg hm rfl hu h0
          (by rw [hkey]; exact hrep))
      rw [hfound _ hres, hkey]; exact ⟨rfl, rfl⟩

end Pyx12Verif.WalkerGen
