/-
`ctxDoc_total_full`, part 5: the glue part of one round of `ctxDoc` (`cStepSeg`) hands the tree part an answer of one of the
three shapes of Proofs/CtxFullTree.lean, relative to the loop of the PREVIOUS map node — for every segment, every state:

  ISA pinned                       `IsaLike`
  GS pinned, made-up lists         `GsLike`
  walked and found                 `Regular` (`walk_facts2`: no hypothesis on counters, errors, conformance)
  walked / pinned and NOT found    `Regular` with nothing popped or pushed (the previous node once more, `walk_none_lists`)
  BHT with the 278 map switch      `Regular`: the new node has the same loop path and is a first child as well (`bht_node`)
-/
import Pyx12Verif.Proofs.CtxFullDefs

namespace Pyx12Verif.Doc
open Pyx12Verif

def NodeOK (ms : Maps) (n : NodeRef) : Prop := n.map ∈ ms.maps ∧ CtxWalk.SegAt n.map.root n.ip

/-- the loop path of a map node (`[]` for None) -/
def WofN : Option NodeRef → Ctx.LPath
  | some n => cxPath n.map.root n.ip.dropLast
  | none => []

/-- the loop path of `self.x12_map_node` -/
def Wof (st : CState) : Ctx.LPath := WofN st.node

/-- the id names a wrapper loop of the map of the previous node (the map that is walked) -/
def WrapOld (n0 : Option NodeRef) (x : Nat) : Prop := ∃ o, n0 = some o ∧ CtxWalk.WrapIn o.map.root x

/-- the new node lies in the map of the previous one, or on the envelope path ISA_LOOP/GS_LOOP/ST_LOOP/HEADER (the rounds
    that can change the map: ISA, GS, the 278 switch at BHT) -/
def SameOrEnv (ms : Maps) (n0 : Option NodeRef) (n : NodeRef) (path : Ctx.LPath) : Prop :=
  (∃ o, n0 = some o ∧ n.map = o.map) ∨ path <+: bhtLoopPath ms

def CurMapIn (ms : Maps) (st : CState) : Prop := ∀ m, st.curMap = some m → m ∈ ms.maps

def GInv (ms : Maps) (st : CState) : Prop := (∀ n, st.node = some n → NodeOK ms n) ∧ CurMapIn ms st

def BranchPost (ms : Maps) (n0 : Option NodeRef) (si : Ctx.SegInfo) : CBranch → Prop
  | .stop _ => True
  | .go st n pops pushes =>
    NodeOK ms n ∧ CurMapIn ms st ∧ Ctx.AnsShape (WrapOld n0) (WofN n0) (answerAt n si pops pushes) ∧
      SameOrEnv ms n0 n (cxPath n.map.root n.ip.dropLast)

def StepPost (ms : Maps) (n0 : Option NodeRef) : CStep → Prop
  | .stop _ => True
  | .next st r =>
    GInv ms st ∧
    (∃ n, st.node = some n ∧ r.ans.path = cxPath n.map.root n.ip.dropLast ∧ r.ans.first = (n.ip.getLast? == some 0) ∧
      SameOrEnv ms n0 n r.ans.path) ∧
    Ctx.AnsShape (WrapOld n0) (WofN n0) r.ans

theorem gs_env (ms : Maps) : gsLoopPath ms <+: bhtLoopPath ms := ⟨[ms.ids.stLoop, ms.ids.header], rfl⟩
theorem isa_env (ms : Maps) : isaLoopPath ms <+: bhtLoopPath ms := ⟨[ms.ids.gsLoop, ms.ids.stLoop, ms.ids.header], rfl⟩

/-! ### shapes -/

theorem regular_mono {w1 w2 : Nat → Prop} (h : ∀ x, w1 x → w2 x) {W : Ctx.LPath} {a : Ctx.Answer} {j : Nat} {ids : List Nat}
    (hr : Ctx.Regular w1 W a j ids) : Ctx.Regular w2 W a j ids :=
  ⟨hr.pops, hr.pushes, hr.path, hr.first, fun x hx => h x (hr.wrap x hx)⟩

/-- the shapes read the path, the first flag and the two lists only -/
theorem ansShape_congr {w : Nat → Prop} {W : Ctx.LPath} {a b : Ctx.Answer} (h1 : a.path = b.path) (h2 : a.first = b.first)
    (h3 : a.pops = b.pops) (h4 : a.pushes = b.pushes) (h : Ctx.AnsShape w W a) : Ctx.AnsShape w W b := by
  cases h with
  | reg j ids hr =>
    exact .reg j ids ⟨by rw [← h3]; exact hr.pops, by rw [← h4]; exact hr.pushes, by rw [← h1]; exact hr.path,
      fun hne => by rw [← h2]; exact hr.first hne, hr.wrap⟩
  | gs hg =>
    obtain ⟨x, y, g1, g2, g3, g4⟩ := hg
    exact .gs ⟨x, y, by rw [← h1]; exact g1, by rw [← h2]; exact g2, by rw [← h4]; exact g3, by rw [← h3]; exact g4⟩
  | isa hi =>
    obtain ⟨x, g1, g2, g3, g4⟩ := hi
    exact .isa ⟨x, by rw [← h1]; exact g1, by rw [← h2]; exact g2, by rw [← h3]; exact g3, by rw [← h4]; exact g4⟩

/-- the previous node once more, nothing popped, nothing pushed -/
theorem shape_again (o : NodeRef) (si : Ctx.SegInfo) :
    Ctx.AnsShape (WrapOld (some o)) (cxPath o.map.root o.ip.dropLast) (answerAt o si [] []) := by
  have h := CtxWalk.regular_notfound (WrapOld (some o)) o.map.root o.ip si
  have e : answerAt o si [] [] = CtxWalk.answerOf o.map.root si o.ip [] [] := by
    have := answerAt_eq o.map o.ip si [] []
    simpa [cxPops, cxPushes] using this
  rw [e, cxPath_eq]
  exact .reg 0 [] h

theorem idAt_last {root : List MapSkel.Node} {L : List Nat} (h : CtxWalk.LoopAt root L) :
    (CtxWalk.lpathAt root L).getLast? = some (Walker.idAt root L) := by
  obtain ⟨p0, a, ch, lid, pos, u, r, w, sub, rfl, h1, h2, _⟩ := h.split
  rw [CtxWalk.lpathAt_getLast h1 h2]
  have hn : Walker.nodeAt root (p0 ++ [a]) = some (.loop lid pos u r w sub) := by rw [WalkerGen.nodeAt_snoc h1]; exact h2
  rw [CtxWalk.idAt_of_nodeAt (by simp) hn]

/-! ### the branches -/

theorem cAfterBranch_post (ms : Maps) (n0 : Option NodeRef) (si : Ctx.SegInfo) (we : List Str) (re : List RdErr) (b : CBranch)
    (hb : BranchPost ms n0 si b) : StepPost ms n0 (cAfterBranch ms si we re b) := by
  cases b with
  | stop o => trivial
  | go st n pops pushes =>
    obtain ⟨h1, h2, h3, h4⟩ := hb
    refine ⟨⟨?_, h2⟩, ⟨n, rfl, rfl, rfl, h4⟩, h3⟩
    intro n' hn'
    simp only [Option.some.injEq] at hn'
    rw [← hn']; exact h1

theorem cWithNewMap_post (ms : Maps) {P : CBranch → Prop} (hstop : ∀ o, P (.stop o)) (st : CState) (file : Option Str)
    (k : CState → MapX → CBranch)
    (hk : ∀ m f, m ∈ ms.maps →
      P (k { st with mapFile := some f, curMap := some m, rs := { st.rs with chk837 := m.is837 } } m)) :
    P (cWithNewMap ms st file k) := by
  unfold cWithNewMap
  cases file with
  | none => exact hstop _
  | some f =>
    simp only
    cases hf : findMap ms f with
    | none => exact hstop _
    | some m => exact hk m f (findMap_mem hf)

theorem cGsTail_post {ms : Maps} (hmg : MapsGood ms) {o : NodeRef} (ho : NodeOK ms o) {st : CState} (hcm : CurMapIn ms st)
    {m : MapX} (hm : m ∈ ms.maps) (si : Ctx.SegInfo) :
    BranchPost ms (some o) si (cGsTail ms o st m) := by
  unfold cGsTail
  cases hf : fetchIn ms m (gsPath ms) with
  | none => trivial
  | some n =>
    obtain ⟨hmap, hseg, hlast, hpath⟩ := pinOK_spec (mapGood_of_bool (hmg m hm)).gs hf
    refine ⟨⟨by rw [hmap]; exact hm, by rw [hmap]; exact hseg⟩, hcm, .gs ⟨ms.ids.isaLoop, ms.ids.gsLoop, ?_, ?_, ?_, ?_⟩,
      Or.inr (by rw [hmap, hpath]; exact gs_env ms)⟩
    · simp only [answerAt, hmap, hpath]; rfl
    · simp [answerAt, hlast]
    · simp only [answerAt, List.map_cons, List.map_nil, hmap, hpath]; rfl
    · simp only [answerAt, gsPops]
      split
      · rename_i hid
        right
        refine ⟨rfl, ?_⟩
        have hs := (mapGood_of_bool (hmg o.map ho.1)).static
        show (cxPath o.map.root o.ip.dropLast).getLast? = _
        rw [cxPath_eq, idAt_last (CtxWalk.segAt_loopAt hs ho.2)]
        simpa using hid
      · left; rfl

theorem cGsBranch_post {ms : Maps} (hmg : MapsGood ms) (d : Delims) (s : Seg) {o : NodeRef} (ho : NodeOK ms o) {st : CState}
    (hcm : CurMapIn ms st) (si : Ctx.SegInfo) :
    BranchPost ms (some o) si (cGsBranch ms d s o st) := by
  unfold cGsBranch
  split
  · apply cWithNewMap_post ms (fun _ => trivial)
    intro m f hm
    unfold cGsReload
    apply cGsTail_post hmg ho _ hm
    intro m' hm'
    simp only [Option.some.injEq] at hm'
    rw [← hm']; exact hm
  · cases hc : st.curMap with
    | none => trivial
    | some m =>
      simp only
      refine cGsTail_post hmg ho ?_ (hcm m hc) si
      intro m' hm'
      simp only [Option.some.injEq] at hm'
      rw [← hm']; exact hcm m hc

/-- BHT: the node stays, or (278, other map) becomes the BHT node of the newly selected map; in both cases its loop is
    ISA_LOOP/GS_LOOP/ST_LOOP/HEADER and it is the first child -/
theorem cBhtBranch_post {ms : Maps} (hmg : MapsGood ms) (d : Delims) (s : Seg) {st : CState} (hcm : CurMapIn ms st)
    {n : NodeRef} (hn : NodeOK ms n) (n0 : Option NodeRef) (si : Ctx.SegInfo) (pops : List Ctx.LPath)
    (pushes : List (Ctx.LPath × Nat)) (hsh : Ctx.AnsShape (WrapOld n0) (WofN n0) (answerAt n si pops pushes))
    (hb1 : n.ip.getLast? = some 0) (hb2 : cxPath n.map.root n.ip.dropLast = bhtLoopPath ms) :
    BranchPost ms n0 si (cBhtBranch ms d s st n pops pushes) := by
  unfold cBhtBranch
  split
  · split
    · apply cWithNewMap_post ms (fun _ => trivial)
      intro m f hm
      unfold cBhtSwitch
      cases hf : fetchIn ms m (bhtPath ms) with
      | none => trivial
      | some n' =>
        obtain ⟨hmap, hseg, hlast, hpath⟩ := pinOK_spec (mapGood_of_bool (hmg m hm)).bht hf
        refine ⟨⟨by rw [hmap]; exact hm, by rw [hmap]; exact hseg⟩, ?_, ?_,
          Or.inr (by rw [hmap, hpath]; exact List.prefix_refl _)⟩
        · intro m' hm'
          simp only [Option.some.injEq] at hm'
          rw [← hm']; exact hm
        · refine ansShape_congr (a := answerAt n si pops pushes) ?_ ?_ rfl rfl hsh
          · simp only [answerAt, hb2, hmap, hpath]
          · simp only [answerAt, hb1, hlast]
    · exact ⟨hn, hcm, hsh, Or.inr (by rw [hb2]; exact List.prefix_refl _)⟩
  · exact ⟨hn, hcm, hsh, Or.inr (by rw [hb2]; exact List.prefix_refl _)⟩

/-! ### after the node search -/

theorem idISA_ne_idGS : Envelope.idISA ≠ Envelope.idGS := by decide

/-- "no node": the previous node is used again -/
theorem cAfterFind_none {ms : Maps} (d : Delims) (s : Seg) (si : Ctx.SegInfo) (re : List RdErr) {st : CState}
    (hG : GInv ms st) (cnt : Walker.Counter) (we : List Str) :
    StepPost ms st.node (cAfterFind ms d s si re st (.res none [] [] cnt we)) := by
  simp only [cAfterFind]
  cases hnode : st.node with
  | none => trivial
  | some o =>
    simp only
    refine ⟨⟨?_, hG.2⟩, ⟨o, rfl, rfl, rfl, Or.inl ⟨o, rfl, rfl⟩⟩, ?_⟩
    · intro n hn; exact hG.1 n (hnode.trans hn)
    · exact shape_again o si

/-- **the glue part of a round**: node search and per-segment-kind branch -/
theorem cFind_post {ms : Maps} (hmg : MapsGood ms) {control : MapX} (hctl : control ∈ ms.maps) (d : Delims) (s : Seg)
    (si : Ctx.SegInfo) (re : List RdErr) {st : CState} (hG : GInv ms st) :
    StepPost ms st.node (cAfterFind ms d s si re st (cFind ms control d s st)) := by
  unfold cFind
  by_cases hisa : s.id = Envelope.idISA
  · -- ISA
    simp only [hisa, if_true]
    cases hf : fetchIn ms control (isaPath ms) with
    | none => exact cAfterFind_none d s si re hG _ _
    | some n =>
      obtain ⟨hmap, hseg, hlast, hpath⟩ := pinOK_spec (mapGood_of_bool (hmg control hctl)).isa hf
      simp only [cAfterFind, cBranch, hisa, if_true]
      apply cAfterBranch_post
      refine ⟨⟨by rw [hmap]; exact hctl, by rw [hmap]; exact hseg⟩, hG.2, .isa ⟨ms.ids.isaLoop, ?_, ?_, rfl, rfl⟩,
        Or.inr (by rw [hmap, hpath]; exact isa_env ms)⟩
      · simp only [answerAt, hmap, hpath]; rfl
      · simp [answerAt, hlast]
  · simp only [hisa, if_false]
    by_cases hgs : s.id = Envelope.idGS
    · -- GS
      simp only [hgs, if_true]
      cases hf : fetchIn ms control (gsPath ms) with
      | none => exact cAfterFind_none d s si re hG _ _
      | some n0 =>
        have h1 : ¬ Envelope.idGS = Envelope.idISA := fun e => idISA_ne_idGS e.symm
        simp only [cAfterFind, cBranch, hgs, h1, if_true, if_false]
        cases hnode : st.node with
        | none => trivial
        | some o =>
          simp only
          apply cAfterBranch_post
          refine cGsBranch_post hmg d s (hG.1 o hnode) ?_ si
          exact hG.2
    · -- any other segment: the walker
      simp only [hgs, if_false]
      cases hnode : st.node with
      | none => trivial
      | some cur =>
        simp only [cWalk, cFoundOf]
        have hcur := hG.1 cur hnode
        have hgood := mapGood_of_bool (hmg cur.map hcur.1)
        have hW : WofN (some cur) = CtxWalk.lpathAt cur.map.root cur.ip.dropLast := by simp [WofN, cxPath_eq]
        cases hres : (Walker.walk ms.consts cur.map.root cur.map.rootId st.cnt cur.ip (segData ms cur.map d s)).node with
        | none =>
          obtain ⟨hp, hq⟩ := CtxWalk.walk_none_lists st.cnt cur.ip (segData ms cur.map d s) hres
            (K := ms.consts) (root := cur.map.root) (rootId := cur.map.rootId)
          simp only [cNodeOf, hp, hq, cxPops, cxPushes, List.map_nil]
          have := cAfterFind_none d s si re hG
            (Walker.walk ms.consts cur.map.root cur.map.rootId st.cnt cur.ip (segData ms cur.map d s)).st.cnt
            (List.map werrCode (Walker.walk ms.consts cur.map.root cur.map.rootId st.cnt cur.ip (segData ms cur.map d s)).st.errs)
          rw [hnode] at this
          exact this
        | some ip =>
          have hf := CtxWalk.walk_facts2 hgood.static hcur.2 st.cnt hres
          obtain ⟨j, ids, hreg⟩ := CtxWalk.regular_of_facts hf si
          have hn : NodeOK ms ⟨cur.map, ip⟩ := ⟨hcur.1, CtxWalk.segAt_of_facts hf⟩
          have hsh : Ctx.AnsShape (WrapOld (some cur)) (WofN (some cur)) (answerAt ⟨cur.map, ip⟩ si
              (cxPops cur.map.root (Walker.walk ms.consts cur.map.root cur.map.rootId st.cnt cur.ip (segData ms cur.map d s)).pops)
              (cxPushes cur.map.root (Walker.walk ms.consts cur.map.root cur.map.rootId st.cnt cur.ip (segData ms cur.map d s)).pushes)) := by
            rw [answerAt_eq, hW]
            exact .reg j ids (regular_mono (fun x hx => ⟨cur, rfl, hx⟩) hreg)
          simp only [cNodeOf, cAfterFind, cBranch, hisa, hgs, if_false]
          apply cAfterBranch_post
          have hcm : CurMapIn ms { st with cnt := (Walker.walk ms.consts cur.map.root cur.map.rootId st.cnt cur.ip (segData ms cur.map d s)).st.cnt } := hG.2
          by_cases hb : s.id = sBHT
          · simp only [hb, if_true]
            obtain ⟨hb1, hb2⟩ := bht_node hgood hcur.2 st.cnt d s hb hres
            exact cBhtBranch_post hmg d s hcm hn (some cur) si _ _ hsh hb1 hb2
          · simp only [hb, if_false]
            exact ⟨hn, hcm, hsh, Or.inl ⟨cur, rfl, rfl⟩⟩

/-- one round of the glue, from the segment text on -/
theorem cStepSeg_post {ms : Maps} (hmg : MapsGood ms) {control : MapX} (hctl : control ∈ ms.maps) (d : Delims) (k : Nat)
    (le : List SegText.RErr) (s : Seg) {st : CState} (hG : GInv ms st) :
    StepPost ms st.node (cStepSeg ms control d k le s st) := by
  unfold cStepSeg
  cases Pipeline.viewOf d s with
  | none => trivial
  | some v =>
    simp only [cWithView]
    cases Envelope.step Envelope.Fixes.all st.rs v with
    | crash e => trivial
    | raised => trivial
    | ok r =>
      simp only [cAfterReader]
      have hG' : GInv ms { st with rs := r.1 } := hG
      exact cFind_post hmg hctl d s _ _ hG'

end Pyx12Verif.Doc
