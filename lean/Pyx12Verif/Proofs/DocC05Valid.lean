/-
C05 at pipeline level, document side (1): `node.is_valid(seg, errh)` — its Boolean result against what it reports.

  `segEvents_sound`   result True ⇒ no `ele_error` was called (every definition, every segment);
                      and every `ele_error` comes after an `add_ele` of the same call when the syntax notes of the
                      definition name element positions of the segment (`NotesInRange`);
  `segEvents_compl`   no `ele_error` ⇒ result True, when the qualifier-selected format lists (`type_list` built from the
                      codes of the data-element-1250 children, `dtype` from DTP02) name a supported date/time format
                      (`SegTlOk`; C15 `result_false_iff_error` has the same side condition: otherwise `is_valid` answers
                      False without reporting anything).
-/
import Pyx12Verif.Proofs.DocCheck
import Pyx12Verif.Proofs.DocSharpRun
import Pyx12Verif.Proofs.DocC05Fresh

namespace Pyx12Verif.Doc
open Pyx12Verif ElemValid DocC05

def NoEle (evs : List Event) : Prop := ∀ e ∈ evs, evEleError e = false
def Headed (evs : List Event) : Prop := eleFresh false evs = true

def ERes.P (Q : Bool → List Event → Prop) (r : ERes) : Prop := ∀ v evs, r = .ok v evs → Q v evs

/-- sound: True ⇒ nothing reported; and fresh -/
def QS (v : Bool) (evs : List Event) : Prop := (v = true → NoEle evs) ∧ Headed evs
/-- complete: nothing reported ⇒ True -/
def QC (v : Bool) (evs : List Event) : Prop := NoEle evs → v = true

theorem NoEle.append {a b : List Event} (ha : NoEle a) (hb : NoEle b) : NoEle (a ++ b) := by
  intro e he
  rcases List.mem_append.1 he with h | h
  · exact ha e h
  · exact hb e h

theorem NoEle.left {a b : List Event} (h : NoEle (a ++ b)) : NoEle a := fun e he => h e (List.mem_append_left _ he)
theorem NoEle.right {a b : List Event} (h : NoEle (a ++ b)) : NoEle b := fun e he => h e (List.mem_append_right _ he)
theorem NoEle.nil : NoEle [] := by intro e he; cases he

theorem Headed.append {a b : List Event} (ha : Headed a) (hb : Headed b) : Headed (a ++ b) :=
  eleFresh_append_of a b false ha hb

theorem Headed.nil : Headed [] := rfl

theorem P_andThen (Q : Bool → List Event → Prop)
    (hQ : ∀ va ea vb eb, Q va ea → Q vb eb → Q (va && vb) (ea ++ eb)) {a b : ERes} (ha : a.P Q) (hb : b.P Q) :
    (a.andThen b).P Q := by
  intro v evs h
  cases a with
  | crash s => cases h
  | ok va ea =>
    cases b with
    | crash s => cases h
    | ok vb eb =>
      simp only [ERes.andThen, ERes.ok.injEq] at h
      obtain ⟨rfl, rfl⟩ := h
      exact hQ va ea vb eb (ha va ea rfl) (hb vb eb rfl)

theorem QS_append (va : Bool) (ea : List Event) (vb : Bool) (eb : List Event) (ha : QS va ea) (hb : QS vb eb) :
    QS (va && vb) (ea ++ eb) := by
  refine ⟨?_, ha.2.append hb.2⟩
  intro h
  simp only [Bool.and_eq_true] at h
  exact (ha.1 h.1).append (hb.1 h.2)

theorem QC_append (va : Bool) (ea : List Event) (vb : Bool) (eb : List Event) (ha : QC va ea) (hb : QC vb eb) :
    QC (va && vb) (ea ++ eb) := by
  intro h
  simp only [Bool.and_eq_true]
  exact ⟨ha h.left, hb h.right⟩

theorem S_andThen {a b : ERes} (ha : a.P QS) (hb : b.P QS) : (a.andThen b).P QS := P_andThen QS QS_append ha hb
theorem C_andThen {a b : ERes} (ha : a.P QC) (hb : b.P QC) : (a.andThen b).P QC := P_andThen QC QC_append ha hb

theorem P_ok (Q : Bool → List Event → Prop) (v : Bool) (evs : List Event) (h : Q v evs) : (ERes.ok v evs).P Q := by
  intro v' evs' e
  simp only [ERes.ok.injEq] at e
  obtain ⟨rfl, rfl⟩ := e
  exact h

theorem P_crash (Q : Bool → List Event → Prop) (s : Site) : (ERes.crash s).P Q := by
  intro v evs e; cases e

theorem QS_true_nil : QS true [] := ⟨fun _ => NoEle.nil, Headed.nil⟩
theorem QC_true_nil : QC true [] := fun _ => rfl

/-! ### element_if.is_valid -/

theorem eleFresh_reports : ∀ (l : List Report), eleFresh true (l.map Report.event) = true := by
  intro l
  induction l with
  | nil => rfl
  | cons r rs ih =>
    simp only [List.map_cons, eleFresh, Report.event, Bool.or_true, Bool.true_and]
    exact ih

theorem elemEvents_S (ctx : Ctx) (v5 : Bool) (pos : Nat) (sub : Option Nat) (e : ElemX) (tl : List Str) (i : EIn) :
    (elemEvents ctx v5 pos sub e tl i).P QS := by
  unfold elemEvents
  split
  · exact P_crash _ _
  · apply P_ok
    refine ⟨?_, ?_⟩
    · intro hv
      have hc : (elemValidIn (defWith e tl) (elemCtx ctx v5 e i.value) i.toInput).2 = [] := by
        cases hh : (elemValidIn (defWith e tl) (elemCtx ctx v5 e i.value) i.toInput).2 with
        | nil => rfl
        | cons a r =>
          have := error_imp_false (defWith e tl) (elemCtx ctx v5 e i.value) i.toInput (by rw [hh]; simp)
          rw [this] at hv; cases hv
      rw [elemReports_nil e _ _ i hc]
      intro x hx
      simp only [List.map_nil, List.mem_singleton] at hx
      subst hx; rfl
    · show eleFresh false (_ :: _) = true
      simp only [eleFresh, evEleError, Bool.not_false, Bool.true_or, Bool.true_and]
      exact eleFresh_reports _

theorem elemEvents_C (ctx : Ctx) (v5 : Bool) (pos : Nat) (sub : Option Nat) (e : ElemX) (tl : List Str) (i : EIn)
    (htl : tlOkB tl = true) : (elemEvents ctx v5 pos sub e tl i).P QC := by
  unfold elemEvents
  split
  · exact P_crash _ _
  · apply P_ok
    intro hn
    have hr : elemReports e (defWith e tl) (elemCtx ctx v5 e i.value) i = [] := by
      cases hh : elemReports e (defWith e tl) (elemCtx ctx v5 e i.value) i with
      | nil => rfl
      | cons a r =>
        have := hn (Report.event a) (by rw [hh]; simp)
        cases this
    have hcodes := elemReports_codes e (defWith e tl) (elemCtx ctx v5 e i.value) i
    rw [hr] at hcodes
    have hc : (elemValidIn (defWith e tl) (elemCtx ctx v5 e i.value) i.toInput).2 = [] := by
      simpa using hcodes.symm
    have := result_false_iff_error (defWith e tl) (elemCtx ctx v5 e i.value) i.toInput (tlOk_wf e tl htl)
    cases hv : (elemValidIn (defWith e tl) (elemCtx ctx v5 e i.value) i.toInput).1 with
    | true => rfl
    | false => exact absurd hc (this.1 hv)

theorem tlOk_nil : tlOkB [] = true := rfl

/-! ### composite_if.is_valid -/

theorem kidsEvents_S (ctx : Ctx) (v5 : Bool) (pos : Nat) : ∀ (ks : List ElemX) (vs : List Str),
    (kidsEvents ctx v5 pos ks vs).P QS := by
  intro ks
  induction ks with
  | nil => intro vs; simp only [kidsEvents]; exact P_ok _ _ _ QS_true_nil
  | cons k ks ih =>
    intro vs
    cases vs with
    | nil => simp only [kidsEvents]; exact S_andThen (elemEvents_S _ _ _ _ _ _ _) (ih [])
    | cons v vs => simp only [kidsEvents]; exact S_andThen (elemEvents_S _ _ _ _ _ _ _) (ih vs)

theorem kidsEvents_C (ctx : Ctx) (v5 : Bool) (pos : Nat) : ∀ (ks : List ElemX) (vs : List Str),
    (kidsEvents ctx v5 pos ks vs).P QC := by
  intro ks
  induction ks with
  | nil => intro vs; simp only [kidsEvents]; exact P_ok _ _ _ QC_true_nil
  | cons k ks ih =>
    intro vs
    cases vs with
    | nil => simp only [kidsEvents]; exact C_andThen (elemEvents_C _ _ _ _ _ _ _ tlOk_nil) (ih [])
    | cons v vs => simp only [kidsEvents]; exact C_andThen (elemEvents_C _ _ _ _ _ _ _ tlOk_nil) (ih vs)

theorem compErr_S (seq : Nat) (de : Option Str) (code msg : Str) : QS false (compErr seq de code msg) :=
  ⟨(fun h => by cases h), rfl⟩

theorem compErr_C (seq : Nat) (de : Option Str) (code msg : Str) : QC false (compErr seq de code msg) := by
  intro h
  have := h (.eleError code msg none) (by simp [compErr])
  cases this

theorem compEvents_S (ctx : Ctx) (v5 : Bool) (u : Usage) (seq : Nat) (nm rd : Str) (de : Option Str)
    (kids : List ElemX) (data : Option (List Str)) : (compEvents ctx v5 u seq nm rd de kids data).P QS := by
  cases data with
  | none =>
    cases u with
    | R => exact P_ok _ _ _ (compErr_S _ _ _ _)
    | S => exact P_ok _ _ _ QS_true_nil
    | N => exact P_ok _ _ _ QS_true_nil
  | some vs =>
    simp only [compEvents]
    split
    · exact P_ok _ _ _ QS_true_nil
    · split
      · exact P_ok _ _ _ (compErr_S _ _ _ _)
      · unfold compPresentEvents
        split
        · exact P_ok _ _ _ (compErr_S _ _ _ _)
        · refine S_andThen ?_ (kidsEvents_S _ _ _ _ _)
          split
          · rename_i h; simp only [h, decide_true, Bool.not_true]; exact P_ok _ _ _ (compErr_S _ _ _ _)
          · rename_i h; simp only [h, decide_false, Bool.not_false]; exact P_ok _ _ _ QS_true_nil

theorem compEvents_C (ctx : Ctx) (v5 : Bool) (u : Usage) (seq : Nat) (nm rd : Str) (de : Option Str)
    (kids : List ElemX) (data : Option (List Str)) : (compEvents ctx v5 u seq nm rd de kids data).P QC := by
  cases data with
  | none =>
    cases u with
    | R => exact P_ok _ _ _ (compErr_C _ _ _ _)
    | S => exact P_ok _ _ _ QC_true_nil
    | N => exact P_ok _ _ _ QC_true_nil
  | some vs =>
    simp only [compEvents]
    split
    · exact P_ok _ _ _ QC_true_nil
    · split
      · exact P_ok _ _ _ (compErr_C _ _ _ _)
      · unfold compPresentEvents
        split
        · exact P_ok _ _ _ (compErr_C _ _ _ _)
        · refine C_andThen ?_ (kidsEvents_C _ _ _ _ _)
          split
          · rename_i h; simp only [h, decide_true, Bool.not_true]; exact P_ok _ _ _ (compErr_C _ _ _ _)
          · rename_i h; simp only [h, decide_false, Bool.not_false]; exact P_ok _ _ _ QC_true_nil

/-! ### the children of a segment -/

theorem childAbsent_S (ctx : Ctx) (v5 : Bool) (c : ChildX) : (childAbsent ctx v5 c).P QS := by
  cases c with
  | elem x => exact elemEvents_S _ _ _ _ _ _ _
  | comp u seq nm rd de kids => simp only [childAbsent]; exact compEvents_S _ _ _ _ _ _ _ _ _

theorem childAbsent_C (ctx : Ctx) (v5 : Bool) (c : ChildX) : (childAbsent ctx v5 c).P QC := by
  cases c with
  | elem x => exact elemEvents_C _ _ _ _ _ _ _ tlOk_nil
  | comp u seq nm rd de kids => simp only [childAbsent]; exact compEvents_C _ _ _ _ _ _ _ _ _

theorem childPresent_S (ctx : Ctx) (v5 : Bool) (sep : Char) (sid : Str) (i : Nat) (dt tl : List Str) (data : List Str)
    (c : ChildX) : (childPresent ctx v5 sep sid i dt tl data c).P QS := by
  cases c with
  | elem x =>
    simp only [childPresent, elemAt]
    cases elemIn sep data with
    | none => exact P_crash _ _
    | some i => exact elemEvents_S _ _ _ _ _ _ _
  | comp u seq nm rd de kids => simp only [childPresent]; exact compEvents_S _ _ _ _ _ _ _ _ _

theorem pickTl_ok (sid : Str) (i : Nat) (x : ElemX) (dt tl : List Str) (h1 : tlOkB dt = true) (h2 : tlOkB tl = true) :
    tlOkB (pickTl sid i x dt tl) = true := by
  unfold pickTl
  split
  · exact h1
  · split
    · exact h2
    · rfl

theorem childPresent_C (ctx : Ctx) (v5 : Bool) (sep : Char) (sid : Str) (i : Nat) (dt tl : List Str) (data : List Str)
    (c : ChildX) (h1 : tlOkB dt = true) (h2 : tlOkB tl = true) : (childPresent ctx v5 sep sid i dt tl data c).P QC := by
  cases c with
  | elem x =>
    simp only [childPresent, elemAt]
    cases elemIn sep data with
    | none => exact P_crash _ _
    | some i' => exact elemEvents_C _ _ _ _ _ _ _ (pickTl_ok sid i x dt tl h1 h2)
  | comp u seq nm rd de kids => simp only [childPresent]; exact compEvents_C _ _ _ _ _ _ _ _ _

theorem childrenEvents_S (ctx : Ctx) (v5 : Bool) (sep : Char) (sid : Str) (v02 : Option Str) :
    ∀ (cs : List ChildX) (i : Nat) (dt tl : List Str) (es : List (List Str)),
      (childrenEvents ctx v5 sep sid v02 i dt tl cs es).P QS := by
  intro cs
  induction cs with
  | nil => intro i dt tl es; simp only [childrenEvents]; exact P_ok _ _ _ QS_true_nil
  | cons c cs ih =>
    intro i dt tl es
    cases es with
    | nil => simp only [childrenEvents]; exact S_andThen (childAbsent_S _ _ _) (ih _ _ _ [])
    | cons e es => simp only [childrenEvents]; exact S_andThen (childPresent_S _ _ _ _ _ _ _ _ _) (ih _ _ _ es)

/-- the codes of a data-element-1250 child (date/time format qualifiers) name a supported format -/
def ChildTlOk : ChildX → Prop
  | .elem x => x.dataEle = some s1250 → tlOkB x.d.codes = true
  | .comp .. => True

def SegTlOk (sd : SegDef) : Prop := ∀ c ∈ sd.children, ChildTlOk c

theorem dtp_ok (v : Str) (h : dtpTypes.contains v = true) : tlOkB [v] = true := by
  have : v ∈ dtpTypes := by simpa using h
  simp only [dtpTypes, List.mem_cons, List.mem_nil_iff, or_false] at this
  rcases this with rfl | rfl | rfl | rfl | rfl <;> decide

theorem stepDtype_ok (sid : Str) (i : Nat) (v02 : Option Str) (dt : List Str) (c : ChildX) (h : tlOkB dt = true) :
    tlOkB (stepDtype sid i v02 dt c) = true := by
  cases c with
  | comp u seq nm rd de kids => exact h
  | elem x =>
    simp only [stepDtype, newDtype]
    split
    · cases v02 with
      | none => exact h
      | some v =>
        simp only
        split
        · rename_i hc; exact dtp_ok v hc
        · exact h
    · exact h

theorem tlOk_append (a b : List Str) (ha : tlOkB a = true) (hb : tlOkB b = true) : tlOkB (a ++ b) = true := by
  simp only [tlOkB, Bool.or_eq_true, List.isEmpty_iff, List.contains_eq_mem, decide_eq_true_eq, List.any_eq_true,
    List.append_eq_nil_iff, List.mem_append] at *
  rcases ha with (ha | ha) | ha
  · subst ha
    rcases hb with (hb | hb) | ⟨t, hb, ht⟩
    · exact Or.inl (Or.inl ⟨rfl, hb⟩)
    · exact Or.inl (Or.inr (Or.inr hb))
    · exact Or.inr ⟨t, Or.inr hb, ht⟩
  · exact Or.inl (Or.inr (Or.inl ha))
  · obtain ⟨t, h1, h2⟩ := ha
    exact Or.inr ⟨t, Or.inl h1, h2⟩

theorem stepTl_ok (tl : List Str) (c : ChildX) (h : tlOkB tl = true) (hc : ChildTlOk c) : tlOkB (stepTl tl c) = true := by
  cases c with
  | comp u seq nm rd de kids => exact h
  | elem x =>
    simp only [stepTl, newTl]
    split
    · rename_i hd; exact tlOk_append _ _ h (hc hd)
    · exact h

theorem childrenEvents_C (ctx : Ctx) (v5 : Bool) (sep : Char) (sid : Str) (v02 : Option Str) :
    ∀ (cs : List ChildX) (i : Nat) (dt tl : List Str) (es : List (List Str)), (∀ c ∈ cs, ChildTlOk c) →
      tlOkB dt = true → tlOkB tl = true → (childrenEvents ctx v5 sep sid v02 i dt tl cs es).P QC := by
  intro cs
  induction cs with
  | nil => intro i dt tl es _ _ _; simp only [childrenEvents]; exact P_ok _ _ _ QC_true_nil
  | cons c cs ih =>
    intro i dt tl es hcs h1 h2
    have hc := hcs c (by simp)
    have hcs' : ∀ x ∈ cs, ChildTlOk x := fun x hx => hcs x (by simp [hx])
    cases es with
    | nil => simp only [childrenEvents]; exact C_andThen (childAbsent_C _ _ _) (ih _ _ _ [] hcs' h1 h2)
    | cons e es =>
      simp only [childrenEvents]
      have k1 := stepDtype_ok sid i v02 dt c h1
      have k2 := stepTl_ok tl c h2 hc
      exact C_andThen (childPresent_C _ _ _ _ _ _ _ _ _ k1 k2) (ih _ _ _ es hcs' k1 k2)

/-! ### surplus elements, syntax notes -/

theorem tooMany_QS (a : Nat) (c m : Str) (v : Option Str) : QS false [.addEle a none none, .eleError c m v] :=
  ⟨(fun h => by cases h), rfl⟩

theorem tooMany_QC (a : Nat) (c m : Str) (v : Option Str) : QC false [.addEle a none none, .eleError c m v] := by
  intro h
  have := h (.eleError c m v) (by simp)
  cases this

theorem tooManyEvents_S (d : Delims) (sd : SegDef) (s : Seg) : (tooManyEvents d sd s).P QS := by
  unfold tooManyEvents
  split
  · split
    · exact P_crash _ _
    · cases Pipeline.getValue d s sd.children.length with
      | crash => exact P_crash _ _
      | absent => exact P_ok _ _ _ (tooMany_QS _ _ _ _)
      | value v => exact P_ok _ _ _ (tooMany_QS _ _ _ _)
  · exact P_ok _ _ _ QS_true_nil

theorem tooManyEvents_C (d : Delims) (sd : SegDef) (s : Seg) : (tooManyEvents d sd s).P QC := by
  unfold tooManyEvents
  split
  · split
    · exact P_crash _ _
    · cases Pipeline.getValue d s sd.children.length with
      | crash => exact P_crash _ _
      | absent => exact P_ok _ _ _ (tooMany_QC _ _ _ _)
      | value v => exact P_ok _ _ _ (tooMany_QC _ _ _ _)
  · exact P_ok _ _ _ QC_true_nil

/-- every syntax note of the definition names, first, an element position of the segment -/
def NotesInRange (sd : SegDef) : Prop := ∀ n ∈ sd.notes, ∀ k r, n.idx = k :: r → 0 < k ∧ k ≤ sd.children.length

theorem routeNote_shape (vals : List Str) (n : Syn.Note) (errs : List Syn.EleErr) (h : Syn.routeNote vals n = some errs) :
    errs = [] ∨ ∃ k r, n.idx = k :: r ∧ errs = [⟨Syn.errCode n.code, k⟩] := by
  unfold Syn.routeNote Syn.routeVerdict at h
  split at h
  · cases h
  · injection h with h; exact Or.inl h.symm
  · unfold Syn.errFor at h
    split at h
    · cases h
    · rename_i k r hk
      injection h with h
      exact Or.inr ⟨k, r, hk, h.symm⟩

theorem childAddEle_isAdd (c : ChildX) : ∃ p sp rf, childAddEle c = .addEle p sp rf := by
  cases c with
  | elem x => exact ⟨_, _, _, rfl⟩
  | comp u seq nm rd de kids => exact ⟨_, _, _, rfl⟩

theorem notesEvents_S (sd : SegDef) (sid : Str) (vals : List Str) : ∀ (ns : List Syn.Note),
    (∀ n ∈ ns, ∀ k r, n.idx = k :: r → 0 < k ∧ k ≤ sd.children.length) → (notesEvents sd sid vals ns).P QS := by
  intro ns
  induction ns with
  | nil => intro _; simp only [notesEvents]; exact P_ok _ _ _ QS_true_nil
  | cons n ns ih =>
    intro hr
    simp only [notesEvents]
    cases hn : Syn.routeNote vals n with
    | none => exact P_crash _ _
    | some errs =>
      simp only
      refine S_andThen (P_ok _ _ _ ?_) (ih (fun m hm => hr m (by simp [hm])))
      rcases routeNote_shape vals n errs hn with rfl | ⟨k, r, hk, rfl⟩
      · exact QS_true_nil
      · obtain ⟨h1, h2⟩ := hr n (by simp) k r hk
        refine ⟨(fun h => by cases h), ?_⟩
        simp only [List.map_cons, List.map_nil, List.flatten_cons, List.flatten_nil, List.append_nil, noteErrEvents,
          noteAddEle, h1, h2, and_self, if_true]
        have : k - 1 < sd.children.length := by omega
        rw [List.getElem?_eq_getElem this]
        obtain ⟨p, sp, rf, e⟩ := childAddEle_isAdd sd.children[k - 1]
        simp only [e]
        rfl

theorem notesEvents_C (sd : SegDef) (sid : Str) (vals : List Str) : ∀ (ns : List Syn.Note),
    (notesEvents sd sid vals ns).P QC := by
  intro ns
  induction ns with
  | nil => simp only [notesEvents]; exact P_ok _ _ _ QC_true_nil
  | cons n ns ih =>
    simp only [notesEvents]
    cases hn : Syn.routeNote vals n with
    | none => exact P_crash _ _
    | some errs =>
      simp only
      refine C_andThen (P_ok _ _ _ ?_) ih
      rcases routeNote_shape vals n errs hn with rfl | ⟨k, r, _, rfl⟩
      · exact QC_true_nil
      · intro h
        have := h (.eleError (Syn.errCode n.code) (synMsg sid n) none) (by simp [noteErrEvents])
        cases this

/-! ### segment_if.is_valid -/

theorem segEvents_S (ctx : Ctx) (v5 : Bool) (d : Delims) (sd : SegDef) (s : Seg) (hn : NotesInRange sd) :
    (segEvents ctx v5 d sd s).P QS := by
  unfold segEvents
  refine S_andThen (S_andThen (tooManyEvents_S d sd s) (childrenEvents_S _ _ _ _ _ _ _ _ _ _)) ?_
  cases SegText.formatComps (Pipeline.sepOf d s.id) s.elems with
  | none => exact P_crash _ _
  | some vals => exact notesEvents_S _ _ _ _ hn

/-! ### freshness: every `ele_error` of one `is_valid` call comes after an `add_ele` of that call -/

theorem isEle_cases {e : Event} (h : isEle e = true) : (∃ p s r, e = .addEle p s r) ∨ ∃ c m v, e = .eleError c m v := by
  cases e <;> simp [isEle] at h
  · exact Or.inl ⟨_, _, _, rfl⟩
  · exact Or.inr ⟨_, _, _, rfl⟩

theorem eleFresh_true_eleOnly : ∀ (l : List Event), EleOnly l → eleFresh true l = true := by
  intro l
  induction l with
  | nil => intro _; rfl
  | cons e r ih =>
    intro h
    have hr : EleOnly r := fun x hx => h x (List.mem_cons_of_mem _ hx)
    rcases isEle_cases (h e (by simp)) with ⟨p, s, rf, rfl⟩ | ⟨c, m, v, rfl⟩
    · simp only [eleFresh, evEleError, Bool.not_false, Bool.true_or, Bool.true_and]
      exact ih hr
    · simp only [eleFresh, Bool.or_true, Bool.true_and]
      exact ih hr

theorem freshAfter_eleOnly : ∀ (l : List Event) (f : Bool), EleOnly l → freshAfter f l = (f || l.any evAddEle) := by
  intro l
  induction l with
  | nil => intro f _; simp [freshAfter]
  | cons e r ih =>
    intro f h
    have hr : EleOnly r := fun x hx => h x (List.mem_cons_of_mem _ hx)
    rcases isEle_cases (h e (by simp)) with ⟨p, s, rf, rfl⟩ | ⟨c, m, v, rfl⟩
    · simp only [freshAfter, List.any_cons, evAddEle, Bool.true_or, Bool.or_true]
      rw [ih _ hr]; rfl
    · simp only [freshAfter, List.any_cons, evAddEle, Bool.false_or]
      rw [ih _ hr]; rfl

def ERes.HasAdd (r : ERes) : Prop := ∀ v evs, r = .ok v evs → evs.any evAddEle = true

theorem hasAdd_andThen_left {a b : ERes} (ha : a.HasAdd) : (a.andThen b).HasAdd := by
  intro v evs h
  obtain ⟨va, ea, vb, eb, rfl, rfl, rfl⟩ := andThen_ok h
  simp [ha va ea rfl]

theorem hasAdd_andThen_right {a b : ERes} (hb : b.HasAdd) : (a.andThen b).HasAdd := by
  intro v evs h
  obtain ⟨va, ea, vb, eb, rfl, rfl, rfl⟩ := andThen_ok h
  simp [hb vb eb rfl]

theorem elemEvents_hasAdd (ctx : Ctx) (v5 : Bool) (pos : Nat) (sub : Option Nat) (e : ElemX) (tl : List Str) (i : EIn) :
    (elemEvents ctx v5 pos sub e tl i).HasAdd := by
  intro v evs h
  obtain ⟨r, rfl⟩ := elemEvents_head ctx v5 pos sub e tl i v evs h
  simp [evAddEle]

theorem childrenEvents_hasAdd (ctx : Ctx) (v5 : Bool) (sep : Char) (sid : Str) (v02 : Option Str) :
    ∀ (cs : List ChildX) (i : Nat) (dt tl : List Str) (es : List (List Str)), (∃ x, ChildX.elem x ∈ cs) →
      (childrenEvents ctx v5 sep sid v02 i dt tl cs es).HasAdd := by
  intro cs
  induction cs with
  | nil => intro i dt tl es h; obtain ⟨x, hx⟩ := h; cases hx
  | cons c cs ih =>
    intro i dt tl es h
    obtain ⟨x, hx⟩ := h
    rcases List.mem_cons.1 hx with rfl | hx
    · cases es with
      | nil => simp only [childrenEvents]; exact hasAdd_andThen_left (elemEvents_hasAdd _ _ _ _ _ _ _)
      | cons e es =>
        simp only [childrenEvents]
        apply hasAdd_andThen_left
        simp only [childPresent, elemAt]
        cases elemIn sep e with
        | none => intro v evs h; cases h
        | some i' => exact elemEvents_hasAdd _ _ _ _ _ _ _
    · cases es with
      | nil => simp only [childrenEvents]; exact hasAdd_andThen_right (ih _ _ _ [] ⟨x, hx⟩)
      | cons e es => simp only [childrenEvents]; exact hasAdd_andThen_right (ih _ _ _ es ⟨x, hx⟩)

/-- the definition has a simple element (so validation begins with `add_ele` calls), or its notes are in range -/
def SegFresh (sd : SegDef) : Prop := (∃ x, ChildX.elem x ∈ sd.children) ∨ NotesInRange sd

theorem segEvents_headed (ctx : Ctx) (v5 : Bool) (d : Delims) (sd : SegDef) (s : Seg) (hf : SegFresh sd) (v : Bool)
    (evs : List Event) (h : segEvents ctx v5 d sd s = .ok v evs) : Headed evs := by
  rcases hf with hf | hf
  · unfold segEvents at h
    obtain ⟨v1, e1, v2, e2, h1, h2, rfl⟩ := andThen_ok h
    obtain ⟨v3, e3, v4, e4, h3, h4, rfl⟩ := andThen_ok h1
    have k3 := (tooManyEvents_S d sd s v3 e3 h3).2
    have k4 := (childrenEvents_S _ _ _ _ _ _ _ _ _ _ v4 e4 h4).2
    have a4 := childrenEvents_hasAdd ctx v5 (Pipeline.sepOf d s.id) s.id (gv d s 1) sd.children 0 [] [] s.elems hf v4 e4 h4
    have o3 : EleOnly e3 := by have := tooManyEvents_eleOnly d sd s; rw [h3] at this; exact this
    have o4 : EleOnly e4 := by
      have := childrenEvents_eleOnly ctx v5 (Pipeline.sepOf d s.id) s.id (gv d s 1) sd.children 0 [] [] s.elems
      rw [h4] at this; exact this
    have o2 : EleOnly e2 := by
      have := segEvents_eleOnly ctx v5 d sd s
      unfold segEvents at this
      rw [h3, h4] at this
      cases hfc : SegText.formatComps (Pipeline.sepOf d s.id) s.elems with
      | none => rw [hfc] at h2; cases h2
      | some vals =>
        rw [hfc] at h2 this
        simp only [notesOn] at h2 this
        rw [h2] at this
        exact fun x hx => this x (List.mem_append_right _ hx)
    show eleFresh false ((e3 ++ e4) ++ e2) = true
    rw [eleFresh_append, (k3.append k4 : eleFresh false (e3 ++ e4) = true), Bool.true_and,
      freshAfter_eleOnly _ _ (o3.append o4)]
    have : (e3 ++ e4).any evAddEle = true := by simp [a4]
    rw [this]
    exact eleFresh_true_eleOnly e2 o2
  · exact (segEvents_S ctx v5 d sd s hf v evs h).2

/-- True ⇒ nothing reported, for every definition (the `Headed` half of `QS` is what needs the notes in range) -/
theorem segEvents_sound (ctx : Ctx) (v5 : Bool) (d : Delims) (sd : SegDef) (s : Seg) (evs : List Event)
    (h : segEvents ctx v5 d sd s = .ok true evs) : NoEle evs := by
  -- the same composition, with the freshness half dropped
  have key : (segEvents ctx v5 d sd s).P (fun v evs => v = true → NoEle evs) := by
    have hQ : ∀ va ea vb eb, (va = true → NoEle ea) → (vb = true → NoEle eb) → ((va && vb) = true → NoEle (ea ++ eb)) := by
      intro va ea vb eb h1 h2 h
      simp only [Bool.and_eq_true] at h
      exact (h1 h.1).append (h2 h.2)
    have weaken : ∀ r : ERes, r.P QS → r.P (fun v evs => v = true → NoEle evs) := fun r hr v evs e => (hr v evs e).1
    unfold segEvents
    refine P_andThen _ hQ (P_andThen _ hQ (weaken _ (tooManyEvents_S d sd s))
      (weaken _ (childrenEvents_S _ _ _ _ _ _ _ _ _ _))) ?_
    cases SegText.formatComps (Pipeline.sepOf d s.id) s.elems with
    | none => exact P_crash _ _
    | some vals =>
      simp only [notesOn]
      generalize sd.notes = ns
      induction ns with
      | nil => simp only [notesEvents]; exact P_ok _ _ _ (fun _ => NoEle.nil)
      | cons n ns ih =>
        simp only [notesEvents]
        cases hn : Syn.routeNote vals n with
        | none => exact P_crash _ _
        | some errs =>
          simp only
          refine P_andThen _ hQ (P_ok _ _ _ ?_) ih
          intro he
          have : errs = [] := by simpa using he
          subst this
          exact NoEle.nil
  exact key true evs h rfl

theorem segEvents_compl (ctx : Ctx) (v5 : Bool) (d : Delims) (sd : SegDef) (s : Seg) (htl : SegTlOk sd) :
    (segEvents ctx v5 d sd s).P QC := by
  unfold segEvents
  refine C_andThen (C_andThen (tooManyEvents_C d sd s) (childrenEvents_C _ _ _ _ _ _ _ _ _ _ htl rfl rfl)) ?_
  cases SegText.formatComps (Pipeline.sepOf d s.id) s.elems with
  | none => exact P_crash _ _
  | some vals => exact notesEvents_C _ _ _ _

end Pyx12Verif.Doc
