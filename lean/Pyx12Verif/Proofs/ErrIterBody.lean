/-
The ordinary case of the HTML report: a body segment of an open transaction set whose error node is created while
the segment is the current one.  What the error-handler calls of such a segment do to the set node, and what the
drain at the end of the loop body then hands to `gen_seg`.
-/
import Pyx12Verif.Proofs.ErrIterGrow
import Pyx12Verif.Proofs.ErrIterShown

namespace Pyx12Verif.ErrIter
open Pyx12Verif.ErrTree

/-- the calls a segment's own validation makes after `add_seg`: `add_ele`, `ele_error`, `seg_error` -/
def OwnEvent : Event → Prop
  | .addEle _ _ _ => True
  | .segError _ _ => True
  | .eleError _ _ _ => True
  | _ => False

/-- the cursor has caught up with the set `(i, g, s)` that has `n` error nodes: it stands on the set node on its way
    down (no error node yet), or on the set's last error node -/
def CaughtUp (c : Cursor) (i g s n : Nat) : Prop :=
  (n = 0 ∧ c.cur = .st i g s ∧ Addr.st i g s ∉ c.stack) ∨ (∃ m, n = m + 1 ∧ c.cur = .seg i g s m)

/-- state of the error handler while the calls of one body segment come in: the set is open; the segment's node is
    still pending (`n` children) or has been linked as child `n` -/
structure BodyInv (i g s n : Nat) (st : State) : Prop where
  curSt : st.curSt = some (i, g, s)
  set : ∃ x, getSt st.tree i g s = some x ∧ x.closed = false ∧
    (((∃ sg, st.curSeg = .pending sg) ∧ x.children.length = n) ∨
      (st.curSeg = .host (.seg i g s n) ∧ x.children.length = n + 1))

theorem same_getSt (t t' : Tree) (h : TreeSame t t') (i g s : Nat) (x : St) (hx : getSt t i g s = some x) :
    ∃ y, getSt t' i g s = some y ∧ y.children.length = x.children.length ∧ (x.closed = false → y.closed = false) := by
  obtain ⟨y, hy, hxy⟩ := le_getSt t t' h.1 i g s x hx
  obtain ⟨x', hx', hyx⟩ := le_getSt t' t h.2 i g s y hy
  rw [hx] at hx'
  simp only [Option.some.injEq] at hx'
  subst hx'
  refine ⟨y, hy, Nat.le_antisymm hyx.1 hxy.1, fun hc => ?_⟩
  cases hyc : y.closed with
  | false => rfl
  | true => have := hyx.2 hyc; rw [hc] at this; exact absurd this (by simp)

theorem addCurSeg_body (i g s n : Nat) (st st1 : State) (hb : BodyInv i g s n st) (h : addCurSeg st = some st1) :
    st1.curSt = some (i, g, s) ∧ st1.curEle = st.curEle ∧ st1.curSeg = .host (.seg i g s n) ∧
      ∃ x, getSt st1.tree i g s = some x ∧ x.closed = false ∧ x.children.length = n + 1 := by
  obtain ⟨x, hx, hcl, hcase⟩ := hb.set
  unfold addCurSeg at h
  rcases hcase with ⟨⟨sg, hsg⟩, hlen⟩ | ⟨hhost, hlen⟩
  · simp only [hsg, hb.curSt, Option.some.injEq] at h
    subst h
    refine ⟨rfl, rfl, ?_, ?_⟩
    · simp [stChildCount, hx, hlen]
    · refine ⟨{ x with children := x.children ++ [sg] }, ?_, hcl, by simp [hlen]⟩
      simp only [getSt_modSt, hx, Option.map_some]
  · simp only [hhost, Option.some.injEq] at h
    subst h
    exact ⟨hb.curSt, rfl, hhost, x, hx, hcl, hlen⟩

theorem own_step_body (i g s n : Nat) (st st1 : State) (e : Event) (he : OwnEvent e) (hb : BodyInv i g s n st)
    (h : ErrTree.step st e = .ok st1) : BodyInv i g s n st1 := by
  cases e with
  | addEle a b c =>
    simp only [ErrTree.step, addEle] at h
    split at h <;> simp at h <;> subst h
    · exact ⟨hb.curSt, hb.set⟩
    · exact ⟨hb.curSt, hb.set⟩
  | segError c v =>
    simp only [ErrTree.step, Res.ok.injEq] at h
    subst h
    unfold segError
    cases h1 : addCurSeg st with
    | none =>
      exact ⟨hb.curSt, hb.set⟩
    | some s1 =>
      obtain ⟨a1, _, a3, x, a4, a5, a6⟩ := addCurSeg_body i g s n st s1 hb h1
      simp only
      unfold segAddError
      simp only [a3]
      refine ⟨a1, ?_⟩
      simp only [modSeg, getSt_modSt, a4, Option.map_some]
      exact ⟨_, rfl, a5, Or.inr ⟨trivial, by simp [modNth_length, a6]⟩⟩
  | eleError c m v =>
    simp only [ErrTree.step, eleError] at h
    cases h1 : addCurSeg st with
    | none => simp [h1] at h
    | some s1 =>
      obtain ⟨a1, _, a3, x, a4, a5, a6⟩ := addCurSeg_body i g s n st s1 hb h1
      simp only [h1] at h
      unfold eleErrorLinked at h
      split at h
      · simp at h
      · rename_i hh _
        simp only [a3, Res.ok.injEq] at h
        subst h
        obtain ⟨y, hy, hlen, hcl⟩ := same_getSt _ _ (addErrLastEle_same s1.tree hh _) i g s x a4
        exact ⟨a1, y, hy, hcl a5, Or.inr ⟨rfl, by omega⟩⟩
      · simp only [a3, Res.ok.injEq] at h
        subst h
        obtain ⟨y, hy, hlen, hcl⟩ := same_getSt _ _ (appendEle_same s1.tree (.seg i g s n) _) i g s x a4
        exact ⟨a1, y, hy, hcl a5, Or.inr ⟨rfl, by omega⟩⟩
  | addIsa d => exact absurd he (by simp [OwnEvent])
  | addGs d => exact absurd he (by simp [OwnEvent])
  | addSt d => exact absurd he (by simp [OwnEvent])
  | addSeg a b c => exact absurd he (by simp [OwnEvent])
  | isaError c => exact absurd he (by simp [OwnEvent])
  | gsError c => exact absurd he (by simp [OwnEvent])
  | stError c => exact absurd he (by simp [OwnEvent])
  | closeSt => exact absurd he (by simp [OwnEvent])
  | closeGs a b => exact absurd he (by simp [OwnEvent])
  | closeIsa => exact absurd he (by simp [OwnEvent])

theorem own_run_body (i g s n : Nat) (own : List Event) (st s' : State) (hown : ∀ e ∈ own, OwnEvent e)
    (hb : BodyInv i g s n st) (h : ErrTree.run st own = .ok s') : BodyInv i g s n s' := by
  induction own generalizing st with
  | nil => simp only [ErrTree.run, Res.ok.injEq] at h; subst h; exact hb
  | cons e r ih =>
    simp only [ErrTree.run] at h
    split at h
    · rename_i s1 hs
      exact ih s1 (fun e' he' => hown e' (List.mem_cons_of_mem _ he'))
        (own_step_body i g s n st s1 e (hown e (by simp)) hb hs) h
    · simp at h

theorem fuel_ge_two (t : Tree) : ∃ f, fuel t = f + 2 := by
  refine ⟨fuel t - 2, ?_⟩
  have : 0 < (nodes t).length := by simp [nodes]
  unfold fuel; omega

/-- the drain at the end of the loop body of such a segment -/
theorem body_frame (rs1 : RState) (i g s : Nat) (x : St) (segId : Str) (cnt : Nat) (ls : Option Str)
    (own : List Event) (s' : State)
    (hcur : rs1.st.curSt = some (i, g, s)) (hst : getSt rs1.st.tree i g s = some x) (hopen : x.closed = false)
    (hcaught : CaughtUp rs1.cur i g s x.children.length)
    (hown : ∀ e ∈ own, OwnEvent e) (hrun : ErrTree.run rs1.st (.addSeg segId cnt ls :: own) = .ok s') :
    (kids s'.tree (.st i g s) = x.children.length + 1 →
        (drainV s'.tree rs1.cur).1 = [⟨.seg i g s x.children.length, false⟩]) ∧
      (kids s'.tree (.st i g s) ≠ x.children.length + 1 →
        ∀ r : ErrRef, r.addr = .seg i g s x.children.length → ¬ Stored s'.tree r) := by
  simp only [ErrTree.run, ErrTree.step] at hrun
  have hb0 : BodyInv i g s x.children.length (addSeg rs1.st segId cnt ls) :=
    ⟨hcur, x, hst, hopen, Or.inl ⟨⟨_, rfl⟩, rfl⟩⟩
  have hb := own_run_body i g s x.children.length own _ s' hown hb0 hrun
  obtain ⟨y, hy, hcl, hcase⟩ := hb.set
  have hk : kids s'.tree (.st i g s) = y.children.length := by simp [kids, stChildCount, hy]
  have hc : closedAt s'.tree (.st i g s) = false := by simp [closedAt, stClosed, hy, hcl]
  constructor
  · intro hkn
    obtain ⟨f, hf⟩ := fuel_ge_two s'.tree
    unfold drainV
    rw [hf]
    rcases hcaught with ⟨h0, hc1, hc2⟩ | ⟨m, hm, hc1⟩
    · -- on the set node, going down
      rw [h0] at hkn ⊢
      have st1 : step s'.tree rs1.cur = .moved ⟨.seg i g s 0, .st i g s :: rs1.cur.stack⟩ false := by
        simp [step, descendTarget, hc1, hc2, firstChild, hkn]
      have st2 : step s'.tree ⟨.seg i g s 0, .st i g s :: rs1.cur.stack⟩ =
          .oob ⟨.seg i g s 0, .st i g s :: rs1.cur.stack⟩ := by
        simp [step, descendTarget, firstChild, nextSibling, hkn, ascend, closedAt, parent, stClosed]
        simp [hy, hcl]
      simp [drainF, st1, st2, consV]
    · -- on the last error node of the set
      rw [hm] at hkn ⊢
      have st1 : step s'.tree rs1.cur = .moved ⟨.seg i g s (m + 1), rs1.cur.stack⟩ false := by
        simp [step, descendTarget, hc1, firstChild, nextSibling, hkn]
      have st2 : step s'.tree ⟨.seg i g s (m + 1), rs1.cur.stack⟩ = .oob ⟨.seg i g s (m + 1), rs1.cur.stack⟩ := by
        simp [step, descendTarget, firstChild, nextSibling, hkn, ascend, closedAt, parent]
        have := hc; simp only [closedAt] at this; simp [this]
      simp [drainF, st1, st2, consV]
  · intro hkn r hr
    have hlen : y.children.length = x.children.length := by
      rcases hcase with ⟨_, h⟩ | ⟨_, h⟩
      · exact h
      · exact absurd (by rw [hk, h]) hkn
    have hseg : getSeg s'.tree i g s x.children.length = none := by
      simp [getSeg, hy, ← hlen]
    cases r with
    | node a n => simp only [ErrRef.addr] at hr; subst hr; simp [Stored, codeOf, nodeCodes, hseg]
    | ele a e n => simp only [ErrRef.addr] at hr; subst hr; simp [Stored, codeOf, nodeEles, hseg]

/-- on a segment node every stored tuple passes the selection (`err_seg` inherits `err_node.get_error_list`), except
    element tuples under the `GE` hack -/
theorem stored_seg_selected (t : Tree) (sid : Str) (r : ErrRef) (i g s k : Nat) (hr : r.addr = .seg i g s k)
    (hsid : sid ≠ sGE) (h : Stored t r) : Selected t sid r := by
  cases r with
  | node a n =>
    simp only [ErrRef.addr] at hr; subst hr
    simp only [Stored, codeOf] at h
    obtain ⟨c, hc⟩ := Option.isSome_iff_exists.mp h
    exact ⟨c, hc, trivial⟩
  | ele a e n =>
    simp only [ErrRef.addr] at hr; subst hr
    simp only [Stored, codeOf] at h
    obtain ⟨c, hc⟩ := Option.isSome_iff_exists.mp h
    cases hx : (nodeEles t (.seg i g s k))[e]? with
    | none => simp [hx] at hc
    | some x =>
      simp only [hx, Option.bind_some] at hc
      cases hy : x.errors[n]? with
      | none => simp [hy] at hc
      | some y => exact ⟨x, y, hx, hy, fun hh => hsid hh.1⟩

/-! ### error-handler calls as items of a history -/

theorem runEnd_events (rs : RState) (evs : List Event) (s' : State) (h : ErrTree.run rs.st evs = .ok s') :
    runEnd rs (evs.map Item.ev) = some { st := s', cur := rs.cur } := by
  induction evs generalizing rs with
  | nil => simp only [ErrTree.run, Res.ok.injEq] at h; subst h; rfl
  | cons e r ih =>
    simp only [ErrTree.run] at h
    simp only [List.map_cons, runEnd]
    split at h
    · rename_i s1 hs
      simp only [hs]
      exact ih { st := s1, cur := rs.cur } h
    · simp at h

theorem runH_events_nil (rs : RState) (evs : List Event) : runH rs (evs.map Item.ev) = [] := by
  induction evs generalizing rs with
  | nil => rfl
  | cons e r ih =>
    simp only [List.map_cons, runH]
    split
    · exact ih _
    · rfl

end Pyx12Verif.ErrIter
