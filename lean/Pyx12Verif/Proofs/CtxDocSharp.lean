/-
Helper lemmas for `ctxDoc_total_sharp` (Props/CtxDoc.lean): the two exits that need "no node was yielded or stored yet"
— `EngineError('Either cur_data_node or self.x12_map_node is None')` (`Ctx.Crash.noCurrentNode`) and the
`AssertionError 'Node … has no parent'` — are unreachable: the first segment the reader yields is the ISA segment
(`first_segment_isa`, needs `SaneHeader`), it is pinned to the control map's `/ISA_LOOP/ISA`, which is the first child of
a top-level loop called ISA_LOOP (`isaPinOK`, evaluated by the driver on every loaded map), so the first round either
starts a tree or yields a plain ISA node, and `cur_data_node` is never None afterwards.
-/
import Pyx12Verif.Proofs.CtxDocTotal
import Pyx12Verif.Proofs.DocSharpFirst

namespace Pyx12Verif.Doc
open Pyx12Verif

def CSite.Sharp (s : CSite) : Prop := s = .nodeNone ∨ ∃ c, s = .reader c ∧ c ≠ Ctx.Crash.noCurrentNode

def CStop.Sharp : CStop → Prop
  | .crash s => s.Sharp
  | _ => True

def CLoopEnd.Sharp : CLoopEnd → Prop
  | .done _ => True
  | .stopped o _ => o.Sharp

/-- once a node has been yielded or stored, the two exits are closed -/
theorem treeStep_hasPrev (lid : Option Ctx.LoopId) (cur : Option Ctx.Cursor) (r : CtxRound) (site : CSite)
    (h : (treeStep lid cur true r).2 = .crash site) : ∃ c, site = .reader c ∧ c ≠ Ctx.Crash.noCurrentNode := by
  unfold treeStep at h
  split at h
  · split at h
    · cases ha : Ctx.addSegment (Ctx.freshTree r.ans) r.ans with
      | error e =>
        rw [ha] at h; injection h with h
        exact ⟨e, h.symm, addSegment_ne _ r.ans ha⟩
      | ok c => rw [ha] at h; cases h
    · cases cur with
      | none => simp only [if_true] at h; injection h with h; exact ⟨_, h.symm, by decide⟩
      | some c =>
        simp only at h
        cases ha : Ctx.addSegment c r.ans with
        | error e =>
          rw [ha] at h; injection h with h
          exact ⟨e, h.symm, addSegment_ne c r.ans ha⟩
        | ok c' => rw [ha] at h; cases h
  · split at h
    · injection h with h; exact ⟨_, h.symm, by decide⟩
    · split at h
      · rename_i hh; simp at hh
      · cases h
where
  popLoops_ne : ∀ (oc : Option Ctx.Cursor) (ps : List Ctx.LPath), Ctx.popLoops oc ps = .error Ctx.Crash.noCurrentNode → False
    | _, [], h => by simp [Ctx.popLoops] at h
    | none, _ :: _, h => by simp [Ctx.popLoops] at h
    | some c, l :: r, h => by
      simp only [Ctx.popLoops] at h
      split at h
      · exact popLoops_ne _ _ h
      · cases h
  pushLoops_ne : ∀ (oc : Option Ctx.Cursor) (ps : List (Ctx.LPath × Nat)),
      Ctx.pushLoops oc ps = .error Ctx.Crash.noCurrentNode → False
    | _, [], h => by simp [Ctx.pushLoops] at h
    | none, _ :: _, h => by simp [Ctx.pushLoops] at h
    | some c, l :: r, h => by
      simp only [Ctx.pushLoops] at h
      exact pushLoops_ne _ _ h
  addSegment_ne (c : Ctx.Cursor) (a : Ctx.Answer) {e : Ctx.Crash} (ha : Ctx.addSegment c a = .error e) :
      e ≠ Ctx.Crash.noCurrentNode := by
    intro he
    subst he
    unfold Ctx.addSegment at ha
    split at ha
    · unfold Ctx.repeatArm at ha
      cases hp : Ctx.parent c with
      | none => rw [hp] at ha; cases ha
      | some p => rw [hp] at ha; simp only at ha; split at ha <;> cases ha
    · unfold Ctx.replay at ha
      cases h1 : Ctx.popLoops (some c) a.pops with
      | error e1 => rw [h1] at ha; simp only at ha; injection ha with hh; subst hh; exact popLoops_ne _ _ h1
      | ok c1 =>
        rw [h1] at ha; simp only at ha
        cases h2 : Ctx.pushLoops c1 a.pushes with
        | error e2 => rw [h2] at ha; simp only at ha; injection ha with hh; subst hh; exact pushLoops_ne _ _ h2
        | ok c2 => rw [h2] at ha; simp only at ha; cases c2 <;> cases ha

theorem cRunSegs_sharp (ms : Maps) (control : MapX) (d : Delims) (lid : Option Ctx.LoopId) :
    ∀ (ps : List (List SegText.RErr × Seg)) (k : Nat) (a : CAcc), a.hasPrev = true →
      (∀ p ∈ ps, Pipeline.NonEmptyComps p.2) → (cRunSegs ms control d lid k a ps).Sharp := by
  intro ps
  induction ps with
  | nil => intro k a _ _; trivial
  | cons p ps ih =>
    intro k a hp hps
    have h0 := cStepSeg_ok ms control d k p.1 p.2 a.st (hps p (by simp))
    simp only [cRunSegs]
    cases hs : cStepSeg ms control d k p.1 p.2 a.st with
    | stop o =>
      rw [hs] at h0
      simp only [cRound]
      cases o with
      | crash site => exact Or.inl h0
      | _ => trivial
    | next st r =>
      simp only [cRound]
      have hp' : (a.read p.2).hasPrev = true := hp
      rw [hp']
      cases hr : (treeStep lid (a.read p.2).cur true r).2 with
      | ok cur => simp only [cAfterTree]; exact ih _ _ rfl (fun q hq => hps q (List.mem_cons_of_mem _ hq))
      | crash site => simp only [cAfterTree]; exact Or.inr (treeStep_hasPrev _ _ _ _ hr)

/-- the answer of the first round when the ISA segment is pinned to a node that passes `isaPinOK` -/
theorem isa_round_tree (ms : Maps) (lid : Option Ctx.LoopId) (n : NodeRef) (si : Ctx.SegInfo) (we : List Str)
    (re : List RdErr)
    (h1 : n.ip.getLast? = some 0) (h2 : cxPath n.map.root n.ip.dropLast = [ms.ids.isaLoop])
    (h3 : Walker.idAt n.map.root n.ip = ms.ids.isa) (site : CSite)
    (h : (treeStep lid none false (mkRound n ms.ids si [] [] we re)).2 = .crash site) :
    ∃ c, site = .reader c ∧ c ≠ Ctx.Crash.noCurrentNode := by
  have hfirst : (mkRound n ms.ids si [] [] we re).ans.first = true := by simp [mkRound, answerAt, h1]
  have hpath : (mkRound n ms.ids si [] [] we re).ans.path = [ms.ids.isaLoop] := by simp [mkRound, answerAt, h2]
  have hisa : (mkRound n ms.ids si [] [] we re).isaNode = true := by simp [mkRound, h3]
  unfold treeStep at h
  split at h
  · rename_i hin
    have hst : Ctx.isStart lid (mkRound n ms.ids si [] [] we re).ans = true := by
      cases lid with
      | none => simp [Ctx.inReq] at hin
      | some l =>
        simp only [Ctx.inReq, hpath, List.contains_cons, List.contains_nil, Bool.or_false, beq_iff_eq] at hin
        simp [Ctx.isStart, hpath, hfirst, hin]
    simp only [hst, if_true] at h
    cases ha : Ctx.addSegment (Ctx.freshTree (mkRound n ms.ids si [] [] we re).ans) (mkRound n ms.ids si [] [] we re).ans with
    | error e =>
      rw [ha] at h; injection h with h
      exact ⟨e, h.symm, treeStep_hasPrev.addSegment_ne _ _ ha⟩
    | ok c => rw [ha] at h; cases h
  · have hpa : Ctx.pushAssertFails lid false (mkRound n ms.ids si [] [] we re).ans = false := by
      cases lid <;> simp [Ctx.pushAssertFails]
    simp only [hpa, Bool.false_eq_true, if_false, hisa, and_false] at h
    cases h

/-- the first round: the ISA segment -/
theorem ctx_first_round_sharp (ms : Maps) (control : MapX) (d : Delims) (lid : Option Ctx.LoopId) (le : List SegText.RErr)
    (s : Seg) (hid : s.id = Envelope.idISA) (hpin : isaPinOK ms control = true) (hs : Pipeline.NonEmptyComps s) :
    match cRound lid ((cInitAcc ms control).read s) (cStepSeg ms control d 0 le s (cInitState ms control)) with
    | .inl e => e.Sharp
    | .inr a' => a'.hasPrev = true := by
  obtain ⟨v, hv⟩ := Pipeline.viewOf_isSome d s hs
  simp only [cStepSeg, hv, cWithView]
  have hstep := Envelope.step_noCrash (cInitState ms control).rs v
  cases hr : Envelope.step Envelope.Fixes.all (cInitState ms control).rs v with
  | crash e => exact absurd hr (hstep e)
  | raised => trivial
  | ok r =>
    simp only [cAfterReader, cFind, hid, if_true]
    cases hf : fetchIn ms control (isaPath ms) with
    | none =>
      simp only [cAfterFind, cInitState, hf, cRound]
      exact Or.inl rfl
    | some n =>
      have hmap : n.map = control := by
        unfold fetchIn at hf
        cases hh : MapSkel.fetch ms.consts.ent ms.consts.hl control.root (isaPath ms) with
        | none => rw [hh] at hf; cases hf
        | some ip => rw [hh] at hf; injection hf with hf; rw [← hf]
      unfold isaPinOK at hpin
      rw [hf] at hpin
      simp only [Bool.and_eq_true, beq_iff_eq] at hpin
      obtain ⟨⟨p1, p2⟩, p3⟩ := hpin
      simp only [cAfterFind, cBranch, hid, if_true, cAfterBranch, cRound]
      cases ht : (treeStep lid ((cInitAcc ms control).read s).cur ((cInitAcc ms control).read s).hasPrev
          (mkRound n ms.ids ⟨0, r.1.segCount, 0 + 1⟩ [] [] [] (le.map lineErr ++ baseErrs s ++ r.2.map envErr))).2 with
      | ok cur => rfl
      | crash site =>
        simp only [cAfterTree]
        exact Or.inr (isa_round_tree ms lid n _ _ _ p1 (by rw [hmap]; exact p2) (by rw [hmap]; exact p3) site ht)

end Pyx12Verif.Doc
