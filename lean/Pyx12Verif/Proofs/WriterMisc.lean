/-
Remaining ingredients of C11: prefix closure of the grammar, declarative freshness of control numbers implies the
scoped one, where the trailer verdicts sit in the structural recount, every `Write` hands on non-trailer segments
unchanged.
-/
import Pyx12Verif.Proofs.WriterRun

namespace Pyx12Verif.Writer
open Pyx12Verif.Envelope (RState SegView Kind Fixes Str Level Err idISA idIEA idGS idGE idST idSE idHL idLX idCLM decimal
  isEnvId mkISA mkGS mkST mkSE mkGE mkIEA pyInt fieldInt natInt baseStep step dupErr SameEnv Runs Normal)
open Pyx12Verif.SegText (Seg Delims joinWith normComp splitOn)

/-! ### every prefix of a well-nested history is well nested -/

theorem wellNestedFrom_prefix (a b : List Seg) : ∀ l, wellNestedFrom l (a ++ b) = true → wellNestedFrom l a = true := by
  induction a with
  | nil => intro _ _; rfl
  | cons s r ih =>
    intro l h
    simp only [List.cons_append, wellNestedFrom] at h ⊢
    cases hs : histStep l s.id with
    | none => simp [hs] at h
    | some l' => simp only [hs] at h ⊢; exact ih l' h

/-! ### control numbers: declarative freshness gives the scoped one -/

theorem ctlsOf_snoc_is (d : Delims) (k : Str) (pre : List Seg) (s : Seg) (h : s.id = k) :
    ctlsOf d k (pre ++ [s]) = ctlsOf d k pre ++ [ctlOf d s] := by
  simp [ctlsOf, List.filter_append, idIs, h]

theorem ctlsOf_snoc_not (d : Delims) (k : Str) (pre : List Seg) (s : Seg) (h : s.id ≠ k) :
    ctlsOf d k (pre ++ [s]) = ctlsOf d k pre := by
  simp [ctlsOf, List.filter_append, idIs, h]

theorem sinceLast_snoc_is (k : Str) (pre : List Seg) (s : Seg) (h : s.id = k) : sinceLast k (pre ++ [s]) = [] := by
  simp [sinceLast, idIs, h]

theorem sinceLast_snoc_not (k : Str) (pre : List Seg) (s : Seg) (h : s.id ≠ k) :
    sinceLast k (pre ++ [s]) = sinceLast k pre ++ [s] := by
  simp [sinceLast, idIs, h]

/-- the id lists the code keeps hold, as sets, the control numbers of the declarative scopes -/
def IdsMatch (d : Delims) (pre : List Seg) (ids : Ids) : Prop :=
  (∀ x, x ∈ ids.1 ↔ x ∈ ctlsOf d idISA pre) ∧
  (∀ x, x ∈ ids.2.1 ↔ x ∈ ctlsOf d idGS (sinceLast idISA pre)) ∧
  (∀ x, x ∈ ids.2.2 ↔ x ∈ ctlsOf d idST (sinceLast idGS pre))

theorem idsMatch_snoc (d : Delims) (pre : List Seg) (ids : Ids) (s : Seg) (h : IdsMatch d pre ids) :
    IdsMatch d (pre ++ [s]) (nextIds d s ids) := by
  obtain ⟨h1, h2, h3⟩ := h
  have eIG : idISA ≠ idGS := by decide
  have eIS : idISA ≠ idST := by decide
  have eGS : idGS ≠ idST := by decide
  unfold nextIds
  by_cases hI : s.id = idISA
  · have n2 : s.id ≠ idGS := by rw [hI]; exact eIG
    have n3 : s.id ≠ idST := by rw [hI]; exact eIS
    rw [if_pos hI]
    refine ⟨?_, ?_, ?_⟩
    · intro x; rw [ctlsOf_snoc_is d _ pre s hI]; simp [h1 x, or_comm]
    · intro x; rw [sinceLast_snoc_is _ pre s hI]; simp [ctlsOf]
    · intro x; rw [sinceLast_snoc_not _ pre s n2, ctlsOf_snoc_not d _ _ s n3]; exact h3 x
  · by_cases hG : s.id = idGS
    · have n3 : s.id ≠ idST := by rw [hG]; exact eGS
      rw [if_neg hI, if_pos hG]
      refine ⟨?_, ?_, ?_⟩
      · intro x; rw [ctlsOf_snoc_not d _ pre s hI]; exact h1 x
      · intro x; rw [sinceLast_snoc_not _ pre s hI, ctlsOf_snoc_is d _ _ s hG]; simp [h2 x, or_comm]
      · intro x; rw [sinceLast_snoc_is _ pre s hG]; simp [ctlsOf]
    · by_cases hS : s.id = idST
      · rw [if_neg hI, if_neg hG, if_pos hS]
        refine ⟨?_, ?_, ?_⟩
        · intro x; rw [ctlsOf_snoc_not d _ pre s hI]; exact h1 x
        · intro x; rw [sinceLast_snoc_not _ pre s hI, ctlsOf_snoc_not d _ _ s hG]; exact h2 x
        · intro x; rw [sinceLast_snoc_not _ pre s hG, ctlsOf_snoc_is d _ _ s hS]; simp [h3 x, or_comm]
      · rw [if_neg hI, if_neg hG, if_neg hS]
        refine ⟨?_, ?_, ?_⟩
        · intro x; rw [ctlsOf_snoc_not d _ pre s hI]; exact h1 x
        · intro x; rw [sinceLast_snoc_not _ pre s hI, ctlsOf_snoc_not d _ _ s hG]; exact h2 x
        · intro x; rw [sinceLast_snoc_not _ pre s hG, ctlsOf_snoc_not d _ _ s hS]; exact h3 x

theorem freshFrom_of_freshCtl (d : Delims) : ∀ (rest pre : List Seg) (ids : Ids), IdsMatch d pre ids →
    FreshCtl d (pre ++ rest) → FreshFrom d ids rest := by
  intro rest
  induction rest with
  | nil => intro _ _ _ _; trivial
  | cons s rest ih =>
    intro pre ids hm hf
    obtain ⟨f1, f2, f3⟩ := hf pre s rest rfl
    refine ⟨⟨fun h => ?_, fun h => ?_, fun h => ?_⟩, ?_⟩
    · exact fun hx => f1 h ((hm.1 _).mp hx)
    · exact fun hx => f2 h ((hm.2.1 _).mp hx)
    · exact fun hx => f3 h ((hm.2.2 _).mp hx)
    · apply ih (pre ++ [s]) _ (idsMatch_snoc d pre ids s hm)
      simpa using hf

theorem freshCtl_prefix (d : Delims) (p q : List Seg) (h : FreshCtl d (p ++ q)) : FreshCtl d p := by
  intro pre s post e
  exact h pre s (post ++ q) (by rw [e]; simp)

/-! ### where the trailer verdicts sit in the structural recount -/

open Pyx12Verif.Envelope in
theorem mem_recountSets (chk : Bool) (rest : List TSet) : ∀ (earlier : List TSet) (t : TSet), t ∈ rest →
    trailerErrs Err.st3 Err.st4 t.stCtl t.seCtl t.seCnt (t.body.length + 2) ∈ recountSets chk earlier rest := by
  induction rest with
  | nil => intro _ _ h; cases h
  | cons a r ih =>
    intro earlier t ht
    simp only [recountSets, List.mem_append]
    rcases List.mem_cons.mp ht with e | e
    · subst e; left; simp [recountSet]
    · right; exact ih _ t e

open Pyx12Verif.Envelope in
theorem mem_recountGroups (chk : Bool) (rest : List Group) : ∀ (earlier : List Group) (g : Group), g ∈ rest →
    trailerErrs Err.gs4 Err.gs5 g.gsCtl g.geCtl g.geCnt g.sets.length ∈ recountGroups chk earlier rest ∧
    ∀ l ∈ recountSets chk [] g.sets, l ∈ recountGroups chk earlier rest := by
  induction rest with
  | nil => intro _ _ h; cases h
  | cons a r ih =>
    intro earlier g hg
    simp only [recountGroups, List.mem_append]
    rcases List.mem_cons.mp hg with e | e
    · subst e
      exact ⟨Or.inl (by simp [recountGroup]), fun l hl => Or.inl (by simp [recountGroup, hl])⟩
    · obtain ⟨h1, h2⟩ := ih (earlier ++ [a]) g e
      exact ⟨Or.inr h1, fun l hl => Or.inr (h2 l hl)⟩

open Pyx12Verif.Envelope in
theorem mem_recountFile (chk : Bool) (rest : List Interchange) : ∀ (earlier : List Interchange) (i : Interchange),
    i ∈ rest →
    trailerErrs Err.isa001 Err.isa021 i.isaCtl i.ieaCtl i.ieaCnt i.groups.length ∈ recountFile chk earlier rest ∧
    ∀ l ∈ recountGroups chk [] i.groups, l ∈ recountFile chk earlier rest := by
  induction rest with
  | nil => intro _ _ h; cases h
  | cons a r ih =>
    intro earlier i hi
    simp only [recountFile, List.mem_append]
    rcases List.mem_cons.mp hi with e | e
    · subst e
      exact ⟨Or.inl (by simp [recountInterchange]), fun l hl => Or.inl (by simp [recountInterchange, hl])⟩
    · obtain ⟨h1, h2⟩ := ih (earlier ++ [a]) i e
      exact ⟨Or.inr h1, fun l hl => Or.inr (h2 l hl)⟩

/-- a trailer verdict whose errors are all of another kind is empty, i.e. control number and count are right -/
theorem trailer_true_of (P : Err → Prop) (e1 e2 : Err) (h1 : ¬ P e1) (h2 : ¬ P e2) (hc tc n : Option Str) (m : Nat)
    (hall : ∀ e ∈ Envelope.trailerErrs e1 e2 hc tc n m, P e) : tc = hc ∧ fieldInt n = some (natInt m) := by
  unfold Envelope.trailerErrs at hall
  constructor
  · by_cases h : tc = hc
    · exact h
    · exact absurd (hall e1 (by simp [h])) h1
  · by_cases h : fieldInt n = some (natInt m)
    · exact h
    · exact absurd (hall e2 (by simp [h])) h2

/-- the recount of an input that ends inside an open interchange blames the end of input -/
theorem recountTail_last (chk : Bool) (earlier : List Envelope.Interchange) (o : Envelope.OpenInterchange) :
    ∃ X l, Envelope.recountTail chk earlier (some o) = X ++ [l] ∧ l ≠ [] := by
  obtain ⟨c, gs, last⟩ := o
  cases last with
  | none =>
    refine ⟨dupErr Err.isa025 c (earlier.map (·.isaCtl)) :: Envelope.recountGroups chk [] gs, [Err.isa023], ?_, by simp⟩
    simp [Envelope.recountTail, Envelope.recountOpenGroup]
  | some og =>
    obtain ⟨c2, ts, last2⟩ := og
    cases last2 with
    | none =>
      refine ⟨dupErr Err.isa025 c (earlier.map (·.isaCtl)) :: (Envelope.recountGroups chk [] gs ++
        (dupErr Err.gs6 c2 (gs.map (·.gsCtl)) :: Envelope.recountSets chk [] ts)), [Err.isa023, Err.gs3], ?_, by simp⟩
      simp [Envelope.recountTail, Envelope.recountOpenGroup, Envelope.recountOpenSet]
    | some os =>
      refine ⟨dupErr Err.isa025 c (earlier.map (·.isaCtl)) :: (Envelope.recountGroups chk [] gs ++
        (dupErr Err.gs6 c2 (gs.map (·.gsCtl)) :: (Envelope.recountSets chk [] ts ++
          (dupErr Err.st23 os.stCtl (ts.map (·.stCtl)) :: Envelope.recountBody chk [] os.body)))),
        [Err.isa023, Err.gs3, Err.st2], ?_, by simp⟩
      simp [Envelope.recountTail, Envelope.recountOpenGroup, Envelope.recountOpenSet]

/-! ### what a single `Write` hands to the stream, trailers aside -/

theorem closeLoop_chk (d : Delims) (s : RState) (top : Kind × Option Str) : (closeLoop d s top).1.chk837 = s.chk837 := by
  unfold closeLoop
  split <;> rfl

theorem closeLoop_trailer (d : Delims) (hd : DelimsOk d) (s : RState) (top : Kind × Option Str) :
    isTrailerId (closeLoop d s top).2.id = true := by
  unfold closeLoop
  split
  · simp only; rw [trailerSeg_id d hd idIEA (by decide)]; decide
  · simp only; rw [trailerSeg_id d hd idGE (by decide)]; decide
  · simp only; rw [trailerSeg_id d hd idSE (by decide)]; decide

theorem popTo_facts (d : Delims) (hd : DelimsOk d) (k : Kind) : ∀ (L : List (Kind × Option Str)) (s : RState),
    (popTo d k L s).1.chk837 = s.chk837 ∧ ∀ x ∈ (popTo d k L s).2, isTrailerId x.id = true := by
  intro L
  induction L with
  | nil => intro s; simp [popTo]
  | cons top r ih =>
    intro s
    simp only [popTo]
    split
    · refine ⟨by rw [closeLoop_chk], ?_⟩
      intro x hx
      simp only [List.mem_singleton] at hx
      subst hx
      exact closeLoop_trailer d hd _ _
    · obtain ⟨h1, h2⟩ := ih (closeLoop d { s with loops := r } top).1
      refine ⟨by rw [h1, closeLoop_chk], ?_⟩
      intro x hx
      rcases List.mem_cons.mp hx with e | e
      · subst e; exact closeLoop_trailer d hd _ _
      · exact h2 x e

theorem write_ISA_short (c : Cfg) (w : RState) (s : Seg) (hid : s.id = idISA) (h16 : s.elems.length ≠ 16) :
    write c w s = .raised := by
  simp [write, viewOf, viewISA, hid, h16, Outcome.bind, baseStep, Envelope.baseBranch, Envelope.baseIsa,
    Envelope.Outcome.bind, lift]

/-- one `Write`: the non-trailer part of what is handed to the stream is the segment itself (the ISA with its
separator elements set), nothing for a trailer; `check_837_lx` stays off -/
theorem write_nonTrailer (c : Cfg) (hd : DelimsOk c.d) (w w' : RState) (s : Seg) (outs : List Seg) (hw : WfSeg s)
    (hc : w.chk837 = false) (h : write c w s = .ok (w', outs)) :
    w'.chk837 = false ∧ outs.filter notTrailer = ([s].filter notTrailer).map (fixISA c) := by
  by_cases ht : isTrailerId s.id = true
  · rw [write_trailer c w s ht hc] at h
    have hf : ∀ k, (popToLoop c.d k w).1.chk837 = false ∧ (popToLoop c.d k w).2.filter notTrailer = [] := by
      intro k
      obtain ⟨h1, h2⟩ := popTo_facts c.d hd k w.loops w
      refine ⟨by rw [popToLoop, h1, hc], ?_⟩
      rw [List.filter_eq_nil_iff]
      intro x hx
      simp [notTrailer, h2 x hx]
    have hres : (w', outs) = (if s.id = idIEA then popToLoop c.d .isa w else if s.id = idGE then popToLoop c.d .gs w
        else popToLoop c.d .st w) := by injection h with h; exact h.symm
    have : w'.chk837 = false ∧ outs.filter notTrailer = [] := by
      have e1 : w' = (w', outs).1 := rfl
      have e2 : outs = (w', outs).2 := rfl
      rw [e1, e2, hres]
      split
      · exact hf _
      · split <;> exact hf _
    simpa [notTrailer, ht] using this
  · have ht' : isTrailerId s.id = false := by simpa using ht
    have hnt : [s].filter notTrailer = [s] := by simp [notTrailer, ht']
    rw [hnt]
    by_cases hI : s.id = idISA
    · by_cases h16 : s.elems.length = 16
      · rw [write_ISA c w s hw hI h16] at h
        injection h with h
        injection h with e1 e2
        subst e1; subst e2
        have : notTrailer (isaOut c s (valueAt c.d.ele s 11)) = true := by
          simp only [notTrailer, isaOut]; simpa using ht
        simp [this, fixISA, hI, hc]
      · rw [write_ISA_short c w s hI h16] at h; cases h
    · by_cases hG : s.id = idGS
      · rw [write_GS c w s hw hG] at h
        injection h with h
        injection h with e1 e2
        subst e1; subst e2
        simp [hnt, fixISA, hI, hc]
      · by_cases hS : s.id = idST
        · rw [write_ST c w s hw hS] at h
          injection h with h
          injection h with e1 e2
          subst e1; subst e2
          simp [hnt, fixISA, hI, hc]
        · have henv : isEnvId s.id = false := by
            simp only [isTrailerId, Bool.or_eq_false_iff, beq_eq_false_iff_ne] at ht'
            simp [isEnvId, hI, hG, hS, ht'.1.1, ht'.1.2, ht'.2]
          obtain ⟨w1, hw1, hsame, _⟩ := write_body c w s hw henv hc
          rw [hw1] at h
          injection h with h
          injection h with e1 e2
          subst e1; subst e2
          simp [hnt, fixISA, hI, hsame.chk837, hc]

end Pyx12Verif.Writer
